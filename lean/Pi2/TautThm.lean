import Pi2.Taut
/-!
# The tautology prover decides correctly

Stages: `ofForm` (1), `propagNeg` (2), `toCnfF` (3), `toClauses` (4), resolution soundness (5) and
completeness (6, via the abstract completeness theorem for single-clash resolution), `proveTautology`
(7).
-/
set_option linter.unusedSimpArgs false
set_option linter.unusedVariables false

namespace CF

/-! ## 1. `ofForm` -/

/-- only `or` and `var` nodes, any flags -/
def IsOrTree : CF → Bool
  | var _ _ => true
  | or _ l r => l.IsOrTree && r.IsOrTree
  | _ => false

theorem eval_setNeg (b : Bool) (c : CF) (v : Nat → Bool) :
    (c.setNeg b).eval v = xor (xor b c.negated) (c.eval v) := by
  cases c <;> cases b <;> simp [setNeg, eval, negated]

theorem isOrTree_setNeg (b : Bool) (c : CF) : (c.setNeg b).IsOrTree = c.IsOrTree := by
  cases c <;> simp [setNeg, IsOrTree]

theorem isBot_setNeg (b : Bool) (c : CF) : (c.setNeg b).isBot = c.isBot := by
  cases c <;> simp [setNeg, isBot]

/-- flipping the flag of a non-`bot` node negates it -/
theorem eval_flip (c : CF) (v : Nat → Bool) :
    (if c.negated then c.setNeg false else c.setNeg true).eval v = !(c.eval v) := by
  cases h : c.negated <;> simp [eval_setNeg, h]

theorem ofForm_spec (f : Form) :
    (∀ v, (CF.ofForm f).eval v = f.eval v) ∧
      ((CF.ofForm f).isBot = true ∨ (CF.ofForm f).IsOrTree = true) := by
  induction f with
  | bot => exact ⟨fun v => by simp [ofForm, eval, Form.eval], Or.inl rfl⟩
  | var n => exact ⟨fun v => by simp [ofForm, eval, Form.eval], Or.inr rfl⟩
  | imp p0 p1 ih0 ih1 =>
    obtain ⟨e0, s0⟩ := ih0
    obtain ⟨e1, s1⟩ := ih1
    simp only [ofForm]
    split
    · next hb =>
      obtain ⟨rfl, rfl⟩ := hb
      exact ⟨fun v => by simp [eval, Form.eval], Or.inl rfl⟩
    · generalize ofForm p1 = c1 at e1 s1 ⊢
      generalize ofForm p0 = c0 at e0 s0 ⊢
      cases c1 with
      | bot b1 =>
        cases b1 with
        | true =>
          refine ⟨fun v => ?_, Or.inl rfl⟩
          have := e1 v; simp [eval] at this
          simp [eval, Form.eval, ← this]
        | false =>
          have h1 : ∀ v, p1.eval v = false := fun v => by have := e1 v; simpa [eval] using this.symm
          cases c0 with
          | bot b0 =>
            cases b0 with
            | true =>
              refine ⟨fun v => ?_, Or.inl rfl⟩
              have := e0 v; simp [eval] at this
              simp [eval, Form.eval, h1, ← this]
            | false =>
              refine ⟨fun v => ?_, Or.inl rfl⟩
              have := e0 v; simp [eval] at this
              simp [eval, Form.eval, h1, ← this]
          | var n i =>
            refine ⟨fun v => ?_, Or.inr ?_⟩
            · simp only []
              rw [eval_flip, e0 v]; simp [Form.eval, h1]
            · simp only []
              split <;> simp [isOrTree_setNeg, IsOrTree]
          | or n l r =>
            refine ⟨fun v => ?_, Or.inr ?_⟩
            · simp only []
              rw [eval_flip, e0 v]; simp [Form.eval, h1]
            · simp only []
              have : (or n l r).IsOrTree = true := by simpa [isBot] using s0
              split <;> simp [isOrTree_setNeg, this]
          | and n l r => simp [isBot, IsOrTree] at s0
      | var n1 i1 =>
        cases c0 with
        | bot b0 =>
          cases b0 with
          | true =>
            refine ⟨fun v => ?_, Or.inr rfl⟩
            have := e0 v; simp [eval] at this
            simp only []; rw [e1 v]; simp [Form.eval, ← this]
          | false =>
            refine ⟨fun v => ?_, Or.inl rfl⟩
            have := e0 v; simp [eval] at this
            simp [eval, Form.eval, ← this]
        | var n i =>
          refine ⟨fun v => ?_, Or.inr ?_⟩
          · simp only []
            have := eval_flip (var n i) v
            split <;> simp_all [eval, Form.eval]
          · simp only []
            split <;> simp [isOrTree_setNeg, IsOrTree]
        | or n l r =>
          have hs : (or n l r).IsOrTree = true := by simpa [isBot] using s0
          refine ⟨fun v => ?_, Or.inr ?_⟩
          · simp only []
            have := eval_flip (or n l r) v
            split <;> simp_all [eval, Form.eval]
          · simp only []
            split <;> simp_all [isOrTree_setNeg, IsOrTree]
        | and n l r => simp [isBot, IsOrTree] at s0
      | or n1 l1 r1 =>
        have hs1 : (or n1 l1 r1).IsOrTree = true := by simpa [isBot] using s1
        cases c0 with
        | bot b0 =>
          cases b0 with
          | true =>
            refine ⟨fun v => ?_, Or.inr hs1⟩
            have := e0 v; simp [eval] at this
            simp only []; rw [e1 v]; simp [Form.eval, ← this]
          | false =>
            refine ⟨fun v => ?_, Or.inl rfl⟩
            have := e0 v; simp [eval] at this
            simp [eval, Form.eval, ← this]
        | var n i =>
          refine ⟨fun v => ?_, Or.inr ?_⟩
          · simp only []
            have := eval_flip (var n i) v
            have := e1 v
            split <;> simp_all [eval, Form.eval]
          · simp only []
            split <;> simp_all [isOrTree_setNeg, IsOrTree]
        | or n l r =>
          have hs : (or n l r).IsOrTree = true := by simpa [isBot] using s0
          refine ⟨fun v => ?_, Or.inr ?_⟩
          · simp only []
            have := eval_flip (or n l r) v
            have := e1 v
            split <;> simp_all [eval, Form.eval]
          · simp only []
            split <;> simp_all [isOrTree_setNeg, IsOrTree]
        | and n l r => simp [isBot, IsOrTree] at s0
      | and n1 l1 r1 => simp [isBot, IsOrTree] at s1

theorem ofForm_eval (f : Form) (v : Nat → Bool) : (CF.ofForm f).eval v = f.eval v :=
  (ofForm_spec f).1 v

theorem ofForm_shape (f : Form) :
    (CF.ofForm f).isBot = true ∨ (CF.ofForm f).IsOrTree = true := (ofForm_spec f).2

end CF

namespace CF

/-! ## 2. `propagNeg` -/

/-- only unflagged `and`/`or` nodes and `var` leaves (any flag) -/
def IsNNF : CF → Bool
  | var _ _ => true
  | and n l r => !n && l.IsNNF && r.IsNNF
  | or n l r => !n && l.IsNNF && r.IsNNF
  | bot _ => false

theorem propagNegAux_spec (c : CF) : ∀ flip : Bool, c.IsOrTree = true →
    ∃ r, CF.propagNegAux flip c = some r ∧ (∀ v, r.eval v = xor flip (c.eval v)) ∧
      r.IsNNF = true := by
  induction c with
  | bot n => intro _ h; simp [IsOrTree] at h
  | and n l r _ _ => intro _ h; simp [IsOrTree] at h
  | var n i =>
    intro flip _
    refine ⟨_, rfl, fun v => ?_, rfl⟩
    cases n <;> cases flip <;> cases hv : v i <;> simp [eval, hv]
  | or n l r ihl ihr =>
    intro flip h
    simp only [IsOrTree, Bool.and_eq_true] at h
    simp only [propagNegAux]
    split
    · next hx =>
      obtain ⟨l', hl', el, sl⟩ := ihl true h.1
      obtain ⟨r', hr', er, sr⟩ := ihr true h.2
      refine ⟨and false l' r', by simp [hl', hr'], fun v => ?_, by simp [IsNNF, sl, sr]⟩
      simp only [eval, el v, er v]
      cases n <;> cases flip <;> simp at hx <;> cases eval v l <;> cases eval v r <;> rfl
    · next hx =>
      obtain ⟨l', hl', el, sl⟩ := ihl false h.1
      obtain ⟨r', hr', er, sr⟩ := ihr false h.2
      refine ⟨or false l' r', by simp [hl', hr'], fun v => ?_, by simp [IsNNF, sl, sr]⟩
      simp only [eval, el v, er v]
      cases n <;> cases flip <;> simp at hx <;> cases eval v l <;> cases eval v r <;> rfl

theorem propagNeg_spec (c : CF) : c.IsOrTree = true →
    ∃ r, CF.propagNeg c = some r ∧ (∀ v, r.eval v = c.eval v) ∧ r.IsNNF = true := by
  intro h
  obtain ⟨r, hr, he, hs⟩ := propagNegAux_spec c false h
  exact ⟨r, hr, fun v => by simpa using he v, hs⟩

/-! ## 3. `toCnfF` -/

/-- a tree of unflagged `or`s of `var`s -/
def IsOrClause : CF → Bool
  | var _ _ => true
  | or n l r => !n && l.IsOrClause && r.IsOrClause
  | _ => false

/-- a tree of unflagged `and`s whose leaves are or-clauses -/
def IsCNF : CF → Bool
  | and n l r => !n && l.IsCNF && r.IsCNF
  | var _ _ => true
  | or n l r => !n && l.IsOrClause && r.IsOrClause
  | bot _ => false

theorem isNNF_of_isOrClause (c : CF) (h : c.IsOrClause = true) : c.IsNNF = true := by
  induction c with
  | var n i => rfl
  | or n l r ihl ihr =>
    simp only [IsOrClause, Bool.and_eq_true] at h
    simp [IsNNF, h.1.1, ihl h.1.2, ihr h.2]
  | _ => simp [IsOrClause] at h

theorem isNNF_of_isCNF (c : CF) (h : c.IsCNF = true) : c.IsNNF = true := by
  induction c with
  | var n i => rfl
  | and n l r ihl ihr =>
    simp only [IsCNF, Bool.and_eq_true] at h
    simp [IsNNF, h.1.1, ihl h.1.2, ihr h.2]
  | or n l r _ _ =>
    simp only [IsCNF, Bool.and_eq_true] at h
    simp [IsNNF, h.1.1, isNNF_of_isOrClause l h.1.2, isNNF_of_isOrClause r h.2]
  | bot n => simp [IsCNF] at h

theorem isCNF_of_isOrClause (c : CF) (h : c.IsOrClause = true) : c.IsCNF = true := by
  cases c with
  | var n i => rfl
  | or n l r => simpa [IsCNF, IsOrClause] using h
  | _ => simp [IsOrClause] at h

/-- a CNF that is not an `and` is an or-clause -/
theorem isOrClause_of_isCNF (c : CF) (h : c.IsCNF = true) (hna : ∀ n l r, c ≠ and n l r) :
    c.IsOrClause = true := by
  cases c with
  | var n i => rfl
  | or n l r => simpa [IsCNF, IsOrClause] using h
  | and n l r => exact absurd rfl (hna n l r)
  | bot n => simp [IsCNF] at h

theorem weight_ge_two (c : CF) : 2 ≤ c.weight := by
  induction c with
  | bot n => simp [weight]
  | var n i => simp [weight]
  | and n l r ihl ihr => simp only [weight]; omega
  | or n l r ihl ihr =>
    simp only [weight]
    calc 2 ≤ 2 * 2 := by omega
      _ ≤ l.weight * r.weight := Nat.mul_le_mul ihl ihr

/-- the distribution step of `to_cnf` after the two recursive calls -/
def distr (k : Nat) (l' r' : CF) : Option CF :=
  match l', r' with
  | and _ ll lr, _ => toCnfF k (and false (or false ll r') (or false lr r'))
  | _, and _ rl rr => toCnfF k (and false (or false l' rl) (or false l' rr))
  | _, _ => pure (or false l' r')

theorem toCnfF_or (k : Nat) (n : Bool) (l r : CF) :
    toCnfF (k + 1) (or n l r) =
      (toCnfF k l).bind fun l' => (toCnfF k r).bind fun r' => distr k l' r' := by
  simp only [toCnfF, Option.bind_eq_bind]
  cases toCnfF k l with
  | none => rfl
  | some l' =>
    cases toCnfF k r with
    | none => rfl
    | some r' =>
      simp only [Option.bind_some, distr]
      cases l' <;> cases r' <;> rfl

/-- the full specification of `toCnfF` with the explicit fuel bound `weight c` -/
theorem toCnfF_full (k : Nat) : ∀ c : CF, c.IsNNF = true →
    (∀ r, CF.toCnfF k c = some r →
      (∀ v, r.eval v = c.eval v) ∧ r.IsCNF = true ∧ r.weight ≤ c.weight) ∧
    (c.weight ≤ k → ∃ r, CF.toCnfF k c = some r) := by
  induction k with
  | zero =>
    intro c _
    refine ⟨fun r h => by simp [toCnfF] at h, fun h => ?_⟩
    have := weight_ge_two c; omega
  | succ k ih =>
    intro c hc
    cases c with
    | bot n => simp [IsNNF] at hc
    | var n i =>
      refine ⟨fun r h => ?_, fun _ => ⟨_, rfl⟩⟩
      simp only [toCnfF, Option.some.injEq] at h; subst h
      exact ⟨fun _ => rfl, rfl, Nat.le_refl _⟩
    | and n l r =>
      simp only [IsNNF, Bool.and_eq_true, Bool.not_eq_true'] at hc
      obtain ⟨⟨hn, hl⟩, hr⟩ := hc
      subst hn
      obtain ⟨ihlA, ihlB⟩ := ih l hl
      obtain ⟨ihrA, ihrB⟩ := ih r hr
      constructor
      · intro res h
        simp only [toCnfF, Option.bind_eq_bind, Option.bind_eq_some_iff, Option.pure_def,
          Option.some.injEq] at h
        obtain ⟨l', hl', r', hr', rfl⟩ := h
        obtain ⟨el, cl, wl⟩ := ihlA l' hl'
        obtain ⟨er, cr, wr⟩ := ihrA r' hr'
        refine ⟨fun v => by simp [eval, el v, er v], by simp [IsCNF, cl, cr], ?_⟩
        simp only [weight]; omega
      · intro hw
        simp only [weight] at hw
        obtain ⟨l', hl'⟩ := ihlB (by omega)
        obtain ⟨r', hr'⟩ := ihrB (by omega)
        exact ⟨and false l' r', by simp [toCnfF, hl', hr']⟩
    | or n l r =>
      simp only [IsNNF, Bool.and_eq_true, Bool.not_eq_true'] at hc
      obtain ⟨⟨hn, hl⟩, hr⟩ := hc
      subst hn
      obtain ⟨ihlA, ihlB⟩ := ih l hl
      obtain ⟨ihrA, ihrB⟩ := ih r hr
      have h2l := weight_ge_two l
      have h2r := weight_ge_two r
      -- the common part: what happens after the two recursive calls
      have key : ∀ l' r', toCnfF k l = some l' → toCnfF k r = some r' →
          (∀ res, distr k l' r' = some res →
            (∀ v, res.eval v = (or false l r).eval v) ∧ res.IsCNF = true ∧
              res.weight ≤ (or false l r).weight) ∧
          (l.weight * r.weight ≤ k + 1 → ∃ res, distr k l' r' = some res) := by
        intro l' r' hl' hr'
        obtain ⟨el, cl, wl⟩ := ihlA l' hl'
        obtain ⟨er, cr, wr⟩ := ihrA r' hr'
        have hmul : l'.weight * r'.weight ≤ l.weight * r.weight := Nat.mul_le_mul wl wr
        have h2l' := weight_ge_two l'
        have h2r' := weight_ge_two r'
        cases l' with
        | and nl ll lr =>
          simp only [IsCNF, Bool.and_eq_true, Bool.not_eq_true'] at cl
          obtain ⟨⟨hnl, cll⟩, clr⟩ := cl
          subst hnl
          have hnnf : (and false (or false ll r') (or false lr r')).IsNNF = true := by
            simp [IsNNF, isNNF_of_isCNF ll cll, isNNF_of_isCNF lr clr, isNNF_of_isCNF r' cr]
          obtain ⟨ihnA, ihnB⟩ := ih _ hnnf
          have hw : (and false (or false ll r') (or false lr r')).weight + 1 ≤
              l.weight * r.weight := by
            simp only [weight] at hmul ⊢
            have : (ll.weight + lr.weight + 1) * r'.weight
                = ll.weight * r'.weight + lr.weight * r'.weight + r'.weight := by
              rw [Nat.add_mul, Nat.add_mul, Nat.one_mul]
            omega
          constructor
          · intro res h
            obtain ⟨e, c', w⟩ := ihnA res h
            refine ⟨fun v => ?_, c', ?_⟩
            · rw [e v]
              have h1 := el v; have h2 := er v
              simp only [eval, Bool.false_xor] at h1 ⊢
              rw [← h1, ← h2]
              cases eval v ll <;> cases eval v lr <;> cases eval v r' <;> rfl
            · simp only [weight] at hw w ⊢; omega
          · intro hk
            exact ihnB (by omega)
        | var nl il =>
          cases r' with
          | and nr rl rr =>
            simp only [IsCNF, Bool.and_eq_true, Bool.not_eq_true'] at cr
            obtain ⟨⟨hnr, crl⟩, crr⟩ := cr
            subst hnr
            have hnnf : (and false (or false (var nl il) rl) (or false (var nl il) rr)).IsNNF
                = true := by
              simp [IsNNF, isNNF_of_isCNF rl crl, isNNF_of_isCNF rr crr]
            obtain ⟨ihnA, ihnB⟩ := ih _ hnnf
            have hw : (and false (or false (var nl il) rl) (or false (var nl il) rr)).weight + 1 ≤
                l.weight * r.weight := by
              simp only [weight] at hmul ⊢
              have : 2 * (rl.weight + rr.weight + 1) = 2 * rl.weight + 2 * rr.weight + 2 := by
                omega
              omega
            constructor
            · intro res h
              obtain ⟨e, c', w⟩ := ihnA res h
              refine ⟨fun v => ?_, c', ?_⟩
              · rw [e v]
                have h1 := el v; have h2 := er v
                simp only [eval, Bool.false_xor] at h1 h2 ⊢
                rw [← h1, ← h2]
                cases eval v rl <;> cases eval v rr <;> cases (xor nl (v il)) <;> rfl
              · simp only [weight] at hw w ⊢; omega
            · intro hk
              exact ihnB (by omega)
          | var nr ir =>
            refine ⟨fun res h => ?_, fun _ => ⟨_, rfl⟩⟩
            simp only [distr, Option.pure_def, Option.some.injEq] at h; subst h
            exact ⟨fun v => by simp [eval, ← el v, ← er v], by simp [IsCNF, IsOrClause],
              by simpa [weight] using hmul⟩
          | or nr rl rr =>
            refine ⟨fun res h => ?_, fun _ => ⟨_, rfl⟩⟩
            simp only [distr, Option.pure_def, Option.some.injEq] at h; subst h
            have := isOrClause_of_isCNF _ cr (by intro _ _ _ e; cases e)
            exact ⟨fun v => by simp [eval, ← el v, ← er v],
              by simp [IsCNF, IsOrClause] at this ⊢; exact this,
              by simpa [weight] using hmul⟩
          | bot nr => simp [IsCNF] at cr
        | or nl ll lr =>
          have hlc := isOrClause_of_isCNF _ cl (by intro _ _ _ e; cases e)
          cases r' with
          | and nr rl rr =>
            simp only [IsCNF, Bool.and_eq_true, Bool.not_eq_true'] at cr
            obtain ⟨⟨hnr, crl⟩, crr⟩ := cr
            subst hnr
            have hnnf : (and false (or false (or nl ll lr) rl) (or false (or nl ll lr) rr)).IsNNF
                = true := by
              have := isNNF_of_isCNF _ cl
              simp [IsNNF, isNNF_of_isCNF rl crl, isNNF_of_isCNF rr crr] at this ⊢
              simp [this]
            obtain ⟨ihnA, ihnB⟩ := ih _ hnnf
            have hw : (and false (or false (or nl ll lr) rl) (or false (or nl ll lr) rr)).weight
                + 1 ≤ l.weight * r.weight := by
              simp only [weight] at hmul h2l' ⊢
              have : ll.weight * lr.weight * (rl.weight + rr.weight + 1)
                  = ll.weight * lr.weight * rl.weight + ll.weight * lr.weight * rr.weight
                    + ll.weight * lr.weight := by
                rw [Nat.mul_add, Nat.mul_add, Nat.mul_one]
              omega
            constructor
            · intro res h
              obtain ⟨e, c', w⟩ := ihnA res h
              refine ⟨fun v => ?_, c', ?_⟩
              · rw [e v]
                have h1 := el v; have h2 := er v
                simp only [eval, Bool.false_xor] at h1 h2 ⊢
                rw [← h1, ← h2]
                cases eval v rl <;> cases eval v rr <;>
                  cases (xor nl (eval v ll || eval v lr)) <;> rfl
              · simp only [weight] at hw w ⊢; omega
            · intro hk
              exact ihnB (by omega)
          | var nr ir =>
            refine ⟨fun res h => ?_, fun _ => ⟨_, rfl⟩⟩
            simp only [distr, Option.pure_def, Option.some.injEq] at h; subst h
            exact ⟨fun v => by simp [eval, ← el v, ← er v],
              by simp [IsCNF, IsOrClause] at hlc ⊢; exact hlc,
              by simpa [weight] using hmul⟩
          | or nr rl rr =>
            refine ⟨fun res h => ?_, fun _ => ⟨_, rfl⟩⟩
            simp only [distr, Option.pure_def, Option.some.injEq] at h; subst h
            have hrc := isOrClause_of_isCNF _ cr (by intro _ _ _ e; cases e)
            exact ⟨fun v => by simp [eval, ← el v, ← er v],
              by simp [IsCNF, IsOrClause] at hlc hrc ⊢; exact ⟨hlc, hrc⟩,
              by simpa [weight] using hmul⟩
          | bot nr => simp [IsCNF] at cr
        | bot nl => simp [IsCNF] at cl
      constructor
      · intro res h
        rw [toCnfF_or] at h
        simp only [Option.bind_eq_some_iff] at h
        obtain ⟨l', hl', r', hr', h⟩ := h
        exact (key l' r' hl' hr').1 res h
      · intro hw
        simp only [weight] at hw
        have hlk : l.weight ≤ k := by
          have : l.weight * 2 ≤ l.weight * r.weight := Nat.mul_le_mul_left _ h2r
          omega
        have hrk : r.weight ≤ k := by
          have : 2 * r.weight ≤ l.weight * r.weight := Nat.mul_le_mul_right _ h2l
          omega
        obtain ⟨l', hl'⟩ := ihlB hlk
        obtain ⟨r', hr'⟩ := ihrB hrk
        obtain ⟨res, hres⟩ := (key l' r' hl' hr').2 hw
        exact ⟨res, by rw [toCnfF_or, hl', hr']; exact hres⟩

theorem toCnfF_spec (k : Nat) (c r : CF) : c.IsNNF = true → CF.toCnfF k c = some r →
    (∀ v, r.eval v = c.eval v) ∧ r.IsCNF = true := by
  intro hc h
  obtain ⟨e, s, _⟩ := (toCnfF_full k c hc).1 r h
  exact ⟨e, s⟩

/-- `weight c` fuel suffices -/
theorem toCnfF_weight (c : CF) (k : Nat) : c.IsNNF = true → c.weight ≤ k →
    ∃ r, CF.toCnfF k c = some r ∧ r.weight ≤ c.weight := by
  intro hc hk
  obtain ⟨r, hr⟩ := (toCnfF_full k c hc).2 hk
  exact ⟨r, hr, ((toCnfF_full k c hc).1 r hr).2.2⟩

theorem toCnfF_terminates (c : CF) : c.IsNNF = true → ∃ k r, CF.toCnfF k c = some r := by
  intro hc
  obtain ⟨r, hr, _⟩ := toCnfF_weight c c.weight hc (Nat.le_refl _)
  exact ⟨_, r, hr⟩

end CF

/-! ## 4. clauses -/

namespace Res

def evalLit (v : Nat → Bool) (l : Int) : Bool :=
  if l > 0 then v (l.toNat - 1) else !(v ((-l).toNat - 1))
def evalClause (v : Nat → Bool) (cl : List Int) : Bool := cl.any (evalLit v)
def evalClauses (v : Nat → Bool) (cls : List (List Int)) : Bool := cls.all (evalClause v)

/-- the literal `0` does not name a variable (`to_clauses` never produces it) -/
def NoZero (c : List Int) : Prop := ∀ x ∈ c, x ≠ 0

theorem evalLit_pos (v : Nat → Bool) (i : Nat) : evalLit v ((i : Int) + 1) = v i := by
  have h : ((i : Int) + 1) > 0 := by omega
  have e : ((i : Int) + 1).toNat - 1 = i := by omega
  simp [evalLit, h, e]

theorem evalLit_negv (v : Nat → Bool) (i : Nat) : evalLit v (-((i : Int) + 1)) = !(v i) := by
  have h : ¬ (-((i : Int) + 1)) > 0 := by omega
  have e : (-(-((i : Int) + 1))).toNat - 1 = i := by omega
  simp only [evalLit, h, if_false, e]

theorem evalLit_neg (v : Nat → Bool) (x : Int) (hx : x ≠ 0) : evalLit v (-x) = !(evalLit v x) := by
  unfold evalLit
  by_cases h : x > 0
  · have h' : ¬ (-x > 0) := by omega
    simp only [h, h', if_true, if_false, Int.neg_neg]
  · have h' : -x > 0 := by omega
    simp only [h, h', if_true, if_false, Int.neg_neg, Bool.not_not]

end Res

namespace CF
open Res

theorem toClauses_orClause (c : CF) : c.IsOrClause = true →
    ∃ x, CF.toClauses c = some [x] ∧ (∀ v, evalClause v x = c.eval v) ∧ x ≠ [] ∧ NoZero x := by
  induction c with
  | bot n => intro h; simp [IsOrClause] at h
  | and n l r _ _ => intro h; simp [IsOrClause] at h
  | var n i =>
    intro _
    refine ⟨_, rfl, fun v => ?_, by simp, ?_⟩
    · cases n
      · simp [evalClause, evalLit_pos, eval]
      · simp [evalClause, evalLit_negv, eval]
    · intro x hx
      cases n <;> simp at hx <;> omega
  | or n l r ihl ihr =>
    intro h
    simp only [IsOrClause, Bool.and_eq_true, Bool.not_eq_true'] at h
    obtain ⟨⟨hn, hl⟩, hr⟩ := h
    subst hn
    obtain ⟨x, hx, ex, nx, zx⟩ := ihl hl
    obtain ⟨y, hy, ey, ny, zy⟩ := ihr hr
    refine ⟨x ++ y, by simp [toClauses, hx, hy], fun v => ?_, by simp [nx], ?_⟩
    · simp [evalClause, eval, List.any_append] at ex ey ⊢
      rw [← ex v, ← ey v]
    · intro z hz
      rcases List.mem_append.mp hz with hz | hz
      · exact zx z hz
      · exact zy z hz

theorem toClauses_spec (c : CF) : c.IsCNF = true →
    ∃ cls, CF.toClauses c = some cls ∧ (∀ v, Res.evalClauses v cls = c.eval v) ∧
      (∀ cl ∈ cls, cl ≠ []) ∧ (∀ cl ∈ cls, NoZero cl) := by
  induction c with
  | bot n => intro h; simp [IsCNF] at h
  | var n i =>
    intro _
    obtain ⟨x, hx, ex, nx, zx⟩ := toClauses_orClause (var n i) rfl
    exact ⟨[x], hx, fun v => by simp [evalClauses, ex v], by simp [nx], by simpa using zx⟩
  | or n l r _ _ =>
    intro h
    obtain ⟨x, hx, ex, nx, zx⟩ := toClauses_orClause (or n l r) (by simpa [IsCNF, IsOrClause] using h)
    exact ⟨[x], hx, fun v => by simp [evalClauses, ex v], by simp [nx], by simpa using zx⟩
  | and n l r ihl ihr =>
    intro h
    simp only [IsCNF, Bool.and_eq_true, Bool.not_eq_true'] at h
    obtain ⟨⟨hn, hl⟩, hr⟩ := h
    subst hn
    obtain ⟨a, ha, ea, na, za⟩ := ihl hl
    obtain ⟨b, hb, eb, nb, zb⟩ := ihr hr
    refine ⟨a ++ b, by simp [toClauses, ha, hb], fun v => ?_, ?_, ?_⟩
    · simp [evalClauses, eval, List.all_append] at ea eb ⊢
      rw [← ea v, ← eb v]
    · intro cl hcl
      rcases List.mem_append.mp hcl with h | h
      · exact na cl h
      · exact nb cl h
    · intro cl hcl
      rcases List.mem_append.mp hcl with h | h
      · exact za cl h
      · exact zb cl h

end CF

/-! ## 5. resolution: soundness -/

namespace Res

theorem mem_insertSorted (x y : Int) (l : List Int) :
    y ∈ insertSorted x l ↔ y = x ∨ y ∈ l := by
  induction l with
  | nil => simp [insertSorted]
  | cons z r ih =>
    simp only [insertSorted]
    split
    · simp
    · split
      · next h => subst h; simp
      · simp only [List.mem_cons, ih]
        constructor
        · rintro (h | h | h)
          · exact Or.inr (Or.inl h)
          · exact Or.inl h
          · exact Or.inr (Or.inr h)
        · rintro (h | h | h)
          · exact Or.inr (Or.inl h)
          · exact Or.inl h
          · exact Or.inr (Or.inr h)

theorem mem_canon (y : Int) (c : List Int) : y ∈ canon c ↔ y ∈ c := by
  induction c with
  | nil => simp [canon]
  | cons x r ih =>
    have : canon (x :: r) = insertSorted x (canon r) := rfl
    rw [this, mem_insertSorted, ih]; simp

theorem evalClause_true_iff (v : Nat → Bool) (c : List Int) :
    evalClause v c = true ↔ ∃ x ∈ c, evalLit v x = true := by
  simp [evalClause, List.any_eq_true]

theorem evalClause_congr (v : Nat → Bool) (a b : List Int) (h : ∀ x, x ∈ a ↔ x ∈ b) :
    evalClause v a = evalClause v b := by
  rw [Bool.eq_iff_iff, evalClause_true_iff, evalClause_true_iff]
  constructor
  · rintro ⟨x, hx, e⟩; exact ⟨x, (h x).mp hx, e⟩
  · rintro ⟨x, hx, e⟩; exact ⟨x, (h x).mpr hx, e⟩

theorem evalClause_canon (v : Nat → Bool) (c : List Int) :
    evalClause v (canon c) = evalClause v c :=
  evalClause_congr v _ _ (fun x => mem_canon x c)

theorem trivial_iff (c : List Int) : trivial c = true ↔ ∃ x ∈ c, -x ∈ c := by
  simp [trivial, List.any_eq_true]

theorem noZero_of_nontrivial (c : List Int) (h : trivial c = false) : NoZero c := by
  intro x hx e
  subst e
  have : trivial c = true := (trivial_iff c).mpr ⟨0, hx, by simpa using hx⟩
  rw [h] at this; cases this

theorem trivial_valid (c : List Int) (hz : NoZero c) (h : trivial c = true) (v : Nat → Bool) :
    evalClause v c = true := by
  obtain ⟨x, hx, hnx⟩ := (trivial_iff c).mp h
  rw [evalClause_true_iff]
  cases e : evalLit v x with
  | true => exact ⟨x, hx, e⟩
  | false => exact ⟨-x, hnx, by rw [evalLit_neg v x (hz x hx), e]; rfl⟩

theorem resolvable_inv (c1 c2 : List Int) (r : Int) (res : List Int)
    (h : resolvable c1 c2 = some (r, res)) :
    c2.filter (fun y => c1.contains (-y)) = [r] ∧
      res = canon ((c1.filter (· ≠ -r)) ++ (c2.filter (· ≠ r))) := by
  unfold resolvable at h
  split at h
  · next r' heq =>
    simp only [Option.some.injEq, Prod.mk.injEq] at h
    obtain ⟨rfl, rfl⟩ := h
    exact ⟨heq, rfl⟩
  · simp at h

theorem resolvable_clash (c1 c2 : List Int) (r : Int) (res : List Int)
    (h : resolvable c1 c2 = some (r, res)) :
    r ∈ c2 ∧ -r ∈ c1 ∧ (∀ y ∈ c2, -y ∈ c1 → y = r) ∧
      (∀ x, x ∈ res ↔ (x ∈ c1 ∧ x ≠ -r) ∨ (x ∈ c2 ∧ x ≠ r)) := by
  obtain ⟨hf, rfl⟩ := resolvable_inv c1 c2 r res h
  have hmem : ∀ y, y ∈ c2.filter (fun y => c1.contains (-y)) ↔ y = r := by
    intro y; rw [hf]; simp
  have hr := (hmem r).mpr rfl
  simp only [List.mem_filter, List.contains_eq_mem, decide_eq_true_eq] at hr hmem
  refine ⟨hr.1, hr.2, fun y hy hny => (hmem y).mp ⟨hy, hny⟩, ?_⟩
  intro x
  simp [mem_canon, List.mem_append, List.mem_filter]

theorem resolvable_sound (c1 c2 : List Int) (r : Int) (res : List Int) (v : Nat → Bool)
    (hz : NoZero c2) (h : resolvable c1 c2 = some (r, res))
    (h1 : evalClause v c1 = true) (h2 : evalClause v c2 = true) : evalClause v res = true := by
  obtain ⟨hr2, hr1, _, hres⟩ := resolvable_clash c1 c2 r res h
  rw [evalClause_true_iff] at h1 h2 ⊢
  cases e : evalLit v r with
  | true =>
    obtain ⟨x, hx, ex⟩ := h1
    refine ⟨x, (hres x).mpr (Or.inl ⟨hx, ?_⟩), ex⟩
    intro hxr; subst hxr
    rw [evalLit_neg v r (hz r hr2), e] at ex; cases ex
  | false =>
    obtain ⟨y, hy, ey⟩ := h2
    refine ⟨y, (hres y).mpr (Or.inr ⟨hy, ?_⟩), ey⟩
    intro hyr; subst hyr
    rw [e] at ey; cases ey

theorem resolvent_noZero (c1 c2 : List Int) (r : Int) (res : List Int)
    (h : resolvable c1 c2 = some (r, res)) (z1 : NoZero c1) (z2 : NoZero c2) : NoZero res := by
  obtain ⟨_, _, _, hres⟩ := resolvable_clash c1 c2 r res h
  intro x hx
  rcases (hres x).mp hx with ⟨h, _⟩ | ⟨h, _⟩
  · exact z1 x h
  · exact z2 x h

theorem loop_sound (fuel : Nat) : ∀ (l : List (List Int)) (i j : Nat),
    (∀ c ∈ l, NoZero c) → Res.loop fuel l i j = some true →
    ¬ ∃ v, ∀ c ∈ l, evalClause v c = true := by
  induction fuel with
  | zero => intro l i j _ h; simp [loop] at h
  | succ fuel ih =>
    intro l i j hz h
    simp only [loop] at h
    split at h
    · simp at h
    · next cl1 h1 =>
      split at h
      · exact ih l (i + 1) 0 hz h
      · split at h
        · exact ih l (i + 1) 0 hz h
        · next cl2 h2 =>
          have m1 : cl1 ∈ l := List.mem_of_getElem? h1
          have m2 : cl2 ∈ l := List.mem_of_getElem? h2
          split at h
          · exact ih l i (j + 1) hz h
          · next r res hres =>
            split at h
            · exact ih l i (j + 1) hz h
            · split at h
              · next hemp =>
                rintro ⟨v, hv⟩
                have := resolvable_sound cl1 cl2 r res v (hz cl2 m2) hres (hv cl1 m1) (hv cl2 m2)
                have he : res = [] := by simpa using hemp
                subst he
                simp [evalClause] at this
              · have hz' : ∀ c ∈ l ++ [res], NoZero c := by
                  intro c hc
                  rcases List.mem_append.mp hc with hc | hc
                  · exact hz c hc
                  · simp at hc; subst hc
                    exact resolvent_noZero cl1 cl2 r _ hres (hz cl1 m1) (hz cl2 m2)
                have := ih _ i (j + 1) hz' h
                rintro ⟨v, hv⟩
                apply this
                refine ⟨v, fun c hc => ?_⟩
                rcases List.mem_append.mp hc with hc | hc
                · exact hv c hc
                · simp at hc; subst hc
                  exact resolvable_sound cl1 cl2 r _ v (hz cl2 m2) hres (hv cl1 m1) (hv cl2 m2)

/-! ### the initial list -/

theorem mem_initial_aux (xs : List (List Int)) : ∀ (acc : List (List Int)) (c : List Int),
    c ∈ xs.foldl (fun acc c => if trivial c || acc.contains c then acc else acc ++ [c]) acc ↔
      c ∈ acc ∨ (c ∈ xs ∧ trivial c = false) := by
  induction xs with
  | nil => intro acc c; simp
  | cons x xs ih =>
    intro acc c
    simp only [List.foldl_cons, ih]
    by_cases ht : trivial x = true
    · simp only [ht, Bool.true_or, if_true, List.mem_cons]
      constructor
      · rintro (h | ⟨h, h'⟩)
        · exact Or.inl h
        · exact Or.inr ⟨Or.inr h, h'⟩
      · rintro (h | ⟨h | h, h'⟩)
        · exact Or.inl h
        · subst h; rw [ht] at h'; cases h'
        · exact Or.inr ⟨h, h'⟩
    · have ht' : trivial x = false := by simpa using ht
      by_cases hc : acc.contains x = true
      · simp only [ht', hc, Bool.false_or, if_true, List.mem_cons]
        constructor
        · rintro (h | ⟨h, h'⟩)
          · exact Or.inl h
          · exact Or.inr ⟨Or.inr h, h'⟩
        · rintro (h | ⟨h | h, h'⟩)
          · exact Or.inl h
          · subst h; exact Or.inl (by simpa using hc)
          · exact Or.inr ⟨h, h'⟩
      · have hc' : acc.contains x = false := by simpa using hc
        simp only [ht', hc', Bool.false_or, Bool.false_eq_true, if_false, List.mem_append,
          List.mem_singleton, List.mem_cons, List.not_mem_nil, or_false]
        constructor
        · rintro ((h | h) | ⟨h, h'⟩)
          · exact Or.inl h
          · subst h; exact Or.inr ⟨Or.inl rfl, ht'⟩
          · exact Or.inr ⟨Or.inr h, h'⟩
        · rintro (h | ⟨h | h, h'⟩)
          · exact Or.inl (Or.inl h)
          · exact Or.inl (Or.inr h)
          · exact Or.inr ⟨h, h'⟩

theorem mem_initial (cls : List (List Int)) (c : List Int) :
    c ∈ initial cls ↔ (∃ cl ∈ cls, c = canon cl) ∧ trivial c = false := by
  unfold initial
  rw [mem_initial_aux]
  simp only [List.not_mem_nil, false_or, List.mem_map]
  constructor
  · rintro ⟨⟨cl, hcl, rfl⟩, ht⟩; exact ⟨⟨cl, hcl, rfl⟩, ht⟩
  · rintro ⟨⟨cl, hcl, rfl⟩, ht⟩; exact ⟨⟨cl, hcl, rfl⟩, ht⟩

theorem start_sound_false (fuel : Nat) (cls : List (List Int)) :
    Res.start fuel cls = some (some false) → ¬ ∃ v, evalClauses v cls = true := by
  intro h
  unfold start at h
  split at h
  · simp at h
  · simp only [] at h
    split at h
    · simp at h
    · split at h
      · simp at h
      · next hl =>
        have hz : ∀ c ∈ initial cls, NoZero c := fun c hc =>
          noZero_of_nontrivial c ((mem_initial cls c).mp hc).2
        have := loop_sound fuel (initial cls) 0 0 hz hl
        rintro ⟨v, hv⟩
        apply this
        refine ⟨v, fun c hc => ?_⟩
        obtain ⟨⟨cl, hcl, rfl⟩, _⟩ := (mem_initial cls c).mp hc
        rw [evalClause_canon]
        simp only [evalClauses, List.all_eq_true] at hv
        exact hv cl hcl
      · simp at h

theorem start_sound_true (fuel : Nat) (cls : List (List Int)) (hz : ∀ cl ∈ cls, NoZero cl) :
    Res.start fuel cls = some (some true) → ∀ v, evalClauses v cls = true := by
  intro h v
  simp only [evalClauses, List.all_eq_true]
  intro cl hcl
  unfold start at h
  split at h
  · next he =>
    have : cls = [] := by simpa using he
    subst this; simp at hcl
  · simp only [] at h
    split at h
    · next he =>
      have hnil : initial cls = [] := by simpa using he
      rw [← evalClause_canon]
      apply trivial_valid _ (fun x hx => hz cl hcl x ((mem_canon x cl).mp hx))
      cases ht : trivial (canon cl) with
      | true => rfl
      | false =>
        have : canon cl ∈ initial cls := (mem_initial cls _).mpr ⟨⟨cl, hcl, rfl⟩, ht⟩
        rw [hnil] at this; cases this
    · split at h <;> simp at h

end Res

/-! ## the abstract completeness theorem for single-clash resolution (from `proto/C09Res.lean`) -/

namespace AbsRes

structure Lit where
  atom : Nat
  pos : Bool
deriving DecidableEq

def Lit.neg (l : Lit) : Lit := ⟨l.atom, !l.pos⟩

@[simp] theorem Lit.neg_neg (l : Lit) : l.neg.neg = l := by cases l; simp [Lit.neg]
@[simp] theorem Lit.neg_atom (l : Lit) : l.neg.atom = l.atom := rfl
theorem Lit.neg_ne (l : Lit) : l.neg ≠ l := by cases l; simp [Lit.neg]

abbrev Clause := Lit → Prop
abbrev ClauseSet := Clause → Prop

def emptyC : Clause := fun _ => False
/-- `resolvable` finds exactly one clash: q ∈ C₂, ¬q ∈ C₁, and no other such literal -/
def Clash (C₁ C₂ : Clause) (q : Lit) : Prop := C₂ q ∧ C₁ q.neg ∧ ∀ l, C₂ l → C₁ l.neg → l = q
def Res (C₁ C₂ : Clause) (q : Lit) : Clause := fun l => (C₁ l ∧ l ≠ q.neg) ∨ (C₂ l ∧ l ≠ q)
def Closed (S : ClauseSet) : Prop := ∀ C₁ C₂ q, S C₁ → S C₂ → Clash C₁ C₂ q → S (Res C₁ C₂ q)
def NonTaut (C : Clause) : Prop := ∀ l, C l → ¬ C l.neg
def Sat (v : Nat → Bool) (C : Clause) : Prop := ∃ l, C l ∧ v l.atom = l.pos

/-- remove one literal -/
def del (C : Clause) (k : Lit) : Clause := fun l => C l ∧ l ≠ k

/-- clauses of S not containing `k.neg`, with `k` removed (the branch "k is false") -/
def branch (S : ClauseSet) (k : Lit) : ClauseSet := fun D => ∃ C, S C ∧ ¬ C k.neg ∧ D = del C k

theorem clause_ext {C D : Clause} (h : ∀ l, C l ↔ D l) : C = D := funext fun l => propext (h l)

theorem branch_closed (S : ClauseSet) (k : Lit) (hS : Closed S) : Closed (branch S k) := by
  intro D₁ D₂ q ⟨C₁, hC₁, hn₁, e₁⟩ ⟨C₂, hC₂, hn₂, e₂⟩ hcl
  subst e₁; subst e₂
  obtain ⟨hq2, hq1, huniq⟩ := hcl
  -- q ≠ k, q.neg ≠ k
  have hqk : q ≠ k := hq2.2
  have hqnk : q.neg ≠ k := hq1.2
  have hclash : Clash C₁ C₂ q := by
    refine ⟨hq2.1, hq1.1, ?_⟩
    intro l hl2 hl1
    by_cases h1 : l = k
    · subst h1; exact absurd hl1 hn₁
    · by_cases h2 : l.neg = k
      · -- then l = k.neg ∈ C₂, contradiction with hn₂
        have : l = k.neg := by rw [← h2]; simp
        subst this; exact absurd hl2 hn₂
      · exact huniq l ⟨hl2, h1⟩ ⟨hl1, h2⟩
  refine ⟨Res C₁ C₂ q, hS C₁ C₂ q hC₁ hC₂ hclash, ?_, ?_⟩
  · intro h
    rcases h with ⟨h, _⟩ | ⟨h, _⟩
    · exact hn₁ h
    · exact hn₂ h
  · apply clause_ext; intro l
    simp only [Res, del]
    constructor
    · rintro (⟨⟨h1, h2⟩, h3⟩ | ⟨⟨h1, h2⟩, h3⟩)
      · exact ⟨Or.inl ⟨h1, h3⟩, h2⟩
      · exact ⟨Or.inr ⟨h1, h3⟩, h2⟩
    · rintro ⟨(⟨h1, h3⟩ | ⟨h1, h3⟩), h2⟩
      · exact Or.inl ⟨⟨h1, h2⟩, h3⟩
      · exact Or.inr ⟨⟨h1, h2⟩, h3⟩

theorem complete : ∀ (As : List Nat) (S : ClauseSet),
    (∀ C, S C → ∀ l, C l → l.atom ∈ As) → (∀ C, S C → NonTaut C) → Closed S → ¬ S emptyC →
    ∃ v : Nat → Bool, ∀ C, S C → Sat v C := by
  intro As
  induction As with
  | nil =>
    intro S hat _ _ hne
    refine ⟨fun _ => true, ?_⟩
    intro C hC
    have : C = emptyC := clause_ext fun l => ⟨fun h => by simpa using hat C hC l h, fun h => h.elim⟩
    exact absurd (this ▸ hC) hne
  | cons p As ih =>
    intro S hat hnt hcl hne
    let kp : Lit := ⟨p, true⟩
    let kn : Lit := ⟨p, false⟩
    have hkpn : kp.neg = kn := rfl
    have hknn : kn.neg = kp := rfl
    -- generic facts about a branch on literal k with atom p
    have atoms : ∀ k : Lit, k.atom = p → ∀ D, branch S k D → ∀ l, D l → l.atom ∈ As := by
      intro k hk D ⟨C, hC, hn, e⟩ l hl
      subst e
      have hmem := hat C hC l hl.1
      simp only [List.mem_cons] at hmem
      rcases hmem with h | h
      · exfalso
        -- l has atom p, so l = k or l = k.neg
        have : l = k ∨ l = k.neg := by
          cases l with | mk a b => cases k with | mk a' b' =>
          simp only [Lit.neg] at *
          subst h; subst hk
          cases b <;> cases b' <;> simp
        rcases this with h' | h'
        · exact hl.2 h'
        · subst h'; exact hn hl.1
      · exact h
    have nontaut : ∀ k : Lit, ∀ D, branch S k D → NonTaut D := by
      intro k D ⟨C, hC, hn, e⟩ l hl hl'
      subst e; exact hnt C hC l hl.1 hl'.1
    -- extend a model of a branch
    have extend : ∀ k : Lit, k.atom = p → ¬ branch S k emptyC → ∃ v : Nat → Bool, ∀ C, S C → Sat v C := by
      intro k hk hne'
      obtain ⟨v, hv⟩ := ih (branch S k) (atoms k hk) (nontaut k) (branch_closed S k hcl) hne'
      -- make k false, i.e. k.neg true
      refine ⟨fun a => if a = p then !k.pos else v a, ?_⟩
      intro C hC
      by_cases hn : C k.neg
      · exact ⟨k.neg, hn, by simp [hk, Lit.neg]⟩
      · obtain ⟨l, hl, hvl⟩ := hv (del C k) ⟨C, hC, hn, rfl⟩
        have hla : l.atom ∈ As := atoms k hk _ ⟨C, hC, hn, rfl⟩ l hl
        refine ⟨l, hl.1, ?_⟩
        by_cases hlp : l.atom = p
        · -- l has atom p but is in del C k and C has no k.neg: impossible
          exfalso
          have : l = k ∨ l = k.neg := by
            cases l with | mk a b => cases k with | mk a' b' =>
            simp only [Lit.neg] at *
            subst hlp; subst hk
            cases b <;> cases b' <;> simp
          rcases this with h' | h'
          · exact hl.2 h'
          · subst h'; exact hn hl.1
        · simp [hlp, hvl]
    by_cases h1 : branch S kp emptyC
    · by_cases h2 : branch S kn emptyC
      · -- both branches contain the empty clause: {p} and {¬p} are in S, resolve to empty
        exfalso
        obtain ⟨C₁, hC₁, hn₁, e₁⟩ := h1
        obtain ⟨C₂, hC₂, hn₂, e₂⟩ := h2
        have hC₁only : ∀ l, C₁ l → l = kp := by
          intro l hl; apply Classical.byContradiction; intro hne'
          have : del C₁ kp l := ⟨hl, hne'⟩
          rw [← e₁] at this; exact this
        have hC₂only : ∀ l, C₂ l → l = kn := by
          intro l hl; apply Classical.byContradiction; intro hne'
          have : del C₂ kn l := ⟨hl, hne'⟩
          rw [← e₂] at this; exact this
        have hC₁kp : C₁ kp := by
          apply Classical.byContradiction; intro hno
          have : C₁ = emptyC := clause_ext fun l => ⟨fun h => hno (hC₁only l h ▸ h), fun h => h.elim⟩
          exact hne (this ▸ hC₁)
        have hC₂kn : C₂ kn := by
          apply Classical.byContradiction; intro hno
          have : C₂ = emptyC := clause_ext fun l => ⟨fun h => hno (hC₂only l h ▸ h), fun h => h.elim⟩
          exact hne (this ▸ hC₂)
        -- clash: q = kn ∈ C₂, q.neg = kp ∈ C₁
        have hclash : Clash C₁ C₂ kn := ⟨hC₂kn, hC₁kp, fun l hl _ => hC₂only l hl⟩
        have hres := hcl C₁ C₂ kn hC₁ hC₂ hclash
        have : Res C₁ C₂ kn = emptyC := by
          apply clause_ext; intro l
          simp only [Res, emptyC]
          constructor
          · rintro (⟨h, hne'⟩ | ⟨h, hne'⟩)
            · exact hne' (hC₁only l h)
            · exact hne' (hC₂only l h)
          · exact fun h => h.elim
        exact hne (this ▸ hres)
      · exact extend kn rfl h2
    · exact extend kp rfl h1


end AbsRes

/-! ## 6. resolution: completeness -/

namespace Res

/-! ### sorted duplicate-free lists -/

theorem insertSorted_sorted (x : Int) (l : List Int) (h : l.Pairwise (· < ·)) :
    (insertSorted x l).Pairwise (· < ·) := by
  induction l with
  | nil => simp [insertSorted]
  | cons y r ih =>
    obtain ⟨hy, hr⟩ := List.pairwise_cons.mp h
    simp only [insertSorted]
    split
    · next hxy =>
      refine List.pairwise_cons.mpr ⟨?_, h⟩
      intro z hz
      rcases List.mem_cons.mp hz with rfl | hz
      · exact hxy
      · exact Int.lt_trans hxy (hy z hz)
    · split
      · exact h
      · next h1 h2 =>
        refine List.pairwise_cons.mpr ⟨?_, ih hr⟩
        intro z hz
        rcases (mem_insertSorted x z r).mp hz with rfl | hz
        · omega
        · exact hy z hz

theorem canon_sorted (c : List Int) : (canon c).Pairwise (· < ·) := by
  induction c with
  | nil => simp [canon]
  | cons x r ih =>
    have : canon (x :: r) = insertSorted x (canon r) := rfl
    rw [this]; exact insertSorted_sorted x _ ih

theorem canon_nodup (c : List Int) : (canon c).Nodup := by
  rw [List.nodup_iff_pairwise_ne]
  exact (canon_sorted c).imp (fun h => by omega)

theorem filter_singleton {α} (p : α → Bool) (l : List α) (x : α) (hnd : l.Nodup) (hx : x ∈ l)
    (hp : p x = true) (huniq : ∀ y ∈ l, p y = true → y = x) : l.filter p = [x] := by
  induction l with
  | nil => simp at hx
  | cons a r ih =>
    obtain ⟨har, hr⟩ := List.nodup_cons.mp hnd
    rcases List.mem_cons.mp hx with rfl | hxr
    · have : r.filter p = [] := by
        rw [List.filter_eq_nil_iff]
        intro y hy hpy
        have := huniq y (List.mem_cons_of_mem _ hy) hpy
        subst this; exact har hy
      simp [List.filter_cons, hp, this]
    · have hpa : p a = false := by
        cases h : p a with
        | false => rfl
        | true =>
          have := huniq a (by simp) h
          subst this; exact absurd hxr har
      simp only [List.filter_cons, hpa, Bool.false_eq_true, if_false]
      exact ih hr hxr (fun y hy => huniq y (List.mem_cons_of_mem _ hy))

/-- a unique clash makes the pair resolvable -/
theorem resolvable_of_clash (c1 c2 : List Int) (r : Int) (hnd : c2.Nodup) (h2 : r ∈ c2)
    (h1 : -r ∈ c1) (huniq : ∀ y ∈ c2, -y ∈ c1 → y = r) :
    ∃ res, resolvable c1 c2 = some (r, res) := by
  have := filter_singleton (fun y => c1.contains (-y)) c2 r hnd h2 (by simpa using h1)
    (fun y hy hp => huniq y hy (by simpa using hp))
  refine ⟨canon ((c1.filter (· ≠ -r)) ++ (c2.filter (· ≠ r))), ?_⟩
  unfold resolvable
  rw [this]

theorem resolvent_nontrivial (c1 c2 : List Int) (r : Int) (res : List Int)
    (h : resolvable c1 c2 = some (r, res)) (t1 : trivial c1 = false) (t2 : trivial c2 = false) :
    trivial res = false := by
  obtain ⟨hr2, hr1, huniq, hres⟩ := resolvable_clash c1 c2 r res h
  cases ht : trivial res with
  | false => rfl
  | true =>
    exfalso
    obtain ⟨x, hx, hnx⟩ := (trivial_iff res).mp ht
    have n1 : ¬ ∃ x ∈ c1, -x ∈ c1 := by
      intro hh; have := (trivial_iff c1).mpr hh; rw [t1] at this; cases this
    have n2 : ¬ ∃ x ∈ c2, -x ∈ c2 := by
      intro hh; have := (trivial_iff c2).mpr hh; rw [t2] at this; cases this
    rcases (hres x).mp hx with ⟨hx1, hxr⟩ | ⟨hx2, hxr⟩
    · rcases (hres (-x)).mp hnx with ⟨hn1, _⟩ | ⟨hn2, hnr⟩
      · exact n1 ⟨x, hx1, hn1⟩
      · have := huniq (-x) hn2 (by simpa using hx1)
        exact hnr this
    · rcases (hres (-x)).mp hnx with ⟨hn1, hnr⟩ | ⟨hn2, _⟩
      · have := huniq x hx2 hn1
        exact hxr this
      · exact n2 ⟨x, hx2, hn2⟩

/-! ### the loop invariant -/

/-- what holds of every clause in the list -/
def Good (l : List (List Int)) : Prop := ∀ c ∈ l, c ≠ [] ∧ trivial c = false ∧ c.Nodup

/-- the pair `(a, b)` has been processed: its resolvent, if any, is in the list -/
def Done (l : List (List Int)) (a b : Nat) : Prop :=
  ∀ c1 c2 r res, l[a]? = some c1 → l[b]? = some c2 → resolvable c1 c2 = some (r, res) → res ∈ l

def Inv (l : List (List Int)) (i j : Nat) : Prop :=
  i ≤ l.length ∧ (∀ a b, a < i → b < a → Done l a b) ∧ (∀ b, b < j → b < i → Done l i b)

theorem done_mono (l : List (List Int)) (x : List Int) (a b : Nat) (ha : a < l.length)
    (hb : b < l.length) (h : Done l a b) : Done (l ++ [x]) a b := by
  intro c1 c2 r res h1 h2 hr
  rw [List.getElem?_append_left ha] at h1
  rw [List.getElem?_append_left hb] at h2
  exact List.mem_append_left _ (h c1 c2 r res h1 h2 hr)

theorem inv_next (l : List (List Int)) (i j : Nat) (cl1 : List Int) (h1 : l[i]? = some cl1)
    (hinv : Inv l i j) (hall : ∀ b, b < i → Done l i b) : Inv l (i + 1) 0 := by
  obtain ⟨hi, hA, _⟩ := hinv
  have hil : i < l.length := by
    rcases Nat.lt_or_ge i l.length with h | h
    · exact h
    · rw [List.getElem?_eq_none h] at h1; cases h1
  refine ⟨hil, ?_, fun b hb => by omega⟩
  intro a b ha hb
  by_cases hai : a < i
  · exact hA a b hai hb
  · have : a = i := by omega
    subst this
    exact hall b hb

theorem loop_closed (fuel : Nat) : ∀ (l : List (List Int)) (i j : Nat),
    Good l → Inv l i j → loop fuel l i j = some false →
    ∃ l', (∀ c ∈ l, c ∈ l') ∧ Good l' ∧ ∀ a b, b < a → Done l' a b := by
  induction fuel with
  | zero => intro l i j _ _ h; simp [loop] at h
  | succ fuel ih =>
    intro l i j hg hinv h
    simp only [loop] at h
    split at h
    · next hnone =>
      refine ⟨l, fun c hc => hc, hg, ?_⟩
      intro a b hb
      obtain ⟨hi, hA, _⟩ := hinv
      by_cases hai : a < i
      · exact hA a b hai hb
      · intro c1 c2 r res h1 _ _
        have hlen : l.length ≤ i := by
          rcases Nat.lt_or_ge i l.length with h' | h'
          · rw [List.getElem?_eq_getElem h'] at hnone; cases hnone
          · exact h'
        rw [List.getElem?_eq_none (by omega)] at h1; cases h1
    · next cl1 h1 =>
      split at h
      · next hji =>
        exact ih l (i + 1) 0 hg (inv_next l i j cl1 h1 hinv
          (fun b hb => hinv.2.2 b (by omega) hb)) h
      · next hji =>
        split at h
        · next h2 =>
          refine ih l (i + 1) 0 hg (inv_next l i j cl1 h1 hinv ?_) h
          intro b hb
          by_cases hbj : b < j
          · exact hinv.2.2 b hbj hb
          · intro c1 c2 r res _ h2' _
            have hlen : l.length ≤ j := by
              rcases Nat.lt_or_ge j l.length with h' | h'
              · rw [List.getElem?_eq_getElem h'] at h2; cases h2
              · exact h'
            rw [List.getElem?_eq_none (by omega)] at h2'; cases h2'
        · next cl2 h2 =>
          have m1 : cl1 ∈ l := List.mem_of_getElem? h1
          have m2 : cl2 ∈ l := List.mem_of_getElem? h2
          have hil : i < l.length := by
            rcases Nat.lt_or_ge i l.length with h' | h'
            · exact h'
            · rw [List.getElem?_eq_none h'] at h1; cases h1
          -- stepping the inner index once the pair `(i, j)` is done
          have step : ∀ l2 : List (List Int), (∀ a b, a < l.length → b < l.length → Done l a b →
              Done l2 a b) → l.length ≤ l2.length → Done l2 i j → Inv l2 i (j + 1) := by
            intro l2 hmono hlen hdone
            obtain ⟨hi, hA, hB⟩ := hinv
            refine ⟨by omega, ?_, ?_⟩
            · intro a b ha hb
              exact hmono a b (by omega) (by omega) (hA a b ha hb)
            · intro b hb hbi
              by_cases hbj : b < j
              · exact hmono i b hil (by omega) (hB b hbj hbi)
              · have : b = j := by omega
                subst this; exact hdone
          split at h
          · next hres =>
            refine ih l i (j + 1) hg (step l (fun _ _ _ _ hd => hd) (Nat.le_refl _) ?_) h
            intro c1 c2 r res h1' h2' hr
            rw [h1] at h1'; rw [h2] at h2'
            cases h1'; cases h2'
            rw [hres] at hr; cases hr
          · next r res hres =>
            split at h
            · next hcont =>
              refine ih l i (j + 1) hg (step l (fun _ _ _ _ hd => hd) (Nat.le_refl _) ?_) h
              intro c1 c2 r' res' h1' h2' hr
              rw [h1] at h1'; rw [h2] at h2'
              cases h1'; cases h2'
              rw [hres] at hr
              simp only [Option.some.injEq, Prod.mk.injEq] at hr
              rw [← hr.2]
              simpa using hcont
            · split at h
              · simp at h
              · next hne =>
                have hg' : Good (l ++ [res]) := by
                  intro c hc
                  rcases List.mem_append.mp hc with hc | hc
                  · exact hg c hc
                  · simp at hc; subst hc
                    refine ⟨by simpa using hne,
                      resolvent_nontrivial cl1 cl2 r _ hres (hg cl1 m1).2.1 (hg cl2 m2).2.1, ?_⟩
                    rw [(resolvable_inv cl1 cl2 r _ hres).2]
                    exact canon_nodup _
                have hinv' : Inv (l ++ [res]) i (j + 1) := by
                  refine step (l ++ [res]) (fun a b ha hb hd => done_mono l res a b ha hb hd)
                    (by simp) ?_
                  intro c1 c2 r' res' h1' h2' hr
                  rw [List.getElem?_append_left hil, h1] at h1'
                  rw [List.getElem?_append_left (by omega), h2] at h2'
                  cases h1'; cases h2'
                  rw [hres] at hr
                  simp only [Option.some.injEq, Prod.mk.injEq] at hr
                  rw [← hr.2]; simp
                obtain ⟨l', hsub, hg2, hd⟩ := ih _ i (j + 1) hg' hinv' h
                exact ⟨l', fun c hc => hsub c (List.mem_append_left _ hc), hg2, hd⟩

end Res

/-! ### from closed lists to the abstract theorem -/

namespace Res
open AbsRes

def toLit (x : Int) : Lit := ⟨x.natAbs - 1, decide (x > 0)⟩

theorem toLit_neg (x : Int) (hx : x ≠ 0) : toLit (-x) = (toLit x).neg := by
  simp only [toLit, Lit.neg, Int.natAbs_neg, Lit.mk.injEq, true_and]
  by_cases h : x > 0
  · have : ¬ (-x > 0) := by omega
    simp [h, this]; omega
  · have : -x > 0 := by omega
    simp [h, this]; omega

theorem toLit_inj (x y : Int) (hx : x ≠ 0) (hy : y ≠ 0) (h : toLit x = toLit y) : x = y := by
  simp only [toLit, Lit.mk.injEq, decide_eq_decide] at h
  omega

/-- a list clause as a predicate on literals -/
def toPred (c : List Int) : AbsRes.Clause := fun L => ∃ x ∈ c, toLit x = L

theorem sat_of_abs (v : Nat → Bool) (c : List Int) (hz : NoZero c) (h : Sat v (toPred c)) :
    evalClause v c = true := by
  obtain ⟨L, ⟨x, hx, rfl⟩, hv⟩ := h
  rw [evalClause_true_iff]
  refine ⟨x, hx, ?_⟩
  have hx0 := hz x hx
  simp only [toLit] at hv
  unfold evalLit
  by_cases hp : x > 0
  · have e : x.toNat - 1 = x.natAbs - 1 := by omega
    simp [hp, e] at hv ⊢; exact hv
  · have e : (-x).toNat - 1 = x.natAbs - 1 := by omega
    simp [hp, e] at hv ⊢; exact hv

/-- a closed good list is satisfiable -/
theorem closed_sat (l : List (List Int)) (hg : Good l) (hd : ∀ a b, b < a → Done l a b) :
    ∃ v, ∀ c ∈ l, evalClause v c = true := by
  have hz : ∀ c ∈ l, NoZero c := fun c hc => noZero_of_nontrivial c (hg c hc).2.1
  let S : ClauseSet := fun C => ∃ c ∈ l, C = toPred c
  have hatoms : ∀ C, S C → ∀ L, C L → L.atom ∈ l.flatMap (fun c => c.map (fun x => x.natAbs - 1)) := by
    rintro C ⟨c, hc, rfl⟩ L ⟨x, hx, rfl⟩
    simp only [List.mem_flatMap, List.mem_map]
    exact ⟨c, hc, x, hx, rfl⟩
  have hnt : ∀ C, S C → NonTaut C := by
    rintro C ⟨c, hc, rfl⟩ L ⟨x, hx, rfl⟩ ⟨y, hy, hxy⟩
    have hx0 := hz c hc x hx
    have hy0 := hz c hc y hy
    rw [← toLit_neg x hx0] at hxy
    have := toLit_inj y (-x) hy0 (by omega) hxy
    subst this
    have := (trivial_iff c).mpr ⟨x, hx, hy⟩
    rw [(hg c hc).2.1] at this; cases this
  have hne : ¬ S emptyC := by
    rintro ⟨c, hc, he⟩
    cases c with
    | nil => exact (hg [] hc).1 rfl
    | cons x r =>
      have : toPred (x :: r) (toLit x) := ⟨x, by simp, rfl⟩
      rw [← he] at this; exact this
  have hcl : Closed S := by
    rintro C1 C2 q ⟨c1, hc1, rfl⟩ ⟨c2, hc2, rfl⟩ ⟨⟨r0, hr2, rfl⟩, ⟨x, hx1, hxq⟩, huniq⟩
    have hr0 := hz c2 hc2 r0 hr2
    have hx0 := hz c1 hc1 x hx1
    rw [← toLit_neg r0 hr0] at hxq
    have := toLit_inj x (-r0) hx0 (by omega) hxq
    subst this
    have hun : ∀ y ∈ c2, -y ∈ c1 → y = r0 := by
      intro y hy hny
      have hy0 := hz c2 hc2 y hy
      have := huniq (toLit y) ⟨y, hy, rfl⟩ ⟨-y, hny, toLit_neg y hy0⟩
      exact toLit_inj y r0 hy0 hr0 this
    have hun' : ∀ y ∈ c1, -y ∈ c2 → y = -r0 := by
      intro y hy hny
      have := hun (-y) hny (by simpa using hy)
      omega
    obtain ⟨res0, hres0⟩ := resolvable_of_clash c1 c2 r0 (hg c2 hc2).2.2 hr2 hx1 hun
    obtain ⟨res1, hres1⟩ := resolvable_of_clash c2 c1 (-r0) (hg c1 hc1).2.2 hx1
      (by simpa using hr2) hun'
    obtain ⟨a, ha⟩ := List.mem_iff_getElem?.mp hc1
    obtain ⟨b, hb⟩ := List.mem_iff_getElem?.mp hc2
    -- the resolvent, as a predicate
    have key : ∀ res, (∀ x, x ∈ res ↔ (x ∈ c1 ∧ x ≠ -r0) ∨ (x ∈ c2 ∧ x ≠ r0)) →
        toPred res = AbsRes.Res (toPred c1) (toPred c2) (toLit r0) := by
      intro res hres
      apply clause_ext
      intro L
      simp only [toPred, AbsRes.Res]
      constructor
      · rintro ⟨y, hy, rfl⟩
        rcases (hres y).mp hy with ⟨hy1, hne1⟩ | ⟨hy2, hne2⟩
        · refine Or.inl ⟨⟨y, hy1, rfl⟩, ?_⟩
          intro e
          rw [← toLit_neg r0 hr0] at e
          exact hne1 (toLit_inj y (-r0) (hz c1 hc1 y hy1) (by omega) e)
        · refine Or.inr ⟨⟨y, hy2, rfl⟩, ?_⟩
          intro e
          exact hne2 (toLit_inj y r0 (hz c2 hc2 y hy2) hr0 e)
      · rintro (⟨⟨y, hy, rfl⟩, hne1⟩ | ⟨⟨y, hy, rfl⟩, hne2⟩)
        · refine ⟨y, (hres y).mpr (Or.inl ⟨hy, ?_⟩), rfl⟩
          intro e; subst e
          exact hne1 (toLit_neg r0 hr0)
        · refine ⟨y, (hres y).mpr (Or.inr ⟨hy, ?_⟩), rfl⟩
          intro e; subst e
          exact hne2 rfl
    rcases Nat.lt_trichotomy a b with hab | hab | hab
    · -- use the pair `(b, a)`
      have hin := hd b a hab c2 c1 (-r0) res1 hb ha hres1
      obtain ⟨_, _, _, hm⟩ := resolvable_clash c2 c1 (-r0) res1 hres1
      refine ⟨res1, hin, (key res1 ?_).symm⟩
      intro x
      rw [hm x]
      simp only [Int.neg_neg]
      constructor
      · rintro (h | h)
        · exact Or.inr h
        · exact Or.inl h
      · rintro (h | h)
        · exact Or.inr h
        · exact Or.inl h
    · subst hab
      rw [ha] at hb; cases hb
      exfalso
      have := (trivial_iff c1).mpr ⟨r0, hr2, hx1⟩
      rw [(hg c1 hc1).2.1] at this; cases this
    · have hin := hd a b hab c1 c2 r0 res0 ha hb hres0
      obtain ⟨_, _, _, hm⟩ := resolvable_clash c1 c2 r0 res0 hres0
      exact ⟨res0, hin, (key res0 hm).symm⟩
  obtain ⟨v, hv⟩ := complete _ S hatoms hnt hcl hne
  exact ⟨v, fun c hc => sat_of_abs v c (hz c hc) (hv (toPred c) ⟨c, hc, rfl⟩)⟩

/-- a non-trivial clause is falsified by the valuation that makes all its literals false -/
theorem nontrivial_falsifiable (c : List Int) (h : trivial c = false) :
    ∃ v, evalClause v c = false := by
  refine ⟨fun a => decide ((-((a : Int) + 1)) ∈ c), ?_⟩
  have hz := noZero_of_nontrivial c h
  cases e : evalClause (fun a => decide ((-((a : Int) + 1)) ∈ c)) c with
  | false => rfl
  | true =>
    exfalso
    obtain ⟨x, hx, hv⟩ := (evalClause_true_iff _ c).mp e
    have hx0 := hz x hx
    have hnt : ¬ ∃ y ∈ c, -y ∈ c := by
      intro hh; have := (trivial_iff c).mpr hh; rw [h] at this; cases this
    unfold evalLit at hv
    by_cases hp : x > 0
    · simp only [hp, if_true, decide_eq_true_eq] at hv
      have e1 : -(((x.toNat - 1 : Nat) : Int) + 1) = -x := by omega
      rw [e1] at hv
      exact hnt ⟨x, hx, hv⟩
    · simp only [hp, if_false, Bool.not_eq_true', decide_eq_false_iff_not] at hv
      have e1 : -((((-x).toNat - 1 : Nat) : Int) + 1) = x := by omega
      rw [e1] at hv
      exact hv hx

theorem start_complete (fuel : Nat) (cls : List (List Int)) (hne : ∀ cl ∈ cls, cl ≠ [])
    (hz : ∀ cl ∈ cls, NoZero cl) :
    Res.start fuel cls = some none →
    (∃ v, evalClauses v cls = true) ∧ (∃ v, evalClauses v cls = false) := by
  intro h
  unfold start at h
  split at h
  · simp at h
  · simp only [] at h
    split at h
    · simp at h
    · next hnonempty =>
      split at h
      · simp at h
      · simp at h
      · next hloop =>
        have hg : Good (initial cls) := by
          intro c hc
          obtain ⟨⟨cl, hcl, rfl⟩, ht⟩ := (mem_initial cls c).mp hc
          refine ⟨?_, ht, canon_nodup cl⟩
          intro e
          have hcl0 := hne cl hcl
          cases cl with
          | nil => exact hcl0 rfl
          | cons x r =>
            have : x ∈ canon (x :: r) := (mem_canon x _).mpr (by simp)
            rw [e] at this; cases this
        have hinv : Inv (initial cls) 0 0 :=
          ⟨Nat.zero_le _, fun a b ha => by omega, fun b hb => by omega⟩
        obtain ⟨l', hsub, hg', hd⟩ := loop_closed fuel (initial cls) 0 0 hg hinv hloop
        obtain ⟨v, hv⟩ := closed_sat l' hg' hd
        constructor
        · refine ⟨v, ?_⟩
          simp only [evalClauses, List.all_eq_true]
          intro cl hcl
          rw [← evalClause_canon]
          cases ht : trivial (canon cl) with
          | true =>
            exact trivial_valid _ (fun x hx => hz cl hcl x ((mem_canon x cl).mp hx)) ht v
          | false =>
            exact hv _ (hsub _ ((mem_initial cls _).mpr ⟨⟨cl, hcl, rfl⟩, ht⟩))
        · cases hi : initial cls with
          | nil => rw [hi] at hnonempty; simp at hnonempty
          | cons c rest =>
            have hc : c ∈ initial cls := by rw [hi]; simp
            obtain ⟨⟨cl, hcl, rfl⟩, ht⟩ := (mem_initial cls c).mp hc
            obtain ⟨w, hw⟩ := nontrivial_falsifiable _ ht
            refine ⟨w, ?_⟩
            rw [evalClause_canon] at hw
            cases e : evalClauses w cls with
            | false => rfl
            | true =>
              simp only [evalClauses, List.all_eq_true] at e
              rw [e cl hcl] at hw; cases hw

end Res

/-! ## 7. the prover -/

namespace Res

/-- `resolvable` is symmetric up to the sign of the pivot (on duplicate-free clauses) -/
theorem resolvable_symm (c1 c2 : List Int) (r : Int) (res : List Int) (hnd : c1.Nodup)
    (h : resolvable c1 c2 = some (r, res)) :
    ∃ res', resolvable c2 c1 = some (-r, res') ∧ ∀ x, x ∈ res' ↔ x ∈ res := by
  obtain ⟨hr2, hr1, huniq, hres⟩ := resolvable_clash c1 c2 r res h
  obtain ⟨res', h'⟩ := resolvable_of_clash c2 c1 (-r) hnd hr1 (by simpa using hr2)
    (fun y hy hny => by have := huniq (-y) hny (by simpa using hy); omega)
  refine ⟨res', h', fun x => ?_⟩
  obtain ⟨_, _, _, hres'⟩ := resolvable_clash c2 c1 (-r) res' h'
  rw [hres' x, hres x]
  simp only [Int.neg_neg]
  constructor
  · rintro (h | h)
    · exact Or.inr h
    · exact Or.inl h
  · rintro (h | h)
    · exact Or.inr h
    · exact Or.inl h

end Res

open CF Res in
/-- the normal-form pipeline followed by resolution, on an OR/negation tree -/
theorem pipeline_spec (fuel : Nat) (c n cnf : CF) (cls : List (List Int)) (x : Option Bool)
    (hc : c.IsOrTree = true) (h1 : CF.propagNeg c = some n) (h2 : CF.toCnfF fuel n = some cnf)
    (h3 : CF.toClauses cnf = some cls) (h4 : Res.start fuel cls = some x) :
    (x = some true → ∀ v, c.eval v = true) ∧ (x = some false → ∀ v, c.eval v = false) ∧
    (x = none → (∃ v, c.eval v = true) ∧ (∃ v, c.eval v = false)) := by
  obtain ⟨n', hn', en, sn⟩ := propagNeg_spec c hc
  rw [h1] at hn'; cases hn'
  obtain ⟨ecnf, scnf⟩ := toCnfF_spec fuel n cnf sn h2
  obtain ⟨cls', hcls', ecls, nne, nz⟩ := toClauses_spec cnf scnf
  rw [h3] at hcls'; cases hcls'
  have hev : ∀ v, evalClauses v cls = c.eval v := fun v => by rw [ecls v, ecnf v, en v]
  refine ⟨?_, ?_, ?_⟩
  · rintro rfl v
    rw [← hev v]; exact start_sound_true fuel cls nz h4 v
  · rintro rfl v
    have := start_sound_false fuel cls h4
    cases e : c.eval v with
    | false => rfl
    | true => exact absurd ⟨v, by rw [hev v, e]⟩ this
  · rintro rfl
    obtain ⟨⟨v, hv⟩, ⟨w, hw⟩⟩ := start_complete fuel cls nne nz h4
    exact ⟨⟨v, by rw [← hev v]; exact hv⟩, ⟨w, by rw [← hev w]; exact hw⟩⟩

theorem prover_decides (fuel : Nat) (f : Form) :
    (proveTautology fuel f = some (some true) → ∀ v, f.eval v = true) ∧
    (proveTautology fuel f = some (some false) → ∀ v, f.eval v = false) ∧
    (proveTautology fuel f = some none → (∃ v, f.eval v = true) ∧ (∃ v, f.eval v = false)) := by
  have hev : ∀ v, (CF.ofForm (Form.neg f)).eval v = !(f.eval v) := fun v => by
    rw [CF.ofForm_eval]; simp [Form.neg, Form.eval]
  have hshape := CF.ofForm_shape (Form.neg f)
  -- the generic branch
  have generic : ∀ c, CF.ofForm (Form.neg f) = c → c.IsOrTree = true →
      ∀ o, (do
        let n ← CF.propagNeg c
        let cnf ← CF.toCnfF fuel n
        let cls ← CF.toClauses cnf
        match ← Res.start fuel cls with
        | none => pure none
        | some true => pure (some false)
        | some false => pure (some true)) = some o →
      (o = some true → ∀ v, f.eval v = true) ∧ (o = some false → ∀ v, f.eval v = false) ∧
      (o = none → (∃ v, f.eval v = true) ∧ (∃ v, f.eval v = false)) := by
    intro c hc hor o h
    simp only [Option.bind_eq_bind, Option.bind_eq_some_iff] at h
    obtain ⟨n, h1, cnf, h2, cls, h3, x, h4, h⟩ := h
    obtain ⟨pT, pF, pN⟩ := pipeline_spec fuel c n cnf cls x hor h1 h2 h3 h4
    rw [hc] at hev
    have flip : ∀ v b, c.eval v = b → f.eval v = !b := by
      intro v b e
      have hb := hev v; rw [e] at hb
      rw [hb, Bool.not_not]
    cases x with
    | none =>
      simp only [Option.pure_def, Option.some.injEq] at h; subst h
      refine ⟨(fun e => by cases e), (fun e => by cases e), fun _ => ?_⟩
      obtain ⟨⟨v, hv⟩, ⟨w, hw⟩⟩ := pN rfl
      exact ⟨⟨w, by simpa using flip w false hw⟩, ⟨v, by simpa using flip v true hv⟩⟩
    | some b =>
      cases b with
      | true =>
        simp only [Option.pure_def, Option.some.injEq] at h; subst h
        refine ⟨(fun e => by cases e), fun _ v => ?_, (fun e => by cases e)⟩
        simpa using flip v true (pT rfl v)
      | false =>
        simp only [Option.pure_def, Option.some.injEq] at h; subst h
        refine ⟨fun _ v => ?_, (fun e => by cases e), (fun e => by cases e)⟩
        simpa using flip v false (pF rfl v)
  unfold proveTautology
  cases hc : CF.ofForm (Form.neg f) with
  | bot b =>
    rw [hc] at hev
    cases b with
    | true =>
      refine ⟨(fun e => by cases e), fun _ v => ?_, (fun e => by cases e)⟩
      have := hev v; simp [CF.eval] at this; exact this
    | false =>
      refine ⟨fun _ v => ?_, (fun e => by cases e), (fun e => by cases e)⟩
      have := hev v; simp [CF.eval] at this; exact this
  | var n i =>
    have := generic _ hc rfl
    exact ⟨fun h => (this _ h).1 rfl, fun h => (this _ h).2.1 rfl, fun h => (this _ h).2.2 rfl⟩
  | or n l r =>
    have hor : (CF.or n l r).IsOrTree = true := by
      rw [hc] at hshape; simpa [CF.isBot] using hshape
    have := generic _ hc hor
    exact ⟨fun h => (this _ h).1 rfl, fun h => (this _ h).2.1 rfl, fun h => (this _ h).2.2 rfl⟩
  | and n l r =>
    rw [hc] at hshape; simp [CF.isBot, CF.IsOrTree] at hshape

#print axioms CF.ofForm_eval
#print axioms CF.ofForm_shape
#print axioms CF.propagNeg_spec
#print axioms CF.toCnfF_spec
#print axioms CF.toCnfF_terminates
#print axioms CF.toCnfF_weight
#print axioms CF.toClauses_spec
#print axioms Res.resolvable_sound
#print axioms Res.loop_sound
#print axioms Res.start_sound_false
#print axioms Res.start_sound_true
#print axioms Res.start_complete
#print axioms prover_decides
