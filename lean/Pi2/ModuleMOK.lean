import Pi2.KModRun
/-!
# Machine-OK proof expressions: the side conditions of C02 as a Boolean function of the module text

`Pf.concM pf`: the conclusion the MACHINE reaches for a proof expression, computed on expansions with the machine's
own rules (`none` = one of the machine's checks fails: the premises of `mp` do not match, `gen` is not fresh, an
`Instantiate` violates a metavariable constraint or captures).  No fuel, nothing is run.

`Pf.MOK ax pf` (decidable): the patterns the expression mentions are shaped and machine-OK, keys are distinct, loaded
axioms are declared, and `concM` is defined.  `PModule.MOK m`: axioms and claims are shaped and machine-OK
(`NPat.MOK`), one proof per claim, every proof is `Pf.MOK`.

`runC`: every run of a proof expression whose patterns are in order (`Pf.patsOK`) and whose instantiations the machine
accepts (`Pf.InstOK`; implied by `Pf.MOK`, and by `Pf.PF`) is matched, call by call, by the machine (`KMod.Sg`), for
every naming `ρ` of the symbols that agrees with the symbol table.
-/
set_option linter.unusedSimpArgs false
set_option linter.unusedVariables false
open Pat PySt

namespace Pf

/-- the machine's conclusion of a proof expression, on expansions; `none` = a check of the machine fails -/
def concM : Pf → Option Pat
  | prop1 => some prop1P
  | prop2 => some prop2P
  | prop3 => some prop3P
  | quantifier => some quantP
  | mp l r =>
      match concM l, concM r with
      | some (.imp a b), some c => if a = c then some b else none
      | _, _ => none
  | gen p x =>
      match concM p with
      | some (.imp l r) => if r.eFresh x then some (.imp (.ex x l) r) else none
      | _ => none
  | dynInst p δ =>
      match concM p with
      | some c => if δ.isEmpty then some c else Pat.inst (Py.lookup (NPat.expand.expandMap δ)) c
      | none => none
  | loadAxiom a => some a.expand

/-- the patterns a proof expression mentions: plugs shaped and machine-OK with distinct keys, loaded axioms shaped -/
def patsOK : Pf → Bool
  | mp l r => patsOK l && patsOK r
  | gen p _ => patsOK p
  | dynInst p δ => patsOK p && NPat.MOKMap δ && NPat.ShapeMap δ && decide ((δ.map (·.1)).Nodup)
  | loadAxiom a => a.Shape
  | _ => true

/-- every loaded axiom is (up to notation) one of the declared axioms -/
def declared (ax : List NPat) : Pf → Bool
  | mp l r => declared ax l && declared ax r
  | gen p _ => declared ax p
  | dynInst p _ => declared ax p
  | loadAxiom a => ax.any fun x => x.expand == a.expand
  | _ => true

/-- **machine-OK proof expression**: a Boolean function of the text -/
def MOK (ax : List NPat) (pf : Pf) : Bool := pf.patsOK && pf.declared ax && (concM pf).isSome

/-- the machine accepts every `Instantiate` of the expression (stated on the documented conclusions `Pf.Sem`) -/
def InstOK : Pf → Prop
  | mp l r => InstOK l ∧ InstOK r
  | gen p _ => InstOK p
  | dynInst p δ => InstOK p ∧ (δ.isEmpty = false → ∀ A, Pf.Sem p A →
      (Pat.inst (Py.lookup (NPat.expand.expandMap δ)) A).isSome = true)
  | _ => True

end Pf

namespace NPat
/-- shaped and machine-OK -/
def SM (a : NPat) : Bool := a.Shape && a.MOK
end NPat

namespace PModule
/-- **machine-OK module**: a Boolean function of the module text -/
def MOK (m : PModule) : Bool :=
  m.gammaAxioms.all NPat.SM && m.claimsOf.all NPat.SM && m.proofsOf.all (Pf.MOK m.axiomsOf) &&
    (m.claimsOf.length == m.proofsOf.length)
end PModule

namespace KMod
open NPat

/-! ## `concM` against the documented meaning -/

theorem lookup_expandMap_nil : Py.lookup (NPat.expand.expandMap []) = fun _ => (none : Option Pat) :=
  funext fun _ => rfl

theorem concM_mp_inv {l r : Pf} {C : Pat} (h : Pf.concM (.mp l r) = some C) :
    ∃ A, Pf.concM l = some (.imp A C) ∧ Pf.concM r = some A := by
  simp only [Pf.concM] at h
  split at h
  · next a b c hl hr =>
    split at h
    · next hac => cases h; subst hac; exact ⟨a, hl, hr⟩
    · cases h
  · cases h

theorem concM_gen_inv {p : Pf} {x : VId} {C : Pat} (h : Pf.concM (.gen p x) = some C) :
    ∃ L R, Pf.concM p = some (.imp L R) ∧ R.eFresh x = true ∧ C = .imp (.ex x L) R := by
  simp only [Pf.concM] at h
  split at h
  · next l r hp =>
    split at h
    · next hfr => cases h; exact ⟨l, r, hp, hfr, rfl⟩
    · cases h
  · cases h

theorem concM_dyn_inv {p : Pf} {δ : List (Nat × NPat)} {C : Pat} (h : Pf.concM (.dynInst p δ) = some C) :
    ∃ A, Pf.concM p = some A ∧
      (if δ.isEmpty then C = A else Pat.inst (Py.lookup (NPat.expand.expandMap δ)) A = some C) := by
  simp only [Pf.concM] at h
  split at h
  · next c hp =>
    refine ⟨c, hp, ?_⟩
    split at h
    · next he => cases h; simp [he]
    · next he => simp [he, h]
  · cases h

theorem axioms_shape : prop1P.Shape = true ∧ prop2P.Shape = true ∧ prop3P.Shape = true ∧ quantP.Shape = true := by
  decide

/-- `concM` computes the documented conclusion (and it is shaped) -/
theorem concM_sem : ∀ (pf : Pf) (C : Pat), Pf.concM pf = some C → pf.patsOK = true →
    Pf.Sem pf C ∧ C.Shape = true := by
  intro pf
  induction pf with
  | prop1 => intro C h _; cases h; exact ⟨.prop1, axioms_shape.1⟩
  | prop2 => intro C h _; cases h; exact ⟨.prop2, axioms_shape.2.1⟩
  | prop3 => intro C h _; cases h; exact ⟨.prop3, axioms_shape.2.2.1⟩
  | quantifier => intro C h _; cases h; exact ⟨.quantifier, axioms_shape.2.2.2⟩
  | mp l r ihl ihr =>
    intro C h hp
    simp only [Pf.patsOK, Bool.and_eq_true] at hp
    obtain ⟨A, hl, hr⟩ := concM_mp_inv h
    obtain ⟨sl, shl⟩ := ihl _ hl hp.1
    obtain ⟨sr, _⟩ := ihr _ hr hp.2
    simp only [Pat.Shape, Bool.and_eq_true] at shl
    exact ⟨.mp sl sr, shl.2⟩
  | gen p x ih =>
    intro C h hp
    simp only [Pf.patsOK] at hp
    obtain ⟨L, R, hpc, hfr, rfl⟩ := concM_gen_inv h
    obtain ⟨sp, shp⟩ := ih _ hpc hp
    simp only [Pat.Shape, Bool.and_eq_true] at shp
    exact ⟨.gen sp hfr, by simp [Pat.Shape, shp.1, shp.2]⟩
  | dynInst p δ ih =>
    intro C h hp
    simp only [Pf.patsOK, Bool.and_eq_true, decide_eq_true_eq] at hp
    obtain ⟨A, hpc, hC⟩ := concM_dyn_inv h
    obtain ⟨sp, shp⟩ := ih _ hpc hp.1.1.1
    by_cases he : δ.isEmpty = true
    · simp only [he, if_true] at hC
      subst hC
      have hnil : δ = [] := by simpa using he
      have : Pf.Sem (.dynInst p δ) (Py.inst (Py.lookup (NPat.expand.expandMap δ)) C) := .dynInst sp
      rw [hnil, lookup_expandMap_nil, Py.inst_empty _ shp] at this
      rw [hnil]
      exact ⟨this, shp⟩
    · simp only [he, Bool.false_eq_true, if_false] at hC
      have := C11.py_inst_eq_rust _ _ _ hC
      subst this
      exact ⟨.dynInst sp, Py.shape_inst _ (NPat.shape_expandMap δ hp.1.2) _ shp⟩
  | loadAxiom a =>
    intro C h hp
    cases h
    exact ⟨.loadAxiom, NPat.shape_expand a hp⟩

/-- a defined `concM` certifies that the machine accepts every instantiation -/
theorem instOK_of_concM : ∀ (pf : Pf) (C : Pat), Pf.concM pf = some C → pf.patsOK = true → pf.InstOK := by
  intro pf
  induction pf with
  | prop1 => intro _ _ _; trivial
  | prop2 => intro _ _ _; trivial
  | prop3 => intro _ _ _; trivial
  | quantifier => intro _ _ _; trivial
  | loadAxiom a => intro _ _ _; trivial
  | mp l r ihl ihr =>
    intro C h hp
    simp only [Pf.patsOK, Bool.and_eq_true] at hp
    obtain ⟨A, hl, hr⟩ := concM_mp_inv h
    exact ⟨ihl _ hl hp.1, ihr _ hr hp.2⟩
  | gen p x ih =>
    intro C h hp
    simp only [Pf.patsOK] at hp
    obtain ⟨L, R, hpc, _, _⟩ := concM_gen_inv h
    exact ih _ hpc hp
  | dynInst p δ ih =>
    intro C h hp
    simp only [Pf.patsOK, Bool.and_eq_true, decide_eq_true_eq] at hp
    obtain ⟨A, hpc, hC⟩ := concM_dyn_inv h
    refine ⟨ih _ hpc hp.1.1.1, ?_⟩
    intro he A' hA'
    simp only [he, Bool.false_eq_true, if_false] at hC
    have := (concM_sem p A hpc hp.1.1.1).1.functional hA'
    subst this
    rw [hC]; rfl

theorem Pf.MOK.patsOK {ax : List NPat} {pf : Pf} (h : Pf.MOK ax pf = true) : pf.patsOK = true := by
  simp only [Pf.MOK, Bool.and_eq_true] at h; exact h.1.1

theorem Pf.MOK.instOK {ax : List NPat} {pf : Pf} (h : Pf.MOK ax pf = true) : pf.InstOK := by
  have hp := Pf.MOK.patsOK h
  simp only [Pf.MOK, Bool.and_eq_true] at h
  obtain ⟨C, hC⟩ := Option.isSome_iff_exists.mp h.2
  exact instOK_of_concM pf C hC hp

/-- conversely: the documented conclusion of an expression whose instantiations the machine accepts is `concM` -/
theorem concM_of_sem {pf : Pf} {C : Pat} (hS : Pf.Sem pf C) : pf.patsOK = true → pf.InstOK →
    Pf.concM pf = some C := by
  induction hS with
  | prop1 => intro _ _; rfl
  | prop2 => intro _ _; rfl
  | prop3 => intro _ _; rfl
  | quantifier => intro _ _; rfl
  | loadAxiom => intro _ _; rfl
  | @mp l r B C hl hr ihl ihr =>
    intro hp hi
    simp only [Pf.patsOK, Bool.and_eq_true] at hp
    simp only [Pf.concM, ihl hp.1 hi.1, ihr hp.2 hi.2, if_true]
  | @gen p x L R hp' hfr ih =>
    intro hp hi
    simp only [Pf.patsOK] at hp
    simp only [Pf.concM, ih hp hi, hfr, if_true]
  | @dynInst p δ A hp' ih =>
    intro hp hi
    simp only [Pf.patsOK, Bool.and_eq_true, decide_eq_true_eq] at hp
    have hA := ih hp.1.1.1 hi.1
    have hsh := (concM_sem p A hA hp.1.1.1).2
    simp only [Pf.concM, hA]
    by_cases he : δ.isEmpty = true
    · have hnil : δ = [] := by simpa using he
      subst hnil
      simp [lookup_expandMap_nil, Py.inst_empty _ hsh]
    · simp only [he, Bool.false_eq_true, if_false]
      obtain ⟨r, hr⟩ := Option.isSome_iff_exists.mp (hi.2 (by simpa using he) A hp')
      rw [hr, C11.py_inst_eq_rust _ _ _ hr]

end KMod
