import Pi2.Subst
import Pi2.Gen.RustJudge
import Pi2.Gen.RustSubst
/-!
# The checker's judgements as written in Rust are the model's

`Pi2/Gen/RustJudge.lean` is regenerated from `rust/src/lib.rs` on every run (translator
`vlib/transrust.py`): `Gen.Rust.e_fresh`, `s_fresh`, `positive`, `negative`, arm by arm.  Here they
are proved equal to `Pat.eFresh`, `Pat.sFresh`, `Pat.pos`, `Pat.ng` — the functions the soundness
theorems (C01, C06) talk about.  A change of the Rust source that changes one of the judgements
makes one of these proofs fail (the check then searches for a concrete pattern on which the real
checker's judgement is unsound).
-/
namespace RustTie
open Pat

theorem translated : Gen.Rust.translated = true := by decide

theorem e_fresh_eq (p : Pat) (e : VId) : Gen.Rust.e_fresh p e = p.eFresh e := by
  induction p with
  | evar x => simp [Gen.Rust.e_fresh, Pat.eFresh]
  | svar x => simp [Gen.Rust.e_fresh, Pat.eFresh]
  | sym x => simp [Gen.Rust.e_fresh, Pat.eFresh]
  | mv id ef sf ps ns hs => simp [Gen.Rust.e_fresh, Pat.eFresh]
  | imp l r ihl ihr => simp [Gen.Rust.e_fresh, Pat.eFresh, ihl, ihr]
  | app l r ihl ihr => simp [Gen.Rust.e_fresh, Pat.eFresh, ihl, ihr]
  | ex x p ih => simp [Gen.Rust.e_fresh, Pat.eFresh, ih]
  | mu x p ih => simp [Gen.Rust.e_fresh, Pat.eFresh, ih]
  | esub p x q ihp ihq => simp [Gen.Rust.e_fresh, Pat.eFresh, ihp, ihq]
  | ssub p x q ihp ihq => simp [Gen.Rust.e_fresh, Pat.eFresh, ihp, ihq]

theorem s_fresh_eq (p : Pat) (s : VId) : Gen.Rust.s_fresh p s = p.sFresh s := by
  induction p with
  | evar x => simp [Gen.Rust.s_fresh, Pat.sFresh]
  | svar x => simp [Gen.Rust.s_fresh, Pat.sFresh]
  | sym x => simp [Gen.Rust.s_fresh, Pat.sFresh]
  | mv id ef sf ps ns hs => simp [Gen.Rust.s_fresh, Pat.sFresh]
  | imp l r ihl ihr => simp [Gen.Rust.s_fresh, Pat.sFresh, ihl, ihr]
  | app l r ihl ihr => simp [Gen.Rust.s_fresh, Pat.sFresh, ihl, ihr]
  | ex x p ih => simp [Gen.Rust.s_fresh, Pat.sFresh, ih]
  | mu x p ih => simp [Gen.Rust.s_fresh, Pat.sFresh, ih]
  | esub p x q ihp ihq => simp [Gen.Rust.s_fresh, Pat.sFresh, ihp, ihq]
  | ssub p x q ihp ihq => simp [Gen.Rust.s_fresh, Pat.sFresh, ihp, ihq]

theorem polarity_eq (p : Pat) : ∀ s : VId, Gen.Rust.positive p s = p.pos s ∧ Gen.Rust.negative p s = p.ng s := by
  induction p with
  | evar x => intro s; simp [Gen.Rust.positive, Gen.Rust.negative, Pat.pos, Pat.ng]
  | svar x => intro s; simp [Gen.Rust.positive, Gen.Rust.negative, Pat.pos, Pat.ng]
  | sym x => intro s; simp [Gen.Rust.positive, Gen.Rust.negative, Pat.pos, Pat.ng]
  | mv id ef sf ps ns hs => intro s; simp [Gen.Rust.positive, Gen.Rust.negative, Pat.pos, Pat.ng]
  | imp l r ihl ihr => intro s; simp [Gen.Rust.positive, Gen.Rust.negative, Pat.pos, Pat.ng, (ihl s).1, (ihl s).2, (ihr s).1, (ihr s).2]
  | app l r ihl ihr => intro s; simp [Gen.Rust.positive, Gen.Rust.negative, Pat.pos, Pat.ng, (ihl s).1, (ihl s).2, (ihr s).1, (ihr s).2]
  | ex x p ih => intro s; simp [Gen.Rust.positive, Gen.Rust.negative, Pat.pos, Pat.ng, (ih s).1, (ih s).2]
  | mu x p ih => intro s; simp [Gen.Rust.positive, Gen.Rust.negative, Pat.pos, Pat.ng, (ih s).1, (ih s).2]
  | esub p x q ihp ihq =>
    intro s; simp [Gen.Rust.positive, Gen.Rust.negative, Pat.pos, Pat.ng, (ihp s).1, (ihp s).2, s_fresh_eq]
  | ssub p x q ihp ihq =>
    intro s
    simp [Gen.Rust.positive, Gen.Rust.negative, Pat.pos, Pat.ng, (ihp s).1, (ihp s).2, (ihp x).1, (ihp x).2,
      (ihq s).1, (ihq s).2, s_fresh_eq]

theorem positive_eq (p : Pat) (s : VId) : Gen.Rust.positive p s = p.pos s := (polarity_eq p s).1
theorem negative_eq (p : Pat) (s : VId) : Gen.Rust.negative p s = p.ng s := (polarity_eq p s).2

/-! ## `apply_esubst` / `apply_ssubst` (`Pi2/Gen/RustSubst.lean`, a panic is `none`) -/

theorem substTranslated : Gen.Rust.substTranslated = true := by decide

theorem apply_esubst_eq (p : Pat) (x : VId) (plug : Pat) :
    Gen.Rust.apply_esubst p x plug = Pat.applyESubst x plug p := by
  induction p with
  | evar y => by_cases h : y = x <;> simp [Gen.Rust.apply_esubst, Pat.applyESubst, h]
  | svar y => simp [Gen.Rust.apply_esubst, Pat.applyESubst]
  | sym y => simp [Gen.Rust.apply_esubst, Pat.applyESubst]
  | mv id ef sf ps ns hs => simp [Gen.Rust.apply_esubst, Pat.applyESubst]
  | imp l r ihl ihr =>
    simp only [Gen.Rust.apply_esubst, Pat.applyESubst, ihl, ihr]
    cases Pat.applyESubst x plug l <;> cases Pat.applyESubst x plug r <;> rfl
  | app l r ihl ihr =>
    simp only [Gen.Rust.apply_esubst, Pat.applyESubst, ihl, ihr]
    cases Pat.applyESubst x plug l <;> cases Pat.applyESubst x plug r <;> rfl
  | ex y q ih =>
    simp only [Gen.Rust.apply_esubst, Pat.applyESubst, ih, e_fresh_eq]
    by_cases h : y = x
    · simp [h]
    · simp only [beq_iff_eq, h, if_false]
      cases Pat.eFresh y plug <;> simp <;> cases Pat.applyESubst x plug q <;> rfl
  | mu y q ih =>
    simp only [Gen.Rust.apply_esubst, Pat.applyESubst, ih, s_fresh_eq]
    cases Pat.sFresh y plug <;> simp <;> cases Pat.applyESubst x plug q <;> rfl
  | esub q y r _ _ => simp [Gen.Rust.apply_esubst, Pat.applyESubst]
  | ssub q y r _ _ => simp [Gen.Rust.apply_esubst, Pat.applyESubst]

theorem apply_ssubst_eq (p : Pat) (x : VId) (plug : Pat) :
    Gen.Rust.apply_ssubst p x plug = Pat.applySSubst x plug p := by
  induction p with
  | evar y => simp [Gen.Rust.apply_ssubst, Pat.applySSubst]
  | svar y => by_cases h : y = x <;> simp [Gen.Rust.apply_ssubst, Pat.applySSubst, h]
  | sym y => simp [Gen.Rust.apply_ssubst, Pat.applySSubst]
  | mv id ef sf ps ns hs => simp [Gen.Rust.apply_ssubst, Pat.applySSubst]
  | imp l r ihl ihr =>
    simp only [Gen.Rust.apply_ssubst, Pat.applySSubst, ihl, ihr]
    cases Pat.applySSubst x plug l <;> cases Pat.applySSubst x plug r <;> rfl
  | app l r ihl ihr =>
    simp only [Gen.Rust.apply_ssubst, Pat.applySSubst, ihl, ihr]
    cases Pat.applySSubst x plug l <;> cases Pat.applySSubst x plug r <;> rfl
  | ex y q ih =>
    simp only [Gen.Rust.apply_ssubst, Pat.applySSubst, ih, e_fresh_eq]
    cases Pat.eFresh y plug <;> simp <;> cases Pat.applySSubst x plug q <;> rfl
  | mu y q ih =>
    simp only [Gen.Rust.apply_ssubst, Pat.applySSubst, ih, s_fresh_eq]
    by_cases h : y = x
    · simp [h]
    · simp only [beq_iff_eq, h, if_false]
      cases Pat.sFresh y plug <;> simp <;> cases Pat.applySSubst x plug q <;> rfl
  | esub q y r _ _ => simp [Gen.Rust.apply_ssubst, Pat.applySSubst]
  | ssub q y r _ _ => simp [Gen.Rust.apply_ssubst, Pat.applySSubst]

end RustTie
