import Pi2.Machine
/-!
# L4 — the byte codec

Bytes are `Nat`s; a *wire* byte string additionally satisfies `∀ b ∈ bs, b < 256`
(`Wire`).  Opcode numbers are those of `Instruction::from` in `lib.rs:44-79` and of
`instruction.py`; `Pi2/Gen/Opcodes.lean` (regenerated from both sources on every run) is
checked against `opcode` below by `decide` in `Pi2.Props.C14`.
-/

def takeN : Nat → List Nat → Option (List Nat × List Nat)
  | 0, bs => some ([], bs)
  | n + 1, b :: bs => (takeN n bs).map fun (xs, rest) => (b :: xs, rest)
  | _ + 1, [] => none

/-- length-prefixed id list (`read_u8_vec`, lib.rs:715-727) -/
def readVec : List Nat → Option (List Nat × List Nat)
  | [] => none
  | n :: bs => takeN n bs

theorem takeN_length {n : Nat} {bs xs rest : List Nat} (h : takeN n bs = some (xs, rest)) :
    rest.length + n = bs.length ∧ xs.length = n := by
  induction n generalizing bs xs rest with
  | zero => simp [takeN] at h; obtain ⟨rfl, rfl⟩ := h; simp
  | succ n ih =>
    cases bs with
    | nil => simp [takeN] at h
    | cons b bs =>
      simp only [takeN, Option.map_eq_some_iff] at h
      obtain ⟨⟨xs0, r0⟩, h0, heq⟩ := h
      simp at heq; obtain ⟨rfl, rfl⟩ := heq
      have := ih h0; simp; omega

theorem readVec_length {bs xs rest : List Nat} (h : readVec bs = some (xs, rest)) :
    rest.length < bs.length := by
  cases bs with
  | nil => simp [readVec] at h
  | cons n bs => simp only [readVec] at h; have := (takeN_length h).1; simp; omega

/-- decode one instruction from the front of the stream -/
def decode1 : List Nat → Option (Instr × List Nat)
  | 2 :: x :: r => some (.evar x, r)
  | 3 :: x :: r => some (.svar x, r)
  | 4 :: x :: r => some (.sym x, r)
  | 5 :: r => some (.implies, r)
  | 6 :: r => some (.app, r)
  | 7 :: x :: r => some (.mu x, r)
  | 8 :: x :: r => some (.ex x, r)
  | 9 :: id :: r => do
      let (ef, r) ← readVec r
      let (sf, r) ← readVec r
      let (ps, r) ← readVec r
      let (ns, r) ← readVec r
      let (hs, r) ← readVec r
      pure (.metavar id ef sf ps ns hs, r)
  | 10 :: x :: r => some (.esubst x, r)
  | 11 :: x :: r => some (.ssubst x, r)
  | 12 :: r => some (.prop1, r)
  | 13 :: r => some (.prop2, r)
  | 14 :: r => some (.prop3, r)
  | 15 :: r => some (.quantifier, r)
  | 19 :: r => some (.existence, r)
  | 21 :: r => some (.mp, r)
  | 22 :: x :: r => some (.gen x, r)
  | 24 :: x :: r => some (.subst x, r)
  | 26 :: n :: r => (takeN n r).map fun (ids, r') => (.instantiate ids, r')
  | 27 :: r => some (.pop, r)
  | 28 :: r => some (.save, r)
  | 29 :: i :: r => some (.load i, r)
  | 30 :: r => some (.publish, r)
  | 137 :: x :: r => some (.cleanmv x, r)
  | _ => none

theorem decode1_length {bs : List Nat} {i : Instr} {r : List Nat} (h : decode1 bs = some (i, r)) :
    r.length < bs.length := by
  unfold decode1 at h
  split at h
  all_goals first
    | (simp only [Option.some.injEq, Prod.mk.injEq] at h; obtain ⟨_, rfl⟩ := h; simp only [List.length_cons]; omega)
    | (simp at h; done)
    | skip
  · -- metavar
    rename_i id r0
    cases h1 : readVec r0 with
    | none => simp [h1] at h
    | some p1 =>
    cases h2 : readVec p1.2 with
    | none => simp [h1, h2] at h
    | some p2 =>
    cases h3 : readVec p2.2 with
    | none => simp [h1, h2, h3] at h
    | some p3 =>
    cases h4 : readVec p3.2 with
    | none => simp [h1, h2, h3, h4] at h
    | some p4 =>
    cases h5 : readVec p4.2 with
    | none => simp [h1, h2, h3, h4, h5] at h
    | some p5 =>
      simp [h1, h2, h3, h4, h5] at h
      obtain ⟨_, rfl⟩ := h
      have l1 := readVec_length (xs := p1.1) (rest := p1.2) h1
      have l2 := readVec_length (xs := p2.1) (rest := p2.2) h2
      have l3 := readVec_length (xs := p3.1) (rest := p3.2) h3
      have l4 := readVec_length (xs := p4.1) (rest := p4.2) h4
      have l5 := readVec_length (xs := p5.1) (rest := p5.2) h5
      simp only [List.length_cons]; omega
  · -- instantiate
    rename_i n r0
    simp only [Option.map_eq_some_iff] at h
    obtain ⟨⟨ids, r'⟩, h0, heq⟩ := h
    simp at heq; obtain ⟨_, rfl⟩ := heq
    have := (takeN_length h0).1; simp only [List.length_cons]; omega

/-- decode a whole stream; structural recursion on fuel so that the kernel can evaluate it
(`decode1` consumes at least one byte, so `bs.length` is enough fuel: `decodeF_fuel`) -/
def decodeF : Nat → List Nat → Option (List Instr)
  | _, [] => some []
  | 0, _ :: _ => none
  | f + 1, b :: bs =>
    match decode1 (b :: bs) with
    | none => none
    | some (i, r) => (decodeF f r).map (i :: ·)

def decode (bs : List Nat) : Option (List Instr) := decodeF bs.length bs

/-- more fuel than bytes changes nothing -/
theorem decodeF_fuel : ∀ (f : Nat) (bs : List Nat), bs.length ≤ f → decodeF f bs = decodeF bs.length bs := by
  intro f
  induction f using Nat.strongRecOn with
  | _ f ih =>
    intro bs hlen
    cases bs with
    | nil => cases f <;> simp [decodeF]
    | cons b bs =>
      cases f with
      | zero => simp at hlen
      | succ f =>
        simp only [List.length_cons, decodeF]
        cases h : decode1 (b :: bs) with
        | none => rfl
        | some ir =>
          obtain ⟨i, r⟩ := ir
          have hr : r.length < (b :: bs).length := decode1_length h
          simp only [List.length_cons] at hr
          simp only []
          rw [ih f (Nat.lt_succ_self f) r (by simp at hlen; omega)]
          by_cases hb : bs.length = f
          · subst hb; rw [ih bs.length (Nat.lt_succ_self _) r (by omega)]
          · rw [ih bs.length (by simp at hlen; omega) r (by omega)]

def encVec (xs : List Nat) : List Nat := xs.length :: xs

/-- encode one instruction (what `SerializingInterpreter` writes, `instruction.py`) -/
def encode1 : Instr → List Nat
  | .evar x => [2, x] | .svar x => [3, x] | .sym x => [4, x]
  | .implies => [5] | .app => [6] | .mu x => [7, x] | .ex x => [8, x]
  | .metavar id ef sf ps ns hs => [9, id] ++ encVec ef ++ encVec sf ++ encVec ps ++ encVec ns ++ encVec hs
  | .esubst x => [10, x] | .ssubst x => [11, x]
  | .prop1 => [12] | .prop2 => [13] | .prop3 => [14] | .quantifier => [15]
  | .existence => [19] | .mp => [21] | .gen x => [22, x] | .subst x => [24, x]
  | .instantiate ids => [26, ids.length] ++ ids
  | .pop => [27] | .save => [28] | .load i => [29, i] | .publish => [30]
  | .cleanmv x => [137, x]

def encode (is : List Instr) : List Nat := (is.map encode1).flatten

def Wire (bs : List Nat) : Prop := ∀ b ∈ bs, b < 256

/-- the checker on bytes: decode each phase, then `verify` -/
def verifyBytes (g c p : List Nat) : Option (List Pat × List Pat) := do
  let gi ← decode g; let ci ← decode c; let pi ← decode p
  verify gi ci pi

def verifyStatesBytes (g c p : List Nat) : Option (St × St × St × List Pat × List Pat) := do
  let gi ← decode g; let ci ← decode c; let pi ← decode p
  verifyStates gi ci pi
