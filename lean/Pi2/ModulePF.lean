import Pi2.MM.Accept
import Pi2.Props.C02
/-!
# Proof modules of the propositional fragment: the side conditions are derived

`NPat.PF`: symbols, clean metavariables, `imp`, `app`, the body `mu 0 (svar 0)` of `bot`, and notation
nodes over such patterns (with distinct keys).  `Pf.PF`: `prop1/2/3`, `mp`, `dynInst` (distinct keys,
values in the fragment), `loadAxiom`.  For such modules every call `execute_full` makes satisfies the
machine's side conditions, so `module_accepted` needs no `AllSideM` hypothesis.
-/
set_option linter.unusedSimpArgs false
set_option linter.unusedVariables false
open Pat PySt NPat MM

/-! ## the fragment -/

namespace NPat

/-- the set variable `X0` -/
def isSV0 : NPat → Bool
  | .svar Y => Y == 0
  | _ => false

mutual
def PF : NPat → Bool
  | .sym _ => true
  | .mv _ ef sf ps ns hs => ef.isEmpty && sf.isEmpty && ps.isEmpty && ns.isEmpty && hs.isEmpty
  | .imp l r => l.PF && r.PF
  | .app l r => l.PF && r.PF
  | .mu X p => X == 0 && p.isSV0
  | .inst p m => p.PF && PFMap m && decide ((m.map (·.1)).Nodup)
  | _ => false
def PFMap : List (Nat × NPat) → Bool
  | [] => true
  | (_, v) :: r => v.PF && PFMap r
end

theorem PFMap_iff (m : List (Nat × NPat)) : PFMap m = true ↔ ∀ kv ∈ m, kv.2.PF = true := by
  induction m with
  | nil => simp [PFMap]
  | cons kv r ih => obtain ⟨k, v⟩ := kv; simp [PFMap, ih]

theorem isSV0_eq {p : NPat} (h : p.isSV0 = true) : p = .svar 0 := by
  cases p <;> simp [isSV0] at h
  subst h; rfl

end NPat

/-- the expansions of the fragment: symbols, unconstrained metavariables, `imp`, `app`, `mu X. Y` -/
def Pat.isSV : Pat → Bool
  | .svar _ => true
  | _ => false

def Pat.PFS : Pat → Bool
  | .sym _ => true
  | .mv _ ef sf ps ns _ => ef.isEmpty && sf.isEmpty && ps.isEmpty && ns.isEmpty
  | .imp l r => l.PFS && r.PFS
  | .app l r => l.PFS && r.PFS
  | .mu _ p => p.isSV
  | _ => false

/-- the machine never rejects an instantiation of a pattern of the fragment -/
theorem Pat.inst_PFS (θ : VId → Option Pat) (p : Pat) (hp : p.PFS = true) :
    (Pat.inst θ p).isSome = true := by
  induction p with
  | sym _ => simp [Pat.inst]
  | mv id ef sf ps ns hs =>
    simp only [Pat.PFS, Bool.and_eq_true, List.isEmpty_iff] at hp
    obtain ⟨⟨⟨rfl, rfl⟩, rfl⟩, rfl⟩ := hp
    simp only [Pat.inst]
    cases θ id <;> simp [Pat.okPlug]
  | imp l r ihl ihr =>
    simp only [Pat.PFS, Bool.and_eq_true] at hp
    obtain ⟨a, ha⟩ := Option.isSome_iff_exists.mp (ihl hp.1)
    obtain ⟨b, hb⟩ := Option.isSome_iff_exists.mp (ihr hp.2)
    simp [Pat.inst, ha, hb]
  | app l r ihl ihr =>
    simp only [Pat.PFS, Bool.and_eq_true] at hp
    obtain ⟨a, ha⟩ := Option.isSome_iff_exists.mp (ihl hp.1)
    obtain ⟨b, hb⟩ := Option.isSome_iff_exists.mp (ihr hp.2)
    simp [Pat.inst, ha, hb]
  | mu X p _ =>
    simp only [Pat.PFS] at hp
    cases p <;> simp [Pat.isSV] at hp
    simp [Pat.inst]
  | _ => simp [Pat.PFS] at hp

theorem Py.inst_PFS (δ : VId → Option Pat) (hδ : ∀ k v, δ k = some v → v.PFS = true)
    (q : Pat) (hq : q.PFS = true) : (Py.inst δ q).PFS = true := by
  induction q with
  | sym _ => simp [Py.inst, Pat.PFS]
  | mv id ef sf ps ns hs =>
    simp only [Py.inst]
    cases h : δ id with
    | none => simpa using hq
    | some v => simpa using hδ _ _ h
  | imp l r ihl ihr =>
    simp only [Pat.PFS, Bool.and_eq_true] at hq
    simp [Py.inst, Pat.PFS, ihl hq.1, ihr hq.2]
  | app l r ihl ihr =>
    simp only [Pat.PFS, Bool.and_eq_true] at hq
    simp [Py.inst, Pat.PFS, ihl hq.1, ihr hq.2]
  | mu X p _ =>
    simp only [Pat.PFS] at hq
    cases p <;> simp [Pat.isSV] at hq
    simp [Py.inst, Pat.PFS, Pat.isSV]
  | _ => simp [Pat.PFS] at hq

/-- a term of the tracker is *good*: shaped, with an expansion in the fragment -/
def NPat.Good (a : NPat) : Prop := a.Shape = true ∧ a.expand.PFS = true

theorem lookup_PFS : ∀ (m : List (Nat × NPat)), (∀ kv ∈ m, kv.2.expand.PFS = true) →
    ∀ k v, Py.lookup (expand.expandMap m) k = some v → v.PFS = true
  | [], _ => by simp [expand.expandMap, Py.lookup]
  | (k, v) :: r, h => by
    intro i w hw
    simp only [expand.expandMap, Py.lookup] at hw
    split at hw
    · cases hw; exact h (k, v) (by simp)
    · exact lookup_PFS r (fun kv hkv => h kv (List.mem_cons_of_mem _ hkv)) i w hw

namespace NPat

mutual
theorem PF.shape : (p : NPat) → p.PF = true → p.Shape = true
  | .sym _, _ => rfl
  | .mv _ _ _ _ _ _, h => by
    simp only [PF, Bool.and_eq_true] at h
    simp [Shape, h.1.1.1.1, h.1.1.1.2]
  | .imp l r, h => by
    simp only [PF, Bool.and_eq_true] at h
    simp [Shape, PF.shape l h.1, PF.shape r h.2]
  | .app l r, h => by
    simp only [PF, Bool.and_eq_true] at h
    simp [Shape, PF.shape l h.1, PF.shape r h.2]
  | .inst p m, h => by
    simp only [PF, Bool.and_eq_true] at h
    simp [Shape, PF.shape p h.1.1, PFMap.shape m h.1.2]
  | .mu _ p, h => by
    simp only [PF, Bool.and_eq_true] at h
    rw [isSV0_eq h.2]; rfl
  | .evar _, h => by simp [PF] at h
  | .svar _, h => by simp [PF] at h
  | .ex _ _, h => by simp [PF] at h
  | .esub _ _ _, h => by simp [PF] at h
  | .ssub _ _ _, h => by simp [PF] at h
theorem PFMap.shape : (m : List (Nat × NPat)) → PFMap m = true → ShapeMap m = true
  | [], _ => rfl
  | (_, v) :: r, h => by
    simp only [PFMap, Bool.and_eq_true] at h
    simp [ShapeMap, PF.shape v h.1, PFMap.shape r h.2]
end

mutual
theorem PF.pfs : (p : NPat) → p.PF = true → p.expand.PFS = true
  | .sym _, _ => rfl
  | .mv _ _ _ _ _ _, h => by
    simp only [PF, Bool.and_eq_true] at h
    simp [expand, Pat.PFS, h.1.1.1.1, h.1.1.1.2, h.1.1.2, h.1.2]
  | .imp l r, h => by
    simp only [PF, Bool.and_eq_true] at h
    simp [expand, Pat.PFS, PF.pfs l h.1, PF.pfs r h.2]
  | .app l r, h => by
    simp only [PF, Bool.and_eq_true] at h
    simp [expand, Pat.PFS, PF.pfs l h.1, PF.pfs r h.2]
  | .inst p m, h => by
    simp only [PF, Bool.and_eq_true] at h
    simp only [expand]
    exact Py.inst_PFS _ (PFMap.pfs m h.1.2) _ (PF.pfs p h.1.1)
  | .mu _ p, h => by
    simp only [PF, Bool.and_eq_true] at h
    rw [isSV0_eq h.2]; rfl
  | .evar _, h => by simp [PF] at h
  | .svar _, h => by simp [PF] at h
  | .ex _ _, h => by simp [PF] at h
  | .esub _ _ _, h => by simp [PF] at h
  | .ssub _ _ _, h => by simp [PF] at h
theorem PFMap.pfs : (m : List (Nat × NPat)) → PFMap m = true →
    ∀ k v, Py.lookup (expand.expandMap m) k = some v → v.PFS = true
  | [], _ => by simp [expand.expandMap, Py.lookup]
  | (k, v) :: r, h => by
    simp only [PFMap, Bool.and_eq_true] at h
    intro i w hw
    simp only [expand.expandMap, Py.lookup] at hw
    split at hw
    · cases hw; exact PF.pfs v h.1
    · exact PFMap.pfs r h.2 i w hw
end

theorem PF.good {p : NPat} (h : p.PF = true) : p.Good := ⟨PF.shape p h, PF.pfs p h⟩

theorem PF.keys {p : NPat} {m : List (Nat × NPat)} (h : (NPat.inst p m).PF = true) :
    p.PF = true ∧ (∀ v ∈ m.map (·.2), v.PF = true) ∧ (m.map (·.1)).Nodup := by
  simp only [PF, Bool.and_eq_true, decide_eq_true_eq] at h
  refine ⟨h.1.1, ?_, h.2⟩
  intro v hv
  obtain ⟨kv, hkv, rfl⟩ := List.mem_map.mp hv
  exact (PFMap_iff m).mp h.1.2 kv hkv

/-! ### closure of good terms under the tracker's operations -/

theorem good_zip (keys : List Nat) (plugs : List NPat) (h : ∀ p ∈ plugs, p.Good) :
    ShapeMap (keys.zip plugs) = true ∧
      ∀ k v, Py.lookup (expand.expandMap (keys.zip plugs)) k = some v → v.PFS = true := by
  refine ⟨shapeMap_zip keys plugs (fun p hp => (h p hp).1), lookup_PFS _ ?_⟩
  intro kv hkv
  obtain ⟨k, v⟩ := kv
  exact (h v (List.of_mem_zip hkv).2).2

theorem Good.instF {N : Nat} {keys : List Nat} {plugs : List NPat} {a c : NPat} (ha : a.Good)
    (hp : ∀ p ∈ plugs, p.Good) (h : NPat.instF N (keys.zip plugs) a = some c) : c.Good := by
  obtain ⟨hz1, hz2⟩ := good_zip keys plugs hp
  obtain ⟨he, hs⟩ := instF_expand N _ a c ha.1 hz1 h
  exact ⟨hs, by rw [he]; exact Py.inst_PFS _ hz2 _ ha.2⟩

theorem Good.inst {keys : List Nat} {plugs : List NPat} {a : NPat} (ha : a.Good)
    (hp : ∀ p ∈ plugs, p.Good) : (NPat.inst a (keys.zip plugs)).Good := by
  obtain ⟨hz1, hz2⟩ := good_zip keys plugs hp
  exact ⟨by simp [Shape, ha.1, hz1], by simp only [expand]; exact Py.inst_PFS _ hz2 _ ha.2⟩

theorem Good.mp {N : Nat} {l r c : NPat} (hl : l.Good) (hr : r.Good)
    (h : pyMP N l r = some (some c)) : c.Good := by
  obtain ⟨he, hs⟩ := pyMP_spec N l r c hl.1 hr.1 h
  have := hl.2
  rw [he] at this
  simp only [Pat.PFS, Bool.and_eq_true] at this
  exact ⟨hs, this.2⟩

theorem good_prop1 : prop1N.Good := ⟨by decide, by decide⟩
theorem good_prop2 : prop2N.Good := ⟨by decide, by decide⟩
theorem good_prop3 : prop3N.Good := ⟨by decide, by decide⟩

end NPat

/-! ## traces on top of an arbitrary state -/

/-- calls made on top of `s0`: a trace with fuel `N` (with its side conditions), new entries `top`,
only quiet calls -/
def PostP (N : Nat) (s0 : PySt) (top : List (TTerm × Bool)) (acc : List Call) (s : PySt)
    (a : List Call) : Prop :=
  ∃ cs, a = acc ++ cs ∧ Tr N s0 cs s ∧ s.stack = top ++ s0.stack ∧ ∀ c ∈ cs, c.quiet = true

theorem PostP.init (N : Nat) (s : PySt) (acc : List Call) : PostP N s [] acc s acc :=
  ⟨[], by simp, Tr.nil N s, rfl, by simp⟩

theorem PostP.trans {N : Nat} {s0 s1 s2 : PySt} {t1 t2 : List (TTerm × Bool)}
    {acc a1 a2 : List Call} (h1 : PostP N s0 t1 acc s1 a1) (h2 : PostP N s1 t2 a1 s2 a2) :
    PostP N s0 (t2 ++ t1) acc s2 a2 := by
  obtain ⟨c1, rfl, tr1, k1, q1⟩ := h1
  obtain ⟨c2, rfl, tr2, k2, q2⟩ := h2
  refine ⟨c1 ++ c2, by simp, tr1.append tr2, by rw [k2, k1, List.append_assoc], ?_⟩
  intro c hc
  rcases List.mem_append.mp hc with hc | hc
  · exact q1 c hc
  · exact q2 c hc

theorem PostP.step {N : Nat} {s0 s s' : PySt} {top top' : List (TTerm × Bool)} {acc a : List Call}
    (c : Call) (hp : PostP N s0 top acc s a) (ht : track1 N s c = some (some s'))
    (hside : SideNS s c) (hstk : s'.stack = top' ++ s0.stack)
    (hq : c.quiet = true) : PostP N s0 top' acc s' (a ++ [c]) := by
  obtain ⟨cs, rfl, tr, _, q⟩ := hp
  refine ⟨cs ++ [c], by simp, tr.append (Tr.single ht (Or.inr hside)), hstk, ?_⟩
  intro x hx
  rcases List.mem_append.mp hx with hx | hx
  · exact q x hx
  · simp at hx; subst hx; exact hq

theorem PostP.stack {N : Nat} {s0 s : PySt} {top : List (TTerm × Bool)} {acc a : List Call}
    (h : PostP N s0 top acc s a) : s.stack = top ++ s0.stack := by
  obtain ⟨_, _, _, hk, _⟩ := h
  exact hk

theorem take_entry (l : List NPat) (rest : List (TTerm × Bool)) :
    ((l.map entry ++ rest).take l.length).any (·.2) = false := by
  have : (l.map entry ++ rest).take l.length = l.map entry := by
    exact List.take_left' (l₁ := l.map entry) (l₂ := rest) (i := l.length) (by simp)
  rw [this]
  rw [List.any_eq_false]
  intro e he
  obtain ⟨t, _, rfl⟩ := List.mem_map.mp he
  simp [entry]

/-- `instantiate` / `instantiate_pattern` on a fresh term over fresh plugs -/
theorem sideNS_instP (s : PySt) (c : Call) (keys : List Nat)
    (hc : c = .instantiate keys ∨ c = .instantiatePattern keys) (hnd : keys.Nodup)
    (t : TTerm) (l : List NPat) (rest : List (TTerm × Bool))
    (hs : s.stack = (t, false) :: (l.map entry ++ rest)) (hlen : keys.length = l.length)
    (ht : t.body.Good) : SideNS s c := by
  have hres : ((l.map entry ++ rest).take keys.length).any (·.2) = false := by
    rw [hlen]; exact take_entry l rest
  have hsc : ∀ a b st0 plugs st', s.stack = (a, b) :: st0 →
      PySt.takePlugs keys.length st0 = some (plugs, st') →
      (Pat.inst (Py.lookup (NPat.expand.expandMap (keys.zip plugs))) a.body.expand).isSome = true := by
    intro a b st0 plugs st' hs' _
    rw [hs] at hs'
    cases hs'
    exact Pat.inst_PFS _ _ ht.2
  rcases hc with rfl | rfl
  · exact ⟨hsc, by simp [touchesResidue, Call.arity, hs, List.take_succ_cons, hres],
      (fun _ e => by rcases e with e | e <;> cases e; exact hnd),
      (fun _ e => by cases e), (fun _ _ _ _ _ _ e => by cases e)⟩
  · exact ⟨hsc, by simp [touchesResidue, Call.arity, hs, List.take_succ_cons, hres],
      (fun _ e => by rcases e with e | e <;> cases e; exact hnd),
      (fun _ e => by cases e), (fun _ _ _ _ _ _ e => by cases e)⟩

/-! ## `Interpreter.pattern` on the fragment -/

/-- the patterns `Interpreter.pattern` is called on: the fragment and the variable under `mu` -/
def NPat.PFx (p : NPat) : Prop := p.PF = true ∨ p = .svar 0

theorem NPat.PFx.shape {p : NPat} (h : p.PFx) : p.Shape = true := by
  rcases h with h | rfl
  · exact PF.shape p h
  · rfl

def PatTr (cfg : Cfg) (N k : Nat) : Prop :=
  ∀ s p acc s' a', NPat.PFx p → patternF cfg k s p acc = some (some (s', a')) →
    PostP N s [entry p] acc s' a'

def ListTr (cfg : Cfg) (N k : Nat) : Prop :=
  ∀ s ps acc s' a', (∀ p ∈ ps, p.PF = true) →
    patternF.patternListF cfg k s ps acc = some (some (s', a')) →
    PostP N s (ps.reverse.map entry) acc s' a'

theorem buildPF (cfg : Cfg) (N k : Nat) (hk : k ≤ N) (ihP : PatTr cfg N k) (ihL : ListTr cfg N k)
    (s : PySt) (p : NPat) (acc : List Call) (s' : PySt) (a' : List Call)
    (hp : p.PFx) (h : buildF cfg k s p acc = some (some (s', a'))) :
    PostP N s [entry p] acc s' a' := by
  have hP0 := PostP.init N s acc
  have two : ∀ (l r : NPat) (c : Call) (res : NPat), l.PF = true → r.PF = true →
      (c = .implies ∨ c = .app) →
      (∀ (s2 : PySt) st, s2.stack = (.pat r, false) :: (.pat l, false) :: st →
        ∀ n, track1 n s2 c = some (some { s2 with stack := (.pat res, false) :: st })) →
      c.quiet = true →
      (andThen (patternF cfg k s l acc) fun s1 a1 =>
        andThen (patternF cfg k s1 r a1) fun s2 a2 => doCalls k s2 [c] a2) = some (some (s', a')) →
      PostP N s [entry res] acc s' a' := by
    intro l r c res hl hr hc htr hq h
    rcases andThen_eq_some _ _ _ h with ⟨_, e⟩ | ⟨s1, a1, h1, h⟩
    · cases e
    rcases andThen_eq_some _ _ _ h with ⟨_, e⟩ | ⟨s2, a2, h2, h⟩
    · cases e
    have p1 := ihP s l acc s1 a1 (Or.inl hl) h1
    have p2 := ihP s1 r a1 s2 a2 (Or.inl hr) h2
    have p12 := p1.trans p2
    obtain ⟨ht, rfl⟩ := doCalls_one h
    have hstk : s2.stack = (.pat r, false) :: (.pat l, false) :: s.stack := by
      simpa [entry] using p12.stack
    have ht' := htr s2 s.stack hstk k
    rw [ht'] at ht
    simp only [Option.some.injEq] at ht
    subst ht
    exact p12.step c (htr s2 s.stack hstk N)
      (sideNS_top2 s2 c _ _ _ hstk (by rcases hc with rfl | rfl <;> simp)) rfl hq
  cases p with
  | sym x =>
    simp only [buildF] at h
    obtain ⟨ht, rfl⟩ := doCalls_one h
    have ht' : track1 N s (.symbol x) = some (some s') := track1_mono hk _ _ _ ht
    simp only [track1, Option.some.injEq] at ht
    subst ht
    exact hP0.step _ ht' (sideNS_symbol s x) rfl rfl
  | svar x =>
    simp only [buildF] at h
    obtain ⟨ht, rfl⟩ := doCalls_one h
    have ht' : track1 N s (.svar x) = some (some s') := track1_mono hk _ _ _ ht
    simp only [track1, Option.some.injEq] at ht
    subst ht
    exact hP0.step _ ht'
      (sideNS_mk s _ trivial (by simp [touchesResidue, Call.arity]) (by simp) (by simp) (by simp))
      rfl rfl
  | mv id ef sf ps ns hs' =>
    rcases hp with hp | hp
    · simp only [PF, Bool.and_eq_true, List.isEmpty_iff] at hp
      obtain ⟨⟨⟨⟨rfl, rfl⟩, rfl⟩, rfl⟩, rfl⟩ := hp
      simp only [buildF] at h
      obtain ⟨ht, rfl⟩ := doCalls_one h
      have ht' : track1 N s (.metavar id [] [] [] [] []) = some (some s') := track1_mono hk _ _ _ ht
      simp only [track1, Option.some.injEq] at ht
      subst ht
      exact hP0.step _ ht' (sideNS_mvclean s id) rfl rfl
    · cases hp
  | imp l r =>
    rcases hp with hp | hp
    · simp only [PF, Bool.and_eq_true] at hp
      simp only [buildF] at h
      exact two l r .implies (.imp l r) hp.1 hp.2 (Or.inl rfl)
        (fun s2 st hstk n => by simp [track1, hstk]) rfl h
    · cases hp
  | app l r =>
    rcases hp with hp | hp
    · simp only [PF, Bool.and_eq_true] at hp
      simp only [buildF] at h
      exact two l r .app (.app l r) hp.1 hp.2 (Or.inr rfl)
        (fun s2 st hstk n => by simp [track1, hstk]) rfl h
    · cases hp
  | mu X q =>
    rcases hp with hp | hp
    · simp only [PF, Bool.and_eq_true] at hp
      have hq := isSV0_eq hp.2
      subst hq
      simp only [buildF] at h
      rcases andThen_eq_some _ _ _ h with ⟨_, e⟩ | ⟨s1, a1, h1, h⟩
      · cases e
      have p1 := ihP s (.svar 0) acc s1 a1 (Or.inr rfl) h1
      obtain ⟨ht, rfl⟩ := doCalls_one h
      have hstk : s1.stack = (.pat (.svar 0), false) :: s.stack := by
        simpa [entry] using p1.stack
      have htr : ∀ n, track1 n s1 (.mu X)
          = some (some { s1 with stack := (.pat (.mu X (.svar 0)), false) :: s.stack }) := by
        intro n; simp [track1, hstk]
      rw [htr k] at ht
      simp only [Option.some.injEq] at ht
      subst ht
      refine p1.step _ (htr N) ?_ rfl rfl
      refine sideNS_mk s1 _ ?_ (by simp [touchesResidue, Call.arity, hstk]) (by simp) (by simp)
        (by simp)
      intro p b st hs
      rw [hstk] at hs
      cases hs
      rfl
    · cases hp
  | inst q m =>
    rcases hp with hp | hp
    · obtain ⟨hq, hvals, hnd⟩ := PF.keys hp
      simp only [buildF] at h
      rcases andThen_eq_some _ _ _ h with ⟨_, e⟩ | ⟨s1, a1, h1, h⟩
      · cases e
      rcases andThen_eq_some _ _ _ h with ⟨_, e⟩ | ⟨s2, a2, h2, h⟩
      · cases e
      have p1 := ihL s (m.map (·.2)) acc s1 a1 hvals h1
      have p2 := ihP s1 q a1 s2 a2 (Or.inl hq) h2
      have p12 := p1.trans p2
      obtain ⟨ht, rfl⟩ := doCalls_one h
      have hstk : s2.stack = (.pat q, false) :: ((m.map (·.2)).reverse.map entry ++ s.stack) := by
        simpa [entry] using p12.stack
      have hlen : (m.map (·.1)).length = ((m.map (·.2)).reverse).length := by simp
      have htr : ∀ n, track1 n s2 (.instantiatePattern (m.map (·.1)))
          = some (some { s2 with stack := (.pat (.inst q m), false) :: s.stack }) := by
        intro n
        have := takePlugs_rev (m.map (·.2)).reverse s.stack
        simp only [List.reverse_reverse, List.length_reverse, List.length_map] at this
        simp only [track1, hstk, List.length_map, this, zip_keys_vals]
      rw [htr k] at ht
      simp only [Option.some.injEq] at ht
      subst ht
      exact p12.step _ (htr N)
        (sideNS_instP s2 _ _ (Or.inr rfl) hnd _ _ _ hstk hlen (PF.good hq)) rfl rfl
    · cases hp
  | evar _ => rcases hp with hp | hp <;> simp [PF] at hp
  | ex _ _ => rcases hp with hp | hp <;> simp [PF] at hp
  | esub _ _ _ => rcases hp with hp | hp <;> simp [PF] at hp
  | ssub _ _ _ => rcases hp with hp | hp <;> simp [PF] at hp

theorem patPF_step (cfg : Cfg) (N k : Nat) (hk : k + 1 ≤ N) (ihP : PatTr cfg N k)
    (ihL : ListTr cfg N k) : PatTr cfg N (k + 1) := by
  intro s p acc s' a' hp h
  rw [patternF_succ] at h
  simp only [Option.bind_eq_some_iff] at h
  obtain ⟨hit, _, h⟩ := h
  cases hit with
  | true =>
    simp only [if_true] at h
    obtain ⟨ht, rfl⟩ := doCalls_one h
    have e := track1_load_eq ht
    subst e
    exact (PostP.init N s acc).step _ (track1_mono (by omega) _ _ _ ht)
      (sideNS_load s _ hp.shape) rfl rfl
  | false =>
    simp only [Bool.false_eq_true, if_false] at h
    rcases andThen_eq_some _ _ _ h with ⟨_, e⟩ | ⟨s1, a1, hb, h⟩
    · cases e
    have p1 := buildPF cfg N k (by omega) ihP ihL s p acc s1 a1 hp hb
    unfold saveF at h
    split at h
    · split at h
      · obtain ⟨ht, rfl⟩ := doCalls_one h
        have hstk : s1.stack = (.pat p, false) :: s.stack := by
          simpa [entry] using p1.stack
        have ht2 : ∀ n, track1 n s1 .save
            = some (some { s1 with memory := s1.memory ++ [.pat p] }) := by
          intro n; simp [track1, hstk]
        rw [ht2 k] at ht
        simp only [Option.some.injEq] at ht
        subst ht
        exact p1.step _ (ht2 N) (sideNS_top1 s1 _ _ _ hstk (Or.inl rfl)) hstk rfl
      · simp only [Option.some.injEq, Prod.mk.injEq] at h
        obtain ⟨rfl, rfl⟩ := h
        exact p1
    · simp only [Option.some.injEq, Prod.mk.injEq] at h
      obtain ⟨rfl, rfl⟩ := h
      exact p1

theorem listPF_step (cfg : Cfg) (N k : Nat) (ihP : PatTr cfg N k) (ihL : ListTr cfg N k) :
    ListTr cfg N (k + 1) := by
  intro s ps acc s' a' hps h
  cases ps with
  | nil =>
    simp only [patternF.patternListF, Option.some.injEq, Prod.mk.injEq] at h
    obtain ⟨rfl, rfl⟩ := h
    exact PostP.init N s acc
  | cons p ps =>
    rw [patternListF_cons] at h
    rcases andThen_eq_some _ _ _ h with ⟨_, e⟩ | ⟨s1, a1, h1, h⟩
    · cases e
    have p1 := ihP s p acc s1 a1 (Or.inl (hps p (by simp))) h1
    have p2 := ihL s1 ps a1 s' a' (fun x hx => hps x (List.mem_cons_of_mem _ hx)) h
    have := p1.trans p2
    simpa using this

theorem patPF_all (cfg : Cfg) (N : Nat) : ∀ k, k ≤ N → PatTr cfg N k ∧ ListTr cfg N k := by
  intro k
  induction k with
  | zero =>
    intro _
    constructor
    · intro s p acc s' a' _ h; simp [patternF] at h
    · intro s ps acc s' a' _ h; simp [patternF.patternListF] at h
  | succ k ih =>
    intro hk
    obtain ⟨ihP, ihL⟩ := ih (by omega)
    exact ⟨patPF_step cfg N k hk ihP ihL, listPF_step cfg N k ihP ihL⟩

/-- `Interpreter.pattern` (plain or memoising) on a pattern of the fragment pushes exactly that
pattern; every call it makes satisfies the side conditions -/
theorem patternF_PF (cfg : Cfg) {N k : Nat} (hk : k ≤ N) {s : PySt} {p : NPat} {acc : List Call}
    {s' : PySt} {a' : List Call} (hp : p.PF = true)
    (h : patternF cfg k s p acc = some (some (s', a'))) :
    PostP N s [entry p] acc s' a' := (patPF_all cfg N k hk).1 s p acc s' a' (Or.inl hp) h

theorem patternListF_PF (cfg : Cfg) {N k : Nat} (hk : k ≤ N) {s : PySt} {ps : List NPat}
    {acc : List Call} {s' : PySt} {a' : List Call} (hp : ∀ p ∈ ps, p.PF = true)
    (h : patternF.patternListF cfg k s ps acc = some (some (s', a'))) :
    PostP N s (ps.reverse.map entry) acc s' a' := (patPF_all cfg N k hk).2 s ps acc s' a' hp h

/-! ## proof expressions of the fragment -/

/-- `prop1/2/3`, `mp`, `dynInst` with distinct keys and values in the fragment, `loadAxiom` of a
pattern of the fragment; no `gen`, no `quantifier` -/
def Pf.PF : Pf → Bool
  | .prop1 => true | .prop2 => true | .prop3 => true
  | .mp l r => l.PF && r.PF
  | .dynInst p δ => p.PF && NPat.PFMap δ && decide ((δ.map (·.1)).Nodup)
  | .loadAxiom a => a.PF
  | .gen _ _ => false
  | .quantifier => false

theorem Pf.PF.shaped : (pf : Pf) → pf.PF = true → pf.Shaped
  | .prop1, _ => trivial
  | .prop2, _ => trivial
  | .prop3, _ => trivial
  | .quantifier, _ => trivial
  | .mp l r, h => by
    simp only [Pf.PF, Bool.and_eq_true] at h
    exact ⟨Pf.PF.shaped l h.1, Pf.PF.shaped r h.2⟩
  | .dynInst p δ, h => by
    simp only [Pf.PF, Bool.and_eq_true] at h
    exact ⟨Pf.PF.shaped p h.1.1, PFMap.shape δ h.1.2⟩
  | .loadAxiom a, h => PF.shape a h
  | .gen _ _, h => by simp [Pf.PF] at h

def RunTr (cfg : Cfg) (ax : List NPat) (N k : Nat) : Prop :=
  ∀ s pf acc s' a' c, Pf.PF pf = true → Pf.runF cfg ax k s pf acc = some (some (s', a', c)) →
    PostP N s [(.proved c, false)] acc s' a' ∧ c.Good

/-- the raw part of a run: one proved term is pushed, and it is good -/
theorem rawPF (cfg : Cfg) (ax : List NPat) (N k : Nat) (hk : k ≤ N) (ih : RunTr cfg ax N k)
    (s : PySt) (pf : Pf) (acc : List Call) (s' : PySt) (a' : List Call) (hpf : pf.PF = true)
    (h : rawF cfg ax k s pf acc = some (some (s', a'))) :
    ∃ c, PostP N s [(.proved c, false)] acc s' a' ∧ c.Good := by
  have hP0 := PostP.init N s acc
  have push : ∀ (cl : Call) (t : NPat), t.Good → cl.quiet = true → SideNS s cl →
      (∀ n, track1 n s cl = some (some (s.push (.proved t)))) →
      doCalls k s [cl] acc = some (some (s', a')) →
      ∃ c, PostP N s [(.proved c, false)] acc s' a' ∧ c.Good := by
    intro cl t ht hq hside htr h
    obtain ⟨ht1, rfl⟩ := doCalls_one h
    rw [htr k] at ht1
    simp only [Option.some.injEq] at ht1
    subst ht1
    exact ⟨t, hP0.step _ (htr N) hside rfl hq, ht⟩
  cases pf with
  | prop1 =>
    simp only [rawF] at h
    exact push _ _ good_prop1 rfl (sideNS_prop1 s) (fun n => rfl) h
  | prop2 =>
    simp only [rawF] at h
    exact push _ _ good_prop2 rfl (sideNS_prop2 s) (fun n => rfl) h
  | prop3 =>
    simp only [rawF] at h
    exact push _ _ good_prop3 rfl
      (sideNS_mk s .prop3 trivial (by simp [touchesResidue, Call.arity]) (by simp) (by simp)
        (by simp))
      (fun n => rfl) h
  | quantifier => simp [Pf.PF] at hpf
  | gen _ _ => simp [Pf.PF] at hpf
  | loadAxiom a =>
    simp only [Pf.PF] at hpf
    simp only [rawF] at h
    obtain ⟨ht, rfl⟩ := doCalls_one h
    have e := track1_load_eq ht
    subst e
    exact ⟨a, hP0.step _ (track1_mono hk _ _ _ ht) (sideNS_load s _ (PF.shape a hpf)) rfl rfl,
      PF.good hpf⟩
  | mp l r =>
    simp only [Pf.PF, Bool.and_eq_true] at hpf
    simp only [rawF] at h
    rcases andThen3_eq_some _ _ _ h with ⟨_, e⟩ | ⟨s1, a1, cl, h1, h⟩
    · cases e
    rcases andThen3_eq_some _ _ _ h with ⟨_, e⟩ | ⟨s2, a2, cr, h2, h⟩
    · cases e
    obtain ⟨p1, gl⟩ := ih s l acc s1 a1 cl hpf.1 h1
    obtain ⟨p2, gr⟩ := ih s1 r a1 s2 a2 cr hpf.2 h2
    have p12 := p1.trans p2
    obtain ⟨ht, rfl⟩ := doCalls_one h
    have hstk : s2.stack = (.proved cr, false) :: (.proved cl, false) :: s.stack := by
      simpa using p12.stack
    have htN := track1_mono hk _ _ _ ht
    simp only [track1, hstk, Option.bind_eq_bind, Option.bind_eq_some_iff] at htN
    obtain ⟨oc, hmp, htN'⟩ := htN
    cases oc with
    | none => simp at htN'
    | some c =>
      simp only [Option.pure_def, Option.some.injEq] at htN'
      subst htN'
      refine ⟨c, p12.step _ (track1_mono hk _ _ _ ht)
        (sideNS_top2 s2 _ _ _ _ hstk (Or.inr (Or.inr rfl))) rfl rfl, Good.mp gl gr hmp⟩
  | dynInst p δ =>
    simp only [Pf.PF, Bool.and_eq_true, decide_eq_true_eq] at hpf
    obtain ⟨⟨hp, hδ⟩, hnd⟩ := hpf
    simp only [rawF] at h
    split at h
    · rcases andThen3_eq_some _ _ _ h with ⟨_, e⟩ | ⟨s1, a1, c, h1, h⟩
      · cases e
      simp only [Option.pure_def, Option.some.injEq, Prod.mk.injEq] at h
      obtain ⟨rfl, rfl⟩ := h
      exact ⟨c, ih s p acc s1 a1 c hp h1⟩
    · next hne =>
      rcases andThen_eq_some _ _ _ h with ⟨_, e⟩ | ⟨s1, a1, h1, h⟩
      · cases e
      rcases andThen3_eq_some _ _ _ h with ⟨_, e⟩ | ⟨s2, a2, cp, h2, h⟩
      · cases e
      have hvals : ∀ v ∈ δ.map (·.2), v.PF = true := by
        intro v hv
        obtain ⟨kv, hkv, rfl⟩ := List.mem_map.mp hv
        exact (PFMap_iff δ).mp hδ kv hkv
      have p1 := patternListF_PF cfg hk hvals h1
      obtain ⟨p2, gp⟩ := ih s1 p a1 s2 a2 cp hp h2
      have p12 := p1.trans p2
      obtain ⟨ht, rfl⟩ := doCalls_one h
      have hstk : s2.stack = (.proved cp, false) :: ((δ.map (·.2)).reverse.map entry ++ s.stack) := by
        simpa using p12.stack
      have hlen : (δ.map (·.1)).length = ((δ.map (·.2)).reverse).length := by simp
      have hke : (δ.map (·.1)).isEmpty = false := by
        cases δ with
        | nil => simp at hne
        | cons _ _ => rfl
      have htp := takePlugs_rev (δ.map (·.2)).reverse s.stack
      simp only [List.reverse_reverse, List.length_reverse, List.length_map] at htp
      have htN := track1_mono hk _ _ _ ht
      simp only [track1, hstk, hke, Bool.false_eq_true, if_false, List.length_map, htp,
        zip_keys_vals, Option.bind_eq_bind, Option.bind_eq_some_iff, Option.pure_def,
        Option.some.injEq] at htN
      obtain ⟨c, hinst, htN'⟩ := htN
      subst htN'
      refine ⟨c, p12.step _ (track1_mono hk _ _ _ ht)
        (sideNS_instP s2 _ _ (Or.inl rfl) hnd _ _ _ hstk hlen gp) rfl rfl, ?_⟩
      have hz := zip_keys_vals δ
      rw [← hz] at hinst
      exact Good.instF gp (fun v hv => PF.good (hvals v hv)) hinst

theorem runPF_step (cfg : Cfg) (ax : List NPat) (N k : Nat) (hk : k + 1 ≤ N)
    (ih : RunTr cfg ax N k) : RunTr cfg ax N (k + 1) := by
  intro s pf acc s' a' c hpf h
  rw [runF_succ] at h
  rcases andThen_eq_some _ _ _ h with ⟨_, e⟩ | ⟨s1, a1, hraw, h⟩
  · cases e
  obtain ⟨c1, p1, g1⟩ := rawPF cfg ax N k (by omega) ih s pf acc s1 a1 hpf hraw
  have hstk : s1.stack = (.proved c1, false) :: s.stack := by simpa using p1.stack
  simp only [checkF, hstk, Option.bind_eq_some_iff] at h
  obtain ⟨o, _, h⟩ := h
  cases o with
  | none => simp at h
  | some adv =>
    simp only [Option.bind_eq_some_iff] at h
    obtain ⟨e, _, h⟩ := h
    cases e with
    | false => simp at h
    | true =>
      simp only [if_true, Option.pure_def, Option.some.injEq, Prod.mk.injEq] at h
      obtain ⟨rfl, rfl, rfl⟩ := h
      exact ⟨p1, g1⟩

theorem runPF_all (cfg : Cfg) (ax : List NPat) (N : Nat) : ∀ k, k ≤ N → RunTr cfg ax N k := by
  intro k
  induction k with
  | zero => intro _ s pf acc s' a' c _ h; simp [Pf.runF] at h
  | succ k ih => intro hk; exact runPF_step cfg ax N k hk (ih (by omega))

/-- a proof expression of the fragment pushes one proved term; every call of its run satisfies the
side conditions -/
theorem runF_PF (cfg : Cfg) (ax : List NPat) {N k : Nat} (hk : k ≤ N) {s : PySt} {pf : Pf}
    {acc : List Call} {s' : PySt} {a' : List Call} {c : NPat} (hpf : pf.PF = true)
    (h : Pf.runF cfg ax k s pf acc = some (some (s', a', c))) :
    PostP N s [(.proved c, false)] acc s' a' ∧ c.Good := runPF_all cfg ax N k hk s pf acc s' a' c hpf h

/-! ## the loops of `execute_full` -/

theorem pubPF (cfg : Cfg) (n : Nat) (c : Call) (hc : c = .publishAxiom ∨ c = .publishClaim) :
    ∀ (as : List NPat) (s : PySt) (acc : List Call) (s' : PySt) (a' : List Call),
    (∀ a ∈ as, a.PF = true) →
    PModule.executeFull.pub cfg n s acc c as = some (some (s', a')) →
    ∃ cs, a' = acc ++ cs ∧ Tr n s cs s' := by
  intro as
  induction as with
  | nil =>
    intro s acc s' a' _ h
    simp only [PModule.executeFull.pub, Option.some.injEq, Prod.mk.injEq] at h
    obtain ⟨rfl, rfl⟩ := h
    exact ⟨[], by simp, Tr.nil n _⟩
  | cons a r ih =>
    intro s acc s' a' has h
    simp only [PModule.executeFull.pub, Option.bind_eq_bind, Option.bind_eq_some_iff] at h
    obtain ⟨o1, hp, h⟩ := h
    rcases o1 with _ | ⟨s1, a1⟩
    · simp at h
    simp only [Option.bind_eq_some_iff] at h
    obtain ⟨o2, hd, h⟩ := h
    rcases o2 with _ | ⟨s2, a2⟩
    · simp at h
    simp only [] at h
    obtain ⟨cs1, hcs1, htr1, hstk, _⟩ := patternF_PF cfg (Nat.le_refl n) (has a (by simp)) hp
    simp only [List.singleton_append, entry] at hstk
    obtain ⟨ht, rfl⟩ := doCalls_one hd
    obtain ⟨cs2, rfl, htr2⟩ := ih s2 _ s' a' (fun x hx => has x (List.mem_cons_of_mem _ hx)) h
    have hside : SideNS s1 c := sideNS_top1 s1 c _ _ hstk (by rcases hc with rfl | rfl <;> simp)
    exact ⟨cs1 ++ c :: cs2, by rw [hcs1]; simp, htr1.append (Tr.cons ht (Or.inr hside) htr2)⟩

theorem proofsPF (cfg : Cfg) (m : PModule) (n : Nat) :
    ∀ (pfs : List Pf) (s : PySt) (acc : List Call) (s' : PySt) (a' : List Call),
    (∀ pf ∈ pfs, pf.PF = true) →
    PModule.executeFull.proofs cfg m n s acc pfs = some (some (s', a')) →
    ∃ cs, a' = acc ++ cs ∧ Tr n s cs s' := by
  intro pfs
  induction pfs with
  | nil =>
    intro s acc s' a' _ h
    simp only [PModule.executeFull.proofs, Option.some.injEq, Prod.mk.injEq] at h
    obtain ⟨rfl, rfl⟩ := h
    exact ⟨[], by simp, Tr.nil n _⟩
  | cons pf r ih =>
    intro s acc s' a' hpfs h
    simp only [PModule.executeFull.proofs, Option.bind_eq_bind, Option.bind_eq_some_iff] at h
    obtain ⟨o1, hp, h⟩ := h
    rcases o1 with _ | ⟨s1, a1, cc⟩
    · simp at h
    simp only [Option.bind_eq_some_iff] at h
    obtain ⟨o2, hd, h⟩ := h
    rcases o2 with _ | ⟨s2, a2⟩
    · simp at h
    simp only [] at h
    obtain ⟨⟨cs1, hcs1, htr1, hstk, _⟩, _⟩ :=
      runF_PF cfg m.axiomsOf (Nat.le_refl n) (hpfs pf (by simp)) hp
    simp only [List.singleton_append] at hstk
    obtain ⟨ht, rfl⟩ := doCalls_one hd
    obtain ⟨cs2, rfl, htr2⟩ := ih s2 _ s' a' (fun x hx => hpfs x (List.mem_cons_of_mem _ hx)) h
    have hside : SideNS s1 .publishProof :=
      sideNS_top1 s1 _ _ _ hstk (Or.inr (Or.inr (Or.inl rfl)))
    exact ⟨cs1 ++ .publishProof :: cs2, by rw [hcs1]; simp,
      htr1.append (Tr.cons ht (Or.inr hside) htr2)⟩

/-- the whole history of `execute_full` on a module of the fragment is a trace with fuel `n`: every
call satisfies the side conditions (all but the symbol naming) -/
theorem module_trace_PF (cfg : Cfg) (n : Nat) (m : PModule) (s : PySt) (calls : List Call)
    (hgam : ∀ a ∈ m.gammaAxioms, a.PF = true) (hclm : ∀ a ∈ m.claimsOf, a.PF = true)
    (hpfs : ∀ pf ∈ m.proofsOf, pf.PF = true)
    (hex : PModule.executeFull cfg n m = some (some (s, calls))) :
    Tr n (PySt.init m.claimsOf) calls s := by
  simp only [PModule.executeFull, Option.bind_eq_bind, Option.bind_eq_some_iff] at hex
  obtain ⟨o1, hpub1, hex⟩ := hex
  rcases o1 with _ | ⟨e1, a1⟩
  · simp at hex
  simp only [Option.bind_eq_some_iff] at hex
  obtain ⟨o2, hd1, hex⟩ := hex
  rcases o2 with _ | ⟨e2, a2⟩
  · simp at hex
  simp only [Option.bind_eq_some_iff] at hex
  obtain ⟨o3, hpub2, hex⟩ := hex
  rcases o3 with _ | ⟨e3, a3⟩
  · simp at hex
  simp only [Option.bind_eq_some_iff] at hex
  obtain ⟨o4, hd2, hex⟩ := hex
  rcases o4 with _ | ⟨e4, a4⟩
  · simp at hex
  simp only [] at hex
  obtain ⟨G, hG, trG⟩ := pubPF cfg n .publishAxiom (Or.inl rfl) m.gammaAxioms _ [] e1 a1 hgam hpub1
  simp only [List.nil_append] at hG
  subst hG
  obtain ⟨ht1, rfl⟩ := doCalls_one hd1
  obtain ⟨C, hC, trC⟩ := pubPF cfg n .publishClaim (Or.inr rfl) m.claimsOf.reverse e2 _ e3 a3
    (fun a ha => hclm a (List.mem_reverse.mp ha)) hpub2
  subst hC
  obtain ⟨ht3, rfl⟩ := doCalls_one hd2
  obtain ⟨P, hP, trP⟩ := proofsPF cfg m n m.proofsOf e4 _ s calls hpfs hex
  have hcalls : calls = a1 ++ .intoClaim :: (C ++ .intoProof :: P) := by
    rw [hP]; simp [List.append_assoc]
  rw [hcalls]
  exact trG.append (Tr.cons ht1 (Or.inl (Or.inl rfl))
    (trC.append (Tr.cons ht3 (Or.inl (Or.inr rfl)) trP)))

/-- the side conditions `AllSideM` of a module of the fragment are derived -/
theorem module_side_PF (cfg : Cfg) (n : Nat) (m : PModule) (s : PySt) (calls : List Call)
    (hgam : ∀ a ∈ m.gammaAxioms, a.PF = true) (hclm : ∀ a ∈ m.claimsOf, a.PF = true)
    (hpfs : ∀ pf ∈ m.proofsOf, pf.PF = true)
    (hex : PModule.executeFull cfg n m = some (some (s, calls)))
    (hcanon : MM.CanonCalls [] calls) :
    AllSideM n (PySt.init m.claimsOf) calls :=
  allSideM_of_NS n calls _ (module_trace_PF cfg n m s calls hgam hclm hpfs hex).2 hcanon

theorem axiomsOf_sub_gamma (m : PModule) : ∀ a ∈ m.axiomsOf, a ∈ m.gammaAxioms := by
  intro a ha
  cases m with
  | mk ax cl pf sub =>
    simp only [PModule.axiomsOf] at ha
    simp only [PModule.gammaAxioms]
    exact List.mem_append_right _ ha

/-- **acceptance without side conditions**: the checker accepts the serialisation of a proof module
of the propositional fragment, and publishes exactly the declaration -/
theorem module_accepted_PF (cfg : PySt.Cfg) (n : Nat) (m : PModule) (s : PySt) (calls : List Call)
    (g c p : List Instr)
    (hgam : ∀ a ∈ m.gammaAxioms, a.PF = true) (hclm : ∀ a ∈ m.claimsOf, a.PF = true)
    (hpfs : ∀ pf ∈ m.proofsOf, pf.PF = true)
    (hex : PModule.executeFull cfg n m = some (some (s, calls)))
    (hT : PySt.trackAll n (PySt.init m.claimsOf) calls ([], [], []) = some (some (s, (g, c, p))))
    (hcanon : MM.CanonCalls [] calls) (hfin : s.claims = []) :
    verify g c p = some (m.gammaAxioms.map NPat.expand, m.claimsOf.reverse.map NPat.expand) :=
  module_accepted cfg n m s calls g c p
    (fun a ha => PF.shape a (hgam a ha)) (fun a ha => PF.shape a (hclm a ha))
    (fun a ha => PF.shape a (hgam a (axiomsOf_sub_gamma m a ha)))
    (fun pf hpf => Pf.PF.shaped pf (hpfs pf hpf)) hex hT
    (module_side_PF cfg n m s calls hgam hclm hpfs hex hcanon) hfin

/-- the replay `hT` is derivable from the run of `execute_full` -/
theorem module_trackAll_PF (cfg : PySt.Cfg) (n : Nat) (m : PModule) (s : PySt) (calls : List Call)
    (hgam : ∀ a ∈ m.gammaAxioms, a.PF = true) (hclm : ∀ a ∈ m.claimsOf, a.PF = true)
    (hpfs : ∀ pf ∈ m.proofsOf, pf.PF = true)
    (hex : PModule.executeFull cfg n m = some (some (s, calls))) :
    ∃ g c p, PySt.trackAll n (PySt.init m.claimsOf) calls ([], [], []) = some (some (s, (g, c, p))) := by
  obtain ⟨⟨g, c, p⟩, h⟩ := reach_trackAll calls _ s ([], [], [])
    (module_trace_PF cfg n m s calls hgam hclm hpfs hex).1
  exact ⟨g, c, p, h⟩

/-- the variant without `hT`: the serialiser writes three streams and the checker accepts them -/
theorem module_accepted_PF' (cfg : PySt.Cfg) (n : Nat) (m : PModule) (s : PySt) (calls : List Call)
    (hgam : ∀ a ∈ m.gammaAxioms, a.PF = true) (hclm : ∀ a ∈ m.claimsOf, a.PF = true)
    (hpfs : ∀ pf ∈ m.proofsOf, pf.PF = true)
    (hex : PModule.executeFull cfg n m = some (some (s, calls)))
    (hcanon : MM.CanonCalls [] calls) (hfin : s.claims = []) :
    ∃ g c p, PySt.trackAll n (PySt.init m.claimsOf) calls ([], [], []) = some (some (s, (g, c, p))) ∧
      verify g c p = some (m.gammaAxioms.map NPat.expand, m.claimsOf.reverse.map NPat.expand) := by
  obtain ⟨g, c, p, hT⟩ := module_trackAll_PF cfg n m s calls hgam hclm hpfs hex
  exact ⟨g, c, p, hT, module_accepted_PF cfg n m s calls g c p hgam hclm hpfs hex hT hcanon hfin⟩

/-- **soundness composition** (with C01): every claim of a module of the propositional fragment whose
`execute_full` run succeeds (every claim proved, symbols named canonically) is valid in every model of
its axioms — no side condition assumed -/
theorem module_sound_PF (cfg : PySt.Cfg) (n : Nat) (m : PModule) (s : PySt) (calls : List Call)
    (hgam : ∀ a ∈ m.gammaAxioms, a.PF = true) (hclm : ∀ a ∈ m.claimsOf, a.PF = true)
    (hpfs : ∀ pf ∈ m.proofsOf, pf.PF = true)
    (hex : PModule.executeFull cfg n m = some (some (s, calls)))
    (hcanon : MM.CanonCalls [] calls) (hfin : s.claims = [])
    (𝔐 : Model) (hΓ : ∀ a ∈ m.gammaAxioms, ValidM 𝔐 a.expand) :
    ∀ q ∈ m.claimsOf, ValidM 𝔐 q.expand := by
  obtain ⟨g, c, p, _, hv⟩ := module_accepted_PF' cfg n m s calls hgam hclm hpfs hex hcanon hfin
  intro q hq
  apply C01.verify_sound g c p _ _ hv 𝔐
  · intro a ha
    simp only [List.mem_map] at ha
    obtain ⟨a0, h0, rfl⟩ := ha
    exact hΓ a0 h0
  · simp only [List.mem_map, List.mem_reverse]
    exact ⟨q, hq, rfl⟩

/-! ## non-vacuity: a concrete module of the fragment satisfies every hypothesis -/

namespace PFExample

/-- decidable form of `MM.CanonCalls` -/
def canonB : List Nat → List Call → Bool
  | _, [] => true
  | tab, .symbol nm :: cs =>
      decide (nm ≤ tab.length) && canonB (if tab.contains nm then tab else tab ++ [nm]) cs
  | tab, _ :: cs => canonB tab cs

theorem canonB_sound : ∀ (cs : List Call) (tab : List Nat), canonB tab cs = true →
    MM.CanonCalls tab cs := by
  intro cs
  induction cs with
  | nil => intro tab _; trivial
  | cons c cs ih =>
    intro tab h
    cases c with
    | symbol nm =>
      simp only [canonB, Bool.and_eq_true, decide_eq_true_eq] at h
      exact ⟨h.1, ih _ h.2⟩
    | _ => exact ih tab h

/-- a run of `execute_full` that passes the decidable checks satisfies the run hypotheses -/
theorem run_ok (o : Option (Option (PySt × List Call)))
    (h : (match o with
      | some (some (s, calls)) => s.claims.isEmpty && canonB [] calls
      | _ => false) = true) :
    ∃ s calls, o = some (some (s, calls)) ∧ MM.CanonCalls [] calls ∧ s.claims = [] := by
  rcases o with _ | _ | ⟨s, calls⟩
  · simp at h
  · simp at h
  · simp only [Bool.and_eq_true, List.isEmpty_iff] at h
    exact ⟨s, calls, rfl, canonB_sound calls [] h.2, h.1⟩

/-- `imp_refl` of `propositional.py` at `phi0` -/
def impRefl : Pf :=
  .mp (.mp (.dynInst .prop2 [(1, .imp (phiN 0) (phiN 0)), (2, phiN 0)])
           (.dynInst .prop1 [(1, .imp (phiN 0) (phiN 0))]))
      (.dynInst .prop1 [(1, phiN 0)])

/-- an axiom with two symbols and `bot` (a notation node over `mu 0 (svar 0)`) -/
def ax : NPat := .imp (.sym 0) (.imp (.sym 1) botN)

/-- axioms `[s0 → s1 → ⊥]`, claims `[phi0 → phi0, s0 → s1 → ⊥]`, proved by `imp_refl` and by loading
the axiom -/
def mod : PModule := .mk [ax] [.imp (phiN 0) (phiN 0), ax] [impRefl, .loadAxiom ax] []

theorem mod_gamma : ∀ a ∈ mod.gammaAxioms, a.PF = true := by decide
theorem mod_claims : ∀ a ∈ mod.claimsOf, a.PF = true := by decide
theorem mod_proofs : ∀ pf ∈ mod.proofsOf, pf.PF = true := by decide

/-- all hypotheses of `module_accepted_PF'` hold for `mod` (plain serialiser) … -/
theorem mod_run : ∃ s calls, PModule.executeFull {} 40 mod = some (some (s, calls)) ∧
    MM.CanonCalls [] calls ∧ s.claims = [] := run_ok _ (by decide)

/-- … and through the memoising optimiser (empty suggestion set: `NPat.seq` is defined by well-founded
recursion, so `decide` cannot evaluate a run that consults a non-empty suggestion set) -/
theorem mod_run_memo : ∃ s calls,
    PModule.executeFull { memo := some [] } 40 mod = some (some (s, calls)) ∧
    MM.CanonCalls [] calls ∧ s.claims = [] := run_ok _ (by decide)

/-- hence the checker accepts its serialisation and publishes the declaration -/
example : ∃ g c p, verify g c p =
    some (mod.gammaAxioms.map NPat.expand, mod.claimsOf.reverse.map NPat.expand) := by
  obtain ⟨s, calls, hex, hcanon, hfin⟩ := mod_run
  obtain ⟨g, c, p, _, hv⟩ :=
    module_accepted_PF' {} 40 mod s calls mod_gamma mod_claims mod_proofs hex hcanon hfin
  exact ⟨g, c, p, hv⟩

example : ∃ g c p, verify g c p =
    some (mod.gammaAxioms.map NPat.expand, mod.claimsOf.reverse.map NPat.expand) := by
  obtain ⟨s, calls, hex, hcanon, hfin⟩ := mod_run_memo
  obtain ⟨g, c, p, _, hv⟩ :=
    module_accepted_PF' _ 40 mod s calls mod_gamma mod_claims mod_proofs hex hcanon hfin
  exact ⟨g, c, p, hv⟩

/-- and its claims hold in every model of its axiom -/
example (𝔐 : Model) (hΓ : ValidM 𝔐 ax.expand) : ValidM 𝔐 (NPat.imp (phiN 0) (phiN 0)).expand := by
  obtain ⟨s, calls, hex, hcanon, hfin⟩ := mod_run
  exact module_sound_PF {} 40 mod s calls mod_gamma mod_claims mod_proofs hex hcanon hfin 𝔐
    (by intro a ha; simp [mod, PModule.gammaAxioms, PModule.gammaAxioms.gammaList] at ha; subst ha; exact hΓ)
    _ (by simp [mod, PModule.claimsOf])

end PFExample

#print axioms module_trace_PF
#print axioms module_side_PF
#print axioms module_accepted_PF
#print axioms module_accepted_PF'
#print axioms module_sound_PF
#print axioms PFExample.mod_run
#print axioms PFExample.mod_run_memo
