import Pi2.ProofTie
import Pi2.ModuleThm
import Pi2.CountDet
/-!
# The slot budget of an optimised serialisation (C03 / C08)

The binary format addresses a memory slot with ONE byte.  `ProofExp.serialize(optimize=True)` first runs the counting pass,
whose `finalize()` subtracts the number of entries already in the analyser's memory (the published axioms) from
`_max_allowed_slots = 256` and suggests at most that many patterns; then the memoising pass saves each suggested pattern
at most once and every published axiom takes one further slot.

* Part 1 (`finalize_length`): what the translated `finalize` (`Pi2/Gen/PyCount.lean`) returns has at most
  `|suggested before| + (_max_allowed_slots − len(memory))` elements.
* Part 2 (`executeFull_memory`): in a memoising run of a module (`PModule.executeFull { memo := some S }`) the final
  memory consists of the published axioms (one entry per element of `gammaAxioms`) and of pairwise different elements of
  `S`; every `load` the run makes resolves to an index below the final length of the memory.
-/
set_option linter.unusedVariables false
set_option linter.unusedSimpArgs false
set_option linter.unusedSectionVars false

namespace SlotBudget

/-! ## Part 1: the counting pass -/
section counting
open CountSup Gen.PyCount CountDet
variable {K : Type} [DecidableEq K] [PyPattern K]

theorem length_setAdd_le (s : PySet K) (x : K) : (setAdd s x).length ≤ s.length + 1 := by
  unfold setAdd; split <;> simp

/-- one round of the `while` loop: one more suggestion at most, `counter` one less, `memory` untouched -/
theorem body_budget (o : Orders K) (mem : List K) (self : Self K) (counter : Int) (todo : List K) (tick : Nat)
    {st' : Self K × Int × List K × Nat} (h : finalize_while1_body o mem (self, counter, todo, tick) = some st') :
    st'.1._suggested_for_memoization.length ≤ self._suggested_for_memoization.length + 1 ∧
    (self._suggested_for_memoization.Nodup → st'.1._suggested_for_memoization.Nodup) ∧
    st'.2.1 = counter - 1 := by
  rw [body_eq] at h
  obtain ⟨pt, _, h⟩ := bind_eq_some' h
  obtain ⟨_, _, h⟩ := bind_eq_some' h
  obtain ⟨_, _, h⟩ := bind_eq_some' h
  obtain ⟨_, _, h⟩ := bind_eq_some' h
  obtain ⟨_, _, h⟩ := bind_eq_some' h
  obtain ⟨_, _, h⟩ := bind_eq_some' h
  obtain ⟨_, _, h⟩ := bind_eq_some' h
  obtain ⟨_, _, h⟩ := bind_eq_some' h
  obtain ⟨_, _, h⟩ := bind_eq_some' h
  simp only [Option.some.injEq] at h
  subst h
  refine ⟨?_, ?_, rfl⟩
  · exact length_setAdd_le _ _
  · intro hn; exact nodup_setAdd hn

/-- the `while` loop adds at most `counter` suggestions -/
theorem while_budget (o : Orders K) (mem : List K) (fuel : Nat) :
    ∀ (self : Self K) (counter : Int) (todo : List K) (tick : Nat) (st' : Self K × Int × List K × Nat),
      finalize_while1 o mem fuel (self, counter, todo, tick) = some st' →
      st'.1._suggested_for_memoization.length ≤ self._suggested_for_memoization.length + counter.toNat ∧
      (self._suggested_for_memoization.Nodup → st'.1._suggested_for_memoization.Nodup) := by
  induction fuel with
  | zero =>
    intro self counter todo tick st' h
    rw [finalize_while1] at h
    split at h
    · cases h
    · simp only [Option.pure_def, Option.some.injEq] at h; subst h
      exact ⟨Nat.le_add_right _ _, id⟩
  | succ n ih =>
    intro self counter todo tick st' h
    rw [finalize_while1] at h
    split at h
    · rename_i hcond
      obtain ⟨st1, hb, h⟩ := bind_eq_some' h
      obtain ⟨self1, counter1, todo1, tick1⟩ := st1
      obtain ⟨hlen, hnd, hc⟩ := body_budget o mem self counter todo tick hb
      obtain ⟨hlen2, hnd2⟩ := ih self1 counter1 todo1 tick1 st' h
      simp only at hlen hnd hc
      refine ⟨?_, fun h0 => hnd2 (hnd h0)⟩
      simp only [Bool.and_eq_true, decide_eq_true_eq] at hcond
      have : counter1.toNat + 1 = counter.toNat := by subst hc; omega
      omega
    · simp only [Option.pure_def, Option.some.injEq] at h; subst h
      exact ⟨Nat.le_add_right _ _, id⟩

/-- `finalize`: the suggestions it returns are the old ones plus at most `_max_allowed_slots − len(memory)` new ones;
it succeeds only on a state that is not finalised yet -/
theorem finalize_length (o : Orders K) (t : Nat) (σ : Self K) {R : PySet K} {σ' : Self K} {t' : Nat}
    (h : finalize o t σ = some (R, σ', t')) :
    σ._finalized = false ∧
    R.length ≤ σ._suggested_for_memoization.length + (σ._max_allowed_slots - (σ.memory.length : Int)).toNat ∧
    (σ._suggested_for_memoization.Nodup → R.Nodup) := by
  unfold finalize at h
  simp only [Option.bind_eq_bind] at h
  obtain ⟨_, hfin, h⟩ := bind_eq_some' h
  obtain ⟨memoized, _, h⟩ := bind_eq_some' h
  obtain ⟨self1, hfor, h⟩ := bind_eq_some' h
  obtain ⟨todo, _, h⟩ := bind_eq_some' h
  obtain ⟨st, hw, h⟩ := bind_eq_some' h
  obtain ⟨self2, counter2, todo2, tick2⟩ := st
  simp only [suggested_for_memoization, finalized, Option.pure_def, Option.bind_eq_bind, Option.bind_some,
    pyAssert, if_true, Option.some.injEq, Prod.mk.injEq] at h
  obtain ⟨rfl, rfl, rfl⟩ := h
  have hfin' : σ._finalized = false := by
    unfold pyAssert at hfin
    split at hfin
    · rename_i hb; simpa using hb
    · cases hfin
  have hs1 : self1._suggested_for_memoization = σ._suggested_for_memoization := by
    refine foldlM_inv (fun (s : Self K) => s._suggested_for_memoization = σ._suggested_for_memoization)
      finalize_for1 ?_ _ _ _ ?_ hfor
    rotate_left
    · rfl
    intro s a s' hI hst
    rw [for1_eq] at hst
    cases hu : scoreU s._pattern_usage a with
    | none => rw [hu] at hst; cases hst
    | some U => rw [hu] at hst; simp only [Option.map_some, Option.some.injEq] at hst; subst hst; exact hI
  obtain ⟨hlen, hnd⟩ := while_budget o memoized _ _ _ _ _ _ hw
  simp only at hlen hnd
  rw [hs1] at hlen hnd
  exact ⟨hfin', hlen, hnd⟩

end counting

/-! ## Part 2: the memoising pass -/
section memo
open PySt
open ProofTie (pub_nil pub_cons proofs_nil proofs_cons executeFull_eq)

/-- the patterns saved in a memory (the `Pattern` entries), in slot order -/
def patsOf : List TTerm → List NPat
  | [] => []
  | .pat p :: r => p :: patsOf r
  | .proved _ :: r => patsOf r

/-- the published axioms of a memory (the `Proved` entries), in slot order -/
def provedOf : List TTerm → List NPat
  | [] => []
  | .pat _ :: r => provedOf r
  | .proved a :: r => a :: provedOf r

theorem patsOf_append (a b : List TTerm) : patsOf (a ++ b) = patsOf a ++ patsOf b := by
  induction a with
  | nil => rfl
  | cons t r ih => cases t <;> simp [patsOf, ih]

theorem provedOf_append (a b : List TTerm) : provedOf (a ++ b) = provedOf a ++ provedOf b := by
  induction a with
  | nil => rfl
  | cons t r ih => cases t <;> simp [provedOf, ih]

theorem patsOf_map_pat (e : List NPat) : patsOf (e.map TTerm.pat) = e := by
  induction e with
  | nil => rfl
  | cons t r ih => simp [patsOf, ih]

theorem provedOf_map_pat (e : List NPat) : provedOf (e.map TTerm.pat) = [] := by
  induction e with
  | nil => rfl
  | cons t r ih => simp [provedOf, ih]

theorem length_split (mem : List TTerm) : mem.length = (patsOf mem).length + (provedOf mem).length := by
  induction mem with
  | nil => rfl
  | cons t r ih => cases t <;> simp [patsOf, provedOf, ih] <;> omega

theorem mem_patsOf {p : NPat} {mem : List TTerm} : p ∈ patsOf mem ↔ TTerm.pat p ∈ mem := by
  induction mem with
  | nil => simp [patsOf]
  | cons t r ih => cases t <;> simp [patsOf, ih]

/-- what is assumed of the suggestion list: its elements are shaped (the standing assumption of C12/C08: the API typing of
`MetaVar`/`ESubst`/`SSubst`), and the structural comparison `NPat.seq` (hash + field equality of the frozen dataclasses,
the `in` test of the suggestion SET) matches an element with itself only.  `seq` compares the maps of notation nodes as
finite maps, so this fails only for two `Instantiate` objects whose `frozendict`s list the same bindings in different
orders; `canonical_of_noInst` discharges it for suggestions without notation nodes. -/
structure Canonical (S : List NPat) : Prop where
  shape : ∀ c ∈ S, c.Shape = true
  canon : ∀ c ∈ S, ∀ a, NPat.seq a c = true → a = c

/-- the saved patterns are pairwise different elements of the suggestion list -/
def MemInv (S : List NPat) (mem : List TTerm) : Prop :=
  (patsOf mem).Nodup ∧ ∀ p ∈ patsOf mem, p ∈ S

/-- `s'` is `s` with `Pattern`s of size below `B` appended to the memory, preserving `MemInv` -/
def ExtB (S : List NPat) (B : Nat) (s s' : PySt) : Prop :=
  ∃ e : List NPat, s'.memory = s.memory ++ e.map TTerm.pat ∧ (∀ q ∈ e, sizeOf q < B) ∧
    (MemInv S s.memory → MemInv S s'.memory)

theorem ExtB.same {S : List NPat} {B : Nat} {s s' : PySt} (h : s'.memory = s.memory) : ExtB S B s s' :=
  ⟨[], by simp [h], by simp, by rw [h]; exact id⟩

theorem ExtB.mono {S : List NPat} {B B' : Nat} {s s' : PySt} (h : ExtB S B s s') (hb : B ≤ B') : ExtB S B' s s' := by
  obtain ⟨e, he, hq, hi⟩ := h
  exact ⟨e, he, fun q hq' => Nat.lt_of_lt_of_le (hq q hq') hb, hi⟩

theorem ExtB.trans {S : List NPat} {B : Nat} {s s1 s2 : PySt} (h1 : ExtB S B s s1) (h2 : ExtB S B s1 s2) :
    ExtB S B s s2 := by
  obtain ⟨e1, he1, hq1, hi1⟩ := h1
  obtain ⟨e2, he2, hq2, hi2⟩ := h2
  refine ⟨e1 ++ e2, by rw [he2, he1]; simp, ?_, fun h => hi2 (hi1 h)⟩
  intro q hq
  rcases List.mem_append.mp hq with h | h
  · exact hq1 q h
  · exact hq2 q h

theorem doCalls_one' {n : Nat} {s s' : PySt} {c : Call} {acc a' : List Call}
    (h : doCalls n s [c] acc = some (some (s', a'))) : track1 n s c = some (some s') := by
  obtain ⟨x, hx, hr⟩ := (doCalls_single n s c acc _).mp h
  cases x with
  | none => simp at hr
  | some s1 => simp at hr; rw [hx, hr.1]

/-- only `save` and `publish_axiom` write to the memory -/
theorem track1_memory (n : Nat) (s s' : PySt) (c : Call) (h : track1 n s c = some (some s'))
    (h1 : c ≠ .save) (h2 : c ≠ .publishAxiom) : s'.memory = s.memory := by
  cases c with
  | save => exact absurd rfl h1
  | publishAxiom => exact absurd rfl h2
  | mp =>
    simp only [track1] at h
    split at h
    · simp only [Option.bind_eq_bind, Option.bind_eq_some_iff] at h
      obtain ⟨o, _, h⟩ := h
      cases o <;> simp at h
      subst h; rfl
    · simp at h
  | gen x =>
    simp only [track1] at h
    split at h
    · simp only [Option.bind_eq_bind, Option.bind_eq_some_iff] at h
      obtain ⟨o, _, h⟩ := h
      cases o <;> simp at h
      subst h; rfl
    · simp at h
  | instantiate keys =>
    simp only [track1] at h
    split at h
    · split at h
      · simp at h; subst h; rfl
      · split at h
        · simp at h
        · simp only [Option.bind_eq_bind, Option.bind_eq_some_iff] at h
          obtain ⟨o, _, h⟩ := h
          simp at h; subst h; rfl
    · simp at h
  | load t =>
    simp only [track1, Option.bind_eq_bind, Option.bind_eq_some_iff] at h
    obtain ⟨o, _, h⟩ := h
    cases o <;> simp at h
    subst h; rfl
  | publishProof =>
    simp only [track1] at h
    split at h
    · simp only [Option.bind_eq_bind, Option.bind_eq_some_iff] at h
      obtain ⟨o, _, h⟩ := h
      cases o <;> simp at h
      subst h; rfl
    · simp at h
  | _ =>
    simp only [track1, PySt.push] at h
    first
      | (simp only [Option.some.injEq] at h; subst h; rfl)
      | (split at h <;> first
          | (simp only [Option.some.injEq] at h; subst h; rfl)
          | (simp at h; done)
          | (split at h <;> first
              | (simp only [Option.some.injEq] at h; subst h; rfl)
              | (simp at h; done)))

/-! ### `Interpreter.pattern` through `MemoizingInterpreter` -/

/-- the memoising configuration with suggestion list `S` -/
abbrev mcfg (S : List NPat) : Cfg := { memo := some S }

theorem andThen_some {α β γ} {x : Option (Option (α × β))} {f : α → β → Option (Option γ)} {r : γ}
    (h : andThen x f = some (some r)) : ∃ a b, x = some (some (a, b)) ∧ f a b = some (some r) := by
  rcases andThen_eq_some x f _ h with ⟨_, hc⟩ | h
  · cases hc
  · exact h

theorem andThen3_some {α β γ δ} {x : Option (Option (α × β × γ))} {f : α → β → γ → Option (Option δ)} {r : δ}
    (h : andThen3 x f = some (some r)) : ∃ a b c, x = some (some (a, b, c)) ∧ f a b c = some (some r) := by
  rcases andThen3_eq_some x f _ h with ⟨_, hc⟩ | h
  · cases hc
  · exact h

theorem inMemoryF_false (n : Nat) (p : NPat) : ∀ (mem : List TTerm), inMemoryF n p mem = some false →
    ∀ m ∈ mem, teqF n m (.pat p) = some false := by
  intro mem
  induction mem with
  | nil => intro _ m hm; cases hm
  | cons u r ih =>
    intro h m hm
    simp only [inMemoryF, Option.bind_eq_bind, Option.bind_eq_some_iff] at h
    obtain ⟨b, hb, h⟩ := h
    cases b with
    | true => simp at h
    | false =>
      simp only [Bool.false_eq_true, if_false] at h
      rcases List.mem_cons.mp hm with rfl | hm
      · exact hb
      · exact ih h m hm

theorem sizeOf_map_snd (m : List (Nat × NPat)) : sizeOf (m.map (·.2)) ≤ sizeOf m := by
  induction m with
  | nil => simp
  | cons kv r ih => obtain ⟨k, v⟩ := kv; simp; omega

def PatG (S : List NPat) (n : Nat) : Prop :=
  ∀ s p acc s' a', patternF (mcfg S) n s p acc = some (some (s', a')) →
    s'.stack = entry p :: s.stack ∧ ExtB S (sizeOf p + 1) s s'

def ListG (S : List NPat) (n : Nat) : Prop :=
  ∀ s ps acc s' a', patternF.patternListF (mcfg S) n s ps acc = some (some (s', a')) →
    s'.stack = ps.reverse.map entry ++ s.stack ∧ ExtB S (sizeOf ps) s s'

theorem build_grow (S : List NPat) (n : Nat) (ihP : PatG S n) (ihL : ListG S n) (s : PySt) (p : NPat)
    (acc : List Call) (s' : PySt) (a' : List Call)
    (h : buildF (mcfg S) n s p acc = some (some (s', a'))) :
    s'.stack = entry p :: s.stack ∧ ExtB S (sizeOf p) s s' := by
  cases p with
  | evar x =>
    have ht := doCalls_one' h
    simp only [track1, PySt.push, Option.some.injEq] at ht; subst ht
    exact ⟨rfl, ExtB.same rfl⟩
  | svar x =>
    have ht := doCalls_one' h
    simp only [track1, PySt.push, Option.some.injEq] at ht; subst ht
    exact ⟨rfl, ExtB.same rfl⟩
  | sym x =>
    have ht := doCalls_one' h
    simp only [track1, PySt.push, Option.some.injEq] at ht; subst ht
    exact ⟨rfl, ExtB.same rfl⟩
  | mv id ef sf ps ns hs =>
    have ht := doCalls_one' h
    simp only [track1, PySt.push, Option.some.injEq] at ht; subst ht
    exact ⟨rfl, ExtB.same rfl⟩
  | imp l r =>
    unfold buildF at h
    obtain ⟨s1, a1, h1, h⟩ := andThen_some h
    obtain ⟨s2, a2, h2, h⟩ := andThen_some h
    obtain ⟨hst1, he1⟩ := ihP _ _ _ _ _ h1
    obtain ⟨hst2, he2⟩ := ihP _ _ _ _ _ h2
    have ht := doCalls_one' h
    rw [hst1] at hst2
    simp only [track1, hst2, entry, Option.some.injEq] at ht; subst ht
    refine ⟨rfl, (he1.mono ?_).trans ((he2.mono ?_).trans (ExtB.same rfl))⟩ <;> (simp; omega)
  | app l r =>
    unfold buildF at h
    obtain ⟨s1, a1, h1, h⟩ := andThen_some h
    obtain ⟨s2, a2, h2, h⟩ := andThen_some h
    obtain ⟨hst1, he1⟩ := ihP _ _ _ _ _ h1
    obtain ⟨hst2, he2⟩ := ihP _ _ _ _ _ h2
    have ht := doCalls_one' h
    rw [hst1] at hst2
    simp only [track1, hst2, entry, Option.some.injEq] at ht; subst ht
    refine ⟨rfl, (he1.mono ?_).trans ((he2.mono ?_).trans (ExtB.same rfl))⟩ <;> (simp; omega)
  | ex x q =>
    unfold buildF at h
    obtain ⟨s1, a1, h1, h⟩ := andThen_some h
    obtain ⟨hst1, he1⟩ := ihP _ _ _ _ _ h1
    have ht := doCalls_one' h
    simp only [track1, hst1, entry, Option.some.injEq] at ht; subst ht
    refine ⟨rfl, (he1.mono ?_).trans (ExtB.same rfl)⟩; simp; omega
  | mu x q =>
    unfold buildF at h
    obtain ⟨s1, a1, h1, h⟩ := andThen_some h
    obtain ⟨hst1, he1⟩ := ihP _ _ _ _ _ h1
    have ht := doCalls_one' h
    simp only [track1, hst1, entry, Option.some.injEq] at ht; subst ht
    refine ⟨rfl, (he1.mono ?_).trans (ExtB.same rfl)⟩; simp; omega
  | esub q x plug =>
    unfold buildF at h
    obtain ⟨s1, a1, h1, h⟩ := andThen_some h
    obtain ⟨s2, a2, h2, h⟩ := andThen_some h
    obtain ⟨hst1, he1⟩ := ihP _ _ _ _ _ h1
    obtain ⟨hst2, he2⟩ := ihP _ _ _ _ _ h2
    have ht := doCalls_one' h
    rw [hst1] at hst2
    simp only [track1, hst2, entry] at ht
    split at ht
    · simp only [Option.some.injEq] at ht; subst ht
      refine ⟨rfl, (he1.mono ?_).trans ((he2.mono ?_).trans (ExtB.same rfl))⟩ <;> (simp; omega)
    · simp at ht
  | ssub q x plug =>
    unfold buildF at h
    obtain ⟨s1, a1, h1, h⟩ := andThen_some h
    obtain ⟨s2, a2, h2, h⟩ := andThen_some h
    obtain ⟨hst1, he1⟩ := ihP _ _ _ _ _ h1
    obtain ⟨hst2, he2⟩ := ihP _ _ _ _ _ h2
    have ht := doCalls_one' h
    rw [hst1] at hst2
    simp only [track1, hst2, entry] at ht
    split at ht
    · simp only [Option.some.injEq] at ht; subst ht
      refine ⟨rfl, (he1.mono ?_).trans ((he2.mono ?_).trans (ExtB.same rfl))⟩ <;> (simp; omega)
    · simp at ht
  | inst q m =>
    unfold buildF at h
    obtain ⟨s1, a1, h1, h⟩ := andThen_some h
    obtain ⟨s2, a2, h2, h⟩ := andThen_some h
    obtain ⟨hst1, he1⟩ := ihL _ _ _ _ _ h1
    obtain ⟨hst2, he2⟩ := ihP _ _ _ _ _ h2
    have ht := doCalls_one' h
    rw [hst1] at hst2
    have htp := takePlugs_rev ((m.map (·.2)).reverse) s.stack
    have hlen : ((m.map (·.2)).reverse).length = (m.map (·.1)).length := by simp
    rw [hlen, List.reverse_reverse] at htp
    simp only [track1, hst2, entry] at ht
    rw [htp] at ht
    simp only [Option.some.injEq, zip_keys_vals] at ht; subst ht
    have hm := sizeOf_map_snd m
    refine ⟨rfl, (he1.mono ?_).trans ((he2.mono ?_).trans (ExtB.same rfl))⟩ <;> (simp; omega)

theorem pat_grow_step (S : List NPat) (hS : Canonical S) (n : Nat) (ihP : PatG S n) (ihL : ListG S n) :
    PatG S (n + 1) := by
  intro s p acc s' a' h
  rw [patternF_succ] at h
  obtain ⟨hit, hhit, h⟩ := Option.bind_eq_some_iff.mp h
  simp only [memoHitF] at hhit
  cases hit with
  | true =>
    have ht := doCalls_one' (show doCalls n s [.load (.pat p)] acc = some (some (s', a')) from h)
    simp only [track1, Option.bind_eq_bind, Option.bind_eq_some_iff] at ht
    obtain ⟨o, _, ht⟩ := ht
    cases o with
    | none => simp at ht
    | some i =>
      simp only [Option.pure_def, Option.some.injEq] at ht; subst ht
      exact ⟨rfl, ExtB.same rfl⟩
  | false =>
    simp only [Bool.false_eq_true, if_false] at h
    obtain ⟨s1, a1, hb, h⟩ := andThen_some h
    obtain ⟨hst, he⟩ := build_grow S n ihP ihL _ _ _ _ _ hb
    simp only [saveF] at h
    split at h
    · rename_i hsug
      have ht := doCalls_one' h
      simp only [track1, hst, entry, Option.some.injEq] at ht; subst ht
      refine ⟨rfl, ?_⟩
      obtain ⟨e, hmem, hq, hinv⟩ := he
      -- `p` is an element of `S`
      obtain ⟨c, hc, hpc⟩ := List.any_eq_true.mp hsug
      have hpe : p = c := hS.canon c hc p hpc
      have hpS : p ∈ S := hpe ▸ hc
      have hps : patsOf s1.memory = patsOf s.memory ++ e := by
        rw [hmem, patsOf_append, patsOf_map_pat]
      refine ⟨e ++ [p], by simp [hmem], ?_, ?_⟩
      · intro q hq'
        rcases List.mem_append.mp hq' with hq' | hq'
        · exact Nat.lt_succ_of_lt (hq q hq')
        · simp at hq'; subst hq'; exact Nat.lt_succ_self _
      · intro hI
        obtain ⟨hnd, hsub⟩ := hinv hI
        have hnot : p ∉ patsOf s1.memory := by
          rw [hps]
          intro hin
          rcases List.mem_append.mp hin with hin | hin
          · have hm := inMemoryF_false n p _ hhit _ (mem_patsOf.mp hin)
            simp only [teqF] at hm
            have := NPat.peqF_expand n p p false (hS.shape p hpS) (hS.shape p hpS) hm
            simp at this
          · exact Nat.lt_irrefl _ (hq p hin)
        constructor
        · show (patsOf (s1.memory ++ [TTerm.pat p])).Nodup
          rw [patsOf_append]
          simp only [patsOf]
          refine List.nodup_append.mpr ⟨hnd, by simp, ?_⟩
          intro a ha b hb
          simp at hb; subst hb
          intro hab; subst hab; exact hnot ha
        · intro q hq'
          change q ∈ patsOf (s1.memory ++ [TTerm.pat p]) at hq'
          rw [patsOf_append] at hq'
          rcases List.mem_append.mp hq' with hq' | hq'
          · exact hsub q hq'
          · simp [patsOf] at hq'; subst hq'; exact hpS
    · simp only [Option.some.injEq, Prod.mk.injEq] at h
      obtain ⟨rfl, rfl⟩ := h
      exact ⟨hst, he.mono (Nat.le_succ _)⟩

theorem list_grow_step (S : List NPat) (n : Nat) (ihP : PatG S n) (ihL : ListG S n) : ListG S (n + 1) := by
  intro s ps acc s' a' h
  cases ps with
  | nil =>
    simp only [patternF.patternListF, Option.some.injEq, Prod.mk.injEq] at h
    obtain ⟨rfl, rfl⟩ := h
    exact ⟨by simp, ExtB.same rfl⟩
  | cons p r =>
    rw [patternListF_cons] at h
    obtain ⟨s1, a1, h1, h⟩ := andThen_some h
    obtain ⟨hst1, he1⟩ := ihP _ _ _ _ _ h1
    obtain ⟨hst2, he2⟩ := ihL _ _ _ _ _ h
    refine ⟨by rw [hst2, hst1]; simp, (he1.mono ?_).trans (he2.mono ?_)⟩ <;> (simp <;> omega)

theorem pat_grow (S : List NPat) (hS : Canonical S) (n : Nat) : PatG S n ∧ ListG S n := by
  induction n with
  | zero =>
    constructor
    · intro s p acc s' a' h; simp [patternF] at h
    · intro s ps acc s' a' h; simp [patternF.patternListF] at h
  | succ n ih => exact ⟨pat_grow_step S hS n ih.1 ih.2, list_grow_step S n ih.1 ih.2⟩

/-! ### proof expressions, the three phases -/

/-- the invariant of a memoising run: the saved patterns are pairwise different suggestions, the `Proved` entries are the
axioms published so far -/
def Inv (S : List NPat) (k : List NPat) (s : PySt) : Prop := MemInv S s.memory ∧ provedOf s.memory = k

theorem Inv.ext {S : List NPat} {B : Nat} {k : List NPat} {s s' : PySt} (h : ExtB S B s s') (hi : Inv S k s) :
    Inv S k s' := by
  obtain ⟨e, hm, _, hinv⟩ := h
  exact ⟨hinv hi.1, by rw [hm, provedOf_append, provedOf_map_pat, hi.2]; simp⟩

theorem Inv.same {S : List NPat} {k : List NPat} {s s' : PySt} (h : s'.memory = s.memory) (hi : Inv S k s) :
    Inv S k s' := by
  unfold Inv; rw [h]; exact hi

theorem Inv.call {S : List NPat} {k : List NPat} {n : Nat} {s s' : PySt} {c : Call} {acc a' : List Call}
    (h : doCalls n s [c] acc = some (some (s', a'))) (h1 : c ≠ .save) (h2 : c ≠ .publishAxiom) (hi : Inv S k s) :
    Inv S k s' :=
  Inv.same (track1_memory n s s' c (doCalls_one' h) h1 h2) hi

theorem checkF_state {ax : List NPat} {n : Nat} {pf : Pf} {s1 s' : PySt} {a1 a' : List Call} {c : NPat}
    (h : checkF ax n pf s1 a1 = some (some (s', a', c))) : s' = s1 := by
  unfold checkF at h
  split at h
  · obtain ⟨o, _, h⟩ := Option.bind_eq_some_iff.mp h
    cases o with
    | none => simp at h
    | some adv =>
      simp only at h
      obtain ⟨e, _, h⟩ := Option.bind_eq_some_iff.mp h
      cases e <;> simp at h
      exact h.1.symm
  · simp at h

/-- the `Pf` language has no `save`: a proof expression writes to the memory only through the patterns of a `dynInst` -/
theorem run_grow (S : List NPat) (hS : Canonical S) (ax : List NPat) : ∀ (n : Nat) (s : PySt) (pf : Pf)
    (acc : List Call) (s' : PySt) (a' : List Call) (c : NPat) (k : List NPat),
    Pf.runF (mcfg S) ax n s pf acc = some (some (s', a', c)) → Inv S k s → Inv S k s' := by
  intro n
  induction n with
  | zero => intro s pf acc s' a' c k h; simp [Pf.runF] at h
  | succ n ih =>
    intro s pf acc s' a' c k h hi
    rw [runF_succ] at h
    obtain ⟨s1, a1, hraw, hchk⟩ := andThen_some h
    have := checkF_state hchk
    subst this
    cases pf with
    | prop1 => exact Inv.call hraw (by intro e; cases e) (by intro e; cases e) hi
    | prop2 => exact Inv.call hraw (by intro e; cases e) (by intro e; cases e) hi
    | prop3 => exact Inv.call hraw (by intro e; cases e) (by intro e; cases e) hi
    | quantifier => exact Inv.call hraw (by intro e; cases e) (by intro e; cases e) hi
    | loadAxiom a => exact Inv.call hraw (by intro e; cases e) (by intro e; cases e) hi
    | mp l r =>
      unfold rawF at hraw
      obtain ⟨s2, a2, c2, h1, hraw⟩ := andThen3_some hraw
      obtain ⟨s3, a3, c3, h2, hraw⟩ := andThen3_some hraw
      exact Inv.call hraw (by intro e; cases e) (by intro e; cases e) (ih _ _ _ _ _ _ _ h2 (ih _ _ _ _ _ _ _ h1 hi))
    | gen p x =>
      unfold rawF at hraw
      obtain ⟨s2, a2, c2, h1, hraw⟩ := andThen3_some hraw
      exact Inv.call hraw (by intro e; cases e) (by intro e; cases e) (ih _ _ _ _ _ _ _ h1 hi)
    | dynInst p δ =>
      simp only [rawF] at hraw
      split at hraw
      · obtain ⟨s2, a2, c2, h1, hraw⟩ := andThen3_some hraw
        simp only [Option.pure_def, Option.some.injEq, Prod.mk.injEq] at hraw
        obtain ⟨rfl, rfl⟩ := hraw
        exact ih _ _ _ _ _ _ _ h1 hi
      · obtain ⟨s2, a2, h1, hraw⟩ := andThen_some hraw
        obtain ⟨s3, a3, c3, h2, hraw⟩ := andThen3_some hraw
        obtain ⟨_, he⟩ := (pat_grow S hS n).2 _ _ _ _ _ h1
        exact Inv.call hraw (by intro e; cases e) (by intro e; cases e) (ih _ _ _ _ _ _ _ h2 (Inv.ext he hi))

/-- the gamma phase: every axiom is compiled (suggested sub-patterns are saved once) and takes one slot when published -/
theorem pub_axiom_grow (S : List NPat) (hS : Canonical S) (n : Nat) : ∀ (l : List NPat) (s : PySt) (acc : List Call)
    (s' : PySt) (a' : List Call) (k : List NPat),
    PModule.executeFull.pub (mcfg S) n s acc .publishAxiom l = some (some (s', a')) → Inv S k s →
    Inv S (k ++ l) s' := by
  intro l
  induction l with
  | nil =>
    intro s acc s' a' k h hi
    simp only [pub_nil, Option.some.injEq, Prod.mk.injEq] at h
    obtain ⟨rfl, rfl⟩ := h
    simpa using hi
  | cons a r ih =>
    intro s acc s' a' k h hi
    rw [pub_cons] at h
    obtain ⟨s1, a1, h1, h⟩ := andThen_some h
    obtain ⟨s2, a2, h2, h⟩ := andThen_some h
    obtain ⟨hst, he⟩ := (pat_grow S hS n).1 _ _ _ _ _ h1
    have hi1 := Inv.ext he hi
    have ht := doCalls_one' h2
    have hi2 : Inv S (k ++ [a]) s2 := by
      cases hph : s1.phase <;> simp only [track1, hph, hst, entry] at ht
      · simp only [Option.some.injEq] at ht; subst ht
        obtain ⟨⟨hnd, hsub⟩, hk⟩ := hi1
        refine ⟨⟨?_, ?_⟩, ?_⟩
        · show (patsOf (s1.memory ++ [TTerm.proved a])).Nodup
          rw [patsOf_append]; simpa [patsOf] using hnd
        · intro q hq
          change q ∈ patsOf (s1.memory ++ [TTerm.proved a]) at hq
          rw [patsOf_append] at hq
          exact hsub q (by simpa [patsOf] using hq)
        · show provedOf (s1.memory ++ [TTerm.proved a]) = k ++ [a]
          rw [provedOf_append, hk]; simp [provedOf]
      · simp at ht
      · simp at ht
    have := ih _ _ _ _ _ h hi2
    simpa using this

theorem pub_claim_grow (S : List NPat) (hS : Canonical S) (n : Nat) : ∀ (l : List NPat) (s : PySt) (acc : List Call)
    (s' : PySt) (a' : List Call) (k : List NPat),
    PModule.executeFull.pub (mcfg S) n s acc .publishClaim l = some (some (s', a')) → Inv S k s → Inv S k s' := by
  intro l
  induction l with
  | nil =>
    intro s acc s' a' k h hi
    simp only [pub_nil, Option.some.injEq, Prod.mk.injEq] at h
    obtain ⟨rfl, rfl⟩ := h
    exact hi
  | cons a r ih =>
    intro s acc s' a' k h hi
    rw [pub_cons] at h
    obtain ⟨s1, a1, h1, h⟩ := andThen_some h
    obtain ⟨s2, a2, h2, h⟩ := andThen_some h
    obtain ⟨_, he⟩ := (pat_grow S hS n).1 _ _ _ _ _ h1
    exact ih _ _ _ _ _ h (Inv.call h2 (by intro e; cases e) (by intro e; cases e) (Inv.ext he hi))

theorem proofs_grow (S : List NPat) (hS : Canonical S) (m : PModule) (n : Nat) : ∀ (l : List Pf) (s : PySt)
    (acc : List Call) (s' : PySt) (a' : List Call) (k : List NPat),
    PModule.executeFull.proofs (mcfg S) m n s acc l = some (some (s', a')) → Inv S k s → Inv S k s' := by
  intro l
  induction l with
  | nil =>
    intro s acc s' a' k h hi
    simp only [proofs_nil, Option.some.injEq, Prod.mk.injEq] at h
    obtain ⟨rfl, rfl⟩ := h
    exact hi
  | cons pf r ih =>
    intro s acc s' a' k h hi
    rw [proofs_cons] at h
    obtain ⟨s1, a1, c1, h1, h⟩ := andThen3_some h
    obtain ⟨s2, a2, h2, h⟩ := andThen_some h
    exact ih _ _ _ _ _ h (Inv.call h2 (by intro e; cases e) (by intro e; cases e)
      (run_grow S hS _ n _ _ _ _ _ _ _ h1 hi))

/-- **the memory of a memoising run**: when `execute_full` on `MemoizingInterpreter(.., S)` succeeds, the `Pattern`
entries of the final memory are pairwise different elements of `S` (each suggestion is saved at most once) and the
`Proved` entries are exactly the published axioms `gammaAxioms` (imports included, one slot per occurrence) -/
theorem executeFull_memory (S : List NPat) (hS : Canonical S) (n : Nat) (m : PModule) (s : PySt) (calls : List Call)
    (h : PModule.executeFull (mcfg S) n m = some (some (s, calls))) :
    MemInv S s.memory ∧ provedOf s.memory = m.gammaAxioms := by
  rw [executeFull_eq] at h
  obtain ⟨s1, a1, h1, h⟩ := andThen_some h
  obtain ⟨s2, a2, h2, h⟩ := andThen_some h
  obtain ⟨s3, a3, h3, h⟩ := andThen_some h
  obtain ⟨s4, a4, h4, h⟩ := andThen_some h
  have hi0 : Inv S [] (PySt.init m.claimsOf) := ⟨⟨by simp [PySt.init, patsOf], by simp [PySt.init, patsOf]⟩, rfl⟩
  have hi1 := pub_axiom_grow S hS n _ _ _ _ _ _ h1 hi0
  have hi2 := Inv.call h2 (by intro e; cases e) (by intro e; cases e) hi1
  have hi3 := pub_claim_grow S hS n _ _ _ _ _ _ h3 hi2
  have hi4 := Inv.call h4 (by intro e; cases e) (by intro e; cases e) hi3
  have hi5 := proofs_grow S hS m n _ _ _ _ _ _ h hi4
  simp only [List.nil_append] at hi5
  exact hi5

/-- the number of slots a memoising run uses: at most one per suggestion plus one per published axiom -/
theorem executeFull_memory_length (S : List NPat) (hS : Canonical S) (n : Nat) (m : PModule) (s : PySt)
    (calls : List Call) (h : PModule.executeFull (mcfg S) n m = some (some (s, calls))) :
    s.memory.length ≤ S.length + m.gammaAxioms.length := by
  obtain ⟨⟨hnd, hsub⟩, hk⟩ := executeFull_memory S hS n m s calls h
  rw [length_split, hk]
  exact Nat.add_le_add_right (List.Nodup.length_le_of_subset hnd hsub) _

/-! ### the slot operands the serializer writes -/

/-- every `Load` operand of an instruction list is below `N` -/
def SlotsBelow (N : Nat) (is : List Instr) : Prop := ∀ i, Instr.load i ∈ is → i < N

def AllBelow (N : Nat) (out : List Instr × List Instr × List Instr) : Prop :=
  SlotsBelow N out.1 ∧ SlotsBelow N out.2.1 ∧ SlotsBelow N out.2.2

theorem SlotsBelow.mono {N N' : Nat} {is : List Instr} (h : SlotsBelow N is) (hn : N ≤ N') : SlotsBelow N' is :=
  fun i hi => Nat.lt_of_lt_of_le (h i hi) hn

theorem SlotsBelow.append {N : Nat} {is js : List Instr} (h1 : SlotsBelow N is) (h2 : SlotsBelow N js) :
    SlotsBelow N (is ++ js) := by
  intro i hi
  rcases List.mem_append.mp hi with hi | hi
  · exact h1 i hi
  · exact h2 i hi

theorem AllBelow.nil (N : Nat) : AllBelow N ([], [], []) := by
  unfold AllBelow SlotsBelow
  refine ⟨?_, ?_, ?_⟩ <;> intro i hi <;> cases hi

theorem AllBelow.mono {N N' : Nat} {out : List Instr × List Instr × List Instr} (h : AllBelow N out) (hn : N ≤ N') :
    AllBelow N' out := ⟨h.1.mono hn, h.2.1.mono hn, h.2.2.mono hn⟩

theorem AllBelow.addOut {N : Nat} {out : List Instr × List Instr × List Instr} {is : List Instr} (ph : Phase)
    (h : AllBelow N out) (hi : SlotsBelow N is) : AllBelow N (addOut ph out is) := by
  cases ph
  · exact ⟨h.1.append hi, h.2.1, h.2.2⟩
  · exact ⟨h.1, h.2.1.append hi, h.2.2⟩
  · exact ⟨h.1, h.2.1, h.2.2.append hi⟩

theorem indexF_lt (n : Nat) (t : TTerm) : ∀ (mem : List TTerm) (k i : Nat),
    indexF n t mem k = some (some i) → i < k + mem.length := by
  intro mem
  induction mem with
  | nil => intro k i h; simp [indexF] at h
  | cons u r ih =>
    intro k i h
    simp only [indexF, Option.bind_eq_bind, Option.bind_eq_some_iff] at h
    obtain ⟨b, _, h⟩ := h
    cases b with
    | true => simp at h; subst h; simp
    | false =>
      simp only [Bool.false_eq_true, if_false] at h
      have := ih (k + 1) i h
      simp only [List.length_cons]; omega

/-- a `load` is written with the index of an existing slot; no other call writes a slot operand -/
theorem emit1_slots (n : Nat) (s : PySt) (c : Call) (is : List Instr) (h : emit1 n s c = some (some is)) :
    SlotsBelow s.memory.length is := by
  intro i hi
  cases c with
  | load t =>
    simp only [emit1, Option.bind_eq_bind, Option.bind_eq_some_iff] at h
    obtain ⟨o, ho, h⟩ := h
    cases o with
    | none => simp at h
    | some j =>
      simp only [Option.pure_def, Option.some.injEq] at h; subst h
      simp only [List.mem_singleton, Instr.load.injEq] at hi; subst hi
      simpa using indexF_lt n t s.memory 0 i ho
  | metavar id ef sf ps ns hs =>
    simp only [emit1] at h
    split at h <;> (simp only [Option.some.injEq] at h; subst h; simp at hi)
  | _ =>
    simp only [emit1, Option.some.injEq] at h; subst h; simp at hi

/-- the memory only grows -/
theorem track1_memory_le (n : Nat) (s s' : PySt) (c : Call) (h : track1 n s c = some (some s')) :
    s.memory.length ≤ s'.memory.length := by
  by_cases h1 : c = .save
  · subst h1
    simp only [track1] at h
    split at h
    · simp only [Option.some.injEq] at h; subst h; simp
    · simp at h
  · by_cases h2 : c = .publishAxiom
    · subst h2
      simp only [track1] at h
      split at h
      · simp only [Option.some.injEq] at h; subst h; simp
      · simp at h
    · rw [track1_memory n s s' c h h1 h2]; exact Nat.le_refl _

/-- **slot operands of a serialisation**: whatever history the serializer is driven with, every `Load` operand it writes
(in any of the three streams) is below the final number of memory slots -/
theorem trackAll_slots (n : Nat) : ∀ (cs : List Call) (s s' : PySt) (out out' : List Instr × List Instr × List Instr),
    trackAll n s cs out = some (some (s', out')) → AllBelow s.memory.length out →
    s.memory.length ≤ s'.memory.length ∧ AllBelow s'.memory.length out' := by
  intro cs
  induction cs with
  | nil =>
    intro s s' out out' h hb
    simp only [PySt.trackAll, Option.some.injEq, Prod.mk.injEq] at h
    obtain ⟨rfl, rfl⟩ := h
    exact ⟨Nat.le_refl _, hb⟩
  | cons c cs ih =>
    intro s s' out out' h hb
    obtain ⟨is, s1, he, hs, h⟩ := trackAll_cons n s s' c cs out out' h
    have hle := track1_memory_le n s s1 c hs
    have hb1 : AllBelow s1.memory.length (addOut s.phase out is) :=
      (AllBelow.addOut s.phase hb (emit1_slots n s c is he)).mono hle
    obtain ⟨hle2, hb2⟩ := ih s1 s' _ out' h hb1
    exact ⟨Nat.le_trans hle hle2, hb2⟩

/-- every `Load i` instruction with `i` below 256 is a wire byte string (the opcode and the one-byte operand) -/
theorem wire_load (i : Nat) (h : i < 256) : Wire (encode [Instr.load i]) := by
  intro b hb
  simp [encode, encode1] at hb
  rcases hb with rfl | rfl
  · decide
  · exact h

/-! ### suggestion lists that are `Canonical` -/

/-- no notation node (`Instantiate`) anywhere in the pattern -/
def noInst : NPat → Bool
  | .inst .. => false
  | .imp l r => noInst l && noInst r
  | .app l r => noInst l && noInst r
  | .ex _ p => noInst p
  | .mu _ p => noInst p
  | .esub p _ q => noInst p && noInst q
  | .ssub p _ q => noInst p && noInst q
  | _ => true

/-- on patterns without notation nodes the structural comparison is equality -/
theorem seq_eq_of_noInst : ∀ (c : NPat), noInst c = true → ∀ a, NPat.seq a c = true → a = c
  | .evar y, _, a, h => by cases a <;> simp [NPat.seq] at h; rw [h]
  | .svar y, _, a, h => by cases a <;> simp [NPat.seq] at h; rw [h]
  | .sym y, _, a, h => by cases a <;> simp [NPat.seq] at h; rw [h]
  | .mv a1 b1 c1 d1 e1 f1, _, a, h => by
      cases a <;> simp [NPat.seq] at h
      obtain ⟨⟨⟨⟨⟨rfl, rfl⟩, rfl⟩, rfl⟩, rfl⟩, rfl⟩ := h; rfl
  | .imp l r, hc, a, h => by
      cases a <;> simp [NPat.seq] at h
      simp [noInst] at hc
      rw [seq_eq_of_noInst l hc.1 _ h.1, seq_eq_of_noInst r hc.2 _ h.2]
  | .app l r, hc, a, h => by
      cases a <;> simp [NPat.seq] at h
      simp [noInst] at hc
      rw [seq_eq_of_noInst l hc.1 _ h.1, seq_eq_of_noInst r hc.2 _ h.2]
  | .ex x p, hc, a, h => by
      cases a <;> simp [NPat.seq] at h
      simp [noInst] at hc
      rw [seq_eq_of_noInst p hc _ h.2, h.1]
  | .mu x p, hc, a, h => by
      cases a <;> simp [NPat.seq] at h
      simp [noInst] at hc
      rw [seq_eq_of_noInst p hc _ h.2, h.1]
  | .esub p x q, hc, a, h => by
      cases a <;> simp [NPat.seq] at h
      simp [noInst] at hc
      rw [seq_eq_of_noInst p hc.1 _ h.1.1, seq_eq_of_noInst q hc.2 _ h.2, h.1.2]
  | .ssub p x q, hc, a, h => by
      cases a <;> simp [NPat.seq] at h
      simp [noInst] at hc
      rw [seq_eq_of_noInst p hc.1 _ h.1.1, seq_eq_of_noInst q hc.2 _ h.2, h.1.2]
  | .inst p m, hc, _, _ => by simp [noInst] at hc

theorem canonical_of_noInst (S : List NPat) (hs : ∀ c ∈ S, c.Shape = true) (hn : ∀ c ∈ S, noInst c = true) :
    Canonical S :=
  ⟨hs, fun c hc a h => seq_eq_of_noInst c (hn c hc) a h⟩

end memo

end SlotBudget
