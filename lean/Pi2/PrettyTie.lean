import Pi2.Gen.PyPretty
import Pi2.PrettyPat
import Pi2.SerTie
import Pi2.MM.Mono
/-!
# The pretty printer as written in `pattern.py` / `pretty_printing_interpreter.py` is the model's

`Pi2/Gen/PyPretty.lean` is regenerated from the source on every run (`vlib/transpretty.py`).

(a) `Gen.PyPretty.pretty` — the `pretty` methods of the eleven pattern classes with `Notation.print_instantiation`,
statement by statement — is proved equal to the hand-written model `PP.pretty` (`Pi2/PrettyPat.lean`) that the C19
theorems about shown arguments are stated about: `pretty_is_model`.  What a model term `napp idx args` stands for is
`obj`: the `Instantiate` object `Gen.notations[idx](*args)`; `opts.notations` is the whole shipped table keyed by
definition (`tableOpts`).  `table_lookup` (decided over the regenerated table) is the fact the tie needs about the
table: looking a shipped definition up finds a notation with the same format string and a definition `==` to it.
Python's `str.format` is not translated — it is the hand-written `Fmt.parseFmt` / `Fmt.render` in both the model and
the translation (`PyP.strFormat`); so are `str(int)`, `str(dict)`, `repr(str)`, dict lookup (`Pi2/PrettySupport.lean`).
Also: `toStr_is_pretty_default` (`__str__`), `pretty_simplified`, `pretty_fallback` (the two branches of
`Instantiate.pretty` the model does not have).

(b) `Gen.PyPretty.PCall.writes / events / print_stack` — the decorated methods of `PrettyPrintingInterpreter` and the
decorator's wrapper.  `events_shape`: super method of the same name, the function's writes, one newline, the stack dump
iff `print_stack` (`stack_dump_table`).  `step_keyword`: the line a call writes starts with its keyword, whatever the
arguments.  `one_step_line_per_call`: read the way `vlib/props/c19.py` reads a pretty file (`stepsOfText`), the text of
a call is exactly one step.  `print_stack_quiet`: the dump consists of indented lines.  `file_steps`: a whole file
reads back as the keywords of its calls.  `steps_match_emitted` / `steps_match_serializer`: for every `Call` of the
tracker model, these keywords are the names of the instructions the serializer emits for the call (model `emit1`)
and the opcode byte the translated serializer `Gen.Ser.w_*` writes (`MetaVar` ↦ `MetaVar` / `CleanMetaVar`,
`instantiate` and `instantiate_pattern` ↦ `Instantiate`, `publish_*` ↦ `Publish`, the phase changes ↦ nothing).
-/
open PyI PyP Gen.PyPretty
set_option linter.unusedVariables false

namespace PrettyTie

theorem translated : Gen.PyPretty.translated = true := by decide

def notationOf (e : Gen.NotationEntry) : Notation := ⟨e.label, e.arity, e.definition, e.format⟩
def tableOpts : PrettyOptions :=
  { simplify_instantiations := false, notations := Gen.notations.map fun e => (e.definition, notationOf e) }

def K : Nat := 80
def entryFound (e : Gen.NotationEntry) : Bool :=
  match mapFind tableOpts.notations e.definition with
  | some f => f.format_str == e.format && (NPat.peqF K e.definition f.definition == some true)
  | none => false

-- 
theorem table_lookup : Gen.notations.all entryFound = true := by decide +kernel

/-- the definitions of the table are pairwise different keys: the dictionary `{n.definition: n for n in table}`
(`ProofExp.pretty_options`, the harness) has exactly the table's entries as items, in order -/
def keysDistinct : List Gen.NotationEntry → Bool
  | [] => true
  | e :: r => r.all (fun e' => !keyEq e.definition e'.definition && !keyEq e'.definition e.definition) && keysDistinct r

theorem table_keys_distinct : keysDistinct Gen.notations = true := by decide +kernel

/-! ## (a) `pretty` as written is the model `PP.pretty` -/

@[simp] theorem toString_str (s : String) : toString s = s := rfl

/-- `frozendict(enumerate(args))`, the map `Notation.__call__` builds -/
def enumFrom {α} : Nat → List α → List (Nat × α)
  | _, [] => []
  | i, a :: r => (i, a) :: enumFrom (i + 1) r

theorem dictValues_enumFrom {α} (i : Nat) (l : List α) : dictValues (enumFrom i l) = l := by
  induction l generalizing i with
  | nil => rfl
  | cons a r ih => simp only [enumFrom, dictValues, List.map_cons, List.cons.injEq, true_and]; exact ih (i + 1)

/-- the Python object a term of the model stands for (`harness/py/py_cmds.py: pp_obj`): `napp idx args` is
`Gen.notations[idx](*args)` = `Instantiate(definition, frozendict(enumerate(args)))`; `code` numbers the symbol names -/
def obj (code : String → Nat) : PP → Option NPat
  | .evar x => some (.evar x)
  | .svar x => some (.svar x)
  | .sym s => some (.sym (code s))
  | .imp l r => do pure (.imp (← obj code l) (← obj code r))
  | .app l r => do pure (.app (← obj code l) (← obj code r))
  | .ex x p => do pure (.ex x (← obj code p))
  | .mu x p => do pure (.mu x (← obj code p))
  | .mv id => some (.mv id [] [] [] [] [])
  | .esub p x q => do pure (.esub (← obj code p) x (← obj code q))
  | .ssub p x q => do pure (.ssub (← obj code p) x (← obj code q))
  | .napp idx args => do
      let e ← Gen.notations[idx]?
      let as ← objList args
      pure (.inst e.definition (enumFrom 0 as))
where
  objList : List PP → Option (List NPat)
    | [] => some []
    | a :: r => do pure ((← obj code a) :: (← objList r))

def depth : PP → Nat
  | .evar _ => 0 | .svar _ => 0 | .sym _ => 0 | .mv _ => 0
  | .imp l r => max (depth l) (depth r) + 1
  | .app l r => max (depth l) (depth r) + 1
  | .ex _ p => depth p + 1
  | .mu _ p => depth p + 1
  | .esub p _ q => max (depth p) (depth q) + 1
  | .ssub p _ q => max (depth p) (depth q) + 1
  | .napp _ args => depthList args + 1
where
  depthList : List PP → Nat
    | [] => 0
    | a :: r => max (depth a) (depthList r)

theorem call_some {α β} (x : Option α) (k : α → Py β) :
    call (some x) k = match x with | none => some none | some a => k a := by
  cases x <;> rfl

theorem entry_found (idx : Nat) (e : Gen.NotationEntry) (h : Gen.notations[idx]? = some e) :
    ∃ f, mapFind tableOpts.notations e.definition = some f ∧ f.format_str = e.format ∧
      NPat.peqF K e.definition f.definition = some true := by
  have hm : e ∈ Gen.notations := List.mem_of_getElem? h
  have := List.all_eq_true.mp table_lookup e hm
  unfold entryFound at this
  split at this
  · rename_i f hf
    simp only [Bool.and_eq_true, beq_iff_eq] at this
    exact ⟨f, hf, this.1, this.2⟩
  · cases this

theorem peq_enough (n : Nat) (hn : K ≤ n) (a b : NPat) (h : NPat.peqF K a b = some true) : NPat.peqF n a b = some true :=
  NPat.peqF_mono hn a b true h

theorem depth_le_depthList (a : PP) (l : List PP) (h : a ∈ l) : depth a ≤ depth.depthList l := by
  induction l with
  | nil => cases h
  | cons b r ih =>
    simp only [depth.depthList]
    rcases List.mem_cons.mp h with rfl | h'
    · exact Nat.le_max_left _ _
    · exact Nat.le_trans (ih h') (Nat.le_max_right _ _)

/-- the comprehension `[p.pretty(opts) for p in applied.inst.values()]`, given the statement for the elements -/
theorem mapPy_args (σ : Nat → String) (code : String → Nat) (n : Nat)
    (ih : ∀ (p : PP) (q : NPat), obj code p = some q → depth p + K < n → pretty σ n q tableOpts = some p.pretty) :
    ∀ (args : List PP) (qs : List NPat), obj.objList code args = some qs → (∀ a ∈ args, depth a + K < n) →
      mapPy (fun c_p => call (pretty σ n c_p tableOpts) fun t2 => ret t2) qs = some (PP.pretty.prettyList args) := by
  intro args
  induction args with
  | nil =>
    intro qs h _
    simp only [obj.objList, Option.some.injEq] at h; subst h
    rfl
  | cons a r ihr =>
    intro qs h hd
    simp only [obj.objList, Option.bind_eq_bind, Option.pure_def, Option.bind_eq_some_iff, Option.some.injEq] at h
    obtain ⟨qa, hqa, qr, hqr, rfl⟩ := h
    have ha := ih a qa hqa (hd a (List.mem_cons_self ..))
    have hr := ihr qr hqr (fun x hx => hd x (List.mem_cons_of_mem _ hx))
    simp only [mapPy, ha, hr, call_some, PP.pretty.prettyList]
    cases PP.pretty a <;> cases PP.pretty.prettyList r <;> rfl

theorem call_ret {α β} (a : α) (k : α → Py β) : call (ret a) k = k a := rfl
theorem fuel_some {α β} (a : α) (k : α → Py β) : fuel (some a) k = k a := rfl
theorem assert_true {β} (k : Py β) : assert_ true k = k := rfl
theorem call_id {α} (x : Py α) : (call x fun t => ret t) = x := by
  rcases x with _ | _ | _ <;> rfl

theorem slash_x (s : String) : "/" ++ ("x" ++ s) = "/x" ++ s := by
  rw [← String.append_assoc]; congr 1
theorem slash_X (s : String) : "/" ++ ("X" ++ s) = "/X" ++ s := by
  rw [← String.append_assoc]; congr 1

theorem pretty_obj_aux (σ : Nat → String) (code : String → Nat) (hσ : ∀ s, σ (code s) = s) :
    ∀ (n : Nat) (p : PP) (q : NPat), obj code p = some q → depth p + K < n →
      pretty σ n q tableOpts = some p.pretty := by
  intro n
  induction n with
  | zero => intro p q _ h; omega
  | succ n ih =>
    intro p q hq hd
    cases p with
    | evar x =>
      simp only [obj, Option.some.injEq] at hq; subst hq
      simp [pretty, EVar_pretty, PP.pretty, ret, cat, strNat]
    | svar x =>
      simp only [obj, Option.some.injEq] at hq; subst hq
      simp [pretty, SVar_pretty, PP.pretty, ret, cat, strNat]
    | sym s =>
      simp only [obj, Option.some.injEq] at hq; subst hq
      simp [pretty, Symbol_pretty, PP.pretty, ret, hσ]
    | mv id =>
      simp only [obj, Option.some.injEq] at hq; subst hq
      simp [pretty, MetaVar_pretty, PP.pretty, ret, cat, strNat]
    | imp l r =>
      simp only [obj, Option.bind_eq_bind, Option.pure_def, Option.bind_eq_some_iff, Option.some.injEq] at hq
      obtain ⟨ql, hl, qr, hr, rfl⟩ := hq
      simp only [depth] at hd
      have h1 := ih l ql hl (by omega)
      have h2 := ih r qr hr (by omega)
      simp only [pretty, Implies_pretty, h1, h2, call_some, PP.pretty]
      cases PP.pretty l <;> cases PP.pretty r <;> simp [ret, cat, String.append_assoc]
    | app l r =>
      simp only [obj, Option.bind_eq_bind, Option.pure_def, Option.bind_eq_some_iff, Option.some.injEq] at hq
      obtain ⟨ql, hl, qr, hr, rfl⟩ := hq
      simp only [depth] at hd
      have h1 := ih l ql hl (by omega)
      have h2 := ih r qr hr (by omega)
      simp only [pretty, App_pretty, h1, h2, call_some, PP.pretty]
      cases PP.pretty l <;> cases PP.pretty r <;> simp [ret, cat, String.append_assoc]
    | ex x p =>
      simp only [obj, Option.bind_eq_bind, Option.pure_def, Option.bind_eq_some_iff, Option.some.injEq] at hq
      obtain ⟨qp, hp, rfl⟩ := hq
      simp only [depth] at hd
      have h1 := ih p qp hp (by omega)
      simp only [pretty, Exists_pretty, h1, call_some, PP.pretty]
      cases PP.pretty p <;> simp [ret, cat, strNat, String.append_assoc]
    | mu x p =>
      simp only [obj, Option.bind_eq_bind, Option.pure_def, Option.bind_eq_some_iff, Option.some.injEq] at hq
      obtain ⟨qp, hp, rfl⟩ := hq
      simp only [depth] at hd
      have h1 := ih p qp hp (by omega)
      simp only [pretty, Mu_pretty, h1, call_some, PP.pretty]
      cases PP.pretty p <;> simp [ret, cat, strNat, String.append_assoc]
    | esub p x r =>
      simp only [obj, Option.bind_eq_bind, Option.pure_def, Option.bind_eq_some_iff, Option.some.injEq] at hq
      obtain ⟨qp, hp, qr, hr, rfl⟩ := hq
      simp only [depth] at hd
      have h1 := ih p qp hp (by omega)
      have h2 := ih r qr hr (by omega)
      simp only [pretty, ESubst_pretty, EVar_pretty, h1, h2, call_some, PP.pretty]
      cases PP.pretty p <;> cases PP.pretty r <;> simp [ret, cat, strNat, String.append_assoc, slash_x]
    | ssub p x r =>
      simp only [obj, Option.bind_eq_bind, Option.pure_def, Option.bind_eq_some_iff, Option.some.injEq] at hq
      obtain ⟨qp, hp, qr, hr, rfl⟩ := hq
      simp only [depth] at hd
      have h1 := ih p qp hp (by omega)
      have h2 := ih r qr hr (by omega)
      simp only [pretty, SSubst_pretty, SVar_pretty, h1, h2, call_some, PP.pretty]
      cases PP.pretty p <;> cases PP.pretty r <;> simp [ret, cat, strNat, String.append_assoc, slash_X]
    | napp idx args =>
      simp only [obj, Option.bind_eq_bind, Option.pure_def, Option.bind_eq_some_iff, Option.some.injEq] at hq
      obtain ⟨e, he, qs, hqs, rfl⟩ := hq
      simp only [depth] at hd
      obtain ⟨f, hf, hfmt, hpeq⟩ := entry_found idx e he
      have hargs := mapPy_args σ code n ih args qs hqs
        (fun a ha => by have := depth_le_depthList a args ha; omega)
      have hp : NPat.peqF n e.definition f.definition = some true := peq_enough n (by omega) _ _ hpeq
      have hsimp : tableOpts.simplify_instantiations = false := rfl
      simp only [call_id] at hargs
      simp only [pretty, Instantiate_pretty, hsimp, Bool.false_eq_true, if_false, mapHas, hf, Option.isSome_some, if_true,
        mapGet, call_ret, Notation_print_instantiation, hp, fuel_some, assert_true, dictValues_enumFrom, hargs, call_some,
        call_id, PP.pretty, he, hfmt, strFormat, Option.bind_eq_bind, Option.bind_some, Option.pure_def]
      cases Fmt.parseFmt e.format.toList with
      | none => cases PP.pretty.prettyList args <;> rfl
      | some segs =>
        cases PP.pretty.prettyList args with
        | none => rfl
        | some strs =>
          simp only [Option.bind_some]
          cases Fmt.render segs (List.map String.toList strs) <;> rfl

/-- **the text tie**: on the Python object a model term stands for, with `opts.notations` = the whole shipped table
(`simplify_instantiations` off), `Pattern.pretty` as written in `pattern.py` — dispatch over the eleven classes,
`Instantiate.pretty`'s lookup of the definition in `opts.notations`, `Notation.print_instantiation`'s
`assert applied.pattern == self.definition`, the comprehension over `applied.inst.values()`, `format_str.format(*…)`
inside its `try` — answers what the hand-written model `PP.pretty` answers (`none` = `ValueError`), at every fuel
above the nesting depth of the term plus `K` (`K` = what the reflexive `==` of the largest shipped definition costs).
`σ`/`code`: any numbering of the symbol names. -/
theorem pretty_is_model (σ : Nat → String) (code : String → Nat) (hσ : ∀ s, σ (code s) = s)
    (p : PP) (q : NPat) (hq : obj code p = some q) (n : Nat) (hn : depth p + K < n) :
    pretty σ n q tableOpts = some p.pretty :=
  pretty_obj_aux σ code hσ n p q hq hn

theorem mapPy_args_any (σ : Nat → String) (code : String → Nat) (n : Nat)
    (ih : ∀ (p : PP) (q : NPat), obj code p = some q →
      pretty σ n q tableOpts = none ∨ pretty σ n q tableOpts = some p.pretty) :
    ∀ (args : List PP) (qs : List NPat), obj.objList code args = some qs →
      mapPy (fun c_p => pretty σ n c_p tableOpts) qs = none ∨
      mapPy (fun c_p => pretty σ n c_p tableOpts) qs = some (PP.pretty.prettyList args) := by
  intro args
  induction args with
  | nil =>
    intro qs h
    simp only [obj.objList, Option.some.injEq] at h; subst h
    right; rfl
  | cons a r ihr =>
    intro qs h
    simp only [obj.objList, Option.bind_eq_bind, Option.pure_def, Option.bind_eq_some_iff, Option.some.injEq] at h
    obtain ⟨qa, hqa, qr, hqr, rfl⟩ := h
    rcases ih a qa hqa with ha | ha
    · left; simp [mapPy, ha, call]
    · rcases ihr qr hqr with hr | hr
      · cases hpa : PP.pretty a with
        | none => right; simp [mapPy, ha, hpa, call_some, PP.pretty.prettyList]
        | some s => left; simp [mapPy, ha, hr, hpa, call]
      · right
        simp only [mapPy, ha, hr, call_some, PP.pretty.prettyList]
        cases PP.pretty a <;> cases PP.pretty.prettyList r <;> rfl

/-- **at every fuel**: the translated `pretty` either runs out of fuel or answers what the model answers — never
anything else -/
theorem pretty_sound_any_fuel (σ : Nat → String) (code : String → Nat) (hσ : ∀ s, σ (code s) = s) :
    ∀ (n : Nat) (p : PP) (q : NPat), obj code p = some q →
      pretty σ n q tableOpts = none ∨ pretty σ n q tableOpts = some p.pretty := by
  intro n
  induction n with
  | zero => intro p q _; left; cases q <;> rfl
  | succ n ih =>
    intro p q hq
    cases p with
    | evar x =>
      simp only [obj, Option.some.injEq] at hq; subst hq
      right; simp [pretty, EVar_pretty, PP.pretty, ret, cat, strNat]
    | svar x =>
      simp only [obj, Option.some.injEq] at hq; subst hq
      right; simp [pretty, SVar_pretty, PP.pretty, ret, cat, strNat]
    | sym s =>
      simp only [obj, Option.some.injEq] at hq; subst hq
      right; simp [pretty, Symbol_pretty, PP.pretty, ret, hσ]
    | mv id =>
      simp only [obj, Option.some.injEq] at hq; subst hq
      right; simp [pretty, MetaVar_pretty, PP.pretty, ret, cat, strNat]
    | imp l r =>
      simp only [obj, Option.bind_eq_bind, Option.pure_def, Option.bind_eq_some_iff, Option.some.injEq] at hq
      obtain ⟨ql, hl, qr, hr, rfl⟩ := hq
      rcases ih l ql hl with h1 | h1
      · left; simp [pretty, Implies_pretty, h1, call]
      · rcases ih r qr hr with h2 | h2
        · cases hpl : PP.pretty l with
          | none => right; simp [pretty, Implies_pretty, h1, hpl, call_some, PP.pretty]
          | some a => left; simp [pretty, Implies_pretty, h1, h2, hpl, call]
        · right
          simp only [pretty, Implies_pretty, h1, h2, call_some, PP.pretty]
          cases PP.pretty l <;> cases PP.pretty r <;> simp [ret, cat, String.append_assoc]
    | app l r =>
      simp only [obj, Option.bind_eq_bind, Option.pure_def, Option.bind_eq_some_iff, Option.some.injEq] at hq
      obtain ⟨ql, hl, qr, hr, rfl⟩ := hq
      rcases ih l ql hl with h1 | h1
      · left; simp [pretty, App_pretty, h1, call]
      · rcases ih r qr hr with h2 | h2
        · cases hpl : PP.pretty l with
          | none => right; simp [pretty, App_pretty, h1, hpl, call_some, PP.pretty]
          | some a => left; simp [pretty, App_pretty, h1, h2, hpl, call]
        · right
          simp only [pretty, App_pretty, h1, h2, call_some, PP.pretty]
          cases PP.pretty l <;> cases PP.pretty r <;> simp [ret, cat, String.append_assoc]
    | ex x p =>
      simp only [obj, Option.bind_eq_bind, Option.pure_def, Option.bind_eq_some_iff, Option.some.injEq] at hq
      obtain ⟨qp, hp, rfl⟩ := hq
      rcases ih p qp hp with h1 | h1
      · left; simp [pretty, Exists_pretty, h1, call]
      · right
        simp only [pretty, Exists_pretty, h1, call_some, PP.pretty]
        cases PP.pretty p <;> simp [ret, cat, strNat, String.append_assoc]
    | mu x p =>
      simp only [obj, Option.bind_eq_bind, Option.pure_def, Option.bind_eq_some_iff, Option.some.injEq] at hq
      obtain ⟨qp, hp, rfl⟩ := hq
      rcases ih p qp hp with h1 | h1
      · left; simp [pretty, Mu_pretty, h1, call]
      · right
        simp only [pretty, Mu_pretty, h1, call_some, PP.pretty]
        cases PP.pretty p <;> simp [ret, cat, strNat, String.append_assoc]
    | esub l x r =>
      simp only [obj, Option.bind_eq_bind, Option.pure_def, Option.bind_eq_some_iff, Option.some.injEq] at hq
      obtain ⟨ql, hl, qr, hr, rfl⟩ := hq
      rcases ih l ql hl with h1 | h1
      · left; simp [pretty, ESubst_pretty, h1, call]
      · rcases ih r qr hr with h2 | h2
        · cases hpl : PP.pretty l with
          | none => right; simp [pretty, ESubst_pretty, h1, hpl, call_some, PP.pretty]
          | some a => left; simp [pretty, ESubst_pretty, h1, h2, hpl, call]
        · right
          simp only [pretty, ESubst_pretty, EVar_pretty, h1, h2, call_some, PP.pretty]
          cases PP.pretty l <;> cases PP.pretty r <;> simp [ret, cat, strNat, String.append_assoc, slash_x]
    | ssub l x r =>
      simp only [obj, Option.bind_eq_bind, Option.pure_def, Option.bind_eq_some_iff, Option.some.injEq] at hq
      obtain ⟨ql, hl, qr, hr, rfl⟩ := hq
      rcases ih l ql hl with h1 | h1
      · left; simp [pretty, SSubst_pretty, h1, call]
      · rcases ih r qr hr with h2 | h2
        · cases hpl : PP.pretty l with
          | none => right; simp [pretty, SSubst_pretty, h1, hpl, call_some, PP.pretty]
          | some a => left; simp [pretty, SSubst_pretty, h1, h2, hpl, call]
        · right
          simp only [pretty, SSubst_pretty, SVar_pretty, h1, h2, call_some, PP.pretty]
          cases PP.pretty l <;> cases PP.pretty r <;> simp [ret, cat, strNat, String.append_assoc, slash_X]
    | napp idx args =>
      simp only [obj, Option.bind_eq_bind, Option.pure_def, Option.bind_eq_some_iff, Option.some.injEq] at hq
      obtain ⟨e, he, qs, hqs, rfl⟩ := hq
      obtain ⟨f, hf, hfmt, hpeq⟩ := entry_found idx e he
      have hsimp : tableOpts.simplify_instantiations = false := rfl
      cases hpq : NPat.peqF n e.definition f.definition with
      | none =>
        left
        simp only [pretty, Instantiate_pretty, hsimp, Bool.false_eq_true, if_false, mapHas, hf, Option.isSome_some, if_true,
          mapGet, call_ret, Notation_print_instantiation, hpq, call_id]
        rfl
      | some r =>
        have hr : r = true := by
          have h1 := NPat.peqF_mono (Nat.le_max_left n K) _ _ r hpq
          have h2 := peq_enough (max n K) (Nat.le_max_right n K) _ _ hpeq
          rw [h1] at h2
          exact Option.some.inj h2
        subst hr
        rcases mapPy_args_any σ code n ih args qs hqs with hargs | hargs
        · left
          simp only [pretty, Instantiate_pretty, hsimp, Bool.false_eq_true, if_false, mapHas, hf, Option.isSome_some, if_true,
            mapGet, call_ret, Notation_print_instantiation, hpq, fuel_some, assert_true, dictValues_enumFrom, call_id, hargs]
          rfl
        · right
          simp only [pretty, Instantiate_pretty, hsimp, Bool.false_eq_true, if_false, mapHas, hf, Option.isSome_some, if_true,
            mapGet, call_ret, Notation_print_instantiation, hpq, fuel_some, assert_true, dictValues_enumFrom, hargs, call_some,
            call_id, PP.pretty, he, hfmt, strFormat, Option.bind_eq_bind, Option.bind_some, Option.pure_def]
          cases Fmt.parseFmt e.format.toList with
          | none => cases PP.pretty.prettyList args <;> rfl
          | some segs =>
            cases PP.pretty.prettyList args with
            | none => rfl
            | some strs =>
              simp only [Option.bind_some]
              cases Fmt.render segs (List.map String.toList strs) <;> rfl

/-! a term that mentions a notation index outside the table stands for no object, and the model answers `none` -/
mutual
theorem obj_none (code : String → Nat) : ∀ p : PP, obj code p = none → p.pretty = none
  | .evar x, h => by simp [obj] at h
  | .svar x, h => by simp [obj] at h
  | .sym s, h => by simp [obj] at h
  | .mv i, h => by simp [obj] at h
  | .imp l r, h => by
      simp only [obj, Option.bind_eq_bind, Option.pure_def] at h
      cases hl : obj code l with
      | none => simp [PP.pretty, obj_none code l hl]
      | some ql =>
        cases hr : obj code r with
        | none => simp [PP.pretty, obj_none code r hr]
        | some qr => simp [hl, hr] at h
  | .app l r, h => by
      simp only [obj, Option.bind_eq_bind, Option.pure_def] at h
      cases hl : obj code l with
      | none => simp [PP.pretty, obj_none code l hl]
      | some ql =>
        cases hr : obj code r with
        | none => simp [PP.pretty, obj_none code r hr]
        | some qr => simp [hl, hr] at h
  | .ex x p, h => by
      simp only [obj, Option.bind_eq_bind, Option.pure_def] at h
      cases hp : obj code p with
      | none => simp [PP.pretty, obj_none code p hp]
      | some q => simp [hp] at h
  | .mu x p, h => by
      simp only [obj, Option.bind_eq_bind, Option.pure_def] at h
      cases hp : obj code p with
      | none => simp [PP.pretty, obj_none code p hp]
      | some q => simp [hp] at h
  | .esub l x r, h => by
      simp only [obj, Option.bind_eq_bind, Option.pure_def] at h
      cases hl : obj code l with
      | none => simp [PP.pretty, obj_none code l hl]
      | some ql =>
        cases hr : obj code r with
        | none => simp [PP.pretty, obj_none code r hr]
        | some qr => simp [hl, hr] at h
  | .ssub l x r, h => by
      simp only [obj, Option.bind_eq_bind, Option.pure_def] at h
      cases hl : obj code l with
      | none => simp [PP.pretty, obj_none code l hl]
      | some ql =>
        cases hr : obj code r with
        | none => simp [PP.pretty, obj_none code r hr]
        | some qr => simp [hl, hr] at h
  | .napp idx args, h => by
      simp only [obj, Option.bind_eq_bind, Option.pure_def] at h
      cases he : Gen.notations[idx]? with
      | none => simp [PP.pretty, he]
      | some e =>
        cases ha : obj.objList code args with
        | none => simp [PP.pretty, objList_none code args ha]
        | some qs => simp [he, ha] at h
theorem objList_none (code : String → Nat) : ∀ l : List PP, obj.objList code l = none → PP.pretty.prettyList l = none
  | [], h => by simp [obj.objList] at h
  | a :: r, h => by
      simp only [obj.objList, Option.bind_eq_bind, Option.pure_def] at h
      cases ha : obj code a with
      | none => simp [PP.pretty.prettyList, obj_none code a ha]
      | some qa =>
        cases hr : obj.objList code r with
        | none => simp [PP.pretty.prettyList, objList_none code r hr]
        | some qr => simp [ha, hr] at h
end

/-- `PrettyOptions()` — what `__str__` and an interpreter constructed without options use: no simplification, no notations -/
theorem default_options : PrettyOptions_default = { simplify_instantiations := false, notations := [] } := rfl

/-- `str(p)` is `p.pretty(PrettyOptions())`: every class's `__str__` as written -/
theorem toStr_is_pretty_default (σ : Nat → String) (n : Nat) (q : NPat) :
    toStr σ n q = pretty σ n q PrettyOptions_default := by
  cases n with
  | zero => simp [toStr, pretty]
  | succ n =>
    cases q <;> simp [toStr, pretty, EVar_str, SVar_str, Symbol_str, MetaVar_str, Implies_str, App_str, Exists_str, Mu_str,
      ESubst_str, SSubst_str, Instantiate_str, call_id]

/-- with `simplify_instantiations` on, a notation node prints as its one-level simplification (`Instantiate.simplify`
as translated from the source by `transmatch.py`) -/
theorem pretty_simplified (σ : Nat → String) (n : Nat) (d : NPat) (m : List (Nat × NPat)) (opts : PrettyOptions)
    (h : opts.simplify_instantiations = true) :
    pretty σ (n + 1) (.inst d m) opts =
      call (Gen.PyMatch.Instantiate.simplify n (.inst d m)) fun t => pretty σ n t opts := by
  simp [pretty, Instantiate_pretty, h, call_id]

/-- a definition that is not a key of `opts.notations` (and no simplification): the fallback prints the definition and
the rendered arguments, `str(self.pattern)[{0: '…', 1: '…'}]` — every argument is shown -/
theorem pretty_fallback (σ : Nat → String) (n : Nat) (d : NPat) (m : List (Nat × NPat)) (opts : PrettyOptions)
    (h : opts.simplify_instantiations = false) (hk : mapFind opts.notations d = none) :
    pretty σ (n + 1) (.inst d m) opts =
      call (forItems m [] fun acc k v => call (pretty σ n v opts) fun t => ret (dictSet acc k t)) fun shown =>
      call (toStr σ n d) fun t => ret (cat [t, "[", strDict shown, "]"]) := by
  simp [pretty, Instantiate_pretty, h, mapHas, hk]

/-! ## (b) the step lines of `PrettyPrintingInterpreter` -/

/-- the text a decorated function writes before the wrapper's newline -/
def stepText (σ : Nat → String) (c : PCall) : String := cat (c.writes σ)

/-- the step keywords (the names of the instructions in `instruction.py`) -/
def KW : List String := ["EVar", "SVar", "Symbol", "MetaVar", "Implies", "App", "Exists", "Mu", "ESubst", "SSubst", "Prop1",
  "Prop2", "Prop3", "ModusPonens", "Quantifier", "Generalization", "Instantiate", "Pop", "Save", "Load", "Publish"]

/-- the longest keyword a line starts with (how `vlib/props/c19.py` and the demo of seeded change C19-B/D read a
pretty file) -/
def keywordOf (line : List Char) : Option String :=
  let best := KW.foldl (fun best kw => if kw.toList.isPrefixOf line && best.length < kw.length then kw else best) ""
  if best = "" then none else some best

/-- the step keyword of each decorated method -/
def kw : PCall → String
  | .evar _ => "EVar" | .svar _ => "SVar" | .symbol _ => "Symbol" | .metavar .. => "MetaVar"
  | .implies => "Implies" | .app => "App" | .«exists» _ => "Exists" | .mu _ => "Mu"
  | .esubst _ => "ESubst" | .ssubst _ => "SSubst" | .prop1 => "Prop1" | .prop2 => "Prop2" | .prop3 => "Prop3"
  | .modus_ponens => "ModusPonens" | .exists_quantifier => "Quantifier" | .exists_generalization _ => "Generalization"
  | .instantiate _ => "Instantiate" | .instantiate_pattern _ => "Instantiate"
  | .pop => "Pop" | .save _ => "Save" | .load .. => "Load"
  | .publish_proof => "Publish" | .publish_axiom => "Publish" | .publish_claim => "Publish"

theorem kw_mem (c : PCall) : kw c ∈ KW := by cases c <;> simp [kw, KW]

/-- two words differ at a position both have -/
def diverge : List Char → List Char → Bool
  | a :: as, b :: bs => a != b || diverge as bs
  | _, _ => false

theorem diverge_not_prefix (a b : List Char) (h : diverge a b = true) (x : List Char) :
    List.isPrefixOf a (b ++ x) = false := by
  induction a generalizing b with
  | nil => simp [diverge] at h
  | cons c as ih =>
    cases b with
    | nil => simp [diverge] at h
    | cons d bs =>
      simp only [diverge, Bool.or_eq_true, bne_iff_ne, ne_eq] at h
      simp only [List.cons_append, List.isPrefixOf]
      by_cases hcd : c = d
      · subst hcd
        simp only [not_true_eq_false, false_or] at h
        simp [ih bs h]
      · simp [hcd]

/-- no keyword is a prefix of another one -/
theorem KW_diverge : ∀ k ∈ KW, ∀ k' ∈ KW, k ≠ k' → diverge k'.toList k.toList = true := by decide

theorem prefix_self_append (a x : List Char) : List.isPrefixOf a (a ++ x) = true := by
  induction a with
  | nil => simp [List.isPrefixOf]
  | cons c r ih => simp [ih]

theorem fold_pick (line : List Char) (k : String) (hk : k.toList.isPrefixOf line = true) (hlen : 0 < k.length)
    (L : List String) (hL : ∀ k' ∈ L, k' ≠ k → k'.toList.isPrefixOf line = false) (best : String)
    (hb : best = "" ∨ best = k) :
    L.foldl (fun best kw => if kw.toList.isPrefixOf line && best.length < kw.length then kw else best) best =
      if k ∈ L then k else best := by
  induction L generalizing best with
  | nil => simp
  | cons a r ih =>
    simp only [List.foldl_cons]
    have hr : ∀ k' ∈ r, k' ≠ k → k'.toList.isPrefixOf line = false := fun k' h => hL k' (List.mem_cons_of_mem _ h)
    by_cases hak : a = k
    · subst hak
      rcases hb with rfl | rfl
      · simp only [hk, String.length_empty, hlen, decide_true, Bool.and_self, if_true]
        rw [ih hr _ (Or.inr rfl)]; simp
      · simp only [Nat.lt_irrefl, decide_false, Bool.and_false, Bool.false_eq_true, if_false]
        rw [ih hr _ (Or.inr rfl)]; simp
    · have := hL a (List.mem_cons_self ..) hak
      simp only [this, Bool.false_and, Bool.false_eq_true, if_false]
      rw [ih hr best hb]
      have hka : ¬ k = a := fun e => hak e.symm
      simp [List.mem_cons, hka]

/-- a line that starts with a keyword has that keyword, whatever follows -/
theorem keywordOf_kw (k : String) (hk : k ∈ KW) (x : List Char) : keywordOf (k.toList ++ x) = some k := by
  have hlen : 0 < k.length := by
    revert k; decide
  have hne : k ≠ "" := by
    intro h; subst h; simp at hlen
  unfold keywordOf
  simp only []
  rw [fold_pick (k.toList ++ x) k (prefix_self_append _ _) hlen KW
    (fun k' hk' hne' => diverge_not_prefix _ _ (KW_diverge k hk k' hk' (fun e => hne' e.symm)) x) "" (Or.inl rfl)]
  simp [hk, hne]

theorem toList_cat (l : List String) : (cat l).toList = l.flatMap String.toList := by
  induction l with
  | nil => simp [cat]
  | cons a r ih => simp [cat, ih]

/-- what every decorated function writes begins with its keyword -/
theorem stepText_prefix (σ : Nat → String) (c : PCall) :
    List.isPrefixOf (kw c).toList (stepText σ c).toList = true := by
  cases c <;> simp [stepText, PCall.writes, toList_cat, kw, cat]

/-- **the keyword of a step line**: for every decorated method and all arguments, the line the call writes starts with
the method's keyword and the reader recognises exactly that keyword -/
theorem step_keyword (σ : Nat → String) (c : PCall) : keywordOf (stepText σ c).toList = some (kw c) := by
  obtain ⟨rest, h⟩ := List.isPrefixOf_iff_prefix.mp (stepText_prefix σ c)
  rw [← h]
  exact keywordOf_kw _ (kw_mem c) rest

/-- `line` is the word `k`, alone or followed by a space -/
def startsWithWord : List Char → List Char → Bool
  | [], [] => true
  | [], c :: _ => c == ' '
  | a :: as, b :: bs => a == b && startsWithWord as bs
  | _ :: _, [] => false

/-- the keyword is the whole first word of the step line (nothing is glued to it): the line is the keyword alone or
the keyword, a space, and the arguments -/
theorem step_keyword_is_a_word (σ : Nat → String) (c : PCall) :
    startsWithWord (kw c).toList (stepText σ c).toList = true := by
  cases c <;> simp [stepText, PCall.writes, toList_cat, kw, cat, startsWithWord]

/-! ### one step line per emitted instruction, same kind, same order -/

/-- the decorated call that a call of the tracker model is.  The model's `Call` carries neither the text of a symbol
name (`symName`) nor the `id` strings of `save` / `load` (`saveId`, `loadId`); `memIdx` = `self.memory.index(term)`.
The two phase changes are not decorated (`Gen.PyPretty.undecorated`): `IOInterpreter` switches the output file. -/
def pcallOf (symName : Nat → String) (saveId loadId : String) (memIdx : Nat) : Call → Option PCall
  | .evar x => some (.evar x)
  | .svar x => some (.svar x)
  | .symbol nm => some (.symbol (symName nm))
  | .metavar id ef sf ps ns hs => some (.metavar id ef sf ps ns hs)
  | .implies => some .implies
  | .app => some .app
  | .ex x => some (.«exists» x)
  | .mu x => some (.mu x)
  | .esubst x => some (.esubst x)
  | .ssubst x => some (.ssubst x)
  | .prop1 => some .prop1
  | .prop2 => some .prop2
  | .prop3 => some .prop3
  | .quantifier => some .exists_quantifier
  | .mp => some .modus_ponens
  | .gen x => some (.exists_generalization x)
  | .instantiate keys => some (.instantiate keys)
  | .instantiatePattern keys => some (.instantiate_pattern keys)
  | .pop => some .pop
  | .save => some (.save saveId)
  | .load _ => some (.load loadId memIdx)
  | .publishProof => some .publish_proof
  | .publishAxiom => some .publish_axiom
  | .publishClaim => some .publish_claim
  | .intoClaim => none
  | .intoProof => none

/-- the name of an instruction in `instruction.py`; the pretty printer has one keyword, `MetaVar`, for both
`MetaVar` and its short form `CleanMetaVar` -/
def instrName : Instr → String
  | .evar _ => "EVar" | .svar _ => "SVar" | .sym _ => "Symbol" | .implies => "Implies" | .app => "App"
  | .ex _ => "Exists" | .mu _ => "Mu" | .metavar .. => "MetaVar" | .cleanmv _ => "MetaVar"
  | .esubst _ => "ESubst" | .ssubst _ => "SSubst" | .prop1 => "Prop1" | .prop2 => "Prop2" | .prop3 => "Prop3"
  | .quantifier => "Quantifier" | .existence => "Existence" | .mp => "ModusPonens" | .gen _ => "Generalization"
  | .subst _ => "Substitution" | .instantiate _ => "Instantiate" | .pop => "Pop" | .save => "Save" | .load _ => "Load"
  | .publish => "Publish"

/-- the method of the tracker each call of the model is (`InterpTie.pyCall` dispatches to the translated method of
this name) -/
def methodOfCall : Call → String
  | .evar _ => "evar" | .svar _ => "svar" | .symbol _ => "symbol" | .metavar .. => "metavar" | .implies => "implies"
  | .app => "app" | .ex _ => "exists" | .mu _ => "mu" | .esubst _ => "esubst" | .ssubst _ => "ssubst"
  | .prop1 => "prop1" | .prop2 => "prop2" | .prop3 => "prop3" | .quantifier => "exists_quantifier"
  | .mp => "modus_ponens" | .gen _ => "exists_generalization" | .instantiate _ => "instantiate"
  | .instantiatePattern _ => "instantiate_pattern" | .pop => "pop" | .save => "save" | .load _ => "load"
  | .publishProof => "publish_proof" | .publishAxiom => "publish_axiom" | .publishClaim => "publish_claim"
  | .intoClaim => "into_claim_phase" | .intoProof => "into_proof_phase"

/-- the wrapper as written: first the super method of the same name (on the same arguments), then what the decorated
function writes, then exactly one newline, then the stack dump iff `print_stack` -/
theorem events_shape (σ : Nat → String) (c : PCall) :
    c.events σ = [Ev.super_ c.method] ++ (c.writes σ).map Ev.out ++ [Ev.out "\n"] ++
      (if c.printStack then [Ev.printStack] else []) := by
  simp [PCall.events, wrapper]

/-- the super method the wrapper calls is the tracker method of the call; undecorated calls are exactly the phase changes -/
theorem wrapper_super (symName : Nat → String) (saveId loadId : String) (memIdx : Nat) (c : Call) :
    (match pcallOf symName saveId loadId memIdx c with
     | some pc => pc.method = methodOfCall c
     | none => methodOfCall c ∈ undecorated) := by
  cases c <;> simp [pcallOf, PCall.method, methodOfCall, undecorated]

/-- which decorated calls dump the stack: all but `save` and the three `publish_*` -/
theorem stack_dump_table (c : PCall) :
    c.printStack = (c.method != "save" && c.method != "publish_proof" && c.method != "publish_axiom" &&
      c.method != "publish_claim") := by
  cases c <;> simp [PCall.printStack, PCall.method, printStackDefault]

/-- **pretty steps ↔ emitted instructions** (model serializer `emit1`): for every call of the tracker model, the
keywords of the step lines the pretty-printing interpreter writes for it are the names of the instructions the
serializer emits for it — one line per instruction, in order, of the same kind (`MetaVar` for `CleanMetaVar`);
the two phase changes write neither. -/
theorem steps_match_emitted (n : Nat) (s : PySt) (c : Call) (is : List Instr) (h : PySt.emit1 n s c = some (some is))
    (σ symName : Nat → String) (saveId loadId : String) (memIdx : Nat) :
    (pcallOf symName saveId loadId memIdx c).toList.map (fun pc => keywordOf (stepText σ pc).toList) =
      is.map (fun i => some (instrName i)) := by
  cases c with
  | load t =>
    simp only [PySt.emit1, Option.bind_eq_bind, Option.bind_eq_some_iff] at h
    obtain ⟨r, hr, h⟩ := h
    cases r with
    | none => simp at h
    | some i =>
      simp only [Option.pure_def, Option.some.injEq] at h
      subst h
      simp [pcallOf, step_keyword, kw, instrName]
  | metavar id ef sf ps ns hs =>
    simp only [PySt.emit1] at h
    split at h <;> simp only [Option.some.injEq] at h <;> subst h <;> simp [pcallOf, step_keyword, kw, instrName]
  | _ =>
    simp only [PySt.emit1, Option.some.injEq] at h
    subst h
    simp [pcallOf, step_keyword, kw, instrName]

/-- the opcode that belongs to a step line: the instruction named by its keyword; a `MetaVar` line whose five
constraint lists are all empty stands for the short form `CleanMetaVar` -/
def stepOpcode : PCall → Nat
  | .metavar _ ef sf ps ns hs =>
      if ef.isEmpty && sf.isEmpty && ps.isEmpty && ns.isEmpty && hs.isEmpty then Gen.Ser.opc "CleanMetaVar"
      else Gen.Ser.opc "MetaVar"
  | pc => Gen.Ser.opc (kw pc)

/-- **pretty steps ↔ the bytes of the translated serializer** (`Gen.Ser.w_*`, regenerated from
`serializing_interpreter.py`): for every call of the tracker model, the serializer writes no byte iff the call is
undecorated, and otherwise its first byte — the opcode of the one instruction it writes (`SerTie.emit_is_serializer`)
— is the opcode named by the keyword of the step line the pretty printer writes for the same call -/
theorem steps_match_serializer (s : PySt) (c : Call) (symName : Nat → String) (saveId loadId : String) (memIdx : Nat) :
    (SerTie.bytesOfCall s memIdx c).head? = (pcallOf symName saveId loadId memIdx c).map stepOpcode := by
  cases c with
  | metavar id ef sf ps ns hs =>
    obtain ⟨_, _, _, _, _, _, _, h9, _, _, _, _, _, _, _, _, _, _, _, _, _, h137⟩ := SerTie.opc_values
    simp only [SerTie.bytesOfCall, SerTie.metavar_bytes, pcallOf, Option.map_some, stepOpcode]
    split <;> simp [encode1, h9, h137]
  | _ =>
    simp [SerTie.bytesOfCall, pcallOf, stepOpcode, kw, Gen.Ser.w_evar, Gen.Ser.w_svar, Gen.Ser.w_symbol, Gen.Ser.w_implies,
      Gen.Ser.w_app, Gen.Ser.w_exists, Gen.Ser.w_mu, Gen.Ser.w_esubst, Gen.Ser.w_ssubst, Gen.Ser.w_prop1, Gen.Ser.w_prop2,
      Gen.Ser.w_prop3, Gen.Ser.w_exists_quantifier, Gen.Ser.w_modus_ponens, Gen.Ser.w_exists_generalization,
      Gen.Ser.w_instantiate, Gen.Ser.w_instantiate_pattern, Gen.Ser.w_pop, Gen.Ser.w_save, Gen.Ser.w_load,
      Gen.Ser.w_publish_proof, Gen.Ser.w_publish_axiom, Gen.Ser.w_publish_claim]

/-- the exact table keyword ↦ opcode -/
theorem keyword_opcode_table :
    KW.map Gen.Ser.opc = [2, 3, 4, 9, 5, 6, 8, 7, 10, 11, 12, 13, 14, 21, 15, 22, 26, 27, 28, 29, 30] ∧
    Gen.Ser.opc "CleanMetaVar" = 137 := by decide

/-! ### exactly one step line per call -/

/-- `text.split('\n')` -/
def lines : List Char → List (List Char)
  | [] => [[]]
  | c :: r =>
      if c = '\n' then [] :: lines r
      else match lines r with
        | l :: ls => (c :: l) :: ls
        | [] => [[c]]

/-- a step line: not empty, not indented, starts with a keyword (the reader of `vlib/props/c19.py`) -/
def stepOfLine : List Char → Option String
  | [] => none
  | c :: r => if c = '\t' || c = ' ' then none else keywordOf (c :: r)

/-- the steps a pretty-printed file lists -/
def stepsOfText (t : List Char) : List String := (lines t).filterMap stepOfLine

theorem lines_ne_nil (t : List Char) : lines t ≠ [] := by
  cases t with
  | nil => simp [lines]
  | cons c r =>
    simp only [lines]
    split
    · simp
    · split <;> simp

theorem lines_no_nl (a : List Char) (h : '\n' ∉ a) : lines a = [a] := by
  induction a with
  | nil => rfl
  | cons c r ih =>
    simp only [List.mem_cons, not_or] at h
    have hc : ¬ c = '\n' := fun e => h.1 e.symm
    simp [lines, hc, ih h.2]

theorem lines_append_nl (a b : List Char) (h : '\n' ∉ a) : lines (a ++ '\n' :: b) = a :: lines b := by
  induction a with
  | nil => simp [lines]
  | cons c r ih =>
    simp only [List.mem_cons, not_or] at h
    have hc : ¬ c = '\n' := fun e => h.1 e.symm
    simp [lines, hc, ih h.2]

theorem steps_append_nl (a b : List Char) (h : '\n' ∉ a) :
    stepsOfText (a ++ '\n' :: b) = (stepOfLine a).toList ++ stepsOfText b := by
  simp only [stepsOfText, lines_append_nl a b h, List.filterMap_cons]
  cases stepOfLine a <;> simp

theorem steps_nl : stepsOfText ['\n'] = [] := by
  simp [stepsOfText, lines, stepOfLine]

/-- a segment of text that starts no step: nothing, or one complete line that is not a step line -/
def Quiet (w : List Char) : Prop := w = [] ∨ ∃ b, w = b ++ ['\n'] ∧ '\n' ∉ b ∧ stepOfLine b = none

/-- quiet segments followed by the wrapper's newline list no step … -/
theorem steps_quiet (ws : List (List Char)) (h : ∀ w ∈ ws, Quiet w) : stepsOfText (ws.flatten ++ ['\n']) = [] := by
  induction ws with
  | nil => simpa using steps_nl
  | cons w r ih =>
    have hr := ih (fun x hx => h x (List.mem_cons_of_mem _ hx))
    rcases h w (List.mem_cons_self ..) with rfl | ⟨b, rfl, hb, hs⟩
    · simpa using hr
    · simp only [List.flatten_cons, List.append_assoc, List.cons_append, List.nil_append]
      rw [steps_append_nl b _ hb, hs]
      simpa using hr

/-- … and after a line prefix `a` whose keyword is `k` whatever follows on the line, exactly the step `k` -/
theorem steps_after_prefix (a : List Char) (k : String) (ha : '\n' ∉ a) (hk : ∀ x, stepOfLine (a ++ x) = some k)
    (ws : List (List Char)) (h : ∀ w ∈ ws, Quiet w) : stepsOfText (a ++ ws.flatten ++ ['\n']) = [k] := by
  induction ws with
  | nil =>
    simp only [List.flatten_nil, List.append_nil]
    rw [steps_append_nl a [] ha]
    have := hk []
    simp only [List.append_nil] at this
    rw [this]
    simp [stepsOfText, lines, stepOfLine]
  | cons w r ih =>
    have hr := ih (fun x hx => h x (List.mem_cons_of_mem _ hx))
    rcases h w (List.mem_cons_self ..) with rfl | ⟨b, rfl, hb, hs⟩
    · simpa using hr
    · have hab : '\n' ∉ a ++ b := by simp [ha, hb]
      have : a ++ ((b ++ ['\n']) :: r).flatten ++ ['\n'] = (a ++ b) ++ '\n' :: (r.flatten ++ ['\n']) := by simp
      rw [this, steps_append_nl _ _ hab, hk b, steps_quiet r (fun x hx => h x (List.mem_cons_of_mem _ hx))]
      rfl

theorem KW_heads : ∀ k ∈ KW, (match k.toList with | c :: _ => c != '\t' && c != ' ' | [] => false) = true := by decide

theorem stepOfLine_kw (k : String) (hk : k ∈ KW) (x : List Char) : stepOfLine (k.toList ++ x) = some k := by
  have h := KW_heads k hk
  have h2 := keywordOf_kw k hk x
  cases hl : k.toList with
  | nil => simp [hl] at h
  | cons c r =>
    simp only [hl, Bool.and_eq_true, bne_iff_ne, ne_eq] at h
    simp only [hl, List.cons_append] at h2
    simp [stepOfLine, h.1, h.2, h2]

theorem keywordOf_none (line : List Char) (h : ∀ k ∈ KW, k.toList.isPrefixOf line = false) : keywordOf line = none := by
  have : ∀ (L : List String), (∀ k ∈ L, k.toList.isPrefixOf line = false) →
      L.foldl (fun best kw => if kw.toList.isPrefixOf line && best.length < kw.length then kw else best) "" = "" := by
    intro L
    induction L with
    | nil => intro _; rfl
    | cons a r ih =>
      intro hL
      simp only [List.foldl_cons, hL a (List.mem_cons_self ..), Bool.false_and, Bool.false_eq_true, if_false]
      exact ih (fun k hk => hL k (List.mem_cons_of_mem _ hk))
  unfold keywordOf
  simp only [this KW h, if_true]

/-- the names `write_list` prints the constraint lists under -/
def listNames : List String := ["eFresh", "sFresh", "pos", "neg", "appctx"]

theorem listNames_diverge : ∀ nm ∈ listNames, ∀ k ∈ KW, diverge k.toList nm.toList = true := by decide
theorem listNames_heads : ∀ nm ∈ listNames,
    (match nm.toList with | c :: _ => c != '\t' && c != ' ' && c != '\n' | [] => false) = true := by decide
theorem listNames_nl : ∀ nm ∈ listNames, ('\n' ∈ nm.toList) = False := by decide

/-- a line that starts with the name of a constraint list is not a step line -/
theorem stepOfLine_listName (nm : String) (hn : nm ∈ listNames) (x : List Char) : stepOfLine (nm.toList ++ x) = none := by
  have hk : keywordOf (nm.toList ++ x) = none :=
    keywordOf_none _ (fun k hk => diverge_not_prefix _ _ (listNames_diverge nm hn k hk) x)
  have h := listNames_heads nm hn
  cases hl : nm.toList with
  | nil => simp [hl] at h
  | cons c r =>
    simp only [hl, List.cons_append] at hk
    simp [stepOfLine, hk]

theorem nl_strNat (n : Nat) : '\n' ∉ (strNat n).toList := by
  intro h
  simp only [strNat, toString, Nat.toList_repr] at h
  have := Nat.isDigit_of_mem_toDigits (by decide) (by decide) h
  simp [Char.isDigit] at this

theorem nl_strJoin (l : List Nat) : '\n' ∉ (strJoin ", " (l.map strNat)).toList := by
  induction l with
  | nil => simp [strJoin]
  | cons a r ih =>
    cases r with
    | nil => simpa [strJoin] using nl_strNat a
    | cons b r' =>
      simp only [List.map_cons, strJoin, String.toList_append, List.mem_append, not_or]
      simp only [List.map_cons] at ih
      exact ⟨⟨nl_strNat a, by decide⟩, ih⟩

/-- the strings of a call that are not under the pretty printer's control contain no newline: the symbol name, the
`id` of `load` -/
def Clean : PCall → Prop
  | .symbol name => '\n' ∉ name.toList
  | .load id _ => '\n' ∉ id.toList
  | _ => True

theorem one_line (σ : Nat → String) (c : PCall) (hnl : '\n' ∉ (stepText σ c).toList) :
    stepsOfText ((stepText σ c).toList ++ ['\n']) = [kw c] := by
  obtain ⟨rest, h⟩ := List.isPrefixOf_iff_prefix.mp (stepText_prefix σ c)
  have hk : ∀ x, stepOfLine ((stepText σ c).toList ++ x) = some (kw c) := by
    intro x
    rw [← h, List.append_assoc]
    exact stepOfLine_kw _ (kw_mem c) _
  simpa using steps_after_prefix _ _ hnl hk [] (by simp)

theorem items_toList (strItem : Nat → String) (lst : List Nat) :
    List.flatMap String.toList (List.flatMap (fun c_item => [strItem c_item, " "]) lst) =
      List.flatMap (fun c_item => (strItem c_item).toList ++ [' ']) lst := by
  induction lst with
  | nil => rfl
  | cons a r ih => simp [List.flatMap_cons, ih]

theorem write_list_quiet (strItem : Nat → String) (nm : String) (hn : nm ∈ listNames) (lst : List Nat)
    (hitem : ∀ i, '\n' ∉ (strItem i).toList) : Quiet (cat (metavar_write_list strItem nm lst)).toList := by
  unfold metavar_write_list
  by_cases hl : lst.length = 0
  · left; simp [hl, cat]
  · right
    have hnm : '\n' ∉ nm.toList := by
      have := listNames_nl nm hn
      simpa using this
    have hitems : '\n' ∉ List.flatMap (fun c_item => (strItem c_item).toList ++ [' ']) lst := by
      simp only [List.mem_flatMap, List.mem_append, not_exists, not_and, not_or]
      intro i _
      exact ⟨hitem i, by decide⟩
    refine ⟨nm.toList ++ (", len=".toList ++ ((strNat lst.length).toList ++ (' ' :: List.flatMap (fun c_item => (strItem c_item).toList ++ [' ']) lst))), ?_, ?_, ?_⟩
    · have : (lst.length == 0) = false := by simp [hl]
      simp [this, toList_cat, cat, List.flatMap_append, items_toList]
    · simp only [List.mem_append, List.mem_cons, not_or]
      exact ⟨hnm, by decide, nl_strNat _, by decide, hitems⟩
    · exact stepOfLine_listName nm hn _

theorem nl_EVar_str (σ : Nat → String) (i : Nat) : '\n' ∉ (EVar_str σ i).toList := by
  simp only [EVar_str, EVar_pretty, toList_cat, List.flatMap_cons, List.flatMap_nil, List.append_nil, List.mem_append, not_or]
  exact ⟨by decide, nl_strNat i⟩
theorem nl_SVar_str (σ : Nat → String) (i : Nat) : '\n' ∉ (SVar_str σ i).toList := by
  simp only [SVar_str, SVar_pretty, toList_cat, List.flatMap_cons, List.flatMap_nil, List.append_nil, List.mem_append, not_or]
  exact ⟨by decide, nl_strNat i⟩

/-- **exactly one step line per call**: the text a decorated function writes, closed by the wrapper's newline, reads
as exactly one step — the method's keyword — for every method and all arguments whose free strings (symbol name,
`load` id) contain no newline.  (`metavar` with constraints writes further, unindented lines — one per non-empty
list, and then an empty one; none of them starts with a keyword.) -/
theorem one_step_line_per_call (σ : Nat → String) (c : PCall) (hc : Clean c) :
    stepsOfText ((stepText σ c).toList ++ ['\n']) = [kw c] := by
  cases c with
  | metavar id ef sf ps ns hs =>
    have hk : ∀ x, stepOfLine (("MetaVar ".toList ++ (strNat id).toList) ++ x) = some "MetaVar" := by
      intro x
      have := stepOfLine_kw "MetaVar" (by decide) (' ' :: ((strNat id).toList ++ x))
      simpa using this
    have hnl : '\n' ∉ "MetaVar ".toList ++ (strNat id).toList := by
      simp only [List.mem_append, not_or]; exact ⟨by decide, nl_strNat id⟩
    have := steps_after_prefix _ _ hnl hk
      [(cat (metavar_write_list (EVar_str σ) "eFresh" ef)).toList, (cat (metavar_write_list (SVar_str σ) "sFresh" sf)).toList,
       (cat (metavar_write_list (SVar_str σ) "pos" ps)).toList, (cat (metavar_write_list (SVar_str σ) "neg" ns)).toList,
       (cat (metavar_write_list (EVar_str σ) "appctx" hs)).toList]
      (by
        intro w hw
        simp only [List.mem_cons, List.not_mem_nil, or_false] at hw
        rcases hw with rfl | rfl | rfl | rfl | rfl
        · exact write_list_quiet _ _ (by decide) _ (nl_EVar_str σ)
        · exact write_list_quiet _ _ (by decide) _ (nl_SVar_str σ)
        · exact write_list_quiet _ _ (by decide) _ (nl_SVar_str σ)
        · exact write_list_quiet _ _ (by decide) _ (nl_SVar_str σ)
        · exact write_list_quiet _ _ (by decide) _ (nl_EVar_str σ))
    simpa [stepText, PCall.writes, toList_cat, kw, List.flatMap_append] using this
  | symbol name =>
    apply one_line
    simp only [Clean] at hc
    simp [stepText, PCall.writes, toList_cat, hc]
  | load id mi =>
    apply one_line
    simp only [Clean] at hc
    simp [stepText, PCall.writes, toList_cat, hc, nl_strNat]
  | _ =>
    apply one_line
    simp [stepText, PCall.writes, cat, nl_strNat, nl_strJoin]

/-! ### the whole file: the steps read back are the calls, in order -/

theorem lines_append_nl_gen (x y : List Char) : lines (x ++ '\n' :: y) = lines x ++ lines y := by
  induction x with
  | nil => simp [lines]
  | cons c r ih =>
    by_cases hc : c = '\n'
    · simp [lines, hc, ih]
    · simp only [List.cons_append, lines, hc, if_false, ih]
      cases hl : lines r with
      | nil => exact absurd hl (lines_ne_nil r)
      | cons l ls => simp

theorem steps_append (x y : List Char) : stepsOfText (x ++ '\n' :: y) = stepsOfText (x ++ ['\n']) ++ stepsOfText y := by
  simp only [stepsOfText, lines_append_nl_gen, List.filterMap_append]
  simp [lines, stepOfLine]

/-- a complete line that is not a step line -/
def QuietLine (w : List Char) : Prop := ∃ b, w = b ++ ['\n'] ∧ '\n' ∉ b ∧ stepOfLine b = none

theorem steps_quiet_lines (ws : List (List Char)) (h : ∀ w ∈ ws, QuietLine w) (y : List Char) :
    stepsOfText (ws.flatten ++ y) = stepsOfText y := by
  induction ws with
  | nil => simp
  | cons w r ih =>
    obtain ⟨b, rfl, hb, hs⟩ := h w (List.mem_cons_self ..)
    have : ((b ++ ['\n']) :: r).flatten ++ y = b ++ '\n' :: (r.flatten ++ y) := by simp
    rw [this, steps_append_nl b _ hb, hs, ih (fun x hx => h x (List.mem_cons_of_mem _ hx))]
    rfl

/-- the text one decorated call appends to the file (`events_shape`): what the function writes, the newline, and —
iff `print_stack` — the strings `dump` that `print_stack()` writes -/
def callText (σ : Nat → String) (c : PCall) (dump : List String) : List Char :=
  (stepText σ c).toList ++ '\n' :: (if c.printStack then (dump.map String.toList).flatten else [])

/-- **the pretty file lists the calls**: a file made of the texts of decorated calls whose free strings contain no
newline and whose stack dumps consist of complete non-step lines (`print_stack_quiet`) reads back as exactly the
keywords of the calls, one per call, in order -/
theorem file_steps (σ : Nat → String) (cs : List (PCall × List String)) (hclean : ∀ c ∈ cs, Clean c.1)
    (hdump : ∀ c ∈ cs, ∀ s ∈ c.2, QuietLine s.toList) :
    stepsOfText (cs.map fun c => callText σ c.1 c.2).flatten = cs.map fun c => kw c.1 := by
  induction cs with
  | nil => simp [stepsOfText, lines, stepOfLine]
  | cons c r ih =>
    have hr := ih (fun x hx => hclean x (List.mem_cons_of_mem _ hx)) (fun x hx => hdump x (List.mem_cons_of_mem _ hx))
    have h1 := one_step_line_per_call σ c.1 (hclean c (List.mem_cons_self ..))
    have hc : callText σ c.1 c.2 = (stepText σ c.1).toList ++
        '\n' :: (if c.1.printStack then (c.2.map String.toList).flatten else []) := rfl
    rw [List.map_cons, List.flatten_cons, hc, List.append_assoc, List.cons_append, steps_append, h1]
    by_cases hp : c.1.printStack
    · simp only [hp, if_true]
      rw [steps_quiet_lines _ (by
        intro w hw
        obtain ⟨s, hs, rfl⟩ := List.mem_map.mp hw
        exact hdump c (List.mem_cons_self ..) s hs), hr]
      rfl
    · simp only [hp, Bool.false_eq_true, if_false, List.nil_append]
      rw [hr]
      rfl

/-! ### the stack dump is indented -/

/-- the body of the loop of `print_stack`, as generated -/
def dumpBody (σ : Nat → String) (n : Nat) (opts : PrettyOptions) (out : List String) (c_i : Nat) (item : TTerm) :
    Py (List String) :=
  match item with
  | .proved conclusion =>
    call (pretty σ n conclusion opts) fun t1 => ret (out ++ [cat ["\t", strNat c_i, ": ⊢ ", t1, "\n"]])
  | .pat item =>
    call (pretty σ n item opts) fun t2 => ret (out ++ [cat ["\t", strNat c_i, ": ", t2, "\n"]])

theorem print_stack_def (σ : Nat → String) (n : Nat) (stack : List TTerm) (opts : PrettyOptions) :
    print_stack σ n stack opts = call (forEnum stack 0 ["\tStack:\n"] (dumpBody σ n opts)) fun out => ret out := rfl

theorem quiet_dump_line (i : Nat) (mid t : String) (hm : '\n' ∉ mid.toList) (ht : '\n' ∉ t.toList) :
    QuietLine (cat ["\t", strNat i, mid, t, "\n"]).toList := by
  refine ⟨'\t' :: ((strNat i).toList ++ (mid.toList ++ t.toList)), ?_, ?_, ?_⟩
  · simp [toList_cat]
  · simp only [List.mem_cons, List.mem_append, not_or]
    exact ⟨by decide, nl_strNat i, hm, ht⟩
  · simp [stepOfLine]

theorem forEnum_dump (σ : Nat → String) (n : Nat) (opts : PrettyOptions) :
    ∀ (stack : List TTerm) (i0 : Nat) (acc out : List String),
      forEnum stack i0 acc (dumpBody σ n opts) = some (some out) →
      (∀ item ∈ stack, ∀ t, pretty σ n item.body opts = some (some t) → '\n' ∉ t.toList) →
      ∃ ls, out = acc ++ ls ∧ ls.length = stack.length ∧ ∀ s ∈ ls, QuietLine s.toList := by
  intro stack
  induction stack with
  | nil =>
    intro i0 acc out h _
    simp only [forEnum, ret, Option.some.injEq] at h
    exact ⟨[], by simp [h], rfl, by simp⟩
  | cons item r ih =>
    intro i0 acc out h hnl
    simp only [forEnum] at h
    have hitem := hnl item (List.mem_cons_self ..)
    have hrest := fun x hx => hnl x (List.mem_cons_of_mem _ hx)
    cases item with
    | proved c =>
      simp only [dumpBody, TTerm.body] at h hitem
      rcases hp : pretty σ n c opts with _ | _ | t
      · simp [hp, call] at h
      · simp [hp, call] at h
      · simp only [hp, call, ret] at h
        obtain ⟨ls, rfl, hlen, hq⟩ := ih (i0 + 1) _ out h hrest
        refine ⟨cat ["\t", strNat i0, ": ⊢ ", t, "\n"] :: ls, by simp, by simp [hlen], ?_⟩
        intro s hs
        rcases List.mem_cons.mp hs with rfl | hs
        · exact quiet_dump_line i0 ": ⊢ " t (by decide) (hitem t hp)
        · exact hq s hs
    | pat c =>
      simp only [dumpBody, TTerm.body] at h hitem
      rcases hp : pretty σ n c opts with _ | _ | t
      · simp [hp, call] at h
      · simp [hp, call] at h
      · simp only [hp, call, ret] at h
        obtain ⟨ls, rfl, hlen, hq⟩ := ih (i0 + 1) _ out h hrest
        refine ⟨cat ["\t", strNat i0, ": ", t, "\n"] :: ls, by simp, by simp [hlen], ?_⟩
        intro s hs
        rcases List.mem_cons.mp hs with rfl | hs
        · exact quiet_dump_line i0 ": " t (by decide) (hitem t hp)
        · exact hq s hs

/-- **the stack dump**: `print_stack` writes the header and one string per stack entry (bottom first); if the
renderings of the entries contain no newline, every string is one complete indented line — none is read as a step -/
theorem print_stack_quiet (σ : Nat → String) (n : Nat) (stack : List TTerm) (opts : PrettyOptions) (out : List String)
    (h : print_stack σ n stack opts = some (some out))
    (hnl : ∀ item ∈ stack, ∀ t, pretty σ n item.body opts = some (some t) → '\n' ∉ t.toList) :
    out.length = stack.length + 1 ∧ ∀ s ∈ out, QuietLine s.toList := by
  rw [print_stack_def, call_id] at h
  obtain ⟨ls, rfl, hlen, hq⟩ := forEnum_dump σ n opts stack 0 _ out h hnl
  refine ⟨by simp [hlen], ?_⟩
  intro s hs
  rcases List.mem_append.mp hs with hs | hs
  · simp only [List.mem_cons, List.not_mem_nil, or_false] at hs
    subst hs
    exact ⟨"\tStack:".toList, by decide, by decide, by simp [stepOfLine]⟩
  · exact hq s hs

end PrettyTie
