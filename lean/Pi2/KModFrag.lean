import Pi2.KModRun
/-!
# The fragment of K execution modules

* `==` of a pattern headed by `∃` (after simplification), or of `(∃ … ) → …`, against a pattern of the propositional
  fragment is never `True` (`noEx`, `impEx`): the functional assumptions and the imported axiom of `Substitution`
  are never mistaken for a rewrite rule by `load_axiom`;
* `functional(v)` for a closed `v` of the fragment is machine-OK: the only constrained metavariable, `phi0` with
  `x0` fresh inside the definition of `functional`, receives a plug in which `x0` is fresh;
* instantiating a pattern of the fragment stays in the fragment (`instF_PF`);
* conversions of Kore terms are in the fragment, conversions of ground terms are closed (`conv_PF`,
  `conv_ground_closed`);
* what `traceF` builds (`trace_inv`).
-/
set_option linter.unusedSimpArgs false
set_option linter.unusedVariables false
open Pat PySt

namespace KMod
open NPat

/-! ## `==` against the fragment -/

/-- `b` is well shaped and expands into the propositional fragment -/
def SPF (b : NPat) : Prop := b.Shape = true ∧ b.expand.PFS = true

theorem SPF.of_PF {b : NPat} (h : b.PF = true) : SPF b := ⟨PF.shape b h, PF.pfs b h⟩

theorem SPF.simp {n : Nat} {p : NPat} {m : List (Nat × NPat)} {s : NPat} (h : SPF (.inst p m))
    (hs : NPat.instF n m p = some s) : SPF s := by
  obtain ⟨h1, h2⟩ := h
  simp only [NPat.Shape, Bool.and_eq_true] at h1
  obtain ⟨e, sh⟩ := NPat.instF_expand n m p s h1.1 h1.2 hs
  refine ⟨sh, ?_⟩
  rw [e]
  simpa [NPat.expand] using h2

theorem noEx (n : Nat) : ∀ (b : NPat), SPF b → ∀ (x : VId) (y : NPat) (r : Bool),
    (NPat.peqF n b (.ex x y) = some r → r = false) ∧ (NPat.peqF n (.ex x y) b = some r → r = false) := by
  induction n with
  | zero => intro b _ x y r; simp [NPat.peqF]
  | succ n ih =>
    intro b hb x y r
    cases b with
    | inst p m =>
      constructor
      · intro h
        simp only [NPat.peqF, Option.bind_eq_bind, Option.bind_eq_some_iff] at h
        obtain ⟨s, hs, h⟩ := h
        exact (ih s (hb.simp hs) x y r).1 h
      · intro h
        simp only [NPat.peqF, Option.bind_eq_bind, Option.bind_eq_some_iff] at h
        obtain ⟨s, hs, h⟩ := h
        exact (ih s (hb.simp hs) x y r).1 h
    | ex x' q => exact absurd hb.2 (by simp [NPat.expand, Pat.PFS])
    | evar _ => constructor <;> (intro h; simp [NPat.peqF] at h; exact h)
    | svar _ => constructor <;> (intro h; simp [NPat.peqF] at h; exact h)
    | sym _ => constructor <;> (intro h; simp [NPat.peqF] at h; exact h)
    | imp _ _ => constructor <;> (intro h; simp [NPat.peqF] at h; exact h)
    | app _ _ => constructor <;> (intro h; simp [NPat.peqF] at h; exact h)
    | mu _ _ => constructor <;> (intro h; simp [NPat.peqF] at h; exact h)
    | mv _ _ _ _ _ _ => constructor <;> (intro h; simp [NPat.peqF] at h; exact h)
    | esub _ _ _ => constructor <;> (intro h; simp [NPat.peqF] at h; exact h)
    | ssub _ _ _ => constructor <;> (intro h; simp [NPat.peqF] at h; exact h)

theorem SPF.imp_left {l r : NPat} (h : SPF (.imp l r)) : SPF l := by
  obtain ⟨h1, h2⟩ := h
  simp only [NPat.Shape, NPat.expand, Pat.PFS, Bool.and_eq_true] at h1 h2
  exact ⟨h1.1, h2.1⟩

theorem impEx (n : Nat) : ∀ (b : NPat), SPF b → ∀ (x : VId) (y R : NPat) (r : Bool),
    (NPat.peqF n b (.imp (.ex x y) R) = some r → r = false) ∧
    (NPat.peqF n (.imp (.ex x y) R) b = some r → r = false) := by
  induction n with
  | zero => intro b _ x y R r; simp [NPat.peqF]
  | succ n ih =>
    intro b hb x y R r
    cases b with
    | inst p m =>
      constructor
      · intro h
        simp only [NPat.peqF, Option.bind_eq_bind, Option.bind_eq_some_iff] at h
        obtain ⟨s, hs, h⟩ := h
        exact (ih s (hb.simp hs) x y R r).1 h
      · intro h
        simp only [NPat.peqF, Option.bind_eq_bind, Option.bind_eq_some_iff] at h
        obtain ⟨s, hs, h⟩ := h
        exact (ih s (hb.simp hs) x y R r).1 h
    | imp l r' =>
      constructor
      · intro h
        simp only [NPat.peqF, Option.bind_eq_bind, Option.bind_eq_some_iff] at h
        obtain ⟨a, ha, h⟩ := h
        have := (noEx n l hb.imp_left x y a).1 ha
        subst this
        simpa using h.symm
      · intro h
        simp only [NPat.peqF, Option.bind_eq_bind, Option.bind_eq_some_iff] at h
        obtain ⟨a, ha, h⟩ := h
        have := (noEx n l hb.imp_left x y a).2 ha
        subst this
        simpa using h.symm
    | ex _ _ => constructor <;> (intro h; simp [NPat.peqF] at h; exact h)
    | evar _ => constructor <;> (intro h; simp [NPat.peqF] at h; exact h)
    | svar _ => constructor <;> (intro h; simp [NPat.peqF] at h; exact h)
    | sym _ => constructor <;> (intro h; simp [NPat.peqF] at h; exact h)
    | app _ _ => constructor <;> (intro h; simp [NPat.peqF] at h; exact h)
    | mu _ _ => constructor <;> (intro h; simp [NPat.peqF] at h; exact h)
    | mv _ _ _ _ _ _ => constructor <;> (intro h; simp [NPat.peqF] at h; exact h)
    | esub _ _ _ => constructor <;> (intro h; simp [NPat.peqF] at h; exact h)
    | ssub _ _ _ => constructor <;> (intro h; simp [NPat.peqF] at h; exact h)

/-- an axiom `(∃ x . …) → …` is never `==` to a pattern of the fragment -/
theorem peqOK_impEx (x : VId) (y R : NPat) : PeqOK (.imp (.ex x y) R) := by
  intro n b hb h
  have := (impEx n b (SPF.of_PF hb) x y R true).2 h
  cases this

/-- instantiating an `∃` gives an `∃` -/
theorem instF_ex {n : Nat} {δ : List (Nat × NPat)} {x : VId} {q s : NPat}
    (h : NPat.instF n δ (.ex x q) = some s) : ∃ q', s = .ex x q' := by
  cases n with
  | zero => simp [NPat.instF] at h
  | succ n =>
    simp only [NPat.instF] at h
    split at h
    · simp only [Option.some.injEq] at h; exact ⟨q, h.symm⟩
    · simp only [Option.bind_eq_bind, Option.bind_eq_some_iff, Option.pure_def, Option.some.injEq] at h
      obtain ⟨q', _, rfl⟩ := h
      exact ⟨q', rfl⟩

/-- a notation node over an `∃` is never `==` to a pattern of the fragment -/
theorem peqOK_instEx (x : VId) (q : NPat) (m : List (Nat × NPat)) : PeqOK (.inst (.ex x q) m) := by
  intro n b hb h
  cases n with
  | zero => simp [NPat.peqF] at h
  | succ n =>
    simp only [NPat.peqF, Option.bind_eq_bind, Option.bind_eq_some_iff] at h
    obtain ⟨s, hs, h⟩ := h
    obtain ⟨q', rfl⟩ := instF_ex hs
    have := (noEx n b (SPF.of_PF hb) x q' true).2 h
    cases this

end KMod

namespace KMod
open NPat Kore

/-! ## `functional(v)` -/

/-- the definition of the notation `functional` (`proofs/definedness.py`), from the regenerated table -/
def fnDef : NPat :=
  ((Gen.notations.find? fun e => e.group == "definedness" && e.label == "functional").map
    (·.definition)).getD (.sym 0)

def fnBody : NPat := match fnDef with | .ex _ q => q | _ => .sym 0

theorem fnDef_eq : fnDef = .ex 0 fnBody := by rfl

theorem functionalOf_eq (p : NPat) : functionalOf p = some (.inst fnDef [(0, p)]) := by rfl

/-- no substitution nodes; a metavariable is unconstrained or constrained only by "`x0` fresh" -/
def fnLike : Pat → Bool
  | .evar _ => true | .svar _ => true | .sym _ => true
  | .imp l r => fnLike l && fnLike r
  | .app l r => fnLike l && fnLike r
  | .ex _ p => fnLike p
  | .mu _ p => fnLike p
  | .mv _ ef sf ps ns _ => sf.isEmpty && ps.isEmpty && ns.isEmpty && (ef.isEmpty || ef == [0])
  | .esub _ _ _ => false
  | .ssub _ _ _ => false

theorem fn_facts : fnDef.MOK = true ∧ fnLike fnDef.expand = true := by decide +kernel

/-- the machine accepts an instantiation of such a pattern by plugs in which `x0` is fresh -/
theorem inst_fnLike (θ : VId → Option Pat) (hθ : ∀ k v, θ k = some v → v.eFresh 0 = true) :
    ∀ q : Pat, fnLike q = true → (Pat.inst θ q).isSome = true := by
  intro q
  induction q with
  | evar _ => intro _; simp [Pat.inst]
  | svar _ => intro _; simp [Pat.inst]
  | sym _ => intro _; simp [Pat.inst]
  | imp l r ihl ihr =>
    intro h
    simp only [fnLike, Bool.and_eq_true] at h
    obtain ⟨a, ha⟩ := Option.isSome_iff_exists.mp (ihl h.1)
    obtain ⟨b, hb⟩ := Option.isSome_iff_exists.mp (ihr h.2)
    simp [Pat.inst, ha, hb]
  | app l r ihl ihr =>
    intro h
    simp only [fnLike, Bool.and_eq_true] at h
    obtain ⟨a, ha⟩ := Option.isSome_iff_exists.mp (ihl h.1)
    obtain ⟨b, hb⟩ := Option.isSome_iff_exists.mp (ihr h.2)
    simp [Pat.inst, ha, hb]
  | ex x p ih =>
    intro h
    simp only [fnLike] at h
    obtain ⟨a, ha⟩ := Option.isSome_iff_exists.mp (ih h)
    simp [Pat.inst, ha]
  | mu X p ih =>
    intro h
    simp only [fnLike] at h
    obtain ⟨a, ha⟩ := Option.isSome_iff_exists.mp (ih h)
    simp [Pat.inst, ha]
  | mv id ef sf ps ns hs =>
    intro h
    simp only [fnLike, Bool.and_eq_true, List.isEmpty_iff, Bool.or_eq_true, beq_iff_eq] at h
    obtain ⟨⟨⟨rfl, rfl⟩, rfl⟩, hef⟩ := h
    simp only [Pat.inst]
    cases hk : θ id with
    | none => rfl
    | some v =>
      rcases hef with rfl | rfl
      · simp [Pat.okPlug]
      · simp [Pat.okPlug, hθ id v hk]
  | esub _ _ _ _ _ => intro h; simp [fnLike] at h
  | ssub _ _ _ _ _ => intro h; simp [fnLike] at h

/-- **the functional assumption of a closed value is machine-OK** -/
theorem functional_MOK (v : NPat) (hv : v.PF = true) (hfr : v.expand.eFresh 0 = true) :
    (NPat.inst fnDef [(0, v)]).MOK = true := by
  have hm : fnDef.MOK = true := fn_facts.1
  simp only [MOK, MOKMap, hm, PF.mok v hv, Bool.and_self, Bool.true_and, List.map_cons, List.map_nil,
    List.nodup_cons, List.not_mem_nil, not_false_eq_true, List.nodup_nil, and_self, decide_true]
  apply inst_fnLike _ _ _ fn_facts.2
  intro k w hw
  simp only [NPat.expand.expandMap, Py.lookup] at hw
  split at hw
  · cases hw; exact hfr
  · cases hw

theorem functional_PeqOK (v : NPat) : PeqOK (NPat.inst fnDef [(0, v)]) := by
  rw [fnDef_eq]; exact peqOK_instEx 0 fnBody _

/-! ## instantiation stays in the fragment -/

theorem dedupKeys_spec : ∀ (l : List (Nat × NPat)) (seen : List Nat),
    ((dedupKeys l seen).map (·.1)).Nodup ∧ ∀ kv ∈ dedupKeys l seen, kv.1 ∉ seen := by
  intro l
  induction l with
  | nil => intro seen; simp [dedupKeys]
  | cons kv r ih =>
    intro seen
    obtain ⟨k, v⟩ := kv
    simp only [dedupKeys]
    split
    · exact ih seen
    · next hk =>
      obtain ⟨h1, h2⟩ := ih (k :: seen)
      have hk' : k ∉ seen := by simpa using hk
      refine ⟨?_, ?_⟩
      · simp only [List.map_cons, List.nodup_cons]
        refine ⟨?_, h1⟩
        intro hmem
        obtain ⟨kv', hkv', e⟩ := List.mem_map.mp hmem
        exact h2 kv' hkv' (by rw [e]; simp)
      · intro kv' hkv'
        rcases List.mem_cons.mp hkv' with rfl | hkv'
        · exact hk'
        · intro hs
          exact h2 kv' hkv' (List.mem_cons_of_mem _ hs)

theorem PFMap_append (a b : List (Nat × NPat)) : PFMap (a ++ b) = (PFMap a && PFMap b) := by
  induction a with
  | nil => simp [PFMap]
  | cons kv r ih => obtain ⟨k, v⟩ := kv; simp [PFMap, ih, Bool.and_assoc]

def InstPF (n : Nat) : Prop :=
  (∀ δ p r, p.PF = true → PFMap δ = true → NPat.instF n δ p = some r → r.PF = true) ∧
  (∀ δ m m', PFMap m = true → PFMap δ = true → NPat.mapF n δ m = some m' →
    PFMap m' = true ∧ m'.map (·.1) = m.map (·.1))

theorem instPF_step (n : Nat) (ih : InstPF n) : InstPF (n + 1) := by
  obtain ⟨ihI, ihM⟩ := ih
  constructor
  · intro δ p r hp hδ h
    cases p with
    | sym s => simp only [NPat.instF, Option.some.injEq] at h; subst h; rfl
    | mv id ef sf ps ns hs =>
      simp only [NPat.instF, Option.some.injEq] at h
      subst h
      cases hl : Py.lookup δ id with
      | none => exact hp
      | some q => exact (PFMap_iff δ).mp hδ _ (Py.lookup_mem _ _ _ hl)
    | imp l r' =>
      simp only [PF, Bool.and_eq_true] at hp
      simp only [NPat.instF] at h
      split at h
      · simp only [Option.some.injEq] at h; subst h; simp [PF, hp.1, hp.2]
      · simp only [Option.bind_eq_bind, Option.bind_eq_some_iff, Option.pure_def, Option.some.injEq] at h
        obtain ⟨a, ha, b, hb, rfl⟩ := h
        simp [PF, ihI δ l a hp.1 hδ ha, ihI δ r' b hp.2 hδ hb]
    | app l r' =>
      simp only [PF, Bool.and_eq_true] at hp
      simp only [NPat.instF] at h
      split at h
      · simp only [Option.some.injEq] at h; subst h; simp [PF, hp.1, hp.2]
      · simp only [Option.bind_eq_bind, Option.bind_eq_some_iff, Option.pure_def, Option.some.injEq] at h
        obtain ⟨a, ha, b, hb, rfl⟩ := h
        simp [PF, ihI δ l a hp.1 hδ ha, ihI δ r' b hp.2 hδ hb]
    | mu X q =>
      have hp0 := hp
      simp only [PF, Bool.and_eq_true] at hp
      have hq := isSV0_eq hp.2
      subst hq
      simp only [NPat.instF] at h
      split at h
      · simp only [Option.some.injEq] at h; subst h; exact hp0
      · simp only [Option.bind_eq_bind, Option.bind_eq_some_iff, Option.pure_def, Option.some.injEq] at h
        obtain ⟨a, ha, rfl⟩ := h
        cases n with
        | zero => simp [NPat.instF] at ha
        | succ n =>
          simp only [NPat.instF, Option.some.injEq] at ha
          subst ha
          exact hp0
    | inst q m =>
      simp only [PF, Bool.and_eq_true, decide_eq_true_eq] at hp
      obtain ⟨⟨hq, hm⟩, hnd⟩ := hp
      simp only [NPat.instF, Option.bind_eq_bind, Option.bind_eq_some_iff, Option.pure_def,
        Option.some.injEq] at h
      obtain ⟨m', hm', mvs, _, rfl⟩ := h
      obtain ⟨hpm, hkeys⟩ := ihM δ m m' hm hδ hm'
      obtain ⟨hdn, hdseen⟩ := dedupKeys_spec
        (δ.filter fun x => !(keys m).contains x.1 && mvs.contains x.1) []
      have hdm : ∀ kv ∈ dedupKeys (δ.filter fun x => !(keys m).contains x.1 && mvs.contains x.1) [],
          kv ∈ δ ∧ kv.1 ∉ keys m := by
        intro kv hkv
        have := mem_dedupKeys _ _ _ hkv
        simp only [List.mem_filter, Bool.and_eq_true, Bool.not_eq_true', List.contains_eq_mem,
          decide_eq_false_iff_not, decide_eq_true_eq] at this
        exact ⟨this.1, this.2.1⟩
      simp only [PF, hq, PFMap_append, hpm, Bool.true_and, Bool.and_eq_true, decide_eq_true_eq]
      refine ⟨?_, ?_⟩
      · rw [PFMap_iff]
        intro kv hkv
        exact (PFMap_iff δ).mp hδ kv (hdm kv hkv).1
      · rw [List.map_append, hkeys]
        refine List.nodup_append.mpr ⟨hnd, hdn, ?_⟩
        intro a ha b hb e
        subst e
        obtain ⟨kv, hkv, rfl⟩ := List.mem_map.mp hb
        exact (hdm kv hkv).2 ha
    | evar _ => simp [PF] at hp
    | svar _ => simp [PF] at hp
    | ex _ _ => simp [PF] at hp
    | esub _ _ _ => simp [PF] at hp
    | ssub _ _ _ => simp [PF] at hp
  · intro δ m m' hm hδ h
    cases m with
    | nil => simp only [NPat.mapF, Option.some.injEq] at h; subst h; exact ⟨rfl, rfl⟩
    | cons kv r =>
      obtain ⟨k, v⟩ := kv
      simp only [PFMap, Bool.and_eq_true] at hm
      simp only [NPat.mapF, Option.bind_eq_bind, Option.bind_eq_some_iff, Option.pure_def,
        Option.some.injEq] at h
      obtain ⟨v', hv', r', hr', rfl⟩ := h
      obtain ⟨h1, h2⟩ := ihM δ r r' hm.2 hδ hr'
      exact ⟨by simp [PFMap, ihI δ v v' hm.1 hδ hv', h1], by simp [h2]⟩

theorem instPF_all (n : Nat) : InstPF n := by
  induction n with
  | zero => exact ⟨fun _ _ _ _ _ h => by simp [NPat.instF] at h, fun _ _ _ _ _ h => by simp [NPat.mapF] at h⟩
  | succ n ih => exact instPF_step n ih

/-- instantiating a pattern of the propositional fragment by patterns of the fragment stays in the fragment -/
theorem instF_PF {n : Nat} {δ : List (Nat × NPat)} {p r : NPat} (hp : p.PF = true) (hδ : PFMap δ = true)
    (h : NPat.instF n δ p = some r) : r.PF = true := (instPF_all n).1 δ p r hp hδ h

end KMod

namespace KMod
open NPat Kore

/-! ## conversions of Kore terms -/

/-- closed patterns of the fragment: no variable of any kind but under `mu` -/
def PFG : Pat → Bool
  | .sym _ => true
  | .imp l r => PFG l && PFG r
  | .app l r => PFG l && PFG r
  | .mu _ p => p.isSV
  | _ => false

theorem PFG.eFresh (e : VId) : ∀ q : Pat, PFG q = true → q.eFresh e = true := by
  intro q
  induction q with
  | sym _ => intro _; rfl
  | imp l r ihl ihr =>
    intro h; simp only [PFG, Bool.and_eq_true] at h
    simp [Pat.eFresh, ihl h.1, ihr h.2]
  | app l r ihl ihr =>
    intro h; simp only [PFG, Bool.and_eq_true] at h
    simp [Pat.eFresh, ihl h.1, ihr h.2]
  | mu X p _ =>
    intro h; simp only [PFG] at h
    cases p <;> simp [Pat.isSV] at h
    simp [Pat.eFresh]
  | _ => intro h; simp [PFG] at h

theorem pyinst_PFG (δ : VId → Option Pat) : ∀ q : Pat, q.PFS = true →
    (∀ k ∈ Py.metavars q, ∃ v, δ k = some v ∧ PFG v = true) → PFG (Py.inst δ q) = true := by
  intro q
  induction q with
  | sym _ => intro _ _; rfl
  | mv id ef sf ps ns hs =>
    intro _ h
    obtain ⟨v, hv, hg⟩ := h id (by simp [Py.metavars])
    simp [Py.inst, hv, hg]
  | imp l r ihl ihr =>
    intro hq h
    simp only [Pat.PFS, Bool.and_eq_true] at hq
    simp only [Py.inst, PFG, Bool.and_eq_true]
    exact ⟨ihl hq.1 (fun k hk => h k (by simp [Py.metavars, hk])),
      ihr hq.2 (fun k hk => h k (by simp [Py.metavars, hk]))⟩
  | app l r ihl ihr =>
    intro hq h
    simp only [Pat.PFS, Bool.and_eq_true] at hq
    simp only [Py.inst, PFG, Bool.and_eq_true]
    exact ⟨ihl hq.1 (fun k hk => h k (by simp [Py.metavars, hk])),
      ihr hq.2 (fun k hk => h k (by simp [Py.metavars, hk]))⟩
  | mu X p _ =>
    intro hq _
    simp only [Pat.PFS] at hq
    cases p <;> simp [Pat.isSV] at hq
    simp [Py.inst, PFG, Pat.isSV]
  | _ => intro hq; simp [Pat.PFS] at hq

/-- the labels `_convert_pattern` uses -/
def convLabels : List String :=
  ["kore-kseq", "kore-dv", "kore-top", "kore-bottom", "kore-not", "kore-next", "kore-and", "kore-or",
   "kore-implies", "kore-iff", "kore-rewrites", "kore-ceil", "kore-floor", "kore-equals", "kore-in"]

set_option maxRecDepth 100000 in
theorem convLabels_PF : convLabels.all (fun L => (koreNotation L).all fun x => x.1.PF) = true := by
  decide +kernel

theorem koreNotation_PF {L : String} (hL : L ∈ convLabels) {d : NPat} {ar : Nat}
    (h : koreNotation L = some (d, ar)) : d.PF = true := by
  have := List.all_eq_true.mp convLabels_PF L hL
  rw [h] at this
  simpa using this

theorem naryDef_PF (s n : Nat) : (naryDef (.sym s) n).PF = true := by
  induction n with
  | zero => rw [naryDef_zero]; rfl
  | succ n ih => rw [naryDef_succ]; simp [PF, ih, mvN]

theorem head_PF (sg : Sig) (t : KTerm) (d : NPat) (ar : Nat) (h : t.head sg = some (d, ar)) :
    d.PF = true := by
  cases t with
  | evar x => simp [KTerm.head] at h
  | app f ss as =>
    simp only [KTerm.head, Option.bind_eq_some_iff] at h
    obtain ⟨sd, _, h⟩ := h
    split at h
    · exact koreNotation_PF (by simp [convLabels]) h
    · simp only [Option.some.injEq, Prod.mk.injEq] at h
      obtain ⟨rfl, rfl⟩ := h
      exact naryDef_PF _ _
  | dv _ _ => exact koreNotation_PF (by simp [convLabels]) h
  | top _ => exact koreNotation_PF (by simp [convLabels]) h
  | bottom _ => exact koreNotation_PF (by simp [convLabels]) h
  | not _ _ => exact koreNotation_PF (by simp [convLabels]) h
  | next _ _ => exact koreNotation_PF (by simp [convLabels]) h
  | and _ _ _ => exact koreNotation_PF (by simp [convLabels]) h
  | or _ _ _ => exact koreNotation_PF (by simp [convLabels]) h
  | implies _ _ _ => exact koreNotation_PF (by simp [convLabels]) h
  | iff _ _ _ => exact koreNotation_PF (by simp [convLabels]) h
  | rewrites _ _ _ => exact koreNotation_PF (by simp [convLabels]) h
  | ceil _ _ _ => exact koreNotation_PF (by simp [convLabels]) h
  | floor _ _ _ => exact koreNotation_PF (by simp [convLabels]) h
  | equals _ _ _ _ => exact koreNotation_PF (by simp [convLabels]) h
  | kin _ _ _ _ => exact koreNotation_PF (by simp [convLabels]) h

theorem IsSortPat.PF {p : NPat} (h : IsSortPat p) : p.PF = true := by
  rcases h with ⟨i, _, rfl⟩ | ⟨n, rfl⟩ <;> simp [mvN, sortSym, NPat.PF]

theorem keys_zip_range (ar : Nat) (args : List NPat) (h : args.length = ar) :
    ((List.range ar).zip args).map (·.1) = List.range ar := by
  have : ((List.range ar).zip args).map Prod.fst = List.range ar :=
    List.map_fst_zip (by simp [h])
  exact this

theorem PF_node (d : NPat) (ar : Nat) (args : List NPat) (hd : d.PF = true) (hlen : args.length = ar)
    (hargs : ∀ a ∈ args, a.PF = true) : (NPat.inst d ((List.range ar).zip args)).PF = true := by
  simp only [PF, hd, Bool.true_and, Bool.and_eq_true, decide_eq_true_eq]
  refine ⟨?_, ?_⟩
  · rw [PFMap_iff]
    intro kv hkv
    exact hargs _ (List.of_mem_zip hkv).2
  · rw [keys_zip_range ar args hlen]; exact List.nodup_range

theorem conv_PF_both (sg : Sig) :
    (∀ t : KTerm, ∀ sc sc' p, conv sg sc t = some (sc', p) → p.PF = true) ∧
    (∀ ts : List KTerm, ∀ sc sc' ps, convList sg sc ts = some (sc', ps) → ∀ p ∈ ps, p.PF = true) := by
  apply KTerm.ind
  · intro x sc sc' p h
    rw [conv_evar] at h
    simp only [Option.some.injEq, Prod.mk.injEq] at h
    obtain ⟨_, rfl⟩ := h
    simp [mvN, NPat.PF]
  · intro t ht ih sc sc' p h
    obtain ⟨d, ar, sc1, sp, ap, hh, hs, hl, hlen, rfl⟩ := (conv_node_iff sg sc sc' t p ht).mp h
    obtain ⟨_, hsp, _, _, _⟩ := convSorts_spec sg _ _ _ _ hs
    apply PF_node d ar _ (head_PF sg t d ar hh) hlen
    intro a ha
    simp only [List.mem_append] at ha
    rcases ha with (ha | ha) | ha
    · exact IsSortPat.PF (hsp a ha)
    · obtain ⟨v, rfl⟩ := extra_spec t a ha; rfl
    · exact ih sc1 sc' ap hl a ha
  · intro sc sc' ps h
    rw [convList_nil] at h
    simp only [Option.some.injEq, Prod.mk.injEq] at h
    obtain ⟨_, rfl⟩ := h
    simp
  · intro t ts iht ihts sc sc' ps h
    obtain ⟨sc1, p, ps', h1, h2, rfl⟩ := (convList_cons_iff sg sc sc' t ts ps).mp h
    intro q hq
    cases hq with
    | head => exact iht sc sc1 p h1
    | tail _ hq => exact ihts sc1 sc' ps' h2 q hq

/-- **conversions of Kore terms are in the propositional fragment** -/
theorem conv_PF (sg : Sig) (sc sc' : Scope) (t : KTerm) (p : NPat) (h : conv sg sc t = some (sc', p)) :
    p.PF = true := (conv_PF_both sg).1 t sc sc' p h

theorem convSorts_ground_sym (sg : Sig) : ∀ (ss : List KSort) (sc sc' : Scope) (sp : List NPat),
    ss.all KSort.ground = true → convSorts sg sc ss = some (sc', sp) → ∀ p ∈ sp, ∃ n, p = sortSym n := by
  intro ss
  induction ss with
  | nil =>
    intro sc sc' sp _ h
    simp only [convSorts, Option.some.injEq, Prod.mk.injEq] at h
    obtain ⟨_, rfl⟩ := h
    simp
  | cons s ss ih =>
    intro sc sc' sp hg h
    simp only [List.all_cons, Bool.and_eq_true] at hg
    simp only [convSorts, Option.bind_eq_bind, Option.bind_eq_some_iff, Option.pure_def, Option.some.injEq,
      Prod.mk.injEq, Prod.exists] at h
    obtain ⟨sc1, p, h1, sc3, ps, h3, rfl, rfl⟩ := h
    intro q hq
    cases hq with
    | head =>
      cases s with
      | var x => simp [KSort.ground] at hg
      | app n =>
        simp only [convSort] at h1
        split at h1
        · simp only [Option.some.injEq, Prod.mk.injEq] at h1
          exact ⟨n, h1.2.symm⟩
        · cases h1
    | tail _ hq => exact ih sc1 sc3 ps hg.2 h3 q hq

theorem conv_closed_both (sg : Sig) :
    (∀ t : KTerm, t.ground = true → ∀ sc sc' p, conv sg sc t = some (sc', p) → PFG p.expand = true) ∧
    (∀ ts : List KTerm, groundList ts = true → ∀ sc sc' ps, convList sg sc ts = some (sc', ps) →
      ∀ p ∈ ps, PFG p.expand = true) := by
  apply KTerm.ind
  · intro x hg
    simp [KTerm.ground] at hg
  · intro t ht ih hg sc sc' p h
    rw [ground_node t ht, Bool.and_eq_true] at hg
    obtain ⟨d, ar, sc1, sp, ap, hh, hs, hl, hlen, rfl⟩ := (conv_node_iff sg sc sc' t p ht).mp h
    rw [node_expand d ar _ hlen]
    apply pyinst_PFG _ _ (PF.pfs d (head_PF sg t d ar hh))
    intro k hk
    have hlt : k < (sp ++ t.extra ++ ap).length := by
      rw [hlen]; exact (head_good sg t d ar hh).2.1 k hk
    refine ⟨((sp ++ t.extra ++ ap)[k]).expand, by rw [List.getElem?_eq_getElem hlt]; rfl, ?_⟩
    have hmem : (sp ++ t.extra ++ ap)[k] ∈ sp ++ t.extra ++ ap := List.getElem_mem hlt
    generalize (sp ++ t.extra ++ ap)[k] = a at hmem
    simp only [List.mem_append] at hmem
    rcases hmem with (ha | ha) | ha
    · obtain ⟨n, rfl⟩ := convSorts_ground_sym sg _ _ _ _ hg.1 hs a ha; rfl
    · obtain ⟨v, rfl⟩ := extra_spec t a ha; rfl
    · exact ih hg.2 sc1 sc' ap hl a ha
  · intro _ sc sc' ps h
    rw [convList_nil] at h
    simp only [Option.some.injEq, Prod.mk.injEq] at h
    obtain ⟨_, rfl⟩ := h
    simp
  · intro t ts iht ihts hg sc sc' ps h
    simp only [groundList, Bool.and_eq_true] at hg
    obtain ⟨sc1, p, ps', h1, h2, rfl⟩ := (convList_cons_iff sg sc sc' t ts ps).mp h
    intro q hq
    cases hq with
    | head => exact iht hg.1 sc sc1 p h1
    | tail _ hq => exact ihts hg.2 sc1 sc' ps' h2 q hq

/-- **the conversion of a ground Kore term is closed**: no metavariable, no free element or set variable — in
particular every element variable is fresh in it -/
theorem conv_ground_closed (sg : Sig) (sc sc' : Scope) (t : KTerm) (p : NPat) (hg : t.ground = true)
    (h : conv sg sc t = some (sc', p)) :
    p.PF = true ∧ PFG p.expand = true ∧ ∀ e, p.expand.eFresh e = true :=
  ⟨conv_PF sg sc sc' t p h, (conv_closed_both sg).1 t hg sc sc' p h,
    fun e => PFG.eFresh e _ ((conv_closed_both sg).1 t hg sc sc' p h)⟩

end KMod

namespace KMod
open NPat Kore

/-! ## what `traceF` builds -/

/-- the axioms of an execution module: a rule of the fragment, or the functional assumption of a closed value -/
def KAx (a : NPat) : Prop :=
  a.PF = true ∨ ∃ v, v.PF = true ∧ v.expand.eFresh 0 = true ∧ a = .inst fnDef [(0, v)]

theorem KAx.gax {a : NPat} (h : KAx a) : GAx a := by
  rcases h with h | ⟨v, hv, hfr, rfl⟩
  · exact ⟨PF.mok a h, PeqOK.of_shape (PF.shape a h)⟩
  · exact ⟨functional_MOK v hv hfr, functional_PeqOK v⟩

/-- a step of the fragment: the rule and the values of the substitution are in the propositional fragment, the keys
are distinct, `x0` is fresh in every value (true of every closed value) -/
def stepOK (st : NPat × List (Nat × NPat)) : Bool :=
  st.1.PF && PFMap st.2 && decide ((st.2.map (·.1)).Nodup) && st.2.all fun kv => kv.2.expand.eFresh 0

/-- the decidable fragment of traces (on converted inputs) -/
def KSteps (steps : List (NPat × List (Nat × NPat))) : Bool := steps.all stepOK

structure KInv (st : ExecSt) : Prop where
  axioms : ∀ a ∈ st.axioms, KAx a
  claims : ∀ c ∈ st.claims, c.PF = true
  proofs : ∀ pf ∈ st.proofs, KPf pf
  len : st.claims.length = st.proofs.length

theorem kinv_init (init : NPat) : KInv (initSt init) :=
  ⟨by simp [initSt], by simp [initSt], by simp [initSt], rfl⟩

theorem addAxiomF_mem {n : Nat} {axs axs' : List NPat} {p : NPat} (h : addAxiomF n axs p = some axs') :
    ∀ a ∈ axs', a ∈ axs ∨ a = p := by
  simp only [addAxiomF, Option.bind_eq_bind, Option.bind_eq_some_iff] at h
  obtain ⟨b, _, h⟩ := h
  cases b with
  | true => simp only [if_true, Option.pure_def, Option.some.injEq] at h; subst h; exact fun a ha => Or.inl ha
  | false =>
    simp only [Bool.false_eq_true, if_false, Option.pure_def, Option.some.injEq] at h
    subst h
    intro a ha
    rcases List.mem_append.mp ha with ha | ha
    · exact Or.inl ha
    · exact Or.inr (by simpa using ha)

theorem addFunctionalF_mem (sg : Sig) (n : Nat) : ∀ (σ : List (Nat × NPat)) (axs axs' : List NPat),
    addFunctionalF sg n axs σ = some (some axs') →
    ∀ a ∈ axs', a ∈ axs ∨ ∃ kv ∈ σ, a = .inst fnDef [(0, kv.2)] := by
  intro σ
  induction σ with
  | nil =>
    intro axs axs' h
    simp only [addFunctionalF, Option.some.injEq] at h
    subst h
    exact fun a ha => Or.inl ha
  | cons kv r ih =>
    intro axs axs' h
    obtain ⟨k, p⟩ := kv
    simp only [addFunctionalF, Option.bind_eq_bind, Option.bind_eq_some_iff] at h
    obtain ⟨⟨hd, args⟩, _, h⟩ := h
    split at h
    · split at h
      · split at h
        · split at h
          · rw [functionalOf_eq] at h
            simp only [Option.bind_eq_bind, Option.bind_eq_some_iff] at h
            obtain ⟨axs1, h1, h⟩ := h
            intro a ha
            rcases ih axs1 axs' h a ha with ha1 | ⟨kv, hkv, rfl⟩
            · rcases addAxiomF_mem h1 a ha1 with ha0 | rfl
              · exact Or.inl ha0
              · exact Or.inr ⟨(k, p), by simp, rfl⟩
            · exact Or.inr ⟨kv, List.mem_cons_of_mem _ hkv, rfl⟩
          · simp at h
        · simp at h
      · simp at h
    · simp at h

theorem rewriteEvent_full (sg : Sig) (n : Nat) (st st' : ExecSt) (rule : NPat) (σ : List (Nat × NPat))
    (h : rewriteEventF sg n st rule σ = some (some st')) :
    ∃ inst axs1, NPat.instF n σ rule = some inst ∧ addFunctionalF sg n st.axioms σ = some (some axs1) ∧
      addAxiomF n axs1 rule = some st'.axioms ∧ st'.claims = st.claims ++ [inst] ∧
      st'.proofs = st.proofs ++ [if σ.isEmpty then .loadAxiom rule else .dynInst (.loadAxiom rule) σ] := by
  unfold rewriteEventF at h
  simp only [Option.bind_eq_bind, Option.bind_eq_some_iff, Option.pure_def] at h
  obtain ⟨inst, hi, h⟩ := h
  cases hk : koreNotation "kore-rewrites" with
  | none => simp [hk] at h
  | some v =>
    obtain ⟨rw, ar⟩ := v
    simp only [hk] at h
    cases hm : NPat.notationMatchesF n rw ar inst with
    | none => simp [hm] at h
    | some mr =>
      simp only [hm, Option.bind_some] at h
      split at h
      · next s lhs rhs =>
        cases hp : NPat.peqF n lhs st.curr with
        | none => simp [hp] at h
        | some b =>
          simp only [hp, Option.bind_some] at h
          cases b with
          | false => simp at h
          | true =>
            simp only [Bool.not_true, Bool.false_eq_true, if_false] at h
            cases hf : addFunctionalF sg n st.axioms σ with
            | none => simp [hf] at h
            | some fr =>
              simp only [hf, Option.bind_some] at h
              cases fr with
              | none => simp at h
              | some axs1 =>
                simp only at h
                cases ha : addAxiomF n axs1 rule with
                | none => simp [ha] at h
                | some axs2 =>
                  simp only [ha, Option.bind_some, Option.some.injEq] at h
                  subst h
                  exact ⟨inst, axs1, hi, rfl, ha, rfl, rfl⟩
      · simp at h

theorem rewriteEvent_inv (sg : Sig) (n : Nat) (st st' : ExecSt) (rule : NPat) (σ : List (Nat × NPat))
    (hok : stepOK (rule, σ) = true) (hinv : KInv st)
    (h : rewriteEventF sg n st rule σ = some (some st')) : KInv st' := by
  simp only [stepOK, Bool.and_eq_true, decide_eq_true_eq, List.all_eq_true] at hok
  obtain ⟨⟨⟨hrule, hσ⟩, hnd⟩, hfr⟩ := hok
  obtain ⟨inst, axs1, hi, hf, ha, hcl, hpf⟩ := rewriteEvent_full sg n st st' rule σ h
  refine ⟨?_, ?_, ?_, ?_⟩
  · intro a ha'
    rcases addAxiomF_mem ha a ha' with h1 | rfl
    · rcases addFunctionalF_mem sg n σ _ _ hf a h1 with h0 | ⟨kv, hkv, rfl⟩
      · exact hinv.axioms a h0
      · exact Or.inr ⟨kv.2, (PFMap_iff σ).mp hσ kv hkv, hfr kv hkv, rfl⟩
    · exact Or.inl hrule
  · intro c hc
    rw [hcl] at hc
    rcases List.mem_append.mp hc with hc | hc
    · exact hinv.claims c hc
    · simp only [List.mem_singleton] at hc
      subst hc
      exact instF_PF hrule hσ hi
  · intro pf hp
    rw [hpf] at hp
    rcases List.mem_append.mp hp with hp | hp
    · exact hinv.proofs pf hp
    · simp only [List.mem_singleton] at hp
      exact ⟨rule, σ, hrule, hσ, hnd, hp⟩
  · rw [hcl, hpf]; simp [hinv.len]

/-- **what a trace of the fragment builds**: axioms that are rules of the fragment or functional assumptions of
closed values; claims in the fragment; one proof `load_axiom` / `dynamic_inst(load_axiom)` per claim -/
theorem trace_inv (sg : Sig) (n : Nat) : ∀ (steps : List (NPat × List (Nat × NPat))) (st st' : ExecSt),
    KSteps steps = true → KInv st → traceF sg n st steps = some (some st') → KInv st' := by
  intro steps
  induction steps with
  | nil =>
    intro st st' _ hinv h
    simp only [traceF, Option.some.injEq] at h
    subst h
    exact hinv
  | cons step r ih =>
    intro st st' hok hinv h
    obtain ⟨rule, σ⟩ := step
    simp only [KSteps, List.all_cons, Bool.and_eq_true] at hok
    obtain ⟨st1, h1, h2⟩ := traceF_cons_inv sg n st st' rule σ r h
    exact ih st1 st' hok.2 (rewriteEvent_inv sg n st st1 rule σ hok.1 hinv h1) h2

/-! ## converted substitutions -/

/-- keys distinct, values in the fragment and closed -/
def SubOK (δ : List (Nat × NPat)) : Prop :=
  (δ.map (·.1)).Nodup ∧ ∀ kv ∈ δ, kv.2.PF = true ∧ ∀ e, kv.2.expand.eFresh e = true

theorem subOK_update {acc : List (Nat × NPat)} (h : SubOK acc) (i : Nat) (p : NPat)
    (hp : p.PF = true ∧ ∀ e, p.expand.eFresh e = true) :
    SubOK (if acc.any (·.1 == i) then acc.map (fun (k, v) => if k == i then (k, p) else (k, v))
      else acc ++ [(i, p)]) := by
  obtain ⟨hnd, hv⟩ := h
  split
  · refine ⟨?_, ?_⟩
    · have : (acc.map (fun (k, v) => if k == i then (k, p) else (k, v))).map (·.1) = acc.map (·.1) := by
        rw [List.map_map]
        apply List.map_congr_left
        intro kv _
        obtain ⟨k, v⟩ := kv
        simp only [Function.comp]
        split <;> rfl
      rw [this]; exact hnd
    · intro kv hkv
      obtain ⟨kv0, hkv0, rfl⟩ := List.mem_map.mp hkv
      obtain ⟨k, v⟩ := kv0
      simp only []
      split
      · exact hp
      · exact hv _ hkv0
  · next hany =>
    refine ⟨?_, ?_⟩
    · rw [List.map_append]
      refine List.nodup_append.mpr ⟨hnd, by simp, ?_⟩
      intro a ha b hb e
      subst e
      simp only [List.map_cons, List.map_nil, List.mem_singleton] at hb
      subst hb
      obtain ⟨kv, hkv, e⟩ := List.mem_map.mp ha
      apply hany
      rw [List.any_eq_true]
      exact ⟨kv, hkv, by simp [e]⟩
    · intro kv hkv
      rcases List.mem_append.mp hkv with hkv | hkv
      · exact hv kv hkv
      · simp only [List.mem_singleton] at hkv
        subst hkv
        exact hp

/-- **a converted ground substitution is in the fragment**: distinct keys, closed values -/
theorem convertSubst_ok (sg : Sig) : ∀ (σ : List (Nat × KTerm)) (sc sc' : Scope) (acc δ : List (Nat × NPat)),
    (∀ x t, (x, t) ∈ σ → t.ground = true) → SubOK acc →
    convertSubst sg sc σ acc = some (sc', δ) → SubOK δ := by
  intro σ
  induction σ with
  | nil =>
    intro sc sc' acc δ _ hacc h
    simp only [convertSubst, Option.some.injEq, Prod.mk.injEq] at h
    obtain ⟨_, rfl⟩ := h
    exact hacc
  | cons xt r ih =>
    intro sc sc' acc δ hg hacc h
    obtain ⟨x, t⟩ := xt
    simp only [convertSubst, Option.bind_eq_bind, Option.bind_eq_some_iff] at h
    obtain ⟨i, _, ⟨sc1, p⟩, hc, h⟩ := h
    obtain ⟨hpf, _, hfr⟩ := conv_ground_closed sg sc sc1 t p (hg x t (by simp)) hc
    exact ih sc1 sc' _ δ (fun y u hyu => hg y u (List.mem_cons_of_mem _ hyu))
      (subOK_update hacc i p ⟨hpf, hfr⟩) h

theorem SubOK.stepOK {rule : NPat} {δ : List (Nat × NPat)} (hr : rule.PF = true) (h : SubOK δ) :
    stepOK (rule, δ) = true := by
  simp only [KMod.stepOK, hr, Bool.true_and, Bool.and_eq_true, decide_eq_true_eq, List.all_eq_true]
  exact ⟨⟨(PFMap_iff δ).mpr fun kv hkv => (h.2 kv hkv).1, h.1⟩, fun kv hkv => (h.2 kv hkv).2 0⟩

end KMod
