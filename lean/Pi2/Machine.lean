import Pi2.Subst
/-!
# L5 — the stack machine (`execute_instructions` / `verify`, lib.rs:729-1066)

This is at once the formalisation of `docs/proof-language.md` (with the choices D1–D10 of
DESIGN.md §3.3) and the model of the Rust checker.  Rejection (panic) is `none`.
-/
open Pat

inductive Term where
  | pat (p : Pat)
  | proved (p : Pat)
deriving DecidableEq, Repr, Inhabited

inductive Instr where
  | evar (x : VId) | svar (x : VId) | sym (s : VId) | implies | app | ex (x : VId) | mu (x : VId)
  | metavar (id : VId) (ef sf ps ns holes : List VId) | cleanmv (id : VId)
  | esubst (x : VId) | ssubst (x : VId)
  | prop1 | prop2 | prop3 | quantifier | existence
  | mp | gen (x : VId) | subst (x : VId) | instantiate (ids : List VId)
  | pop | save | load (i : Nat) | publish
deriving DecidableEq, Repr, Inhabited

inductive Phase where | gamma | claim | proof
deriving DecidableEq, Repr, Inhabited

structure St where
  stack : List Term      -- head = top
  memory : List Term     -- in push order
  claims : List Pat      -- head = last pushed
deriving DecidableEq, Repr, Inhabited

def phi (n : VId) : Pat := mv n [] [] [] [] []
def botP : Pat := mu 0 (svar 0)
def prop1P : Pat := imp (phi 0) (imp (phi 1) (phi 0))
def prop2P : Pat := imp (imp (phi 0) (imp (phi 1) (phi 2))) (imp (imp (phi 0) (phi 1)) (imp (phi 0) (phi 2)))
def prop3P : Pat := imp (imp (imp (phi 0) botP) botP) (phi 0)
def quantP : Pat := imp (esub (phi 0) 0 (evar 1)) (ex 0 (phi 0))
def existP : Pat := ex 0 (evar 0)

/-- pop `n` patterns off the stack (top first) -/
def popPats : Nat → List Term → Option (List Pat × List Term)
  | 0, st => some ([], st)
  | n + 1, Term.pat p :: st => (popPats n st).map fun (ps, st') => (p :: ps, st')
  | _ + 1, _ => none

/-- one instruction; the second component is what the instruction publishes (axiom or claim) -/
def step (ph : Phase) (s : St) : Instr → Option (St × Option Pat)
  | .evar x => some ({ s with stack := .pat (evar x) :: s.stack }, none)
  | .svar x => some ({ s with stack := .pat (svar x) :: s.stack }, none)
  | .sym x => some ({ s with stack := .pat (sym x) :: s.stack }, none)
  | .metavar id ef sf ps ns holes =>
      if holes.any (ef.contains ·) then none
      else some ({ s with stack := .pat (mv id ef sf ps ns holes) :: s.stack }, none)
  | .cleanmv id => some ({ s with stack := .pat (mv id [] [] [] [] []) :: s.stack }, none)
  | .implies => match s.stack with
      | .pat r :: .pat l :: st => some ({ s with stack := .pat (imp l r) :: st }, none)
      | _ => none
  | .app => match s.stack with
      | .pat r :: .pat l :: st => some ({ s with stack := .pat (Pat.app l r) :: st }, none)
      | _ => none
  | .ex x => match s.stack with
      | .pat p :: st => some ({ s with stack := .pat (ex x p) :: st }, none)
      | _ => none
  | .mu x => match s.stack with
      | .pat p :: st => if p.pos x then some ({ s with stack := .pat (mu x p) :: st }, none) else none
      | _ => none
  | .esubst x => match s.stack with
      | .pat p :: .pat plug :: st =>
          if isMeta p && !(plug == evar x) && !(p.eFresh x)
          then some ({ s with stack := .pat (esub p x plug) :: st }, none) else none
      | _ => none
  | .ssubst x => match s.stack with
      | .pat p :: .pat plug :: st =>
          if isMeta p && !(plug == svar x) && !(p.sFresh x)
          then some ({ s with stack := .pat (ssub p x plug) :: st }, none) else none
      | _ => none
  | .prop1 => some ({ s with stack := .proved prop1P :: s.stack }, none)
  | .prop2 => some ({ s with stack := .proved prop2P :: s.stack }, none)
  | .prop3 => some ({ s with stack := .proved prop3P :: s.stack }, none)
  | .quantifier => some ({ s with stack := .proved quantP :: s.stack }, none)
  | .existence => some ({ s with stack := .proved existP :: s.stack }, none)
  | .mp => match s.stack with
      | .proved p2 :: .proved (imp l r) :: st =>
          if l = p2 then some ({ s with stack := .proved r :: st }, none) else none
      | _ => none
  | .gen x => match s.stack with
      | .proved (imp l r) :: st =>
          if r.eFresh x then some ({ s with stack := .proved (imp (ex x l) r) :: st }, none) else none
      | _ => none
  | .subst x => match s.stack with
      | .proved p :: .pat plug :: st =>
          (applySSubst x plug p).map fun r => ({ s with stack := .proved r :: st }, none)
      | _ => none
  | .instantiate ids => match s.stack with
      | .pat p :: st => do
          let (plugs, st') ← popPats ids.length st
          let r ← inst (lookupPlug ids plugs) p
          pure ({ s with stack := .pat r :: st' }, none)
      | .proved p :: st => do
          let (plugs, st') ← popPats ids.length st
          let r ← inst (lookupPlug ids plugs) p
          pure ({ s with stack := .proved r :: st' }, none)
      | _ => none
  | .pop => match s.stack with
      | _ :: st => some ({ s with stack := st }, none)
      | _ => none
  | .save => match s.stack with
      | t :: _ => some ({ s with memory := s.memory ++ [t] }, none)
      | _ => none
  | .load i => (s.memory[i]?).map fun t => ({ s with stack := t :: s.stack }, none)
  | .publish => match ph with
      | .gamma => match s.stack with
          | .pat p :: st => some ({ s with stack := st, memory := s.memory ++ [.proved p] }, some p)
          | _ => none
      | .claim => match s.stack with
          | .pat p :: st => some ({ s with stack := st, claims := p :: s.claims }, some p)
          | _ => none
      | .proof => match s.stack, s.claims with
          | .proved t :: st, c :: cs =>
              if c = t then some ({ s with stack := st, claims := cs }, none) else none
          | _, _ => none

/-- run a list of instructions, collecting what is published -/
def run (ph : Phase) : St → List Instr → Option (St × List Pat)
  | s, [] => some (s, [])
  | s, i :: is => do
      let (s', j) ← step ph s i
      let (s'', js) ← run ph s' is
      pure (s'', j.toList ++ js)

/-- the three phases; returns the final state of each phase and the two journals -/
def verifyStates (g c p : List Instr) : Option (St × St × St × List Pat × List Pat) := do
  let (s1, axs) ← run .gamma ⟨[], [], []⟩ g
  let (s2, cls) ← run .claim { s1 with stack := [] } c
  let (s3, _) ← run .proof { s2 with stack := [] } p
  pure (s1, s2, s3, axs, cls)

/-- `verify`: three phases, stack cleared in between, memory and claims kept, claims empty at the
end.  Returns the published axioms and claims. -/
def verify (g c p : List Instr) : Option (List Pat × List Pat) := do
  let (s1, axs) ← run .gamma ⟨[], [], []⟩ g
  let (s2, cls) ← run .claim { s1 with stack := [] } c
  let (s3, _) ← run .proof { s2 with stack := [] } p
  if s3.claims.isEmpty then pure (axs, cls) else none
