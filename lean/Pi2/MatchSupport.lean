import Pi2.InterpSupport
import Pi2.Match
/-!
# Support for the translated matching functions (`Pi2/Gen/PyMatch.lean`)

The target language of `vlib/transmatch.py`: the Python statements of `match_single`, `match`,
`Pattern.unwrap / extract`, the `deconstruct` static methods, `Instantiate.simplify`,
`MetaVar.can_be_replaced_by`, `Notation.matches / assert_matches` (`pattern.py`) are translated one
by one into the continuation-passing combinators of `Pi2/InterpSupport.lean` (`Py α = Option (Option α)`:
outer `none` = out of fuel / `RecursionError`, inner `none` = an exception; `ret`, `raise`, `call`,
`fuel`) and the ones below.  A Python value that may be `None` is an `Option` *inside* `Py`.

Fuel discipline of the translator: a function that calls itself is defined by cases on the fuel
(`0` = out of fuel, `n + 1` = the body, every call in it gets `n`); a `while` loop consumes one unit
per iteration; a function that is not recursive passes its fuel on unchanged.
-/
open Pat
namespace PyM
open PyI

/-- the classes of `pattern.py` (every one a direct subclass of `Pattern`; checked by the translator) -/
inductive PyClass where
  | Pattern | EVar | SVar | Symbol | Implies | App | Exists | Mu | MetaVar | ESubst | SSubst | Instantiate
deriving DecidableEq, Repr

/-- `isinstance(p, cls)` -/
def isinstance : NPat → PyClass → Bool
  | _, .Pattern => true
  | .evar _, .EVar => true | .svar _, .SVar => true | .sym _, .Symbol => true
  | .imp .., .Implies => true | .app .., .App => true | .ex .., .Exists => true | .mu .., .Mu => true
  | .mv .., .MetaVar => true | .esub .., .ESubst => true | .ssub .., .SSubst => true
  | .inst .., .Instantiate => true
  | _, _ => false

/-- what the methods of the dataclass `Notation` read: `self.definition`, `self.arity` -/
structure PyNotation where
  definition : NPat
  arity : Nat

/-- a Python `dict[int, Pattern]` in insertion order -/
abbrev Dict := NPat.Subst

/-- `k in d` -/
def dictHas (d : Dict) (k : Nat) : Bool := (Py.lookup d k).isSome
/-- `d[k]` (`KeyError`) -/
def dictGet {β} (d : Dict) (k : Nat) (cont : NPat → Py β) : Py β :=
  match Py.lookup d k with
  | some v => cont v
  | none => raise
/-- `d[k] = v`: an existing key keeps its position, a new one goes to the end -/
def dictSet : Dict → Nat → NPat → Dict
  | [], k, v => [(k, v)]
  | (k', v') :: r, k, v => if k' = k then (k', v) :: r else (k', v') :: dictSet r k v
/-- `t[i]` on a tuple of patterns (`IndexError`) -/
def index {β} (t : List NPat) (i : Nat) (cont : NPat → Py β) : Py β :=
  match t[i]? with
  | some v => cont v
  | none => raise

/-! Python truthiness of an optional value, with the narrowed payload: `None` is falsy, and so are
`{}`, `()` and `0`; a 2-tuple `(var, subpattern)` is never empty. -/
def truthyDict : Option Dict → Option Dict
  | some (x :: r) => some (x :: r)
  | _ => none
def truthyTuple : Option (List NPat) → Option (List NPat)
  | some (x :: r) => some (x :: r)
  | _ => none
def truthyPair : Option (Nat × NPat) → Option (Nat × NPat) := id
def truthyInt : Option Nat → Option Nat
  | some (k + 1) => some (k + 1)
  | _ => none

/-- `a if x else b` with `x` an optional value: `a` sees `x` narrowed to its payload -/
def ifTruthy {α β} (o : Option α) (t : α → β) (e : β) : β :=
  match o with
  | some a => t a
  | none => e

/-- `if (a := e1):` -/
def ifAnd1 {α α' γ} (e1 : Py α) (t1 : α → Option α') (thenK : α' → Py γ) (elseK : Py γ) : Py γ :=
  call e1 fun a => match t1 a with
    | none => elseK
    | some a' => thenK a'
/-- `if (a := e1) and (b := e2):` — `e2` is evaluated only if `a` is truthy -/
def ifAnd2 {α α' β β' γ} (e1 : Py α) (t1 : α → Option α') (e2 : Py β) (t2 : β → Option β')
    (thenK : α' → β' → Py γ) (elseK : Py γ) : Py γ :=
  call e1 fun a => match t1 a with
    | none => elseK
    | some a' => call e2 fun b => match t2 b with
      | none => elseK
      | some b' => thenK a' b'
/-- `a and b` / `a or b` with operands that have effects (short-circuit) -/
def andB (a b : Py Bool) : Py Bool := call a fun x => if x then b else ret false
def orB (a b : Py Bool) : Py Bool := call a fun x => if x then ret true else b

/-- `while cond(s): s = body(s)`; one unit of fuel per test of the condition -/
def whileF {σ β} (cond : σ → Bool) (body : Nat → σ → Py σ) : Nat → σ → (σ → Py β) → Py β
  | 0, _, _ => none
  | n + 1, s, k => if cond s then call (body n s) fun s' => whileF cond body n s' k else k s

/-- `for x in xs: body`; the body gets the continuation "next iteration" (a `return` does not call it) -/
def forEach {α σ β} : List α → σ → (α → σ → (σ → Py β) → Py β) → (σ → Py β) → Py β
  | [], s, _, k => k s
  | x :: xs, s, body, k => body x s fun s' => forEach xs s' body k

/-- `tuple(f(x) for x in xs)` -/
def mapPy {α β γ} : List α → (α → Py β) → (List β → Py γ) → Py γ
  | [], _, k => k []
  | x :: xs, f, k => call (f x) fun y => mapPy xs f fun ys => k (y :: ys)

end PyM
