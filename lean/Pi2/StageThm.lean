import Pi2.Gen.StageProofs
import Pi2.TautTie
import Pi2.Props.C10
/-!
# The proof objects of the normal-form stages conclude what the docstrings say, and replay

`Pi2/Gen/StageProofs.lean` is regenerated on every run from `tautology.py` (`vlib/transstage.py`): every stage function
with ALL its statements — the data part as in `Pi2/Gen/PyTaut.lean`, every `ProofThunk` expression over a thunk algebra.

* Part A: the library lemmas the stages call, on conclusions (`StageSup.algCS`): equations `lib algCS ix_<lemma> .. = some ..`
  obtained from `C10.conc_stable` (every documented entry point, at ALL arguments and premises of the documented shape).
* Part B..E: the stages over `algCS`: `to_conj_form_C`, `propag_neg_C`, `to_cnf_C`, `to_clauses_C` — the run does not raise
  and returns the model's normal form together with EXACTLY the advertised conclusions (by induction over the formula / the
  normal form / the fuel; the `for` loops of `to_clauses` by their invariant `shiftPair`; `match_single` + `dynamic_inst` of
  the shifting schemas by `matchP_chain` / `inst_zip`).
* Part F: the homomorphism `GTh.conc : algGS → algCS` of every generated function (`*_hom`; one structural tactic).
* Part G: fuel monotonicity (`*_mono`), hence `*_C_any`: at ANY fuel a stage that answers, answers as above.
* Part H: `sra_C` (`start_resolution_algorithm`: `top_intro` / the RIGHT fold of `and_intro` over the proofs of the trivial
  clauses / the proof reconstructed from the hint) and `prove_tautology_C`: the final assembly concludes literally the
  pattern / its negation, given what `prove_trivial_clause` and `build_proof_from_hint` promise about their proofs
  (`PtcSpecC`, `BpfhSpecC`: their proof objects are not translated — parameters of the generated functions).
* Part I: the same over proof trees (`*_proofs`, `prove_tautology_proofs`): the returned thunks are proof trees `th.pf` that
  MEAN (`Pf.Sem`: the documented rules prop1/prop2/prop3/mp/instantiate/axioms) the advertised conclusion, so whenever their
  run on the basic interpreter returns, it returns the advertised conclusion (`Proves`); `*_data`: the data component is
  the one of the data slice `Gen.PyTaut`.
-/
set_option linter.unusedSimpArgs false
open Pat

namespace StageThm
open Lem StageSup Gen.PyTaut TautSup TautTie Gen.Stage

theorem translated : Gen.Stage.translated = true := by decide

/-! ## the patterns the docstrings talk about -/

/-- `conj_to_pattern` -/
def cfPat : ConjForm → Pat
  | .CFBot n => if n then negP Lem.botP else Lem.botP
  | .CFVar n i => if n then negP (mvP i) else mvP i
  | .CFOr n l r => if n then negP (orP (cfPat l) (cfPat r)) else orP (cfPat l) (cfPat r)
  | .CFAnd n l r => if n then negP (andP (cfPat l) (cfPat r)) else andP (cfPat l) (cfPat r)

/-- `id_to_metavar` (literals are `±(id + 1)`) -/
def idPat (i : Int) : Pat := if i < 0 then negP (phi (-(i + 1)).toNat) else phi (i - 1).toNat

/-- `foldr_op(op, l)` on a non-empty list -/
def foldrP (op : Pat → Pat → Pat) : List Pat → Pat
  | [] => Lem.botP
  | [a] => a
  | a :: b :: r => op a (foldrP op (b :: r))

/-- `clause_to_pattern` -/
def clausePat (c : List Int) : Pat := if c.isEmpty then Lem.botP else foldrP orP (c.map idPat)

/-- `clause_conjunctionto_pattern` -/
def clausesPat (cs : List (List Int)) : Pat := if cs.isEmpty then topP else foldrP andP (cs.map clausePat)

/-- the resolution hint (`ResolutionHint`) -/
abbrev Hint := PyDict FrozenSet (Sum ResolutionHintSource Int)

/-! ## Part A — the library lemmas on conclusions -/

/-- the documented schema of the entry point with index `i` in `Gen.lemmaDefs` -/
def specAt (i : Nat) : Option Lem.Spec := Gen.lemmaSpecs.find? (fun s => s.idx == i)

theorem lib_at (i : Nat) (s : Lem.Spec) (h : specAt i = some s) (ρ : Nat → Option Pat) :
    lib algCS i (s.params.map (Py.inst ρ)) (s.premises.map (Py.inst ρ)) = some (Py.inst ρ s.concl) := by
  have hm : s ∈ Gen.lemmaSpecs := List.mem_of_find?_eq_some h
  have hi : s.idx = i := by
    have := List.find?_some h
    simpa using this
  obtain ⟨g, hg, hr⟩ := C10.conc_stable s hm ρ
  have e : algCS.toAlg = Lem.algC := rfl
  unfold lib
  rw [e, ← hi, hg]
  exact hr

section LibC
variable (a b c d p q r : Pat)

theorem lib_top_intro : lib algCS ix_top_intro [] [] = some topP :=
  lib_at ix_top_intro _ rfl (fun _ => none)
theorem lib_imp_refl : lib algCS ix_imp_refl [p] [] = some (.imp p p) :=
  lib_at ix_imp_refl _ rfl (fun i => [p][i]?)
theorem lib_imp_provable : lib algCS ix_imp_provable [p] [q] = some (.imp p q) :=
  lib_at ix_imp_provable _ rfl (fun i => [p, q][i]?)
theorem lib_imp_transitivity : lib algCS ix_imp_transitivity [] [.imp a b, .imp b c] = some (.imp a c) :=
  lib_at ix_imp_transitivity _ rfl (fun i => [a, b, c][i]?)
theorem lib_and_not_r_intro : lib algCS ix_and_not_r_intro [] [p, negP q] = some (negP (.imp p q)) :=
  lib_at ix_and_not_r_intro _ rfl (fun i => [p, q][i]?)
theorem lib_absurd_i : lib algCS ix_absurd_i [p] [negP q] = some (.imp q p) :=
  lib_at ix_absurd_i _ rfl (fun i => [p, q][i]?)
theorem lib_absurd3 : lib algCS ix_absurd3 [] [.imp (negP a) b, negP c] = some (.imp (.imp b c) a) :=
  lib_at ix_absurd3 _ rfl (fun i => [a, b, c][i]?)
theorem lib_absurd4 : lib algCS ix_absurd4 [p] [.imp a (negP b)] = some (.imp b (.imp a p)) :=
  lib_at ix_absurd4 _ rfl (fun i => [p, a, b][i]?)
theorem lib_imim : lib algCS ix_imim [] [.imp a b, .imp c d] = some (.imp (.imp b c) (.imp a d)) :=
  lib_at ix_imim _ rfl (fun i => [a, b, c, d][i]?)
theorem lib_absurd2 : lib algCS ix_absurd2 [p] [.imp a b] = some (.imp (negP b) (.imp a p)) :=
  lib_at ix_absurd2 _ rfl (fun i => [p, a, b][i]?)
theorem lib_helper1 : lib algCS ix_helper1 [] [p, .imp q r] = some (.imp (.imp p q) r) :=
  lib_at ix_helper1 _ rfl (fun i => [p, q, r][i]?)
theorem lib_a1d : lib algCS ix_a1d [p] [.imp q r] = some (.imp q (.imp p r)) :=
  lib_at ix_a1d _ rfl (fun i => [p, q, r][i]?)
theorem lib_imim_nnr : lib algCS ix_imim_nnr [] [.imp a b, .imp c d] = some (.imp (.imp b c) (.imp (negP (negP a)) d)) :=
  lib_at ix_imim_nnr _ rfl (fun i => [a, b, c, d][i]?)
theorem lib_imim_nnl : lib algCS ix_imim_nnl [] [.imp a b, .imp c d] = some (.imp (.imp (negP (negP b)) c) (.imp a d)) :=
  lib_at ix_imim_nnl _ rfl (fun i => [a, b, c, d][i]?)
theorem lib_dni_l_i : lib algCS ix_dni_l_i [] [.imp a b] = some (.imp (negP (negP a)) b) :=
  lib_at ix_dni_l_i _ rfl (fun i => [a, b][i]?)
theorem lib_dni_r_i : lib algCS ix_dni_r_i [] [.imp a b] = some (.imp a (negP (negP b))) :=
  lib_at ix_dni_r_i _ rfl (fun i => [a, b][i]?)
theorem lib_imim_and : lib algCS ix_imim_and [] [.imp a b, .imp c d] = some (.imp (andP a c) (andP b d)) :=
  lib_at ix_imim_and _ rfl (fun i => [a, b, c, d][i]?)
theorem lib_imim_or : lib algCS ix_imim_or [] [.imp a b, .imp c d] = some (.imp (orP a c) (orP b d)) :=
  lib_at ix_imim_or _ rfl (fun i => [a, b, c, d][i]?)
theorem lib_dne_r : lib algCS ix_dne_r [a, b] [] = some (.imp (.imp a (negP (negP b))) (.imp a b)) :=
  lib_at ix_dne_r _ rfl (fun i => [a, b][i]?)
theorem lib_dni_r : lib algCS ix_dni_r [a, b] [] = some (.imp (.imp a b) (.imp a (negP (negP b)))) :=
  lib_at ix_dni_r _ rfl (fun i => [a, b][i]?)
theorem lib_con3_i : lib algCS ix_con3_i [] [.imp a b] = some (.imp (negP b) (negP a)) :=
  lib_at ix_con3_i _ rfl (fun i => [a, b][i]?)
theorem lib_or_distr_r : lib algCS ix_or_distr_r [a, b, c] [] =
    some (.imp (orP (andP a b) c) (andP (orP a c) (orP b c))) :=
  lib_at ix_or_distr_r _ rfl (fun i => [a, b, c][i]?)
theorem lib_or_distr_r_rev : lib algCS ix_or_distr_r_rev [a, b, c] [] =
    some (.imp (andP (orP a c) (orP b c)) (orP (andP a b) c)) :=
  lib_at ix_or_distr_r_rev _ rfl (fun i => [a, b, c][i]?)
theorem lib_or_distr_l : lib algCS ix_or_distr_l [a, b, c] [] =
    some (.imp (orP a (andP b c)) (andP (orP a b) (orP a c))) :=
  lib_at ix_or_distr_l _ rfl (fun i => [a, b, c][i]?)
theorem lib_or_distr_l_rev : lib algCS ix_or_distr_l_rev [a, b, c] [] =
    some (.imp (andP (orP a b) (orP a c)) (orP a (andP b c))) :=
  lib_at ix_or_distr_l_rev _ rfl (fun i => [a, b, c][i]?)
theorem lib_and_assoc_r : lib algCS ix_and_assoc_r [a, b, c] [] =
    some (.imp (andP (andP a b) c) (andP a (andP b c))) :=
  lib_at ix_and_assoc_r _ rfl (fun i => [a, b, c][i]?)
theorem lib_and_assoc_l : lib algCS ix_and_assoc_l [a, b, c] [] =
    some (.imp (andP a (andP b c)) (andP (andP a b) c)) :=
  lib_at ix_and_assoc_l _ rfl (fun i => [a, b, c][i]?)
theorem lib_or_assoc_r : lib algCS ix_or_assoc_r [a, b, c] [] =
    some (.imp (orP (orP a b) c) (orP a (orP b c))) :=
  lib_at ix_or_assoc_r _ rfl (fun i => [a, b, c][i]?)
theorem lib_or_assoc_l : lib algCS ix_or_assoc_l [a, b, c] [] =
    some (.imp (orP a (orP b c)) (orP (orP a b) c)) :=
  lib_at ix_or_assoc_l _ rfl (fun i => [a, b, c][i]?)
theorem lib_imim_and_r : lib algCS ix_imim_and_r [p] [.imp a b] = some (.imp (andP p a) (andP p b)) :=
  lib_at ix_imim_and_r _ rfl (fun i => [p, a, b][i]?)
theorem lib_imim_or_r : lib algCS ix_imim_or_r [p] [.imp a b] = some (.imp (orP p a) (orP p b)) :=
  lib_at ix_imim_or_r _ rfl (fun i => [p, a, b][i]?)
theorem lib_and_intro : lib algCS ix_and_intro [] [p, q] = some (andP p q) :=
  lib_at ix_and_intro _ rfl (fun i => [p, q][i]?)

end LibC

/-! `dneg_elim` has no docstring, hence no `Lem.Spec`: its body (`return self.dynamic_inst(self.prop3(), ..)`, the schema
instance `.prop3 (.pvar 0)`) is evaluated directly, over ANY algebra -/

theorem go_getElem_lt {τ} (A : Lem.Alg τ) : ∀ (ds : List Lem.Def) (acc : List (Lem.Fun τ)) (i : Nat), i < acc.length →
    (Lem.sem.go A acc ds)[i]? = acc[i]? := by
  intro ds
  induction ds with
  | nil => intro acc i _; rfl
  | cons d ds ih =>
    intro acc i h
    simp only [Lem.sem.go]
    rw [ih _ i (by simp; omega), List.getElem?_append_left h]

theorem go_getElem {τ} (A : Lem.Alg τ) : ∀ (ds : List Lem.Def) (acc : List (Lem.Fun τ)) (i : Nat) (d : Lem.Def),
    acc.length ≤ i → ds[i - acc.length]? = some d → ∃ funs, (Lem.sem.go A acc ds)[i]? = some (Lem.evalDef A funs d) := by
  intro ds
  induction ds with
  | nil => intro acc i d _ h; simp at h
  | cons d' ds ih =>
    intro acc i d hle h
    simp only [Lem.sem.go]
    by_cases hi : i = acc.length
    · subst hi
      simp only [Nat.sub_self, List.getElem?_cons_zero, Option.some.injEq] at h
      subst h
      refine ⟨acc, ?_⟩
      rw [go_getElem_lt A ds _ _ (by simp)]
      simp
    · have h1 : i - acc.length = (i - (acc.length + 1)) + 1 := by omega
      rw [h1, List.getElem?_cons_succ] at h
      exact ih (acc ++ [Lem.evalDef A acc d']) i d (by simp; omega) (by simpa using h)

theorem sem_getElem {τ} (A : Lem.Alg τ) (defs : List Lem.Def) (i : Nat) (d : Lem.Def) (h : defs[i]? = some d) :
    ∃ funs, (Lem.sem A defs)[i]? = some (Lem.evalDef A funs d) := by
  cases defs with
  | nil => simp at h
  | cons d0 ds =>
    simp only [Lem.sem]
    cases i with
    | zero =>
      simp only [List.getElem?_cons_zero, Option.some.injEq] at h
      subst h
      exact ⟨[], by rw [go_getElem_lt A ds _ _ (by simp)]; simp⟩
    | succ k =>
      rw [List.getElem?_cons_succ] at h
      exact go_getElem A ds [Lem.evalDef A [] d0] (k + 1) d (by simp) (by simpa using h)

theorem lib_dneg_elim_any {τ} (A : SAlg τ) (p : Pat) : lib A ix_dneg_elim [p] [] = some (A.prop3 p) := by
  have hd : Gen.lemmaDefs[ix_dneg_elim]? = some ⟨"dneg_elim", 1, 0, [], .prop3 (.pvar 0)⟩ := rfl
  obtain ⟨funs, hf⟩ := sem_getElem A.toAlg Gen.lemmaDefs ix_dneg_elim _ hd
  unfold lib
  rw [hf]
  simp [Lem.evalDef, Lem.evalBody, Lem.evalTE, Lem.evalPE]

theorem lib_dneg_elim (p : Pat) : lib algCS ix_dneg_elim [p] [] = some (.imp (negP (negP p)) p) :=
  lib_dneg_elim_any algCS p

/-- premises that are negations (`negP x` is `x → ⊥`) -/
theorem lib_imim_neg (a b c : Pat) : lib algCS ix_imim [] [.imp a b, negP c] = some (.imp (.imp b c) (negP a)) :=
  lib_imim a b c Lem.botP

/-! ## Part B — `to_conj_form` on conclusions -/

/-- what `to_conj_form` returns on the propositional pattern `f`, as its docstring says: the normal form (the model's
`CF.ofForm`), a proof of `pat -> new` and a proof of `new -> pat`; when the new term is Top / Bottom only the first proof,
which proves `pat` / `neg(pat)` -/
def conjSpec (f : Form) : ConjForm × Pat × Option Pat :=
  if (CF.ofForm f).isBot then
    (ofCF (CF.ofForm f), (if (CF.ofForm f).negated then toPat f else negP (toPat f)), none)
  else
    (ofCF (CF.ofForm f), .imp (toPat f) (cfPat (ofCF (CF.ofForm f))), some (.imp (cfPat (ofCF (CF.ofForm f))) (toPat f)))

theorem to_conj_form_C (f : Form) : ∀ n, f.size ≤ n → Gen.Stage.to_conj_form algCS n f = some (conjSpec f) := by
  induction f with
  | bot =>
    intro n hn
    cases n with
    | zero => simp [Form.size] at hn
    | succ k =>
      simp [Gen.Stage.to_conj_form, conjSpec, TautSup.bot, CF.ofForm, ofCF, CFBot_new, CF.isBot, CF.negated, lib_top_intro,
        toPat, topP]
  | var i =>
    intro n hn
    cases n with
    | zero => simp [Form.size] at hn
    | succ k =>
      simp [Gen.Stage.to_conj_form, conjSpec, TautSup.bot, TautSup.top, Form.top, isMetaVar, MetaVar_name, CF.ofForm, ofCF,
        CFVar_new, CF.isBot, lib_imp_refl, toPat, cfPat, mvP]
  | imp p0 p1 ih0 ih1 =>
    intro n hn
    cases n with
    | zero => simp [Form.size] at hn
    | succ k =>
      have h0 : p0.size ≤ k := by simp [Form.size] at hn; omega
      have h1 : p1.size ≤ k := by simp [Form.size] at hn; omega
      have e0 := ih0 k h0
      have e1 := ih1 k h1
      simp only [conjSpec] at e0 e1 ⊢
      simp only [CF.ofForm]
      by_cases hb : p0 = .bot ∧ p1 = .bot
      · obtain ⟨rfl, rfl⟩ := hb
        simp [Gen.Stage.to_conj_form, TautSup.bot, TautSup.top, Form.top, ofCF, CFBot_new, CF.isBot, CF.negated,
          lib_top_intro, toPat, topP, negP]
      · rw [if_neg hb]
        have htop : (Form.imp p0 p1 == TautSup.top) = false := by
          simp only [TautSup.top, Form.top, beq_eq_false_iff_ne, ne_eq, Form.imp.injEq]; exact hb
        generalize CF.ofForm p1 = c1 at e1 ⊢
        generalize CF.ofForm p0 = c0 at e0 ⊢
        simp only [Gen.Stage.to_conj_form, htop, TautSup.bot, isMetaVar, Implies_extract]
        cases c1 with
        | bot b1 =>
          cases b1 <;> cases c0 with
          | bot b0 => cases b0 <;> simp [e0, e1, pyIndex, ofCF, CFBot_new, CF.isBot, ConjForm.isCFBot, ConjForm.negated, pyAssert, CF.negated, toPat, lib_imp_provable, lib_and_not_r_intro, lib_absurd_i]
          | var n0 i0 => cases n0 <;> simp [e0, e1, pyIndex, ofCF, CFBot_new, CF.isBot, ConjForm.isCFBot, ConjForm.negated, pyAssert, CF.negated, CF.setNeg, ConjForm.set_negated, toPat, cfPat, lib_imp_provable, lib_absurd3, lib_absurd4, lib_imim_neg, lib_absurd2]
          | or n0 l0 r0 => cases n0 <;> simp [e0, e1, pyIndex, ofCF, CFBot_new, CF.isBot, ConjForm.isCFBot, ConjForm.negated, pyAssert, CF.negated, CF.setNeg, ConjForm.set_negated, toPat, cfPat, lib_imp_provable, lib_absurd3, lib_absurd4, lib_imim_neg, lib_absurd2]
          | and n0 l0 r0 => cases n0 <;> simp [e0, e1, pyIndex, ofCF, CFBot_new, CF.isBot, ConjForm.isCFBot, ConjForm.negated, pyAssert, CF.negated, CF.setNeg, ConjForm.set_negated, toPat, cfPat, lib_imp_provable, lib_absurd3, lib_absurd4, lib_imim_neg, lib_absurd2]
        | var n1 i1 =>
          cases c0 with
          | bot b0 => cases b0 <;> simp [e0, e1, pyIndex, ofCF, CFBot_new, CFOr_new, CF.isBot, ConjForm.isCFBot, ConjForm.negated, pyAssert, CF.negated, toPat, cfPat, lib_helper1, lib_a1d, lib_absurd_i]
          | var n0 i0 => cases n0 <;> simp [e0, e1, pyIndex, ofCF, CFBot_new, CFOr_new, CF.isBot, ConjForm.isCFBot, ConjForm.negated, pyAssert, CF.negated, CF.setNeg, ConjForm.set_negated, toPat, cfPat, orP, lib_imim, lib_imim_nnr, lib_imim_nnl]
          | or n0 l0 r0 => cases n0 <;> simp [e0, e1, pyIndex, ofCF, CFBot_new, CFOr_new, CF.isBot, ConjForm.isCFBot, ConjForm.negated, pyAssert, CF.negated, CF.setNeg, ConjForm.set_negated, toPat, cfPat, orP, lib_imim, lib_imim_nnr, lib_imim_nnl]
          | and n0 l0 r0 => cases n0 <;> simp [e0, e1, pyIndex, ofCF, CFBot_new, CFOr_new, CF.isBot, ConjForm.isCFBot, ConjForm.negated, pyAssert, CF.negated, CF.setNeg, ConjForm.set_negated, toPat, cfPat, orP, lib_imim, lib_imim_nnr, lib_imim_nnl]
        | or n1 l1 r1 =>
          cases c0 with
          | bot b0 => cases b0 <;> simp [e0, e1, pyIndex, ofCF, CFBot_new, CFOr_new, CF.isBot, ConjForm.isCFBot, ConjForm.negated, pyAssert, CF.negated, toPat, cfPat, lib_helper1, lib_a1d, lib_absurd_i]
          | var n0 i0 => cases n0 <;> simp [e0, e1, pyIndex, ofCF, CFBot_new, CFOr_new, CF.isBot, ConjForm.isCFBot, ConjForm.negated, pyAssert, CF.negated, CF.setNeg, ConjForm.set_negated, toPat, cfPat, orP, lib_imim, lib_imim_nnr, lib_imim_nnl]
          | or n0 l0 r0 => cases n0 <;> simp [e0, e1, pyIndex, ofCF, CFBot_new, CFOr_new, CF.isBot, ConjForm.isCFBot, ConjForm.negated, pyAssert, CF.negated, CF.setNeg, ConjForm.set_negated, toPat, cfPat, orP, lib_imim, lib_imim_nnr, lib_imim_nnl]
          | and n0 l0 r0 => cases n0 <;> simp [e0, e1, pyIndex, ofCF, CFBot_new, CFOr_new, CF.isBot, ConjForm.isCFBot, ConjForm.negated, pyAssert, CF.negated, CF.setNeg, ConjForm.set_negated, toPat, cfPat, orP, lib_imim, lib_imim_nnr, lib_imim_nnl]
        | and n1 l1 r1 =>
          cases c0 with
          | bot b0 => cases b0 <;> simp [e0, e1, pyIndex, ofCF, CFBot_new, CFOr_new, CF.isBot, ConjForm.isCFBot, ConjForm.negated, pyAssert, CF.negated, toPat, cfPat, lib_helper1, lib_a1d, lib_absurd_i]
          | var n0 i0 => cases n0 <;> simp [e0, e1, pyIndex, ofCF, CFBot_new, CFOr_new, CF.isBot, ConjForm.isCFBot, ConjForm.negated, pyAssert, CF.negated, CF.setNeg, ConjForm.set_negated, toPat, cfPat, orP, lib_imim, lib_imim_nnr, lib_imim_nnl]
          | or n0 l0 r0 => cases n0 <;> simp [e0, e1, pyIndex, ofCF, CFBot_new, CFOr_new, CF.isBot, ConjForm.isCFBot, ConjForm.negated, pyAssert, CF.negated, CF.setNeg, ConjForm.set_negated, toPat, cfPat, orP, lib_imim, lib_imim_nnr, lib_imim_nnl]
          | and n0 l0 r0 => cases n0 <;> simp [e0, e1, pyIndex, ofCF, CFBot_new, CFOr_new, CF.isBot, ConjForm.isCFBot, ConjForm.negated, pyAssert, CF.negated, CF.setNeg, ConjForm.set_negated, toPat, cfPat, orP, lib_imim, lib_imim_nnr, lib_imim_nnl]

/-! ## Part C — `propag_neg` on conclusions -/

/-- the pattern of a normal form without its top-level negation flag -/
def baseP : CF → Pat
  | .bot _ => Lem.botP
  | .var _ i => mvP (i : Int)
  | .or _ l r => orP (cfPat (ofCF l)) (cfPat (ofCF r))
  | .and _ l r => andP (cfPat (ofCF l)) (cfPat (ofCF r))

theorem cfPat_ofCF (c : CF) : cfPat (ofCF c) = if c.negated then negP (baseP c) else baseP c := by
  cases c <;> rfl

@[simp] theorem baseP_setNeg (c : CF) (b : Bool) : baseP (c.setNeg b) = baseP c := by cases c <;> rfl
@[simp] theorem negated_setNeg (c : CF) (b : Bool) : (c.setNeg b).negated = b := by cases c <;> rfl

theorem assertAnd_andP (a b : Pat) : assertAnd (andP a b) = some (a, b) := by
  simp [assertAnd, matchNotn, matchAnd_andP]

theorem assertNeg_negP (a : Pat) : assertNeg (negP a) = some a := by
  simp [assertNeg, matchNotn, negP]

theorem algCS_conc (x : Pat) : algCS.conc x = x := rfl

theorem lib_imp_transitivity_and1 (x a b c : Pat) :
    lib algCS ix_imp_transitivity [] [.imp x (negP (.imp a (negP b))), .imp (andP a b) c] = some (.imp x c) :=
  lib_imp_transitivity x (andP a b) c
theorem lib_imp_transitivity_and2 (y a b c : Pat) :
    lib algCS ix_imp_transitivity [] [.imp c (andP a b), .imp (negP (.imp a (negP b))) y] = some (.imp c y) :=
  lib_imp_transitivity c (andP a b) y

/-- the two proofs a stage returns between the patterns of its input `x` and of its output `y` -/
def pfPair (x y : ConjForm) : ConjForm × Pat × Pat := (y, .imp (cfPat x) (cfPat y), .imp (cfPat y) (cfPat x))

/-- `propag_neg` with the caller's in-place inversion of the flag (`flip`), as in `TautTie.propag_neg_aux`: the proofs are
between the pattern of the term AS PASSED (flag already inverted) and the pattern of the result -/
theorem propag_neg_C_aux (c : CF) : ∀ (flip : Bool) (n : Nat), depth c ≤ n →
    Gen.Stage.propag_neg algCS n (ofCF (c.setNeg (xor c.negated flip))) =
      (CF.propagNegAux flip c).map fun r => pfPair (ofCF (c.setNeg (xor c.negated flip))) (ofCF r) := by
  induction c with
  | bot b =>
    intro flip n hn
    cases n with
    | zero => simp [depth] at hn
    | succ k => simp [Gen.Stage.propag_neg, CF.setNeg, ofCF, ConjForm.isCFVar, ConjForm.isCFOr, CF.propagNegAux]
  | var b i =>
    intro flip n hn
    cases n with
    | zero => simp [depth] at hn
    | succ k =>
      cases hx : (xor b flip) <;>
        simp [Gen.Stage.propag_neg, CF.setNeg, ofCF, ConjForm.isCFVar, CF.propagNegAux, CF.negated, ConjForm.id,
          ConjForm.negated, hx, lib_imp_refl, pfPair, cfPat]
  | and b l r _ _ =>
    intro flip n hn
    cases n with
    | zero => simp [depth] at hn
    | succ k => simp [Gen.Stage.propag_neg, CF.setNeg, ofCF, ConjForm.isCFVar, ConjForm.isCFOr, CF.propagNegAux]
  | or b l r ihl ihr =>
    intro flip n hn
    cases n with
    | zero => simp [depth] at hn
    | succ k =>
      have hl : depth l ≤ k := by simp [depth] at hn; omega
      have hr : depth r ≤ k := by simp [depth] at hn; omega
      simp only [CF.propagNegAux, CF.negated, CF.setNeg, ofCF]
      by_cases hx : xor b flip = true
      · have el := ihl true k hl
        have er := ihr true k hr
        simp only [Bool.xor_true] at el er
        simp only [Gen.Stage.propag_neg, ConjForm.isCFVar, ConjForm.isCFOr, hx, ConjForm.left, ConjForm.right,
          ConjForm.set_left, ConjForm.set_right, negated_CFOr, if_true, Bool.false_eq_true, if_false,
          Option.pure_def, Option.bind_eq_bind, Option.bind_some, set_negated_ofCF, negated_ofCF, el, er]
        cases CF.propagNegAux true l with
        | none => simp
        | some l' =>
          cases CF.propagNegAux true r with
          | none => simp
          | some r' =>
            simp only [Option.map_some, Option.bind_some, pfPair, ofCF, cfPat, cfPat_ofCF l, cfPat_ofCF r,
              cfPat_ofCF (l.setNeg _), cfPat_ofCF (r.setNeg _), baseP_setNeg, negated_setNeg, if_true,
              Bool.false_eq_true, if_false]
            generalize baseP l = BL
            generalize baseP r = BR
            generalize cfPat (ofCF l') = PL
            generalize cfPat (ofCF r') = PR
            cases l.negated <;> cases r.negated <;>
              simp [algCS_conc, lib_dni_l_i, lib_dni_r_i, lib_imim_and, extractImp, assertAnd_andP, assertNeg_negP,
                lib_dne_r, lib_dni_r, lib_con3_i, lib_imp_transitivity_and1,
                lib_imp_transitivity_and2, CFAnd_new] <;>
              simp [andP, orP]
      · have el := ihl false k hl
        have er := ihr false k hr
        simp only [Bool.xor_false, setNeg_negated] at el er
        simp only [Bool.not_eq_true] at hx
        simp only [Gen.Stage.propag_neg, ConjForm.isCFVar, ConjForm.isCFOr, hx, ConjForm.left, ConjForm.right,
          negated_CFOr, Bool.false_eq_true, if_false, Option.pure_def, Option.bind_eq_bind, Option.bind_some, el, er]
        cases CF.propagNegAux false l with
        | none => simp
        | some l' =>
          cases CF.propagNegAux false r with
          | none => simp
          | some r' => simp [pfPair, lib_imim_or, CFOr_new, cfPat, ofCF]

/-- `propag_neg` as written: it raises exactly when the model's `CF.propagNeg` does, and otherwise returns the model's
result with a proof of `conj_to_pattern(in) -> conj_to_pattern(out)` and a proof of the converse -/
theorem propag_neg_C (c : CF) (n : Nat) (hn : depth c ≤ n) :
    Gen.Stage.propag_neg algCS n (ofCF c) = (CF.propagNeg c).map fun r => pfPair (ofCF c) (ofCF r) := by
  have := propag_neg_C_aux c false n hn
  simpa [setNeg_negated, CF.propagNeg] using this

/-! ## Part D — `to_cnf` on conclusions -/

section Distr
variable (a x y z : Pat)

/-- `imp_trans_match2(h, self.or_distr_r())`: the schema `(φ0 ∧ φ1) ∨ φ2 -> (φ0 ∨ φ2) ∧ (φ1 ∨ φ2)` is matched against the
conclusion of `h` and instantiated -/
theorem itm2_or_distr_r :
    Gen.Stage.imp_trans_match2 algCS (.imp a (orP (andP x y) z))
      (.imp (orP (andP (phi 0) (phi 1)) (phi 2)) (andP (orP (phi 0) (phi 2)) (orP (phi 1) (phi 2)))) =
      some (.imp a (andP (orP x z) (orP y z))) := by
  have hm : matchSingle (orP (andP (phi 0) (phi 1)) (phi 2)) (orP (andP x y) z) [] = some [(0, x), (1, y), (2, z)] := by
    simp [matchSingle, matchP, orP, andP, negP, Lem.botP, phi, Py.lookup]
  have hi : algCS.inst (.imp (orP (andP (phi 0) (phi 1)) (phi 2)) (andP (orP (phi 0) (phi 2)) (orP (phi 1) (phi 2))))
      [(0, x), (1, y), (2, z)] = .imp (orP (andP x y) z) (andP (orP x z) (orP y z)) := rfl
  simp only [Gen.Stage.imp_trans_match2, algCS_conc, extractImp, hm, pyAssert, Option.isSome_some, if_true,
    Option.bind_eq_bind, Option.bind_some, hi, lib_imp_transitivity]

theorem itm1_or_distr_r_rev :
    Gen.Stage.imp_trans_match1 algCS
      (.imp (andP (orP (phi 0) (phi 2)) (orP (phi 1) (phi 2))) (orP (andP (phi 0) (phi 1)) (phi 2)))
      (.imp (orP (andP x y) z) a) = some (.imp (andP (orP x z) (orP y z)) a) := by
  have hm : matchSingle (orP (andP (phi 0) (phi 1)) (phi 2)) (orP (andP x y) z) [] = some [(0, x), (1, y), (2, z)] := by
    simp [matchSingle, matchP, orP, andP, negP, Lem.botP, phi, Py.lookup]
  have hi : algCS.inst (.imp (andP (orP (phi 0) (phi 2)) (orP (phi 1) (phi 2))) (orP (andP (phi 0) (phi 1)) (phi 2)))
      [(0, x), (1, y), (2, z)] = .imp (andP (orP x z) (orP y z)) (orP (andP x y) z) := rfl
  simp only [Gen.Stage.imp_trans_match1, algCS_conc, extractImp, hm, pyAssert, Option.isSome_some, if_true,
    Option.bind_eq_bind, Option.bind_some, hi, lib_imp_transitivity]

theorem itm2_or_distr_l :
    Gen.Stage.imp_trans_match2 algCS (.imp a (orP x (andP y z)))
      (.imp (orP (phi 0) (andP (phi 1) (phi 2))) (andP (orP (phi 0) (phi 1)) (orP (phi 0) (phi 2)))) =
      some (.imp a (andP (orP x y) (orP x z))) := by
  have hm : matchSingle (orP (phi 0) (andP (phi 1) (phi 2))) (orP x (andP y z)) [] = some [(0, x), (1, y), (2, z)] := by
    simp [matchSingle, matchP, orP, andP, negP, Lem.botP, phi, Py.lookup]
  have hi : algCS.inst (.imp (orP (phi 0) (andP (phi 1) (phi 2))) (andP (orP (phi 0) (phi 1)) (orP (phi 0) (phi 2))))
      [(0, x), (1, y), (2, z)] = .imp (orP x (andP y z)) (andP (orP x y) (orP x z)) := rfl
  simp only [Gen.Stage.imp_trans_match2, algCS_conc, extractImp, hm, pyAssert, Option.isSome_some, if_true,
    Option.bind_eq_bind, Option.bind_some, hi, lib_imp_transitivity]

theorem itm1_or_distr_l_rev :
    Gen.Stage.imp_trans_match1 algCS
      (.imp (andP (orP (phi 0) (phi 1)) (orP (phi 0) (phi 2))) (orP (phi 0) (andP (phi 1) (phi 2))))
      (.imp (orP x (andP y z)) a) = some (.imp (andP (orP x y) (orP x z)) a) := by
  have hm : matchSingle (orP (phi 0) (andP (phi 1) (phi 2))) (orP x (andP y z)) [] = some [(0, x), (1, y), (2, z)] := by
    simp [matchSingle, matchP, orP, andP, negP, Lem.botP, phi, Py.lookup]
  have hi : algCS.inst (.imp (andP (orP (phi 0) (phi 1)) (orP (phi 0) (phi 2))) (orP (phi 0) (andP (phi 1) (phi 2))))
      [(0, x), (1, y), (2, z)] = .imp (andP (orP x y) (orP x z)) (orP x (andP y z)) := rfl
  simp only [Gen.Stage.imp_trans_match1, algCS_conc, extractImp, hm, pyAssert, Option.isSome_some, if_true,
    Option.bind_eq_bind, Option.bind_some, hi, lib_imp_transitivity]

end Distr

/-- `to_cnf` as written, on a negation normal form: it raises / runs out of fuel exactly when the model's `CF.toCnfF` does,
and otherwise returns the model's result with a proof of `conj_to_pattern(in) -> conj_to_pattern(out)` and of the converse -/
theorem to_cnf_C : ∀ (k : Nat) (c : CF), c.IsNNF = true →
    Gen.Stage.to_cnf algCS k (ofCF c) = (CF.toCnfF k c).map fun r => pfPair (ofCF c) (ofCF r) := by
  intro k
  induction k with
  | zero => intro c _; simp [Gen.Stage.to_cnf, CF.toCnfF]
  | succ k ih =>
    intro c hc
    cases c with
    | bot b => simp [CF.IsNNF] at hc
    | var b i =>
      cases b <;> simp [Gen.Stage.to_cnf, CF.toCnfF, ofCF, ConjForm.isCFVar, ConjForm.id, ConjForm.negated, lib_imp_refl,
        pfPair, cfPat]
    | and b l r =>
      simp only [CF.IsNNF, Bool.and_eq_true, Bool.not_eq_true'] at hc
      obtain ⟨⟨hb, hl⟩, hr⟩ := hc
      subst hb
      simp only [Gen.Stage.to_cnf, CF.toCnfF, ofCF, ConjForm.isCFVar, ConjForm.isCFAnd, ConjForm.left, ConjForm.right,
        Option.pure_def, Option.bind_eq_bind, Option.bind_some, ih l hl, ih r hr, Bool.false_eq_true, if_false, if_true]
      cases CF.toCnfF k l <;> cases CF.toCnfF k r <;> simp [CFAnd_new, ofCF, pfPair, lib_imim_and, cfPat]
    | or b l r =>
      simp only [CF.IsNNF, Bool.and_eq_true, Bool.not_eq_true'] at hc
      obtain ⟨⟨hb, hl⟩, hr⟩ := hc
      subst hb
      simp only [Gen.Stage.to_cnf, CF.toCnfF, ofCF, ConjForm.isCFVar, ConjForm.isCFAnd, ConjForm.isCFOr, ConjForm.left,
        ConjForm.right, Option.pure_def, Option.bind_eq_bind, Option.bind_some, ih l hl, ih r hr, Bool.false_eq_true,
        if_false, if_true]
      cases hl' : CF.toCnfF k l with
      | none => simp
      | some l' =>
        cases hr' : CF.toCnfF k r with
        | none => simp
        | some r' =>
          have cl := (CF.toCnfF_spec k l l' hl hl').2
          have cr := (CF.toCnfF_spec k r r' hr hr').2
          have nl := CF.isNNF_of_isCNF l' cl
          have nr := CF.isNNF_of_isCNF r' cr
          cases l' with
          | bot bl => simp [CF.IsCNF] at cl
          | and bl ll lr =>
            simp only [CF.IsNNF, Bool.and_eq_true, Bool.not_eq_true'] at nl
            obtain ⟨⟨hbl, nll⟩, nlr⟩ := nl
            subst hbl
            have hn : (CF.and false (.or false ll r') (.or false lr r')).IsNNF = true := by
              simp [CF.IsNNF, nll, nlr, nr]
            have := ih _ hn
            simp only [ofCF] at this
            simp only [Option.map_some, Option.bind_some, pfPair, ofCF, cfPat, lib_imim_or, algCS_conc, extractImp,
              ConjForm.isCFAnd, ConjForm.left, ConjForm.right, CFAnd_new, CFOr_new, Bool.false_eq_true, if_false,
              if_true, lib_or_distr_r, lib_or_distr_r_rev, itm2_or_distr_r, itm1_or_distr_r_rev, this]
            cases CF.toCnfF k (.and false (.or false ll r') (.or false lr r')) with
            | none => simp
            | some q => simp [pfPair, cfPat, lib_imp_transitivity]
          | var bl il =>
            cases r' with
            | bot br => simp [CF.IsCNF] at cr
            | and br rl rr =>
              simp only [CF.IsNNF, Bool.and_eq_true, Bool.not_eq_true'] at nr
              obtain ⟨⟨hbr, nrl⟩, nrr⟩ := nr
              subst hbr
              have hn : (CF.and false (.or false (.var bl il) rl) (.or false (.var bl il) rr)).IsNNF = true := by
                have nl' := nl
                simp only [CF.IsNNF] at nl' ⊢
                simp [nl', nrl, nrr]
              have := ih _ hn
              simp only [ofCF] at this
              simp only [Option.map_some, Option.bind_some, pfPair, ofCF, cfPat, lib_imim_or, algCS_conc, extractImp,
                ConjForm.isCFAnd, ConjForm.left, ConjForm.right, CFAnd_new, CFOr_new, Bool.false_eq_true, if_false,
                if_true, lib_or_distr_l, lib_or_distr_l_rev, itm2_or_distr_l, itm1_or_distr_l_rev, this]
              cases CF.toCnfF k (.and false (.or false (.var bl il) rl) (.or false (.var bl il) rr)) with
              | none => simp
              | some q => simp [pfPair, cfPat, lib_imp_transitivity]
            | var br ir =>
              simp [pfPair, ofCF, cfPat, lib_imim_or, algCS_conc, extractImp, ConjForm.isCFAnd, CFOr_new]
            | or br rl rr =>
              simp [pfPair, ofCF, cfPat, lib_imim_or, algCS_conc, extractImp, ConjForm.isCFAnd, CFOr_new]
          | or bl ll lr =>
            cases r' with
            | bot br => simp [CF.IsCNF] at cr
            | and br rl rr =>
              simp only [CF.IsNNF, Bool.and_eq_true, Bool.not_eq_true'] at nr
              obtain ⟨⟨hbr, nrl⟩, nrr⟩ := nr
              subst hbr
              have hn : (CF.and false (.or false (.or bl ll lr) rl) (.or false (.or bl ll lr) rr)).IsNNF = true := by
                have nl' := nl
                simp only [CF.IsNNF] at nl' ⊢
                simp [nl', nrl, nrr]
              have := ih _ hn
              simp only [ofCF] at this
              simp only [Option.map_some, Option.bind_some, pfPair, ofCF, cfPat, lib_imim_or, algCS_conc, extractImp,
                ConjForm.isCFAnd, ConjForm.left, ConjForm.right, CFAnd_new, CFOr_new, Bool.false_eq_true, if_false,
                if_true, lib_or_distr_l, lib_or_distr_l_rev, itm2_or_distr_l, itm1_or_distr_l_rev, this]
              cases CF.toCnfF k (.and false (.or false (.or bl ll lr) rl) (.or false (.or bl ll lr) rr)) with
              | none => simp
              | some q => simp [pfPair, cfPat, lib_imp_transitivity]
            | var br ir =>
              simp [pfPair, ofCF, cfPat, lib_imim_or, algCS_conc, extractImp, ConjForm.isCFAnd, CFOr_new]
            | or br rl rr =>
              simp [pfPair, ofCF, cfPat, lib_imim_or, algCS_conc, extractImp, ConjForm.isCFAnd, CFOr_new]

/-! ## Part E — `to_clauses` on conclusions -/

theorem algCS_inst (c : Pat) (δ : Subst) : algCS.inst c δ = instC c δ := rfl

/-- a binary notation through which matching and instantiation go componentwise (`_and`, `_or`) -/
structure BinOp (op : Pat → Pat → Pat) : Prop where
  hmatch : ∀ a b a' b' ret, matchP (op a b) (op a' b') ret = (matchP a a' ret).bind (matchP b b')
  hinst : ∀ (δ : Nat → Option Pat) a b, Py.inst δ (op a b) = op (Py.inst δ a) (Py.inst δ b)

theorem matchP_botP (ret : Subst) : matchP Lem.botP Lem.botP ret = some ret := by
  simp [Lem.botP, matchP]

theorem binOp_and : BinOp andP where
  hmatch a b a' b' ret := by
    simp only [andP, negP, matchP, matchP_botP]
    cases matchP a a' ret with
    | none => rfl
    | some r1 =>
      simp only [Option.bind_some]
      cases matchP b b' r1 <;> rfl
  hinst _ _ _ := rfl

theorem binOp_or : BinOp orP where
  hmatch a b a' b' ret := by
    simp only [orP, negP, matchP, matchP_botP]
    cases matchP a a' ret <;> rfl
  hinst _ _ _ := rfl

theorem foldrP_cons (op : Pat → Pat → Pat) (a : Pat) (xs : List Pat) (h : xs ≠ []) :
    foldrP op (a :: xs) = op a (foldrP op xs) := by
  cases xs with
  | nil => exact absurd rfl h
  | cons b r => rfl

theorem foldrP_append (op : Pat → Pat → Pat) (P B : List Pat) (hB : B ≠ []) :
    foldrP op (P ++ B) = P.foldr op (foldrP op B) := by
  induction P with
  | nil => rfl
  | cons a P ih =>
    have : P ++ B ≠ [] := by simp [hB]
    rw [List.cons_append, foldrP_cons op a _ this, ih, List.foldr_cons]

theorem matchP_phi (v : Nat) (p : Pat) (ret : Subst) (h : Py.lookup ret v = none) :
    matchP (phi v) p ret = some (ret ++ [(v, p)]) := by
  simp [phi, matchP, h]

theorem lookup_append_none {ret : Subst} {v w : Nat} {p : Pat} (h : Py.lookup ret w = none) (hne : v ≠ w) :
    Py.lookup (ret ++ [(v, p)]) w = none := by
  induction ret with
  | nil => simp [Py.lookup, hne]
  | cons kv r ih =>
    obtain ⟨k, x⟩ := kv
    simp only [List.cons_append, Py.lookup] at h ⊢
    by_cases hk : k = w
    · simp [hk] at h
    · simp only [hk, if_false] at h ⊢
      exact ih h

/-- matching a right-nested `op`-chain of distinct fresh metavariables against a chain of the same length binds them in
order -/
theorem matchP_chain {op : Pat → Pat → Pat} (hop : BinOp op) : ∀ (vs : List Nat) (ps : List Pat) (ret : Subst),
    vs.length = ps.length → vs ≠ [] → vs.Nodup → (∀ v ∈ vs, Py.lookup ret v = none) →
    matchP (foldrP op (vs.map phi)) (foldrP op ps) ret = some (ret ++ vs.zip ps) := by
  intro vs
  induction vs with
  | nil => intro ps ret _ h; exact absurd rfl h
  | cons v vs ih =>
    intro ps ret hlen _ hnd hfr
    cases ps with
    | nil => simp at hlen
    | cons p ps =>
      cases vs with
      | nil =>
        cases ps with
        | nil => simpa [foldrP] using matchP_phi v p ret (hfr v (by simp))
        | cons _ _ => simp at hlen
      | cons v' vs =>
        cases ps with
        | nil => simp at hlen
        | cons p' ps =>
          have hnd' := List.nodup_cons.1 hnd
          simp only [List.map_cons, foldrP]
          rw [hop.hmatch, matchP_phi v p ret (hfr v (by simp))]
          simp only [Option.bind_some]
          have := ih (p' :: ps) (ret ++ [(v, p)]) (by simpa using hlen) (by simp) hnd'.2 (by
            intro w hw
            exact lookup_append_none (hfr w (List.mem_cons_of_mem _ hw)) (fun e => hnd'.1 (e ▸ hw)))
          simp only [List.map_cons, foldrP] at this
          rw [this]
          simp

theorem lookup_zip_notin (vs : List Nat) (ps : List Pat) (rest : Subst) (w : Nat) (h : w ∉ vs) :
    Py.lookup (vs.zip ps ++ rest) w = Py.lookup rest w := by
  induction vs generalizing ps with
  | nil => simp
  | cons v vs ih =>
    cases ps with
    | nil => simp
    | cons p ps =>
      have hv : v ≠ w := fun e => h (e ▸ List.mem_cons_self)
      simp only [List.zip_cons_cons, List.cons_append, Py.lookup, hv, if_false]
      exact ih ps (fun hm => h (List.mem_cons_of_mem _ hm))

/-- the substitution found by matching a chain sends the metavariables to the matched patterns -/
theorem inst_zip (vs : List Nat) : ∀ (ps : List Pat) (rest : Subst), vs.length = ps.length → vs.Nodup →
    (vs.map phi).map (Py.inst (Py.lookup (vs.zip ps ++ rest))) = ps := by
  induction vs with
  | nil => intro ps rest h _; cases ps <;> simp_all
  | cons v vs ih =>
    intro ps rest hlen hnd
    cases ps with
    | nil => simp at hlen
    | cons p ps =>
      have hnd' := List.nodup_cons.1 hnd
      simp only [List.map_cons, List.zip_cons_cons, List.cons_append, List.cons.injEq]
      refine ⟨by simp [phi, Py.inst, Py.lookup], ?_⟩
      have h2 := ih ps rest (by simpa using hlen) hnd'.2
      rw [List.map_map] at h2 ⊢
      refine Eq.trans (List.map_congr_left ?_) h2
      intro w hw
      have hv : v ≠ w := fun e => hnd'.1 (e ▸ hw)
      simp [phi, Py.inst, Py.lookup, hv]

theorem inst_foldr {op : Pat → Pat → Pat} (hop : BinOp op) (δ : Nat → Option Pat) (xs : List Pat) (z : Pat) :
    Py.inst δ (xs.foldr op z) = (xs.map (Py.inst δ)).foldr op (Py.inst δ z) := by
  induction xs with
  | nil => rfl
  | cons a xs ih => simp only [List.foldr_cons, List.map_cons, hop.hinst, ih]

theorem inst_foldrP {op : Pat → Pat → Pat} (hop : BinOp op) (δ : Nat → Option Pat) (xs : List Pat) (h : xs ≠ []) :
    Py.inst δ (foldrP op xs) = foldrP op (xs.map (Py.inst δ)) := by
  induction xs with
  | nil => exact absurd rfl h
  | cons a xs ih =>
    cases xs with
    | nil => rfl
    | cons b r =>
      have := ih (by simp)
      simp only [foldrP, List.map_cons, hop.hinst] at this ⊢
      rw [this]

/-- the metavariables of the shifting schema for `k + 2` operands, outermost first: `φ_{k+2}, …, φ_3, φ_0, φ_1` -/
def shiftVars : Nat → List Nat
  | 0 => [0, 1]
  | k + 1 => (k + 3) :: shiftVars k

theorem shiftVars_length (k : Nat) : (shiftVars k).length = k + 2 := by
  induction k with
  | zero => rfl
  | succ k ih => simp [shiftVars, ih]

theorem shiftVars_mem (k : Nat) : ∀ v ∈ shiftVars k, v = 0 ∨ v = 1 ∨ (3 ≤ v ∧ v ≤ k + 2) := by
  induction k with
  | zero => intro v hv; simp [shiftVars] at hv; omega
  | succ k ih =>
    intro v hv
    simp only [shiftVars, List.mem_cons] at hv
    rcases hv with rfl | hv
    · omega
    · have := ih v hv; omega

theorem shiftVars_nodup (k : Nat) : (shiftVars k).Nodup := by
  induction k with
  | zero => simp [shiftVars]
  | succ k ih =>
    simp only [shiftVars, List.nodup_cons]
    refine ⟨fun h => ?_, ih⟩
    have := shiftVars_mem k _ h
    omega

theorem shiftVars_ne_nil (k : Nat) : shiftVars k ≠ [] := by
  cases k <;> simp [shiftVars]

theorem two_notin_shiftVars (k : Nat) : 2 ∉ shiftVars k := by
  intro h
  have := shiftVars_mem k 2 h
  omega

/-- the left operand of the antecedent of the shifting schema: `φ_{k+2} . (… . (φ_3 . (φ_0 . φ_1)))` -/
def shiftL (op : Pat → Pat → Pat) (k : Nat) : Pat := foldrP op ((shiftVars k).map phi)
/-- its consequent: `φ_{k+2} . (… . (φ_3 . (φ_0 . (φ_1 . φ_2))))` -/
def shiftB (op : Pat → Pat → Pat) (k : Nat) : Pat := ((shiftVars k).map phi).foldr op (phi 2)

theorem shiftL_succ (op : Pat → Pat → Pat) (k : Nat) : shiftL op (k + 1) = op (phi (k + 3)) (shiftL op k) := by
  unfold shiftL
  simp only [shiftVars, List.map_cons]
  exact foldrP_cons op _ _ (by simp [shiftVars_ne_nil])

theorem shiftB_succ (op : Pat → Pat → Pat) (k : Nat) : shiftB op (k + 1) = op (phi (k + 3)) (shiftB op k) := rfl

/-- the substitution that matching `shiftL k . φ_2` against `(p_1 . (… . p_l)) . R` finds -/
def shiftSubst (k : Nat) (P : List Pat) (R : Pat) : Subst := (shiftVars k).zip P ++ [(2, R)]

theorem match_shift {op : Pat → Pat → Pat} (hop : BinOp op) (k : Nat) (P : List Pat) (R : Pat) (hP : P.length = k + 2) :
    matchSingle (op (shiftL op k) (phi 2)) (op (foldrP op P) R) [] = some (shiftSubst k P R) := by
  unfold matchSingle shiftL
  rw [hop.hmatch, matchP_chain hop (shiftVars k) P [] (by rw [shiftVars_length, hP]) (shiftVars_ne_nil k)
    (shiftVars_nodup k) (by intro v _; rfl)]
  simp only [Option.bind_some, List.nil_append]
  rw [matchP_phi 2 R _ (by
    have := lookup_zip_notin (shiftVars k) P [] 2 (two_notin_shiftVars k)
    simpa [Py.lookup] using this)]
  rfl

theorem inst_shiftL {op : Pat → Pat → Pat} (hop : BinOp op) (k : Nat) (P : List Pat) (R : Pat) (hP : P.length = k + 2) :
    Py.inst (Py.lookup (shiftSubst k P R)) (shiftL op k) = foldrP op P := by
  unfold shiftL shiftSubst
  rw [inst_foldrP hop _ _ (by simp [shiftVars_ne_nil]),
    inst_zip (shiftVars k) P _ (by rw [shiftVars_length, hP]) (shiftVars_nodup k)]

theorem inst_shiftB {op : Pat → Pat → Pat} (hop : BinOp op) (k : Nat) (P : List Pat) (R : Pat) (hP : P.length = k + 2) :
    Py.inst (Py.lookup (shiftSubst k P R)) (shiftB op k) = P.foldr op R := by
  unfold shiftB shiftSubst
  rw [inst_foldr hop, inst_zip (shiftVars k) P _ (by rw [shiftVars_length, hP]) (shiftVars_nodup k)]
  congr 1
  have := lookup_zip_notin (shiftVars k) P [(2, R)] 2 (two_notin_shiftVars k)
  simp [phi, Py.inst, this, Py.lookup]

theorem inst_phi2 (k : Nat) (P : List Pat) (R : Pat) : Py.inst (Py.lookup (shiftSubst k P R)) (phi 2) = R := by
  have := lookup_zip_notin (shiftVars k) P [(2, R)] 2 (two_notin_shiftVars k)
  simp [shiftSubst, phi, Py.inst, this, Py.lookup]

theorem shiftSubst_ne_nil (k : Nat) (P : List Pat) (R : Pat) : (shiftSubst k P R).isEmpty = false := by
  simp [shiftSubst]

/-- `imp_trans_match2(ret_pf1, shift_right)` after the loop -/
theorem itm2_shift {op : Pat → Pat → Pat} (hop : BinOp op) (k : Nat) (X R : Pat) (P : List Pat) (hP : P.length = k + 2) :
    Gen.Stage.imp_trans_match2 algCS (.imp X (op (foldrP op P) R)) (.imp (op (shiftL op k) (phi 2)) (shiftB op k)) =
      some (.imp X (P.foldr op R)) := by
  have hi : algCS.inst (.imp (op (shiftL op k) (phi 2)) (shiftB op k)) (shiftSubst k P R) =
      .imp (op (foldrP op P) R) (P.foldr op R) := by
    rw [algCS_inst]
    unfold instC
    rw [shiftSubst_ne_nil]
    simp only [Bool.false_eq_true, if_false, instP, Py.inst, hop.hinst, inst_shiftL hop k P R hP,
      inst_shiftB hop k P R hP, inst_phi2]
  simp only [Gen.Stage.imp_trans_match2, algCS_conc, extractImp, match_shift hop k P R hP, pyAssert,
    Option.isSome_some, if_true, Option.bind_eq_bind, Option.bind_some, hi, lib_imp_transitivity]

/-- `imp_trans_match1(shift_left, ret_pf2)` after the loop -/
theorem itm1_shift {op : Pat → Pat → Pat} (hop : BinOp op) (k : Nat) (Y R : Pat) (P : List Pat) (hP : P.length = k + 2) :
    Gen.Stage.imp_trans_match1 algCS (.imp (shiftB op k) (op (shiftL op k) (phi 2))) (.imp (op (foldrP op P) R) Y) =
      some (.imp (P.foldr op R) Y) := by
  have hi : algCS.inst (.imp (shiftB op k) (op (shiftL op k) (phi 2))) (shiftSubst k P R) =
      .imp (P.foldr op R) (op (foldrP op P) R) := by
    rw [algCS_inst]
    unfold instC
    rw [shiftSubst_ne_nil]
    simp only [Bool.false_eq_true, if_false, instP, Py.inst, hop.hinst, inst_shiftL hop k P R hP,
      inst_shiftB hop k P R hP, inst_phi2]
  simp only [Gen.Stage.imp_trans_match1, algCS_conc, extractImp, match_shift hop k P R hP, pyAssert,
    Option.isSome_some, if_true, Option.bind_eq_bind, Option.bind_some, hi, lib_imp_transitivity]

/-- one iteration of the loops of `to_clauses`, `shift_right`: `imp_trans_match1(assoc_r(), imim_op_r(φ, shift_right))` -/
theorem itm1_assoc_step {op : Pat → Pat → Pat} (hop : BinOp op) (v L B : Pat) :
    Gen.Stage.imp_trans_match1 algCS (.imp (op (op (phi 0) (phi 1)) (phi 2)) (op (phi 0) (op (phi 1) (phi 2))))
      (.imp (op v (op L (phi 2))) (op v B)) = some (.imp (op (op v L) (phi 2)) (op v B)) := by
  have hm : matchSingle (op (phi 0) (op (phi 1) (phi 2))) (op v (op L (phi 2))) [] =
      some [(0, v), (1, L), (2, phi 2)] := by
    unfold matchSingle
    rw [hop.hmatch, matchP_phi 0 v [] rfl]
    simp only [Option.bind_some]
    rw [hop.hmatch, matchP_phi 1 L _ rfl]
    simp only [Option.bind_some]
    rw [matchP_phi 2 _ _ rfl]
    rfl
  have hi : algCS.inst (.imp (op (op (phi 0) (phi 1)) (phi 2)) (op (phi 0) (op (phi 1) (phi 2))))
      [(0, v), (1, L), (2, phi 2)] = .imp (op (op v L) (phi 2)) (op v (op L (phi 2))) := by
    rw [algCS_inst]
    simp [instC, instP, Py.inst, hop.hinst, phi, Py.lookup]
  simp only [Gen.Stage.imp_trans_match1, algCS_conc, extractImp, hm, pyAssert, Option.isSome_some, if_true,
    Option.bind_eq_bind, Option.bind_some, hi, lib_imp_transitivity]

/-- …`shift_left`: `imp_trans_match2(imim_op_r(φ, shift_left), assoc_l())` -/
theorem itm2_assoc_step {op : Pat → Pat → Pat} (hop : BinOp op) (v L B : Pat) :
    Gen.Stage.imp_trans_match2 algCS (.imp (op v B) (op v (op L (phi 2))))
      (.imp (op (phi 0) (op (phi 1) (phi 2))) (op (op (phi 0) (phi 1)) (phi 2))) =
      some (.imp (op v B) (op (op v L) (phi 2))) := by
  have hm : matchSingle (op (phi 0) (op (phi 1) (phi 2))) (op v (op L (phi 2))) [] =
      some [(0, v), (1, L), (2, phi 2)] := by
    unfold matchSingle
    rw [hop.hmatch, matchP_phi 0 v [] rfl]
    simp only [Option.bind_some]
    rw [hop.hmatch, matchP_phi 1 L _ rfl]
    simp only [Option.bind_some]
    rw [matchP_phi 2 _ _ rfl]
    rfl
  have hi : algCS.inst (.imp (op (phi 0) (op (phi 1) (phi 2))) (op (op (phi 0) (phi 1)) (phi 2)))
      [(0, v), (1, L), (2, phi 2)] = .imp (op v (op L (phi 2))) (op (op v L) (phi 2)) := by
    rw [algCS_inst]
    simp [instC, instP, Py.inst, hop.hinst, phi, Py.lookup]
  simp only [Gen.Stage.imp_trans_match2, algCS_conc, extractImp, hm, pyAssert, Option.isSome_some, if_true,
    Option.bind_eq_bind, Option.bind_some, hi, lib_imp_transitivity]

/-- the pair (`shift_right`, `shift_left`) for `k + 2` operands -/
def shiftPair (op : Pat → Pat → Pat) (k : Nat) : Pat × Pat :=
  (.imp (op (shiftL op k) (phi 2)) (shiftB op k), .imp (shiftB op k) (op (shiftL op k) (phi 2)))

theorem mvP_add3 (k : Nat) : mvP (((k : Nat) : Int) + 3) = phi (k + 3) := by
  unfold mvP
  congr 1

theorem range_shift (m k : Nat) : (List.range (m + 1)).map (fun j => ((k + j : Nat) : Int)) =
    ((k : Nat) : Int) :: (List.range m).map (fun j => ((k + 1 + j : Nat) : Int)) := by
  rw [List.range_succ_eq_map, List.map_cons, List.map_map]
  simp only [Nat.add_zero, List.cons.injEq, true_and]
  apply List.map_congr_left
  intro j _
  simp only [Function.comp]
  congr 1
  omega

/-- the loop at line 589 (`and`): `m` more iterations from the state for `k + 2` operands -/
theorem to_clauses_for1_C : ∀ (m k : Nat),
    Gen.Stage.to_clauses_for1 algCS ((List.range m).map fun j => ((k + j : Nat) : Int))
      (shiftPair andP k).1 (shiftPair andP k).2 = some (shiftPair andP (k + m)) := by
  intro m
  induction m with
  | zero => intro k; rfl
  | succ m ih =>
    intro k
    rw [range_shift]
    simp only [Gen.Stage.to_clauses_for1, shiftPair, lib_and_assoc_r, lib_and_assoc_l, lib_imim_and_r, mvP_add3,
      Option.bind_eq_bind, Option.bind_some, itm1_assoc_step binOp_and, itm2_assoc_step binOp_and]
    have := ih (k + 1)
    simp only [shiftPair, shiftL_succ, shiftB_succ] at this
    rw [this]
    have e : k + 1 + m = k + (m + 1) := by omega
    rw [e]

/-- the loop at line 609 (`or`) -/
theorem to_clauses_for2_C : ∀ (m k : Nat),
    Gen.Stage.to_clauses_for2 algCS ((List.range m).map fun j => ((k + j : Nat) : Int))
      (shiftPair orP k).1 (shiftPair orP k).2 = some (shiftPair orP (k + m)) := by
  intro m
  induction m with
  | zero => intro k; rfl
  | succ m ih =>
    intro k
    rw [range_shift]
    simp only [Gen.Stage.to_clauses_for2, shiftPair, lib_or_assoc_r, lib_or_assoc_l, lib_imim_or_r, mvP_add3,
      Option.bind_eq_bind, Option.bind_some, itm1_assoc_step binOp_or, itm2_assoc_step binOp_or]
    have := ih (k + 1)
    simp only [shiftPair, shiftL_succ, shiftB_succ] at this
    rw [this]
    have e : k + 1 + m = k + (m + 1) := by omega
    rw [e]

theorem shiftPair_zero_and : shiftPair andP 0 = (.imp (andP (andP (phi 0) (phi 1)) (phi 2)) (andP (phi 0) (andP (phi 1) (phi 2))),
    .imp (andP (phi 0) (andP (phi 1) (phi 2))) (andP (andP (phi 0) (phi 1)) (phi 2))) := rfl
theorem shiftPair_zero_or : shiftPair orP 0 = (.imp (orP (orP (phi 0) (phi 1)) (phi 2)) (orP (phi 0) (orP (phi 1) (phi 2))),
    .imp (orP (phi 0) (orP (phi 1) (phi 2))) (orP (orP (phi 0) (phi 1)) (phi 2))) := rfl

theorem pyRange2_shift (n : Nat) : pyRange2 (0 : Int) (((n + 2 : Nat) : Int) - 2) =
    (List.range n).map fun j => ((0 + j : Nat) : Int) := by
  unfold pyRange2
  have : (((n + 2 : Nat) : Int) - 2 - 0).toNat = n := by omega
  rw [this]
  apply List.map_congr_left
  intro j _
  omega

theorem clausesPat_eq (cs : List (List Int)) (h : cs ≠ []) : clausesPat cs = foldrP andP (cs.map clausePat) := by
  cases cs with
  | nil => exact absurd rfl h
  | cons _ _ => rfl

theorem clausePat_eq (c : List Int) (h : c ≠ []) : clausePat c = foldrP orP (c.map idPat) := by
  cases c with
  | nil => exact absurd rfl h
  | cons _ _ => rfl

/-- what `to_clauses` returns: the clause list, a proof of `conj_to_pattern(in) -> clause_conjunctionto_pattern(out)` and of
the converse -/
def clSpec (c : ConjForm) (cls : List (List Int)) : List (List Int) × Pat × Pat :=
  (cls, .imp (cfPat c) (clausesPat cls), .imp (clausesPat cls) (cfPat c))

theorem pyLen_cons2 {α} (a1 a2 : α) (r : List α) : pyLen (a1 :: a2 :: r) = ((r.length + 2 : Nat) : Int) := by
  simp [pyLen]; omega

/-- the loop of the `CFAnd` branch, from `and_assoc_r()` / `and_assoc_l()`, on a clause list with at least two clauses -/
theorem gt0_len (n : Nat) : decide (((n + 2 : Nat) : Int) > 0) = true := by simp; omega
theorem gt1_len (n : Nat) : decide (((n + 2 : Nat) : Int) > 1) = true := by simp; omega

theorem for1_run (n : Nat) :
    Gen.Stage.to_clauses_for1 algCS (pyRange2 (0 : Int) (((n + 2 : Nat) : Int) - (2 : Int)))
      (.imp (andP (andP (phi 0) (phi 1)) (phi 2)) (andP (phi 0) (andP (phi 1) (phi 2))))
      (.imp (andP (phi 0) (andP (phi 1) (phi 2))) (andP (andP (phi 0) (phi 1)) (phi 2))) =
    some (shiftPair andP n) := by
  rw [pyRange2_shift]
  have := to_clauses_for1_C n 0
  simp only [shiftPair_zero_and] at this
  rw [show 0 + n = n from Nat.zero_add _] at this
  exact this

theorem for2_run (n : Nat) :
    Gen.Stage.to_clauses_for2 algCS (pyRange2 (0 : Int) (((n + 2 : Nat) : Int) - (2 : Int)))
      (.imp (orP (orP (phi 0) (phi 1)) (phi 2)) (orP (phi 0) (orP (phi 1) (phi 2))))
      (.imp (orP (phi 0) (orP (phi 1) (phi 2))) (orP (orP (phi 0) (phi 1)) (phi 2))) =
    some (shiftPair orP n) := by
  rw [pyRange2_shift]
  have := to_clauses_for2_C n 0
  simp only [shiftPair_zero_or] at this
  rw [show 0 + n = n from Nat.zero_add _] at this
  exact this

theorem pyIndex_cons_zero {α} (a : α) (l : List α) : pyIndex (a :: l) (0 : Int) = some a := by simp [pyIndex]
theorem clausePat_single (i : Int) : clausePat [i] = idPat i := rfl
theorem clausesPat_single (a1 : List Int) : clausesPat [a1] = clausePat a1 := rfl

theorem clausesPat_cons (a1 : List Int) (b : List (List Int)) (hb : b ≠ []) :
    clausesPat (a1 :: b) = andP (clausePat a1) (clausesPat b) := by
  cases b with
  | nil => exact absurd rfl hb
  | cons _ _ => rfl

theorem clausePat_cons (x1 : Int) (y : List Int) (hy : y ≠ []) : clausePat (x1 :: y) = orP (idPat x1) (clausePat y) := by
  cases y with
  | nil => exact absurd rfl hy
  | cons _ _ => rfl

theorem clausesPat_shift (a1 a2 : List Int) (r b : List (List Int)) (hb : b ≠ []) :
    ((a1 :: a2 :: r).map clausePat).foldr andP (clausesPat b) = clausesPat (a1 :: a2 :: r ++ b) := by
  rw [clausesPat_eq b hb, clausesPat_eq (a1 :: a2 :: r ++ b) (by simp), List.map_append,
    foldrP_append andP _ _ (by simp [hb])]

theorem clausePat_shift (x1 x2 : Int) (r y : List Int) (hy : y ≠ []) :
    ((x1 :: x2 :: r).map idPat).foldr orP (clausePat y) = clausePat (x1 :: x2 :: r ++ y) := by
  rw [clausePat_eq y hy, clausePat_eq (x1 :: x2 :: r ++ y) (by simp), List.map_append,
    foldrP_append orP _ _ (by simp [hy])]

theorem itm2_and_clauses (X : Pat) (a1 a2 : List Int) (r b : List (List Int)) (hb : b ≠ []) :
    Gen.Stage.imp_trans_match2 algCS (.imp X (andP (clausesPat (a1 :: a2 :: r)) (clausesPat b))) (shiftPair andP r.length).1 =
      some (.imp X (clausesPat (a1 :: a2 :: r ++ b))) := by
  rw [← clausesPat_shift a1 a2 r b hb, clausesPat_eq (a1 :: a2 :: r) (by simp)]
  exact itm2_shift binOp_and r.length X _ _ (by simp)

theorem itm1_and_clauses (X : Pat) (a1 a2 : List Int) (r b : List (List Int)) (hb : b ≠ []) :
    Gen.Stage.imp_trans_match1 algCS (shiftPair andP r.length).2 (.imp (andP (clausesPat (a1 :: a2 :: r)) (clausesPat b)) X) =
      some (.imp (clausesPat (a1 :: a2 :: r ++ b)) X) := by
  rw [← clausesPat_shift a1 a2 r b hb, clausesPat_eq (a1 :: a2 :: r) (by simp)]
  exact itm1_shift binOp_and r.length X _ _ (by simp)

theorem itm2_or_clause (X : Pat) (x1 x2 : Int) (r y : List Int) (hy : y ≠ []) :
    Gen.Stage.imp_trans_match2 algCS (.imp X (orP (clausePat (x1 :: x2 :: r)) (clausePat y))) (shiftPair orP r.length).1 =
      some (.imp X (clausePat (x1 :: x2 :: r ++ y))) := by
  rw [← clausePat_shift x1 x2 r y hy, clausePat_eq (x1 :: x2 :: r) (by simp)]
  exact itm2_shift binOp_or r.length X _ _ (by simp)

theorem itm1_or_clause (X : Pat) (x1 x2 : Int) (r y : List Int) (hy : y ≠ []) :
    Gen.Stage.imp_trans_match1 algCS (shiftPair orP r.length).2 (.imp (orP (clausePat (x1 :: x2 :: r)) (clausePat y)) X) =
      some (.imp (clausePat (x1 :: x2 :: r ++ y)) X) := by
  rw [← clausePat_shift x1 x2 r y hy, clausePat_eq (x1 :: x2 :: r) (by simp)]
  exact itm1_shift binOp_or r.length X _ _ (by simp)

theorem idPat_pos (i : Nat) : idPat ((i : Int) + 1) = phi i := by
  unfold idPat
  have h : ¬ ((i : Int) + 1 < 0) := by omega
  rw [if_neg h]
  have e : ((i : Int) + 1 - 1).toNat = i := by omega
  rw [e]

theorem idPat_neg (i : Nat) : idPat (-((i : Int) + 1)) = negP (phi i) := by
  unfold idPat
  have h : (-((i : Int) + 1) < 0) := by omega
  rw [if_pos h]
  have e : (-(-((i : Int) + 1) + 1)).toNat = i := by omega
  rw [e]

theorem mvP_nat (i : Nat) : mvP (i : Int) = phi i := rfl

/-- `to_clauses` as written, on a conjunctive normal form: it raises exactly when the model's `CF.toClauses` does (never, by
`CF.toClauses_spec`), and otherwise returns the model's clause list with a proof of
`conj_to_pattern(in) -> clause_conjunctionto_pattern(out)` and a proof of the converse -/
theorem to_clauses_C (c : CF) : ∀ n, depth c ≤ n → c.IsCNF = true →
    Gen.Stage.to_clauses algCS n (ofCF c) = (CF.toClauses c).map (clSpec (ofCF c)) := by
  induction c with
  | bot b => intro n _ h; simp [CF.IsCNF] at h
  | var b i =>
    intro n hn _
    cases n with
    | zero => simp [depth] at hn
    | succ k =>
      cases b <;>
        simp [Gen.Stage.to_clauses, ofCF, ConjForm.isCFVar, ConjForm.negated, ConjForm.id, CF.toClauses, lib_imp_refl,
          clSpec, cfPat, clausesPat_single, clausePat, foldrP, idPat_pos, idPat_neg, mvP_nat]
  | and b l r ihl ihr =>
    intro n hn hc
    cases n with
    | zero => simp [depth] at hn
    | succ k =>
      have hl : depth l ≤ k := by simp [depth] at hn; omega
      have hr : depth r ≤ k := by simp [depth] at hn; omega
      simp only [CF.IsCNF, Bool.and_eq_true, Bool.not_eq_true'] at hc
      obtain ⟨⟨hb, cl⟩, cr⟩ := hc
      subst hb
      simp only [Gen.Stage.to_clauses, CF.toClauses, ofCF, ConjForm.isCFVar, ConjForm.isCFAnd, ConjForm.left,
        ConjForm.right, Option.pure_def, Option.bind_eq_bind, Option.bind_some, ihl k hl cl, ihr k hr cr,
        Bool.false_eq_true, if_false, if_true]
      cases hx : CF.toClauses l with
      | none => simp
      | some x =>
        cases hy : CF.toClauses r with
        | none => simp
        | some y =>
          have hxn := (toClauses_nonempty l x hx).1
          have hyn := (toClauses_nonempty r y hy).1
          match x, hxn with
          | [a1], _ =>
            simp [clSpec, cfPat, lib_imim_and, pyAssert, pyLen, clausesPat_single, clausesPat_cons a1 y hyn]
          | a1 :: a2 :: rest, _ =>
            simp only [Option.map_some, Option.bind_some, clSpec, cfPat, lib_imim_and, pyAssert,
              lib_and_assoc_r, lib_and_assoc_l, for1_run, itm2_and_clauses _ a1 a2 rest y hyn,
              itm1_and_clauses _ a1 a2 rest y hyn, pyLen_cons2, gt0_len, gt1_len, Bool.false_eq_true, if_false, if_true]
  | or b l r ihl ihr =>
    intro n hn hc
    cases n with
    | zero => simp [depth] at hn
    | succ k =>
      have hl : depth l ≤ k := by simp [depth] at hn; omega
      have hr : depth r ≤ k := by simp [depth] at hn; omega
      simp only [CF.IsCNF, Bool.and_eq_true, Bool.not_eq_true'] at hc
      obtain ⟨⟨hb, cl⟩, cr⟩ := hc
      subst hb
      simp only [Gen.Stage.to_clauses, CF.toClauses, ofCF, ConjForm.isCFVar, ConjForm.isCFAnd, ConjForm.isCFOr,
        ConjForm.left, ConjForm.right, Option.pure_def, Option.bind_eq_bind, Option.bind_some,
        ihl k hl (CF.isCNF_of_isOrClause l cl), ihr k hr (CF.isCNF_of_isOrClause r cr), Bool.false_eq_true, if_false, if_true]
      cases hx : CF.toClauses l with
      | none => simp
      | some x =>
        cases hy : CF.toClauses r with
        | none => simp
        | some y =>
          have h2 := (toClauses_nonempty l x hx).2
          have h3 := (toClauses_nonempty r y hy).2
          match x, y, h2, h3 with
          | [x1], [y1], h2, h3 =>
            have hx1 := h2 x1 (by simp)
            have hy1 := h3 y1 (by simp)
            match x1, hx1 with
            | [i1], _ =>
              simp [clSpec, cfPat, lib_imim_or, pyAssert, pyLen, pyIndex_cons_zero, clausesPat_single, clausePat_cons i1 y1 hy1, clausePat_single]
            | i1 :: i2 :: rest, _ =>
              simp only [Option.map_some, Option.bind_some, clSpec, cfPat, lib_imim_or, pyAssert, pyIndex_cons_zero,
                lib_or_assoc_r, lib_or_assoc_l, for2_run, clausesPat_single, itm2_or_clause _ i1 i2 rest y1 hy1,
                itm1_or_clause _ i1 i2 rest y1 hy1, pyLen_cons2, gt0_len, gt1_len, Bool.false_eq_true, if_false, if_true]
              simp [pyLen]
          | [], _, _, _ => simp [pyAssert, pyLen, clSpec, cfPat, lib_imim_or]
          | _ :: _ :: _, _, _, _ => simp [pyAssert, pyLen, clSpec, cfPat, lib_imim_or]; omega
          | [_], [], _, _ => simp [pyAssert, pyLen, clSpec, cfPat, lib_imim_or]
          | [_], _ :: _ :: _, _, _ => simp [pyAssert, pyLen, clSpec, cfPat, lib_imim_or]; omega


/-! ## Part F — from conclusions to proof trees: the homomorphism `GTh.conc : algGS → algCS` -/

/-- the conclusion-projection of the values the generated functions handle: a proof tree ↦ its conclusion, data ↦ itself -/
class Proj (α : Type) (β : outParam Type) where
  proj : α → β

instance : Proj GTh Pat := ⟨GTh.conc⟩
instance {α β γ δ} [Proj α β] [Proj γ δ] : Proj (α × γ) (β × δ) := ⟨fun p => (Proj.proj p.1, Proj.proj p.2)⟩
instance {α β} [Proj α β] : Proj (Option α) (Option β) := ⟨Option.map Proj.proj⟩
instance : Proj ConjForm ConjForm := ⟨id⟩
instance : Proj (List (List Int)) (List (List Int)) := ⟨id⟩
instance : Proj Bool Bool := ⟨id⟩

theorem hb {α β γ δ} [Proj α β] [Proj γ δ] {x : Option α} {y : Option β} {f : α → Option γ} {g : β → Option δ}
    (hx : x.map Proj.proj = y) (hf : ∀ a, (f a).map Proj.proj = g (Proj.proj a)) :
    (x.bind f).map Proj.proj = y.bind g := by
  subst hx
  cases x with
  | none => rfl
  | some a => exact hf a

theorem hb_same {α γ δ} [Proj γ δ] {x : Option α} {f : α → Option γ} {g : α → Option δ}
    (hf : ∀ a, (f a).map Proj.proj = g a) : (x.bind f).map Proj.proj = x.bind g := by
  cases x with
  | none => rfl
  | some a => exact hf a

theorem lib_hom (i : Nat) (ps : List Pat) (ts : List GTh) :
    (lib algGS i ps ts).map Proj.proj = lib algCS i ps (ts.map GTh.conc) := by
  unfold lib
  have e1 : algGS.toAlg = Lem.algG := rfl
  have e2 : algCS.toAlg = Lem.algC := rfl
  rw [e1, e2]
  rcases (Lem.sem_homFs Gen.lemmaDefs).get i with ⟨h1, h2⟩ | ⟨f, g, h1, h2, hfg⟩
  · rw [h1, h2]; rfl
  · rw [h1, h2]; exact hfg ps ts

theorem mp_hom (l r : GTh) : (algGS.mp l r).map Proj.proj = algCS.mp l.conc r.conc := Lem.algG_mp l r

theorem hb_lib {γ δ} [Proj γ δ] {i : Nat} {ps : List Pat} {ts : List GTh} {f : GTh → Option γ} {g : Pat → Option δ}
    (hf : ∀ t, (f t).map Proj.proj = g t.conc) :
    ((lib algGS i ps ts).bind f).map Proj.proj = (lib algCS i ps (ts.map GTh.conc)).bind g :=
  hb (lib_hom i ps ts) hf

theorem hb_mp {γ δ} [Proj γ δ] {l r : GTh} {f : GTh → Option γ} {g : Pat → Option δ}
    (hf : ∀ t, (f t).map Proj.proj = g t.conc) :
    ((algGS.mp l r).bind f).map Proj.proj = (algCS.mp l.conc r.conc).bind g :=
  hb (mp_hom l r) hf

theorem inst_hom (t : GTh) (δ : Subst) : (algGS.inst t δ).conc = algCS.inst t.conc δ := instG_conc t δ

theorem hret {α β} [Proj α β] {a : α} {b : β} (h : Proj.proj a = b) : (some a).map Proj.proj = some b := by
  subst h; rfl
theorem hnone {α β} [Proj α β] : (none : Option α).map (Proj.proj : α → β) = none := rfl

theorem hite {α β} [Proj α β] {c : Prop} [Decidable c] {a b : Option α} {a' b' : Option β}
    (h1 : a.map Proj.proj = a') (h2 : b.map Proj.proj = b') :
    (if c then a else b).map Proj.proj = if c then a' else b' := by
  by_cases h : c
  · rw [if_pos h, if_pos h]; exact h1
  · rw [if_neg h, if_neg h]; exact h2

theorem hb_map {γ δ} [Proj γ δ] {x : Option GTh} {f : GTh → Option γ} {g : Pat → Option δ}
    (hf : ∀ t, (f t).map Proj.proj = g t.conc) : (x.bind f).map Proj.proj = (x.map GTh.conc).bind g := by
  cases x with
  | none => rfl
  | some a => exact hf a

attribute [local irreducible] StageSup.lib

/-- one step of a homomorphism proof: peel the next bind / conditional off both sides -/
macro "hstep" : tactic => `(tactic| first
  | exact hnone
  | (apply hret; rfl)
  | (apply hb_lib; intro t; try simp only [← inst_hom])
  | (apply hb_mp; intro t; try simp only [← inst_hom])
  | (apply hb_same; intro a; try simp only [← inst_hom])
  | (apply hb_map; intro t; try simp only [← inst_hom])
  | exact lib_hom _ _ _
  | exact mp_hom _ _
  | apply hite)

theorem imp_trans_match1_hom (h1 h2 : GTh) :
    (Gen.Stage.imp_trans_match1 algGS h1 h2).map Proj.proj = Gen.Stage.imp_trans_match1 algCS h1.conc h2.conc := by
  simp only [Gen.Stage.imp_trans_match1, Option.pure_def, Option.bind_eq_bind, ← inst_hom]
  repeat hstep

theorem imp_trans_match2_hom (h1 h2 : GTh) :
    (Gen.Stage.imp_trans_match2 algGS h1 h2).map Proj.proj = Gen.Stage.imp_trans_match2 algCS h1.conc h2.conc := by
  simp only [Gen.Stage.imp_trans_match2, Option.pure_def, Option.bind_eq_bind, ← inst_hom]
  repeat hstep

/-- the whole homomorphism proof of one generated function (after unfolding it on both sides); `ih` = the induction
hypothesis for its recursive calls -/
macro "hom_auto" ih:term : tactic => `(tactic| repeat' (first
  | hstep
  | (apply hb ($ih _); intro a; try simp only [Proj.proj, id, Option.isSome_map, ← inst_hom])
  | (apply hb (imp_trans_match1_hom _ _); intro t; try simp only [← inst_hom])
  | (apply hb (imp_trans_match2_hom _ _); intro t; try simp only [← inst_hom])
  | (apply hb <;> first | (intro a; try simp only [Proj.proj, id, Option.isSome_map, ← inst_hom]) | skip)))

theorem to_conj_form_hom : ∀ (n : Nat) (f : Form),
    (Gen.Stage.to_conj_form algGS n f).map Proj.proj = Gen.Stage.to_conj_form algCS n f := by
  intro n
  induction n with
  | zero => intro f; rfl
  | succ n ih =>
    intro f
    simp only [Gen.Stage.to_conj_form, Option.pure_def, Option.bind_eq_bind]
    hom_auto ih

theorem propag_neg_hom : ∀ (n : Nat) (c : ConjForm),
    (Gen.Stage.propag_neg algGS n c).map Proj.proj = Gen.Stage.propag_neg algCS n c := by
  intro n
  induction n with
  | zero => intro f; rfl
  | succ n ih =>
    intro f
    simp only [Gen.Stage.propag_neg, Option.pure_def, Option.bind_eq_bind]
    hom_auto ih

theorem to_cnf_hom : ∀ (n : Nat) (c : ConjForm),
    (Gen.Stage.to_cnf algGS n c).map Proj.proj = Gen.Stage.to_cnf algCS n c := by
  intro n
  induction n with
  | zero => intro f; rfl
  | succ n ih =>
    intro f
    simp only [Gen.Stage.to_cnf, Option.pure_def, Option.bind_eq_bind]
    hom_auto ih

theorem to_clauses_for1_hom : ∀ (l : List Int) (a b : GTh),
    (Gen.Stage.to_clauses_for1 algGS l a b).map Proj.proj = Gen.Stage.to_clauses_for1 algCS l a.conc b.conc := by
  intro l
  induction l with
  | nil => intro a b; rfl
  | cons i l ih =>
    intro a b
    simp only [Gen.Stage.to_clauses_for1, Option.pure_def, Option.bind_eq_bind]
    hom_auto ih
    exact ih _ _

theorem to_clauses_for2_hom : ∀ (l : List Int) (a b : GTh),
    (Gen.Stage.to_clauses_for2 algGS l a b).map Proj.proj = Gen.Stage.to_clauses_for2 algCS l a.conc b.conc := by
  intro l
  induction l with
  | nil => intro a b; rfl
  | cons i l ih =>
    intro a b
    simp only [Gen.Stage.to_clauses_for2, Option.pure_def, Option.bind_eq_bind]
    hom_auto ih
    exact ih _ _

macro "hom_auto2" ih:term : tactic => `(tactic| repeat' (first
  | hstep
  | (apply hb ($ih _); intro a; try simp only [Proj.proj, id, Option.isSome_map, ← inst_hom])
  | (apply hb (imp_trans_match1_hom _ _); intro t; try simp only [← inst_hom])
  | (apply hb (imp_trans_match2_hom _ _); intro t; try simp only [← inst_hom])
  | (apply hb (to_clauses_for1_hom _ _ _); intro t; try simp only [Proj.proj, ← inst_hom])
  | (apply hb (to_clauses_for2_hom _ _ _); intro t; try simp only [Proj.proj, ← inst_hom])
  | (apply hb <;> first | (intro a; try simp only [Proj.proj, id, Option.isSome_map, ← inst_hom]) | skip)))

theorem to_clauses_hom : ∀ (n : Nat) (c : ConjForm),
    (Gen.Stage.to_clauses algGS n c).map Proj.proj = Gen.Stage.to_clauses algCS n c := by
  intro n
  induction n with
  | zero => intro f; rfl
  | succ n ih =>
    intro f
    simp only [Gen.Stage.to_clauses, Option.pure_def, Option.bind_eq_bind]
    hom_auto2 ih

instance {α β} [Proj α β] : Proj (List α) (List β) := ⟨List.map Proj.proj⟩
instance : Proj (List Int) (List Int) := ⟨id⟩

theorem pyIndex_map {α β} (f : α → β) (xs : List α) (i : Int) : (pyIndex xs i).map f = pyIndex (xs.map f) i := by
  unfold pyIndex
  simp only [List.length_map]
  split
  · simp
  · split <;> simp

theorem pySliceTo_map {α β} (f : α → β) (xs : List α) (i : Int) : (pySliceTo xs i).map f = pySliceTo (xs.map f) i := by
  unfold pySliceTo
  simp only [List.length_map]
  split <;> simp [List.map_take]

section SraHom
variable (pG : Nat → List Int → Option GTh) (pC : Nat → List Int → Option Pat)
  (bG : Nat → Hint → FrozenSet → List (List Int) → Option (List Int × GTh))
  (bC : Nat → Hint → FrozenSet → List (List Int) → Option (List Int × Pat))

theorem sra_for1_eq : ∀ (l : List (Int × FrozenSet)) (hint : Hint),
    Gen.Stage.start_resolution_algorithm_for1 algGS pG bG l hint =
      Gen.Stage.start_resolution_algorithm_for1 algCS pC bC l hint := by
  intro l
  induction l with
  | nil => intro hint; rfl
  | cons x l ih =>
    intro hint
    obtain ⟨i, c⟩ := x
    simp only [Gen.Stage.start_resolution_algorithm_for1, ih]

theorem sra_for2_hom : ∀ (l : List GTh) (prf : GTh),
    (Gen.Stage.start_resolution_algorithm_for2 algGS pG bG l prf).map Proj.proj =
      Gen.Stage.start_resolution_algorithm_for2 algCS pC bC (l.map GTh.conc) prf.conc := by
  intro l
  induction l with
  | nil => intro prf; rfl
  | cons x l ih =>
    intro prf
    simp only [Gen.Stage.start_resolution_algorithm_for2, List.map_cons, Option.pure_def, Option.bind_eq_bind]
    apply hb_lib; intro t
    exact ih t

theorem sra_for2_hom' (xs : List GTh) (i : Int) (prf : GTh) :
    (Gen.Stage.start_resolution_algorithm_for2 algGS pG bG (pySliceTo xs i).reverse prf).map Proj.proj =
      Gen.Stage.start_resolution_algorithm_for2 algCS pC bC (pySliceTo (xs.map GTh.conc) i).reverse prf.conc := by
  rw [← pySliceTo_map, ← List.map_reverse]
  exact sra_for2_hom pG pC bG bC _ _

theorem mapM_hom (hp : ∀ F cl, (pG F cl).map Proj.proj = pC F cl) (F : Nat) : ∀ (cls : List (List Int)),
    (List.mapM (pG F) cls).map Proj.proj = List.mapM (pC F) cls := by
  intro cls
  induction cls with
  | nil => rfl
  | cons c cls ih =>
    rw [List.mapM_cons, List.mapM_cons]
    simp only [Option.pure_def, Option.bind_eq_bind]
    apply hb (hp F c); intro a
    apply hb ih; intro l
    rfl

theorem sra_hom (hp : ∀ F cl, (pG F cl).map Proj.proj = pC F cl)
    (hbp : ∀ F h c t, (bG F h c t).map Proj.proj = bC F h c t) (F : Nat) (cls : List (List Int)) :
    (Gen.Stage.start_resolution_algorithm algGS pG bG F cls).map Proj.proj =
      Gen.Stage.start_resolution_algorithm algCS pC bC F cls := by
  simp only [Gen.Stage.start_resolution_algorithm, Option.pure_def, Option.bind_eq_bind, sra_for1_eq pG pC bG bC]
  repeat' (first
    | hstep
    | (apply hb (mapM_hom pG pC hp _ _); intro a; try simp only [Proj.proj, id])
    | (apply hb (pyIndex_map _ _ _); intro a)
    | (apply hb (hp _ _); intro a)
    | (apply hb (hbp _ _ _ _); intro a; try simp only [Proj.proj, id])
    | (apply hb (sra_for2_hom' pG pC bG bC _ _ _); intro a))

end SraHom


theorem prove_tautology_hom (pG : Nat → List Int → Option GTh) (pC : Nat → List Int → Option Pat)
    (bG : Nat → Hint → FrozenSet → List (List Int) → Option (List Int × GTh))
    (bC : Nat → Hint → FrozenSet → List (List Int) → Option (List Int × Pat))
    (hp : ∀ F cl, (pG F cl).map Proj.proj = pC F cl)
    (hbp : ∀ F h c t, (bG F h c t).map Proj.proj = bC F h c t) (n : Nat) (f : Form) :
    (Gen.Stage.prove_tautology algGS pG bG n f).map Proj.proj = Gen.Stage.prove_tautology algCS pC bC n f := by
  simp only [Gen.Stage.prove_tautology, Option.pure_def, Option.bind_eq_bind]
  repeat' (first
    | hstep
    | (apply hb (to_conj_form_hom _ _); intro a; try simp only [Proj.proj, id, Option.isSome_map])
    | (apply hb (propag_neg_hom _ _); intro a; try simp only [Proj.proj, id, Option.isSome_map])
    | (apply hb (to_cnf_hom _ _); intro a; try simp only [Proj.proj, id, Option.isSome_map])
    | (apply hb (to_clauses_hom _ _); intro a; try simp only [Proj.proj, id, Option.isSome_map])
    | (apply hb (sra_hom pG pC bG bC hp hbp _ _); intro a; try simp only [Proj.proj, id, Option.isSome_map, Option.isNone_map])
    | (apply hb rfl; intro a; try simp only [Proj.proj, id]))


/-! ## Part G — any fuel: a stage that answers at all answers as with sufficient fuel -/

/-- `x` answers ⇒ `y` gives the same answer -/
def Le {α} (x y : Option α) : Prop := ∀ a, x = some a → y = some a

theorem Le.refl {α} (x : Option α) : Le x x := fun _ h => h
theorem le_bind {α β} {x y : Option α} {f g : α → Option β} (hx : Le x y) (hf : ∀ a, Le (f a) (g a)) :
    Le (x.bind f) (y.bind g) := by
  intro b hb
  cases x with
  | none => simp at hb
  | some a =>
    rw [hx a rfl]
    exact hf a b hb
theorem le_bind_same {α β} {x : Option α} {f g : α → Option β} (hf : ∀ a, Le (f a) (g a)) :
    Le (x.bind f) (x.bind g) := le_bind (Le.refl x) hf
theorem le_ite {α} {c : Prop} [Decidable c] {a b a' b' : Option α} (h1 : Le a a') (h2 : Le b b') :
    Le (if c then a else b) (if c then a' else b') := by
  by_cases h : c
  · rw [if_pos h, if_pos h]; exact h1
  · rw [if_neg h, if_neg h]; exact h2

macro "mono_auto" ih:term : tactic => `(tactic| repeat' (first
  | (apply le_bind ($ih _); intro a)
  | apply le_ite
  | (apply le_bind_same; intro a)
  | exact Le.refl _))

theorem to_conj_form_mono {τ} (A : SAlg τ) : ∀ (n : Nat) (f : Form),
    Le (Gen.Stage.to_conj_form A n f) (Gen.Stage.to_conj_form A (n + 1) f) := by
  intro n
  induction n with
  | zero => intro f a h; simp [Gen.Stage.to_conj_form] at h
  | succ n ih =>
    intro f
    rw [Gen.Stage.to_conj_form, Gen.Stage.to_conj_form]
    simp only [Option.pure_def, Option.bind_eq_bind]
    mono_auto ih

theorem propag_neg_mono {τ} (A : SAlg τ) : ∀ (n : Nat) (c : ConjForm),
    Le (Gen.Stage.propag_neg A n c) (Gen.Stage.propag_neg A (n + 1) c) := by
  intro n
  induction n with
  | zero => intro f a h; simp [Gen.Stage.propag_neg] at h
  | succ n ih =>
    intro f
    rw [Gen.Stage.propag_neg, Gen.Stage.propag_neg]
    simp only [Option.pure_def, Option.bind_eq_bind]
    mono_auto ih

theorem to_clauses_mono {τ} (A : SAlg τ) : ∀ (n : Nat) (c : ConjForm),
    Le (Gen.Stage.to_clauses A n c) (Gen.Stage.to_clauses A (n + 1) c) := by
  intro n
  induction n with
  | zero => intro f a h; simp [Gen.Stage.to_clauses] at h
  | succ n ih =>
    intro f
    rw [Gen.Stage.to_clauses, Gen.Stage.to_clauses]
    simp only [Option.pure_def, Option.bind_eq_bind]
    mono_auto ih

theorem le_of_step {α β} (F : Nat → α → Option β) (h : ∀ n x, Le (F n x) (F (n + 1) x)) :
    ∀ (n m : Nat) (x : α), n ≤ m → Le (F n x) (F m x) := by
  intro n m x hnm
  induction m with
  | zero =>
    have : n = 0 := by omega
    subst this; exact Le.refl _
  | succ m ih =>
    by_cases he : n = m + 1
    · subst he; exact Le.refl _
    · intro a ha
      exact h m x a (ih (by omega) a ha)

/-- at ANY fuel, `to_conj_form` either raises / runs out of fuel or answers as `to_conj_form_C` says -/
theorem to_conj_form_C_any (f : Form) (n : Nat) (r : ConjForm × Pat × Option Pat)
    (h : Gen.Stage.to_conj_form algCS n f = some r) : r = conjSpec f := by
  have h1 := le_of_step _ (to_conj_form_mono algCS) n (max n f.size) f (Nat.le_max_left _ _) r h
  rw [to_conj_form_C f _ (Nat.le_max_right _ _)] at h1
  exact (Option.some.inj h1).symm

theorem propag_neg_C_any (c : CF) (n : Nat) (r : ConjForm × Pat × Pat)
    (h : Gen.Stage.propag_neg algCS n (ofCF c) = some r) :
    ∃ c', CF.propagNeg c = some c' ∧ r = pfPair (ofCF c) (ofCF c') := by
  have h1 := le_of_step _ (propag_neg_mono algCS) n (max n (depth c)) (ofCF c) (Nat.le_max_left _ _) r h
  rw [propag_neg_C c _ (Nat.le_max_right _ _)] at h1
  cases hp : CF.propagNeg c with
  | none => rw [hp] at h1; simp at h1
  | some c' =>
    rw [hp] at h1
    exact ⟨c', rfl, (Option.some.inj h1).symm⟩

theorem to_clauses_C_any (c : CF) (hc : c.IsCNF = true) (n : Nat) (r : List (List Int) × Pat × Pat)
    (h : Gen.Stage.to_clauses algCS n (ofCF c) = some r) :
    ∃ cls, CF.toClauses c = some cls ∧ r = clSpec (ofCF c) cls := by
  have h1 := le_of_step _ (to_clauses_mono algCS) n (max n (depth c)) (ofCF c) (Nat.le_max_left _ _) r h
  rw [to_clauses_C c _ (Nat.le_max_right _ _) hc] at h1
  cases hp : CF.toClauses c with
  | none => rw [hp] at h1; simp at h1
  | some cls =>
    rw [hp] at h1
    exact ⟨cls, rfl, (Option.some.inj h1).symm⟩

/-! ## Part H — `start_resolution_algorithm` and `prove_tautology`: the final assembly -/

/-- what `prove_trivial_clause` promises (its proof objects — `or_move_to_front` & co. — are NOT translated: a PARAMETER of
the generated functions): a proof of the clause -/
def PtcSpecC (ptc : Nat → List Int → Option Pat) : Prop :=
  ∀ F cl p, ptc F cl = some p → p = clausePat cl

/-- what `build_proof_from_hint` promises (NOT translated: a PARAMETER): for the clause `r` it returns, a proof of
`clause_conjunctionto_pattern(terms) -> clause_to_pattern(r)` -/
def BpfhSpecC (bpfh : Nat → Hint → FrozenSet → List (List Int) → Option (List Int × Pat)) : Prop :=
  ∀ F hint cl terms r p, bpfh F hint cl terms = some (r, p) → p = .imp (clausesPat terms) (clausePat r)

/-- what `start_resolution_algorithm` returns: verdict `True` with a proof of the clause conjunction, or verdict `False` with
a proof that the conjunction implies `clause_to_pattern([])` = ⊥ -/
def SraSpecC (sra : Nat → List (List Int) → Option (Option (Bool × Pat))) : Prop :=
  ∀ F cls b p, sra F cls = some (some (b, p)) →
    p = if b then clausesPat cls else .imp (clausesPat cls) Lem.botP

theorem bind_some_eta {α β} (f : α → Option β) : (fun x => (f x).bind fun t => some t) = f := by
  funext x; cases f x <;> rfl

theorem mapM_spec {ptc : Nat → List Int → Option Pat} (hp : PtcSpecC ptc) (F : Nat) : ∀ (cls : List (List Int)) (ps : List Pat),
    List.mapM (ptc F) cls = some ps → ps = cls.map clausePat := by
  intro cls
  induction cls with
  | nil => intro ps h; simp at h; subst h; rfl
  | cons c cls ih =>
    intro ps h
    rw [List.mapM_cons] at h
    simp only [Option.bind_eq_bind, Option.pure_def] at h
    cases h1 : ptc F c with
    | none => simp [h1] at h
    | some p =>
      have := hp F c p h1
      subst this
      simp only [h1, Option.bind_some] at h
      cases h2 : List.mapM (ptc F) cls with
      | none => simp [h2] at h
      | some ps' =>
        simp only [h2, Option.bind_some, Option.some.injEq] at h
        subst h
        rw [ih ps' h2]; rfl

/-- the loop at line 878: `for pf in reversed(pfs[:-2]): prf = self.and_intro(pf, prf)` -/
theorem sra_for2_C {ptc : Nat → List Int → Option Pat} {bpfh : Nat → Hint → FrozenSet → List (List Int) → Option (List Int × Pat)} :
    ∀ (xs : List Pat) (prf : Pat),
    Gen.Stage.start_resolution_algorithm_for2 algCS ptc bpfh xs prf = some (xs.foldl (fun acc pf => andP pf acc) prf) := by
  intro xs
  induction xs with
  | nil => intro prf; rfl
  | cons x xs ih =>
    intro prf
    simp only [Gen.Stage.start_resolution_algorithm_for2, lib_and_intro, Option.bind_eq_bind, Option.bind_some, ih,
      List.foldl_cons]

theorem pyIndex_m2 {α} (xs : List α) (a b : α) : pyIndex (xs ++ [a, b]) (-(2 : Int)) = some a := by
  have h : ((2 : Int) ≤ (xs.length : Int) + 2) := by omega
  simp [pyIndex, h]
theorem pyIndex_m1 {α} (xs : List α) (a b : α) : pyIndex (xs ++ [a, b]) (-(1 : Int)) = some b := by
  have h : ((1 : Int) ≤ (xs.length : Int) + 2) := by omega
  simp [pyIndex, h]
theorem pySliceTo_m2 {α} (xs : List α) (a b : α) : pySliceTo (xs ++ [a, b]) (-(2 : Int)) = xs := by
  simp [pySliceTo]

theorem split_last2 {α} : ∀ (l : List α), 2 ≤ l.length → ∃ xs a b, l = xs ++ [a, b] := by
  intro l
  induction l with
  | nil => intro h; simp at h
  | cons x l ih =>
    intro h
    cases l with
    | nil => simp at h
    | cons y l' =>
      cases l' with
      | nil => exact ⟨[], x, y, rfl⟩
      | cons z l'' =>
        obtain ⟨xs, a, b, he⟩ := ih (by simp)
        exact ⟨x :: xs, a, b, by rw [he]; rfl⟩

theorem foldrP_snoc2 (op : Pat → Pat → Pat) (xs : List Pat) (a b : Pat) :
    foldrP op (xs ++ [a, b]) = xs.foldr op (op a b) := by
  rw [foldrP_append op xs [a, b] (by simp)]; rfl

theorem pyIndex_short_m2 {α} (l : List α) (h : l.length < 2) : pyIndex l (-(2 : Int)) = none := by
  match l, h with
  | [], _ => simp [pyIndex]
  | [x], _ => simp [pyIndex]

/-- `start_resolution_algorithm` as written, on conclusions, at ANY fuel: whatever it returns is a proof of the clause
conjunction (verdict `True`: no clause / every clause trivial — `top_intro`, resp. the proofs of `prove_trivial_clause`
conjoined by a RIGHT fold of `and_intro`) or of its refutation (verdict `False`: the proof reconstructed from the hint) -/
theorem sra_C (ptc : Nat → List Int → Option Pat) (bpfh : Nat → Hint → FrozenSet → List (List Int) → Option (List Int × Pat))
    (hp : PtcSpecC ptc) (hb : BpfhSpecC bpfh) : SraSpecC (Gen.Stage.start_resolution_algorithm algCS ptc bpfh) := by
  intro F cls b p h
  simp only [Gen.Stage.start_resolution_algorithm, Option.pure_def, Option.bind_eq_bind, bind_some_eta] at h
  by_cases hne : cls = []
  · subst hne
    simp [lib_top_intro] at h
    obtain ⟨rfl, rfl⟩ := h; rfl
  · have hie : cls.isEmpty = false := by cases cls <;> simp_all
    simp only [hie, Bool.not_false, Bool.not_true, Bool.false_eq_true, if_false] at h
    generalize Gen.Stage.start_resolution_algorithm_for1 algCS ptc bpfh _ _ = X at h
    cases X with
    | none => simp at h
    | some hint =>
      simp only [Option.bind_some] at h
      by_cases ht : (!dictTruthy hint) = true
      · simp only [ht, if_true] at h
        by_cases hl : (pyLen cls == (1 : Int)) = true
        · simp only [hl, if_true] at h
          have hcs : ∃ c0, cls = [c0] := by
            match cls, hl with
            | [c0], _ => exact ⟨c0, rfl⟩
            | [], hl => simp [pyLen] at hl
            | _ :: _ :: _, hl => simp [pyLen] at hl; omega
          obtain ⟨c0, rfl⟩ := hcs
          simp only [pyIndex_cons_zero, Option.bind_some] at h
          cases h2 : ptc F c0 with
          | none => simp [h2] at h
          | some q =>
            have := hp F c0 q h2
            subst this
            simp [h2] at h
            obtain ⟨rfl, rfl⟩ := h; rfl
        · simp only [hl, Bool.false_eq_true, if_false] at h
          cases h2 : List.mapM (ptc F) cls with
          | none => simp [h2] at h
          | some pfs =>
            have hpfs := mapM_spec hp F _ _ h2
            simp only [h2, Option.bind_some] at h
            by_cases hlen : 2 ≤ pfs.length
            · obtain ⟨xs, a, b', he⟩ := split_last2 pfs hlen
              rw [he] at h
              simp only [pyIndex_m2, pyIndex_m1, pySliceTo_m2, Option.bind_some, lib_and_intro, sra_for2_C,
                List.foldl_reverse, Option.some.injEq, Prod.mk.injEq] at h
              obtain ⟨rfl, rfl⟩ := h
              have : clausesPat cls = foldrP andP pfs := by rw [hpfs]; exact clausesPat_eq cls hne
              rw [this, he, foldrP_snoc2]
              rfl
            · rw [pyIndex_short_m2 pfs (by omega)] at h
              simp at h
      · simp only [ht, Bool.false_eq_true, if_false] at h
        cases h2 : resolution_algorithm F hint (dictKeys hint) with
        | none => simp [h2] at h
        | some r =>
          obtain ⟨t, hint', l'⟩ := r
          simp only [h2, Option.bind_some] at h
          cases t with
          | false => simp at h
          | true =>
            simp only [Bool.not_true, Bool.false_eq_true, if_false] at h
            cases h3 : bpfh F hint' (fsOfList []) cls with
            | none => simp [h3] at h
            | some rp =>
              obtain ⟨rl, pf⟩ := rp
              have := hb F hint' _ _ rl pf h3
              subst this
              simp only [h3, Option.bind_some, pyAssert] at h
              cases rl with
              | nil =>
                simp at h
                obtain ⟨rfl, rfl⟩ := h; rfl
              | cons _ _ => simp at h


theorem mpC_imp (a b : Pat) : algCS.mp (.imp a b) a = some b := by
  show mpC (.imp a b) a = some b
  simp [mpC]

theorem toPat_neg (f : Form) : toPat (TautSup.neg f) = negP (toPat f) := rfl

/-- the final assembly, on conclusions, at ANY fuel: whatever `prove_tautology` returns with verdict `True` concludes
literally the pattern, with verdict `False` literally its negation — given what `prove_trivial_clause` and
`build_proof_from_hint` promise about the proofs they return -/
theorem prove_tautology_C (ptc : Nat → List Int → Option Pat)
    (bpfh : Nat → Hint → FrozenSet → List (List Int) → Option (List Int × Pat))
    (hp : PtcSpecC ptc) (hb : BpfhSpecC bpfh) (n : Nat) (f : Form) (b : Bool) (p : Pat)
    (h : Gen.Stage.prove_tautology algCS ptc bpfh n f = some (some (b, p))) :
    p = if b then toPat f else negP (toPat f) := by
  have hs := sra_C ptc bpfh hp hb
  simp only [Gen.Stage.prove_tautology, Option.pure_def, Option.bind_eq_bind] at h
  cases h1 : Gen.Stage.to_conj_form algCS n (TautSup.neg f) with
  | none => simp [h1] at h
  | some r1 =>
    have e1 := to_conj_form_C_any _ n r1 h1
    subst e1
    simp only [h1, Option.bind_some, conjSpec] at h
    have hshape := CF.ofForm_shape (TautSup.neg f)
    generalize hc : CF.ofForm (TautSup.neg f) = c at h hshape
    by_cases hbot : c.isBot = true
    · cases c with
      | bot bb =>
        cases bb <;>
          simp [ofCF, CF.isBot, CF.negated, ConjForm.isCFBot, ConjForm.negated, toPat_neg, lib_dneg_elim, mpC_imp] at h
        · obtain ⟨rfl, rfl⟩ := h; rfl
        · obtain ⟨rfl, rfl⟩ := h; rfl
      | _ => simp [CF.isBot] at hbot
    · have hor : c.IsOrTree = true := by
        rcases hshape with h' | h'
        · exact absurd h' hbot
        · exact h'
      have hnb : (ofCF c).isCFBot = false := by simpa using hbot
      simp only [hbot, hnb, Bool.false_eq_true, if_false, pyAssert, Option.isSome_some, if_true, Option.bind_some] at h
      cases h2 : Gen.Stage.propag_neg algCS n (ofCF c) with
      | none => simp [h2] at h
      | some r2 =>
        obtain ⟨c2, hc2, e2⟩ := propag_neg_C_any c n r2 h2
        subst e2
        obtain ⟨c2', hc2', _, hnnf⟩ := CF.propagNeg_spec c hor
        rw [hc2] at hc2'
        cases hc2'
        simp only [h2, Option.bind_some, pfPair, to_cnf_C n c2 hnnf] at h
        cases h3 : CF.toCnfF n c2 with
        | none => simp [h3] at h
        | some c3 =>
          have hcnf := (CF.toCnfF_spec n c2 c3 hnnf h3).2
          simp only [h3, Option.map_some, Option.bind_some, pfPair] at h
          cases h4 : Gen.Stage.to_clauses algCS n (ofCF c3) with
          | none => simp [h4] at h
          | some r4 =>
            obtain ⟨cls, _, e4⟩ := to_clauses_C_any c3 hcnf n r4 h4
            subst e4
            simp only [h4, Option.bind_some, clSpec] at h
            cases h5 : Gen.Stage.start_resolution_algorithm algCS ptc bpfh n cls with
            | none => simp [h5] at h
            | some res =>
              cases res with
              | none => simp [h5] at h
              | some bp =>
                obtain ⟨pt, pf⟩ := bp
                have e5 := hs n cls pt pf h5
                subst e5
                cases pt <;>
                  simp [h5, toPat_neg, lib_imp_transitivity, lib_dneg_elim, mpC_imp] at h
                · rw [show (negP (toPat f)).imp Lem.botP = negP (negP (toPat f)) from rfl, mpC_imp] at h
                  simp only [Option.bind_some, Option.some.injEq, Prod.mk.injEq] at h
                  obtain ⟨rfl, rfl⟩ := h; rfl
                · obtain ⟨rfl, rfl⟩ := h; rfl



/-! ## Part I — the proof objects: proof trees that mean, and replay to, the advertised conclusions -/

/-- the thunk `th` — a proof tree `th.pf` built from the documented rules (prop1/prop2/prop3, modus ponens, instantiate,
the module's axioms) together with its advertised conclusion `th.conc` — PROVES `c`:
its advertised conclusion (`ProofThunk.conc`) is literally `c`; the tree MEANS `c` (`Pf.Sem`: every step is a correct
application of its rule); and every run of the tree on the basic interpreter that returns (well-shaped axioms and tree, any
fuel) returns `c` (up to notation) -/
def Proves (th : GTh) (c : Pat) : Prop :=
  th.conc = c ∧ Pf.Sem th.pf c ∧
    ∀ (ax : List NPat) (k : Nat) (r : NPat), AxShaped ax → th.pf.Shaped →
      Pf.runBasicF ax k th.pf = some (some r) → r.expand = c

theorem proves_of_conc {th : GTh} {c : Pat} (h : th.conc = c) : Proves th c := by
  subst h
  exact ⟨rfl, th.ok, fun ax k r hax hsh hrun =>
    Pf.Sem.functional (Pf.runBasicF_sem ax k th.pf r hax hsh hrun).1 th.ok⟩

theorem of_hom {α β} [Proj α β] {x : Option α} {y : β} (h : x.map Proj.proj = some y) :
    ∃ a, x = some a ∧ Proj.proj a = y := by
  cases x with
  | none => cases h
  | some a => exact ⟨a, rfl, Option.some.inj h⟩

/-- **(1) `to_conj_form`.**  On every propositional pattern `f`, with recursion depth ≥ its size, the function as written
does not raise and returns the model's normal form `CF.ofForm f` together with proof objects that PROVE exactly what its
docstring says: `pat -> new` and `new -> pat`; when the new term is Top / Bottom only the first one, which proves `pat` /
`neg(pat)` -/
theorem to_conj_form_proofs (f : Form) (n : Nat) (hn : f.size ≤ n) :
    ∃ (t1 : GTh) (o2 : Option GTh),
      Gen.Stage.to_conj_form algGS n f = some (ofCF (CF.ofForm f), t1, o2) ∧
      (if (CF.ofForm f).isBot then
        o2 = none ∧ Proves t1 (if (CF.ofForm f).negated then toPat f else negP (toPat f))
      else
        Proves t1 (.imp (toPat f) (cfPat (ofCF (CF.ofForm f)))) ∧
          ∃ t2, o2 = some t2 ∧ Proves t2 (.imp (cfPat (ofCF (CF.ofForm f))) (toPat f))) := by
  have h := to_conj_form_hom n f
  rw [to_conj_form_C f n hn] at h
  obtain ⟨⟨c, t1, o2⟩, hr, hp⟩ := of_hom h
  refine ⟨t1, o2, ?_, ?_⟩
  · rw [hr]
    have : c = ofCF (CF.ofForm f) := by
      have := congrArg Prod.fst hp
      simp only [conjSpec] at this
      split at this <;> exact this
    rw [this]
  · simp only [conjSpec] at hp
    by_cases hb : (CF.ofForm f).isBot = true
    · simp only [hb, if_true] at hp ⊢
      have h1 : t1.conc = _ := congrArg (fun x => x.2.1) hp
      have h2 : o2.map GTh.conc = none := congrArg (fun x => x.2.2) hp
      refine ⟨?_, proves_of_conc h1⟩
      cases o2 with
      | none => rfl
      | some _ => cases h2
    · simp only [hb, Bool.false_eq_true, if_false] at hp ⊢
      have h1 : t1.conc = _ := congrArg (fun x => x.2.1) hp
      have h2 : o2.map GTh.conc = some _ := congrArg (fun x => x.2.2) hp
      refine ⟨proves_of_conc h1, ?_⟩
      cases o2 with
      | none => cases h2
      | some t2 => exact ⟨t2, rfl, proves_of_conc (Option.some.inj h2)⟩

theorem of_pfPair {β : Type} {r : β × GTh × GTh} {y : β} {p1 p2 : Pat}
    (h : (r.1, r.2.1.conc, r.2.2.conc) = (y, p1, p2)) :
    r.1 = y ∧ Proves r.2.1 p1 ∧ Proves r.2.2 p2 := by
  simp only [Prod.mk.injEq] at h
  exact ⟨h.1, proves_of_conc h.2.1, proves_of_conc h.2.2⟩

/-- **(2) `propag_neg`.**  On every normal form on which the model's `CF.propagNeg` answers `r` (every OR/negation tree:
`CF.propagNeg_spec`), with recursion depth ≥ the depth of the term, the function as written does not raise and returns `r`
together with proofs of `conj_to_pattern(in) -> conj_to_pattern(out)` and of the converse -/
theorem propag_neg_proofs (c r : CF) (n : Nat) (hn : depth c ≤ n) (hr : CF.propagNeg c = some r) :
    ∃ t1 t2 : GTh, Gen.Stage.propag_neg algGS n (ofCF c) = some (ofCF r, t1, t2) ∧
      Proves t1 (.imp (cfPat (ofCF c)) (cfPat (ofCF r))) ∧ Proves t2 (.imp (cfPat (ofCF r)) (cfPat (ofCF c))) := by
  have h := propag_neg_hom n (ofCF c)
  rw [propag_neg_C c n hn, hr] at h
  obtain ⟨⟨c', t1, t2⟩, hx, hp⟩ := of_hom h
  obtain ⟨h1, h2, h3⟩ := of_pfPair (r := (c', t1, t2)) hp
  cases h1
  exact ⟨t1, t2, hx, h2, h3⟩

/-- **(3) `to_cnf`.**  On every negation normal form, at every fuel at which the model's `CF.toCnfF` answers `r` (`weight c`
suffices: `CF.toCnfF_weight`), the function as written does not raise and returns `r` together with proofs of
`conj_to_pattern(in) -> conj_to_pattern(out)` and of the converse -/
theorem to_cnf_proofs (c r : CF) (k : Nat) (hc : c.IsNNF = true) (hr : CF.toCnfF k c = some r) :
    ∃ t1 t2 : GTh, Gen.Stage.to_cnf algGS k (ofCF c) = some (ofCF r, t1, t2) ∧
      Proves t1 (.imp (cfPat (ofCF c)) (cfPat (ofCF r))) ∧ Proves t2 (.imp (cfPat (ofCF r)) (cfPat (ofCF c))) := by
  have h := to_cnf_hom k (ofCF c)
  rw [to_cnf_C k c hc, hr] at h
  obtain ⟨⟨c', t1, t2⟩, hx, hp⟩ := of_hom h
  obtain ⟨h1, h2, h3⟩ := of_pfPair (r := (c', t1, t2)) hp
  cases h1
  exact ⟨t1, t2, hx, h2, h3⟩

/-- **(4) `to_clauses`.**  On every conjunctive normal form, with recursion depth ≥ the depth of the term, the function as
written does not raise and returns the model's clause list `cls` (`CF.toClauses_spec`: there is one) together with proofs of
`conj_to_pattern(in) -> clause_conjunctionto_pattern(out)` and of the converse -/
theorem to_clauses_proofs (c : CF) (cls : List (List Int)) (n : Nat) (hn : depth c ≤ n) (hc : c.IsCNF = true)
    (hr : CF.toClauses c = some cls) :
    ∃ t1 t2 : GTh, Gen.Stage.to_clauses algGS n (ofCF c) = some (cls, t1, t2) ∧
      Proves t1 (.imp (cfPat (ofCF c)) (clausesPat cls)) ∧ Proves t2 (.imp (clausesPat cls) (cfPat (ofCF c))) := by
  have h := to_clauses_hom n (ofCF c)
  rw [to_clauses_C c n hn hc, hr] at h
  obtain ⟨⟨c', t1, t2⟩, hx, hp⟩ := of_hom h
  obtain ⟨h1, h2, h3⟩ := of_pfPair (r := (c', t1, t2)) hp
  cases h1
  exact ⟨t1, t2, hx, h2, h3⟩

/-- what `prove_trivial_clause` promises about the proof object it returns (a PARAMETER of the generated functions) -/
def PtcSpec (ptc : Nat → List Int → Option GTh) : Prop :=
  ∀ F cl th, ptc F cl = some th → th.conc = clausePat cl

/-- what `build_proof_from_hint` promises about the proof object it returns (a PARAMETER of the generated functions) -/
def BpfhSpec (bpfh : Nat → Hint → FrozenSet → List (List Int) → Option (List Int × GTh)) : Prop :=
  ∀ F hint cl terms r th, bpfh F hint cl terms = some (r, th) → th.conc = .imp (clausesPat terms) (clausePat r)

theorem ptcSpec_proj {ptc : Nat → List Int → Option GTh} (hp : PtcSpec ptc) :
    PtcSpecC (fun F cl => (ptc F cl).map Proj.proj) := by
  intro F cl p h
  obtain ⟨a, ha, hpa⟩ := of_hom h
  rw [← hpa]; exact hp F cl a ha

theorem bpfhSpec_proj {bpfh : Nat → Hint → FrozenSet → List (List Int) → Option (List Int × GTh)} (hb : BpfhSpec bpfh) :
    BpfhSpecC (fun F h c t => (bpfh F h c t).map Proj.proj) := by
  intro F hint cl terms r p h
  obtain ⟨⟨r', th⟩, ha, hpa⟩ := of_hom h
  have : (r', th.conc) = (r, p) := hpa
  simp only [Prod.mk.injEq] at this
  obtain ⟨rfl, rfl⟩ := this
  exact hb F hint cl terms r' th ha

/-- **`start_resolution_algorithm`.**  Given what `prove_trivial_clause` and `build_proof_from_hint` promise, at ANY fuel:
whatever it returns with verdict `True` PROVES the clause conjunction, with verdict `False` that the clause conjunction
implies ⊥ -/
theorem start_resolution_algorithm_proofs (ptc : Nat → List Int → Option GTh)
    (bpfh : Nat → Hint → FrozenSet → List (List Int) → Option (List Int × GTh))
    (hp : PtcSpec ptc) (hb : BpfhSpec bpfh) (F : Nat) (cls : List (List Int)) (b : Bool) (th : GTh)
    (h : Gen.Stage.start_resolution_algorithm algGS ptc bpfh F cls = some (some (b, th))) :
    Proves th (if b then clausesPat cls else .imp (clausesPat cls) Lem.botP) := by
  have hh := sra_hom ptc _ bpfh _ (fun _ _ => rfl) (fun _ _ _ _ => rfl) F cls
  rw [h] at hh
  exact proves_of_conc (sra_C _ _ (ptcSpec_proj hp) (bpfhSpec_proj hb) F cls b th.conc hh.symm)

/-- **(5) `prove_tautology`, the final assembly.**  Given what `prove_trivial_clause` and `build_proof_from_hint` promise
about the proofs they return, at ANY fuel: whatever `prove_tautology` returns with verdict `True` PROVES literally the
pattern, with verdict `False` literally its negation -/
theorem prove_tautology_proofs (ptc : Nat → List Int → Option GTh)
    (bpfh : Nat → Hint → FrozenSet → List (List Int) → Option (List Int × GTh))
    (hp : PtcSpec ptc) (hb : BpfhSpec bpfh) (n : Nat) (f : Form) (b : Bool) (th : GTh)
    (h : Gen.Stage.prove_tautology algGS ptc bpfh n f = some (some (b, th))) :
    Proves th (if b then toPat f else negP (toPat f)) := by
  have hh := prove_tautology_hom ptc _ bpfh _ (fun _ _ => rfl) (fun _ _ _ _ => rfl) n f
  rw [h] at hh
  exact proves_of_conc (prove_tautology_C _ _ (ptcSpec_proj hp) (bpfhSpec_proj hb) n f b th.conc hh.symm)


/-! ## the data component is that of the data slice (`Gen.PyTaut`, tied to the model in `Pi2/TautTie.lean`) -/

/-- erasing the proof objects from the result of a stage -/
def erase3 {α} (r : α × GTh × GTh) : α × Unit × Unit := (r.1, (), ())

theorem to_conj_form_data (f : Form) (n : Nat) (hn : f.size ≤ n) :
    (Gen.Stage.to_conj_form algGS n f).map (fun r => (r.1, (), r.2.2.map fun _ => ())) = Gen.PyTaut.to_conj_form n f := by
  obtain ⟨t1, o2, hr, hp⟩ := to_conj_form_proofs f n hn
  rw [hr, to_conj_form_eq f n hn]
  by_cases hb : (CF.ofForm f).isBot = true
  · simp only [hb, if_true] at hp ⊢
    rw [hp.1]; rfl
  · simp only [hb, Bool.false_eq_true, if_false] at hp ⊢
    obtain ⟨_, t2, h2, _⟩ := hp
    rw [h2]; rfl

theorem propag_neg_data (c r : CF) (n : Nat) (hn : depth c ≤ n) (hr : CF.propagNeg c = some r) :
    (Gen.Stage.propag_neg algGS n (ofCF c)).map erase3 = Gen.PyTaut.propag_neg n (ofCF c) := by
  obtain ⟨t1, t2, hx, _⟩ := propag_neg_proofs c r n hn hr
  rw [hx, propag_neg_eq c n hn, hr]; rfl

theorem to_cnf_data (c r : CF) (k : Nat) (hc : c.IsNNF = true) (hr : CF.toCnfF k c = some r) :
    (Gen.Stage.to_cnf algGS k (ofCF c)).map erase3 = Gen.PyTaut.to_cnf k (ofCF c) := by
  obtain ⟨t1, t2, hx, _⟩ := to_cnf_proofs c r k hc hr
  rw [hx, to_cnf_eq k c, hr]; rfl

theorem to_clauses_data (c : CF) (cls : List (List Int)) (n : Nat) (hn : depth c ≤ n) (hc : c.IsCNF = true)
    (hr : CF.toClauses c = some cls) :
    (Gen.Stage.to_clauses algGS n (ofCF c)).map erase3 = Gen.PyTaut.to_clauses n (ofCF c) := by
  obtain ⟨t1, t2, hx, _⟩ := to_clauses_proofs c cls n hn hc hr
  rw [hx, to_clauses_eq c n hn, hr]; rfl


end StageThm

#print axioms StageThm.to_conj_form_C
#print axioms StageThm.propag_neg_C
#print axioms StageThm.to_cnf_C
#print axioms StageThm.to_clauses_C
#print axioms StageThm.sra_C
#print axioms StageThm.prove_tautology_C
#print axioms StageThm.to_conj_form_hom
#print axioms StageThm.to_clauses_hom
#print axioms StageThm.to_conj_form_proofs
#print axioms StageThm.propag_neg_proofs
#print axioms StageThm.to_cnf_proofs
#print axioms StageThm.to_clauses_proofs
#print axioms StageThm.start_resolution_algorithm_proofs
#print axioms StageThm.prove_tautology_proofs
#print axioms StageThm.to_conj_form_data
#print axioms StageThm.propag_neg_data
#print axioms StageThm.to_cnf_data
#print axioms StageThm.to_clauses_data
