import Pi2.Subst
import Pi2.RustTie
import Pi2.Gen.RustInst
/-!
# `instantiate_internal` as written in Rust is the model `Pat.instU`

`Pi2/Gen/RustInst.lean` is regenerated from `rust/src/lib.rs` on every run (translator `vlib/transinst.py`):
`Gen.Rust.instantiate_internal` / `Gen.Rust.instantiate_in_place`, arm by arm and statement by statement (outer `none` = a
panic, inner `none` = Rust `None`, "unchanged").  Here they are proved equal to the hand-written model `Pat.instU` (which
`Pi2/InstUThm.lean` relates to `Pat.inst`, the function of the soundness theorems), on ALL inputs.

The Rust text and the model order the panics of the `MetaVar` arm differently (Rust: `plugs[pos]` inside the `find` closures
panics out of bounds as soon as one constraint list is non-empty, the explicit `pos >= plugs.len()` test comes last; model:
bounds first, then `okPlug`).  Both are panics, so the literal equation holds; the proof of the `mv` case is where this is
checked (`findP_oob`: with all four lists empty the closures never run and the explicit test fires).
-/
namespace RustInstTie
open Pat

theorem instTranslated : Gen.Rust.instTranslated = true := by decide

/-! ## `.find(..)` -/

/-- a closure that cannot panic: `find` is `List.find?` -/
theorem findP_pure {α : Type} (f : α → Bool) (l : List α) :
    Gen.Rust.findP (fun v => some (!(f v))) l = some (l.find? (fun v => !(f v))) := by
  induction l with
  | nil => rfl
  | cons a as ih =>
    simp only [Gen.Rust.findP, Option.bind_some, List.find?_cons, ih]
    cases f a <;> rfl

/-- one constraint check against an existing plug: passes (continues with `k none`) iff the judgement holds on the whole list -/
theorem check_ok {α β : Type} (f : α → Bool) (l : List α) (k : Option α → Option β) (hk : ∀ a, k (some a) = none) :
    Option.bind (Gen.Rust.findP (fun v => some (!(f v))) l) k = if l.all f then k none else none := by
  rw [findP_pure, Option.bind_some]
  induction l with
  | nil => rfl
  | cons a as ih =>
    cases h : f a
    · simp [h, hk]
    · simpa [List.find?_cons, h] using ih

/-- one constraint check with `plugs[pos]` out of bounds: the closure panics on the first element, if there is one -/
theorem findP_oob {α β : Type} (l : List α) (k : Option α → Option β) :
    Option.bind (Gen.Rust.findP (fun _ => none) l) k = if l.isEmpty then k none else none := by
  cases l <;> simp [Gen.Rust.findP]

/-! ## the arms -/

theorem bind_some_some {α : Type} (o : Option α) : (o.bind fun t => some (some t)) = o.map some := by
  cases o <;> rfl

theorem judgements_eq (q : Pat) :
    Gen.Rust.e_fresh q = q.eFresh ∧ Gen.Rust.s_fresh q = q.sFresh ∧ Gen.Rust.positive q = q.pos ∧ Gen.Rust.negative q = q.ng :=
  ⟨funext (RustTie.e_fresh_eq q), funext (RustTie.s_fresh_eq q), funext (RustTie.positive_eq q), funext (RustTie.negative_eq q)⟩

theorem instantiate_internal_eq (vars : List VId) (plugs : List Pat) (p : Pat) :
    Gen.Rust.instantiate_internal vars plugs p = Pat.instU vars plugs p := by
  induction p with
  | evar x => rfl
  | svar x => rfl
  | sym x => rfl
  | mv id ef sf ps ns hs =>
    simp only [Gen.Rust.instantiate_internal, Pat.instU, List.idxOf?]
    cases hpos : List.findIdx? (fun x => x == id) vars with
    | none => rfl
    | some pos =>
      cases hq : plugs[pos]? with
      | none =>
        simp only [hq, Option.bind_none, findP_oob, ite_self]
      | some q =>
        simp only [hq, Option.bind_some]
        have hlt : ¬ pos ≥ plugs.length := by
          have := (List.getElem?_eq_some_iff.mp hq).1; omega
        obtain ⟨h1, h2, h3, h4⟩ := judgements_eq q
        rw [check_ok _ _ _ (fun _ => rfl)]; dsimp only
        rw [check_ok _ _ _ (fun _ => rfl)]; dsimp only
        rw [check_ok _ _ _ (fun _ => rfl)]; dsimp only
        rw [check_ok _ _ _ (fun _ => rfl)]; dsimp only
        simp only [h1, h2, h3, h4, okPlug, decide_eq_true_eq, hlt, if_false]
        by_cases ha : (ef.all fun e => eFresh e q) = true <;> by_cases hb : (sf.all fun s => sFresh s q) = true <;>
          by_cases hc : (ps.all fun s => Pat.pos s q) = true <;> by_cases hd : (ns.all fun s => ng s q) = true <;>
          simp [ha, hb, hc, hd]
  | imp l r ihl ihr =>
    simp only [Gen.Rust.instantiate_internal, Pat.instU, ihl, ihr]
    cases instU vars plugs l with
    | none => rfl
    | some a =>
      cases instU vars plugs r with
      | none => rfl
      | some b => cases a <;> cases b <;> rfl
  | app l r ihl ihr =>
    simp only [Gen.Rust.instantiate_internal, Pat.instU, ihl, ihr]
    cases instU vars plugs l with
    | none => rfl
    | some a =>
      cases instU vars plugs r with
      | none => rfl
      | some b => cases a <;> cases b <;> rfl
  | ex x p ih =>
    simp only [Gen.Rust.instantiate_internal, Pat.instU, ih]
    cases instU vars plugs p with
    | none => rfl
    | some a => cases a <;> rfl
  | mu x p ih =>
    simp only [Gen.Rust.instantiate_internal, Pat.instU, ih]
    cases instU vars plugs p with
    | none => rfl
    | some a => cases a <;> rfl
  | esub p x plug ihp ihq =>
    simp only [Gen.Rust.instantiate_internal, Pat.instU, ihp, ihq, RustTie.apply_esubst_eq]
    cases instU vars plugs p with
    | none => rfl
    | some a =>
      cases instU vars plugs plug with
      | none => rfl
      | some b => cases a <;> cases b <;> first | rfl | exact bind_some_some _
  | ssub p x plug ihp ihq =>
    simp only [Gen.Rust.instantiate_internal, Pat.instU, ihp, ihq, RustTie.apply_ssubst_eq]
    cases instU vars plugs p with
    | none => rfl
    | some a =>
      cases instU vars plugs plug with
      | none => rfl
      | some b => cases a <;> cases b <;> first | rfl | exact bind_some_some _

theorem instantiate_in_place_eq (vars : List VId) (plugs : List Pat) (p : Pat) :
    Gen.Rust.instantiate_in_place vars plugs p = (Pat.instU vars plugs p).map (·.getD p) := by
  simp only [Gen.Rust.instantiate_in_place, instantiate_internal_eq]
  cases instU vars plugs p with
  | none => rfl
  | some a => cases a <;> rfl

end RustInstTie
