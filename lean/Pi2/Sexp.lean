import Pi2.Codec
import Pi2.Notation
import Pi2.Match
import Pi2.Rules
import Pi2.Tracker
import Pi2.Deserialize
import Pi2.Proof
import Pi2.MM.Compressed
import Pi2.MM.Translate
import Pi2.MM.Slice
import Pi2.Kore
import Pi2.Taut
import Pi2.PrettyPat
/-!
# Wire syntax of the correspondence protocol (DESIGN.md §9b): S-expressions

Not part of any proof; used by the driver (`Main.lean`) only.
-/
open Pat

inductive Sexp where
  | atom (s : String)
  | list (xs : List Sexp)
deriving Repr, Inhabited, BEq

namespace Sexp

def tokenize (s : String) : List String := Id.run do
  let mut toks : Array String := #[]
  let mut cur : String := ""
  for c in s.toList do
    if c == '(' || c == ')' then
      if cur != "" then toks := toks.push cur; cur := ""
      toks := toks.push (String.singleton c)
    else if c == ' ' || c == '\t' || c == '\n' || c == '\r' then
      if cur != "" then toks := toks.push cur; cur := ""
    else cur := cur.push c
  if cur != "" then toks := toks.push cur
  return toks.toList

/-- parse a sequence of S-expressions up to a closing paren or end of input -/
partial def parseSeq (toks : List String) (acc : Array Sexp) : Option (List Sexp × List String) :=
  match toks with
  | [] => some (acc.toList, [])
  | ")" :: rest => some (acc.toList, ")" :: rest)
  | "(" :: rest =>
    match parseSeq rest #[] with
    | some (xs, ")" :: rest') => parseSeq rest' (acc.push (.list xs))
    | _ => none
  | a :: rest => parseSeq rest (acc.push (.atom a))

def parseAll (s : String) : Option (List Sexp) :=
  match parseSeq (tokenize s) #[] with
  | some (xs, []) => some xs
  | _ => none

partial def toStr : Sexp → String
  | .atom s => s
  | .list xs => "(" ++ " ".intercalate (xs.map toStr) ++ ")"

def nat? : Sexp → Option Nat
  | .atom s => s.toNat?
  | _ => none

def natList? : Sexp → Option (List Nat)
  | .list xs => xs.mapM nat?
  | _ => none

end Sexp

open Sexp in
partial def patOfSexp : Sexp → Option Pat
  | .list [.atom "evar", n] => do pure (evar (← nat? n))
  | .list [.atom "svar", n] => do pure (svar (← nat? n))
  | .list [.atom "sym", n] => do pure (sym (← nat? n))
  | .list [.atom "imp", l, r] => do pure (imp (← patOfSexp l) (← patOfSexp r))
  | .list [.atom "app", l, r] => do pure (app (← patOfSexp l) (← patOfSexp r))
  | .list [.atom "ex", n, p] => do pure (ex (← nat? n) (← patOfSexp p))
  | .list [.atom "mu", n, p] => do pure (mu (← nat? n) (← patOfSexp p))
  | .list [.atom "mv", n, a, b, c, d, e] => do
      pure (mv (← nat? n) (← natList? a) (← natList? b) (← natList? c) (← natList? d) (← natList? e))
  | .list [.atom "esub", p, n, q] => do pure (esub (← patOfSexp p) (← nat? n) (← patOfSexp q))
  | .list [.atom "ssub", p, n, q] => do pure (ssub (← patOfSexp p) (← nat? n) (← patOfSexp q))
  | _ => none

def natsToStr (xs : List Nat) : String := "(" ++ " ".intercalate (xs.map toString) ++ ")"

def patToStr : Pat → String
  | evar x => s!"(evar {x})"
  | svar x => s!"(svar {x})"
  | sym x => s!"(sym {x})"
  | imp l r => s!"(imp {patToStr l} {patToStr r})"
  | app l r => s!"(app {patToStr l} {patToStr r})"
  | ex x p => s!"(ex {x} {patToStr p})"
  | mu x p => s!"(mu {x} {patToStr p})"
  | mv n a b c d e => s!"(mv {n} {natsToStr a} {natsToStr b} {natsToStr c} {natsToStr d} {natsToStr e})"
  | esub p x q => s!"(esub {patToStr p} {x} {patToStr q})"
  | ssub p x q => s!"(ssub {patToStr p} {x} {patToStr q})"

def termToStr : Term → String
  | .pat p => s!"(pattern {patToStr p})"
  | .proved p => s!"(proved {patToStr p})"

def stToStr (s : St) : String :=
  "(state (stack " ++ " ".intercalate (s.stack.reverse.map termToStr) ++ ") (memory " ++
    " ".intercalate (s.memory.map termToStr) ++ ") (claims " ++
    " ".intercalate (s.claims.reverse.map patToStr) ++ "))"

def hexVal (c : Char) : Option Nat :=
  if '0' ≤ c ∧ c ≤ '9' then some (c.toNat - '0'.toNat)
  else if 'a' ≤ c ∧ c ≤ 'f' then some (c.toNat - 'a'.toNat + 10)
  else if 'A' ≤ c ∧ c ≤ 'F' then some (c.toNat - 'A'.toNat + 10)
  else none

/-- hex string → bytes; "-" is the empty string -/
def bytesOfHex (s : String) : Option (List Nat) :=
  if s == "-" then some [] else
  let rec go : List Char → Option (List Nat)
    | [] => some []
    | a :: b :: r => do let x ← hexVal a; let y ← hexVal b; let rest ← go r; pure ((16 * x + y) :: rest)
    | _ => none
  go s.toList


open Sexp in
partial def npatOfSexp : Sexp → Option NPat
  | .list [.atom "evar", n] => do pure (.evar (← nat? n))
  | .list [.atom "svar", n] => do pure (.svar (← nat? n))
  | .list [.atom "sym", n] => do pure (.sym (← nat? n))
  | .list [.atom "imp", l, r] => do pure (.imp (← npatOfSexp l) (← npatOfSexp r))
  | .list [.atom "app", l, r] => do pure (.app (← npatOfSexp l) (← npatOfSexp r))
  | .list [.atom "ex", n, p] => do pure (.ex (← nat? n) (← npatOfSexp p))
  | .list [.atom "mu", n, p] => do pure (.mu (← nat? n) (← npatOfSexp p))
  | .list [.atom "mv", n, a, b, c, d, e] => do
      pure (.mv (← nat? n) (← natList? a) (← natList? b) (← natList? c) (← natList? d) (← natList? e))
  | .list [.atom "esub", p, n, q] => do pure (.esub (← npatOfSexp p) (← nat? n) (← npatOfSexp q))
  | .list [.atom "ssub", p, n, q] => do pure (.ssub (← npatOfSexp p) (← nat? n) (← npatOfSexp q))
  | .list [.atom "inst", p, .list m] => do
      let p ← npatOfSexp p
      let m ← m.mapM fun kv => match kv with
        | .list [k, v] => do pure ((← nat? k), (← npatOfSexp v))
        | _ => none
      pure (.inst p m)
  | _ => none

open Sexp in
def nmapOfSexp : Sexp → Option (List (Nat × NPat))
  | .list m => m.mapM fun kv => match kv with
      | .list [k, v] => do pure ((← nat? k), (← npatOfSexp v))
      | _ => none
  | _ => none

partial def npatToStr : NPat → String
  | .evar x => s!"(evar {x})"
  | .svar x => s!"(svar {x})"
  | .sym x => s!"(sym {x})"
  | .imp l r => s!"(imp {npatToStr l} {npatToStr r})"
  | .app l r => s!"(app {npatToStr l} {npatToStr r})"
  | .ex x p => s!"(ex {x} {npatToStr p})"
  | .mu x p => s!"(mu {x} {npatToStr p})"
  | .mv n a b c d e => s!"(mv {n} {natsToStr a} {natsToStr b} {natsToStr c} {natsToStr d} {natsToStr e})"
  | .esub p x q => s!"(esub {npatToStr p} {x} {npatToStr q})"
  | .ssub p x q => s!"(ssub {npatToStr p} {x} {npatToStr q})"
  | .inst p m => "(inst " ++ npatToStr p ++ " (" ++ " ".intercalate (m.map fun (k, v) => s!"({k} {npatToStr v})") ++ "))"


def substToStr (s : List (Nat × NPat)) : String :=
  "(" ++ " ".intercalate (s.map fun (k, v) => s!"({k} {npatToStr v})") ++ ")"


open Sexp in
partial def ppOfSexp : Sexp → Option PP
  | .list [.atom "evar", n] => do pure (.evar (← nat? n))
  | .list [.atom "svar", n] => do pure (.svar (← nat? n))
  | .list [.atom "sym", .atom n] => some (.sym n)
  | .list [.atom "imp", l, r] => do pure (.imp (← ppOfSexp l) (← ppOfSexp r))
  | .list [.atom "app", l, r] => do pure (.app (← ppOfSexp l) (← ppOfSexp r))
  | .list [.atom "ex", n, p] => do pure (.ex (← nat? n) (← ppOfSexp p))
  | .list [.atom "mu", n, p] => do pure (.mu (← nat? n) (← ppOfSexp p))
  | .list [.atom "mv", n] => do pure (.mv (← nat? n))
  | .list [.atom "esub", p, n, q] => do pure (.esub (← ppOfSexp p) (← nat? n) (← ppOfSexp q))
  | .list [.atom "ssub", p, n, q] => do pure (.ssub (← ppOfSexp p) (← nat? n) (← ppOfSexp q))
  | .list (.atom "napp" :: i :: args) => do pure (.napp (← nat? i) (← args.mapM ppOfSexp))
  | _ => none


open Sexp in
def ttermOfSexp : Sexp → Option TTerm
  | .list [.atom "pattern", p] => do pure (.pat (← npatOfSexp p))
  | .list [.atom "proved", p] => do pure (.proved (← npatOfSexp p))
  | _ => none

open Sexp in
def callOfSexp : Sexp → Option Call
  | .list [.atom "evar", n] => do pure (.evar (← nat? n))
  | .list [.atom "svar", n] => do pure (.svar (← nat? n))
  | .list [.atom "symbol", n] => do pure (.symbol (← nat? n))
  | .list [.atom "metavar", n, a, b, c, d, e] => do
      pure (.metavar (← nat? n) (← natList? a) (← natList? b) (← natList? c) (← natList? d) (← natList? e))
  | .list [.atom "implies"] => some .implies
  | .list [.atom "app"] => some .app
  | .list [.atom "exists", n] => do pure (.ex (← nat? n))
  | .list [.atom "mu", n] => do pure (.mu (← nat? n))
  | .list [.atom "esubst", n] => do pure (.esubst (← nat? n))
  | .list [.atom "ssubst", n] => do pure (.ssubst (← nat? n))
  | .list [.atom "prop1"] => some .prop1
  | .list [.atom "prop2"] => some .prop2
  | .list [.atom "prop3"] => some .prop3
  | .list [.atom "quantifier"] => some .quantifier
  | .list [.atom "mp"] => some .mp
  | .list [.atom "gen", n] => do pure (.gen (← nat? n))
  | .list [.atom "instantiate", ks] => do pure (.instantiate (← natList? ks))
  | .list [.atom "instantiate-pattern", ks] => do pure (.instantiatePattern (← natList? ks))
  | .list [.atom "pop"] => some .pop
  | .list [.atom "save"] => some .save
  | .list [.atom "load", t] => do pure (.load (← ttermOfSexp t))
  | .list [.atom "publish-proof"] => some .publishProof
  | .list [.atom "publish-axiom"] => some .publishAxiom
  | .list [.atom "publish-claim"] => some .publishClaim
  | .list [.atom "into-claim"] => some .intoClaim
  | .list [.atom "into-proof"] => some .intoProof
  | _ => none

def ttermToStr : TTerm → String
  | .pat p => s!"(pattern {npatToStr p})"
  | .proved p => s!"(proved {npatToStr p})"

def phaseToStr : Phase → String
  | .gamma => "gamma" | .claim => "claim" | .proof => "proof"

def pystToStr (s : PySt) : String :=
  "(pystate " ++ phaseToStr s.phase ++ " (stack " ++ " ".intercalate (s.stack.reverse.map fun (t, _) => ttermToStr t) ++
    ") (memory " ++ " ".intercalate (s.memory.map ttermToStr) ++ ") (claims " ++
    " ".intercalate (s.claims.map npatToStr) ++ "))"

def hexOfBytes (bs : List Nat) : String :=
  if bs.isEmpty then "-" else
  let hexDigit (n : Nat) : Char := if n < 10 then Char.ofNat (48 + n) else Char.ofNat (87 + n)
  String.ofList (bs.flatMap fun b => [hexDigit (b / 16 % 16), hexDigit (b % 16)])


/-- full expansion the way Python computes it (`simplify()` at every notation node, then the children): on
patterns with redundant substitutions under a notation node with an EMPTY map it keeps the substitution node,
where `NPat.expand` (which goes through `Py.inst`) drops it; the two agree on shaped patterns
(`NotationThm`).  Used only for printing states in the correspondence protocol. -/
partial def pyExpand (n : Nat) : NPat → NPat
  | .inst p m => match NPat.instF n m p with
      | some s => pyExpand n s
      | none => .inst p m
  | .imp l r => .imp (pyExpand n l) (pyExpand n r)
  | .app l r => .app (pyExpand n l) (pyExpand n r)
  | .ex x q => .ex x (pyExpand n q)
  | .mu x q => .mu x (pyExpand n q)
  | .esub q x r => .esub (pyExpand n q) x (pyExpand n r)
  | .ssub q x r => .ssub (pyExpand n q) x (pyExpand n r)
  | q => q

def ttermToStrX : TTerm → String
  | .pat p => s!"(pattern {patToStr (pyExpand 4000 p).expand})"
  | .proved p => s!"(proved {patToStr (pyExpand 4000 p).expand})"

/-- state with every term fully expanded -/
def pystToStrX (s : PySt) : String :=
  "(pystate " ++ phaseToStr s.phase ++ " (stack " ++ " ".intercalate (s.stack.reverse.map fun (t, _) => ttermToStrX t) ++
    ") (memory " ++ " ".intercalate (s.memory.map ttermToStrX) ++ ") (claims " ++
    " ".intercalate (s.claims.map fun c => patToStr (pyExpand 4000 c).expand) ++ "))"


open Sexp in
partial def pfOfSexp : Sexp → Option Pf
  | .list [.atom "prop1"] => some .prop1
  | .list [.atom "prop2"] => some .prop2
  | .list [.atom "prop3"] => some .prop3
  | .list [.atom "quantifier"] => some .quantifier
  | .list [.atom "mp", l, r] => do pure (.mp (← pfOfSexp l) (← pfOfSexp r))
  | .list [.atom "gen", p, x] => do pure (.gen (← pfOfSexp p) (← nat? x))
  | .list [.atom "dyninst", p, d] => do pure (.dynInst (← pfOfSexp p) (← nmapOfSexp d))
  | .list [.atom "axiom", a] => do pure (.loadAxiom (← npatOfSexp a))
  | _ => none

open Sexp in
partial def moduleOfSexp : Sexp → Option PModule
  | .list [.atom "module", .list (.atom "axioms" :: ax), .list (.atom "claims" :: cl), .list (.atom "proofs" :: pf),
           .list (.atom "subs" :: subs)] => do
      pure (.mk (← ax.mapM npatOfSexp) (← cl.mapM npatOfSexp) (← pf.mapM pfOfSexp) (← subs.mapM moduleOfSexp))
  | _ => none

def callToStr : Call → String
  | .evar x => s!"(evar {x})" | .svar x => s!"(svar {x})" | .symbol x => s!"(symbol {x})"
  | .metavar id a b c d e => s!"(metavar {id} {natsToStr a} {natsToStr b} {natsToStr c} {natsToStr d} {natsToStr e})"
  | .implies => "(implies)" | .app => "(app)" | .ex x => s!"(exists {x})" | .mu x => s!"(mu {x})"
  | .esubst x => s!"(esubst {x})" | .ssubst x => s!"(ssubst {x})"
  | .prop1 => "(prop1)" | .prop2 => "(prop2)" | .prop3 => "(prop3)" | .quantifier => "(quantifier)"
  | .mp => "(mp)" | .gen x => s!"(gen {x})"
  | .instantiate ks => s!"(instantiate {natsToStr ks})" | .instantiatePattern ks => s!"(instantiate-pattern {natsToStr ks})"
  | .pop => "(pop)" | .save => "(save)" | .load t => s!"(load {ttermToStr t})"
  | .publishProof => "(publish-proof)" | .publishAxiom => "(publish-axiom)" | .publishClaim => "(publish-claim)"
  | .intoClaim => "(into-claim)" | .intoProof => "(into-proof)"


open Sexp in
partial def formOfSexp : Sexp → Option Form
  | .atom "bot" => some .bot
  | .list [.atom "var", n] => do pure (.var (← nat? n))
  | .list [.atom "imp", a, b] => do pure (.imp (← formOfSexp a) (← formOfSexp b))
  | _ => none

def cfToStr : CF → String
  | .bot n => s!"(bot {n})"
  | .var n i => s!"(var {n} {i})"
  | .or n l r => s!"(or {n} {cfToStr l} {cfToStr r})"
  | .and n l r => s!"(and {n} {cfToStr l} {cfToStr r})"

open Sexp in
partial def cfOfSexp : Sexp → Option CF
  | .list [.atom "bot", .atom b] => some (.bot (b == "true"))
  | .list [.atom "var", .atom b, i] => do pure (.var (b == "true") (← nat? i))
  | .list [.atom "or", .atom b, l, r] => do pure (.or (b == "true") (← cfOfSexp l) (← cfOfSexp r))
  | .list [.atom "and", .atom b, l, r] => do pure (.and (b == "true") (← cfOfSexp l) (← cfOfSexp r))
  | _ => none

def intOfAtom (s : String) : Option Int :=
  if s.startsWith "-" then (s.drop 1).toNat?.map (fun n => -(n : Int)) else s.toNat?.map (fun n => (n : Int))

open Sexp in
def clausesOfSexp : Sexp → Option (List (List Int))
  | .list cs => cs.mapM fun c => match c with
      | .list xs => xs.mapM fun x => match x with | .atom a => intOfAtom a | _ => none
      | _ => none
  | _ => none

def clausesToStr (cs : List (List Int)) : String :=
  "(" ++ " ".intercalate (cs.map fun c => "(" ++ " ".intercalate (c.map toString) ++ ")") ++ ")"

/-! ### Metamath databases (fragment F0) -/
open Sexp in
partial def mmTermOfSexp : Sexp → Option MM.Term
  | .list [.atom "v", n] => do pure (.var (← nat? n))
  | .list [.atom "imp", a, b] => do pure (.imp (← mmTermOfSexp a) (← mmTermOfSexp b))
  | .list [.atom "app", a, b] => do pure (.app (← mmTermOfSexp a) (← mmTermOfSexp b))
  | .list (.atom "con" :: c :: xs) => do pure (.con (← nat? c) (← xs.mapM mmTermOfSexp))
  | _ => none

open Sexp in
def mmDbOfSexp : Sexp → Option MM.DB
  | .list [.atom "db", fl, .list [.atom "imp", ix, iy], .list [.atom "app", ax, ay],
           .list (.atom "ctors" :: cs), .list (.atom "rules" :: rs),
           .list [.atom "p1", a, b], .list [.atom "p2", c, d, e], .list [.atom "mp", f, g]] => do
      let ctors ← cs.mapM fun c => match c with
        | .list [s, args] => do pure ({ sym := ← nat? s, args := ← natList? args } : MM.Ctor)
        -- a declared notation: `$a #Pattern ( s args )` + `$a #Notation ( s args ) body`
        | .list [s, args, .list [.atom "body", b]] => do
            pure ({ sym := ← nat? s, args := ← natList? args, body := some (← mmTermOfSexp b) } : MM.Ctor)
        | _ => none
      let rules ← rs.mapM fun r => match r with
        | .list [.list hs, t] => do pure (⟨← hs.mapM mmTermOfSexp, ← mmTermOfSexp t⟩ : MM.Rule)
        | _ => none
      pure { floats := ← natList? fl, impArgs := (← nat? ix, ← nat? iy), appArgs := (← nat? ax, ← nat? ay),
             ctors := ctors, rules := rules, p1 := (← nat? a, ← nat? b), p2 := (← nat? c, ← nat? d, ← nat? e),
             mp := (← nat? f, ← nat? g) }
  | _ => none

open Sexp in
def mmLblOfSexp : Sexp → Option MM.Lbl
  | .list [.atom "f", v] => do pure (.float (← nat? v))
  | .atom "imp" => some .impC | .atom "app" => some .appC
  | .list [.atom "ctor", i] => do pure (.ctor (← nat? i))
  | .list [.atom "rule", i] => do pure (.rule (← nat? i))
  | .atom "p1" => some .p1 | .atom "p2" => some .p2 | .atom "mp" => some .mp
  | _ => none

/-! ### Metamath ASTs (strings travel as `h<hex of the UTF-8 bytes>`) -/
def strOfHexAtom : Sexp → Option String
  | .atom a =>
    if a.startsWith "h" then do
      let bs ← bytesOfHex (if a.length = 1 then "-" else (a.drop 1).toString)
      String.fromUTF8? (ByteArray.mk (bs.map (·.toUInt8)).toArray)
    else none
  | _ => none

def hexAtomOfStr (s : String) : String :=
  if s.isEmpty then "h" else "h" ++ hexOfBytes (s.toUTF8.toList.map (·.toNat))

def strsOfSexp : Sexp → Option (List String)
  | .list xs => xs.mapM strOfHexAtom
  | _ => none

def strsToStr (xs : List String) : String := "(" ++ " ".intercalate (xs.map hexAtomOfStr) ++ ")"

partial def mtermOfSexp : Sexp → Option MM.MTerm
  | .list [.atom "mv", n] => do pure (.mv (← strOfHexAtom n))
  | .list (.atom "app" :: s :: args) => do pure (.app (← strOfHexAtom s) (← args.mapM mtermOfSexp))
  | _ => none

partial def mtermToStr : MM.MTerm → String
  | .mv n => s!"(mv {hexAtomOfStr n})"
  | .app s args => "(app " ++ " ".intercalate (hexAtomOfStr s :: args.map mtermToStr) ++ ")"

partial def mstmtOfSexp : Sexp → Option MM.MStmt
  | .list [.atom "c", cs] => do pure (.const (← strsOfSexp cs))
  | .list [.atom "v", vs] => do pure (.var (← strsOfSexp vs))
  | .list [.atom "d", vs] => do pure (.disj (← strsOfSexp vs))
  | .list [.atom "f", l, tc, v] => do pure (.float (← strOfHexAtom l) (← strOfHexAtom tc) (← strOfHexAtom v))
  | .list [.atom "e", l, .list ts] => do pure (.ess (← strOfHexAtom l) (← ts.mapM mtermOfSexp))
  | .list [.atom "a", l, .list ts] => do pure (.ax (← strOfHexAtom l) (← ts.mapM mtermOfSexp))
  | .list [.atom "p", l, .list ts, pf] => do pure (.prov (← strOfHexAtom l) (← ts.mapM mtermOfSexp) (← strsOfSexp pf))
  | .list (.atom "block" :: ss) => do pure (.block (← ss.mapM mstmtOfSexp))
  | _ => none

partial def mstmtToStr : MM.MStmt → String
  | .const cs => s!"(c {strsToStr cs})"
  | .var vs => s!"(v {strsToStr vs})"
  | .disj vs => s!"(d {strsToStr vs})"
  | .float l tc v => s!"(f {hexAtomOfStr l} {hexAtomOfStr tc} {hexAtomOfStr v})"
  | .ess l ts => s!"(e {hexAtomOfStr l} ({" ".intercalate (ts.map mtermToStr)}))"
  | .ax l ts => s!"(a {hexAtomOfStr l} ({" ".intercalate (ts.map mtermToStr)}))"
  | .prov l ts pf => s!"(p {hexAtomOfStr l} ({" ".intercalate (ts.map mtermToStr)}) {strsToStr pf})"
  | .block ss => "(" ++ " ".intercalate ("block" :: ss.map mstmtToStr) ++ ")"

def mdbOfSexp : Sexp → Option MM.MDb
  | .list (.atom "mdb" :: ss) => ss.mapM mstmtOfSexp
  | _ => none

def mdbToStr (db : MM.MDb) : String := "(" ++ " ".intercalate ("mdb" :: db.map mstmtToStr) ++ ")"

/-! ### Kore -/
open Sexp in
def ksortOfSexp : Sexp → Option Kore.KSort
  | .list [.atom "sv", n] => do pure (.var (← nat? n))
  | .list [.atom "s", n] => do pure (.app (← nat? n))
  | _ => none

open Sexp in
partial def ktermOfSexp : Sexp → Option Kore.KTerm
  | .list [.atom "evar", n] => do pure (.evar (← nat? n))
  | .list [.atom "app", f, .list ss, .list as] => do pure (.app (← nat? f) (← ss.mapM ksortOfSexp) (← as.mapM ktermOfSexp))
  | .list [.atom "dv", s, v] => do pure (.dv (← ksortOfSexp s) (← nat? v))
  | .list [.atom "top", s] => do pure (.top (← ksortOfSexp s))
  | .list [.atom "bottom", s] => do pure (.bottom (← ksortOfSexp s))
  | .list [.atom "not", s, p] => do pure (.not (← ksortOfSexp s) (← ktermOfSexp p))
  | .list [.atom "next", s, p] => do pure (.next (← ksortOfSexp s) (← ktermOfSexp p))
  | .list [.atom "and", s, l, r] => do pure (.and (← ksortOfSexp s) (← ktermOfSexp l) (← ktermOfSexp r))
  | .list [.atom "or", s, l, r] => do pure (.or (← ksortOfSexp s) (← ktermOfSexp l) (← ktermOfSexp r))
  | .list [.atom "implies", s, l, r] => do pure (.implies (← ksortOfSexp s) (← ktermOfSexp l) (← ktermOfSexp r))
  | .list [.atom "iff", s, l, r] => do pure (.iff (← ksortOfSexp s) (← ktermOfSexp l) (← ktermOfSexp r))
  | .list [.atom "rewrites", s, l, r] => do pure (.rewrites (← ksortOfSexp s) (← ktermOfSexp l) (← ktermOfSexp r))
  | .list [.atom "ceil", a, b, p] => do pure (.ceil (← ksortOfSexp a) (← ksortOfSexp b) (← ktermOfSexp p))
  | .list [.atom "floor", a, b, p] => do pure (.floor (← ksortOfSexp a) (← ksortOfSexp b) (← ktermOfSexp p))
  | .list [.atom "equals", a, b, l, r] => do pure (.equals (← ksortOfSexp a) (← ksortOfSexp b) (← ktermOfSexp l) (← ktermOfSexp r))
  | .list [.atom "in", a, b, l, r] => do pure (.kin (← ksortOfSexp a) (← ksortOfSexp b) (← ktermOfSexp l) (← ktermOfSexp r))
  | _ => none

open Sexp in
def ksigOfSexp : Sexp → Option Kore.Sig
  | .list [.atom "sig", sorts, .list syms] => do
      let ds ← syms.mapM fun d => match d with
        | .list [n, sp, inp, .atom cell, .atom fn, .atom kseq] => do
            pure ({ name := ← nat? n, nSortParams := ← nat? sp, nInputs := ← nat? inp, isCell := cell == "1",
                    isFunctional := fn == "1", isKseq := kseq == "1" } : Kore.SymDecl)
        | _ => none
      pure { sorts := ← natList? sorts, symbols := ds }
  | _ => none
