import Pi2.KDefTieM8
/-!
# THE QUERIES on the finished several-module store against the specification

* facts about the specification: `modulesOfDefinition_facts` — on an accepted definition the symbol names of the signature are exactly the
  declared ones (so `InFragmentM` makes them pairwise different), and the ordinals of the rules of ALL modules are strictly increasing and
  below the counter (`OrdOK`);
* `mainOrd_iff`: the ordinals `mainOrdinals` are exactly those of the rules of the main module and of the modules in its closure `cl`
  (`reach` has the names of `cl`, names are distinct);
* `get_axiom_final`, `cached_final`, `get_sort_final`, `get_symbol_final`, `resolve_final`, `sigView_heapF`: the queries of the generated text on
  `heapF pL b` (any `InvF b`, any valid set order, fuel `≥` number of modules `+ 1`).
-/
set_option linter.unusedVariables false
set_option linter.unusedSimpArgs false
namespace KDefTieM2
open PyI PyM PyK Kore Gen.PyKDef KDefSpec KDefTie KDefTieM

/-! ## facts about the specification -/

/-- the ordinals of the rules are strictly increasing and below the counter -/
structure OrdOK (a : DefSem) : Prop where
  sorted : (a.rules.map (·.ordinal)).Pairwise (· < ·)
  bound : ∀ ru ∈ a.rules, ru.ordinal < a.nAxioms

theorem ordOK_step {a a' : DefSem} (h : OrdOK a)
    (hr : (a'.rules = a.rules ∧ a.nAxioms ≤ a'.nAxioms) ∨
      ∃ ru, a'.rules = a.rules ++ [ru] ∧ ru.ordinal = a.nAxioms ∧ a'.nAxioms = a.nAxioms + 1) : OrdOK a' := by
  rcases hr with ⟨h1, h2⟩ | ⟨ru, h1, h2, h3⟩
  · refine ⟨by rw [h1]; exact h.sorted, ?_⟩
    intro r hr; rw [h1] at hr; have := h.bound r hr; omega
  · refine ⟨?_, ?_⟩
    · rw [h1, List.map_append, List.pairwise_append]
      refine ⟨h.sorted, by simp, ?_⟩
      intro x hx y hy
      simp only [List.map_cons, List.map_nil, List.mem_singleton] at hy
      obtain ⟨r, hr, rfl⟩ := List.mem_map.1 hx
      have := h.bound r hr
      omega
    · intro r hr
      rw [h1] at hr
      rcases List.mem_append.1 hr with hr | hr
      · have := h.bound r hr; omega
      · simp at hr; subst hr; omega

theorem addSentenceM_facts {d d' : DefSemM} {s : KSentence} (h : addSentenceM d s = some d') :
    d'.all.sg.symbols.map (·.name) = d.all.sg.symbols.map (·.name) ++ sentSymbols s ∧
    ((d'.all.rules = d.all.rules ∧ d.all.nAxioms ≤ d'.all.nAxioms) ∨
      ∃ ru, d'.all.rules = d.all.rules ++ [ru] ∧ ru.ordinal = d.all.nAxioms ∧ d'.all.nAxioms = d.all.nAxioms + 1) := by
  cases s with
  | «import» m =>
    simp only [addSentenceM] at h
    split at h
    · simp at h
    · split at h <;> simp at h; subst h; exact ⟨by simp [sentSymbols], .inl ⟨rfl, Nat.le_refl _⟩⟩
  | other => simp [addSentenceM] at h; subst h; exact ⟨by simp [sentSymbols], .inl ⟨rfl, Nat.le_refl _⟩⟩
  | sortDecl nm hk =>
    simp only [addSentenceM] at h; split at h <;> simp at h; subst h; exact ⟨by simp [sentSymbols], .inl ⟨rfl, Nat.le_refl _⟩⟩
  | symbolDecl nm vars params srt attrs =>
    simp only [addSentenceM] at h
    split at h; · simp at h
    split at h <;> simp at h; subst h; exact ⟨by simp [sentSymbols, symDecl], .inl ⟨rfl, Nat.le_refl _⟩⟩
  | «axiom» p =>
    simp only [addSentenceM] at h
    split at h
    · simp at h; subst h; exact ⟨by simp [sentSymbols], .inl ⟨rfl, Nat.le_succ _⟩⟩
    · rename_i kind t _
      cases hc : conv d.all.sg {} t with
      | none => simp [hc] at h
      | some r =>
        simp only [hc, Option.map_some, Option.some.injEq] at h; subst h
        exact ⟨by simp [sentSymbols], .inr ⟨_, rfl, rfl, rfl⟩⟩

theorem addSentencesM_facts {d d' : DefSemM} {ss : List KSentence} (h : addSentencesM d ss = some d') :
    d'.all.sg.symbols.map (·.name) = d.all.sg.symbols.map (·.name) ++ ss.flatMap sentSymbols ∧ (OrdOK d.all → OrdOK d'.all) := by
  induction ss generalizing d with
  | nil => simp only [addSentencesM, Option.some.injEq] at h; subst h; exact ⟨by simp, id⟩
  | cons s ss ih =>
    simp only [addSentencesM] at h
    cases hs : addSentenceM d s with
    | none => simp [hs] at h
    | some d1 =>
      simp only [hs, Option.bind_some] at h
      obtain ⟨h1, h2⟩ := addSentenceM_facts hs
      obtain ⟨h3, h4⟩ := ih h
      exact ⟨by rw [h3, h1]; simp, fun ho => h4 (ordOK_step ho h2)⟩

theorem addModule_facts {a a' : DefSem × List ModSem} {m : KModuleDef} (h : addModule a m = some a') :
    a'.1.sg.symbols.map (·.name) = a.1.sg.symbols.map (·.name) ++ m.sentences.flatMap sentSymbols ∧ (OrdOK a.1 → OrdOK a'.1) := by
  simp only [addModule] at h
  split at h
  · cases h
  · simp only [Option.map_eq_some_iff] at h
    obtain ⟨d', hd, rfl⟩ := h
    exact addSentencesM_facts hd

theorem addModules_facts {a a' : DefSem × List ModSem} {ms : List KModuleDef} (h : addModules a ms = some a') :
    a'.1.sg.symbols.map (·.name) = a.1.sg.symbols.map (·.name) ++ ms.flatMap (fun m => m.sentences.flatMap sentSymbols) ∧
    (OrdOK a.1 → OrdOK a'.1) := by
  induction ms generalizing a with
  | nil => simp only [addModules, Option.some.injEq] at h; subst h; exact ⟨by simp, id⟩
  | cons m ms ih =>
    simp only [addModules] at h
    cases hs : addModule a m with
    | none => simp [hs] at h
    | some a1 =>
      simp only [hs, Option.bind_some] at h
      obtain ⟨h1, h2⟩ := addModule_facts hs
      obtain ⟨h3, h4⟩ := ih h
      exact ⟨by rw [h3, h1]; simp, fun ho => h4 (h2 ho)⟩

theorem modulesOfDefinition_facts {d : KDefinition} {a : DefSem × List ModSem} (h : modulesOfDefinition d = some a) :
    a.1.sg.symbols.map (·.name) = declaredSymbols d ∧ OrdOK a.1 := by
  obtain ⟨h1, h2⟩ := addModules_facts h
  refine ⟨by rw [h1]; simp [emptySem, declaredSymbols], h2 ⟨by simp [emptySem], by simp [emptySem]⟩⟩

theorem nodup_map_inj {α β} {f : α → β} : ∀ {l : List α}, (l.map f).Nodup → ∀ {a b}, a ∈ l → b ∈ l → f a = f b → a = b
  | [], _, _, _, ha, _, _ => by cases ha
  | x :: l, h, a, b, ha, hb, hab => by
    simp only [List.map_cons, List.nodup_cons, List.mem_map, not_exists, not_and] at h
    rcases List.mem_cons.1 ha with rfl | ha' <;> rcases List.mem_cons.1 hb with rfl | hb'
    · rfl
    · exact absurd hab.symm (h.1 b hb')
    · exact absurd hab (h.1 a ha')
    · exact nodup_map_inj h.2 ha' hb' hab

theorem ordOK_inj {a : DefSem} (h : OrdOK a) {x y : Rule} (hx : x ∈ a.rules) (hy : y ∈ a.rules) (hxy : x.ordinal = y.ordinal) : x = y :=
  nodup_map_inj (f := fun r : Rule => r.ordinal) (h.sorted.imp fun h => Nat.ne_of_lt h) hx hy hxy

/-! ## the finished store -/

theorem sigView_heapL (pL mods cs) : sigView (heapL pL mods cs) = sgM mods := by
  simp [sigView, heapL, sgM, modOfM, toR, sortsDict, symbolsDict, List.flatMap_map, List.map_map, Function.comp_def]

theorem sigView_heapF (pL : Option Bool) (b : FSt) : sigView (heapF pL b) = (projF b).1.sg := sigView_heapL pL b.fin b.cs

theorem closedF {b : FSt} (hb : InvF b) : Closed b.fin := closed_of_doneOK hb.ok

theorem mem_idx {α} {l : List α} {x : α} (h : x ∈ l) : ∃ i : Nat, l[i]? = some x := by
  obtain ⟨i, hi, rfl⟩ := List.getElem_of_mem h
  exact ⟨i, List.getElem?_eq_getElem hi⟩

/-- `_cached_axiom_scopes`: the scope of every rule of every module -/
theorem cached_final (pL : Option Bool) (b : FSt) (o : Nat) :
    (heapF pL b)._cached_axiom_scopes.lookup o = ((projF b).1.rules.find? (·.ordinal == o)).map fun ru => scopeObj ru.scope :=
  scopes_lookup _ o

/-- `get_sort` on the finished store -/
theorem get_sort_final (so : SetOrder) (hso : so.Valid) (pL : Option Bool) {b : FSt} (hb : InvF b) (n : Nat) (hn : b.fin.length + 1 ≤ n)
    (k : Nat) :
    (LanguageSemantics.get_sort so n (heapF pL b) k).map (Option.map fun s => s.name)
      = some (if (projF b).1.sg.sorts.contains k then some k else none) := by
  obtain ⟨r, hr, h1, h2⟩ := ls_get_sort_char so hso pL b.cs (closedF hb) n hn k
  rw [heapF, hr]
  simp only [Option.map_some]
  congr 1
  have hsorts : (projF b).1.sg.sorts = b.fin.flatMap fun m => m.sorts.map (·.1) := rfl
  cases r with
  | some s =>
    obtain ⟨j, mj, hmj, hown⟩ := h1 s rfl
    have hname : s.name = k := sortsDict_key (toR mj) k s hown
    have hk : (mj.sorts.map (·.1)).contains k = true := by
      have := ownSort_isSome k mj; rw [hown] at this; exact this.symm
    have : (projF b).1.sg.sorts.contains k = true := by
      rw [hsorts]
      simp only [List.contains_iff_mem, List.mem_flatMap] at hk ⊢
      exact ⟨mj, List.mem_of_getElem? hmj, hk⟩
    rw [if_pos this]; simp [hname]
  | none =>
    have : (projF b).1.sg.sorts.contains k = false := by
      rw [Bool.eq_false_iff, hsorts]
      intro hc
      simp only [List.contains_iff_mem, List.mem_flatMap] at hc
      obtain ⟨m, hm, hk⟩ := hc
      obtain ⟨j, hj⟩ := mem_idx hm
      have h3 := h2 rfl j m hj
      have h4 := ownSort_isSome k m
      rw [h3] at h4
      have : (m.sorts.map (·.1)).contains k = true := by simpa using hk
      rw [this] at h4; cases h4
    rw [this]; rfl

theorem ownSymbol_find (k : Nat) (m : RMod) : ownSymbol k m = m.symbols.find? (·.name == k) := symbols_lookup (toR m) k

/-- `get_symbol` on the finished store (symbol names pairwise different) -/
theorem get_symbol_final (so : SetOrder) (hso : so.Valid) (pL : Option Bool) {b : FSt} (hb : InvF b)
    (hsym : ((projF b).1.sg.symbols.map (·.name)).Nodup) (n : Nat) (hn : b.fin.length + 1 ≤ n) (k : Nat) :
    ∃ r, LanguageSemantics.get_symbol so n (heapF pL b) k = some r ∧
      r.map symDeclOf = (projF b).1.sg.symbols.find? (·.name == k) := by
  obtain ⟨r, hr, h1, h2⟩ := ls_get_symbol_char so hso pL b.cs (closedF hb) n hn k
  refine ⟨r, hr, ?_⟩
  have hsyms : (projF b).1.sg.symbols = b.fin.flatMap fun m => m.symbols.map symDeclOf := rfl
  cases r with
  | some s =>
    obtain ⟨j, mj, hmj, hown⟩ := h1 s rfl
    rw [ownSymbol_find] at hown
    have hs : s ∈ mj.symbols := List.mem_of_find?_eq_some hown
    have hname : s.name = k := by simpa using List.find?_some hown
    have hmem : symDeclOf s ∈ (projF b).1.sg.symbols := by
      rw [hsyms, List.mem_flatMap]
      exact ⟨mj, List.mem_of_getElem? hmj, List.mem_map.2 ⟨s, hs, rfl⟩⟩
    cases hf : (projF b).1.sg.symbols.find? (·.name == k) with
    | none =>
      rw [List.find?_eq_none] at hf
      have := hf _ hmem
      simp [symDeclOf_name, hname] at this
    | some x =>
      have hx : x ∈ (projF b).1.sg.symbols := List.mem_of_find?_eq_some hf
      have hxn : x.name = k := by simpa using List.find?_some hf
      have : x = symDeclOf s := nodup_map_inj (f := fun d : SymDecl => d.name) hsym hx hmem (by rw [hxn, symDeclOf_name, hname])
      rw [this]; rfl
  | none =>
    symm
    show List.find? _ _ = none
    rw [List.find?_eq_none]
    intro x hx
    rw [hsyms, List.mem_flatMap] at hx
    obtain ⟨m, hm, hx⟩ := hx
    obtain ⟨s, hs, rfl⟩ := List.mem_map.1 hx
    obtain ⟨j, hj⟩ := mem_idx hm
    have h3 := h2 rfl j m hj
    rw [ownSymbol_find, List.find?_eq_none] at h3
    have := h3 s hs
    simpa [symDeclOf_name] using this

theorem get_symbol_final' (so : SetOrder) (hso : so.Valid) (pL : Option Bool) {b : FSt} (hb : InvF b)
    (hsym : ((projF b).1.sg.symbols.map (·.name)).Nodup) (n : Nat) (hn : b.fin.length + 1 ≤ n) (k : Nat) :
    (LanguageSemantics.get_symbol so n (heapF pL b) k).map (Option.map symDeclOf) = some ((projF b).1.sg.symbols.find? (·.name == k)) := by
  obtain ⟨r, hr, h⟩ := get_symbol_final so hso pL hb hsym n hn k
  rw [hr, ← h]; rfl

/-- `resolve_to_ksymbol` on the finished store -/
theorem resolve_final (so : SetOrder) (hso : so.Valid) (pL : Option Bool) {b : FSt} (hb : InvF b)
    (hsym : ((projF b).1.sg.symbols.map (·.name)).Nodup) (n : Nat) (hn : b.fin.length + 1 ≤ n) (s : Nat) :
    (LanguageSemantics.resolve_to_ksymbol so n (heapF pL b) (.sym s)).map (Option.map (Option.map symDeclOf))
      = ret (if s ≥ 2001 ∧ s < 100000 ∧ (s - 2001) % 2 = 0 then (projF b).1.sg.symbols.find? (·.name == (s - 2001) / 2) else none) := by
  unfold LanguageSemantics.resolve_to_ksymbol KSymbol.unwrap_kore_name
  simp only [symName, nameStartsWith, nameRemovePrefix]
  by_cases hs : s ≥ 2001 ∧ s < 100000 ∧ (s - 2001) % 2 = 0
  · obtain ⟨r, hr, h⟩ := get_symbol_final so hso pL hb hsym n hn ((s - 2001) / 2)
    simp only [hs, decide_true, beq_self_eq_true, if_true, Bool.not_true, Bool.false_eq_true, if_false, and_self,
      KoreTie.call_ret_val, hr, ← h]
    cases r <;> rfl
  · simp only [hs, decide_false, beq_self_eq_true, if_true, Bool.not_false, if_false, KoreTie.call_ret_val]
    rfl

/-! ## `get_axiom` against `mainOrdinals` -/

/-- the ordinals `get_axiom` may find: those of the rules of the main module and of the modules in its closure -/
theorem mainOrd_iff {done : List RMod} {last : RMod} (hd : DistinctNames (done ++ [last])) (hok : ModOK done last)
    (hC : Closed (done ++ [last])) (o : Nat) :
    o ∈ mainOrdinals ((done ++ [last]).map projMod) ↔
      ∃ j ∈ done.length :: last.cl, ∃ mj, (done ++ [last])[j]? = some mj ∧ o ∈ mj.rules.map (·.ordinal) := by
  have hms : ((done ++ [last]).map projMod).getLast? = some (projMod last) := by simp
  have hlast : (done ++ [last])[done.length]? = some last := by simp
  obtain ⟨_, _, _, hreach⟩ := hok
  unfold mainOrdinals
  rw [hms]
  simp only [List.mem_append, ordinalsOf, List.mem_flatMap, List.mem_filter, List.contains_iff_mem]
  constructor
  · rintro (h | ⟨pm, ⟨hpm, hr⟩, ho⟩)
    · exact ⟨done.length, List.mem_cons_self .., last, hlast, h⟩
    · obtain ⟨m, hm, rfl⟩ := List.mem_map.1 hpm
      obtain ⟨j, hj, hname⟩ := (hreach m.name).1 hr
      have hjl : j < done.length := cl_lt hC done.length last j hlast hj
      obtain ⟨i, hi⟩ := mem_idx hm
      have hjj : (done ++ [last])[j]? = some done[j] := by rw [List.getElem?_append_left hjl]; exact List.getElem?_eq_getElem hjl
      have : j = i := hd j i done[j] m hjj hi (by simpa [nameAt, List.getElem?_eq_getElem hjl] using hname)
      subst this
      exact ⟨j, List.mem_cons_of_mem _ hj, m, hi, ho⟩
  · rintro ⟨j, hj, mj, hmj, ho⟩
    rcases List.mem_cons.1 hj with rfl | hj
    · rw [hlast] at hmj; cases hmj; exact .inl ho
    · right
      have hjl := cl_lt hC done.length last j hlast hj
      have hmj' : done[j]? = some mj := by rw [List.getElem?_append_left hjl] at hmj; exact hmj
      refine ⟨projMod mj, ⟨List.mem_map.2 ⟨mj, List.mem_of_getElem? hmj, rfl⟩, ?_⟩, ho⟩
      exact (hreach mj.name).2 ⟨j, hj, by simp [nameAt, hmj']⟩

theorem ownAxiom_find (o : Nat) (m : RMod) : ownAxiom o m = (m.rules.find? (·.ordinal == o)).map axiomOf := axioms_lookup m.rules o

/-- `get_axiom(ordinal)` on the finished store: the rule with this ordinal among those `mainOrdinals` selects -/
theorem get_axiom_final (pL : Option Bool) {b : FSt} (hb : InvF b) (hord : OrdOK (projF b).1) (n : Nat) (hn : b.fin.length + 1 ≤ n)
    (o : Nat) :
    LanguageSemantics.get_axiom n (heapF pL b) o
      = some ((((projF b).1.rules.filter fun r => (mainOrdinals (projF b).2).contains r.ordinal).find? (·.ordinal == o)).map axiomOf) := by
  obtain ⟨fin, c⟩ := b
  rcases list_nil_or_snoc fin with rfl | ⟨done, last, rfl⟩
  · rfl
  · have hC := closedF hb
    have hlastm : (done ++ [last])[done.length]? = some last := by simp
    obtain ⟨r, hr, hfound⟩ := get_axiom_char pL (FSt.cs ⟨done ++ [last], c⟩) hC o n done.length last
      (by simp at hn; omega) hlastm
    have hi : (heapF pL ⟨done ++ [last], c⟩)._imported_modules = List.range (done ++ [last]).length := rfl
    have hlen : ((List.range (done ++ [last]).length).length == 0) = false := by simp
    have hlast : (List.range (done ++ [last]).length).getLast? = some done.length := by simp [List.range_succ]
    unfold LanguageSemantics.get_axiom LanguageSemantics.main_module
    simp only [hi, hlen, Bool.false_eq_true, if_false, lastOf, hlast, KoreTie.call_ret_val]
    show call (KModule.get_axiom n (heapL pL (done ++ [last]) (FSt.cs ⟨done ++ [last], c⟩)) done.length o) _ = _
    rw [hr]
    have hok : ModOK done last := by
      have := hb.ok done.length last hlastm
      simpa using this
    have hmo := mainOrd_iff hb.distinct hok hC
    have hrules : (projF ⟨done ++ [last], c⟩).1.rules = (done ++ [last]).flatMap (·.rules) := rfl
    have hms : (projF ⟨done ++ [last], c⟩).2 = (done ++ [last]).map projMod := rfl
    suffices hs : r = (((projF ⟨done ++ [last], c⟩).1.rules.filter fun r =>
        (mainOrdinals (projF ⟨done ++ [last], c⟩).2).contains r.ordinal).find? (·.ordinal == o)).map axiomOf by
      rw [← hs]; cases r <;> rfl
    cases r with
    | some s =>
      obtain ⟨j, hj, mj, hmj, hown⟩ := hfound.1 s rfl
      rw [ownAxiom_find] at hown
      cases hf : mj.rules.find? (·.ordinal == o) with
      | none => simp [hf] at hown
      | some ru =>
        simp only [hf, Option.map_some, Option.some.injEq] at hown
        subst hown
        have hru : ru ∈ mj.rules := List.mem_of_find?_eq_some hf
        have hruo : ru.ordinal = o := by simpa using List.find?_some hf
        have hall : ru ∈ (projF ⟨done ++ [last], c⟩).1.rules := by
          rw [hrules, List.mem_flatMap]; exact ⟨mj, List.mem_of_getElem? hmj, hru⟩
        have hmain : (mainOrdinals (projF ⟨done ++ [last], c⟩).2).contains ru.ordinal = true := by
          rw [hms, List.contains_iff_mem, hmo]
          exact ⟨j, hj, mj, hmj, List.mem_map.2 ⟨ru, hru, rfl⟩⟩
        have hfil : ru ∈ (projF ⟨done ++ [last], c⟩).1.rules.filter fun r =>
            (mainOrdinals (projF ⟨done ++ [last], c⟩).2).contains r.ordinal := List.mem_filter.2 ⟨hall, hmain⟩
        cases hf2 : ((projF ⟨done ++ [last], c⟩).1.rules.filter fun r =>
            (mainOrdinals (projF ⟨done ++ [last], c⟩).2).contains r.ordinal).find? (·.ordinal == o) with
        | none =>
          rw [List.find?_eq_none] at hf2
          have := hf2 ru hfil
          simp [hruo] at this
        | some ru' =>
          have h1 : ru' ∈ (projF ⟨done ++ [last], c⟩).1.rules := (List.mem_filter.1 (List.mem_of_find?_eq_some hf2)).1
          have h2 : ru'.ordinal = o := by simpa using List.find?_some hf2
          have : ru' = ru := ordOK_inj hord h1 hall (by rw [h2, hruo])
          rw [this]; rfl
    | none =>
      symm
      show Option.map axiomOf (List.find? _ _) = none
      rw [Option.map_eq_none_iff, List.find?_eq_none]
      intro ru hru hro
      obtain ⟨hall, hmain⟩ := List.mem_filter.1 hru
      have hruo : ru.ordinal = o := by simpa using hro
      rw [hms, List.contains_iff_mem, hmo] at hmain
      obtain ⟨j, hj, mj, hmj, ho⟩ := hmain
      have h3 := hfound.2 rfl j hj mj hmj
      rw [ownAxiom_find, Option.map_eq_none_iff, List.find?_eq_none] at h3
      obtain ⟨ru2, hru2, ho2⟩ := List.mem_map.1 ho
      have := h3 ru2 hru2
      simp [ho2, hruo] at this

#print axioms mainOrd_iff
#print axioms get_axiom_final
#print axioms get_sort_final
#print axioms get_symbol_final
#print axioms resolve_final
end KDefTieM2
