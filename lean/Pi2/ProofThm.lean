import Pi2.Proof
import Pi2.TrackerThm
import Pi2.DeserializeThm
/-!
# C08 — one proof expression, all interpreters: same success, same conclusion

`Pf.Sem ax pf C`: the documented meaning of a proof expression on full expansions.  Every run
(`runBasicF`, `runF` plain or memoising) that returns, returns a conclusion whose expansion is the
`Sem` conclusion; conversely a run of a meaningful expression cannot raise.
-/
set_option linter.unusedSimpArgs false
set_option linter.unusedVariables false
open PySt

/-! ## unfolding equations -/

/-- sequencing of two raising computations -/
def andThen {α β γ} (x : Option (Option (α × β))) (f : α → β → Option (Option γ)) :
    Option (Option γ) :=
  x.bind fun o => match o with | none => pure none | some (a, b) => f a b

def andThen3 {α β γ δ} (x : Option (Option (α × β × γ))) (f : α → β → γ → Option (Option δ)) :
    Option (Option δ) :=
  x.bind fun o => match o with | none => pure none | some (a, b, c) => f a b c

theorem andThen_eq_some {α β γ} (x : Option (Option (α × β))) (f : α → β → Option (Option γ))
    (r : Option γ) (h : andThen x f = some r) :
    (x = some none ∧ r = none) ∨ ∃ a b, x = some (some (a, b)) ∧ f a b = some r := by
  unfold andThen at h
  simp only [Option.bind_eq_some_iff] at h
  obtain ⟨o, ho, h⟩ := h
  cases o with
  | none => simp at h; exact Or.inl ⟨ho, h.symm⟩
  | some ab => obtain ⟨a, b⟩ := ab; exact Or.inr ⟨a, b, ho, h⟩

theorem andThen3_eq_some {α β γ δ} (x : Option (Option (α × β × γ)))
    (f : α → β → γ → Option (Option δ)) (r : Option δ) (h : andThen3 x f = some r) :
    (x = some none ∧ r = none) ∨ ∃ a b c, x = some (some (a, b, c)) ∧ f a b c = some r := by
  unfold andThen3 at h
  simp only [Option.bind_eq_some_iff] at h
  obtain ⟨o, ho, h⟩ := h
  cases o with
  | none => simp at h; exact Or.inl ⟨ho, h.symm⟩
  | some abc => obtain ⟨a, b, c⟩ := abc; exact Or.inr ⟨a, b, c, ho, h⟩

theorem obind_congr {α β} {x y : Option α} {f g : α → Option β} (hxy : x = y)
    (h : ∀ a, f a = g a) : x.bind f = y.bind g := by
  subst hxy; cases x <;> simp [h]

def memoHitF (cfg : Cfg) (n : Nat) (p : NPat) (s : PySt) : Option Bool :=
  match cfg.memo with
  | none => some false
  | some _ => inMemoryF n p s.memory

def saveF (cfg : Cfg) (n : Nat) (p : NPat) (s' : PySt) (a' : List Call) :
    Option (Option (PySt × List Call)) :=
  match cfg.memo with
  | some S => if S.any (NPat.seq p) then doCalls n s' [.save] a' else some (some (s', a'))
  | none => some (some (s', a'))

def buildF (cfg : Cfg) (n : Nat) (s : PySt) (p : NPat) (acc : List Call) :
    Option (Option (PySt × List Call)) :=
  match p with
  | .evar x => doCalls n s [.evar x] acc
  | .svar x => doCalls n s [.svar x] acc
  | .sym x => doCalls n s [.symbol x] acc
  | .mv id ef sf ps ns hs => doCalls n s [.metavar id ef sf ps ns hs] acc
  | .imp l r => andThen (patternF cfg n s l acc) fun s1 a1 =>
      andThen (patternF cfg n s1 r a1) fun s2 a2 => doCalls n s2 [.implies] a2
  | .app l r => andThen (patternF cfg n s l acc) fun s1 a1 =>
      andThen (patternF cfg n s1 r a1) fun s2 a2 => doCalls n s2 [.app] a2
  | .ex x q => andThen (patternF cfg n s q acc) fun s1 a1 => doCalls n s1 [.ex x] a1
  | .mu x q => andThen (patternF cfg n s q acc) fun s1 a1 => doCalls n s1 [.mu x] a1
  | .esub q x plug => andThen (patternF cfg n s plug acc) fun s1 a1 =>
      andThen (patternF cfg n s1 q a1) fun s2 a2 => doCalls n s2 [.esubst x] a2
  | .ssub q x plug => andThen (patternF cfg n s plug acc) fun s1 a1 =>
      andThen (patternF cfg n s1 q a1) fun s2 a2 => doCalls n s2 [.ssubst x] a2
  | .inst q m => andThen (patternF.patternListF cfg n s (m.map (·.2)) acc) fun s1 a1 =>
      andThen (patternF cfg n s1 q a1) fun s2 a2 =>
        doCalls n s2 [.instantiatePattern (m.map (·.1))] a2

theorem patternF_succ (cfg : Cfg) (n : Nat) (s : PySt) (p : NPat) (acc : List Call) :
    patternF cfg (n + 1) s p acc =
      (memoHitF cfg n p s).bind fun hit =>
        if hit then doCalls n s [.load (.pat p)] acc
        else andThen (buildF cfg n s p acc) fun s' a' => saveF cfg n p s' a' := by
  simp only [patternF]
  unfold memoHitF saveF buildF
  cases cfg.memo <;> cases p <;>
    simp only [Option.bind_eq_bind, Option.pure_def, Option.bind_some, andThen] <;>
    repeat' (first
      | rfl
      | (apply obind_congr)
      | (intro o; rcases o with _ | ⟨a, b⟩)
      | (intro o; cases o)
      | (split))

theorem patternListF_cons (cfg : Cfg) (n : Nat) (s : PySt) (p : NPat) (ps : List NPat)
    (acc : List Call) :
    patternF.patternListF cfg (n + 1) s (p :: ps) acc =
      andThen (patternF cfg n s p acc) fun s1 a1 => patternF.patternListF cfg n s1 ps a1 := by
  simp only [patternF.patternListF, Option.bind_eq_bind, Option.pure_def, andThen]
  apply obind_congr rfl
  intro o; rcases o with _ | ⟨a, b⟩ <;> rfl

theorem doCalls_single (n : Nat) (s : PySt) (c : Call) (acc : List Call)
    (r : Option (PySt × List Call)) :
    doCalls n s [c] acc = some r ↔
      ∃ x, track1 n s c = some x ∧ r = x.map fun s' => (s', acc ++ [c]) := by
  simp only [doCalls, Option.bind_eq_bind, Option.bind_eq_some_iff]
  constructor
  · rintro ⟨x, hx, h⟩
    refine ⟨x, hx, ?_⟩
    cases x with
    | none => simp at h; simp [h]
    | some s' => simp at h; simp [h]
  · rintro ⟨x, hx, rfl⟩
    refine ⟨x, hx, ?_⟩
    cases x <;> simp

/-- a single successful call -/
theorem doCalls_ok (n : Nat) (s s' : PySt) (c : Call) (acc : List Call)
    (h : track1 n s c = some (some s')) : doCalls n s [c] acc = some (some (s', acc ++ [c])) :=
  (doCalls_single n s c acc _).mpr ⟨_, h, rfl⟩

/-! ## frames -/

/-- what the calls made for patterns and proof expressions leave alone -/
def Frame (s s' : PySt) : Prop :=
  s'.phase = s.phase ∧ s'.claims = s.claims ∧ (∃ e, s'.memory = s.memory ++ e) ∧
    (∃ e, s'.symtab = s.symtab ++ e)

theorem Frame.refl (s : PySt) : Frame s s := ⟨rfl, rfl, ⟨[], by simp⟩, ⟨[], by simp⟩⟩

theorem Frame.trans {a b c : PySt} (h1 : Frame a b) (h2 : Frame b c) : Frame a c := by
  obtain ⟨p1, c1, ⟨m1, hm1⟩, ⟨y1, hy1⟩⟩ := h1
  obtain ⟨p2, c2, ⟨m2, hm2⟩, ⟨y2, hy2⟩⟩ := h2
  exact ⟨p2.trans p1, c2.trans c1, ⟨m1 ++ m2, by rw [hm2, hm1, List.append_assoc]⟩,
    ⟨y1 ++ y2, by rw [hy2, hy1, List.append_assoc]⟩⟩

theorem frame_stack (s : PySt) (S : List (TTerm × Bool)) : Frame s { s with stack := S } :=
  ⟨rfl, rfl, ⟨[], by simp⟩, ⟨[], by simp⟩⟩

set_option hygiene false in
macro "frame_done" : tactic =>
  `(tactic| (simp only [Option.some.injEq] at ht; subst ht;
             exact ⟨rfl, rfl, ⟨[], by simp [PySt.push]⟩, ⟨[], by simp [PySt.push]⟩⟩))

theorem track1_frame (n : Nat) (s s' : PySt) (c : Call) (h1 : c ≠ .publishProof)
    (h2 : c ≠ .intoClaim) (h3 : c ≠ .intoProof) (ht : track1 n s c = some (some s')) :
    Frame s s' := by
  cases c with
  | publishProof => exact absurd rfl h1
  | intoClaim => exact absurd rfl h2
  | intoProof => exact absurd rfl h3
  | evar x => simp only [track1] at ht; frame_done
  | svar x => simp only [track1] at ht; frame_done
  | symbol nm =>
    simp only [track1, Option.some.injEq] at ht; subst ht
    refine ⟨rfl, rfl, ⟨[], by simp [PySt.push]⟩, ?_⟩
    simp only [PySt.push]
    split
    · exact ⟨[], by simp⟩
    · exact ⟨[nm], rfl⟩
  | metavar id ef sf ps ns hs => simp only [track1] at ht; frame_done
  | implies => simp only [track1] at ht; split at ht <;> first | frame_done | simp at ht
  | app => simp only [track1] at ht; split at ht <;> first | frame_done | simp at ht
  | ex x => simp only [track1] at ht; split at ht <;> first | frame_done | simp at ht
  | mu x => simp only [track1] at ht; split at ht <;> first | frame_done | simp at ht
  | esubst x =>
    simp only [track1] at ht
    split at ht
    · split at ht <;> first | frame_done | simp at ht
    · simp at ht
  | ssubst x =>
    simp only [track1] at ht
    split at ht
    · split at ht <;> first | frame_done | simp at ht
    · simp at ht
  | prop1 => simp only [track1] at ht; frame_done
  | prop2 => simp only [track1] at ht; frame_done
  | prop3 => simp only [track1] at ht; frame_done
  | quantifier => simp only [track1] at ht; frame_done
  | mp =>
    simp only [track1] at ht
    split at ht
    · simp only [Option.bind_eq_bind, Option.bind_eq_some_iff] at ht
      obtain ⟨oc, _, ht⟩ := ht
      cases oc with
      | none => simp at ht
      | some c => simp only [Option.pure_def] at ht; frame_done
    · simp at ht
  | gen x =>
    simp only [track1] at ht
    split at ht
    · simp only [Option.bind_eq_bind, Option.bind_eq_some_iff] at ht
      obtain ⟨oc, _, ht⟩ := ht
      cases oc with
      | none => simp at ht
      | some c => simp only [Option.pure_def] at ht; frame_done
    · simp at ht
  | instantiate keys =>
    simp only [track1] at ht
    split at ht
    · split at ht
      · frame_done
      · split at ht
        · simp at ht
        · simp only [Option.bind_eq_bind, Option.bind_eq_some_iff, Option.pure_def] at ht
          obtain ⟨c, _, ht⟩ := ht
          frame_done
    · simp at ht
  | instantiatePattern keys =>
    simp only [track1] at ht
    split at ht
    · split at ht <;> first | frame_done | simp at ht
    · simp at ht
  | pop => simp only [track1] at ht; split at ht <;> first | frame_done | simp at ht
  | save =>
    simp only [track1] at ht
    split at ht
    · simp only [Option.some.injEq] at ht; subst ht
      exact ⟨rfl, rfl, ⟨_, rfl⟩, ⟨[], by simp⟩⟩
    · simp at ht
  | load t =>
    simp only [track1, Option.bind_eq_bind, Option.bind_eq_some_iff] at ht
    obtain ⟨oi, _, ht⟩ := ht
    cases oi with
    | none => simp at ht
    | some i => simp only [Option.pure_def] at ht; frame_done
  | publishAxiom =>
    simp only [track1] at ht
    split at ht
    · simp only [Option.some.injEq] at ht; subst ht
      exact ⟨rfl, rfl, ⟨_, rfl⟩, ⟨[], by simp⟩⟩
    · simp at ht
  | publishClaim => simp only [track1] at ht; split at ht <;> first | frame_done | simp at ht

/-! ## postconditions -/

/-- calls that neither publish nor switch phase -/
def Call.quiet : Call → Bool
  | .publishProof => false | .publishAxiom => false | .publishClaim => false
  | .intoClaim => false | .intoProof => false
  | _ => true

/-- the calls, executed one after the other (each with some fuel), lead from `s` to `s'` -/
inductive Exec : PySt → List Call → PySt → Prop
  | nil (s : PySt) : Exec s [] s
  | cons {s s1 s' : PySt} {c : Call} {cs : List Call} (k : Nat) :
      track1 k s c = some (some s1) → Exec s1 cs s' → Exec s (c :: cs) s'

theorem Exec.append {s s1 s2 : PySt} {cs1 cs2 : List Call} (h1 : Exec s cs1 s1)
    (h2 : Exec s1 cs2 s2) : Exec s (cs1 ++ cs2) s2 := by
  induction h1 with
  | nil s => simpa using h2
  | cons k ht _ ih => exact Exec.cons k ht (ih h2)

theorem Exec.single {s s' : PySt} {c : Call} (k : Nat) (h : track1 k s c = some (some s')) :
    Exec s [c] s' := Exec.cons k h (Exec.nil s')

/-- the state after compiling something on top of `s0`: new entries `top`, everything else framed;
the calls made are quiet and lead from `s0` to `s'` -/
def Post (s0 : PySt) (top : List (TTerm × Bool)) (acc : List Call) (s' : PySt)
    (a' : List Call) : Prop :=
  s'.stack = top ++ s0.stack ∧ Frame s0 s' ∧ ShapeSt s' ∧
    ∃ cs, a' = acc ++ cs ∧ Exec s0 cs s' ∧ ∀ c ∈ cs, c.quiet = true

theorem Post.trans {s0 s1 s2 : PySt} {t1 t2 : List (TTerm × Bool)} {acc a1 a2 : List Call}
    (h1 : Post s0 t1 acc s1 a1) (h2 : Post s1 t2 a1 s2 a2) : Post s0 (t2 ++ t1) acc s2 a2 := by
  obtain ⟨k1, f1, _, ⟨c1, rfl, e1, q1⟩⟩ := h1
  obtain ⟨k2, f2, sh2, ⟨c2, rfl, e2, q2⟩⟩ := h2
  refine ⟨by rw [k2, k1, List.append_assoc], f1.trans f2, sh2, ⟨c1 ++ c2, by simp, e1.append e2, ?_⟩⟩
  intro c hc
  rcases List.mem_append.mp hc with hc | hc
  · exact q1 c hc
  · exact q2 c hc

theorem Post.init (s : PySt) (acc : List Call) (hSh : ShapeSt s) : Post s [] acc s acc :=
  ⟨rfl, Frame.refl s, hSh, ⟨[], by simp, Exec.nil s, by simp⟩⟩

/-- one more call -/
theorem Post.step {s0 s s' : PySt} {top top' : List (TTerm × Bool)} {acc a : List Call}
    (n : Nat) (c : Call) (hp : Post s0 top acc s a) (ht : track1 n s c = some (some s'))
    (hstk : s'.stack = top' ++ s0.stack)
    (h1 : c ≠ .publishProof) (h2 : c ≠ .intoClaim) (h3 : c ≠ .intoProof)
    (hq : c.quiet = true)
    (hload : ∀ t, c = .load t → t.body.Shape = true)
    (hmv : ∀ id ef sf ps ns hs, c = .metavar id ef sf ps ns hs → ef = [] ∧ sf = []) :
    Post s0 top' acc s' (a ++ [c]) := by
  obtain ⟨_, f, sh, ⟨cs, rfl, ex, q⟩⟩ := hp
  refine ⟨hstk, f.trans (track1_frame n s s' c h1 h2 h3 ht),
    (track1_pres n s s' c sh hload hmv ht).1,
    ⟨cs ++ [c], by simp, ex.append (Exec.single n ht), ?_⟩⟩
  intro x hx
  rcases List.mem_append.mp hx with hx | hx
  · exact q x hx
  · simp at hx; subst hx; exact hq

theorem andThen_spec {α β γ} {x : Option (Option (α × β))} {f : α → β → Option (Option γ)}
    {r : Option γ} {P : α → β → Prop} (h : andThen x f = some r)
    (hx : ∀ o, x = some o → ∃ a b, o = some (a, b) ∧ P a b) :
    ∃ a b, P a b ∧ f a b = some r := by
  rcases andThen_eq_some x f r h with ⟨hn, _⟩ | ⟨a, b, hab, hf⟩
  · obtain ⟨a, b, hc, _⟩ := hx _ hn; cases hc
  · obtain ⟨a', b', hc, hP⟩ := hx _ hab
    cases hc
    exact ⟨a, b, hP, hf⟩

theorem andThen3_spec {α β γ δ} {x : Option (Option (α × β × γ))}
    {f : α → β → γ → Option (Option δ)}
    {r : Option δ} {P : α → β → γ → Prop} (h : andThen3 x f = some r)
    (hx : ∀ o, x = some o → ∃ a b c, o = some (a, b, c) ∧ P a b c) :
    ∃ a b c, P a b c ∧ f a b c = some r := by
  rcases andThen3_eq_some x f r h with ⟨hn, _⟩ | ⟨a, b, c, hab, hf⟩
  · obtain ⟨a, b, c, hc, _⟩ := hx _ hn; cases hc
  · obtain ⟨a', b', c', hc, hP⟩ := hx _ hab
    cases hc
    exact ⟨a, b, c, hP, hf⟩

/-! ## 2b (patterns): `Interpreter.pattern` -/

/-- the stack entry of a compiled pattern -/
def entry (t : NPat) : TTerm × Bool := (.pat t, false)

/-- compiling `p` pushed exactly one `Pattern` whose expansion is `p`'s -/
def PatPost (s : PySt) (p : NPat) (acc : List Call) (s' : PySt) (a' : List Call) : Prop :=
  ∃ t, Post s [entry t] acc s' a' ∧ t.expand = p.expand ∧ t.isMetaHead = p.isMetaHead

def ListPost (s : PySt) (ps : List NPat) (acc : List Call) (s' : PySt) (a' : List Call) : Prop :=
  ∃ ts : List NPat, Post s (ts.reverse.map entry) acc s' a' ∧
    ts.map NPat.expand = ps.map NPat.expand

theorem inMemory_index (n : Nat) (p : NPat) (mem : List TTerm) (k : Nat)
    (h : inMemoryF n p mem = some true) : ∃ i, indexF n (.pat p) mem k = some (some i) := by
  induction mem generalizing k with
  | nil => simp [inMemoryF] at h
  | cons u r ih =>
    simp only [inMemoryF, Option.bind_eq_bind, Option.bind_eq_some_iff] at h
    obtain ⟨b, hb, h⟩ := h
    cases b with
    | true => exact ⟨k, by simp [indexF, hb]⟩
    | false =>
      simp only [Bool.false_eq_true, if_false] at h
      obtain ⟨i, hi⟩ := ih (k + 1) h
      exact ⟨i, by simp [indexF, hb, hi]⟩

theorem tr_load (n : Nat) (s : PySt) (t : TTerm) (i : Nat)
    (h : indexF n t s.memory 0 = some (some i)) :
    track1 n s (.load t) = some (some (s.push t)) := by
  simp [track1, h]

theorem takePlugs_rev (l : List NPat) (rest : List (TTerm × Bool)) :
    takePlugs l.length (l.map entry ++ rest) = some (l.reverse, rest) := by
  induction l with
  | nil => simp [takePlugs]
  | cons t l ih => simp [takePlugs, entry] at ih ⊢; simp [ih]

theorem shape_mv_lists {id : VId} {ef sf ps ns hs : List VId}
    (h : (NPat.mv id ef sf ps ns hs).Shape = true) : ef = [] ∧ sf = [] := by
  simpa [NPat.Shape] using h

theorem isMetaN_of_shape_esub {q plug : NPat} {x : VId}
    (h : (NPat.esub q x plug).Shape = true) : q.isMetaHead = true ∧ q.Shape = true ∧ plug.Shape = true := by
  simp only [NPat.Shape, Bool.and_eq_true] at h
  exact ⟨by rw [isMetaHead_eq]; exact h.1.1, h.1.2, h.2⟩

theorem isMetaN_of_shape_ssub {q plug : NPat} {x : VId}
    (h : (NPat.ssub q x plug).Shape = true) : q.isMetaHead = true ∧ q.Shape = true ∧ plug.Shape = true := by
  simp only [NPat.Shape, Bool.and_eq_true] at h
  exact ⟨by rw [isMetaHead_eq]; exact h.1.1, h.1.2, h.2⟩

theorem shapeMap_vals (m : List (Nat × NPat)) (h : NPat.ShapeMap m = true) :
    ∀ p ∈ m.map (·.2), p.Shape = true := by
  intro p hp
  obtain ⟨kv, hkv, rfl⟩ := List.mem_map.mp hp
  exact (NPat.shapeMap_iff m).mp h kv hkv

theorem zip_keys_vals (m : List (Nat × NPat)) : (m.map (·.1)).zip (m.map (·.2)) = m := by
  induction m with
  | nil => rfl
  | cons kv r ih => obtain ⟨k, v⟩ := kv; simp [ih]

/-- the induction hypotheses at fuel `n` -/
def PatOK (cfg : Cfg) (n : Nat) : Prop :=
  ∀ s p acc r, p.Shape = true → ShapeSt s → patternF cfg n s p acc = some r →
    ∃ s' a', r = some (s', a') ∧ PatPost s p acc s' a'

def ListOK (cfg : Cfg) (n : Nat) : Prop :=
  ∀ s ps acc r, (∀ p ∈ ps, p.Shape = true) → ShapeSt s →
    patternF.patternListF cfg n s ps acc = some r →
    ∃ s' a', r = some (s', a') ∧ ListPost s ps acc s' a'

/-- constructing (not loading) a pattern -/
theorem build_spec (cfg : Cfg) (n : Nat) (ihP : PatOK cfg n) (ihL : ListOK cfg n)
    (s : PySt) (p : NPat) (acc : List Call) (o : Option (PySt × List Call))
    (hp : p.Shape = true) (hSh : ShapeSt s) (h : buildF cfg n s p acc = some o) :
    ∃ s' a', o = some (s', a') ∧ PatPost s p acc s' a' := by
  have hP0 := Post.init s acc hSh
  cases p with
  | evar x =>
    have ht : track1 n s (.evar x) = some (some (s.push (.pat (.evar x)))) := rfl
    simp only [buildF, doCalls_ok n s _ _ acc ht, Option.some.injEq] at h; subst h
    exact ⟨_, _, rfl, .evar x, hP0.step n _ ht rfl (by simp) (by simp) (by simp) rfl
      (fun _ e => by cases e) (fun _ _ _ _ _ _ e => by cases e), rfl, rfl⟩
  | svar x =>
    have ht : track1 n s (.svar x) = some (some (s.push (.pat (.svar x)))) := rfl
    simp only [buildF, doCalls_ok n s _ _ acc ht, Option.some.injEq] at h; subst h
    exact ⟨_, _, rfl, .svar x, hP0.step n _ ht rfl (by simp) (by simp) (by simp) rfl
      (fun _ e => by cases e) (fun _ _ _ _ _ _ e => by cases e), rfl, rfl⟩
  | sym x =>
    have ht : track1 n s (.symbol x) = some (some ({ s.push (.pat (.sym x)) with
      symtab := if s.symtab.contains x then s.symtab else s.symtab ++ [x] })) := rfl
    simp only [buildF, doCalls_ok n s _ _ acc ht, Option.some.injEq] at h; subst h
    exact ⟨_, _, rfl, .sym x, hP0.step n _ ht rfl (by simp) (by simp) (by simp) rfl
      (fun _ e => by cases e) (fun _ _ _ _ _ _ e => by cases e), rfl, rfl⟩
  | mv id ef sf ps ns hs =>
    have ht : track1 n s (.metavar id ef sf ps ns hs)
        = some (some (s.push (.pat (.mv id ef sf ps ns hs)))) := rfl
    simp only [buildF, doCalls_ok n s _ _ acc ht, Option.some.injEq] at h; subst h
    exact ⟨_, _, rfl, .mv id ef sf ps ns hs, hP0.step n _ ht rfl (by simp) (by simp) (by simp) rfl
      (fun _ e => by cases e) (fun _ _ _ _ _ _ e => by cases e; exact shape_mv_lists hp), rfl, rfl⟩
  | imp l r =>
    simp only [NPat.Shape, Bool.and_eq_true] at hp
    simp only [buildF] at h
    obtain ⟨s1, a1, ⟨tl, hp1, hel, _⟩, h⟩ := andThen_spec h (fun o ho => ihP s l acc o hp.1 hSh ho)
    obtain ⟨s2, a2, ⟨tr, hp2, her, _⟩, h⟩ :=
      andThen_spec h (fun o ho => ihP s1 r a1 o hp.2 hp1.2.2.1 ho)
    have hp12 := hp1.trans hp2
    have ht : track1 n s2 .implies
        = some (some { s2 with stack := (.pat (.imp tl tr), false) :: s.stack }) := by
      simp [track1, hp12.1, entry]
    rw [doCalls_ok n s2 _ _ a2 ht] at h
    simp only [Option.some.injEq] at h; subst h
    exact ⟨_, _, rfl, .imp tl tr, hp12.step n _ ht rfl (by simp) (by simp) (by simp) rfl
      (fun _ e => by cases e) (fun _ _ _ _ _ _ e => by cases e),
      by simp [NPat.expand, hel, her], rfl⟩
  | app l r =>
    simp only [NPat.Shape, Bool.and_eq_true] at hp
    simp only [buildF] at h
    obtain ⟨s1, a1, ⟨tl, hp1, hel, _⟩, h⟩ := andThen_spec h (fun o ho => ihP s l acc o hp.1 hSh ho)
    obtain ⟨s2, a2, ⟨tr, hp2, her, _⟩, h⟩ :=
      andThen_spec h (fun o ho => ihP s1 r a1 o hp.2 hp1.2.2.1 ho)
    have hp12 := hp1.trans hp2
    have ht : track1 n s2 .app
        = some (some { s2 with stack := (.pat (.app tl tr), false) :: s.stack }) := by
      simp [track1, hp12.1, entry]
    rw [doCalls_ok n s2 _ _ a2 ht] at h
    simp only [Option.some.injEq] at h; subst h
    exact ⟨_, _, rfl, .app tl tr, hp12.step n _ ht rfl (by simp) (by simp) (by simp) rfl
      (fun _ e => by cases e) (fun _ _ _ _ _ _ e => by cases e),
      by simp [NPat.expand, hel, her], rfl⟩
  | ex x q =>
    simp only [NPat.Shape] at hp
    simp only [buildF] at h
    obtain ⟨s1, a1, ⟨tq, hp1, heq, _⟩, h⟩ := andThen_spec h (fun o ho => ihP s q acc o hp hSh ho)
    have ht : track1 n s1 (.ex x)
        = some (some { s1 with stack := (.pat (.ex x tq), false) :: s.stack }) := by
      simp [track1, hp1.1, entry]
    rw [doCalls_ok n s1 _ _ a1 ht] at h
    simp only [Option.some.injEq] at h; subst h
    exact ⟨_, _, rfl, .ex x tq, hp1.step n _ ht rfl (by simp) (by simp) (by simp) rfl
      (fun _ e => by cases e) (fun _ _ _ _ _ _ e => by cases e),
      by simp [NPat.expand, heq], rfl⟩
  | mu x q =>
    simp only [NPat.Shape] at hp
    simp only [buildF] at h
    obtain ⟨s1, a1, ⟨tq, hp1, heq, _⟩, h⟩ := andThen_spec h (fun o ho => ihP s q acc o hp hSh ho)
    have ht : track1 n s1 (.mu x)
        = some (some { s1 with stack := (.pat (.mu x tq), false) :: s.stack }) := by
      simp [track1, hp1.1, entry]
    rw [doCalls_ok n s1 _ _ a1 ht] at h
    simp only [Option.some.injEq] at h; subst h
    exact ⟨_, _, rfl, .mu x tq, hp1.step n _ ht rfl (by simp) (by simp) (by simp) rfl
      (fun _ e => by cases e) (fun _ _ _ _ _ _ e => by cases e),
      by simp [NPat.expand, heq], rfl⟩
  | esub q x plug =>
    obtain ⟨hqm, hqs, hps⟩ := isMetaN_of_shape_esub hp
    simp only [buildF] at h
    obtain ⟨s1, a1, ⟨tp, hp1, hep, _⟩, h⟩ :=
      andThen_spec h (fun o ho => ihP s plug acc o hps hSh ho)
    obtain ⟨s2, a2, ⟨tq, hp2, heq, hmq⟩, h⟩ :=
      andThen_spec h (fun o ho => ihP s1 q a1 o hqs hp1.2.2.1 ho)
    have hp12 := hp1.trans hp2
    have ht : track1 n s2 (.esubst x)
        = some (some { s2 with stack := (.pat (.esub tq x tp), false) :: s.stack }) := by
      simp [track1, hp12.1, entry, hmq, hqm]
    rw [doCalls_ok n s2 _ _ a2 ht] at h
    simp only [Option.some.injEq] at h; subst h
    exact ⟨_, _, rfl, .esub tq x tp, hp12.step n _ ht rfl (by simp) (by simp) (by simp) rfl
      (fun _ e => by cases e) (fun _ _ _ _ _ _ e => by cases e),
      by simp [NPat.expand, heq, hep], rfl⟩
  | ssub q x plug =>
    obtain ⟨hqm, hqs, hps⟩ := isMetaN_of_shape_ssub hp
    simp only [buildF] at h
    obtain ⟨s1, a1, ⟨tp, hp1, hep, _⟩, h⟩ :=
      andThen_spec h (fun o ho => ihP s plug acc o hps hSh ho)
    obtain ⟨s2, a2, ⟨tq, hp2, heq, hmq⟩, h⟩ :=
      andThen_spec h (fun o ho => ihP s1 q a1 o hqs hp1.2.2.1 ho)
    have hp12 := hp1.trans hp2
    have ht : track1 n s2 (.ssubst x)
        = some (some { s2 with stack := (.pat (.ssub tq x tp), false) :: s.stack }) := by
      simp [track1, hp12.1, entry, hmq, hqm]
    rw [doCalls_ok n s2 _ _ a2 ht] at h
    simp only [Option.some.injEq] at h; subst h
    exact ⟨_, _, rfl, .ssub tq x tp, hp12.step n _ ht rfl (by simp) (by simp) (by simp) rfl
      (fun _ e => by cases e) (fun _ _ _ _ _ _ e => by cases e),
      by simp [NPat.expand, heq, hep], rfl⟩
  | inst q m =>
    simp only [NPat.Shape, Bool.and_eq_true] at hp
    simp only [buildF] at h
    obtain ⟨s1, a1, ⟨ts, hp1, hets⟩, h⟩ :=
      andThen_spec h (fun o ho => ihL s (m.map (·.2)) acc o (shapeMap_vals m hp.2) hSh ho)
    obtain ⟨s2, a2, ⟨tq, hp2, heq, _⟩, h⟩ :=
      andThen_spec h (fun o ho => ihP s1 q a1 o hp.1 hp1.2.2.1 ho)
    have hp12 := hp1.trans hp2
    have hlen : ts.length = m.length := by
      have := congrArg List.length hets
      simpa using this
    have htp : takePlugs (m.map (·.1)).length (ts.reverse.map entry ++ s.stack)
        = some (ts, s.stack) := by
      have := takePlugs_rev ts.reverse s.stack
      simpa [hlen] using this
    have ht : track1 n s2 (.instantiatePattern (m.map (·.1)))
        = some (some { s2 with stack :=
            (.pat (.inst tq ((m.map (·.1)).zip ts)), false) :: s.stack }) := by
      have hstk2 : s2.stack = (TTerm.pat tq, false) ::
          (List.map (fun t => (TTerm.pat t, false)) ts.reverse ++ s.stack) := hp12.1
      delta entry at htp
      simp only [track1, hstk2, htp]
    rw [doCalls_ok n s2 _ _ a2 ht] at h
    simp only [Option.some.injEq] at h; subst h
    refine ⟨_, _, rfl, .inst tq ((m.map (·.1)).zip ts), hp12.step n _ ht rfl (by simp) (by simp)
      (by simp) rfl (fun _ e => by cases e) (fun _ _ _ _ _ _ e => by cases e), ?_, rfl⟩
    simp only [NPat.expand, heq, expandMap_zip, hets]
    conv => rhs; rw [← zip_keys_vals m, expandMap_zip]

theorem pat_step (cfg : Cfg) (n : Nat) (ihP : PatOK cfg n) (ihL : ListOK cfg n) :
    PatOK cfg (n + 1) := by
  intro s p acc r hp hSh h
  rw [patternF_succ] at h
  simp only [Option.bind_eq_some_iff] at h
  obtain ⟨hit, hhit, h⟩ := h
  cases hit with
  | true =>
    simp only [if_true] at h
    have hidx : ∃ i, indexF n (.pat p) s.memory 0 = some (some i) := by
      unfold memoHitF at hhit
      split at hhit
      · simp at hhit
      · exact inMemory_index n p s.memory 0 hhit
    obtain ⟨i, hi⟩ := hidx
    have ht := tr_load n s (.pat p) i hi
    rw [doCalls_ok n s _ _ acc ht] at h
    simp only [Option.some.injEq] at h; subst h
    exact ⟨_, _, rfl, p, (Post.init s acc hSh).step n _ ht rfl (by simp) (by simp) (by simp) rfl
      (fun _ e => by cases e; exact hp) (fun _ _ _ _ _ _ e => by cases e), rfl, rfl⟩
  | false =>
    simp only [Bool.false_eq_true, if_false] at h
    obtain ⟨s1, a1, ⟨t, hp1, het, hmt⟩, h⟩ :=
      andThen_spec h (fun o ho => build_spec cfg n ihP ihL s p acc o hp hSh ho)
    unfold saveF at h
    split at h
    · split at h
      · have hstk := hp1.1
        simp only [entry, List.singleton_append] at hstk
        have ht : track1 n s1 .save = some (some { s1 with memory := s1.memory ++ [.pat t] }) := by
          simp [track1, hstk]
        rw [doCalls_ok n s1 _ _ a1 ht] at h
        simp only [Option.some.injEq] at h; subst h
        exact ⟨_, _, rfl, t, hp1.step n _ ht hp1.1 (by simp) (by simp) (by simp) rfl
          (fun _ e => by cases e) (fun _ _ _ _ _ _ e => by cases e), het, hmt⟩
      · simp only [Option.some.injEq] at h; subst h
        exact ⟨_, _, rfl, t, hp1, het, hmt⟩
    · simp only [Option.some.injEq] at h; subst h
      exact ⟨_, _, rfl, t, hp1, het, hmt⟩

theorem list_step (cfg : Cfg) (n : Nat) (ihP : PatOK cfg n) (ihL : ListOK cfg n) :
    ListOK cfg (n + 1) := by
  intro s ps acc r hps hSh h
  cases ps with
  | nil =>
    simp only [patternF.patternListF, Option.some.injEq] at h; subst h
    exact ⟨_, _, rfl, [], Post.init s acc hSh, rfl⟩
  | cons p ps =>
    rw [patternListF_cons] at h
    obtain ⟨s1, a1, ⟨t, hp1, het, _⟩, h⟩ :=
      andThen_spec h (fun o ho => ihP s p acc o (hps p (by simp)) hSh ho)
    obtain ⟨s2, a2, rfl, ts, hp2, hets⟩ :=
      ihL s1 ps a1 r (fun q hq => hps q (List.mem_cons_of_mem _ hq)) hp1.2.2.1 h
    refine ⟨_, _, rfl, t :: ts, ?_, by simp [het, hets]⟩
    have := hp1.trans hp2
    simpa using this

theorem pattern_spec (cfg : Cfg) (n : Nat) : PatOK cfg n ∧ ListOK cfg n := by
  induction n with
  | zero =>
    constructor
    · intro s p acc r _ _ h; simp [patternF] at h
    · intro s ps acc r _ _ h; simp [patternF.patternListF] at h
  | succ n ih => exact ⟨pat_step cfg n ih.1 ih.2, list_step cfg n ih.1 ih.2⟩

/-- 2b for patterns: `Interpreter.pattern` (plain or memoising) never raises on a shaped pattern,
pushes exactly one `Pattern` whose expansion is the pattern's, and leaves the rest alone -/
theorem PySt.patternF_spec (cfg : Cfg) (n : Nat) (s : PySt) (p : NPat) (acc : List Call)
    (r : Option (PySt × List Call)) :
    p.Shape = true → ShapeSt s → patternF cfg n s p acc = some r →
    ∃ s' a' t, r = some (s', a') ∧ s'.stack = (.pat t, false) :: s.stack ∧
      t.expand = p.expand ∧ t.isMetaHead = p.isMetaHead ∧ Frame s s' ∧ ShapeSt s' ∧
      ∃ cs, a' = acc ++ cs := by
  intro hp hSh h
  obtain ⟨s', a', rfl, t, ⟨hstk, hf, hsh, hcs⟩, het, hmt⟩ := (pattern_spec cfg n).1 s p acc r hp hSh h
  obtain ⟨cs, hcs, _, _⟩ := hcs
  exact ⟨s', a', t, rfl, hstk, het, hmt, hf, hsh, cs, hcs⟩

theorem PySt.patternListF_spec (cfg : Cfg) (n : Nat) (s : PySt) (ps : List NPat)
    (acc : List Call) (r : Option (PySt × List Call)) :
    (∀ p ∈ ps, p.Shape = true) → ShapeSt s → patternF.patternListF cfg n s ps acc = some r →
    ∃ s' a', ∃ ts : List NPat, r = some (s', a') ∧
      s'.stack = ts.reverse.map (fun t => (TTerm.pat t, false)) ++ s.stack ∧
      ts.map NPat.expand = ps.map NPat.expand ∧ Frame s s' ∧ ShapeSt s' ∧
      ∃ cs, a' = acc ++ cs := by
  intro hp hSh h
  obtain ⟨s', a', rfl, ts, ⟨hstk, hf, hsh, hcs⟩, het⟩ := (pattern_spec cfg n).2 s ps acc r hp hSh h
  obtain ⟨cs, hcs, _, _⟩ := hcs
  exact ⟨s', a', ts, rfl, hstk, het, hf, hsh, cs, hcs⟩

/-! ## unfolding `runF`, `runBasicF` -/

def rawF (cfg : Cfg) (ax : List NPat) (n : Nat) (s : PySt) (pf : Pf) (acc : List Call) :
    Option (Option (PySt × List Call)) :=
  match pf with
  | .prop1 => doCalls n s [.prop1] acc
  | .prop2 => doCalls n s [.prop2] acc
  | .prop3 => doCalls n s [.prop3] acc
  | .quantifier => doCalls n s [.quantifier] acc
  | .mp l r => andThen3 (Pf.runF cfg ax n s l acc) fun s1 a1 _ =>
      andThen3 (Pf.runF cfg ax n s1 r a1) fun s2 a2 _ => doCalls n s2 [.mp] a2
  | .gen p x => andThen3 (Pf.runF cfg ax n s p acc) fun s1 a1 _ => doCalls n s1 [.gen x] a1
  | .dynInst p δ =>
      if δ.isEmpty then
        andThen3 (Pf.runF cfg ax n s p acc) fun s1 a1 _ => pure (some (s1, a1))
      else
        andThen (patternF.patternListF cfg n s (δ.map (·.2)) acc) fun s1 a1 =>
          andThen3 (Pf.runF cfg ax n s1 p a1) fun s2 a2 _ =>
            doCalls n s2 [.instantiate (δ.map (·.1))] a2
  | .loadAxiom a => doCalls n s [.load (.proved a)] acc

def checkF (ax : List NPat) (n : Nat) (pf : Pf) (s' : PySt) (a' : List Call) :
    Option (Option (PySt × List Call × NPat)) :=
  match s'.stack with
  | (.proved c, _) :: _ =>
      (Pf.concF ax n pf).bind fun o => match o with
        | none => pure none
        | some adv => (NPat.peqF n c adv).bind fun e =>
            if e then pure (some (s', a', c)) else pure none
  | _ => pure none

set_option hygiene false in
macro "bind_ext" : tactic =>
  `(tactic| repeat' (first
      | rfl
      | (apply obind_congr rfl)
      | (intro o; rcases o with _ | ⟨a, b, c⟩ <;>
          try simp only [Option.bind_assoc, Option.bind_some, Option.bind_none])
      | (intro o; rcases o with _ | ⟨a, b⟩ <;>
          try simp only [Option.bind_assoc, Option.bind_some, Option.bind_none])
      | (intro o; cases o <;>
          try simp only [Option.bind_assoc, Option.bind_some, Option.bind_none])
      | (generalize PySt.stack a = st; rcases st with _ | ⟨⟨t, fl⟩, tl⟩ <;> first | rfl | (cases t <;> rfl))))

theorem runF_succ (cfg : Cfg) (ax : List NPat) (n : Nat) (s : PySt) (pf : Pf) (acc : List Call) :
    Pf.runF cfg ax (n + 1) s pf acc = andThen (rawF cfg ax n s pf acc) (checkF ax n pf) := by
  simp only [Pf.runF]
  unfold rawF checkF
  cases pf with
  | dynInst p δ =>
    cases hδ : δ.isEmpty <;>
      simp only [hδ, Bool.false_eq_true, if_true, if_false, Option.bind_eq_bind, Option.pure_def,
        Option.bind_some, andThen, andThen3, Option.bind_assoc] <;>
      bind_ext
  | _ =>
    simp only [Option.bind_eq_bind, Option.pure_def, Option.bind_some, andThen, andThen3,
      Option.bind_assoc] <;>
    bind_ext

def rawB (ax : List NPat) (n : Nat) (pf : Pf) : Option (Option NPat) :=
  match pf with
  | .prop1 => pure (some prop1N)
  | .prop2 => pure (some prop2N)
  | .prop3 => pure (some prop3N)
  | .quantifier => pure (some quantN)
  | .mp l r => (Pf.runBasicF ax n l).bind fun x => (Pf.runBasicF ax n r).bind fun y =>
      match x, y with
      | some a, some b => NPat.pyMP n a b
      | _, _ => pure none
  | .gen p x => (Pf.runBasicF ax n p).bind fun o => match o with
      | none => pure none
      | some a => NPat.pyGen n a x
  | .dynInst p δ =>
      if δ.isEmpty then Pf.runBasicF ax n p
      else (Pf.runBasicF ax n p).bind fun o => match o with
        | none => pure none
        | some a => (NPat.instF n δ a).bind fun c => pure (some c)
  | .loadAxiom a => pure (some a)

def checkB (ax : List NPat) (n : Nat) (pf : Pf) (c : NPat) : Option (Option NPat) :=
  (Pf.concF ax n pf).bind fun o => match o with
    | none => pure none
    | some adv => (NPat.peqF n c adv).bind fun e => if e then pure (some c) else pure none

theorem runBasicF_succ (ax : List NPat) (n : Nat) (pf : Pf) :
    Pf.runBasicF ax (n + 1) pf =
      (rawB ax n pf).bind fun raw => match raw with
        | none => pure none
        | some c => checkB ax n pf c := by
  simp only [Pf.runBasicF]
  unfold rawB checkB
  cases pf with
  | dynInst p δ =>
    cases hδ : δ.isEmpty <;>
      simp only [hδ, Bool.false_eq_true, if_true, if_false, Option.bind_eq_bind, Option.pure_def,
        Option.bind_some, Option.bind_assoc] <;>
      bind_ext
  | mp l r =>
    simp only [Option.bind_eq_bind, Option.pure_def, Option.bind_some, Option.bind_assoc]
    apply obind_congr rfl; intro x
    apply obind_congr rfl; intro y
    cases x <;> cases y <;> rfl
  | _ =>
    simp only [Option.bind_eq_bind, Option.pure_def, Option.bind_some, Option.bind_assoc] <;>
    bind_ext

/-! ## the meaning of a proof expression, on expansions -/

/-- every pattern a proof expression mentions is shaped -/
def Pf.Shaped : Pf → Prop
  | .mp l r => l.Shaped ∧ r.Shaped
  | .gen p _ => p.Shaped
  | .dynInst p δ => p.Shaped ∧ NPat.ShapeMap δ = true
  | .loadAxiom a => a.Shape = true
  | _ => True

def AxShaped (ax : List NPat) : Prop := ∀ x ∈ ax, x.Shape = true

/-- the axioms a proof expression loads -/
def Pf.loadedAxioms : Pf → List NPat
  | .mp l r => l.loadedAxioms ++ r.loadedAxioms
  | .gen p _ => p.loadedAxioms
  | .dynInst p _ => p.loadedAxioms
  | .loadAxiom a => [a]
  | _ => []

/-- every loaded axiom is one of the module's axioms (`assert axiom_term in self._axioms`) -/
def Pf.AxOK (ax : List NPat) (pf : Pf) : Prop :=
  ∀ a ∈ pf.loadedAxioms, ∃ x ∈ ax, x.expand = a.expand

/-- the documented rules, on full expansions -/
inductive Pf.Sem : Pf → Pat → Prop
  | prop1 : Pf.Sem .prop1 prop1N.expand
  | prop2 : Pf.Sem .prop2 prop2N.expand
  | prop3 : Pf.Sem .prop3 prop3N.expand
  | quantifier : Pf.Sem .quantifier quantN.expand
  | mp {l r : Pf} {B C : Pat} : Pf.Sem l (.imp B C) → Pf.Sem r B → Pf.Sem (.mp l r) C
  | gen {p : Pf} {x : VId} {L R : Pat} : Pf.Sem p (.imp L R) → R.eFresh x = true →
      Pf.Sem (.gen p x) (.imp (.ex x L) R)
  | dynInst {p : Pf} {δ : List (Nat × NPat)} {A : Pat} : Pf.Sem p A →
      Pf.Sem (.dynInst p δ) (Py.inst (Py.lookup (NPat.expand.expandMap δ)) A)
  | loadAxiom {a : NPat} : Pf.Sem (.loadAxiom a) a.expand

theorem Pf.Sem.functional {pf : Pf} {C C' : Pat} (h : Pf.Sem pf C) (h' : Pf.Sem pf C') :
    C = C' := by
  induction h generalizing C' with
  | prop1 => cases h'; rfl
  | prop2 => cases h'; rfl
  | prop3 => cases h'; rfl
  | quantifier => cases h'; rfl
  | mp hl hr ihl ihr =>
    cases h' with
    | mp hl' hr' =>
      have := ihl hl'
      simp only [Pat.imp.injEq] at this
      exact this.2
  | gen hp hfr ih =>
    cases h' with
    | gen hp' hfr' =>
      have := ih hp'
      simp only [Pat.imp.injEq] at this
      rw [this.1, this.2]
  | dynInst hp ih =>
    cases h' with
    | dynInst hp' => rw [ih hp']
  | loadAxiom => cases h'; rfl

/-! ### `concF` -/

theorem mem_spec (a : NPat) (m : Nat) (l : List NPat) (e : Bool) (ha : a.Shape = true)
    (hl : ∀ x ∈ l, x.Shape = true) (h : Pf.concF.mem a m l = some e) :
    (e = true ↔ ∃ x ∈ l, x.expand = a.expand) := by
  induction l with
  | nil =>
    simp only [Pf.concF.mem, Option.some.injEq] at h
    subst h; simp
  | cons x l ih =>
    simp only [Pf.concF.mem, Option.bind_eq_bind, Option.bind_eq_some_iff] at h
    obtain ⟨b, hb, h⟩ := h
    have hdec := NPat.peqF_expand m x a b (hl x (by simp)) ha hb
    cases b with
    | true =>
      simp only [if_true, Option.pure_def, Option.some.injEq] at h
      subst h
      have : x.expand = a.expand := by simpa using hdec.symm
      simp [this]
    | false =>
      simp only [Bool.false_eq_true, if_false] at h
      have hne : ¬ x.expand = a.expand := by simpa using hdec.symm
      rw [ih (fun y hy => hl y (List.mem_cons_of_mem _ hy)) h]
      simp [hne]

/-- if the expression is meaningful, `conc` does not raise and advertises the meaning -/
theorem concF_sem (ax : List NPat) (hax : AxShaped ax) {pf : Pf} {C : Pat} (hS : Pf.Sem pf C) :
    ∀ (n : Nat) (x : Option NPat), pf.Shaped → pf.AxOK ax → Pf.concF ax n pf = some x →
    ∃ adv, x = some adv ∧ adv.expand = C ∧ adv.Shape = true := by
  induction hS with
  | prop1 =>
    intro n x _ _ h
    cases n with
    | zero => simp [Pf.concF] at h
    | succ m => simp only [Pf.concF, Option.some.injEq] at h; exact ⟨_, h.symm, rfl, by rfl⟩
  | prop2 =>
    intro n x _ _ h
    cases n with
    | zero => simp [Pf.concF] at h
    | succ m => simp only [Pf.concF, Option.some.injEq] at h; exact ⟨_, h.symm, rfl, by rfl⟩
  | prop3 =>
    intro n x _ _ h
    cases n with
    | zero => simp [Pf.concF] at h
    | succ m => simp only [Pf.concF, Option.some.injEq] at h; exact ⟨_, h.symm, rfl, by rfl⟩
  | quantifier =>
    intro n x _ _ h
    cases n with
    | zero => simp [Pf.concF] at h
    | succ m => simp only [Pf.concF, Option.some.injEq] at h; exact ⟨_, h.symm, rfl, by rfl⟩
  | @mp l r B C hl hr ihl ihr =>
    intro n x hsh hok h
    cases n with
    | zero => simp [Pf.concF] at h
    | succ m =>
      simp only [Pf.Shaped] at hsh
      have hokl : l.AxOK ax := fun a ha => hok a (by simp [Pf.loadedAxioms, ha])
      have hokr : r.AxOK ax := fun a ha => hok a (by simp [Pf.loadedAxioms, ha])
      simp only [Pf.concF, Option.bind_eq_bind, Option.bind_eq_some_iff] at h
      obtain ⟨xl, hxl, xr, hxr, h⟩ := h
      obtain ⟨a, rfl, hae, has⟩ := ihl m xl hsh.1 hokl hxl
      obtain ⟨b, rfl, hbe, hbs⟩ := ihr m xr hsh.2 hokr hxr
      simp only [] at h
      obtain ⟨c, rfl, hce⟩ := pyMP_complete m a b x C has hbs (by rw [hae, hbe]) h
      exact ⟨c, rfl, hce, (pyMP_spec m a b c has hbs h).2⟩
  | @gen p y L Rr hp hfr ih =>
    intro n x hsh hok h
    cases n with
    | zero => simp [Pf.concF] at h
    | succ m =>
      simp only [Pf.Shaped] at hsh
      have hokp : p.AxOK ax := fun a ha => hok a (by simpa [Pf.loadedAxioms] using ha)
      simp only [Pf.concF, Option.bind_eq_bind, Option.bind_eq_some_iff] at h
      obtain ⟨xp, hxp, h⟩ := h
      obtain ⟨a, rfl, hae, has⟩ := ih m xp hsh hokp hxp
      simp only [Option.bind_eq_some_iff] at h
      obtain ⟨q, hq, h⟩ := h
      obtain ⟨hqe, hqs, hqi⟩ := NPat.headF_expand m a q has hq
      rw [hae] at hqe
      cases q with
      | imp ql qr =>
        simp only [NPat.expand, Pat.imp.injEq] at hqe
        simp only [NPat.Shape, Bool.and_eq_true] at hqs
        simp only [Option.pure_def, Option.some.injEq] at h
        exact ⟨_, h.symm, by simp [NPat.expand, hqe.1, hqe.2], by simp [NPat.Shape, hqs.1, hqs.2]⟩
      | inst q' m' => simp [NPat.isInst] at hqi
      | _ => simp [NPat.expand] at hqe
  | @dynInst p δ A hp ih =>
    intro n x hsh hok h
    cases n with
    | zero => simp [Pf.concF] at h
    | succ m =>
      simp only [Pf.Shaped] at hsh
      have hokp : p.AxOK ax := fun a ha => hok a (by simpa [Pf.loadedAxioms] using ha)
      simp only [Pf.concF, Option.bind_eq_bind, Option.bind_eq_some_iff] at h
      obtain ⟨xp, hxp, h⟩ := h
      obtain ⟨a, rfl, hae, has⟩ := ih m xp hsh.1 hokp hxp
      simp only [] at h
      split at h
      · next hemp =>
        simp only [Option.pure_def, Option.some.injEq] at h
        exact ⟨a, h.symm, by rw [← hae]; exact NPat.inst_isEmpty δ hemp a has, has⟩
      · simp only [Option.bind_eq_some_iff, Option.pure_def, Option.some.injEq] at h
        obtain ⟨c, hc, h⟩ := h
        obtain ⟨hce, hcs⟩ := NPat.instF_expand m δ a c has hsh.2 hc
        exact ⟨c, h.symm, by rw [hce, hae], hcs⟩
  | @loadAxiom a =>
    intro n x hsh hok h
    cases n with
    | zero => simp [Pf.concF] at h
    | succ m =>
      simp only [Pf.Shaped] at hsh
      simp only [Pf.concF, Option.bind_eq_bind, Option.bind_eq_some_iff] at h
      obtain ⟨e, he, h⟩ := h
      have := (mem_spec a m ax e hsh hax he).mpr (hok a (by simp [Pf.loadedAxioms]))
      subst this
      simp only [if_true, Option.pure_def, Option.some.injEq] at h
      exact ⟨a, h.symm, rfl, hsh⟩

/-- a `conc` that does not raise certifies that the loaded axioms are axioms -/
theorem concF_axok (ax : List NPat) (hax : AxShaped ax) :
    ∀ (n : Nat) (pf : Pf) (adv : NPat), pf.Shaped → Pf.concF ax n pf = some (some adv) →
    pf.AxOK ax := by
  intro n
  induction n with
  | zero => intro pf adv _ h; simp [Pf.concF] at h
  | succ m ih =>
    intro pf adv hsh h
    cases pf with
    | prop1 => intro a ha; simp [Pf.loadedAxioms] at ha
    | prop2 => intro a ha; simp [Pf.loadedAxioms] at ha
    | prop3 => intro a ha; simp [Pf.loadedAxioms] at ha
    | quantifier => intro a ha; simp [Pf.loadedAxioms] at ha
    | mp l r =>
      simp only [Pf.Shaped] at hsh
      simp only [Pf.concF, Option.bind_eq_bind, Option.bind_eq_some_iff] at h
      obtain ⟨xl, hxl, xr, hxr, h⟩ := h
      cases xl with
      | none => simp at h
      | some a =>
        cases xr with
        | none => simp at h
        | some b =>
          intro c hc
          simp only [Pf.loadedAxioms, List.mem_append] at hc
          rcases hc with hc | hc
          · exact ih l a hsh.1 hxl c hc
          · exact ih r b hsh.2 hxr c hc
    | gen p y =>
      simp only [Pf.Shaped] at hsh
      simp only [Pf.concF, Option.bind_eq_bind, Option.bind_eq_some_iff] at h
      obtain ⟨xp, hxp, h⟩ := h
      cases xp with
      | none => simp at h
      | some a => exact fun c hc => ih p a hsh hxp c (by simpa [Pf.loadedAxioms] using hc)
    | dynInst p δ =>
      simp only [Pf.Shaped] at hsh
      simp only [Pf.concF, Option.bind_eq_bind, Option.bind_eq_some_iff] at h
      obtain ⟨xp, hxp, h⟩ := h
      cases xp with
      | none => simp at h
      | some a => exact fun c hc => ih p a hsh.1 hxp c (by simpa [Pf.loadedAxioms] using hc)
    | loadAxiom a =>
      simp only [Pf.Shaped] at hsh
      simp only [Pf.concF, Option.bind_eq_bind, Option.bind_eq_some_iff] at h
      obtain ⟨e, he, h⟩ := h
      cases e with
      | false => simp at h
      | true =>
        intro c hc
        simp only [Pf.loadedAxioms, List.mem_singleton] at hc
        subst hc
        exact (mem_spec c m ax true hsh hax he).mp rfl

/-! ## the basic interpreter -/

def BasicOK (ax : List NPat) (k : Nat) : Prop :=
  ∀ pf r, pf.Shaped → Pf.runBasicF ax k pf = some r →
    (∀ c, r = some c → Pf.Sem pf c.expand ∧ c.Shape = true ∧ pf.AxOK ax ∧
        ∃ adv, Pf.concF ax (k - 1) pf = some (some adv) ∧ NPat.peqF (k - 1) c adv = some true) ∧
    (∀ C, Pf.Sem pf C → pf.AxOK ax → ∃ c, r = some c)

theorem rawB_spec (ax : List NPat) (n : Nat) (ih : BasicOK ax n) (pf : Pf) (o : Option NPat)
    (hsh : pf.Shaped) (h : rawB ax n pf = some o) :
    (∀ c, o = some c → Pf.Sem pf c.expand ∧ c.Shape = true) ∧
    (∀ C, Pf.Sem pf C → pf.AxOK ax → ∃ c, o = some c) := by
  cases pf with
  | prop1 =>
    simp only [rawB, Option.pure_def, Option.some.injEq] at h; subst h
    exact ⟨fun c e => by cases e; exact ⟨.prop1, by rfl⟩, fun _ _ _ => ⟨_, rfl⟩⟩
  | prop2 =>
    simp only [rawB, Option.pure_def, Option.some.injEq] at h; subst h
    exact ⟨fun c e => by cases e; exact ⟨.prop2, by rfl⟩, fun _ _ _ => ⟨_, rfl⟩⟩
  | prop3 =>
    simp only [rawB, Option.pure_def, Option.some.injEq] at h; subst h
    exact ⟨fun c e => by cases e; exact ⟨.prop3, by rfl⟩, fun _ _ _ => ⟨_, rfl⟩⟩
  | quantifier =>
    simp only [rawB, Option.pure_def, Option.some.injEq] at h; subst h
    exact ⟨fun c e => by cases e; exact ⟨.quantifier, by rfl⟩, fun _ _ _ => ⟨_, rfl⟩⟩
  | loadAxiom a =>
    simp only [Pf.Shaped] at hsh
    simp only [rawB, Option.pure_def, Option.some.injEq] at h; subst h
    exact ⟨fun c e => by cases e; exact ⟨.loadAxiom, hsh⟩, fun _ _ _ => ⟨_, rfl⟩⟩
  | mp l r =>
    simp only [Pf.Shaped] at hsh
    simp only [rawB, Option.bind_eq_some_iff] at h
    obtain ⟨x, hx, y, hy, h⟩ := h
    obtain ⟨hlA, hlB⟩ := ih l x hsh.1 hx
    obtain ⟨hrA, hrB⟩ := ih r y hsh.2 hy
    constructor
    · intro c hc
      subst hc
      cases x with
      | none => simp at h
      | some a =>
        cases y with
        | none => simp at h
        | some b =>
          simp only [] at h
          obtain ⟨hsa, hash, _, _⟩ := hlA a rfl
          obtain ⟨hsb, hbsh, _, _⟩ := hrA b rfl
          obtain ⟨hexp, hcs⟩ := pyMP_spec n a b c hash hbsh h
          rw [hexp] at hsa
          exact ⟨.mp hsa hsb, hcs⟩
    · intro C hS hok
      cases hS with
      | @mp _ _ B _ hSl hSr =>
        obtain ⟨a, rfl⟩ := hlB _ hSl (fun a ha => hok a (by simp [Pf.loadedAxioms, ha]))
        obtain ⟨b, rfl⟩ := hrB _ hSr (fun a ha => hok a (by simp [Pf.loadedAxioms, ha]))
        obtain ⟨hsa, hash, _, _⟩ := hlA a rfl
        obtain ⟨hsb, hbsh, _, _⟩ := hrA b rfl
        have ea := hsa.functional hSl
        have eb := hsb.functional hSr
        simp only [] at h
        obtain ⟨c, hc, _⟩ := pyMP_complete n a b o C hash hbsh (by rw [ea, eb]) h
        exact ⟨c, hc⟩
  | gen p y =>
    simp only [Pf.Shaped] at hsh
    simp only [rawB, Option.bind_eq_some_iff] at h
    obtain ⟨x, hx, h⟩ := h
    obtain ⟨hpA, hpB⟩ := ih p x hsh hx
    constructor
    · intro c hc
      subst hc
      cases x with
      | none => simp at h
      | some a =>
        simp only [] at h
        obtain ⟨hsa, hash, _, _⟩ := hpA a rfl
        obtain ⟨L, Rr, hexp, hfr, hce, hcs⟩ := pyGen_spec n a c y hash h
        rw [hexp] at hsa
        rw [hce]
        exact ⟨.gen hsa hfr, hcs⟩
    · intro C hS hok
      cases hS with
      | @gen _ _ L Rr hSp hfr =>
        obtain ⟨a, rfl⟩ := hpB _ hSp (fun a ha => hok a (by simpa [Pf.loadedAxioms] using ha))
        obtain ⟨hsa, hash, _, _⟩ := hpA a rfl
        have ea := hsa.functional hSp
        simp only [] at h
        obtain ⟨c, hc, _⟩ := pyGen_complete n a y o L Rr hash ea hfr h
        exact ⟨c, hc⟩
  | dynInst p δ =>
    simp only [Pf.Shaped] at hsh
    simp only [rawB] at h
    split at h
    · next hemp =>
      obtain ⟨hpA, hpB⟩ := ih p o hsh.1 h
      constructor
      · intro c hc
        obtain ⟨hsc, hcsh, _, _⟩ := hpA c hc
        refine ⟨?_, hcsh⟩
        have := Pf.Sem.dynInst (δ := δ) hsc
        rwa [← NPat.inst_isEmpty δ hemp c hcsh] at this
      · intro C hS hok
        cases hS with
        | dynInst hSp =>
          exact hpB _ hSp (fun a ha => hok a (by simpa [Pf.loadedAxioms] using ha))
    · simp only [Option.bind_eq_some_iff] at h
      obtain ⟨x, hx, h⟩ := h
      obtain ⟨hpA, hpB⟩ := ih p x hsh.1 hx
      constructor
      · intro c hc
        subst hc
        cases x with
        | none => simp at h
        | some a =>
          simp only [Option.bind_eq_some_iff, Option.pure_def, Option.some.injEq] at h
          obtain ⟨c', hc', rfl⟩ := h
          obtain ⟨hsa, hash, _, _⟩ := hpA a rfl
          obtain ⟨hce, hcs⟩ := NPat.instF_expand n δ a c' hash hsh.2 hc'
          rw [hce]
          exact ⟨.dynInst hsa, hcs⟩
      · intro C hS hok
        cases hS with
        | dynInst hSp =>
          obtain ⟨a, rfl⟩ := hpB _ hSp (fun a ha => hok a (by simpa [Pf.loadedAxioms] using ha))
          simp only [Option.bind_eq_some_iff, Option.pure_def, Option.some.injEq] at h
          obtain ⟨c', _, rfl⟩ := h
          exact ⟨c', rfl⟩

theorem basic_step (ax : List NPat) (hax : AxShaped ax) (n : Nat) (ih : BasicOK ax n) :
    BasicOK ax (n + 1) := by
  intro pf r hsh h
  rw [runBasicF_succ] at h
  simp only [Option.bind_eq_some_iff] at h
  obtain ⟨o, ho, h⟩ := h
  obtain ⟨hA, hB⟩ := rawB_spec ax n ih pf o hsh ho
  constructor
  · intro c hc
    subst hc
    cases o with
    | none => simp at h
    | some c' =>
      simp only [checkB, Option.bind_eq_some_iff] at h
      obtain ⟨x, hx, h⟩ := h
      cases x with
      | none => simp at h
      | some adv =>
        simp only [Option.bind_eq_some_iff] at h
        obtain ⟨e, he, h⟩ := h
        cases e with
        | false => simp at h
        | true =>
          simp only [if_true, Option.pure_def, Option.some.injEq] at h
          subst h
          obtain ⟨hs, hcs⟩ := hA c' rfl
          exact ⟨hs, hcs, concF_axok ax hax n pf adv hsh hx, adv, hx, he⟩
  · intro C hS hok
    obtain ⟨c, rfl⟩ := hB C hS hok
    obtain ⟨hs, hcs⟩ := hA c rfl
    have hC := hs.functional hS
    simp only [checkB, Option.bind_eq_some_iff] at h
    obtain ⟨x, hx, h⟩ := h
    obtain ⟨adv, rfl, hae, hash⟩ := concF_sem ax hax hS n x hsh hok hx
    simp only [Option.bind_eq_some_iff] at h
    obtain ⟨e, he, h⟩ := h
    have hdec := NPat.peqF_expand n c adv e hcs hash he
    have : e = true := by rw [hdec]; simp [hC, hae]
    subst this
    simp only [if_true, Option.pure_def, Option.some.injEq] at h
    exact ⟨c, h.symm⟩

theorem basic_all (ax : List NPat) (hax : AxShaped ax) (k : Nat) : BasicOK ax k := by
  induction k with
  | zero => intro pf r _ h; simp [Pf.runBasicF] at h
  | succ n ih => exact basic_step ax hax n ih

/-! ## the stateful interpreters -/

/-- every axiom the expression loads is in memory (up to notation) -/
def MemHas (s : PySt) (pf : Pf) : Prop :=
  ∀ a ∈ pf.loadedAxioms, ∃ m ∈ s.memory, convT m = .proved a.expand

theorem MemHas.mono {s s' : PySt} {pf : Pf} (h : MemHas s pf) (hf : Frame s s') :
    MemHas s' pf := by
  intro a ha
  obtain ⟨m, hm, hc⟩ := h a ha
  obtain ⟨e, he⟩ := hf.2.2.1
  exact ⟨m, by rw [he]; exact List.mem_append_left _ hm, hc⟩

def RunOK (cfg : Cfg) (ax : List NPat) (n : Nat) : Prop :=
  ∀ s pf acc r, pf.Shaped → ShapeSt s → Pf.runF cfg ax n s pf acc = some r →
    (∀ s' a' c, r = some (s', a', c) →
      Post s [(.proved c, false)] acc s' a' ∧ Pf.Sem pf c.expand ∧ pf.AxOK ax ∧
        ∃ adv, Pf.concF ax (n - 1) pf = some (some adv) ∧
          NPat.peqF (n - 1) c adv = some true) ∧
    (∀ C, Pf.Sem pf C → pf.AxOK ax → MemHas s pf → ∃ s' a' c, r = some (s', a', c))

def RawGood (ax : List NPat) (s : PySt) (pf : Pf) (acc : List Call)
    (o : Option (PySt × List Call)) : Prop :=
  (∀ s1 a1, o = some (s1, a1) →
      ∃ c, Post s [(.proved c, false)] acc s1 a1 ∧ Pf.Sem pf c.expand) ∧
  (∀ C, Pf.Sem pf C → pf.AxOK ax → MemHas s pf → ∃ s1 a1, o = some (s1, a1))

/-- the axiom rules: one call that pushes the axiom -/
theorem raw_axiom (ax : List NPat) (n : Nat) (s : PySt) (pf : Pf) (acc : List Call) (c : Call)
    (cN : NPat) (o : Option (PySt × List Call)) (hSh : ShapeSt s)
    (ht : track1 n s c = some (some (s.push (.proved cN)))) (hS : Pf.Sem pf cN.expand)
    (h1 : c ≠ .publishProof) (h2 : c ≠ .intoClaim) (h3 : c ≠ .intoProof)
    (hq : c.quiet = true)
    (hload : ∀ t, c = .load t → t.body.Shape = true)
    (hmv : ∀ id ef sf ps ns hs, c = .metavar id ef sf ps ns hs → ef = [] ∧ sf = [])
    (h : doCalls n s [c] acc = some o) : RawGood ax s pf acc o := by
  rw [doCalls_ok n s _ _ acc ht] at h
  simp only [Option.some.injEq] at h; subst h
  constructor
  · intro s1 a1 e
    simp only [Option.some.injEq, Prod.mk.injEq] at e
    obtain ⟨rfl, rfl⟩ := e
    exact ⟨cN, (Post.init s acc hSh).step n c ht rfl h1 h2 h3 hq hload hmv, hS⟩
  · intro _ _ _ _; exact ⟨_, _, rfl⟩

theorem top_shape {s : PySt} {t : TTerm} {b : Bool} {st : List (TTerm × Bool)}
    (hSh : ShapeSt s) (h : s.stack = (t, b) :: st) : t.body.Shape = true :=
  hSh.1 (t, b) (by rw [h]; simp)

theorem rawF_spec (cfg : Cfg) (ax : List NPat) (n : Nat) (ih : RunOK cfg ax n)
    (s : PySt) (pf : Pf) (acc : List Call) (o : Option (PySt × List Call))
    (hsh : pf.Shaped) (hSh : ShapeSt s) (h : rawF cfg ax n s pf acc = some o) :
    RawGood ax s pf acc o := by
  cases pf with
  | prop1 =>
    exact raw_axiom ax n s _ acc .prop1 prop1N o hSh rfl .prop1 (by simp) (by simp) (by simp) rfl
      (fun _ e => by cases e) (fun _ _ _ _ _ _ e => by cases e) h
  | prop2 =>
    exact raw_axiom ax n s _ acc .prop2 prop2N o hSh rfl .prop2 (by simp) (by simp) (by simp) rfl
      (fun _ e => by cases e) (fun _ _ _ _ _ _ e => by cases e) h
  | prop3 =>
    exact raw_axiom ax n s _ acc .prop3 prop3N o hSh rfl .prop3 (by simp) (by simp) (by simp) rfl
      (fun _ e => by cases e) (fun _ _ _ _ _ _ e => by cases e) h
  | quantifier =>
    exact raw_axiom ax n s _ acc .quantifier quantN o hSh rfl .quantifier (by simp) (by simp)
      (by simp) rfl (fun _ e => by cases e) (fun _ _ _ _ _ _ e => by cases e) h
  | loadAxiom a =>
    simp only [Pf.Shaped] at hsh
    simp only [rawF] at h
    obtain ⟨y, hy, rfl⟩ := (doCalls_single n s _ acc o).mp h
    simp only [track1, Option.bind_eq_bind, Option.bind_eq_some_iff] at hy
    obtain ⟨z, hz, hy⟩ := hy
    constructor
    · intro s1 a1 e
      cases z with
      | none => simp only [Option.pure_def, Option.some.injEq] at hy; subst hy; simp at e
      | some i =>
        simp only [Option.pure_def, Option.some.injEq] at hy; subst hy
        simp only [Option.map_some, Option.some.injEq, Prod.mk.injEq] at e
        obtain ⟨rfl, rfl⟩ := e
        have ht := tr_load n s (.proved a) i hz
        exact ⟨a, (Post.init s acc hSh).step n _ ht rfl (by simp) (by simp) (by simp) rfl
          (fun _ e => by cases e; exact hsh) (fun _ _ _ _ _ _ e => by cases e), .loadAxiom⟩
    · intro C _ _ hmem
      cases z with
      | none =>
        exfalso
        obtain ⟨m, hm, hc⟩ := hmem a (by simp [Pf.loadedAxioms])
        exact indexF_none n (.proved a) hsh s.memory hSh.2.1 0 hz m hm (by simpa [convT] using hc)
      | some i =>
        simp only [Option.pure_def, Option.some.injEq] at hy; subst hy
        exact ⟨_, _, rfl⟩
  | mp l r =>
    simp only [Pf.Shaped] at hsh
    simp only [rawF] at h
    rcases andThen3_eq_some _ _ _ h with ⟨hl, rfl⟩ | ⟨s1, a1, cl, hl, h⟩
    · refine ⟨(fun _ _ e => by cases e), ?_⟩
      intro C hS hok hmem
      cases hS with
      | mp hSl hSr =>
        obtain ⟨_, _, _, e⟩ := (ih s l acc _ hsh.1 hSh hl).2 _ hSl
          (fun a ha => hok a (by simp [Pf.loadedAxioms, ha]))
          (fun a ha => hmem a (by simp [Pf.loadedAxioms, ha]))
        cases e
    · obtain ⟨hP1, hS1, _, _⟩ := (ih s l acc _ hsh.1 hSh hl).1 s1 a1 cl rfl
      rcases andThen3_eq_some _ _ _ h with ⟨hr, rfl⟩ | ⟨s2, a2, cr, hr, h⟩
      · refine ⟨(fun _ _ e => by cases e), ?_⟩
        intro C hS hok hmem
        cases hS with
        | mp hSl hSr =>
          have hmr : MemHas s r := fun a ha => hmem a (by simp [Pf.loadedAxioms, ha])
          obtain ⟨_, _, _, e⟩ := (ih s1 r a1 _ hsh.2 hP1.2.2.1 hr).2 _ hSr
            (fun a ha => hok a (by simp [Pf.loadedAxioms, ha])) (hmr.mono hP1.2.1)
          cases e
      · obtain ⟨hP2, hS2, _, _⟩ := (ih s1 r a1 _ hsh.2 hP1.2.2.1 hr).1 s2 a2 cr rfl
        have hP12 := hP1.trans hP2
        have hstk : s2.stack = (.proved cr, false) :: (.proved cl, false) :: s.stack := hP12.1
        have hcr := top_shape hP2.2.2.1 hstk
        have hcl : cl.Shape = true :=
          hP2.2.2.1.1 (.proved cl, false) (by rw [hstk]; simp)
        simp only [TTerm.body] at hcr
        obtain ⟨y, hy, rfl⟩ := (doCalls_single n s2 _ a2 o).mp h
        have hy' := hy
        simp only [track1, hstk, Option.bind_eq_bind, Option.bind_eq_some_iff] at hy'
        obtain ⟨z, hz, hy'⟩ := hy'
        constructor
        · intro s3 a3 e
          cases z with
          | none => simp only [Option.pure_def, Option.some.injEq] at hy'; subst hy'; simp at e
          | some c =>
            simp only [Option.pure_def, Option.some.injEq] at hy'; subst hy'
            simp only [Option.map_some, Option.some.injEq, Prod.mk.injEq] at e
            obtain ⟨rfl, rfl⟩ := e
            obtain ⟨hexp, _⟩ := pyMP_spec n cl cr c hcl hcr hz
            rw [hexp] at hS1
            exact ⟨c, hP12.step n _ hy rfl (by simp) (by simp) (by simp) rfl
              (fun _ e => by cases e) (fun _ _ _ _ _ _ e => by cases e), .mp hS1 hS2⟩
        · intro C hS _ _
          cases hS with
          | mp hSl hSr =>
            have ea := hS1.functional hSl
            have eb := hS2.functional hSr
            obtain ⟨c, rfl, _⟩ := pyMP_complete n cl cr z C hcl hcr (by rw [ea, eb]) hz
            simp only [Option.pure_def, Option.some.injEq] at hy'; subst hy'
            exact ⟨_, _, rfl⟩
  | gen p x =>
    simp only [Pf.Shaped] at hsh
    simp only [rawF] at h
    rcases andThen3_eq_some _ _ _ h with ⟨hl, rfl⟩ | ⟨s1, a1, cp, hl, h⟩
    · refine ⟨(fun _ _ e => by cases e), ?_⟩
      intro C hS hok hmem
      cases hS with
      | gen hSp hfr =>
        obtain ⟨_, _, _, e⟩ := (ih s p acc _ hsh hSh hl).2 _ hSp
          (fun a ha => hok a (by simpa [Pf.loadedAxioms] using ha))
          (fun a ha => hmem a (by simpa [Pf.loadedAxioms] using ha))
        cases e
    · obtain ⟨hP1, hS1, _, _⟩ := (ih s p acc _ hsh hSh hl).1 s1 a1 cp rfl
      have hstk : s1.stack = (.proved cp, false) :: s.stack := hP1.1
      have hcp := top_shape hP1.2.2.1 hstk
      simp only [TTerm.body] at hcp
      obtain ⟨y, hy, rfl⟩ := (doCalls_single n s1 _ a1 o).mp h
      have hy' := hy
      simp only [track1, hstk, Option.bind_eq_bind, Option.bind_eq_some_iff] at hy'
      obtain ⟨z, hz, hy'⟩ := hy'
      constructor
      · intro s3 a3 e
        cases z with
        | none => simp only [Option.pure_def, Option.some.injEq] at hy'; subst hy'; simp at e
        | some c =>
          simp only [Option.pure_def, Option.some.injEq] at hy'; subst hy'
          simp only [Option.map_some, Option.some.injEq, Prod.mk.injEq] at e
          obtain ⟨rfl, rfl⟩ := e
          obtain ⟨L, Rr, hexp, hfr, hce, _⟩ := pyGen_spec n cp c x hcp hz
          rw [hexp] at hS1
          refine ⟨c, hP1.step n _ hy rfl (by simp) (by simp) (by simp) rfl
            (fun _ e => by cases e) (fun _ _ _ _ _ _ e => by cases e), ?_⟩
          rw [hce]; exact .gen hS1 hfr
      · intro C hS _ _
        cases hS with
        | @gen _ _ L Rr hSp hfr =>
          have ea := hS1.functional hSp
          obtain ⟨c, rfl, _⟩ := pyGen_complete n cp x z L Rr hcp ea hfr hz
          simp only [Option.pure_def, Option.some.injEq] at hy'; subst hy'
          exact ⟨_, _, rfl⟩
  | dynInst p δ =>
    simp only [Pf.Shaped] at hsh
    simp only [rawF] at h
    split at h
    · next hemp =>
      rcases andThen3_eq_some _ _ _ h with ⟨hl, rfl⟩ | ⟨s1, a1, cp, hl, h⟩
      · refine ⟨(fun _ _ e => by cases e), ?_⟩
        intro C hS hok hmem
        cases hS with
        | dynInst hSp =>
          obtain ⟨_, _, _, e⟩ := (ih s p acc _ hsh.1 hSh hl).2 _ hSp
            (fun a ha => hok a (by simpa [Pf.loadedAxioms] using ha))
            (fun a ha => hmem a (by simpa [Pf.loadedAxioms] using ha))
          cases e
      · obtain ⟨hP1, hS1, _, _⟩ := (ih s p acc _ hsh.1 hSh hl).1 s1 a1 cp rfl
        simp only [Option.pure_def, Option.some.injEq] at h; subst h
        have hcp := top_shape hP1.2.2.1 hP1.1
        simp only [TTerm.body] at hcp
        constructor
        · intro s3 a3 e
          simp only [Option.some.injEq, Prod.mk.injEq] at e
          obtain ⟨rfl, rfl⟩ := e
          refine ⟨cp, hP1, ?_⟩
          have := Pf.Sem.dynInst (δ := δ) hS1
          rwa [← NPat.inst_isEmpty δ hemp cp hcp] at this
        · intro _ _ _ _; exact ⟨_, _, rfl⟩
    · next hemp =>
      obtain ⟨s1, a1, ⟨ts, hP1, hets⟩, h⟩ := andThen_spec h
        (fun o ho => (pattern_spec cfg n).2 s (δ.map (·.2)) acc o (shapeMap_vals δ hsh.2) hSh ho)
      rcases andThen3_eq_some _ _ _ h with ⟨hl, rfl⟩ | ⟨s2, a2, cp, hl, h⟩
      · refine ⟨(fun _ _ e => by cases e), ?_⟩
        intro C hS hok hmem
        cases hS with
        | dynInst hSp =>
          have hmp : MemHas s p := fun a ha => hmem a (by simpa [Pf.loadedAxioms] using ha)
          obtain ⟨_, _, _, e⟩ := (ih s1 p a1 _ hsh.1 hP1.2.2.1 hl).2 _ hSp
            (fun a ha => hok a (by simpa [Pf.loadedAxioms] using ha)) (hmp.mono hP1.2.1)
          cases e
      · obtain ⟨hP2, hS2, _, _⟩ := (ih s1 p a1 _ hsh.1 hP1.2.2.1 hl).1 s2 a2 cp rfl
        have hP12 := hP1.trans hP2
        have hstk : s2.stack = (.proved cp, false) ::
            (List.map (fun t => (TTerm.pat t, false)) ts.reverse ++ s.stack) := hP12.1
        have hcp := top_shape hP2.2.2.1 hstk
        simp only [TTerm.body] at hcp
        have hlen : ts.length = δ.length := by
          have := congrArg List.length hets
          simpa using this
        have htp : takePlugs (δ.map (·.1)).length (ts.reverse.map entry ++ s.stack)
            = some (ts, s.stack) := by
          have := takePlugs_rev ts.reverse s.stack
          simpa [hlen] using this
        delta entry at htp
        have hkeys : (δ.map (·.1)).isEmpty = false := by
          cases δ with
          | nil => simp at hemp
          | cons _ _ => simp
        have hts : ∀ t ∈ ts, t.Shape = true := by
          intro t ht
          have : (TTerm.pat t, false) ∈ s2.stack := by
            rw [hstk]; simp [ht]
          exact hP2.2.2.1.1 _ this
        have hsm : NPat.ShapeMap ((δ.map (·.1)).zip ts) = true := shapeMap_zip _ _ hts
        obtain ⟨y, hy, rfl⟩ := (doCalls_single n s2 _ a2 o).mp h
        have hy' := hy
        simp only [track1, hstk, hkeys, Bool.false_eq_true, if_false, htp, Option.bind_eq_bind,
          Option.bind_eq_some_iff, Option.pure_def, Option.some.injEq] at hy'
        obtain ⟨c, hc, hy'⟩ := hy'
        subst hy'
        constructor
        · intro s3 a3 e
          simp only [Option.map_some, Option.some.injEq, Prod.mk.injEq] at e
          obtain ⟨rfl, rfl⟩ := e
          obtain ⟨hce, _⟩ := NPat.instF_expand n _ cp c hcp hsm hc
          refine ⟨c, hP12.step n _ hy rfl (by simp) (by simp) (by simp) rfl
            (fun _ e => by cases e) (fun _ _ _ _ _ _ e => by cases e), ?_⟩
          have hmap : NPat.expand.expandMap ((δ.map (·.1)).zip ts) = NPat.expand.expandMap δ := by
            rw [expandMap_zip, hets]
            conv => rhs; rw [← zip_keys_vals δ, expandMap_zip]
          rw [hce, hmap]
          exact .dynInst hS2
        · intro _ _ _ _; exact ⟨_, _, rfl⟩

theorem run_step (cfg : Cfg) (ax : List NPat) (hax : AxShaped ax) (n : Nat)
    (ih : RunOK cfg ax n) : RunOK cfg ax (n + 1) := by
  intro s pf acc r hsh hSh h
  rw [runF_succ] at h
  rcases andThen_eq_some _ _ _ h with ⟨hraw, rfl⟩ | ⟨s1, a1, hraw, h⟩
  · obtain ⟨_, hB⟩ := rawF_spec cfg ax n ih s pf acc _ hsh hSh hraw
    refine ⟨(fun _ _ _ e => by cases e), ?_⟩
    intro C hS hok hmem
    obtain ⟨_, _, e⟩ := hB C hS hok hmem
    cases e
  · obtain ⟨hA, _⟩ := rawF_spec cfg ax n ih s pf acc _ hsh hSh hraw
    obtain ⟨c, hP, hSc⟩ := hA s1 a1 rfl
    have hstk : s1.stack = (.proved c, false) :: s.stack := hP.1
    have hcs := top_shape hP.2.2.1 hstk
    simp only [TTerm.body] at hcs
    simp only [checkF, hstk, Option.bind_eq_some_iff] at h
    obtain ⟨x, hx, h⟩ := h
    constructor
    · intro s' a' c' e
      subst e
      cases x with
      | none => simp at h
      | some adv =>
        simp only [Option.bind_eq_some_iff] at h
        obtain ⟨e, he, h⟩ := h
        cases e with
        | false => simp at h
        | true =>
          simp only [if_true, Option.pure_def, Option.some.injEq, Prod.mk.injEq] at h
          obtain ⟨rfl, rfl, rfl⟩ := h
          exact ⟨hP, hSc, concF_axok ax hax n pf adv hsh hx, adv, hx, he⟩
    · intro C hS hok _
      have hC := hSc.functional hS
      obtain ⟨adv, rfl, hae, hash⟩ := concF_sem ax hax hS n x hsh hok hx
      simp only [Option.bind_eq_some_iff] at h
      obtain ⟨e, he, h⟩ := h
      have hdec := NPat.peqF_expand n c adv e hcs hash he
      have : e = true := by rw [hdec]; simp [hC, hae]
      subst this
      simp only [if_true, Option.pure_def, Option.some.injEq] at h
      exact ⟨s1, a1, c, h.symm⟩

theorem run_all (cfg : Cfg) (ax : List NPat) (hax : AxShaped ax) (n : Nat) : RunOK cfg ax n := by
  induction n with
  | zero => intro s pf acc r _ _ h; simp [Pf.runF] at h
  | succ n ih => exact run_step cfg ax hax n ih

/-! ## the C08 theorems -/

/-- 2a. the returned conclusion is `==` to the advertised one and sits on top of the stack -/
theorem Pf.runF_conclusion (cfg : Cfg) (ax : List NPat) (n : Nat) (s : PySt) (pf : Pf)
    (acc : List Call) (s' : PySt) (a' : List Call) (c : NPat) :
    AxShaped ax → pf.Shaped → ShapeSt s →
    Pf.runF cfg ax n s pf acc = some (some (s', a', c)) →
    ∃ adv, Pf.concF ax (n - 1) pf = some (some adv) ∧ NPat.peqF (n - 1) c adv = some true ∧
      (∃ st, s'.stack = (.proved c, false) :: st) := by
  intro hax hsh hSh h
  obtain ⟨hP, _, _, adv, h1, h2⟩ := (run_all cfg ax hax n s pf acc _ hsh hSh h).1 s' a' c rfl
  exact ⟨adv, h1, h2, s.stack, hP.1⟩

theorem Pf.runBasicF_conclusion (ax : List NPat) (k : Nat) (pf : Pf) (c : NPat) :
    AxShaped ax → pf.Shaped → Pf.runBasicF ax k pf = some (some c) →
    ∃ adv, Pf.concF ax (k - 1) pf = some (some adv) ∧ NPat.peqF (k - 1) c adv = some true ∧
      c.expand = adv.expand := by
  intro hax hsh h
  obtain ⟨hS, hcs, hok, adv, h1, h2⟩ := (basic_all ax hax k pf _ hsh h).1 c rfl
  refine ⟨adv, h1, h2, ?_⟩
  obtain ⟨adv', e, hae, _⟩ := concF_sem ax hax hS (k - 1) _ hsh hok h1
  cases e
  exact hae.symm

/-- 2b. stack discipline of a proof expression on a stateful interpreter -/
theorem Pf.runF_stack (cfg : Cfg) (ax : List NPat) (n : Nat) (s : PySt) (pf : Pf)
    (acc : List Call) (s' : PySt) (a' : List Call) (c : NPat) :
    AxShaped ax → pf.Shaped → ShapeSt s →
    Pf.runF cfg ax n s pf acc = some (some (s', a', c)) →
    s'.stack = (.proved c, false) :: s.stack ∧ s'.phase = s.phase ∧ s'.claims = s.claims ∧
      (∃ ext, s'.symtab = s.symtab ++ ext) ∧ (∃ ext, s'.memory = s.memory ++ ext) ∧
      (∃ cs, a' = acc ++ cs) ∧ ShapeSt s' := by
  intro hax hsh hSh h
  obtain ⟨⟨hstk, hf, hsh', hcs⟩, _⟩ := (run_all cfg ax hax n s pf acc _ hsh hSh h).1 s' a' c rfl
  obtain ⟨cs, hcs, _, _⟩ := hcs
  exact ⟨hstk, hf.1, hf.2.1, hf.2.2.2, hf.2.2.1, ⟨cs, hcs⟩, hsh'⟩

/-- every run that returns, returns the documented conclusion -/
theorem Pf.runF_sem (cfg : Cfg) (ax : List NPat) (n : Nat) (s : PySt) (pf : Pf)
    (acc : List Call) (s' : PySt) (a' : List Call) (c : NPat) :
    AxShaped ax → pf.Shaped → ShapeSt s →
    Pf.runF cfg ax n s pf acc = some (some (s', a', c)) → Pf.Sem pf c.expand ∧ pf.AxOK ax := by
  intro hax hsh hSh h
  obtain ⟨_, hS, hok, _⟩ := (run_all cfg ax hax n s pf acc _ hsh hSh h).1 s' a' c rfl
  exact ⟨hS, hok⟩

theorem Pf.runBasicF_sem (ax : List NPat) (k : Nat) (pf : Pf) (c : NPat) :
    AxShaped ax → pf.Shaped → Pf.runBasicF ax k pf = some (some c) →
    Pf.Sem pf c.expand ∧ pf.AxOK ax ∧ c.Shape = true := by
  intro hax hsh h
  obtain ⟨hS, hcs, hok, _⟩ := (basic_all ax hax k pf _ hsh h).1 c rfl
  exact ⟨hS, hok, hcs⟩

/-- 2c. a proof that runs on a stateful interpreter (plain or memoising) also runs on the basic one,
with the same conclusion up to notation -/
theorem Pf.runF_agrees_basic (cfg : Cfg) (ax : List NPat) (n k : Nat) (s : PySt) (pf : Pf)
    (acc : List Call) (s' : PySt) (a' : List Call) (c : NPat) (r : Option NPat) :
    AxShaped ax → pf.Shaped → ShapeSt s →
    Pf.runF cfg ax n s pf acc = some (some (s', a', c)) → Pf.runBasicF ax k pf = some r →
    ∃ c', r = some c' ∧ c'.expand = c.expand := by
  intro hax hsh hSh h hb
  obtain ⟨hS, hok⟩ := Pf.runF_sem cfg ax n s pf acc s' a' c hax hsh hSh h
  obtain ⟨hA, hB⟩ := basic_all ax hax k pf r hsh hb
  obtain ⟨c', rfl⟩ := hB _ hS hok
  obtain ⟨hS', _⟩ := hA c' rfl
  exact ⟨c', rfl, hS'.functional hS⟩

/-- 2c, converse (partial correctness): a proof that runs on the basic interpreter cannot raise on a
stateful one whose memory holds the axioms it loads; the conclusions agree up to notation -/
theorem Pf.basic_agrees_runF (cfg : Cfg) (ax : List NPat) (n k : Nat) (s : PySt) (pf : Pf)
    (acc : List Call) (c' : NPat) (r : Option (PySt × List Call × NPat)) :
    AxShaped ax → pf.Shaped → ShapeSt s →
    Pf.runBasicF ax k pf = some (some c') →
    (∀ a ∈ pf.loadedAxioms, ∃ m ∈ s.memory, convT m = .proved a.expand) →
    Pf.runF cfg ax n s pf acc = some r →
    ∃ s' a' c, r = some (s', a', c) ∧ c.expand = c'.expand := by
  intro hax hsh hSh hb hmem h
  obtain ⟨hS', hok, _⟩ := Pf.runBasicF_sem ax k pf c' hax hsh hb
  obtain ⟨hA, hB⟩ := run_all cfg ax hax n s pf acc r hsh hSh h
  obtain ⟨s', a', c, rfl⟩ := hB _ hS' hok hmem
  obtain ⟨_, hS, _⟩ := hA s' a' c rfl
  exact ⟨s', a', c, rfl, hS.functional hS'⟩

/-- the memory hypothesis from Python's `==` -/
theorem memHas_of_teq (n : Nat) (s : PySt) (pf : Pf) (hSh : ShapeSt s) (hsh : pf.Shaped)
    (h : ∀ a ∈ pf.loadedAxioms, a.Shape = true ∧
      ∃ m ∈ s.memory, PySt.teqF n m (.proved a) = some true) :
    ∀ a ∈ pf.loadedAxioms, ∃ m ∈ s.memory, convT m = .proved a.expand := by
  intro a ha
  obtain ⟨hash, m, hm, ht⟩ := h a ha
  exact ⟨m, hm, teqF_conv n m (.proved a) (hSh.2.1 m hm) hash ht⟩

/-- 2d. memoisation (and the starting state) does not change conclusions -/
theorem Pf.runF_cfg_independent (cfg₁ cfg₂ : Cfg) (ax : List NPat) (n₁ n₂ : Nat)
    (s₁ s₂ : PySt) (pf : Pf) (acc₁ acc₂ : List Call) (s₁' s₂' : PySt) (a₁' a₂' : List Call)
    (c₁ c₂ : NPat) :
    AxShaped ax → pf.Shaped → ShapeSt s₁ → ShapeSt s₂ →
    Pf.runF cfg₁ ax n₁ s₁ pf acc₁ = some (some (s₁', a₁', c₁)) →
    Pf.runF cfg₂ ax n₂ s₂ pf acc₂ = some (some (s₂', a₂', c₂)) →
    c₁.expand = c₂.expand := by
  intro hax hsh h1 h2 hr1 hr2
  exact (Pf.runF_sem cfg₁ ax n₁ s₁ pf acc₁ s₁' a₁' c₁ hax hsh h1 hr1).1.functional
    (Pf.runF_sem cfg₂ ax n₂ s₂ pf acc₂ s₂' a₂' c₂ hax hsh h2 hr2).1

/-- the calls `Interpreter.pattern` made: quiet, and they lead from `s` to `s'` -/
theorem PySt.patternF_exec (cfg : Cfg) (n : Nat) (s : PySt) (p : NPat) (acc : List Call)
    (s' : PySt) (a' : List Call) :
    p.Shape = true → ShapeSt s → patternF cfg n s p acc = some (some (s', a')) →
    ∃ t cs, s'.stack = (.pat t, false) :: s.stack ∧ t.expand = p.expand ∧ a' = acc ++ cs ∧
      Exec s cs s' ∧ (∀ c ∈ cs, c.quiet = true) ∧ ShapeSt s' ∧ Frame s s' := by
  intro hp hSh h
  obtain ⟨s1, a1, e, t, ⟨hstk, hf, hsh, cs, hcs, hex, hq⟩, het, _⟩ :=
    (pattern_spec cfg n).1 s p acc _ hp hSh h
  cases e
  exact ⟨t, cs, hstk, het, hcs, hex, hq, hsh, hf⟩

/-- the calls a proof expression made: quiet, and they lead from `s` to `s'` -/
theorem Pf.runF_exec (cfg : Cfg) (ax : List NPat) (n : Nat) (s : PySt) (pf : Pf)
    (acc : List Call) (s' : PySt) (a' : List Call) (c : NPat) :
    AxShaped ax → pf.Shaped → ShapeSt s →
    Pf.runF cfg ax n s pf acc = some (some (s', a', c)) →
    ∃ cs, s'.stack = (.proved c, false) :: s.stack ∧ a' = acc ++ cs ∧ Exec s cs s' ∧
      (∀ x ∈ cs, x.quiet = true) ∧ ShapeSt s' ∧ Frame s s' := by
  intro hax hsh hSh h
  obtain ⟨⟨hstk, hf, hsh', cs, hcs, hex, hq⟩, _⟩ :=
    (run_all cfg ax hax n s pf acc _ hsh hSh h).1 s' a' c rfl
  exact ⟨cs, hstk, hcs, hex, hq, hsh', hf⟩

#print axioms PySt.patternF_spec
#print axioms PySt.patternListF_spec
#print axioms Pf.runF_conclusion
#print axioms Pf.runBasicF_conclusion
#print axioms Pf.runF_stack
#print axioms Pf.runF_agrees_basic
#print axioms Pf.basic_agrees_runF
#print axioms Pf.runF_cfg_independent
