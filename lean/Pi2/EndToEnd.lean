import Pi2.ModulePF
import Pi2.SerTie
import Pi2.CodecThm
import Pi2.ComposeTie
import Pi2.RustExecTie
import Pi2.MM.Mono
/-!
# Helper lemmas for the end-to-end theorem of C02 (`Pi2/Props/C02c.lean`)

generated text (`ProofExp.execute_full` on `StatefulInterpreter`) → calls → instructions (`trackAll`) → bytes (the
translated serializer methods `Gen.Ser.w_*`) → the checker (`verifyBytes`, and `verify` of `rust/src/lib.rs` as
translated, `Gen.Rust.verify`).

* `writeAll`: the three byte streams written along a history, the bytes of each call being those of the
  *translated* serializer method (`SerTie.bytesOfCall`); `writeAll_of_trackAll`: they are `encode` of the three
  instruction lists of `trackAll`.
* `verifyBytes_encode`, `rust_accepts_encode`: the codec round trip under the model checker and under the
  translated Rust `verify`.
* `Wire`: decidable; a wire byte string is the image of a `List UInt8` (`wire_is_u8`).
* `Pf.PF.keysNodup`: the dicts of a proof expression of the propositional fragment have distinct keys.
-/
set_option linter.unusedVariables false
open PySt

namespace EndToEnd

/-! ## the codec under the two checkers -/

theorem encode_append (a b : List Instr) : encode (a ++ b) = encode a ++ encode b := by
  simp [encode]

theorem encode_nil : encode [] = [] := rfl

/-- the model checker on the encodings is the reference machine on the instruction lists -/
theorem verifyBytes_encode (g c p : List Instr) :
    verifyBytes (encode g) (encode c) (encode p) = verify g c p := by
  simp only [verifyBytes, decode_encode]
  rfl

/-- what the reference machine accepts, the translated Rust `verify` accepts on the encodings, from every initial
state of the checker's registers -/
theorem rust_accepts_encode (g c p : List Instr) (r : List Pat × List Pat) (h : verify g c p = some r)
    (r0 : RustExec.RSt) : (Gen.Rust.verify (encode g) (encode c) (encode p) r0).isSome = true := by
  rw [RustExecTie.verify_eq, verifyBytes_encode, h]
  rfl

/-! ## wire bytes -/

instance (bs : List Nat) : Decidable (Wire bs) := by unfold Wire; infer_instance

theorem wire_of_le (bs : List Nat) (h : ∀ b ∈ bs, b ≤ 255) : Wire bs := by
  intro b hb; have := h b hb; omega

/-- a wire byte string is a string of bytes: the image of a `List UInt8` -/
theorem wire_is_u8 (bs : List Nat) (h : Wire bs) : ∃ us : List UInt8, us.map UInt8.toNat = bs := by
  induction bs with
  | nil => exact ⟨[], rfl⟩
  | cons b bs ih =>
    obtain ⟨us, hus⟩ := ih (fun x hx => h x (List.mem_cons_of_mem _ hx))
    have hb : b < 256 := h b (List.mem_cons_self ..)
    refine ⟨UInt8.ofNat b :: us, ?_⟩
    simp only [List.map_cons, hus, List.cons.injEq, and_true]
    simp only [UInt8.toNat_ofNat']
    exact Nat.mod_eq_of_lt hb

/-- and conversely -/
theorem u8_is_wire (us : List UInt8) : Wire (us.map UInt8.toNat) := by
  intro b hb
  simp only [List.mem_map] at hb
  obtain ⟨u, _, rfl⟩ := hb
  exact u.toNat_lt

/-! ## the bytes the translated serializer writes along a history -/

/-- the bytes the translated serializer method writes for one call in state `s` (`none` = the call raises:
`memory.index(term)` of `load` finds nothing) -/
def serBytes1 (n : Nat) (s : PySt) : Call → Option (Option (List Nat))
  | .load t => (indexF n t s.memory 0).map (Option.map fun i => SerTie.bytesOfCall s i (.load t))
  | c => some (some (SerTie.bytesOfCall s 0 c))

theorem bytes_nonload (n : Nat) (s : PySt) (c : Call) (hc : ∀ t, c ≠ .load t) (is : List Instr)
    (h : emit1 n s c = some (some is)) : SerTie.bytesOfCall s 0 c = encode is := by
  obtain ⟨i, hi⟩ := SerTie.emit_is_serializer n s c is h
  rw [hi]
  cases c <;> first | rfl | exact absurd rfl (hc _)

/-- `SerTie.emit_is_serializer` with the memory index of `load` made explicit -/
theorem serBytes1_eq (n : Nat) (s : PySt) (c : Call) :
    serBytes1 n s c = (emit1 n s c).map (Option.map encode) := by
  cases c with
  | load t =>
    simp only [serBytes1, emit1, Option.bind_eq_bind]
    cases indexF n t s.memory 0 with
    | none => rfl
    | some r =>
      cases r with
      | none => rfl
      | some i =>
        have h29 : Gen.Ser.opc "Load" = 29 := by decide
        simp [SerTie.bytesOfCall, Gen.Ser.w_load, encode, encode1, h29]
  | metavar id ef sf ps ns hs =>
    simp only [serBytes1, SerTie.bytesOfCall, SerTie.metavar_bytes, emit1]
    split <;> simp [encode]
  | _ =>
    simp only [serBytes1, emit1, Option.map_some]
    exact congrArg (fun x => some (some x)) (bytes_nonload n s _ (by intro t h; cases h) _ rfl)

/-- the three byte streams (gamma, claims, proof file) written along a history: as `trackAll`, with the bytes of
the translated serializer methods in place of the instructions of `emit1` -/
def writeAll (n : Nat) : PySt → List Call → (List Nat × List Nat × List Nat) →
    Option (Option (PySt × (List Nat × List Nat × List Nat)))
  | s, [], out => some (some (s, out))
  | s, c :: cs, (g, cl, pf) => do
      match ← serBytes1 n s c with
      | none => pure none
      | some bs =>
        match ← track1 n s c with
        | none => pure none
        | some s' =>
          let out' := match s.phase with
            | .gamma => (g ++ bs, cl, pf)
            | .claim => (g, cl ++ bs, pf)
            | .proof => (g, cl, pf ++ bs)
          writeAll n s' cs out'

/-- **the bytes written are the encodings of the instructions tracked**: the byte streams the translated
serializer methods write along a history that `trackAll` accepts are `encode` of its three instruction lists -/
theorem writeAll_of_trackAll (n : Nat) : ∀ (cs : List Call) (s s' : PySt) (g c p g' c' p' : List Instr),
    trackAll n s cs (g, c, p) = some (some (s', (g', c', p'))) →
    writeAll n s cs (encode g, encode c, encode p) = some (some (s', (encode g', encode c', encode p'))) := by
  intro cs
  induction cs with
  | nil =>
    intro s s' g c p g' c' p' h
    simp only [trackAll, Option.some.injEq, Prod.mk.injEq] at h
    obtain ⟨rfl, rfl, rfl, rfl⟩ := h
    rfl
  | cons k cs ih =>
    intro s s' g c p g' c' p' h
    simp only [trackAll, Option.bind_eq_bind] at h
    simp only [writeAll, Option.bind_eq_bind, serBytes1_eq]
    cases he : emit1 n s k with
    | none => simp [he] at h
    | some o =>
      cases o with
      | none => simp [he] at h
      | some is =>
        simp only [he, Option.bind_some] at h
        simp only [Option.map_some, Option.bind_some]
        cases ht : track1 n s k with
        | none => simp [ht] at h
        | some o2 =>
          cases o2 with
          | none => simp [ht] at h
          | some s1 =>
            simp only [ht, Option.bind_some] at h
            simp only [Option.bind_some]
            cases hph : s.phase with
            | gamma =>
              simp only [hph] at h
              have := ih s1 s' (g ++ is) c p g' c' p' h
              rw [encode_append] at this
              exact this
            | claim =>
              simp only [hph] at h
              have := ih s1 s' g (c ++ is) p g' c' p' h
              rw [encode_append] at this
              exact this
            | proof =>
              simp only [hph] at h
              have := ih s1 s' g c (p ++ is) g' c' p' h
              rw [encode_append] at this
              exact this

/-- from the empty files -/
theorem writeAll_of_trackAll_init (n : Nat) (cs : List Call) (s s' : PySt) (g c p : List Instr)
    (h : trackAll n s cs ([], [], []) = some (some (s', (g, c, p)))) :
    writeAll n s cs ([], [], []) = some (some (s', (encode g, encode c, encode p))) :=
  writeAll_of_trackAll n cs s s' [] [] [] g c p h

/-! ## the fuel of `trackAll` does not matter -/

theorem trackAll_step (n : Nat) : ∀ (cs : List Call) (s : PySt) (out : List Instr × List Instr × List Instr),
    OLe (trackAll n s cs out) (trackAll (n + 1) s cs out) := by
  intro cs
  induction cs with
  | nil => intro s out; exact OLe.refl _
  | cons k cs ih =>
    intro s out
    obtain ⟨g, c, p⟩ := out
    simp only [trackAll, Option.bind_eq_bind, Option.pure_def]
    apply OLe.bind (emit1_step n s k)
    intro o
    cases o with
    | none => exact OLe.refl _
    | some is =>
      apply OLe.bind (track1_step n s k)
      intro o2
      cases o2 with
      | none => exact OLe.refl _
      | some s1 => exact ih _ _

theorem trackAll_mono {n m : Nat} (h : n ≤ m) (cs : List Call) (s : PySt)
    (out : List Instr × List Instr × List Instr) : OLe (trackAll n s cs out) (trackAll m s cs out) :=
  OLe.of_step (fun n => trackAll n s cs out) (fun n => trackAll_step n cs s out) h

/-- two replays of the same history with different fuel that both return, return the same -/
theorem trackAll_fuel_irrelevant {n m : Nat} {cs : List Call} {s : PySt} {out : List Instr × List Instr × List Instr}
    {r r' : Option (PySt × (List Instr × List Instr × List Instr))}
    (h : trackAll n s cs out = some r) (h' : trackAll m s cs out = some r') : r = r' := by
  have h1 := trackAll_mono (Nat.le_max_left n m) cs s out _ h
  have h2 := trackAll_mono (Nat.le_max_right n m) cs s out _ h'
  rw [h1] at h2
  exact Option.some.inj h2

/-! ## distinct keys -/

open ProofTie in
/-- the dicts of a proof expression of the propositional fragment have distinct keys -/
theorem _root_.Pf.PF.keysNodup : (pf : Pf) → pf.PF = true → KeysNodup pf
  | .prop1, _ => trivial
  | .prop2, _ => trivial
  | .prop3, _ => trivial
  | .quantifier, _ => trivial
  | .loadAxiom _, _ => trivial
  | .gen _ _, h => by simp [Pf.PF] at h
  | .mp l r, h => by
    simp only [Pf.PF, Bool.and_eq_true] at h
    exact ⟨Pf.PF.keysNodup l h.1, Pf.PF.keysNodup r h.2⟩
  | .dynInst p δ, h => by
    simp only [Pf.PF, Bool.and_eq_true, decide_eq_true_eq] at h
    exact ⟨Pf.PF.keysNodup p h.1.1, h.2⟩

/-! ## decidable forms of the hypotheses, for concrete modules -/

open PyI ProofTie Gen.PyProof ComposeTie PFExample

/-- the three streams a history writes are wire byte strings (every id, list length, memory index and symbol
number fits in a byte) -/
def wireCheck (n : Nat) (claims : List NPat) (calls : List Call) : Bool :=
  match trackAll n (PySt.init claims) calls ([], [], []) with
  | some (some (_, (g, c, p))) => decide (Wire (encode g)) && decide (Wire (encode c)) && decide (Wire (encode p))
  | _ => false

theorem wireCheck_sound {n : Nat} {claims : List NPat} {calls : List Call} (h : wireCheck n claims calls = true)
    {n' : Nat} {s : PySt} {g c p : List Instr}
    (hT : trackAll n' (PySt.init claims) calls ([], [], []) = some (some (s, (g, c, p)))) :
    Wire (encode g) ∧ Wire (encode c) ∧ Wire (encode p) := by
  unfold wireCheck at h
  split at h
  · rename_i s0 g0 c0 p0 h0
    have := trackAll_fuel_irrelevant h0 hT
    simp only [Option.some.injEq, Prod.mk.injEq] at this
    obtain ⟨_, rfl, rfl, rfl⟩ := this
    simp only [Bool.and_eq_true, decide_eq_true_eq] at h
    exact ⟨h.1.1, h.1.2, h.2⟩
  · exact absurd h (by simp)

/-- the translated `execute_full` on the translated `StatefulInterpreter` returns for the module `m`, every claim
is discharged, the symbols are named canonically, and the streams are wire byte strings -/
def textCheck (N : Nat) (m : PModule) : Bool :=
  match buildAll (τ := ProofTie.St) N m.axiomsOf m.proofsOf with
  | some (some thunks) =>
    (match ProofExp.execute_full N (expOf thunks (fun _ => []) m) (statefulK N N) (PySt.init m.claimsOf, []) with
     | some (some (s, calls)) => s.claims.isEmpty && canonB [] calls && wireCheck N m.claimsOf calls
     | _ => false)
  | _ => false

theorem textCheck_sound {N : Nat} {m : PModule} (h : textCheck N m = true) :
    ∃ (thunks : List (ProofThunk ProofTie.St)) (s : PySt) (calls : List Call),
      buildAll N m.axiomsOf m.proofsOf = some (some thunks) ∧
      ProofExp.execute_full N (expOf thunks (fun _ => []) m) (statefulK N N) (PySt.init m.claimsOf, [])
        = some (some (s, calls)) ∧
      MM.CanonCalls [] calls ∧ s.claims = [] ∧ wireCheck N m.claimsOf calls = true := by
  unfold textCheck at h
  split at h
  · rename_i thunks hb
    split at h
    · rename_i s calls hx
      simp only [Bool.and_eq_true, List.isEmpty_iff] at h
      exact ⟨thunks, s, calls, hb, hx, canonB_sound calls [] h.1.2, h.1.1, h.2⟩
    · exact absurd h (by simp)
  · exact absurd h (by simp)

/-- the same through the translated `MemoizingInterpreter` with suggestion set `S` -/
def textCheckM (N : Nat) (S : List NPat) (m : PModule) : Bool :=
  match buildAll (τ := TrSt ProofTie.St) N m.axiomsOf m.proofsOf with
  | some (some thunks) =>
    (match ProofExp.execute_full N (expOf thunks (fun _ => []) m) (statefulMemoK N N S)
        (embM (PySt.init m.claimsOf, [])) with
     | some (some τ) => τ.sub.1.claims.isEmpty && canonB [] τ.sub.2 && wireCheck N m.claimsOf τ.sub.2
     | _ => false)
  | _ => false

theorem textCheckM_sound {N : Nat} {S : List NPat} {m : PModule} (h : textCheckM N S m = true) :
    ∃ (thunks : List (ProofThunk (TrSt ProofTie.St))) (τ : TrSt ProofTie.St),
      buildAll N m.axiomsOf m.proofsOf = some (some thunks) ∧
      ProofExp.execute_full N (expOf thunks (fun _ => []) m) (statefulMemoK N N S) (embM (PySt.init m.claimsOf, []))
        = some (some τ) ∧
      MM.CanonCalls [] τ.sub.2 ∧ τ.sub.1.claims = [] ∧ wireCheck N m.claimsOf τ.sub.2 = true := by
  unfold textCheckM at h
  split at h
  · rename_i thunks hb
    split at h
    · rename_i τ hx
      simp only [Bool.and_eq_true, List.isEmpty_iff] at h
      exact ⟨thunks, τ, hb, hx, canonB_sound _ [] h.1.2, h.1.1, h.2⟩
    · exact absurd h (by simp)
  · exact absurd h (by simp)

end EndToEnd
