import Pi2.ModulePF
import Pi2.KModRen
import Pi2.KoreThm
/-!
# Segments: the tracker and the machine run side by side

`Sg n s m cs s' m' is js`: from tracker state `s` and machine state `m`, the calls `cs` (fuel `n`, one phase) take
the tracker to `s'` writing the instructions `is`, which take the machine to `m'` publishing `js`; every call
satisfies the side conditions `SideK` (the machine's checks that the tracker lacks hold, no publish residue is
touched, the keys of an instantiation are distinct).  No relation between `s` and `m` is built in: each lemma
states the frame it needs.
-/
set_option linter.unusedSimpArgs false
set_option linter.unusedVariables false
open Pat PySt

namespace KMod

/-- the side conditions of one call -/
def SideK (s : PySt) (c : Call) : Prop :=
  SideCond s c ∧ touchesResidue s c = false ∧
  (∀ keys, (c = .instantiate keys ∨ c = .instantiatePattern keys) → keys.Nodup)

/-- the side conditions along a history (fuel `n`); the two phase switches ask nothing -/
def AllSideK (n : Nat) : PySt → List Call → Prop
  | _, [] => True
  | s, c :: cs => ((c = .intoClaim ∨ c = .intoProof) ∨ SideK s c) ∧
      ∀ s', track1 n s c = some (some s') → AllSideK n s' cs

inductive Sg (n : Nat) : PySt → St → List Call → PySt → St → List Instr → List Pat → Prop
  | nil (s : PySt) (m : St) : Sg n s m [] s m [] []
  | cons {s s1 s' : PySt} {m m1 m' : St} {c : Call} {cs : List Call} {i : Instr} {is : List Instr}
      {j : Option Pat} {js : List Pat} :
      track1 n s c = some (some s1) → emit1 n s c = some (some [i]) →
      step s.phase m i = some (m1, j) → s1.phase = s.phase → SideK s c →
      Sg n s1 m1 cs s' m' is js → Sg n s m (c :: cs) s' m' (i :: is) (j.toList ++ js)

theorem Sg.single {n : Nat} {s s1 : PySt} {m m1 : St} {c : Call} {i : Instr} {j : Option Pat}
    (ht : track1 n s c = some (some s1)) (he : emit1 n s c = some (some [i]))
    (hs : step s.phase m i = some (m1, j)) (hp : s1.phase = s.phase) (hk : SideK s c) :
    Sg n s m [c] s1 m1 [i] j.toList := by
  have := Sg.cons ht he hs hp hk (Sg.nil (n := n) s1 m1)
  simpa using this

theorem Sg.phase {n : Nat} {s s' : PySt} {m m' : St} {cs : List Call} {is : List Instr} {js : List Pat}
    (h : Sg n s m cs s' m' is js) : s'.phase = s.phase := by
  induction h with
  | nil => rfl
  | cons _ _ _ hp _ _ ih => rw [ih, hp]

theorem Sg.append {n : Nat} {s s1 s2 : PySt} {m m1 m2 : St} {cs1 cs2 : List Call} {is1 is2 : List Instr}
    {js1 js2 : List Pat} (h1 : Sg n s m cs1 s1 m1 is1 js1) (h2 : Sg n s1 m1 cs2 s2 m2 is2 js2) :
    Sg n s m (cs1 ++ cs2) s2 m2 (is1 ++ is2) (js1 ++ js2) := by
  induction h1 with
  | nil => simpa using h2
  | cons ht he hs hp hk _ ih =>
    have := Sg.cons ht he hs hp hk (ih h2)
    simpa [List.append_assoc] using this

theorem trackAll_cons_eq {n : Nat} {s s1 : PySt} {c : Call} {is : List Instr} (cs : List Call)
    (out : List Instr × List Instr × List Instr)
    (he : emit1 n s c = some (some is)) (ht : track1 n s c = some (some s1)) :
    trackAll n s (c :: cs) out = trackAll n s1 cs (addOut s.phase out is) := by
  obtain ⟨g, cl, pf⟩ := out
  simp only [trackAll, he, ht, Option.bind_eq_bind, Option.bind_some]
  cases s.phase <;> rfl

theorem Sg.trackAll {n : Nat} {s s' : PySt} {m m' : St} {cs : List Call} {is : List Instr} {js : List Pat}
    (h : Sg n s m cs s' m' is js) :
    ∀ out, PySt.trackAll n s cs out = some (some (s', addOut s.phase out is)) := by
  induction h with
  | nil s m => intro out; simp [PySt.trackAll, addOut_nil]
  | cons ht he hs hp hk _ ih =>
    intro out
    rw [trackAll_cons_eq _ out he ht, ih, hp, addOut_addOut]
    rfl

theorem Sg.run {n : Nat} {s s' : PySt} {m m' : St} {cs : List Call} {is : List Instr} {js : List Pat}
    (h : Sg n s m cs s' m' is js) : _root_.run s.phase m is = some (m', js) := by
  induction h with
  | nil s m => simp [_root_.run]
  | cons ht he hs hp hk _ ih =>
    rw [hp] at ih
    simp [_root_.run, hs, ih]

theorem Sg.reach {n : Nat} {s s' : PySt} {m m' : St} {cs : List Call} {is : List Instr} {js : List Pat}
    (h : Sg n s m cs s' m' is js) : Reach n s cs s' := by
  induction h with
  | nil => rfl
  | cons ht _ _ _ _ _ ih => exact ⟨_, ht, ih⟩

theorem Sg.side {n : Nat} {s s' : PySt} {m m' : St} {cs : List Call} {is : List Instr} {js : List Pat}
    (h : Sg n s m cs s' m' is js) : AllSideK n s cs := by
  induction h with
  | nil => trivial
  | cons ht _ _ _ hk _ ih =>
    refine ⟨Or.inr hk, ?_⟩
    intro s2 h2
    rw [ht] at h2
    cases h2
    exact ih

theorem allSideK_append (n : Nat) (cs1 cs2 : List Call) (s s1 : PySt)
    (h1 : AllSideK n s cs1) (hr : Reach n s cs1 s1) (h2 : AllSideK n s1 cs2) :
    AllSideK n s (cs1 ++ cs2) := by
  induction cs1 generalizing s with
  | nil => simp only [Reach] at hr; subst hr; exact h2
  | cons c cs ih =>
    obtain ⟨t, ht, hr⟩ := hr
    obtain ⟨a, b⟩ := h1
    refine ⟨a, ?_⟩
    intro s' hs'
    rw [ht] at hs'
    cases hs'
    exact ih t (b t ht) hr

/-! ## symbol tables -/

/-- `ρ` names every symbol of the table by its position -/
def Agree (ρ : Nat → Nat) (tab : List Nat) : Prop := ∀ nm ∈ tab, ρ nm = tab.idxOf nm

theorem Agree.prefix {ρ : Nat → Nat} {tab e : List Nat} (h : Agree ρ (tab ++ e)) : Agree ρ tab := by
  intro nm hnm
  rw [h nm (List.mem_append_left _ hnm), Kore.idxOf_append_of_mem hnm]

theorem agree_idxOf (tab : List Nat) : Agree (fun nm => tab.idxOf nm) tab := fun _ _ => rfl

/-- the number the serializer writes for a symbol is its `ρ`-name, for every `ρ` that agrees with the table
after the call -/
theorem symId_agree {ρ : Nat → Nat} (tab : List Nat) (nm : Nat)
    (h : Agree ρ (if tab.contains nm then tab else tab ++ [nm])) : symId tab nm = ρ nm := by
  by_cases hm : nm ∈ tab
  · have hc : tab.contains nm = true := by simpa using hm
    rw [hc, if_pos rfl] at h
    rw [h nm hm]
    simp [symId, Kore.idxOf?_of_mem hm]
  · have hc : tab.contains nm = false := by simpa using hm
    rw [hc] at h
    simp only [Bool.false_eq_true, if_false] at h
    rw [h nm (by simp)]
    simp only [symId, Kore.idxOf?_of_not_mem hm]
    rw [List.idxOf_append, if_neg hm]
    simp

end KMod
