import Pi2.MM.ConvInit
/-!
# The queries of `translate.py` on the final state of the converter
-/
set_option linter.unusedSimpArgs false
set_option linter.unusedVariables false
open MM SliceSup ConvSup Gen.MMConv

namespace ConvTie

theorem eq_of_nodup_map {α β : Type} (f : α → β) : ∀ (l : List α), (l.map f).Nodup → ∀ a ∈ l, ∀ b ∈ l, f a = f b → a = b := by
  intro l
  induction l with
  | nil => intro _ a ha; simp at ha
  | cons x l ih =>
    intro hnd a ha b hb hab
    simp only [List.map_cons, List.nodup_cons, List.mem_map, not_exists, not_and] at hnd
    simp only [List.mem_cons] at ha hb
    rcases ha with rfl | ha <;> rcases hb with rfl | hb
    · rfl
    · exact absurd hab.symm (hnd.1 b hb)
    · exact absurd hab (hnd.1 a ha)
    · exact ih hnd.2 a ha b hb hab

theorem axList_lookup (σ : String → Nat) (fs : List String) : ∀ (A : PyDict (List AxiomObj)) (sts : List MStmt), AxList σ fs A sts →
    (sts.map axLabel).Nodup → ∀ st ∈ sts, ∀ pl eh l tcs t, axParts st = some (pl, eh, l, tcs, t) →
      ∃ a, A.lookup l = some [a] ∧ AxEntry σ fs l (eh.map (·.2)) t a := by
  intro A
  induction A with
  | nil => intro sts h _ st hst; cases sts with
    | nil => simp at hst
    | cons _ _ => exact absurd h (by simp [AxList])
  | cons p A ih =>
    intro sts h hnd st hst pl eh l tcs t hparts
    obtain ⟨l0, as⟩ := p
    cases sts with
    | nil => exact absurd h (by simp [AxList])
    | cons st0 sts =>
      obtain ⟨⟨pl0, eh0, tcs0, t0, a0, hp0, has, hentry⟩, hrest⟩ := h
      simp only [List.map_cons, List.nodup_cons] at hnd
      simp only [List.mem_cons] at hst
      rcases hst with rfl | hst
      · rw [hp0] at hparts
        simp only [Option.some.injEq, Prod.mk.injEq] at hparts
        obtain ⟨rfl, rfl, rfl, rfl, rfl⟩ := hparts
        exact ⟨a0, by simp [List.lookup, has], hentry⟩
      · have hne : l ≠ l0 := by
          intro e
          apply hnd.1
          have h1 : axLabel st0 = l0 := by simp [axLabel, hp0]
          have h2 : axLabel st = l := by simp [axLabel, hparts]
          rw [h1, ← e, ← h2]
          exact List.mem_map.mpr ⟨st, hst, rfl⟩
        obtain ⟨a, ha, hae⟩ := ih sts hrest hnd.2 st hst pl eh l tcs t hparts
        refine ⟨a, ?_, hae⟩
        have : (l == l0) = false := by simp [hne]
        simp only [List.lookup, this]
        exact ha

/-- the label-related conditions: labels of `$f` statements and of axioms are pairwise different -/
structure LabelsOK (mdb : MDb) : Prop where
  disjoint : ∀ l ∈ (floatPairs mdb).map (·.1), l ∉ (mdb.filter isAxItem).map axLabel

section
variable {σ : String → Nat} {fuel : Nat} {mdb : MDb} {target : String} {t : MTerm} {prf : List String} {pf : Gen.ImportProof.Proof}
  {c : ConvObj}

theorem headLabel_eq_axLabel {st : MStmt} {pl : Bool} {eh : List (String × MTerm)} {l tcs : String} {t : MTerm}
    (h : axParts st = some (pl, eh, l, tcs, t)) : headLabel st = l ∧ axLabel st = l := by
  refine ⟨by simp [headLabel, (axParts_head h).1], by simp [axLabel, h]⟩

/-- membership of a label of an axiom in a filtered list of items: decided by the item itself (labels are unique) -/
theorem mem_filtered_labels (hF : FragM mdb fuel target t prf) (p : MStmt → Bool) (st : MStmt) (hst : st ∈ mdb.filter isAxItem)
    {pl : Bool} {eh : List (String × MTerm)} {l tcs : String} {t' : MTerm} (hparts : axParts st = some (pl, eh, l, tcs, t')) :
    l ∈ ((mdb.filter isAxItem).filter p).map headLabel ↔ p st = true := by
  constructor
  · intro h
    obtain ⟨st', hst', hl'⟩ := List.mem_map.mp h
    simp only [List.mem_filter] at hst'
    obtain ⟨pl', eh', l', tcs', t'', hparts', _⟩ := hF.axioms st' (by simpa [List.mem_filter] using hst'.1)
    have e1 := (headLabel_eq_axLabel hparts').1
    have hll : l' = l := by rw [← e1, hl']
    subst hll
    -- same label, so the same item
    have : st' = st := by
      have hnd := hF.axLabels
      have h1 : axLabel st' = l' := (headLabel_eq_axLabel hparts').2
      have h2 : axLabel st = l' := (headLabel_eq_axLabel hparts).2
      exact eq_of_nodup_map axLabel _ hnd st' (by simpa [List.mem_filter] using hst'.1) st hst (h1.trans h2.symm)
    rw [← this]; exact hst'.2
  · intro h
    exact List.mem_map.mpr ⟨st, List.mem_filter.mpr ⟨hst, h⟩, (headLabel_eq_axLabel hparts).1⟩

theorem q_is_pattern_constructor (hF : FragM mdb fuel target t prf) (hfin : Final σ mdb target t pf c) (st : MStmt)
    (hst : st ∈ mdb.filter isAxItem) {pl : Bool} {eh : List (String × MTerm)} {l tcs : String} {t' : MTerm}
    (hparts : axParts st = some (pl, eh, l, tcs, t')) :
    is_pattern_constructor σ fuel c l = (tcs == "#Pattern") := by
  have h := (hfin.pcs l).trans (mem_filtered_labels hF isPcItem st hst hparts)
  have hp : isPcItem st = (tcs == "#Pattern") := by simp [isPcItem, (axParts_head hparts).1]
  rw [hp] at h
  simp only [is_pattern_constructor]
  cases hb : (tcs == "#Pattern")
  · rw [hb] at h; simpa using h
  · rw [hb] at h; simpa using h

theorem q_is_proof_rule (hF : FragM mdb fuel target t prf) (hfin : Final σ mdb target t pf c) (st : MStmt)
    (hst : st ∈ mdb.filter isAxItem) {pl : Bool} {eh : List (String × MTerm)} {l tcs : String} {t' : MTerm}
    (hparts : axParts st = some (pl, eh, l, tcs, t')) :
    is_proof_rule σ fuel c l = (tcs != "#Pattern" && strStartsWith l "proof-rule-") := by
  have h := (hfin.prs l).trans (mem_filtered_labels hF isPrItem st hst hparts)
  have hp : isPrItem st = (tcs != "#Pattern" && strStartsWith l "proof-rule-") := by simp [isPrItem, (axParts_head hparts).1]
  rw [hp] at h
  simp only [is_proof_rule]
  cases hb : (tcs != "#Pattern" && strStartsWith l "proof-rule-")
  · rw [hb] at h; simpa using h
  · rw [hb] at h; simpa using h

theorem q_get_axiom (hF : FragM mdb fuel target t prf) (hfin : Final σ mdb target t pf c) (st : MStmt)
    (hst : st ∈ mdb.filter isAxItem) {pl : Bool} {eh : List (String × MTerm)} {l tcs : String} {t' : MTerm}
    (hparts : axParts st = some (pl, eh, l, tcs, t')) :
    ∃ a, get_axiom_by_name σ fuel c l = .ok a ∧ AxEntry σ ((floatPairs mdb).map (·.2)) l (eh.map (·.2)) t' a ∧
      get_metavars_in_order σ fuel c l = .ok (((floatPairs mdb).map (·.2)).filter fun v => (termsMvs (eh.map (·.2) ++ [t'])).contains v) ∧
      is_axiom σ fuel c l = true := by
  obtain ⟨a, hlk, hentry⟩ := axList_lookup σ _ c._axioms _ hfin.axioms hF.axLabels st hst pl eh l tcs t' hparts
  have hhas : dictHas c._axioms l = true := by simp [dictHas, hlk]
  refine ⟨a, ?_, hentry, ?_, by simp [is_axiom, hhas]⟩
  · simp [get_axiom_by_name, is_axiom, hhas, dictGet, ofOption, hlk, bind, Res.bind, pure]
  · simp only [get_metavars_in_order, get_metavars, hhas, if_true, dictGet, ofOption, hlk, listGet_zero, ConvSup.pyAssert, bind, Res.bind,
      pure, hfin.floats]
    congr 1
    apply List.filter_congr
    intro v _
    have := hentry.metavars v
    by_cases hv : v ∈ termsMvs (eh.map (·.2) ++ [t'])
    · simp [hv, (mem_setOf _ _).mpr (this.mpr hv)]
    · have : v ∉ setOf a.metavars := fun h => hv (this.mp ((mem_setOf _ _).mp h))
      simp [hv, this]

theorem q_floating (hF : FragM mdb fuel target t prf) (hfin : Final σ mdb target t pf c) (hL : LabelsOK mdb)
    (l v : String) (hlv : (l, v) ∈ floatPairs mdb) :
    c._fp_label_to_pattern.lookup l = some [mkMetaVar (((floatPairs mdb).map (·.2)).idxOf v)] ∧
    resolve_metavar σ fuel c v = .ok (mkMetaVar (((floatPairs mdb).map (·.2)).idxOf v)) ∧
    is_pattern_constructor σ fuel c l = false := by
  have hnd : ((floatPairs mdb).map (·.1)).Nodup := hF.floatLabels
  have hvnd : ((floatPairs mdb).map (·.2)).Nodup := hfin.scope.nodup
  refine ⟨?_, ?_, ?_⟩
  · rw [hfin.fps]
    -- position of the pair = position of its variable (both lists are without repetition)
    have key : ∀ (ps : List (String × String)) (k : Nat), (ps.map (·.1)).Nodup → (ps.map (·.2)).Nodup → (l, v) ∈ ps →
        ((ps.zipIdx k).map fun p => (p.1.1, [mkMetaVar p.2])).lookup l = some [mkMetaVar (k + (ps.map (·.2)).idxOf v)] := by
      intro ps
      induction ps with
      | nil => intro k _ _ h; simp at h
      | cons q ps ih =>
        intro k h1 h2 hm
        obtain ⟨l0, v0⟩ := q
        simp only [List.map_cons, List.nodup_cons] at h1 h2
        simp only [List.zipIdx_cons, List.map_cons, List.lookup]
        simp only [List.mem_cons, Prod.mk.injEq] at hm
        rcases hm with ⟨rfl, rfl⟩ | hm
        · simp
        · have hl : l ≠ l0 := fun e => h1.1 (e ▸ List.mem_map.mpr ⟨(l, v), hm, rfl⟩)
          have hv : v0 ≠ v := fun e => h2.1 (e ▸ List.mem_map.mpr ⟨(l, v), hm, rfl⟩)
          have hb : (l == l0) = false := by simp [hl]
          have hb2 : (v0 == v) = false := by simp [hv]
          simp only [hb, List.idxOf_cons, hb2, cond_false]
          rw [ih (k + 1) h1.2 h2.2 hm]
          congr 3
          omega
    have := key (floatPairs mdb) 0 hnd hvnd hlv
    simpa [fpOf] using this
  · have hvin : v ∈ (floatPairs mdb).map (·.2) := List.mem_map.mpr ⟨(l, v), hlv, rfl⟩
    have hlk := mvData_lookup _ v hvin
    have hmv := hfin.scope.mv
    simp [resolve_metavar, Scope_is_metavar, vdHas, dictHas, hmv, hlk, Scope_resolve, vdGet, dictGet, ofOption, ConvSup.pyAssert,
      isinstanceTy, typeOf, mkMetaVar, bind, Res.bind, pure]
  · simp only [is_pattern_constructor]
    have : l ∉ c._pattern_constructors := by
      intro h
      obtain ⟨st', hst', hl'⟩ := List.mem_map.mp ((hfin.pcs l).mp h)
      simp only [List.mem_filter] at hst'
      obtain ⟨pl', eh', l', tcs', t'', hparts', _⟩ := hF.axioms st' (by simpa [List.mem_filter] using hst'.1)
      obtain ⟨e1, e2⟩ := headLabel_eq_axLabel hparts'
      apply hL.disjoint l (List.mem_map.mpr ⟨(l, v), hlv, rfl⟩)
      exact List.mem_map.mpr ⟨st', by simpa [List.mem_filter] using hst'.1, by rw [e2, ← e1, hl']⟩
    simpa using this

theorem q_lemma (hfin : Final σ mdb target t pf c) :
    ∃ a, get_lemma_by_name σ fuel c target = .ok a ∧ a.pattern = patOf σ (valOf ((floatPairs mdb).map (·.2))) t ∧ a.proof? = some pf ∧
      lemmas σ fuel c = [target] := by
  obtain ⟨a, hl, haof, hpf⟩ := hfin.lemmas
  refine ⟨a, ?_, haof.pattern, hpf, by simp [lemmas, dictKeys, hl]⟩
  simp [get_lemma_by_name, is_lemma, dictHas, hl, List.lookup, dictGet, ofOption, ConvSup.pyAssert, bind, Res.bind, pure]

theorem q_exported (hF : FragM mdb fuel target t prf) (hfin : Final σ mdb target t pf c) :
    exported_axioms σ fuel c = ((mdb.filter isAxItem).filter fun st => !isPcItem st && !isPrItem st).map axLabel := by
  have hkeys := axList_keys σ _ c._axioms _ hfin.axioms
  simp only [exported_axioms, axioms, dictKeys, hkeys, List.filter_map]
  congr 1
  apply List.filter_congr
  intro st hst
  obtain ⟨pl, eh, l, tcs, t', hparts, _⟩ := hF.axioms st hst
  obtain ⟨a, _, _, _, hisax⟩ := q_get_axiom hF hfin st hst hparts
  have hlab := (headLabel_eq_axLabel hparts).2
  simp only [Function.comp, is_exported_axiom, hlab, hisax, q_is_pattern_constructor hF hfin st hst hparts,
    q_is_proof_rule hF hfin st hst hparts, Bool.true_and]
  simp [isPcItem, isPrItem, (axParts_head hparts).1]

end

end ConvTie
