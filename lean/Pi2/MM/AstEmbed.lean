import Pi2.Gen.MMAst
/-!
# The model's Metamath AST (`Pi2/MM/Ast.lean`) inside the AST generated from the dataclasses of ast.py (`Pi2/Gen/MMAst.lean`)

Used by `Pi2/MM/AstTie.lean` (the tie proofs) and by the driver (`mmtext`: the text of the translated `Encoder` through the
`Printer` model, compared with the real `Encoder.encode_string` by `vlib/props/c17.py`).
-/
namespace AstTie
open MM MMAstSup Gen.MMAst

/-! ## the model's AST inside the generated AST

`.var` / `.disj` hold the NAMES of the `Metavariable` objects, `.float l tc v` stands for the terms
`(Application(tc), Metavariable(v))`, and the proof TOKENS `pf` of a `$p` stand for the proof STRING `' '.join(pf)` the parser
stores (conversely `pf` is that string split at the ignored characters: `proof_string_tokens` below). -/
mutual
def ofStmt : MStmt → Stmt
  | .const cs => .ConstantStatement cs
  | .var vs => .VariableStatement (vs.map MTerm.mv)
  | .disj vs => .DisjointStatement (vs.map MTerm.mv)
  | .float l tc v => .FloatingStatement l [MTerm.app tc [], MTerm.mv v]
  | .ess l ts => .EssentialStatement l ts
  | .ax l ts => .AxiomaticStatement l ts
  | .prov l ts pf => .ProvableStatement l ts (some (pyJoin " " pf))
  | .block ss => .Block (ofStmts ss)
def ofStmts : List MStmt → List Stmt
  | [] => []
  | s :: ss => ofStmt s :: ofStmts ss
end
def ofDb (db : MDb) : Database := ⟨ofStmts db⟩


/-- the text of `Encoder.encode_string(db)` (default `tab`, `omit_proof=False`) according to the translated `Encoder` and the
`Printer` model -/
def textOf (db : MDb) : Option String :=
  (printerText Encoder.new.tab (encode Encoder.new (ofDb db))).map String.ofList

end AstTie
