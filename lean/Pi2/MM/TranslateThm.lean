import Pi2.MM.Translate
import Pi2.ModuleThm
import Pi2.MM.Succeeds
import Pi2.MM.Accept
/-!
# The Metamath translator (`exec_proof` + `execute_full`) against the Metamath verifier and the checker

* `MM.translate_succeeds` (T1): a compressed proof accepted by `mmVerify` over a well-formed database is
  translated (for enough fuel, any memoisation configuration); the translation proves its claim.
  Proof: `MM.Inv` (`Pi2/MM/Sim.lean`) relates the verifier's stack/heap to the tracker's stack and
  `mm_memory`, elementwise up to notation, on the simple fragment `NPat.F0`; one lemma per label
  (`sim_imp`, `sim_ctor`, `sim_rule`, `sim_p1`, `sim_p2`, `sim_mp`, …); `image_subst`: the converter's
  image commutes with substitution.
* `MM.translate_accepted` (T2): the checker accepts the serialised translation and publishes exactly
  the images of the database's axioms and of the goal.  The side conditions (`AllSideM`) that
  `module_accepted` assumes are *derived* here (`MM.translate_side`) from `db.wf` and `CanonCalls`.
  `MM.translate_trackAll`: the replay hypothesis `hT` is derivable from `hex`.
* `MM.translate_layout_independent` (T3): two translations of proofs of the same goal publish the same
  journal.
-/
open Pat PySt NPat

namespace MM

/-- T1 (translation succeeds; the tracker's stack simulates the Metamath stack). -/
theorem translate_succeeds (cfg : PySt.Cfg) (db : DB) (goal : Term) (labels : List Lbl)
    (steps : List Nat) (hwf : db.wf = true) (hv : mmVerify db goal labels steps = true) :
    ∃ n s calls, translateFull cfg n db goal labels steps = some (some (s, calls)) ∧ s.claims = [] :=
  translate_succeeds_core cfg db goal labels steps hwf hv

/-- T2 (the checker accepts the translation; the journal is the structural image). -/
theorem translate_accepted (cfg : PySt.Cfg) (n : Nat) (db : DB) (goal : Term) (labels : List Lbl)
    (steps : List Nat) (s : PySt) (calls : List Call) (g c p : List Instr)
    (hwf : db.wf = true)
    (hex : translateFull cfg n db goal labels steps = some (some (s, calls)))
    (hT : PySt.trackAll n (PySt.init [image db goal]) calls ([], [], []) = some (some (s, (g, c, p))))
    (hcanon : CanonCalls [] calls) (hfin : s.claims = []) :
    verify g c p = some (db.axiomImages.map NPat.expand, [(image db goal).expand]) :=
  translate_accepted_core cfg n db goal labels steps s calls g c p hwf hex hT hcanon hfin

/-- T2 without the replay hypothesis: the calls collected by the translator are accepted by the
serializer (`translate_trackAll`), and the streams it writes are accepted by the checker. -/
theorem translate_accepted' (cfg : PySt.Cfg) (n : Nat) (db : DB) (goal : Term) (labels : List Lbl)
    (steps : List Nat) (s : PySt) (calls : List Call)
    (hwf : db.wf = true)
    (hex : translateFull cfg n db goal labels steps = some (some (s, calls)))
    (hcanon : CanonCalls [] calls) (hfin : s.claims = []) :
    ∃ g c p,
      PySt.trackAll n (PySt.init [image db goal]) calls ([], [], []) = some (some (s, (g, c, p))) ∧
      verify g c p = some (db.axiomImages.map NPat.expand, [(image db goal).expand]) := by
  obtain ⟨g, c, p, hT⟩ := translate_trackAll cfg n db goal labels steps s calls hwf hex
  exact ⟨g, c, p, hT, translate_accepted cfg n db goal labels steps s calls g c p hwf hex hT hcanon hfin⟩

/-- T1 + T2: a verifying Metamath proof yields streams that the checker accepts (given canonical
symbol names), publishing the image of the database and of the goal. -/
theorem translate_verifies (cfg : PySt.Cfg) (db : DB) (goal : Term) (labels : List Lbl)
    (steps : List Nat) (hwf : db.wf = true) (hv : mmVerify db goal labels steps = true) :
    ∃ n s calls g c p,
      translateFull cfg n db goal labels steps = some (some (s, calls)) ∧
      PySt.trackAll n (PySt.init [image db goal]) calls ([], [], []) = some (some (s, (g, c, p))) ∧
      (CanonCalls [] calls →
        verify g c p = some (db.axiomImages.map NPat.expand, [(image db goal).expand])) := by
  obtain ⟨n, s, calls, hex, hfin⟩ := translate_succeeds cfg db goal labels steps hwf hv
  obtain ⟨g, c, p, hT⟩ := translate_trackAll cfg n db goal labels steps s calls hwf hex
  exact ⟨n, s, calls, g, c, p, hex, hT, fun hcanon =>
    translate_accepted cfg n db goal labels steps s calls g c p hwf hex hT hcanon hfin⟩

/-- T3 (layout independence): two translations — of any two compressed proofs of the same goal over the
same database, with any fuel and memoisation configuration — are accepted with the same journal. -/
theorem translate_layout_independent (cfg₁ cfg₂ : PySt.Cfg) (n₁ n₂ : Nat) (db : DB) (goal : Term)
    (labels₁ labels₂ : List Lbl) (steps₁ steps₂ : List Nat)
    (s₁ s₂ : PySt) (calls₁ calls₂ : List Call) (g₁ c₁ p₁ g₂ c₂ p₂ : List Instr)
    (hwf : db.wf = true)
    (hex₁ : translateFull cfg₁ n₁ db goal labels₁ steps₁ = some (some (s₁, calls₁)))
    (hT₁ : PySt.trackAll n₁ (PySt.init [image db goal]) calls₁ ([], [], [])
      = some (some (s₁, (g₁, c₁, p₁))))
    (hcanon₁ : CanonCalls [] calls₁) (hfin₁ : s₁.claims = [])
    (hex₂ : translateFull cfg₂ n₂ db goal labels₂ steps₂ = some (some (s₂, calls₂)))
    (hT₂ : PySt.trackAll n₂ (PySt.init [image db goal]) calls₂ ([], [], [])
      = some (some (s₂, (g₂, c₂, p₂))))
    (hcanon₂ : CanonCalls [] calls₂) (hfin₂ : s₂.claims = []) :
    verify g₁ c₁ p₁ = verify g₂ c₂ p₂ ∧
      verify g₁ c₁ p₁ = some (db.axiomImages.map NPat.expand, [(image db goal).expand]) := by
  have h1 := translate_accepted cfg₁ n₁ db goal labels₁ steps₁ s₁ calls₁ g₁ c₁ p₁ hwf hex₁ hT₁ hcanon₁ hfin₁
  have h2 := translate_accepted cfg₂ n₂ db goal labels₂ steps₂ s₂ calls₂ g₂ c₂ p₂ hwf hex₂ hT₂ hcanon₂ hfin₂
  exact ⟨h1.trans h2.symm, h1⟩

/-! ## non-vacuity: a concrete database and two compressed proofs of the same goal -/

/-- floats `0 1 2`; a binary constructor and a constant; one axiom with two essential hypotheses
(`|- x`, `|- ( \imp x y )` ⊢ `|- y`); the three proof rules -/
def exDB : DB :=
  { floats := [0, 1, 2], impArgs := (0, 1), appArgs := (0, 1), ctors := [{ sym := 7, args := [0, 1] }, { sym := 3, args := [] }],
    rules := [⟨[.var 0, .imp (.var 0) (.var 1)], .var 1⟩], p1 := (0, 1), p2 := (0, 1, 2), mp := (0, 1) }

/-- `( \imp x ( \imp y x ) )` -/
def exA : Term := .imp (.var 0) (.imp (.var 1) (.var 0))
/-- `( \imp z ( \imp x ( \imp y x ) ) )` -/
def exB : Term := .imp (.var 2) exA

def exLabels : List Lbl := [.float 0, .float 1, .float 2, .impC, .p1, .rule 0, .mp]
/-- builds `#Pattern A`, `#Pattern B` (with `Z` marks and reuse), proves `|- A` and `|- ( \imp A B )` by
`proof-rule-prop-1`, and closes with the database's axiom -/
def exSteps₁ : List Nat := [1, 2, 1, 4, 4, 0, 3, 8, 4, 0, 1, 2, 5, 8, 3, 5, 6]
/-- the same, closing with `proof-rule-mp` -/
def exSteps₂ : List Nat := [1, 2, 1, 4, 4, 0, 3, 8, 4, 0, 8, 3, 5, 1, 2, 5, 7]

example : exDB.wf = true := by decide
example : mmVerify exDB exB exLabels exSteps₁ = true := by decide
example : mmVerify exDB exB exLabels exSteps₂ = true := by decide
/-- a prop-1 instance with a saved and reused pattern -/
example : mmVerify exDB (.imp (.imp (.var 0) (.var 1)) (.imp (.imp (.var 0) (.var 1)) (.imp (.var 0) (.var 1))))
    [.float 0, .float 1, .impC, .p1] [1, 2, 3, 0, 5, 4] = true := by decide

/-- the hypotheses of T1 are met by the example, so its conclusion holds for it -/
example : ∃ n s calls, translateFull {} n exDB exB exLabels exSteps₁ = some (some (s, calls)) ∧
    s.claims = [] :=
  translate_succeeds {} exDB exB exLabels exSteps₁ (by decide) (by decide)

end MM

#print axioms MM.translate_succeeds
#print axioms MM.translate_accepted
#print axioms MM.translate_accepted'
#print axioms MM.translate_verifies
#print axioms MM.translate_layout_independent
#print axioms MM.translate_trackAll
#print axioms MM.translate_side
