import Pi2.MM.ConvAxiom
/-!
# `_import_axiom` / `_import_lemma` on the statements of the fragment, and the second sweep of `_top_down`
-/
set_option linter.unusedSimpArgs false
set_option linter.unusedVariables false
open MM SliceSup ConvSup Gen.MMConv

namespace ConvTie

/-- `label $e |- h` -/
def mkEss (p : String × MTerm) : MStmt := .ess p.1 [.app "|-" [], p.2]

/-- the conditions on a term of a statement -/
structure TermOK (K fs : List String) (fuel : Nat) (t : MTerm) : Prop where
  fuel : tsize t < fuel
  wf : wfT K t = true
  vars : ∀ v ∈ termMvs t, v ∈ fs

/-! ## the essential hypotheses of a block -/
theorem convert_metaconditions_ok (σ : String → Nat) (fuel : Nat) (c : ConvObj) (scope : ScopeObj) (es : List MStmt)
    (hes : ∀ e ∈ es, essOK e = true) : _convert_metaconditions σ fuel c scope es = .ok c := by
  unfold _convert_metaconditions
  simp only [bind_pure]
  rw [forM'_foldl (fun c _ => c) (fun _ rest => ∀ e ∈ rest, essOK e = true) _ _ es c hes]
  · clear hes
    induction es generalizing c with
    | nil => rfl
    | cons _ _ ih => exact ih c
  · intro s x rest h
    have hx := h x (by simp)
    have hess : isEssential x = true := by
      cases x <;> simp [essOK] at hx <;> rfl
    refine ⟨?_, fun e he => h e (by simp [he])⟩
    simp [hess, check_axiom_ess σ fuel s scope x hx, bind, Res.bind, pure]

/-- one antecedent: the converter after it, and its `Axiom` object -/
noncomputable def antG (σ : String → Nat) (fuel : Nat) (scope : ScopeObj) (s : ConvObj × List AxiomObj) (st : MStmt) :
    ConvObj × List AxiomObj :=
  match _convert_axiom_for_scope σ fuel s.1 scope st with
  | .ok (c', a) => (c', s.2 ++ [a])
  | _ => s

theorem convert_antecedents_ok (σ : String → Nat) (fuel : Nat) (scope : ScopeObj) (fs : List String) (hsc : GoodScope scope fs) :
    ∀ (eh : List (String × MTerm)) (c : ConvObj) (S : List String) (acc : List AxiomObj),
      SymState σ c S → (∀ p ∈ eh, TermOK c._declared_constants fs fuel p.2) →
      (∀ x ∈ fs, x ∉ c._declared_constants) → (∀ s ∈ S, s ∈ c._declared_constants) →
      ∃ as, (eh.map mkEss).foldl (antG σ fuel scope) (c, acc) =
          (withSyms σ c (setUnion S (symsOfL (eh.map (·.2)))), acc ++ as) ∧
        as.length = eh.length ∧ as.map (·.pattern) = (eh.map (·.2)).map (patOf σ (valOf fs)) ∧
        ∀ v, (∃ a ∈ as, v ∈ a.metavars) ↔ v ∈ termsMvs (eh.map (·.2)) := by
  intro eh
  induction eh with
  | nil =>
    intro c S acc hS _ _ _
    exact ⟨[], by simp [symsOfL, setUnion, withSyms_self σ c S hS], rfl, rfl, by intro v; simp [termsMvs]⟩
  | cons p eh ih =>
    intro c S acc hS hts hdis hSK
    obtain ⟨l, h⟩ := p
    have ht := hts (l, h) (by simp)
    obtain ⟨a, ha, haof, _, _⟩ := convert_axiom_ok σ fuel c S scope fs (mkEss (l, h)) (.app "|-" []) h rfl rfl ht.fuel hS hsc ht.wf
      ht.vars hdis hSK
    have hS'K : ∀ s ∈ setUnion S (symsOf h), s ∈ c._declared_constants := by
      intro s hs
      rcases (mem_setUnion _ _ _).mp hs with h' | h'
      · exact hSK s h'
      · exact symsOf_subset _ (tsize h) h (Nat.le_refl _) ht.wf s h'
    obtain ⟨as, has, hlen, hpat, hmv⟩ := ih (withSyms σ c (setUnion S (symsOf h))) (setUnion S (symsOf h)) (acc ++ [a])
      (symState_withSyms σ c _) (fun p hp => hts p (by simp [hp])) hdis hS'K
    refine ⟨a :: as, ?_, by simp [hlen], by simp [hpat, haof.pattern], ?_⟩
    · simp only [List.map_cons, List.foldl_cons, antG, ha]
      rw [has]
      simp [withSyms_withSyms, symsOfL, setUnion_append]
    · intro v
      simp only [List.mem_cons, exists_eq_or_imp, List.map_cons, termsMvs, List.mem_append, haof.metavars v, hmv v]

theorem convert_antecedents_eq (σ : String → Nat) (fuel : Nat) (scope : ScopeObj) (fs : List String) (hsc : GoodScope scope fs)
    (eh : List (String × MTerm)) (c : ConvObj) (S : List String)
    (hS : SymState σ c S) (hts : ∀ p ∈ eh, TermOK c._declared_constants fs fuel p.2)
    (hdis : ∀ x ∈ fs, x ∉ c._declared_constants) (hSK : ∀ s ∈ S, s ∈ c._declared_constants) :
    _convert_antecedents σ fuel c scope (eh.map mkEss) = .ok ((eh.map mkEss).foldl (antG σ fuel scope) (c, [])) := by
  unfold _convert_antecedents
  simp only [bind_pure]
  let I : ConvObj × List AxiomObj → List MStmt → Prop := fun s rest =>
    ∃ (eh' : List (String × MTerm)) (S' : List String), rest = eh'.map mkEss ∧ SymState σ s.1 S' ∧
      s.1._declared_constants = c._declared_constants ∧ (∀ p ∈ eh', TermOK c._declared_constants fs fuel p.2) ∧
      (∀ s ∈ S', s ∈ c._declared_constants)
  rw [forM'_foldl (antG σ fuel scope) I _ _ (eh.map mkEss) (c, []) ⟨eh, S, rfl, hS, rfl, hts, hSK⟩]
  · cases (eh.map mkEss).foldl (antG σ fuel scope) (c, []); rfl
  · intro s x rest ⟨eh', S', hrest, hS', hK, hts', hSK'⟩
    cases eh' with
    | nil => simp at hrest
    | cons p eh' =>
      obtain ⟨l, h⟩ := p
      simp only [List.map_cons, List.cons.injEq] at hrest
      obtain ⟨rfl, rfl⟩ := hrest
      have ht := hts' (l, h) (by simp)
      obtain ⟨a, ha, _, _, _⟩ := convert_axiom_ok σ fuel s.1 S' scope fs (mkEss (l, h)) (.app "|-" []) h rfl rfl ht.fuel hS' hsc
        (by rw [hK]; exact ht.wf) ht.vars (by rw [hK]; exact hdis) (by rw [hK]; exact hSK')
      refine ⟨?_, eh', setUnion S' (symsOf h), rfl, ?_, ?_, fun p hp => hts' p (by simp [hp]), ?_⟩
      · simp [check_axiom_ess σ fuel s.1 scope (mkEss (l, h)) rfl, ha, antG, bind, Res.bind, pure]
      · simp only [antG, ha]; exact symState_withSyms σ s.1 _
      · simp only [antG, ha]; exact hK
      · intro x hx
        rcases (mem_setUnion _ _ _).mp hx with h' | h'
        · exact hSK' x h'
        · exact symsOf_subset _ (tsize h) h (Nat.le_refl _) ht.wf x h'

end ConvTie

namespace ConvTie

/-! ## `_import_axiom` -/
/-- the entry of `_axioms` for an axiom `l: tc t` with the essential hypotheses `hyps` -/
structure AxEntry (σ : String → Nat) (fs : List String) (l : String) (hyps : List MTerm) (t : MTerm) (a : AxiomObj) : Prop where
  name : a.name = l
  pattern : a.pattern = patOf σ (valOf fs) t
  metavars : ∀ v, v ∈ a.metavars ↔ v ∈ termsMvs (hyps ++ [t])
  antecedents : a.antecedents? = if hyps = [] then none else some (hyps.map (patOf σ (valOf fs)))
  cls : a.cls = if hyps = [] then AxCls.Axiom else AxCls.AxiomWithAntecedents
  proof : a.proof? = none

theorem filter_ess (eh : List (String × MTerm)) (p : MStmt → Bool) (hp : ∀ x, isEssential x = true → p x = true) :
    (eh.map mkEss).filter p = eh.map mkEss := by
  apply List.filter_eq_self.mpr
  intro x hx
  obtain ⟨q, _, rfl⟩ := List.mem_map.mp hx
  exact hp _ rfl

theorem forM'_setUnion (as : List AxiomObj) (m : List String) :
    forM' as m (fun metavar_names antecedent => (Res.ok (setUnion metavar_names antecedent.metavars) : Res (List String))) =
      .ok (as.foldl (fun m a => setUnion m a.metavars) m) := by
  induction as generalizing m with
  | nil => rfl
  | cons a as ih => simp only [forM'_cons, Res.bind_ok, List.foldl_cons]; exact ih _

theorem mem_foldl_setUnion (as : List AxiomObj) : ∀ (m : List String) (v : String),
    v ∈ as.foldl (fun m a => setUnion m a.metavars) m ↔ v ∈ m ∨ ∃ a ∈ as, v ∈ a.metavars := by
  induction as with
  | nil => intro m v; simp
  | cons a as ih =>
    intro m v
    simp only [List.foldl_cons, ih, mem_setUnion, List.mem_cons, exists_eq_or_imp]
    constructor
    · rintro ((h | h) | h)
      · exact Or.inl h
      · exact Or.inr (Or.inl h)
      · exact Or.inr (Or.inr h)
    · rintro (h | h | h)
      · exact Or.inl (Or.inl h)
      · exact Or.inl (Or.inr h)
      · exact Or.inr h

end ConvTie

namespace ConvTie

/-- the statement the first sweep puts on the list `axioms` -/
def mkAxStmt (plain : Bool) (eh : List (String × MTerm)) (l tcs : String) (t : MTerm) : MStmt :=
  if plain then .ax l [.app tcs [], t] else .block (eh.map mkEss ++ [.ax l [.app tcs [], t]])

theorem symsOfL_append (a b : List MTerm) : symsOfL (a ++ b) = symsOfL a ++ symsOfL b := by
  induction a with
  | nil => simp [symsOfL]
  | cons x a ih => simp [symsOfL, ih]

theorem symsOfL_subset (K : List String) : ∀ ts : List MTerm, (∀ t ∈ ts, wfT K t = true) → ∀ s ∈ symsOfL ts, s ∈ K := by
  intro ts
  induction ts with
  | nil => intro _ s hs; simp [symsOfL] at hs
  | cons t ts ih =>
    intro h s hs
    simp only [symsOfL, List.mem_append] at hs
    rcases hs with hs | hs
    · exact symsOf_subset K (tsize t) t (Nat.le_refl _) (h t (by simp)) s hs
    · exact ih (fun t' ht' => h t' (by simp [ht'])) s hs

theorem setUnion_nil (S : List String) : setUnion S [] = S := rfl

theorem add_axiom_new (σ : String → Nat) (fuel : Nat) (c : ConvObj) (l : String) (a : AxiomObj) (hnew : l ∉ c._axioms.map (·.1)) :
    _add_axiom σ fuel c l a = .ok { c with _axioms := c._axioms ++ [(l, [a])] } := by
  have : dictHas c._axioms l = false := (dictHas_false_iff _ _).mpr hnew
  simp only [_add_axiom, this, Bool.false_eq_true, if_false, bind, Res.bind, pure, dictSet_new _ _ _ hnew]

theorem import_axiom_ok (σ : String → Nat) (fuel : Nat) (c : ConvObj) (S fs : List String)
    (plain : Bool) (eh : List (String × MTerm)) (l tcs : String) (t : MTerm)
    (hplain : plain = true → eh = [])
    (hax : axOK [.app tcs [], t] = true) (hreg : axUpd c l [.app tcs [], t] = c)
    (hS : SymState σ c S) (hsc : GoodScope c._scope fs)
    (ht : TermOK c._declared_constants fs fuel t) (hts : ∀ p ∈ eh, TermOK c._declared_constants fs fuel p.2)
    (hdis : ∀ x ∈ fs, x ∉ c._declared_constants) (hSK : ∀ s ∈ S, s ∈ c._declared_constants)
    (hnew : l ∉ c._axioms.map (·.1)) :
    ∃ a, _import_axiom σ fuel c (mkAxStmt plain eh l tcs t) =
        .ok { withSyms σ c (setUnion S (symsOfL (eh.map (·.2) ++ [t]))) with _axioms := c._axioms ++ [(l, [a])] } ∧
      AxEntry σ fs l (eh.map (·.2)) t a := by
  have hsc' := goodScope_copy c._scope fs [] hsc
  obtain ⟨L, hL, _, _, _⟩ := collect_variables_ok σ fuel c t ht.fuel
  obtain ⟨as, has, haslen, haspat, hasmv⟩ := convert_antecedents_ok σ fuel (copyScope c._scope []) fs hsc' eh c S [] hS hts hdis hSK
  have hS1K : ∀ s ∈ setUnion S (symsOfL (eh.map (·.2))), s ∈ c._declared_constants := by
    intro s hs
    rcases (mem_setUnion _ _ _).mp hs with h' | h'
    · exact hSK s h'
    · refine symsOfL_subset _ _ ?_ s h'
      intro t' ht'
      obtain ⟨p, hp, rfl⟩ := List.mem_map.mp ht'
      exact (hts p hp).wf
  obtain ⟨a0, ha0, ha0of, ha0cls, ha0pf⟩ := convert_axiom_ok σ fuel (withSyms σ c (setUnion S (symsOfL (eh.map (·.2)))))
    (setUnion S (symsOfL (eh.map (·.2)))) (copyScope c._scope []) fs (.ax l [.app tcs [], t]) (.app tcs []) t rfl rfl ht.fuel
    (symState_withSyms σ c _) hsc' ht.wf ht.vars hdis hS1K
  simp only [withSyms_withSyms, setUnion_append, ← symsOfL_append] at ha0
  have hsyms : symsOfL (eh.map (·.2)) ++ symsOf t = symsOfL (eh.map (·.2) ++ [t]) := by
    simp [symsOfL_append, symsOfL]
  rw [hsyms] at ha0
  have hcheck : _check_axiom σ fuel c c._scope (.ax l [.app tcs [], t]) = .ok (c, AxiomType.Provable) := by
    rw [check_axiom_ax σ fuel c c._scope l _ hax, hreg]
  have hc1 : [AxiomType.Trivial, AxiomType.Substitution, AxiomType.Metacondition, AxiomType.LocalNotation].contains AxiomType.Provable = false := by
    decide
  have hc2 : [AxiomType.Notation, AxiomType.Provable].contains AxiomType.Provable = true := by decide
  have ha0name : a0.name = l := ha0of.name
  -- the object that is stored
  let a : AxiomObj := if as.length > 0 then
      { cls := AxCls.AxiomWithAntecedents, name := a0.name, args := a0.args, type_check := a0.type_check, pattern := a0.pattern,
        metavars := as.foldl (fun m a => setUnion m a.metavars) (setOf a0.metavars), antecedents? := some (as.map fun a => a.pattern),
        proof? := none }
    else a0
  have haname : a.name = l := by
    simp only [a]; split <;> exact ha0name
  have hadd : _add_axiom σ fuel (withSyms σ c (setUnion S (symsOfL (eh.map (·.2) ++ [t])))) a0.name a =
      .ok { withSyms σ c (setUnion S (symsOfL (eh.map (·.2) ++ [t]))) with _axioms := c._axioms ++ [(l, [a])] } := by
    have h := add_axiom_new σ fuel (withSyms σ c (setUnion S (symsOfL (eh.map (·.2) ++ [t])))) a0.name a (by rw [ha0name]; exact hnew)
    rw [h, ha0name]
    rfl
  refine ⟨a, ?_, ?_⟩
  · cases plain with
    | true =>
      have he := hplain rfl
      subst he
      have has0 : as = [] := by simpa using haslen
      subst has0
      simp only [List.map_nil, List.nil_append] at ha0
      rw [show symsOfL ([] : List MTerm) = [] from rfl, setUnion_nil, withSyms_self σ c S hS] at ha0
      simp only [a, List.length_nil, Nat.lt_irrefl, if_false, List.map_nil, List.nil_append] at hadd
      simp only [mkAxStmt, if_true, _import_axiom, isAxiomatic, ConvSup.pyAssert, hcheck, hc1, hc2, MStmt.terms, listGet_one, hL,
        unambiguize_ok σ fuel c L fs hsc, forM'_cons, forM'_nil, isBlock, ha0, bind, Res.bind, pure, beq_self_eq_true, if_true,
        Bool.false_eq_true, if_false, List.length_nil, Nat.lt_irrefl, decide_false, hadd, List.map_nil, List.nil_append, a]
    | false =>
      have hlast : listLast (eh.map mkEss ++ [MStmt.ax l [.app tcs [], t]]) = .ok (MStmt.ax l [.app tcs [], t]) := listLast_concat _ _
      have hall : ((eh.map mkEss).all fun st => (isEssential st || isDisjoint st)) = true := by
        simp only [List.all_eq_true, List.mem_map]
        rintro x ⟨p, _, rfl⟩
        rfl
      have hmeta := convert_metaconditions_ok σ fuel c (copyScope c._scope []) (eh.map mkEss) (by
        intro e he
        obtain ⟨p, _, rfl⟩ := List.mem_map.mp he
        rfl)
      have hant := convert_antecedents_eq σ fuel (copyScope c._scope []) fs hsc' eh c S hS hts hdis hSK
      rw [has] at hant
      have hprep : _prepare_scope_for_block σ fuel c (MStmt.block (eh.map mkEss ++ [MStmt.ax l [.app tcs [], t]])) (copyScope c._scope [])
          = .ok (withSyms σ c (setUnion S (symsOfL (eh.map (·.2)))), as) := by
        simp only [_prepare_scope_for_block, MStmt.statements, hall, ConvSup.pyAssert, if_true, List.dropLast_concat,
          filter_ess eh (fun st => (isEssential st || isDisjoint st)) (fun x hx => by rw [hx]; rfl), filter_ess eh (fun st => isEssential st) (fun x hx => hx), hmeta, hant, bind, Res.bind,
          pure, List.nil_append]
      simp only [mkAxStmt, Bool.false_eq_true, if_false, _import_axiom, isAxiomatic, MStmt.statements, hlast, ConvSup.pyAssert, hcheck,
        hc1, hc2, MStmt.terms, listGet_one, hL, unambiguize_ok σ fuel c L fs hsc, forM'_cons, forM'_nil, isBlock, hprep, ha0,
        forM'_setUnion, bind, Res.bind, pure, beq_self_eq_true, if_true]
      by_cases hlen : as.length > 0
      · simp only [hlen, decide_true, if_true, a] at hadd ⊢
        simp only [hadd]
      · simp only [hlen, decide_false, Bool.false_eq_true, if_false, a] at hadd ⊢
        simp only [hadd]
  · -- the stored object is the entry of the specification
    have hhyps : (eh.map (·.2) = []) ↔ ¬ (as.length > 0) := by
      rw [haslen]; cases eh <;> simp
    refine ⟨haname, ?_, ?_, ?_, ?_, ?_⟩
    · simp only [a]; split <;> exact ha0of.pattern
    · intro v
      simp only [termsMvs_append, termsMvs, List.append_nil, List.mem_append, ← hasmv v, a]
      split
      · simp only [mem_foldl_setUnion, mem_setOf, ha0of.metavars v]
        exact Or.comm
      · rename_i hl
        have : as = [] := List.length_eq_zero_iff.mp (by omega)
        subst this
        simp [ha0of.metavars v]
    · simp only [a]
      split <;> rename_i hl
      · have : ¬ (eh.map (·.2) = []) := fun h => (hhyps.mp h) hl
        simp only [this, if_false, haspat]
      · simp only [hhyps.mpr hl, if_true]; exact ha0of.antecedents
    · simp only [a]
      split <;> rename_i hl
      · have : ¬ (eh.map (·.2) = []) := fun h => (hhyps.mp h) hl
        simp [this]
      · simp only [hhyps.mpr hl, if_true]; exact ha0cls
    · simp only [a]; split
      · rfl
      · exact ha0pf

end ConvTie


namespace ConvTie

/-! ## the second sweep over the axioms -/
def essParts : MStmt → Option (String × MTerm)
  | .ess l [.app tc [], h] => if tc = "|-" then some (l, h) else none
  | _ => none

/-- the parts of a statement on the list `axioms`: alone or last in a block after `$e |- h` statements -/
def axParts : MStmt → Option (Bool × List (String × MTerm) × String × String × MTerm)
  | .ax l [.app tcs [], t] => some (true, [], l, tcs, t)
  | .block ss =>
      match ss.getLast?, ss.dropLast.mapM essParts with
      | some (.ax l [.app tcs [], t]), some eh => some (false, eh, l, tcs, t)
      | _, _ => none
  | _ => none

theorem essParts_eq {e : MStmt} {p : String × MTerm} (h : essParts e = some p) : e = mkEss p := by
  match e, h with
  | .ess l [.app tc [], t], h =>
    simp only [essParts] at h
    split at h
    · rename_i htc; subst htc; cases h; rfl
    · cases h

theorem mapM_essParts_eq : ∀ (es : List MStmt) (eh : List (String × MTerm)), es.mapM essParts = some eh → es = eh.map mkEss := by
  intro es
  induction es with
  | nil => intro eh h; simp at h; subst h; rfl
  | cons e es ih =>
    intro eh h
    rw [List.mapM_cons] at h
    cases hp : essParts e with
    | none => simp [hp] at h
    | some p =>
      cases hr : es.mapM essParts with
      | none => simp [hp, hr] at h
      | some r =>
        simp [hp, hr] at h
        subst h
        simp [essParts_eq hp, ih r hr]

theorem axParts_eq {st : MStmt} {pl : Bool} {eh : List (String × MTerm)} {l tcs : String} {t : MTerm}
    (h : axParts st = some (pl, eh, l, tcs, t)) : st = mkAxStmt pl eh l tcs t ∧ (pl = true → eh = []) := by
  match st, h with
  | .ax l' [.app tcs' [], t'], h =>
    simp only [axParts, Option.some.injEq, Prod.mk.injEq] at h
    obtain ⟨rfl, rfl, rfl, rfl, rfl⟩ := h
    exact ⟨rfl, fun _ => rfl⟩
  | .block ss, h =>
    simp only [axParts] at h
    split at h
    · rename_i l' tcs' t' eh' hlast hm
      simp only [Option.some.injEq, Prod.mk.injEq] at h
      obtain ⟨rfl, rfl, rfl, rfl, rfl⟩ := h
      refine ⟨?_, fun h => by cases h⟩
      have hne : ss ≠ [] := by intro e; subst e; simp at hlast
      have h1 := List.dropLast_concat_getLast hne
      have h2 : ss.getLast hne = MStmt.ax l' [.app tcs' [], t'] := by
        have := List.getLast?_eq_some_getLast hne
        rw [this] at hlast
        exact Option.some.inj hlast
      simp only [mkAxStmt, Bool.false_eq_true, if_false]
      rw [← mapM_essParts_eq _ _ hm, ← h2, h1]
    · cases h

/-- the label of a statement on the list `axioms` -/
def axLabel (st : MStmt) : String := match axParts st with | some (_, _, l, _, _) => l | none => ""

/-- what the second sweep needs of a statement on the list `axioms` -/
structure AxOK2 (K fs : List String) (fuel : Nat) (pcs prs : List String) (st : MStmt) : Prop where
  parts : ∃ pl eh l tcs t, axParts st = some (pl, eh, l, tcs, t) ∧ axOK [.app tcs [], t] = true ∧
    TermOK K fs fuel t ∧ (∀ p ∈ eh, TermOK K fs fuel p.2) ∧
    (tcs = "#Pattern" → l ∈ pcs) ∧ (tcs ≠ "#Pattern" → strStartsWith l "proof-rule-" = true → l ∈ prs)

/-- the entries of `_axioms` for a list of statements -/
def AxList (σ : String → Nat) (fs : List String) : PyDict (List AxiomObj) → List MStmt → Prop
  | [], [] => True
  | (l, as) :: A, st :: sts =>
      (∃ pl eh tcs t a, axParts st = some (pl, eh, l, tcs, t) ∧ as = [a] ∧ AxEntry σ fs l (eh.map (·.2)) t a) ∧ AxList σ fs A sts
  | _, _ => False

theorem axList_append (σ : String → Nat) (fs : List String) : ∀ (A : PyDict (List AxiomObj)) (sts : List MStmt) (B : PyDict (List AxiomObj))
    (sts' : List MStmt), AxList σ fs A sts → AxList σ fs B sts' → AxList σ fs (A ++ B) (sts ++ sts') := by
  intro A
  induction A with
  | nil => intro sts B sts' h1 h2; cases sts with
    | nil => exact h2
    | cons _ _ => exact absurd h1 (by simp [AxList])
  | cons p A ih =>
    intro sts B sts' h1 h2
    obtain ⟨l, as⟩ := p
    cases sts with
    | nil => exact absurd h1 (by simp [AxList])
    | cons st sts => exact ⟨h1.1, ih sts B sts' h1.2 h2⟩

theorem axList_keys (σ : String → Nat) (fs : List String) : ∀ (A : PyDict (List AxiomObj)) (sts : List MStmt), AxList σ fs A sts →
    A.map (·.1) = sts.map axLabel := by
  intro A
  induction A with
  | nil => intro sts h; cases sts with
    | nil => rfl
    | cons _ _ => exact absurd h (by simp [AxList])
  | cons p A ih =>
    intro sts h
    obtain ⟨l, as⟩ := p
    cases sts with
    | nil => exact absurd h (by simp [AxList])
    | cons st sts =>
      obtain ⟨⟨pl, eh, tcs, t, a, hp, _, _⟩, h2⟩ := h
      simp [axLabel, hp, ih sts h2]

theorem axUpd_registered (c : ConvObj) (l tcs : String) (t : MTerm)
    (h1 : tcs = "#Pattern" → l ∈ c._pattern_constructors)
    (h2 : tcs ≠ "#Pattern" → strStartsWith l "proof-rule-" = true → l ∈ c._proof_rules) :
    axUpd c l [.app tcs [], t] = c := by
  simp only [axUpd]
  split
  · rename_i h; rw [setAdd_mem _ _ (h1 h)]
  · rename_i h
    split
    · rename_i h'; rw [setAdd_mem _ _ (h2 h h')]
    · rfl

theorem pass2_ok (σ : String → Nat) (fuel : Nat) (fs : List String) : ∀ (axs : List MStmt) (c : ConvObj) (S : List String),
    SymState σ c S → GoodScope c._scope fs → (∀ x ∈ fs, x ∉ c._declared_constants) → (∀ s ∈ S, s ∈ c._declared_constants) →
    (∀ st ∈ axs, AxOK2 c._declared_constants fs fuel c._pattern_constructors c._proof_rules st) →
    (axs.map axLabel).Nodup → (∀ st ∈ axs, axLabel st ∉ c._axioms.map (·.1)) →
    ∃ S' A, forM' axs c (fun self ax => _import_axiom σ fuel self ax) = .ok { withSyms σ c S' with _axioms := c._axioms ++ A } ∧
      (∀ s ∈ S', s ∈ c._declared_constants) ∧ AxList σ fs A axs := by
  intro axs
  induction axs with
  | nil =>
    intro c S hS _ _ hSK _ _ _
    refine ⟨S, [], ?_, hSK, trivial⟩
    simp only [forM'_nil, List.append_nil]
    congr 1
    exact (withSyms_self σ c S hS).symm
  | cons st axs ih =>
    intro c S hS hsc hdis hSK hok hnd hnew
    obtain ⟨pl, eh, l, tcs, t, hparts, hax, ht, hts, hr1, hr2⟩ := (hok st (by simp)).parts
    obtain ⟨hst, hpl⟩ := axParts_eq hparts
    have hlab : axLabel st = l := by simp [axLabel, hparts]
    obtain ⟨a, ha, haentry⟩ := import_axiom_ok σ fuel c S fs pl eh l tcs t hpl hax (axUpd_registered c l tcs t hr1 hr2) hS hsc ht hts hdis hSK
      (by rw [← hlab]; exact hnew st (by simp))
    let c1 : ConvObj := { withSyms σ c (setUnion S (symsOfL (eh.map (·.2) ++ [t]))) with _axioms := c._axioms ++ [(l, [a])] }
    have hS1K : ∀ s ∈ setUnion S (symsOfL (eh.map (·.2) ++ [t])), s ∈ c._declared_constants := by
      intro s hs
      rcases (mem_setUnion _ _ _).mp hs with h' | h'
      · exact hSK s h'
      · refine symsOfL_subset _ _ ?_ s h'
        intro t' ht'
        simp only [List.mem_append, List.mem_map, List.mem_singleton] at ht'
        rcases ht' with ⟨p, hp, rfl⟩ | rfl
        · exact (hts p hp).wf
        · exact ht.wf
    obtain ⟨S', A, hfold, hS'K, hA⟩ := ih c1 (setUnion S (symsOfL (eh.map (·.2) ++ [t]))) ⟨rfl, rfl⟩ hsc hdis hS1K
      (fun st' hst' => hok st' (by simp [hst'])) (by simp at hnd; exact hnd.2) (by
        intro st' hst'
        simp only [c1, List.map_append, List.map_cons, List.map_nil, List.mem_append, List.mem_singleton, not_or]
        refine ⟨hnew st' (by simp [hst']), ?_⟩
        rw [← hlab]
        simp only [List.map_cons, List.nodup_cons, List.mem_map, not_exists, not_and] at hnd
        intro e
        exact hnd.1 st' hst' e)
    refine ⟨S', (l, [a]) :: A, ?_, hS'K, ⟨⟨pl, eh, tcs, t, a, hparts, rfl, haentry⟩, hA⟩⟩
    rw [forM'_cons, hst, ha, Res.bind_ok]
    show forM' axs c1 _ = _
    rw [hfold]
    simp [c1, withSyms]

end ConvTie

namespace ConvTie

/-! ## `_import_lemma` -/
theorem make_lemma_ok (σ : String → Nat) (fuel : Nat) (c : ConvObj) (S : List String) (scope : ScopeObj) (fs : List String)
    (st : MStmt) (pf : Gen.ImportProof.Proof) (n : Notation) (P : (String → NPat) → NPat)
    (hS : SymState σ c S) (hsc : GoodScope scope fs) (hnames : ∀ v ∈ n.args, v ∈ fs ∧ v ∉ S ∧ v ∉ c._declared_constants)
    (htc : ∀ (view : SelfView) (S : List String) (args : List NPat), view._symbols = ⟨symData σ S, some PyType.Symbol⟩ →
        (∀ v ∈ n.args, v ∉ S ∧ v ∉ view._declared_constants) → n.args.length ≤ args.length → n.type_check view args = .ok true)
    (hf : ClosureSpec n.callable n.args P) (hpf : callImportProof c._floating_patterns st = .ok pf) :
    _make_lemma_from_notation σ fuel c st scope n =
      .ok (c, { cls := AxCls.Lemma, name := n.name, args := n.args, type_check := n.type_check, pattern := P (valOf fs),
                metavars := sortedStrs (setOf n.args), antecedents? := none, proof? := some pf }) := by
  have hfilter : (n.args.filter fun var => Scope_is_metavar σ fuel scope var) = n.args := by
    apply List.filter_eq_self.mpr
    intro v hv
    have : v ∈ (mvData fs).map (·.1) := by rw [mvData_keys]; exact (hnames v hv).1
    simp [Scope_is_metavar, vdHas, hsc.mv, (dictHas_iff _ _).mpr this]
  have hcall : Notation_call σ fuel n c.view (n.args.map (valOf fs)) = .ok (P (valOf fs)) := by
    apply notation_call_ok
    · exact htc c.view S _ hS.syms (fun v hv => ⟨(hnames v hv).2.1, (hnames v hv).2.2⟩) (by simp)
    · exact hf c.view _ (valOf fs) (fun v hv => map_getElem_idxOf n.args (valOf fs) v hv)
  simp only [_make_lemma_from_notation, resolve_args_ok σ fuel c S scope fs hS hsc n.args hnames, hfilter, hcall, hpf, bind, Res.bind, pure]

theorem convert_lemma_ok (σ : String → Nat) (fuel : Nat) (c : ConvObj) (S : List String) (scope : ScopeObj) (fs : List String)
    (l : String) (t : MTerm) (prf : List String) (pf : Gen.ImportProof.Proof)
    (hfuel : tsize t < fuel) (hS : SymState σ c S) (hsc : GoodScope scope fs)
    (hwf : wfT c._declared_constants t = true) (hvars : ∀ v ∈ termMvs t, v ∈ fs)
    (hdis : ∀ x ∈ fs, x ∉ c._declared_constants) (hSK : ∀ s ∈ S, s ∈ c._declared_constants)
    (hpf : callImportProof c._floating_patterns (.prov l [.app "|-" [], t] prf) = .ok pf) :
    ∃ a, _convert_axiom_for_scope σ fuel c scope (.prov l [.app "|-" [], t] prf) = .ok (withSyms σ c (setUnion S (symsOf t)), a) ∧
      AxiomOf σ fs l t a ∧ a.cls = AxCls.Lemma ∧ a.proof? = some pf := by
  obtain ⟨L, hL, hLmv, hLnd, hLmem⟩ := collect_variables_ok σ fuel c t hfuel
  have hnames_fs : ∀ v ∈ L.map MTerm.name, v ∈ fs := fun v hv => hvars v ((hLmem v).mp hv)
  have hns := goodScope_copy scope fs (L.map MTerm.name) hsc
  have hwf' : wfTerm c._declared_constants (copyScope scope (L.map MTerm.name))._args t = true :=
    wfTerm_of_wfT _ _ (fun x hx => hdis x (hnames_fs x hx)) (tsize t) t (Nat.le_refl _) hwf (fun v hv => (hLmem v).mpr hv)
  obtain ⟨f, hf, hfs⟩ := to_pattern_ok σ (copyScope scope (L.map MTerm.name)) hns.nots fuel t c S hfuel hS hwf'
  obtain ⟨tc, htc, htcs⟩ := arguments_type_check_ok σ fuel (withSyms σ c (setUnion S (symsOf t)))
    (copyScope scope (L.map MTerm.name)) fs hns hnames_fs
  have hS'K : ∀ s ∈ setUnion S (symsOf t), s ∈ c._declared_constants := by
    intro s hs
    rcases (mem_setUnion _ _ _).mp hs with h | h
    · exact hSK s h
    · exact symsOf_subset _ (tsize t) t (Nat.le_refl _) hwf s h
  have hmk := make_lemma_ok σ fuel (withSyms σ c (setUnion S (symsOf t))) (setUnion S (symsOf t)) scope fs
    (.prov l [.app "|-" [], t] prf) pf
    { name := l, args := L.map MTerm.name, type_check := tc, callable := f } (fun val => patOf σ val t)
    (symState_withSyms σ c _) hsc
    (fun v hv => ⟨hnames_fs v hv, fun h => hdis v (hnames_fs v hv) (hS'K v h), hdis v (hnames_fs v hv)⟩)
    htcs hfs hpf
  have hname : _get_axiom_name σ fuel c (.prov l [.app "|-" [], t] prf) = .ok l := by
    simp [_get_axiom_name, isBlock, isAxiomatic, isEssential, isProvable, bind, Res.bind, pure, MStmt.label]
  have hterm : _get_axiom_term σ fuel c (.prov l [.app "|-" [], t] prf) = .ok t := by
    simp [_get_axiom_term, isBlock, isAxiomatic, isEssential, isProvable, bind, Res.bind, pure, MStmt.terms]
  refine ⟨{ cls := AxCls.Lemma, name := l, args := L.map MTerm.name, type_check := tc,
            pattern := patOf σ (valOf fs) t, metavars := sortedStrs (setOf (L.map MTerm.name)), antecedents? := none, proof? := some pf },
    ?_, ⟨rfl, rfl, ?_, rfl⟩, rfl, rfl⟩
  · simp only [_convert_axiom_for_scope, hname, MStmt.terms, listGet_one, hL, hterm, to_notation_scope_ok σ fuel scope L fs hsc hLmv,
      hf, htc, isAxiomatic, isEssential, isProvable, Bool.or_self, Bool.false_eq_true, if_false, if_true, hmk, bind, Res.bind, pure]
  · intro v
    simp only [mem_sortedStrs, mem_setOf]
    exact hLmem v

theorem add_lemma_new (σ : String → Nat) (fuel : Nat) (c : ConvObj) (l : String) (a : AxiomObj) (hnew : l ∉ c._lemmas.map (·.1)) :
    _add_lemma σ fuel c l a = .ok { c with _lemmas := c._lemmas ++ [(l, [a])] } := by
  have : dictHas c._lemmas l = false := (dictHas_false_iff _ _).mpr hnew
  simp only [_add_lemma, this, Bool.false_eq_true, if_false, bind, Res.bind, pure, dictSet_new _ _ _ hnew]

theorem import_lemma_ok (σ : String → Nat) (fuel : Nat) (c : ConvObj) (S fs : List String)
    (l : String) (t : MTerm) (prf : List String) (pf : Gen.ImportProof.Proof)
    (hS : SymState σ c S) (hsc : GoodScope c._scope fs) (ht : TermOK c._declared_constants fs fuel t)
    (hdis : ∀ x ∈ fs, x ∉ c._declared_constants) (hSK : ∀ s ∈ S, s ∈ c._declared_constants)
    (hnew : l ∉ c._lemmas.map (·.1))
    (hpf : callImportProof c._floating_patterns (.prov l [.app "|-" [], t] prf) = .ok pf) :
    ∃ a, _import_lemma σ fuel c (.prov l [.app "|-" [], t] prf) =
        .ok { withSyms σ c (setUnion S (symsOf t)) with _lemmas := c._lemmas ++ [(l, [a])] } ∧
      AxiomOf σ fs l t a ∧ a.cls = AxCls.Lemma ∧ a.proof? = some pf := by
  have hsc' := goodScope_copy c._scope fs [] hsc
  obtain ⟨L, hL, _, _, _⟩ := collect_variables_ok σ fuel c t ht.fuel
  obtain ⟨a, ha, haof, hacls, hapf⟩ := convert_lemma_ok σ fuel c S (copyScope c._scope []) fs l t prf pf ht.fuel hS hsc' ht.wf ht.vars
    hdis hSK hpf
  refine ⟨a, ?_, haof, hacls, hapf⟩
  have hadd : _add_lemma σ fuel (withSyms σ c (setUnion S (symsOf t))) a.name a =
      .ok { withSyms σ c (setUnion S (symsOf t)) with _lemmas := c._lemmas ++ [(l, [a])] } := by
    have h := add_lemma_new σ fuel (withSyms σ c (setUnion S (symsOf t))) a.name a (by rw [haof.name]; exact hnew)
    rw [h, haof.name]
    rfl
  simp only [_import_lemma, isProvable, ConvSup.pyAssert, MStmt.terms, listGet_zero, listGet_one, isApplication, MTerm.symbol,
    beq_self_eq_true, andR_true, Res.map_ok, Bool.not_true, Bool.false_eq_true, if_false, if_true, hL,
    unambiguize_ok σ fuel c L fs hsc, forM'_cons, forM'_nil, isBlock, ha, hacls, AxCls.isLemma, List.length_nil, Nat.lt_irrefl,
    decide_false, hadd, bind, Res.bind, pure, Functor.map, Function.comp]

end ConvTie
