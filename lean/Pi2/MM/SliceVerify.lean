import Pi2.MM.VerifyThm
/-!
# A slice is self-contained: the lemma's proof still verifies against it

`slice_verifies`: for a well-formed database `db`, if the slicer (`sliceDatabase`, the model of
`metamath_extract_slice.slice_database`) cuts the slice `sl` for the lemma `l` and the reference verifier
(`Verify.lean`) accepts the proof of `l` in `db`, it accepts it in `sl`.

History: for the slicer before the commits "keep a top-level $d statement at its place in a slice" and "keep an
essential hypothesis stated outside a block in the slices of later lemmas" the property was FALSE (a top-level `$d x y`
after an assertion over `x`, `y` was moved to the front of the slice; a top-level `$e` was dropped).  Both defects were
found while proving this theorem; `SliceVerifyEx.lean` keeps the two databases as regression facts.
-/
namespace MM

/-! ## well-formed databases -/

/-- every variable declared anywhere in the database -/
def dbVars (db : MDb) : List String :=
  (flatL db).flatMap fun s => match s with | .var vs => vs | _ => []

mutual
/-- the AST agrees with the declarations: a `Metavariable` is a declared variable, the head symbol of an
`Application` is not (this is how the parser decides between the two) -/
def termOk (V : List String) : MTerm → Bool
  | .mv n => V.contains n
  | .app s args => !V.contains s && termsOk V args
def termsOk (V : List String) : List MTerm → Bool
  | [] => true
  | t :: ts => termOk V t && termsOk V ts
end

def leafOk (V : List String) : MStmt → Bool
  | .const cs => cs.all fun c => !V.contains c
  | .var _ => true
  | .disj vs => vs.all fun v => V.contains v
  | .float _ tc v => !V.contains tc && V.contains v
  | .ess _ ts => termsOk V ts
  | .ax _ ts => termsOk V ts
  | .prov _ ts _ => termsOk V ts
  | .block _ => true

/-- the hypotheses on the database -/
structure WellFormedDb (db : MDb) : Prop where
  /-- labels are unique -/
  labels : (allLabelsL db).Nodup
  /-- `)` is not a label (the specification: labels are made of letters, digits, `-`, `_`, `.`) -/
  noParen : ")" ∉ allLabelsL db
  /-- the AST agrees with the `$v` declarations; constants and typecodes are not variables -/
  consistent : ∀ x ∈ flatL db, leafOk (dbVars db) x = true
  /-- the constants the slicer always declares are not variables of the database -/
  defaults : ∀ c ∈ defaultConstants, c ∉ dbVars db

/-- `WellFormedDb` as a program -/
def wellFormedDbB (db : MDb) : Bool :=
  decide (allLabelsL db).Nodup && !(allLabelsL db).contains ")" &&
  (flatL db).all (leafOk (dbVars db)) && defaultConstants.all (fun c => !(dbVars db).contains c)

theorem wellFormedDb_of_decide {db : MDb} (h : wellFormedDbB db = true) : WellFormedDb db := by
  simp only [wellFormedDbB, Bool.and_eq_true, decide_eq_true_eq, Bool.not_eq_true', List.all_eq_true] at h
  obtain ⟨⟨⟨h1, h2⟩, h4⟩, h5⟩ := h
  exact {
    labels := h1
    noParen := not_mem_of_contains_false h2
    consistent := h4
    defaults := fun c hc => not_mem_of_contains_false (h5 c hc) }

/-! ## terms -/

mutual
theorem termOk_spec (V : List String) : ∀ t : MTerm, termOk V t = true →
    (∀ c ∈ termConstants t, c ∉ V) ∧ ∀ x ∈ termMvs t, x ∈ V
  | .mv n, h => by
      simp only [termOk, List.contains_iff_mem] at h
      exact ⟨by simp [termConstants], by simp [termMvs, h]⟩
  | .app s args, h => by
      simp only [termOk, Bool.and_eq_true, Bool.not_eq_true'] at h
      obtain ⟨h1, h2⟩ := termsOk_spec V args h.2
      refine ⟨?_, by simpa [termMvs] using h2⟩
      intro c hc
      simp only [termConstants, List.mem_cons] at hc
      rcases hc with rfl | hc
      · exact not_mem_of_contains_false h.1
      · exact h1 c hc
theorem termsOk_spec (V : List String) : ∀ ts : List MTerm, termsOk V ts = true →
    (∀ c ∈ termsConstants ts, c ∉ V) ∧ ∀ x ∈ termsMvs ts, x ∈ V
  | [], _ => by simp [termsConstants, termsMvs]
  | t :: ts, h => by
      simp only [termsOk, Bool.and_eq_true] at h
      obtain ⟨h1, h2⟩ := termOk_spec V t h.1
      obtain ⟨h3, h4⟩ := termsOk_spec V ts h.2
      refine ⟨?_, ?_⟩
      · intro c hc
        simp only [termsConstants, List.mem_append] at hc
        rcases hc with hc | hc
        · exact h1 c hc
        · exact h3 c hc
      · intro x hx
        simp only [termsMvs, List.mem_append] at hx
        rcases hx with hx | hx
        · exact h2 x hx
        · exact h4 x hx
end

/-- the symbols of a consistent statement whose constants and metavariables are kept -/
theorem termsOK_of {Vdb mvs C2 M : List String} {ts : List MTerm} (hok : termsOk Vdb ts = true)
    (hp1 : "(" ∈ C2) (hp2 : ")" ∈ C2) (hq1 : "(" ∉ Vdb) (hq2 : ")" ∉ Vdb)
    (hc : ∀ c ∈ termsConstants ts, c ∈ C2) (hm : ∀ x ∈ termsMvs ts, x ∈ mvs) (hM : ∀ x ∈ termsMvs ts, x ∈ M) :
    TermsOK Vdb mvs C2 M ts ∧ ∀ x ∈ termsMvs ts, x ∈ mvs := by
  obtain ⟨h1, h2⟩ := termsOk_spec Vdb ts hok
  refine ⟨⟨?_, ?_⟩, hm⟩
  · intro x hx
    rcases mem_printTerms ts x hx with rfl | rfl | h | h
    · exact Or.inr ⟨hp1, hq1⟩
    · exact Or.inr ⟨hp2, hq2⟩
    · exact Or.inr ⟨hc x h, h1 x h⟩
    · exact Or.inl (hm x h)
  · intro x hx hv
    rcases mem_printTerms ts x hx with rfl | rfl | h | h
    · exact absurd hv hq1
    · exact absurd hv hq2
    · exact absurd hv (h1 x h)
    · exact hM x h

/-! ## `flat` and the slicer's traversals -/

def leafMvs : MStmt → List String
  | .disj vs => vs
  | .float _ _ v => [v]
  | .ess _ ts => termsMvs ts
  | .ax _ ts => termsMvs ts
  | .prov _ ts _ => termsMvs ts
  | _ => []

mutual
theorem mem_stmtMvs_flat : ∀ (s : MStmt) (x : String), x ∈ stmtMvs s ↔ ∃ y ∈ flat s, x ∈ leafMvs y
  | .const cs, x => by simp [stmtMvs, flat, leafMvs]
  | .var vs, x => by simp [stmtMvs, flat, leafMvs]
  | .disj vs, x => by simp [stmtMvs, flat, leafMvs]
  | .float l tc v, x => by simp [stmtMvs, flat, leafMvs]
  | .ess l ts, x => by simp [stmtMvs, flat, leafMvs]
  | .ax l ts, x => by simp [stmtMvs, flat, leafMvs]
  | .prov l ts pf, x => by simp [stmtMvs, flat, leafMvs]
  | .block ss, x => by simp only [stmtMvs, flat]; exact mem_stmtsMvs_flat ss x
theorem mem_stmtsMvs_flat : ∀ (ss : List MStmt) (x : String), x ∈ stmtsMvs ss ↔ ∃ y ∈ flatL ss, x ∈ leafMvs y
  | [], x => by simp [stmtsMvs, flatL]
  | s :: ss, x => by
      simp only [stmtsMvs, flatL, List.mem_append, mem_stmtMvs_flat s x, mem_stmtsMvs_flat ss x]
      constructor
      · rintro (⟨y, hy, h⟩ | ⟨y, hy, h⟩)
        · exact ⟨y, Or.inl hy, h⟩
        · exact ⟨y, Or.inr hy, h⟩
      · rintro ⟨y, hy | hy, h⟩
        · exact Or.inl ⟨y, hy, h⟩
        · exact Or.inr ⟨y, hy, h⟩
end

def leafConsts : MStmt → List String
  | .float _ tc _ => [tc]
  | .ess _ ts => termsConstants ts
  | .ax _ ts => termsConstants ts
  | .prov _ ts _ => termsConstants ts
  | _ => []

mutual
theorem stmtConstants_flat : ∀ (s : MStmt) (ys : List String), stmtConstants s = some ys →
    ∀ c, c ∈ ys ↔ ∃ y ∈ flat s, c ∈ leafConsts y
  | .const cs, ys, h => by simp [stmtConstants] at h
  | .var vs, ys, h => by simp [stmtConstants] at h
  | .disj vs, ys, h => by simp [stmtConstants] at h; subst h; simp [flat, leafConsts]
  | .float l tc v, ys, h => by simp [stmtConstants] at h; subst h; simp [flat, leafConsts]
  | .ess l ts, ys, h => by simp [stmtConstants] at h; subst h; simp [flat, leafConsts]
  | .ax l ts, ys, h => by simp [stmtConstants] at h; subst h; simp [flat, leafConsts]
  | .prov l ts pf, ys, h => by simp [stmtConstants] at h; subst h; simp [flat, leafConsts]
  | .block ss, ys, h => by
      simp only [stmtConstants] at h
      simp only [flat]
      exact stmtsConstants_flat ss ys h
theorem stmtsConstants_flat : ∀ (ss : List MStmt) (ys : List String), stmtsConstants ss = some ys →
    ∀ c, c ∈ ys ↔ ∃ y ∈ flatL ss, c ∈ leafConsts y
  | [], ys, h => by simp [stmtsConstants] at h; subst h; simp [flatL]
  | s :: ss, ys, h => by
      simp only [stmtsConstants, Option.bind_eq_bind, Option.bind_eq_some_iff, Option.pure_def] at h
      obtain ⟨y1, h1, y2, h2, e⟩ := h
      injection e with e; subst e
      intro c
      simp only [flatL, List.mem_append, stmtConstants_flat s y1 h1 c, stmtsConstants_flat ss y2 h2 c]
      constructor
      · rintro (⟨y, hy, h⟩ | ⟨y, hy, h⟩)
        · exact ⟨y, Or.inl hy, h⟩
        · exact ⟨y, Or.inr hy, h⟩
      · rintro ⟨y, hy | hy, h⟩
        · exact Or.inl ⟨y, hy, h⟩
        · exact Or.inr ⟨y, hy, h⟩
end

/-! ## `match_axiom` -/

/-- the statements `match_axiom` lets through -/
def axLeaf : MStmt → Prop
  | .disj _ => True
  | .ess _ _ => True
  | .ax _ _ => True
  | _ => False

theorem matchAxiomLoop_spec : ∀ (n : Nat) (work : List MStmt) (last : Option MStmt) (r : MStmt),
    matchAxiomLoop n work last = some (some r) →
    (∀ x ∈ flatL work, axLeaf x) ∧ ∃ l ts, r = .ax l ts ∧ (r ∈ flatL work ∨ last = some r)
  | 0, _, _, _, h => by simp [matchAxiomLoop] at h
  | n + 1, [], last, r, h => by
      simp only [matchAxiomLoop] at h
      split at h
      · next l ts =>
        injection h with h; injection h with h; subst h
        exact ⟨by simp [flatL], l, ts, rfl, Or.inr rfl⟩
      · cases h
  | n + 1, s :: rest, last, r, h => by
      simp only [matchAxiomLoop] at h
      split at h
      · next ss =>
        obtain ⟨h1, l, ts, rfl, h2⟩ := matchAxiomLoop_spec n _ _ r h
        rw [flatL_append] at h1 h2
        refine ⟨?_, l, ts, rfl, Or.inl ?_⟩
        · intro x hx
          simp only [flatL, flat, List.mem_append] at hx
          exact h1 x (List.mem_append.2 hx.symm)
        · rcases h2 with h2 | h2
          · simp only [flatL, flat, List.mem_append]
            exact (List.mem_append.1 h2).symm
          · cases h2
      · next vs =>
        obtain ⟨h1, l, ts, rfl, h2⟩ := matchAxiomLoop_spec n _ _ r h
        refine ⟨?_, l, ts, rfl, Or.inl ?_⟩
        · intro x hx
          simp only [flatL, flat, List.mem_append, List.mem_singleton] at hx
          rcases hx with rfl | hx
          · trivial
          · exact h1 x hx
        · rcases h2 with h2 | h2
          · simp [flatL, h2]
          · cases h2
      · next l' ts' =>
        obtain ⟨h1, l, ts, rfl, h2⟩ := matchAxiomLoop_spec n _ _ r h
        refine ⟨?_, l, ts, rfl, Or.inl ?_⟩
        · intro x hx
          simp only [flatL, flat, List.mem_append, List.mem_singleton] at hx
          rcases hx with rfl | hx
          · trivial
          · exact h1 x hx
        · rcases h2 with h2 | h2
          · simp [flatL, h2]
          · cases h2
      · next l' ts' =>
        obtain ⟨h1, l, ts, rfl, h2⟩ := matchAxiomLoop_spec n _ _ r h
        refine ⟨?_, l, ts, rfl, Or.inl ?_⟩
        · intro x hx
          simp only [flatL, flat, List.mem_append, List.mem_singleton] at hx
          rcases hx with rfl | hx
          · trivial
          · exact h1 x hx
        · rcases h2 with h2 | h2
          · simp [flatL, h2]
          · injection h2 with h2; rw [h2]; simp [flatL, flat]
      · cases h

theorem matchAxiom_block_spec {ss : List MStmt} {r : MStmt} (h : matchAxiom (.block ss) = some (some r)) :
    (∀ x ∈ flatL ss, axLeaf x) ∧ ∃ l ts, r = .ax l ts ∧ r ∈ flatL ss := by
  simp only [matchAxiom] at h
  obtain ⟨h1, l, ts, rfl, h2⟩ := matchAxiomLoop_spec _ _ _ r h
  refine ⟨h1, l, ts, rfl, ?_⟩
  rcases h2 with h2 | h2
  · exact h2
  · cases h2

theorem deconstructProvable_spec {s : MStmt} {ants : List MStmt} {c : MStmt}
    (h : deconstructProvable s = some (ants, c)) :
    ∃ l ts pf, c = .prov l ts pf ∧ ((s = .prov l ts pf ∧ ants = []) ∨ s = .block (ants ++ [.prov l ts pf])) ∧
      ∀ x ∈ ants, (∃ vs, x = .disj vs) ∨ ∃ l' ts', x = .ess l' ts' := by
  cases s with
  | prov l ts pf =>
    simp only [deconstructProvable, Option.some.injEq, Prod.mk.injEq] at h
    obtain ⟨rfl, rfl⟩ := h
    exact ⟨l, ts, pf, rfl, Or.inl ⟨rfl, rfl⟩, by intro x hx; cases hx⟩
  | block ss =>
    simp only [deconstructProvable] at h
    split at h
    · next l ts pf hl =>
      split at h
      · next hall =>
        simp only [Option.some.injEq, Prod.mk.injEq] at h
        obtain ⟨rfl, rfl⟩ := h
        obtain ⟨ys, hys⟩ := List.getLast?_eq_some_iff.1 hl
        have hd : ss.dropLast = ys := by rw [hys]; simp
        refine ⟨l, ts, pf, rfl, Or.inr (by rw [hd, ← hys]), ?_⟩
        intro x hx
        have := List.all_eq_true.1 hall x hx
        cases x <;> simp at this
        · exact Or.inl ⟨_, rfl⟩
        · exact Or.inr ⟨_, _, rfl⟩
      · cases h
    · cases h
  | _ => simp [deconstructProvable] at h

/-! ## what `slice_database` files under which key -/

/-- the entry `sliceStep` adds to `cut_antecedents` for a top-level statement (key `none`: a `$d` statement) -/
def cutVal (s : MStmt) : Option (Option String × MStmt) :=
  match s with
  | .disj _ => some (none, s)
  | .float l _ _ => some (some l, s)
  | .ess l _ => some (some l, s)
  | .ax l _ => some (some l, s)
  | .prov l ts _ => some (some l, .ax l ts)
  | .block _ =>
    match matchAxiom s with
    | some (some (.ax l _)) => some (some l, s)
    | some none =>
      match deconstructProvable s with
      | some (ants, .prov l ts _) => some (some l, constructAxiom ants l ts)
      | _ => none
    | _ => none
  | _ => none

/-- top-level statements the slicer accepts -/
def TopShape (s : MStmt) : Prop :=
  match s with
  | .const _ => True
  | .var _ => True
  | _ => (cutVal s).isSome

/-- `cut_antecedents` after one more statement -/
def cutAdd (cut : Cut) : Option (Option String × MStmt) → Cut
  | some (some k, v) => dictSet cut k v
  | some (none, v) => cut ++ [(none, v)]
  | none => cut

theorem sliceStep_cut {deps : List (String × List String)} {incl excl : List String} {st st' : SliceSt}
    {s : MStmt} (h : sliceStep deps incl excl st s = some st') :
    st'.cut = cutAdd st.cut (cutVal s) ∧ TopShape s := by
  have tail : ∀ {l : String} {ts : List MTerm} {pf : List String} {ants : List MStmt},
      (do
        let out ← if incl.contains l && !excl.contains l then do
            pure (st.out ++ [(l, ← supportingDb st.cut deps l ts pf ants)])
          else pure st.out
        pure { st with out := out, cut := dictSet st.cut l (constructAxiom ants l ts) }) = some st' →
      st'.cut = dictSet st.cut l (constructAxiom ants l ts) := by
    intro l ts pf ants h
    split at h
    · simp only [Option.bind_eq_bind, Option.bind_eq_some_iff, Option.pure_def] at h
      obtain ⟨sl, _, out, hout, h⟩ := h
      injection h with h; subst h; rfl
    · simp only [Option.bind_eq_bind, Option.bind_eq_some_iff, Option.pure_def] at h
      obtain ⟨out, hout, h⟩ := h
      injection h with h; subst h; rfl
  cases s with
  | const cs => simp only [sliceStep] at h; injection h with h; subst h; exact ⟨rfl, trivial⟩
  | var vs => simp only [sliceStep] at h; injection h with h; subst h; exact ⟨rfl, trivial⟩
  | disj vs => simp only [sliceStep] at h; injection h with h; subst h; exact ⟨rfl, rfl⟩
  | float l tc v => simp only [sliceStep] at h; injection h with h; subst h; exact ⟨rfl, rfl⟩
  | ess l ts => simp only [sliceStep] at h; injection h with h; subst h; exact ⟨rfl, rfl⟩
  | ax l ts => simp [sliceStep, matchAxiom] at h; subst h; exact ⟨rfl, rfl⟩
  | prov l ts pf =>
    simp only [sliceStep, matchAxiom, Option.bind_eq_bind, Option.bind_some, deconstructProvable] at h
    exact ⟨by rw [tail h]; rfl, rfl⟩
  | block ss =>
    simp only [sliceStep, Option.bind_eq_bind, Option.bind_eq_some_iff] at h
    obtain ⟨m, hm, h⟩ := h
    split at h
    · next l' ts' =>
      injection h with h; subst h
      exact ⟨by simp [cutVal, hm, cutAdd], by simp [TopShape, cutVal, hm]⟩
    · cases h
    · simp only [Option.bind_eq_some_iff] at h
      obtain ⟨⟨ants, concl⟩, hd, h⟩ := h
      simp only at h
      split at h
      · next l' ts' pf' =>
        exact ⟨by rw [tail h]; simp [cutVal, hm, hd, cutAdd], by simp [TopShape, cutVal, hm, hd]⟩
      · cases h

/-- a lemma seen from a later lemma: an axiom -/
def axify : MStmt → MStmt
  | .prov l ts _ => .ax l ts
  | s => s

theorem flatL_leaves {ants : List MStmt}
    (h : ∀ x ∈ ants, (∃ vs, x = .disj vs) ∨ ∃ l' ts', x = .ess l' ts') : flatL ants = ants := by
  induction ants with
  | nil => rfl
  | cons a ants ih =>
    have ha := h a (by simp)
    rw [flatL, ih (fun x hx => h x (List.mem_cons_of_mem _ hx))]
    rcases ha with ⟨vs, rfl⟩ | ⟨l, ts, rfl⟩ <;> simp [flat]

theorem flat_constructAxiom (ants : List MStmt) (l : String) (ts : List MTerm) :
    flat (constructAxiom ants l ts) = flatL ants ++ [.ax l ts] := by
  unfold constructAxiom
  split
  · next h =>
    have : ants = [] := by simpa using h
    subst this; simp [flat, flatL]
  · simp [flat, flatL_append, flatL]

/-- what is known about an entry of `cut_antecedents` that is not a floating statement -/
structure CutSpec (s : MStmt) (k : String) (v : MStmt) : Prop where
  vshape : match v with | .ax .. => True | .block _ => True | _ => False
  leaves : ∀ y ∈ flat v, axLeaf y
  key : k ∈ assertLabels v
  flat_eq : flat v = (flat s).map axify
  run : ∀ (t : String) (st : VState), (∀ ts pf, MStmt.prov t ts pf ∉ flat s) →
    runStmt (some t) st s = runStmt (some t) st v

theorem cutVal_none_key {s v : MStmt} (h : cutVal s = some (none, v)) : ∃ vs, s = .disj vs ∧ v = s := by
  cases s with
  | disj vs =>
    simp only [cutVal, Option.some.injEq, Prod.mk.injEq, true_and] at h
    exact ⟨vs, rfl, h.symm⟩
  | block ss =>
    simp only [cutVal] at h
    split at h
    · simp at h
    · split at h <;> simp at h
    · simp at h
  | _ => simp [cutVal] at h

theorem cutVal_spec {s : MStmt} {k : String} {v : MStmt} (h : cutVal s = some (some k, v)) :
    (∃ tc x, s = .float k tc x ∧ v = s) ∨ (∃ ts, s = .ess k ts ∧ v = s) ∨ CutSpec s k v := by
  cases s with
  | const cs => simp [cutVal] at h
  | var vs => simp [cutVal] at h
  | disj vs => simp [cutVal] at h
  | ess l ts =>
    simp only [cutVal, Option.some.injEq, Prod.mk.injEq] at h
    obtain ⟨rfl, rfl⟩ := h
    exact Or.inr (Or.inl ⟨ts, rfl, rfl⟩)
  | float l tc x =>
    simp only [cutVal, Option.some.injEq, Prod.mk.injEq] at h
    obtain ⟨rfl, rfl⟩ := h
    exact Or.inl ⟨tc, x, rfl, rfl⟩
  | ax l ts =>
    simp only [cutVal, Option.some.injEq, Prod.mk.injEq] at h
    obtain ⟨rfl, rfl⟩ := h
    exact Or.inr (Or.inr ⟨trivial, by simp [flat, axLeaf], by simp [assertLabels, flat, assertLabel?], by simp [flat, axify],
      fun _ _ _ => rfl⟩)
  | prov l ts pf =>
    simp only [cutVal, Option.some.injEq, Prod.mk.injEq] at h
    obtain ⟨rfl, rfl⟩ := h
    refine Or.inr (Or.inr ⟨trivial, by simp [flat, axLeaf], by simp [assertLabels, flat, assertLabel?], by simp [flat, axify], ?_⟩)
    intro t st hne
    have : l ≠ t := by
      intro e; subst e; exact hne ts pf (by simp [flat])
    exact run_prov_eq_ax this st ts pf
  | block ss =>
    simp only [cutVal] at h
    split at h
    · next l ts0 hm =>
      simp only [Option.some.injEq, Prod.mk.injEq] at h
      obtain ⟨rfl, rfl⟩ := h
      obtain ⟨h1, l', ts', e, h2⟩ := matchAxiom_block_spec hm
      injection e with e1 e2; subst e1 e2
      refine Or.inr (Or.inr ⟨trivial, by simpa [flat] using h1, ?_, ?_, fun _ _ _ => rfl⟩)
      · simp only [assertLabels, flat, List.mem_filterMap]
        exact ⟨_, h2, rfl⟩
      · simp only [flat]
        have : ∀ (l : List MStmt), (∀ x ∈ l, axLeaf x) → l = l.map axify := by
          intro l
          induction l with
          | nil => intro _; rfl
          | cons a l ih =>
            intro h
            rw [List.map_cons, ← ih (fun x hx => h x (List.mem_cons_of_mem _ hx))]
            have := h a (by simp)
            cases a <;> first | rfl | exact this.elim
        exact this _ h1
    · next hm =>
      split at h
      · next ants l ts pf hd =>
        simp only [Option.some.injEq, Prod.mk.injEq] at h
        obtain ⟨rfl, rfl⟩ := h
        obtain ⟨l', ts', pf', e, hs, hants⟩ := deconstructProvable_spec hd
        injection e with e1 e2 e3; subst e1 e2 e3
        rcases hs with ⟨hs, _⟩ | hs
        · cases hs
        injection hs with hs; subst hs
        have hfl := flatL_leaves hants
        refine Or.inr (Or.inr ⟨?_, ?_, ?_, ?_, ?_⟩)
        · unfold constructAxiom; by_cases he : ants.isEmpty = true
          · simp only [if_pos he]
          · simp only [if_neg he]
        · rw [flat_constructAxiom, hfl]
          intro y hy
          rcases List.mem_append.1 hy with hy | hy
          · rcases hants y hy with ⟨vs, rfl⟩ | ⟨l', ts', rfl⟩ <;> trivial
          · simp at hy; subst hy; trivial
        · rw [assertLabels, flat_constructAxiom]
          simp [List.filterMap_append, assertLabel?]
        · rw [flat_constructAxiom, flat, flatL_append, hfl]
          simp only [flatL, flat, List.append_nil, List.map_append, List.map_cons, List.map_nil, axify]
          congr 1
          have : ∀ (l : List MStmt), (∀ x ∈ l, (∃ vs, x = .disj vs) ∨ ∃ l' ts', x = .ess l' ts') →
              l = l.map axify := by
            intro l
            induction l with
            | nil => intro _; rfl
            | cons a l ih =>
              intro h
              rw [List.map_cons, ← ih (fun x hx => h x (List.mem_cons_of_mem _ hx))]
              rcases h a (by simp) with ⟨vs, rfl⟩ | ⟨l', ts', rfl⟩ <;> rfl
          exact this _ hants
        · intro t st hne
          have hlt : l ≠ t := by
            intro e; subst e
            exact hne ts pf (by simp [flat, flatL_append, flatL])
          have hblk : runStmt (some t) st (.block (ants ++ [.prov l ts pf])) =
              runStmt (some t) st (.block (ants ++ [.ax l ts])) := by
            simp only [runStmt, runStmts_append]
            cases runStmts (some t) st ants with
            | ok st' => simp only [runStmts, run_prov_eq_ax hlt]
            | done => rfl
            | fail => rfl
          rw [hblk]
          unfold constructAxiom
          split
          · next he =>
            have : ants = [] := by simpa using he
            subst this
            exact run_block_single_ax _ _ _ _
          · rfl
      · simp at h
    · simp at h

theorem mem_allLabels_of_flat {s y : MStmt} {l : String} (hy : y ∈ flat s) (hl : stmtLabel? y = some l) :
    l ∈ allLabels s := by
  simp only [allLabels, List.mem_filterMap]
  exact ⟨y, hy, hl⟩

theorem assertLabels_sub_allLabels {s : MStmt} {l : String} (h : l ∈ assertLabels s) : l ∈ allLabels s := by
  simp only [assertLabels, List.mem_filterMap] at h
  obtain ⟨y, hy, hl⟩ := h
  refine mem_allLabels_of_flat hy ?_
  cases y <;> simp [assertLabel?] at hl <;> simp [stmtLabel?, hl]

theorem allLabels_axify (l : List MStmt) : (l.map axify).filterMap stmtLabel? = l.filterMap stmtLabel? := by
  induction l with
  | nil => rfl
  | cons a l ih =>
    simp only [List.map_cons, List.filterMap_cons, ih]
    cases a <;> rfl

theorem cutVal_key {s : MStmt} {k : String} {v : MStmt} (h : cutVal s = some (some k, v)) : k ∈ allLabels s := by
  rcases cutVal_spec h with ⟨tc, x, rfl, _⟩ | ⟨ts, rfl, _⟩ | hc
  · simp [allLabels, flat, stmtLabel?]
  · simp [allLabels, flat, stmtLabel?]
  · have := assertLabels_sub_allLabels hc.key
    rw [allLabels, hc.flat_eq, allLabels_axify] at this
    exact this

/-! ## the run of the slicer -/

/-- the slicer's state after the top-level statements `pre` -/
structure Good (pre : List MStmt) (cut : Cut) : Prop where
  cut : cut = pre.filterMap cutVal
  shape : ∀ s ∈ pre, TopShape s

theorem mem_allLabelsL {l : String} {ss : List MStmt} : l ∈ allLabelsL ss ↔ ∃ s ∈ ss, l ∈ allLabels s := by
  induction ss with
  | nil => simp [allLabelsL, flatL]
  | cons a ss ih => rw [allLabelsL_cons, List.mem_append, ih]; simp

theorem labelKeys_cut_sub {pre : List MStmt} {k : String} (h : k ∈ labelKeys (pre.filterMap cutVal)) :
    k ∈ allLabelsL pre := by
  obtain ⟨v, hm⟩ := mem_labelKeys.1 h
  obtain ⟨s', hs', hcv⟩ := List.mem_filterMap.1 hm
  exact mem_allLabelsL.2 ⟨s', hs', cutVal_key hcv⟩

/-- where a slice comes from -/
theorem slice_origin {db : MDb} {deps : List (String × List String)} {incl excl : List String}
    {out : List (String × MDb)} {l : String} {sl : MDb} (hnd : (allLabelsL db).Nodup)
    (h : sliceDatabase db deps incl excl = some out) (hmem : (l, sl) ∈ out) :
    ∃ pre s post ants ts pf cut, db = pre ++ s :: post ∧
      deconstructProvable s = some (ants, .prov l ts pf) ∧ Good pre cut ∧
      supportingDb cut deps l ts pf ants = some sl := by
  obtain ⟨st, hP, e⟩ := sliceDatabase_inv
    (fun pre st => Good pre st.cut ∧ ∀ l sl, (l, sl) ∈ st.out →
      ∃ pre' s post' ants ts pf cut, pre = pre' ++ s :: post' ∧
        deconstructProvable s = some (ants, .prov l ts pf) ∧ Good pre' cut ∧
        supportingDb cut deps l ts pf ants = some sl)
    ⟨⟨rfl, by intro s hs; cases hs⟩, by intro l sl hm; cases hm⟩
    (by
      intro pre s post st st' hdb ⟨hG, hO⟩ hs
      obtain ⟨hcut, hshape⟩ := sliceStep_cut hs
      obtain ⟨_, hout⟩ := sliceStep_spec hs
      have hG' : Good (pre ++ [s]) st'.cut := by
        refine ⟨?_, ?_⟩
        · rw [hcut, List.filterMap_append]
          cases hcv : cutVal s with
          | none => simp [hG.cut, hcv, cutAdd]
          | some kv =>
            obtain ⟨ko, v⟩ := kv
            simp only [List.filterMap_cons, hcv, List.filterMap_nil]
            cases ko with
            | none => simp [cutAdd, hG.cut]
            | some k =>
              simp only [cutAdd]
              rw [dictSet_fresh, hG.cut]
              intro hk
              rw [hG.cut] at hk
              have h1 : k ∈ allLabelsL pre := labelKeys_cut_sub hk
              have h2 : k ∈ allLabels s := cutVal_key hcv
              rw [hdb, allLabelsL_append, allLabelsL_cons, List.nodup_append] at hnd
              exact hnd.2.2 k h1 k (List.mem_append_left _ h2) rfl
        · intro s' hs'
          rcases List.mem_append.1 hs' with hs' | hs'
          · exact hG.shape s' hs'
          · simp only [List.mem_singleton] at hs'; subst hs'; exact hshape
      refine ⟨hG', ?_⟩
      intro l sl hm
      rcases hout with hout | ⟨l', ts, pf, ants, sl', hd, hsup, hout⟩
      · rw [hout] at hm
        obtain ⟨pre', s', post', r⟩ := hO l sl hm
        obtain ⟨ants, ts, pf, cut, e, r⟩ := r
        exact ⟨pre', s', post' ++ [s], ants, ts, pf, cut, by rw [e]; simp, r⟩
      · rw [hout] at hm
        rcases List.mem_append.1 hm with hm | hm
        · obtain ⟨pre', s', post', r⟩ := hO l sl hm
          obtain ⟨ants, ts, pf, cut, e, r⟩ := r
          exact ⟨pre', s', post' ++ [s], ants, ts, pf, cut, by rw [e]; simp, r⟩
        · simp only [List.mem_singleton, Prod.mk.injEq] at hm
          obtain ⟨rfl, rfl⟩ := hm
          exact ⟨pre, s, [], ants, ts, pf, st.cut, rfl, hd, hG, hsup⟩)
    h
  subst e
  obtain ⟨pre', s, post', ants, ts, pf, cut, e, r⟩ := hP.2 l sl hmem
  exact ⟨pre', s, post', ants, ts, pf, cut, e, r⟩

/-! ## the top level: the database prefix against the kept statements -/

/-- top-level `$a`, `$p`, `${ … $}` -/
def IsCutShape : MStmt → Prop
  | .ax .. => True
  | .prov .. => True
  | .block _ => True
  | _ => False

theorem keepEntry_float_mvs {needed mvs : List String} {k : Option String} {l tc v : String} (hv : v ∈ mvs) :
    keepEntry needed mvs (k, .float l tc v) = some (.float l tc v) := by
  simp [keepEntry, hv]

theorem keepEntry_float_none {needed mvs : List String} {k l tc v : String} (hk : k ∉ needed) (hv : v ∉ mvs) :
    keepEntry needed mvs (some k, .float l tc v) = none := by
  simp [keepEntry, nameNeeded, hk, hv]

theorem keepEntry_other_none {needed mvs : List String} {k : String} {v : MStmt} (hk : k ∉ needed)
    (hv : match v with | .ax .. => True | .block _ => True | _ => False) :
    keepEntry needed mvs (some k, v) = none := by
  cases v <;> first | exact hv.elim | simp [keepEntry, nameNeeded, hk]

theorem mem_disjPairs_iff {vs : List String} {p : String × String} :
    p ∈ disjPairs vs ↔ p.1 < p.2 ∧ p.1 ∈ vs ∧ p.2 ∈ vs := by
  simp only [disjPairs, List.mem_flatMap, List.mem_map, List.mem_filter, decide_eq_true_eq]
  constructor
  · rintro ⟨a, ha, b, ⟨hb, hab⟩, rfl⟩
    exact ⟨hab, ha, hb⟩
  · rintro ⟨h1, h2, h3⟩
    exact ⟨p.1, h2, p.2, ⟨h3, h1⟩, rfl⟩

theorem length_gt_one_of_mem {r : List String} {a b : String} (ha : a ∈ r) (hb : b ∈ r) (hab : a ≠ b) :
    1 < r.length := by
  match r, ha, hb with
  | [x], ha, hb =>
    simp only [List.mem_singleton] at ha hb
    exact absurd (ha.trans hb.symm) hab
  | _ :: _ :: _, _, _ => simp

section Top
variable (Vdb mvs C2 needed : List String) (t : String) (pre : List MStmt)

/-- the kept statements that come from the top-level statements `p` -/
def keptL (p : List MStmt) : List MStmt := (p.filterMap cutVal).filterMap (keepEntry needed mvs)

/-- what the top-level simulation needs to know about the database prefix and the slice's declarations -/
structure TopHyp : Prop where
  kV : ∀ x ∈ mvs, x ∈ Vdb
  cV2 : ∀ x ∈ C2, x ∉ Vdb
  shape : ∀ s ∈ pre, TopShape s
  const : ∀ cs, MStmt.const cs ∈ pre → ∀ c ∈ cs, c ∉ Vdb
  var : ∀ vs, MStmt.var vs ∈ pre → ∀ x ∈ vs, x ∈ Vdb
  float : ∀ l tc v, MStmt.float l tc v ∈ pre → (v ∈ mvs → tc ∈ C2) ∧ (l ∈ needed → v ∈ mvs)
  ess : ∀ l ts, MStmt.ess l ts ∈ pre → l ∈ needed ∧ LeafOK Vdb mvs C2 Vdb t (.ess l ts)
  cutOK : ∀ s ∈ pre, ∀ k v, cutVal s = some (some k, v) → CutSpec s k v → k ∈ needed →
    ∀ y ∈ flat v, LeafOK Vdb mvs C2 Vdb t y
  notTarget : ∀ s ∈ pre, ∀ ts pf, MStmt.prov t ts pf ∉ flat s

/-- database state `S1` after the top-level statements `done`, slice state `S2` after the kept ones among them -/
structure TopRel (done : List MStmt) (S1 S2 : VState) : Prop where
  inv1 : VInv S1
  inv2 : VInv S2
  ctx : CtxRel Vdb mvs C2 Vdb S1.ctx S2.ctx
  fT : ∀ f ∈ S2.ctx.f, f.2.1 ∈ C2
  seen : ∀ x ∈ S2.seen, x ∈ S1.seen
  asserts : ∀ l a2, (l, a2) ∈ S2.asserts → ∃ a1, (l, a1) ∈ S1.asserts ∧ ASim Vdb mvs C2 a1 a2
  reg : ∀ s ∈ done, ∀ k v, cutVal s = some (some k, v) → k ∈ needed →
    (∃ e, (k, e) ∈ entries S2) ∧ ∀ x ∈ stmtMvs v, x ∈ S1.ctx.v

variable {Vdb mvs C2 needed t pre}

theorem keptL_single {s : MStmt} {kv : Option String × MStmt} (h : cutVal s = some kv) :
    keptL mvs needed [s] = (keepEntry needed mvs kv).toList := by
  simp only [keptL, List.filterMap_cons, h, List.filterMap_nil]
  cases keepEntry needed mvs kv <;> rfl

theorem keptL_cons (s : MStmt) (p : List MStmt) :
    keptL mvs needed (s :: p) = keptL mvs needed [s] ++ keptL mvs needed p := by
  simp only [keptL]
  rw [show s :: p = [s] ++ p from rfl, List.filterMap_append, List.filterMap_append]

/-- a top-level `$a`, `$p` or block -/
theorem top_step_cut (H : TopHyp Vdb mvs C2 needed t pre) {done : List MStmt} {S1 S1m S2 : VState}
    {s : MStmt} {post : List MStmt} (hpre : pre = done ++ s :: post)
    (R : TopRel Vdb mvs C2 needed done S1 S2) (h : runStmt (some t) S1 s = .ok S1m)
    (hshape : IsCutShape s)
    (inv1m : VInv S1m) (mono1 : StMono S1 S1m) :
    ∃ S2m, runStmts (some t) S2 (keptL mvs needed [s]) = .ok S2m ∧
      TopRel Vdb mvs C2 needed (done ++ [s]) S1m S2m := by
  have hsm : s ∈ pre := by rw [hpre]; simp
  have hctx1 : S1m.ctx = S1.ctx := run_ctx_eq (by cases s <;> first | exact hshape.elim | trivial) h
  have hsome : (cutVal s).isSome = true := by
    cases s <;> first | exact hshape.elim | exact H.shape _ hsm
  obtain ⟨⟨ko, v⟩, hcv⟩ := Option.isSome_iff_exists.1 hsome
  obtain ⟨k, rfl⟩ : ∃ k, ko = some k := by
    cases ko with
    | some k => exact ⟨k, rfl⟩
    | none =>
      obtain ⟨vs, rfl, _⟩ := cutVal_none_key hcv
      exact hshape.elim
  have hc : CutSpec s k v := by
    rcases cutVal_spec hcv with ⟨tc, x, rfl, _⟩ | ⟨ts, rfl, _⟩ | hc
    · exact hshape.elim
    · exact hshape.elim
    · exact hc
  by_cases hk : k ∈ needed
  · have hkept : keptL mvs needed [s] = [v] := by
      rw [keptL_single hcv, keepEntry_needed hk (by
        intro vs e
        have := hc.vshape
        rw [e] at this; exact this)]; rfl
    have hrun1 : runStmt (some t) S1 v = .ok S1m := by
      rw [← hc.run t S1 (H.notTarget s hsm)]; exact h
    obtain ⟨S2m, hrun2, res⟩ := sim_stmt H.kV H.cV2 t v S1 S1m S2 (H.cutOK s hsm k v hcv hc hk)
      R.ctx R.seen hrun1
    have hctx2 : S2m.ctx = S2.ctx := run_ctx_eq (by
      have := hc.vshape
      cases v <;> first | exact this.elim | trivial) hrun2
    obtain ⟨inv2m, mono2⟩ := runStmt_inv (some t) v S2 S2m hrun2 R.inv2
    obtain ⟨n1, n2, en1, en2, k1, k2, hs⟩ := res.asserts
    refine ⟨S2m, by rw [hkept]; simp only [runStmts, hrun2], ?_⟩
    exact {
      inv1 := inv1m
      inv2 := inv2m
      ctx := res.ctx
      fT := by rw [hctx2]; exact R.fT
      seen := res.seen
      asserts := by
        intro l a2 hm
        rw [en2] at hm
        rcases List.mem_append.1 hm with hm | hm
        · obtain ⟨a1, h1, h2⟩ := R.asserts l a2 hm
          exact ⟨a1, mono1.a _ h1, h2⟩
        · obtain ⟨a1, h1, h2⟩ := hs l a2 hm
          exact ⟨a1, by rw [en1]; exact List.mem_append_right _ h1, h2⟩
      reg := by
        intro s' hs' k' v' hcv' hk'
        rcases List.mem_append.1 hs' with hs' | hs'
        · obtain ⟨⟨e, he⟩, h2⟩ := R.reg s' hs' k' v' hcv' hk'
          exact ⟨⟨e, mono2.entries _ he⟩, by rw [hctx1]; exact h2⟩
        · simp only [List.mem_singleton] at hs'; subst hs'
          rw [hcv] at hcv'
          simp only [Option.some.injEq, Prod.mk.injEq] at hcv'
          obtain ⟨rfl, rfl⟩ := hcv'
          refine ⟨?_, by rw [hctx1]; exact res.mv⟩
          have hkk : k ∈ n2.map (·.1) := by rw [k2]; exact hc.key
          obtain ⟨⟨k', a2⟩, hm, e⟩ := List.mem_map.1 hkk
          simp only at e; subst e
          exact ⟨.a a2, mem_entries.2 (Or.inr (Or.inr ⟨(k', a2), by rw [en2]; exact List.mem_append_right _ hm, rfl⟩))⟩ }
  · have hkept : keptL mvs needed [s] = [] := by
      rw [keptL_single hcv, keepEntry_other_none hk hc.vshape]; rfl
    refine ⟨S2, by rw [hkept]; rfl, ?_⟩
    exact {
      inv1 := inv1m
      inv2 := R.inv2
      ctx := by rw [hctx1]; exact R.ctx
      fT := R.fT
      seen := fun x hx => mono1.s x (R.seen x hx)
      asserts := by
        intro l a2 hm
        obtain ⟨a1, h1, h2⟩ := R.asserts l a2 hm
        exact ⟨a1, mono1.a _ h1, h2⟩
      reg := by
        intro s' hs' k' v' hcv' hk'
        rcases List.mem_append.1 hs' with hs' | hs'
        · obtain ⟨h1, h2⟩ := R.reg s' hs' k' v' hcv' hk'
          exact ⟨h1, by rw [hctx1]; exact h2⟩
        · simp only [List.mem_singleton] at hs'; subst hs'
          rw [hcv] at hcv'
          simp only [Option.some.injEq, Prod.mk.injEq] at hcv'
          obtain ⟨rfl, rfl⟩ := hcv'
          exact absurd hk' hk }

/-- one top-level statement -/
theorem top_step (H : TopHyp Vdb mvs C2 needed t pre) {done : List MStmt} {S1 S1m S2 : VState}
    {s : MStmt} {post : List MStmt} (hpre : pre = done ++ s :: post)
    (R : TopRel Vdb mvs C2 needed done S1 S2) (h : runStmt (some t) S1 s = .ok S1m) :
    ∃ S2m, runStmts (some t) S2 (keptL mvs needed [s]) = .ok S2m ∧
      TopRel Vdb mvs C2 needed (done ++ [s]) S1m S2m := by
  have hsm : s ∈ pre := by rw [hpre]; simp
  obtain ⟨inv1m, mono1⟩ := runStmt_inv (some t) s S1 S1m h R.inv1
  -- `$c`, `$v`: nothing happens in the slice
  have nokeep : cutVal s = none → CtxRel Vdb mvs C2 Vdb S1m.ctx S2.ctx → (∀ x ∈ S1.ctx.v, x ∈ S1m.ctx.v) →
      ∃ S2m, runStmts (some t) S2 (keptL mvs needed [s]) = .ok S2m ∧
        TopRel Vdb mvs C2 needed (done ++ [s]) S1m S2m := by
    intro hcv hctx hvm
    refine ⟨S2, by simp [keptL, hcv, runStmts], ?_⟩
    exact {
      inv1 := inv1m
      inv2 := R.inv2
      ctx := hctx
      fT := R.fT
      seen := fun x hx => mono1.s x (R.seen x hx)
      asserts := by
        intro l a2 hm
        obtain ⟨a1, h1, h2⟩ := R.asserts l a2 hm
        exact ⟨a1, mono1.a _ h1, h2⟩
      reg := by
        intro s' hs' k v hcv' hk
        rcases List.mem_append.1 hs' with hs' | hs'
        · obtain ⟨h1, h2⟩ := R.reg s' hs' k v hcv' hk
          exact ⟨h1, fun x hx => hvm x (h2 x hx)⟩
        · simp only [List.mem_singleton] at hs'; subst hs'
          rw [hcv] at hcv'; cases hcv' }
  cases s with
  | const cs =>
    simp only [runStmt] at h; injection h with h; subst h
    refine nokeep rfl ?_ (fun x hx => hx)
    exact { R.ctx with
      cV := by
        intro x hx
        rcases List.mem_append.1 hx with hx | hx
        · exact R.ctx.cV x hx
        · exact H.const cs hsm x hx }
  | var vs =>
    simp only [runStmt] at h; injection h with h; subst h
    refine nokeep rfl ?_ (fun x hx => List.mem_append_left _ hx)
    have hvs : ∀ x ∈ vs, x ∈ Vdb := H.var vs hsm
    have key : ∀ e ∈ S1.ctx.e, varsOf (S1.ctx.v ++ vs) e.2 = varsOf S1.ctx.v e.2 := by
      intro e he
      unfold varsOf
      apply List.filter_congr
      intro x hx
      by_cases h1 : x ∈ S1.ctx.v
      · simp [h1]
      · have h2 : x ∉ vs := by
          intro hxv
          apply h1
          rcases R.ctx.eT e he x hx with hm | hm
          · have : x ∈ varsOf S2.ctx.v e.2 := mem_varsOf.2 ⟨hx, (R.ctx.vK x).2 hm⟩
            rw [← R.ctx.eV e he] at this
            exact (mem_varsOf.1 this).2
          · exact absurd (hvs x hxv) hm.2
        simp [h1, h2]
    exact { R.ctx with
      vV := by
        intro x hx
        rcases List.mem_append.1 hx with hx | hx
        · exact R.ctx.vV x hx
        · exact hvs x hx
      eM := by
        intro e he x hx
        rcases List.mem_append.1 (mem_varsOf.1 hx).2 with h1 | h1
        · exact R.ctx.vV x h1
        · exact hvs x h1
      eV := by
        intro e he
        show varsOf (S1.ctx.v ++ vs) e.2 = _
        rw [key e he]; exact R.ctx.eV e he }
  | disj vs =>
    simp only [runStmt] at h
    split at h
    · next hchk =>
      injection h with h; subst h
      have hcvs : cutVal (.disj vs) = some (none, .disj vs) := rfl
      have hsub : ∀ p ∈ disjPairs (vs.filter fun v => mvs.contains v), p ∈ disjPairs vs := by
        intro p hp
        obtain ⟨h1, h2, h3⟩ := mem_disjPairs_iff.1 hp
        exact mem_disjPairs_iff.2 ⟨h1, (List.mem_filter.1 h2).1, (List.mem_filter.1 h3).1⟩
      have hin : ∀ p ∈ disjPairs vs, p.1 ∈ mvs → p.2 ∈ mvs →
          p ∈ disjPairs (vs.filter fun v => mvs.contains v) ∧ 1 < (vs.filter fun v => mvs.contains v).length := by
        intro p hp h1 h2
        obtain ⟨hlt, ha, hb⟩ := mem_disjPairs_iff.1 hp
        have ha' : p.1 ∈ vs.filter fun v => mvs.contains v := List.mem_filter.2 ⟨ha, by simpa using h1⟩
        have hb' : p.2 ∈ vs.filter fun v => mvs.contains v := List.mem_filter.2 ⟨hb, by simpa using h2⟩
        refine ⟨mem_disjPairs_iff.2 ⟨hlt, ha', hb'⟩, length_gt_one_of_mem ha' hb' ?_⟩
        intro e; rw [e] at hlt; exact absurd hlt (String.lt_irrefl _)
      have regD : ∀ (S2m : VState), (∀ p ∈ entries S2, p ∈ entries S2m) →
          ∀ s' ∈ done ++ [MStmt.disj vs], ∀ k v, cutVal s' = some (some k, v) → k ∈ needed →
          (∃ e, (k, e) ∈ entries S2m) ∧ ∀ x ∈ stmtMvs v, x ∈ S1.ctx.v := by
        intro S2m hmono s' hs' k v hcv' hk
        rcases List.mem_append.1 hs' with hs' | hs'
        · obtain ⟨⟨e, he⟩, h2⟩ := R.reg s' hs' k v hcv' hk
          exact ⟨⟨e, hmono _ he⟩, h2⟩
        · simp only [List.mem_singleton] at hs'; subst hs'
          rw [hcvs] at hcv'; cases hcv'
      by_cases hlen : 1 < (vs.filter fun v => mvs.contains v).length
      · have hkept : keptL mvs needed [.disj vs] = [.disj (vs.filter fun v => mvs.contains v)] := by
          rw [keptL_single hcvs, keepEntry_disj, if_pos hlen]; rfl
        have hchk2 : ((vs.filter fun v => mvs.contains v).all fun t => S2.ctx.v.contains t) = true := by
          rw [List.all_eq_true]; intro x hx
          exact List.contains_iff_mem.2 ((R.ctx.vK x).2 (by simpa using (List.mem_filter.1 hx).2))
        have hrun2 : runStmt (some t) S2 (.disj (vs.filter fun v => mvs.contains v)) = .ok
            ⟨⟨S2.ctx.c, S2.ctx.v, S2.ctx.d ++ disjPairs (vs.filter fun v => mvs.contains v), S2.ctx.f, S2.ctx.e⟩,
              S2.asserts, S2.seen⟩ := by
          simp only [runStmt, if_pos hchk2]
        obtain ⟨inv2m, mono2⟩ := runStmt_inv (some t) _ S2 _ hrun2 R.inv2
        refine ⟨⟨⟨S2.ctx.c, S2.ctx.v, S2.ctx.d ++ disjPairs (vs.filter fun v => mvs.contains v), S2.ctx.f, S2.ctx.e⟩,
              S2.asserts, S2.seen⟩, by rw [hkept]; simp only [runStmts, hrun2], ?_⟩
        exact {
          inv1 := inv1m
          inv2 := inv2m
          ctx := { R.ctx with
            d21 := by
              intro p hp h1 h2
              rcases List.mem_append.1 hp with hp | hp
              · exact List.mem_append_left _ (R.ctx.d21 p hp h1 h2)
              · exact List.mem_append_right _ (hsub p hp)
            d12 := by
              intro p hp h1 h2
              rcases List.mem_append.1 hp with hp | hp
              · exact List.mem_append_left _ (R.ctx.d12 p hp h1 h2)
              · exact List.mem_append_right _ (hin p hp h1 h2).1 }
          fT := R.fT
          seen := R.seen
          asserts := R.asserts
          reg := regD _ mono2.entries }
      · have hkept : keptL mvs needed [.disj vs] = [] := by
          rw [keptL_single hcvs, keepEntry_disj, if_neg hlen]; rfl
        refine ⟨S2, by rw [hkept]; rfl, ?_⟩
        exact {
          inv1 := inv1m
          inv2 := R.inv2
          ctx := { R.ctx with
            d21 := by
              intro p hp h1 h2
              exact List.mem_append_left _ (R.ctx.d21 p hp h1 h2)
            d12 := by
              intro p hp h1 h2
              rcases List.mem_append.1 hp with hp | hp
              · exact R.ctx.d12 p hp h1 h2
              · exact absurd (hin p hp h1 h2).2 hlen }
          fT := R.fT
          seen := R.seen
          asserts := R.asserts
          reg := regD S2 (fun _ h => h) }
    · cases h
  | ess l ts =>
    obtain ⟨hln, hleaf⟩ := H.ess l ts hsm
    have hcvs : cutVal (.ess l ts) = some (some l, .ess l ts) := rfl
    have hkept : keptL mvs needed [.ess l ts] = [.ess l ts] := by
      rw [keptL_single hcvs, keepEntry_needed hln (by intro vs e; cases e)]; rfl
    obtain ⟨S2m, hrun2, res⟩ := sim_stmt H.kV H.cV2 t (.ess l ts) S1 S1m S2
      (by intro y hy; simp only [flat, List.mem_singleton] at hy; subst hy; exact hleaf) R.ctx R.seen h
    obtain ⟨inv2m, mono2⟩ := runStmt_inv (some t) _ S2 S2m hrun2 R.inv2
    obtain ⟨n1, n2, en1, en2, _, k2, _⟩ := res.asserts
    have hn2 : n2 = [] := by
      have : assertLabels (.ess l ts) = [] := by simp [assertLabels, flat, assertLabel?]
      rw [this] at k2; exact List.map_eq_nil_iff.1 k2
    have he1 : (l, printTerms ts) ∈ S1m.ctx.e := by
      simp only [runStmt] at h
      split at h
      · injection h with h; subst h; simp
      · cases h
    refine ⟨S2m, by rw [hkept]; simp only [runStmts, hrun2], ?_⟩
    exact {
      inv1 := inv1m
      inv2 := inv2m
      ctx := res.ctx
      fT := by
        intro f hf
        rw [res.ctx.fF, res.f1, ← R.ctx.fF] at hf
        exact R.fT f hf
      seen := res.seen
      asserts := by
        intro l' a2 hm
        rw [en2, hn2, List.append_nil] at hm
        obtain ⟨a1, h1, h2⟩ := R.asserts l' a2 hm
        exact ⟨a1, mono1.a _ h1, h2⟩
      reg := by
        intro s' hs' k v hcv' hk
        rcases List.mem_append.1 hs' with hs' | hs'
        · obtain ⟨⟨e, he⟩, h2⟩ := R.reg s' hs' k v hcv' hk
          exact ⟨⟨e, mono2.entries _ he⟩, by rw [res.v1]; exact h2⟩
        · simp only [List.mem_singleton] at hs'; subst hs'
          rw [hcvs] at hcv'
          simp only [Option.some.injEq, Prod.mk.injEq] at hcv'
          obtain ⟨rfl, rfl⟩ := hcv'
          refine ⟨⟨.e (printTerms ts), mem_entries.2 (Or.inr (Or.inl ⟨(l, printTerms ts), ?_, rfl⟩))⟩, ?_⟩
          · rw [res.ctx.eE]; exact he1
          · rw [res.v1]; exact res.mv }
  | float l tc v =>
    simp only [runStmt] at h
    split at h
    · next hc =>
      injection h with h; subst h
      simp only [Bool.and_eq_true, Bool.not_eq_true', List.contains_iff_mem] at hc
      obtain ⟨⟨hchk, hv1⟩, hl1⟩ := hc
      have hl1' : l ∉ S1.seen := not_mem_of_contains_false hl1
      obtain ⟨hf1, hf2⟩ := H.float l tc v hsm
      have hcvs : cutVal (.float l tc v) = some (some l, .float l tc v) := rfl
      by_cases hvm : v ∈ mvs
      · -- the floating statement is kept
        have hkept : keptL mvs needed [.float l tc v] = [.float l tc v] := by
          rw [keptL_single hcvs, keepEntry_float_mvs hvm]; rfl
        have htc : tc ∈ C2 := hf1 hvm
        have hchk2 : checkSymbols S2.ctx [tc, v] false = true := by
          rw [checkSymbols_iff]
          refine ⟨⟨tc, [v], rfl, (R.ctx.cC tc).2 htc⟩, ?_⟩
          intro x hx
          simp only [List.mem_cons, List.not_mem_nil, or_false] at hx
          rcases hx with rfl | rfl
          · have : x ∉ S2.ctx.v := fun hh => H.cV2 x htc (H.kV x ((R.ctx.vK x).1 hh))
            exact ⟨fun hh => this hh.2, Or.inl ((R.ctx.cC x).2 htc), fun hh => by cases hh⟩
          · have : x ∉ S2.ctx.c := fun hh => H.cV2 x ((R.ctx.cC x).1 hh) (H.kV x hvm)
            exact ⟨fun hh => this hh.1, Or.inr ((R.ctx.vK x).2 hvm), fun hh => by cases hh⟩
        have hl2 : S2.seen.contains l = false := by
          cases hb : S2.seen.contains l with
          | false => rfl
          | true => exact absurd (R.seen l (List.contains_iff_mem.1 hb)) hl1'
        have hrun2 : runStmt (some t) S2 (.float l tc v) = .ok
            ⟨⟨S2.ctx.c, S2.ctx.v, S2.ctx.d, S2.ctx.f ++ [(l, tc, v)], S2.ctx.e⟩, S2.asserts, S2.seen ++ [l]⟩ := by
          simp only [runStmt, hchk2, List.contains_iff_mem.2 ((R.ctx.vK v).2 hvm), hl2]
          rfl
        obtain ⟨inv2m, mono2⟩ := runStmt_inv (some t) _ S2 _ hrun2 R.inv2
        refine ⟨⟨⟨S2.ctx.c, S2.ctx.v, S2.ctx.d, S2.ctx.f ++ [(l, tc, v)], S2.ctx.e⟩, S2.asserts, S2.seen ++ [l]⟩,
          by rw [hkept]; simp only [runStmts, hrun2], ?_⟩
        exact {
          inv1 := inv1m
          inv2 := inv2m
          ctx := { R.ctx with
            fF := by
              show S2.ctx.f ++ [(l, tc, v)] = (S1.ctx.f ++ [(l, tc, v)]).filter _
              rw [List.filter_append, ← R.ctx.fF]
              simp [hvm] }
          fT := by
            intro f hf
            rcases List.mem_append.1 hf with hf | hf
            · exact R.fT f hf
            · simp only [List.mem_singleton] at hf; subst hf; exact htc
          seen := by
            intro x hx
            rcases List.mem_append.1 hx with hx | hx
            · exact List.mem_append_left _ (R.seen x hx)
            · exact List.mem_append_right _ hx
          asserts := R.asserts
          reg := by
            intro s' hs' k v' hcv' hk
            rcases List.mem_append.1 hs' with hs' | hs'
            · obtain ⟨⟨e, he⟩, h2⟩ := R.reg s' hs' k v' hcv' hk
              exact ⟨⟨e, mono2.entries _ he⟩, h2⟩
            · simp only [List.mem_singleton] at hs'; subst hs'
              rw [hcvs] at hcv'
              simp only [Option.some.injEq, Prod.mk.injEq] at hcv'
              obtain ⟨rfl, rfl⟩ := hcv'
              refine ⟨⟨.f tc v, mem_entries.2 (Or.inl ⟨(l, tc, v), by simp, rfl⟩)⟩, ?_⟩
              intro x hx
              simp only [stmtMvs, List.mem_singleton] at hx
              subst hx; exact hv1 }
      · -- not kept
        have hln : l ∉ needed := fun hn => hvm (hf2 hn)
        have hkept : keptL mvs needed [.float l tc v] = [] := by
          rw [keptL_single hcvs, keepEntry_float_none hln hvm]; rfl
        refine ⟨S2, by rw [hkept]; rfl, ?_⟩
        exact {
          inv1 := inv1m
          inv2 := R.inv2
          ctx := { R.ctx with
            fF := by
              show S2.ctx.f = (S1.ctx.f ++ [(l, tc, v)]).filter _
              rw [List.filter_append, ← R.ctx.fF]
              simp [hvm] }
          fT := R.fT
          seen := fun x hx => List.mem_append_left _ (R.seen x hx)
          asserts := R.asserts
          reg := by
            intro s' hs' k v' hcv' hk
            rcases List.mem_append.1 hs' with hs' | hs'
            · exact R.reg s' hs' k v' hcv' hk
            · simp only [List.mem_singleton] at hs'; subst hs'
              rw [hcvs] at hcv'
              simp only [Option.some.injEq, Prod.mk.injEq] at hcv'
              obtain ⟨rfl, rfl⟩ := hcv'
              exact absurd hk hln }
    · cases h
  | ax l ts => exact top_step_cut H hpre R h trivial inv1m mono1
  | prov l ts pf => exact top_step_cut H hpre R h trivial inv1m mono1
  | block ss => exact top_step_cut H hpre R h trivial inv1m mono1

/-- the whole prefix -/
theorem top_sim (H : TopHyp Vdb mvs C2 needed t pre) : ∀ (p done : List MStmt) (S1 S1' S2 : VState),
    pre = done ++ p → TopRel Vdb mvs C2 needed done S1 S2 → runStmts (some t) S1 p = .ok S1' →
    ∃ S2', runStmts (some t) S2 (keptL mvs needed p) = .ok S2' ∧ TopRel Vdb mvs C2 needed pre S1' S2'
  | [], done, S1, S1', S2, hpre, R, h => by
      simp only [runStmts] at h; injection h with h; subst h
      simp only [List.append_nil] at hpre; subst hpre
      exact ⟨S2, rfl, R⟩
  | s :: p, done, S1, S1', S2, hpre, R, h => by
      simp only [runStmts] at h
      split at h
      · next S1m h1 =>
        obtain ⟨S2m, hr2, Rm⟩ := top_step H hpre R h1
        obtain ⟨S2', hr2', R'⟩ := top_sim H p (done ++ [s]) S1m S1' S2m (by rw [hpre]; simp) Rm h
        refine ⟨S2', ?_, R'⟩
        rw [keptL_cons, runStmts_append, hr2]
        exact hr2'
      · cases h
      · cases h

end Top

/-! ## small facts used by the main proof -/

theorem runSteps_lookup {look : String → Option VEntry} {vars : List String} {d : List (String × String)} :
    ∀ (steps : List PStep) (stack saved r : List (List String)),
      runSteps look vars d steps stack saved = some r → ∀ l, PStep.lab l ∈ steps → ∃ e, look l = some e
  | [], _, _, _, _, l, hl => by cases hl
  | .save :: rest, stack, saved, r, h, l, hl => by
      cases stack with
      | nil => simp [runSteps] at h
      | cons top stack' =>
        simp only [runSteps] at h
        rcases List.mem_cons.1 hl with hl | hl
        · cases hl
        · exact runSteps_lookup rest _ _ r h l hl
  | .lab l' :: rest, stack, saved, r, h, l, hl => by
      simp only [runSteps] at h
      split at h
      · cases h
      · next e he =>
        split at h
        · cases h
        · rcases List.mem_cons.1 hl with hl | hl
          · injection hl with hl; subst hl; exact ⟨e, he⟩
          · exact runSteps_lookup rest _ _ r h l hl
  | .load j :: rest, stack, saved, r, h, l, hl => by
      simp only [runSteps] at h
      split at h
      · cases h
      · rcases List.mem_cons.1 hl with hl | hl
        · cases hl
        · exact runSteps_lookup rest _ _ r h l hl

theorem resolveStep_lab {table : List String} {n : Nat} {l : String} (h : resolveStep table n = .lab l) :
    l ∈ table := by
  unfold resolveStep at h
  split at h
  · cases h
  · split at h
    · next l' hl => injection h with h; subst h; exact List.mem_of_getElem? hl
    · cases h

theorem parseLabels_spec : ∀ (rest acc ls body : List String), parseLabels rest acc = some (ls, body) →
    ∃ j, rest.idxOf? ")" = some j ∧ ls = acc.reverse ++ rest.take j
  | [], _, _, _, h => by simp [parseLabels] at h
  | x :: rest, acc, ls, body, h => by
      by_cases hx : x = ")"
      · subst hx
        simp only [parseLabels, Option.some.injEq, Prod.mk.injEq] at h
        exact ⟨0, by simp [List.idxOf?_cons], by simp [h.1]⟩
      · have : parseLabels (x :: rest) acc = parseLabels rest (x :: acc) := by
          rw [parseLabels.eq_def]
          split
          · next heq => simp at heq
          · next heq => simp only [List.cons.injEq] at heq; exact absurd heq.1 hx
          · next heq => simp only [List.cons.injEq] at heq; obtain ⟨rfl, rfl⟩ := heq; rfl
        rw [this] at h
        obtain ⟨j, hj, hl⟩ := parseLabels_spec rest (x :: acc) ls body h
        refine ⟨j + 1, ?_, ?_⟩
        · rw [List.idxOf?_cons]
          have : (x == ")") = false := by simpa using hx
          simp [this, hj]
        · rw [hl]; simp

/-- the labels of a compressed proof, as the verifier and as the slicer read them -/
theorem proofLabels_compressed {rest labels ls body : List String}
    (h1 : proofLabels ("(" :: rest) = some labels) (h2 : parseLabels rest [] = some (ls, body)) : ls = labels := by
  obtain ⟨j, hj, hl⟩ := parseLabels_spec rest [] ls body h2
  simp only [proofLabels, List.isEmpty_cons, Bool.false_eq_true, if_false, List.idxOf?_cons, beq_self_eq_true,
    if_true, List.drop_succ_cons, List.drop_zero, hj, Option.isNone_some, Bool.false_and] at h1
  injection h1 with h1
  rw [hl, ← h1]; simp

/-- a proof the slicer accepts contains a `)` -/
theorem proofLabels_paren {pf labels : List String} (h : proofLabels pf = some labels) : ")" ∈ pf := by
  unfold proofLabels at h
  split at h
  · cases h
  · simp only at h
    cases hs : pf.idxOf? "(" with
    | none =>
      simp only [hs] at h
      split at h
      · cases h
      · next j hj =>
        by_cases hc : ")" ∈ pf
        · exact hc
        · rw [List.idxOf?_eq_none_iff.2 hc] at hj; cases hj
    | some i =>
      simp only [hs] at h
      split at h
      · cases h
      · next j hj =>
        by_cases hc : ")" ∈ pf.drop (i + 1)
        · exact List.mem_of_mem_drop hc
        · rw [List.idxOf?_eq_none_iff.2 hc] at hj; cases hj

theorem leafOk_axify (V : List String) (y : MStmt) : leafOk V (axify y) = leafOk V y := by
  cases y <;> rfl

theorem leafMvs_axify (y : MStmt) : leafMvs (axify y) = leafMvs y := by
  cases y <;> rfl

theorem leafConsts_axify (y : MStmt) : leafConsts (axify y) = leafConsts y := by
  cases y <;> rfl

theorem leafOk_mvs {V : List String} {y : MStmt} (h : leafOk V y = true) : ∀ x ∈ leafMvs y, x ∈ V := by
  cases y with
  | disj vs =>
    intro x hx
    exact List.contains_iff_mem.1 (List.all_eq_true.1 h x hx)
  | float l tc v =>
    simp only [leafOk, Bool.and_eq_true] at h
    intro x hx
    simp only [leafMvs, List.mem_singleton] at hx
    subst hx
    exact List.contains_iff_mem.1 h.2
  | ess l ts => exact (termsOk_spec V ts h).2
  | ax l ts => exact (termsOk_spec V ts h).2
  | prov l ts pf => exact (termsOk_spec V ts h).2
  | _ => intro x hx; cases hx

theorem leafOk_consts {V : List String} {y : MStmt} (h : leafOk V y = true) : ∀ c ∈ leafConsts y, c ∉ V := by
  cases y with
  | float l tc v =>
    simp only [leafOk, Bool.and_eq_true, Bool.not_eq_true'] at h
    intro x hx
    simp only [leafConsts, List.mem_singleton] at hx
    subst hx
    exact not_mem_of_contains_false h.1
  | ess l ts => exact (termsOk_spec V ts h).1
  | ax l ts => exact (termsOk_spec V ts h).1
  | prov l ts pf => exact (termsOk_spec V ts h).1
  | _ => intro x hx; cases hx

theorem mapM_mem_out {α β : Type} (f : α → Option β) : ∀ (l : List α) (ys : List β), l.mapM f = some ys →
    ∀ y ∈ ys, ∃ x ∈ l, f x = some y
  | [], ys, h, y, hy => by simp at h; subst h; cases hy
  | a :: l, ys, h, y, hy => by
      rw [List.mapM_cons] at h
      simp only [Option.bind_eq_bind, Option.bind_eq_some_iff, Option.pure_def] at h
      obtain ⟨y', hy', ys', hys', e⟩ := h
      injection e with e; subst e
      rcases List.mem_cons.1 hy with rfl | hy
      · exact ⟨a, by simp, hy'⟩
      · obtain ⟨x, hx, hfx⟩ := mapM_mem_out f l ys' hys' y hy
        exact ⟨x, List.mem_cons_of_mem _ hx, hfx⟩

theorem nodup_cut_keys : ∀ (pre : List MStmt), (allLabelsL pre).Nodup → (labelKeys (pre.filterMap cutVal)).Nodup
  | [], _ => by simp [labelKeys]
  | s :: pre, h => by
      rw [allLabelsL_cons, List.nodup_append] at h
      have ih := nodup_cut_keys pre h.2.1
      rw [List.filterMap_cons]
      cases hcv : cutVal s with
      | none => exact ih
      | some kv =>
        obtain ⟨ko, v⟩ := kv
        cases ko with
        | none => simpa [labelKeys] using ih
        | some k =>
          simp only [labelKeys, List.filterMap_cons, List.nodup_cons]
          refine ⟨?_, ih⟩
          intro hk
          exact h.2.2 k (cutVal_key hcv) k (labelKeys_cut_sub hk) rfl

/-! ## the pieces of a slice -/

theorem mem_flatL_of_mem {db : MDb} {s y : MStmt} (hs : s ∈ db) (hy : y ∈ flat s) : y ∈ flatL db :=
  mem_flatL.2 ⟨s, hs, hy⟩

/-- the lemma's own statement -/
theorem flat_lemma_stmt {s : MStmt} {ants : List MStmt} {l : String} {ts : List MTerm} {pf : List String}
    (hdec : deconstructProvable s = some (ants, .prov l ts pf)) :
    flat s = ants ++ [.prov l ts pf] ∧ flatL ants = ants ∧
      (∀ x ∈ ants, (∃ vs, x = .disj vs) ∨ ∃ l' ts', x = .ess l' ts') ∧
      ((s = .prov l ts pf ∧ ants = []) ∨ s = .block (ants ++ [.prov l ts pf])) := by
  obtain ⟨l', ts', pf', e, hs, hants⟩ := deconstructProvable_spec hdec
  injection e with e1 e2 e3; subst e1 e2 e3
  have hfl := flatL_leaves hants
  refine ⟨?_, hfl, hants, hs⟩
  rcases hs with ⟨rfl, rfl⟩ | rfl
  · simp [flat]
  · simp [flat, flatL_append, hfl, flatL]

/-- the entries of `cut_antecedents` the slice needs -/
theorem needed_facts {pre : List MStmt} {cut : Cut} {needed : List String} {neededStmts : List MStmt}
    (hG : Good pre cut) (hnd : (allLabelsL pre).Nodup)
    (hn : needed.mapM (fun l => cut.lookup (some l)) = some neededStmts) :
    (∀ k ∈ needed, ∃ n ∈ neededStmts, ∃ s' ∈ pre, cutVal s' = some (some k, n)) ∧
    (∀ n ∈ neededStmts, ∃ k ∈ needed, ∃ s' ∈ pre, cutVal s' = some (some k, n)) ∧
    (∀ s' ∈ pre, ∀ k v, cutVal s' = some (some k, v) → k ∈ needed → v ∈ neededStmts) := by
  have hsrc : ∀ k n, cut.lookup (some k) = some n → ∃ s' ∈ pre, cutVal s' = some (some k, n) := by
    intro k n h
    have := lookup_mem _ _ _ h
    rw [hG.cut] at this
    obtain ⟨s', hs', hcv⟩ := List.mem_filterMap.1 this
    exact ⟨s', hs', hcv⟩
  refine ⟨?_, ?_, ?_⟩
  · intro k hk
    obtain ⟨n, h1, h2⟩ := mapM_lookup_mem _ _ _ hn k hk
    exact ⟨n, h2, hsrc k n h1⟩
  · intro n hn'
    obtain ⟨k, hk, h1⟩ := mapM_mem_out _ _ _ hn n hn'
    exact ⟨k, hk, hsrc k n h1⟩
  · intro s' hs' k v hcv hk
    obtain ⟨n, h1, h2⟩ := mapM_lookup_mem _ _ _ hn k hk
    have hmem : (some k, v) ∈ cut := by rw [hG.cut]; exact List.mem_filterMap.2 ⟨s', hs', hcv⟩
    have hkeys : (labelKeys cut).Nodup := by rw [hG.cut]; exact nodup_cut_keys pre hnd
    rw [lookup_of_nodup cut k v hkeys hmem] at h1
    injection h1 with h1; subst h1; exact h2

/-- a non-block statement of a kept statement is one of the database (a `$p` turned into a `$a`) -/
theorem kept_leaf {db : MDb} {s' : MStmt} {k : String} {v y : MStmt} (hs' : s' ∈ db)
    (hcv : cutVal s' = some (some k, v)) (hy : y ∈ flat v) : ∃ y' ∈ flatL db, y' ∈ flat s' ∧ y = axify y' := by
  rcases cutVal_spec hcv with ⟨tc, x, rfl, rfl⟩ | ⟨ts, rfl, rfl⟩ | hc
  · simp only [flat, List.mem_singleton] at hy; subst hy
    exact ⟨.float k tc x, mem_flatL_of_mem hs' (by simp [flat]), by simp [flat], rfl⟩
  · simp only [flat, List.mem_singleton] at hy; subst hy
    exact ⟨.ess k ts, mem_flatL_of_mem hs' (by simp [flat]), by simp [flat], rfl⟩
  · rw [hc.flat_eq] at hy
    obtain ⟨y', hy', e⟩ := List.mem_map.1 hy
    exact ⟨y', mem_flatL_of_mem hs' hy', hy', e.symm⟩

/-- `verifyProof` only depends on the entries of the labels the proof cites -/
theorem verifyProof_sim {T : String → Prop} {look1 look2 : String → Option VEntry} {vars1 vars2 : List String}
    {d1 d2 : List (String × String)} {a1 a2 : VAssert} {pf : List String}
    (hv : ∀ t, T t → (t ∈ vars1 ↔ t ∈ vars2))
    (hd : ∀ a b, T a → T b → a ∈ vars1 → b ∈ vars1 → (a, b) ∈ d1 → (a, b) ∈ d2)
    (hf : a1.fhyps = a2.fhyps) (he : a1.ehyps = a2.ehyps) (hs : a1.stmt = a2.stmt)
    (hl : ∀ steps, proofSteps (a1.fhyps.map (·.1) ++ a1.ehyps.map (·.1)) pf = some steps →
      ∀ l, PStep.lab l ∈ steps → ∃ e1 e2, look1 l = some e1 ∧ look2 l = some e2 ∧ EntrySim T e1 e2)
    (h : verifyProof look1 vars1 d1 a1 pf = true) : verifyProof look2 vars2 d2 a2 pf = true := by
  unfold verifyProof at h ⊢
  rw [← hf, ← he, ← hs]
  cases hps : proofSteps (a1.fhyps.map (·.1) ++ a1.ehyps.map (·.1)) pf with
  | none => rw [hps] at h; cases h
  | some steps =>
    rw [hps] at h
    simp only at h ⊢
    cases hr : runSteps look1 vars1 d1 steps [] [] with
    | none => rw [hr] at h; cases h
    | some r =>
      rw [hr] at h
      rw [runSteps_sim hv hd steps [] [] r (hl steps hps) (by intro a ha; cases ha) (by intro a ha; cases ha) hr]
      exact h

theorem run_block_done {tgt : Option String} {st st' : VState} {a : List MStmt} {x : MStmt}
    (h1 : runStmts tgt st a = .ok st') (h2 : runStmt tgt st' x = .done) :
    runStmt tgt st (.block (a ++ [x])) = .done := by
  rw [runStmt, runStmts_append, h1]
  simp only [runStmts, h2]

theorem run_prov_target {l : String} {ts : List MTerm} {pf : List String} {st : VState} :
    runStmt (some l) st (.prov l ts pf) = .done ↔
      (checkSymbols st.ctx (printTerms ts) true = true ∧ st.seen.contains l = false) ∧
      verifyProof (lookupLabel st) st.ctx.v st.ctx.d (makeAssertion st.ctx (printTerms ts)) pf = true := by
  rw [runStmt]
  by_cases hc : (checkSymbols st.ctx (printTerms ts) true && !st.seen.contains l) = true
  · rw [if_pos hc]
    simp only
    simp only [Bool.and_eq_true, Bool.not_eq_true'] at hc
    by_cases hv : verifyProof (lookupLabel st) st.ctx.v st.ctx.d (makeAssertion st.ctx (printTerms ts)) pf = true
    · rw [if_pos hv]; exact ⟨fun _ => ⟨hc, hv⟩, fun _ => rfl⟩
    · rw [if_neg hv]; exact ⟨fun h => (by cases h), fun h => absurd h.2 hv⟩
  · rw [if_neg hc]
    simp only [Bool.and_eq_true, Bool.not_eq_true'] at hc
    exact ⟨fun h => (by cases h), fun h => absurd h.1 hc⟩

theorem proofSteps_normal {mand pf : List String} (h : ∀ rest, pf ≠ "(" :: rest) :
    proofSteps mand pf = some (pf.map .lab) := by
  unfold proofSteps
  split
  · next rest => exact absurd rfl (h rest)
  · rfl

theorem proofSteps_compressed {mand rest : List String} {steps : List PStep}
    (h : proofSteps mand ("(" :: rest) = some steps) :
    ∃ labs body, parseLabels rest [] = some (labs, body) ∧
      ∀ l, PStep.lab l ∈ steps → l ∈ mand ++ labs := by
  simp only [proofSteps, Option.bind_eq_bind, Option.bind_eq_some_iff, Option.pure_def] at h
  obtain ⟨⟨labs, body⟩, hp, nums, _, e⟩ := h
  injection e with e
  refine ⟨labs, body, hp, ?_⟩
  intro l hl
  rw [← e] at hl
  obtain ⟨n, _, hn⟩ := List.mem_map.1 hl
  exact resolveStep_lab hn

/-! ## the situation of one slice -/

section Main
variable {db : MDb} {deps : List (String × List String)} {pre : List MStmt} {s : MStmt} {post ants : List MStmt}
  {l : String} {ts : List MTerm} {pf : List String} {cut : Cut}
  {labels : List String} {neededStmts : List MStmt} {consts : List String}

local notation "ALL" => (MStmt.prov l ts pf :: (ants ++ neededStmts))
local notation "MVS" => stmtsMvs (MStmt.prov l ts pf :: (ants ++ neededStmts))
local notation "NEEDED" => neededOf cut deps labels
local notation "CC" => sortDedup (defaultConstants ++ consts ++
  keptTypecodesOf cut (stmtsMvs (MStmt.prov l ts pf :: (ants ++ neededStmts))))
local notation "VDB" => dbVars db

variable (hwf : WellFormedDb db) (hdb : db = pre ++ s :: post) (hG : Good pre cut)
  (hdec : deconstructProvable s = some (ants, .prov l ts pf))
  (hn : (neededOf cut deps labels).mapM (fun l => cut.lookup (some l)) = some neededStmts)
  (hcs : stmtsConstants (.prov l ts pf :: (ants ++ neededStmts)) = some consts)
include hwf hdb hG hdec hn hcs
set_option linter.unusedSectionVars false

theorem pre_sub_db : ∀ x ∈ pre, x ∈ db := by
  intro x hx; rw [hdb]; exact List.mem_append_left _ hx

theorem nodup_pre : (allLabelsL pre).Nodup := by
  have := hwf.labels
  rw [hdb, allLabelsL_append, List.nodup_append] at this
  exact this.1

/-- every non-block statement of the slice is consistent with the declarations of the database -/
theorem all_leafOk : ∀ st ∈ ALL, ∀ y ∈ flat st, leafOk VDB y = true := by
  obtain ⟨hflat, hfl, hants, _⟩ := flat_lemma_stmt hdec
  have hs : s ∈ db := by rw [hdb]; simp
  intro st hst y hy
  rcases List.mem_cons.1 hst with rfl | hst
  · simp only [flat, List.mem_singleton] at hy; subst hy
    exact hwf.consistent _ (mem_flatL_of_mem hs (by rw [hflat]; simp))
  rcases List.mem_append.1 hst with hst | hst
  · have : flat st = [st] := by
      rcases hants st hst with ⟨vs, rfl⟩ | ⟨l', ts', rfl⟩ <;> rfl
    rw [this, List.mem_singleton] at hy; subst hy
    exact hwf.consistent _ (mem_flatL_of_mem hs (by rw [hflat]; simp [hst]))
  · obtain ⟨k, _, s', hs', hcv⟩ := (needed_facts hG (nodup_pre hwf hdb hG hdec hn hcs) hn).2.1 st hst
    obtain ⟨y', hy', _, rfl⟩ := kept_leaf (pre_sub_db hwf hdb hG hdec hn hcs s' hs') hcv hy
    rw [leafOk_axify]
    exact hwf.consistent _ hy'

theorem mvs_sub_vdb : ∀ x ∈ MVS, x ∈ VDB := by
  intro x hx
  obtain ⟨st, hst, hx⟩ := mem_stmtsMvs.1 hx
  obtain ⟨y, hy, hx⟩ := (mem_stmtMvs_flat st x).1 hx
  exact leafOk_mvs (all_leafOk hwf hdb hG hdec hn hcs st hst y hy) x hx

theorem float_in_cut {l' tc v : String} (h : MStmt.float l' tc v ∈ pre) :
    (some l', MStmt.float l' tc v) ∈ cut := by
  rw [hG.cut]
  exact List.mem_filterMap.2 ⟨_, h, rfl⟩

theorem cc_not_vdb : ∀ x ∈ CC, x ∉ VDB := by
  intro x hx
  rw [mem_sortDedup] at hx
  rcases List.mem_append.1 hx with hx | hx
  · rcases List.mem_append.1 hx with hx | hx
    · exact hwf.defaults x hx
    · obtain ⟨st, hst, ys, h1, h2⟩ := stmtsConstants_sub _ _ hcs x hx
      obtain ⟨y, hy, hxy⟩ := (stmtConstants_flat st ys h1 x).1 h2
      exact leafOk_consts (all_leafOk hwf hdb hG hdec hn hcs st hst y hy) x hxy
  · simp only [keptTypecodesOf, List.mem_filterMap] at hx
    obtain ⟨⟨name, st⟩, hm, hx⟩ := hx
    simp only at hx
    split at hx
    · next l' tc v =>
      split at hx
      · injection hx with hx; subst hx
        rw [hG.cut] at hm
        obtain ⟨s', hs', hcv⟩ := List.mem_filterMap.1 hm
        obtain ⟨name', rfl⟩ : ∃ n, name = some n := by
          cases name with
          | some n => exact ⟨n, rfl⟩
          | none => obtain ⟨vs, rfl, e⟩ := cutVal_none_key hcv; cases e
        obtain ⟨y', hy', _, e⟩ := kept_leaf (pre_sub_db hwf hdb hG hdec hn hcs s' hs') hcv
          (y := .float l' tc v) (by simp [flat])
        have := hwf.consistent _ hy'
        rw [← leafOk_axify, ← e] at this
        simp only [leafOk, Bool.and_eq_true, Bool.not_eq_true'] at this
        exact not_mem_of_contains_false this.1
      · cases hx
    · cases hx

theorem paren_cc : "(" ∈ CC ∧ ")" ∈ CC := by
  constructor <;> (rw [mem_sortDedup]; apply List.mem_append_left; apply List.mem_append_left; decide)

/-- the symbols of a statement with terms `ts'` that is a leaf of the slice -/
theorem terms_of_all {M : List String} {st y : MStmt} {ts' : List MTerm} (hst : st ∈ ALL) (hy : y ∈ flat st)
    (hts : leafMvs y = termsMvs ts' ∧ leafConsts y = termsConstants ts' ∧ leafOk VDB y = termsOk VDB ts')
    (hM : ∀ x ∈ leafMvs y, x ∈ M) :
    TermsOK VDB MVS CC M ts' ∧ ∀ x ∈ termsMvs ts', x ∈ MVS := by
  obtain ⟨h1, h2, h3⟩ := hts
  have hok := all_leafOk hwf hdb hG hdec hn hcs st hst y hy
  rw [h3] at hok
  obtain ⟨hp1, hp2⟩ := paren_cc hwf hdb hG hdec hn hcs
  refine termsOK_of hok hp1 hp2 (hwf.defaults "(" (by decide)) (hwf.defaults ")" (by decide)) ?_ ?_ ?_
  · intro c hc
    rw [← h2] at hc
    obtain ⟨ys, e1, e2⟩ := stmtsConstants_mem _ _ hcs st hst
    rw [mem_sortDedup]
    apply List.mem_append_left; apply List.mem_append_right
    exact e2 c ((stmtConstants_flat st ys e1 c).2 ⟨y, hy, hc⟩)
  · intro x hx
    rw [← h1] at hx
    exact mem_stmtsMvs.2 ⟨st, hst, (mem_stmtMvs_flat st x).2 ⟨y, hy, hx⟩⟩
  · intro x hx
    rw [← h1] at hx
    exact hM x hx

/-- `LeafOK` for the `$d`, `$e`, `$a` statements of the slice -/
theorem leafOK_of_all {M : List String} {st y : MStmt} (hst : st ∈ ALL) (hy : y ∈ flat st) (hax : axLeaf y)
    (hM : ∀ x ∈ leafMvs y, x ∈ M) : LeafOK VDB MVS CC M l y := by
  cases y with
  | disj vs =>
    intro x hx
    exact mem_stmtsMvs.2 ⟨st, hst, (mem_stmtMvs_flat st x).2 ⟨_, hy, hx⟩⟩
  | ess l' ts' => exact terms_of_all hwf hdb hG hdec hn hcs hst hy ⟨rfl, rfl, rfl⟩ hM
  | ax l' ts' => exact terms_of_all hwf hdb hG hdec hn hcs hst hy ⟨rfl, rfl, rfl⟩ hM
  | _ => exact hax.elim

/-- the same with "the variables are variables of the database" for the last component -/
theorem leafOK_vdb {st y : MStmt} (hst : st ∈ ALL) (hy : y ∈ flat st) (hax : axLeaf y) :
    LeafOK VDB MVS CC VDB l y :=
  leafOK_of_all hwf hdb hG hdec hn hcs hst hy hax (leafOk_mvs (all_leafOk hwf hdb hG hdec hn hcs st hst y hy))

theorem lemma_label_mem : MStmt.prov l ts pf ∈ flat s := by
  rw [(flat_lemma_stmt hdec).1]; simp

/-- the target's label occurs nowhere else -/
theorem not_target_pre : ∀ s' ∈ pre, ∀ ts' pf', MStmt.prov l ts' pf' ∉ flat s' := by
  intro s' hs' ts' pf' hm
  have h1 : l ∈ allLabelsL pre := mem_allLabelsL.2 ⟨s', hs', mem_allLabels_of_flat hm rfl⟩
  have h2 : l ∈ allLabels s := mem_allLabels_of_flat (lemma_label_mem hwf hdb hG hdec hn hcs) rfl
  have := hwf.labels
  rw [hdb, allLabelsL_append, allLabelsL_cons, List.nodup_append] at this
  exact this.2.2 l h1 l (List.mem_append_left _ h2) rfl

theorem not_target_post : ∀ ts' pf', MStmt.prov l ts' pf' ∉ flatL post := by
  intro ts' pf' hm
  obtain ⟨s', hs', hm⟩ := mem_flatL.1 hm
  have h1 : l ∈ allLabelsL post := mem_allLabelsL.2 ⟨s', hs', mem_allLabels_of_flat hm rfl⟩
  have h2 : l ∈ allLabels s := mem_allLabels_of_flat (lemma_label_mem hwf hdb hG hdec hn hcs) rfl
  have := hwf.labels
  rw [hdb, allLabelsL_append, allLabelsL_cons, List.nodup_append] at this
  have := this.2.1
  rw [List.nodup_append] at this
  exact this.2.2 l h2 l h1 rfl

theorem topHyp : TopHyp VDB MVS CC NEEDED l pre where
  kV := mvs_sub_vdb hwf hdb hG hdec hn hcs
  cV2 := cc_not_vdb hwf hdb hG hdec hn hcs
  shape := hG.shape
  const := by
    intro cs hc c hcc
    have := hwf.consistent (.const cs) (mem_flatL_of_mem (pre_sub_db hwf hdb hG hdec hn hcs _ hc) (by simp [flat]))
    simp only [leafOk, List.all_eq_true, Bool.not_eq_true'] at this
    exact not_mem_of_contains_false (this c hcc)
  var := by
    intro vs hv x hx
    simp only [dbVars, List.mem_flatMap]
    exact ⟨.var vs, mem_flatL_of_mem (pre_sub_db hwf hdb hG hdec hn hcs _ hv) (by simp [flat]), hx⟩
  float := by
    intro l' tc v hf
    refine ⟨?_, ?_⟩
    · intro hv
      rw [mem_sortDedup]
      apply List.mem_append_right
      simp only [keptTypecodesOf, List.mem_filterMap]
      exact ⟨(some l', .float l' tc v), float_in_cut hwf hdb hG hdec hn hcs hf, by simp [hv]⟩
    · intro hl'
      have := (needed_facts hG (nodup_pre hwf hdb hG hdec hn hcs) hn).2.2 _ hf l' _ rfl hl'
      exact mem_stmtsMvs.2 ⟨.float l' tc v, by simp [this], by simp [stmtMvs]⟩
  ess := by
    intro l' ts' he
    have hneeded : l' ∈ NEEDED := by
      simp only [neededOf, List.mem_append]
      right
      simp only [topEssLabels, List.mem_filterMap]
      refine ⟨(some l', .ess l' ts'), ?_, rfl⟩
      rw [hG.cut]; exact List.mem_filterMap.2 ⟨_, he, rfl⟩
    have hst : MStmt.ess l' ts' ∈ ALL := by
      have := (needed_facts hG (nodup_pre hwf hdb hG hdec hn hcs) hn).2.2 _ he l' _ rfl hneeded
      simp [this]
    exact ⟨hneeded, leafOK_vdb hwf hdb hG hdec hn hcs hst (by simp [flat]) trivial⟩
  cutOK := by
    intro s' hs' k v hcv hc hk y hy
    have hv : v ∈ ALL := by
      have := (needed_facts hG (nodup_pre hwf hdb hG hdec hn hcs) hn).2.2 s' hs' k v hcv hk
      simp [this]
    exact leafOK_vdb hwf hdb hG hdec hn hcs hv hy (hc.leaves y hy)
  notTarget := not_target_pre hwf hdb hG hdec hn hcs

/-- the slice's `$v` list -/
def sliceVars (mvs : List String) : List String := if mvs.isEmpty then [] else sortDedup mvs

omit hwf hdb hG hdec hn hcs in
theorem mem_sliceVars {mvs : List String} {x : String} : x ∈ sliceVars mvs ↔ x ∈ mvs := by
  unfold sliceVars
  split
  · next h =>
    have : mvs = [] := by simpa using h
    subst this; simp
  · exact mem_sortDedup

omit hwf hdb hG hdec hn hcs in
/-- the declarations at the head of a slice -/
theorem slice_init_run (tgt : Option String) (C : List String) (mvs : List String) :
    runStmts tgt {} (.const C :: varStmtOf mvs) = .ok ⟨⟨C, sliceVars mvs, [], [], []⟩, [], []⟩ := by
  simp only [runStmts, runStmt]
  unfold varStmtOf sliceVars
  split
  · simp [runStmts]
  · simp [runStmts, runStmt]

theorem topRel_init :
    TopRel VDB MVS CC NEEDED [] {} ⟨⟨CC, sliceVars MVS, [], [], []⟩, [], []⟩ where
  inv1 := inv_init
  inv2 := ⟨fun l e e' h => by simp [entries] at h, fun p hp => by simp [entries] at hp⟩
  ctx := {
    vK := fun x => mem_sliceVars
    vV := by intro x hx; cases hx
    cV := by intro x hx; cases hx
    cC := fun x => Iff.rfl
    fF := rfl
    eE := rfl
    eM := by intro e he; cases he
    eV := by intro e he; cases he
    eT := by intro e he; cases he
    d21 := by intro p hp; cases hp
    d12 := by intro p hp; cases hp }
  fT := by intro f hf; cases hf
  seen := by intro x hx; cases hx
  asserts := by intro l' a2 h; cases h
  reg := by intro s' hs'; cases hs'

theorem slice_core (hl : proofLabels pf = some labels) (hrun : runStmts (some l) {} db = .done) :
    runStmts (some l) {} (.const CC :: (varStmtOf MVS ++ keptOf cut NEEDED MVS ++
      [.block (ants ++ [.prov l ts pf])])) = .done := by
  have H := topHyp hwf hdb hG hdec hn hcs
  have NF := needed_facts hG (nodup_pre hwf hdb hG hdec hn hcs) hn
  obtain ⟨hflat, hfl, hants, hshape⟩ := flat_lemma_stmt hdec
  -- the run on the database: the prefix, then the lemma's statement
  rw [hdb, runStmts_append] at hrun
  cases hpre : runStmts (some l) {} pre with
  | fail => rw [hpre] at hrun; cases hrun
  | done =>
    obtain ⟨ts', pf', hm⟩ := runStmts_done l pre {} hpre
    obtain ⟨s', hs', hm⟩ := mem_flatL.1 hm
    exact absurd hm (not_target_pre hwf hdb hG hdec hn hcs s' hs' ts' pf')
  | ok S1 =>
  rw [hpre] at hrun
  simp only [runStmts] at hrun
  cases hs : runStmt (some l) S1 s with
  | fail => rw [hs] at hrun; cases hrun
  | ok S1' =>
    rw [hs] at hrun
    obtain ⟨ts', pf', hm⟩ := runStmts_done l post S1' hrun
    exact absurd hm (not_target_post hwf hdb hG hdec hn hcs ts' pf')
  | done =>
  -- the prefix of the slice
  obtain ⟨S2, hr2, R⟩ := top_sim H pre [] {} S1
    ⟨⟨CC, sliceVars MVS, [], [], []⟩, [], []⟩ (by simp)
    (topRel_init hwf hdb hG hdec hn hcs) hpre
  have hkept : keptOf cut NEEDED MVS = keptL MVS NEEDED pre := by rw [hG.cut]; rfl
  have hsplit : (MStmt.const CC :: (varStmtOf MVS ++ keptOf cut NEEDED MVS ++
      [.block (ants ++ [.prov l ts pf])])) =
      (MStmt.const CC :: varStmtOf MVS) ++
        (keptL MVS NEEDED pre ++ [.block (ants ++ [.prov l ts pf])]) := by
    rw [hkept]; simp
  rw [hsplit, runStmts_append, slice_init_run]
  simp only []
  rw [runStmts_append, hr2]
  simp only [runStmts]
  suffices hblk : runStmt (some l) S2 (.block (ants ++ [.prov l ts pf])) = .done by rw [hblk]
  -- the lemma's block on the database side
  have hclaim : ∃ S1a, runStmts (some l) S1 ants = .ok S1a ∧ runStmt (some l) S1a (.prov l ts pf) = .done := by
    rcases hshape with ⟨rfl, rfl⟩ | rfl
    · exact ⟨S1, rfl, hs⟩
    · rw [runStmt, runStmts_append] at hs
      cases ha : runStmts (some l) S1 ants with
      | fail => rw [ha] at hs; cases hs
      | done =>
        obtain ⟨ts', pf', hm⟩ := runStmts_done l ants S1 ha
        rw [hfl] at hm
        rcases hants _ hm with ⟨vs, e⟩ | ⟨l', ts'', e⟩ <;> cases e
      | ok S1a =>
        rw [ha] at hs
        simp only [runStmts] at hs
        cases hp : runStmt (some l) S1a (.prov l ts pf) with
        | done => exact ⟨S1a, rfl, hp⟩
        | ok x => rw [hp] at hs; cases hs
        | fail => rw [hp] at hs; cases hs
  obtain ⟨S1a, ha, hp⟩ := hclaim
  obtain ⟨inv1a, mono1a⟩ := runStmts_inv (some l) ants S1 S1a ha R.inv1
  have hleaf : ∀ y ∈ flatL ants, LeafOK VDB MVS CC VDB l y := by
    rw [hfl]; intro y hy
    have hfy : flat y = [y] := by
      rcases hants y hy with ⟨vs, rfl⟩ | ⟨l', ts', rfl⟩ <;> rfl
    refine leafOK_vdb hwf hdb hG hdec hn hcs (st := y) (by simp [hy]) (by rw [hfy]; simp) ?_
    rcases hants y hy with ⟨vs, rfl⟩ | ⟨l', ts', rfl⟩ <;> trivial
  obtain ⟨S2a, hr2a, res⟩ := sim_stmts H.kV H.cV2 l ants S1 S1a S2 hleaf R.ctx R.seen ha
  obtain ⟨inv2a, mono2a⟩ := runStmts_inv (some l) ants S2 S2a hr2a R.inv2
  have hal : assertLabelsL ants = [] := by
    simp only [assertLabelsL, hfl]
    apply List.filterMap_eq_nil_iff.2
    intro y hy
    rcases hants y hy with ⟨vs, rfl⟩ | ⟨l', ts', rfl⟩ <;> rfl
  obtain ⟨n1, n2, en1, en2, _, k2, _⟩ := res.asserts
  have hn2 : n2 = [] := by rw [hal] at k2; exact List.map_eq_nil_iff.1 k2
  rw [hn2, List.append_nil] at en2
  -- the `$p` statement on the database side
  obtain ⟨⟨hchk, hfresh⟩, hvp⟩ := run_prov_target.1 hp
  have hfresh1 : l ∉ S1a.seen := not_mem_of_contains_false hfresh
  obtain ⟨⟨hg, hM⟩, hmvs⟩ := terms_of_all hwf hdb hG hdec hn hcs (M := VDB)
    (st := .prov l ts pf) (y := .prov l ts pf) (ts' := ts) (by simp) (by simp [flat]) ⟨rfl, rfl, rfl⟩
    (leafOk_mvs (all_leafOk hwf hdb hG hdec hn hcs (.prov l ts pf) (by simp) (.prov l ts pf) (by simp [flat])))
  have hchk2 := check_rel H.kV H.cV2 res.ctx hg hchk
  have hfresh2 : S2a.seen.contains l = false := by
    cases hb : S2a.seen.contains l with
    | false => rfl
    | true => exact absurd (res.seen l (List.contains_iff_mem.1 hb)) hfresh1
  have hcm : ∀ x ∈ printTerms ts, x ∈ S1a.ctx.c ∨ x ∈ S1a.ctx.v :=
    fun x hx => ((checkSymbols_iff.1 hchk).2 x hx).2.1
  have hsim := makeAssertion_rel H.kV H.cV2 res.ctx hg hM hcm
  -- every kept variable is declared in the database when the lemma is reached
  have hmvs1 : ∀ x ∈ MVS, x ∈ S1a.ctx.v := by
    intro x hx
    obtain ⟨st, hst, hx⟩ := mem_stmtsMvs.1 hx
    rcases List.mem_cons.1 hst with rfl | hst
    · exact terms_mv H.kV H.cV2 res.ctx hmvs hchk x (by simpa [stmtMvs] using hx)
    rw [res.v1]
    rcases List.mem_append.1 hst with hst | hst
    · exact res.mv x (mem_stmtsMvs.2 ⟨st, hst, hx⟩)
    · obtain ⟨k, hk, s', hs', hcv⟩ := NF.2.1 st hst
      exact (R.reg s' hs' k st hcv hk).2 x hx
  have hT : ∀ x, TokGood VDB MVS CC x → x ∈ S1a.ctx.v → x ∈ MVS := by
    intro x hx hv
    rcases hx with hx | hx
    · exact hx
    · exact absurd (res.ctx.vV x hv) hx.2
  -- entries of the slice are entries of the database
  have hf2 : S2a.ctx.f = S2.ctx.f := by rw [res.ctx.fF, res.f1, ← R.ctx.fF]
  have hentry : ∀ l' e2, (l', e2) ∈ entries S2a →
      ∃ e1, (l', e1) ∈ entries S1a ∧ EntrySim (TokGood VDB MVS CC) e1 e2 := by
    intro l' e2 hm
    rcases mem_entries.1 hm with ⟨f, hf, e⟩ | ⟨e', he, e⟩ | ⟨a, ha', e⟩
    · injection e with e1 e2'; subst e1 e2'
      have hfm := hf
      rw [res.ctx.fF, List.mem_filter] at hfm
      refine ⟨.f f.2.1 f.2.2, mem_entries.2 (Or.inl ⟨f, hfm.1, rfl⟩), rfl, rfl, ?_, ?_⟩
      · have : f.2.1 ∈ CC := R.fT f (by rw [← hf2]; exact hf)
        exact Or.inr ⟨this, H.cV2 _ this⟩
      · exact Or.inl (List.contains_iff_mem.1 hfm.2)
    · injection e with e1 e2'; subst e1 e2'
      rw [res.ctx.eE] at he
      exact ⟨.e e'.2, mem_entries.2 (Or.inr (Or.inl ⟨e', he, rfl⟩)), rfl, res.ctx.eT e' he⟩
    · injection e with e1 e2'; subst e1 e2'
      rw [en2] at ha'
      obtain ⟨a1, h1, h2⟩ := R.asserts a.1 a.2 ha'
      exact ⟨.a a1, mem_entries.2 (Or.inr (Or.inr ⟨(a.1, a1), mono1a.a _ h1, rfl⟩)), h2⟩
  have hfind : ∀ l', (∃ e2, (l', e2) ∈ entries S2a) → ∃ e1 e2, lookupLabel S1a l' = some e1 ∧
      lookupLabel S2a l' = some e2 ∧ EntrySim (TokGood VDB MVS CC) e1 e2 := by
    rintro l' ⟨e2, hm⟩
    obtain ⟨e1, hm1, hsim'⟩ := hentry l' e2 hm
    exact ⟨e1, e2, lookup_of_uniq inv1a.1 hm1, lookup_of_uniq inv2a.1 hm, hsim'⟩
  have hvp2 : verifyProof (lookupLabel S2a) S2a.ctx.v S2a.ctx.d (makeAssertion S2a.ctx (printTerms ts)) pf
      = true := by
    refine verifyProof_sim (T := TokGood VDB MVS CC) ?_ ?_ hsim.1 hsim.2.1 hsim.2.2.1 ?_ hvp
    · intro x hx
      exact ⟨fun h => (res.ctx.vK x).2 (hT x hx h), fun h => hmvs1 x ((res.ctx.vK x).1 h)⟩
    · intro a b hta htb hav hbv hab
      exact res.ctx.d12 (a, b) hab (hT a hta hav) (hT b htb hbv)
    · intro steps hps l' hl'
      by_cases hh : ∃ rest, pf = "(" :: rest
      · obtain ⟨rest, rfl⟩ := hh
        obtain ⟨labs, body, hparse, hlabs⟩ := proofSteps_compressed hps
        have hlabs' := proofLabels_compressed hl hparse
        have hmem := hlabs l' hl'
        rw [hlabs'] at hmem
        apply hfind
        rcases List.mem_append.1 hmem with hm | hm
        · rcases List.mem_append.1 hm with hm | hm
          · obtain ⟨f, hf, rfl⟩ := List.mem_map.1 hm
            rw [hsim.1] at hf
            have hf' : f ∈ S2a.ctx.f := (List.mem_filter.1 hf).1
            exact ⟨.f f.2.1 f.2.2, mem_entries.2 (Or.inl ⟨f, hf', rfl⟩)⟩
          · obtain ⟨e, he, rfl⟩ := List.mem_map.1 hm
            rw [hsim.2.1] at he
            exact ⟨.e e.2, mem_entries.2 (Or.inr (Or.inl ⟨e, he, rfl⟩))⟩
        · have hneeded : l' ∈ NEEDED := by simp [neededOf, hm]
          obtain ⟨n, _, s', hs', hcv⟩ := NF.1 l' hneeded
          obtain ⟨e, he⟩ := (R.reg s' hs' l' n hcv hneeded).1
          exact ⟨e, mono2a.entries _ he⟩
      · -- an uncompressed proof would have to cite the label `)`
        exfalso
        have hnorm : ∀ rest, pf ≠ "(" :: rest := fun rest e => hh ⟨rest, e⟩
        have hvp' := hvp
        unfold verifyProof at hvp'
        rw [proofSteps_normal hnorm] at hvp'
        simp only at hvp'
        cases hr : runSteps (lookupLabel S1a) S1a.ctx.v S1a.ctx.d (pf.map .lab) [] [] with
        | none => rw [hr] at hvp'; cases hvp'
        | some r =>
          obtain ⟨e, he⟩ := runSteps_lookup _ _ _ _ hr ")"
            (List.mem_map.2 ⟨")", proofLabels_paren hl, rfl⟩)
          have h1 : ")" ∈ S1a.seen := inv1a.2 _ (mem_of_lookupLabel he)
          have h2 : ")" ∈ allLabelsL db := by
            rw [hdb, allLabelsL_append, allLabelsL_cons]
            rcases runStmts_seen (some l) ants S1 S1a ha ")" h1 with h1 | h1
            · rcases runStmts_seen (some l) pre {} S1 hpre ")" h1 with h1 | h1
              · cases h1
              · exact List.mem_append_left _ h1
            · apply List.mem_append_right; apply List.mem_append_left
              simp only [allLabelsL, hfl] at h1
              simp only [allLabels, hflat, List.filterMap_append]
              exact List.mem_append_left _ h1
          exact hwf.noParen h2
  have hp2 : runStmt (some l) S2a (.prov l ts pf) = .done := run_prov_target.2 ⟨⟨hchk2, hfresh2⟩, hvp2⟩
  exact run_block_done hr2a hp2

end Main

/-! ## the theorem -/

/-- **A slice is self-contained.**  `db`: a well-formed database; `sl`: the slice `slice_database` cuts for the lemma
`l`.  If the reference verifier accepts the proof of `l` in `db` (all declarations up to `l` in order, the proof
proves the statement), it accepts it in `sl`.  No hypothesis on `syntax_dependencies` is needed: whatever it makes
the slicer add is a statement of the database that comes before the lemma, with everything it uses declared. -/
theorem slice_verifies {db : MDb} {deps : List (String × List String)} {incl excl : List String}
    {out : List (String × MDb)} {l : String} {sl : MDb} (hwf : WellFormedDb db)
    (h : sliceDatabase db deps incl excl = some out) (hm : (l, sl) ∈ out)
    (hv : verifyLemma db l = true) : verifyLemma sl l = true := by
  obtain ⟨pre, s, post, ants, ts, pf, cut, hdb, hdec, hG, hsup⟩ := slice_origin hwf.labels h hm
  obtain ⟨labels, neededStmts, consts, hl, hn, hcs, hsl⟩ := slice_shape hsup
  have hrun : runStmts (some l) {} db = .done := by
    unfold verifyLemma at hv
    cases hr : runStmts (some l) {} db with
    | done => rfl
    | fail => rw [hr] at hv; cases hv
    | ok st => rw [hr] at hv; cases hv
  unfold verifyLemma
  rw [hsl, slice_core hwf hdb hG hdec hn hcs hl hrun]

/-- the same from `verifyDb`: the whole database verifies, hence every slice verifies its lemma -/
theorem slice_verifies_of_verifyDb {db : MDb} {deps : List (String × List String)} {incl excl : List String}
    {out : List (String × MDb)} {l : String} {sl : MDb} (hwf : WellFormedDb db)
    (h : sliceDatabase db deps incl excl = some out) (hm : (l, sl) ∈ out)
    (hv : verifyDb db = true) : verifyLemma sl l = true := by
  refine slice_verifies hwf h hm (verifyLemma_of_verifyDb hv ?_)
  obtain ⟨pre, s, post, ants, ts, pf, cut, hdb, hdec, _, _⟩ := slice_origin hwf.labels h hm
  refine ⟨ts, pf, mem_flatL_of_mem (s := s) (by rw [hdb]; simp) ?_⟩
  rw [(flat_lemma_stmt hdec).1]; simp

end MM

#print axioms MM.slice_verifies
#print axioms MM.slice_verifies_of_verifyDb
