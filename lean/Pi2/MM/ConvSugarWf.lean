import Pi2.MM.ConvCoherence
import Pi2.MM.ConvSugar
/-!
# `attachAll` on constructor tables: closed form and `DB.notOk` (the part that does not mention statements)

`attach` (`Pi2/MM/ConvSpec.lean`) = "translate the `#Notation` statement" (`sugarEntry`) then "put the body at the one constructor
entry of the head" (`attachE`).  For entries with pairwise different heads, each with exactly one constructor entry of the same
variables and no body, `attachAll` succeeds and its result is the table with the bodies looked up (`dress1`): `attachAll_spec`.
For such a table `DB.notOk` holds when the entries come in the order of the constructor entries, every body is stated over the
variables of its entry, and mentions of the heads only EARLIER ones: `notOk_dress`.
-/
set_option linter.unusedSimpArgs false
set_option linter.unusedVariables false
set_option linter.unnecessarySimpa false
open MM

namespace MM.ConvSpec

abbrev Sugar := String × String × List MTerm × MTerm

/-- the model's reading of `l $a #Notation ( n v₁ … vₖ ) BODY`: (symbol, variables, body) -/
def sugarEntry (nm : Names) (sg : Sugar) : Option (Nat × List Nat × Term) := do
  let c ← nm.con? sg.2.1
  let vs ← asVars (← termsOf nm sg.2.2.1)
  let b ← termOf nm sg.2.2.2
  pure (c, vs, b)

def set1 (c : Nat) (b : Term) (k : Ctor) : Ctor := if k.sym == c then { k with body := some b } else k

def attachE (db : DB) (e : Nat × List Nat × Term) : Option DB :=
  match db.ctors.filter (·.sym == e.1) with
  | [k] => if k.args = e.2.1 ∧ k.body.isNone then some { db with ctors := db.ctors.map (set1 e.1 e.2.2) } else none
  | _ => none

theorem attach_eq (nm : Names) (db : DB) (sg : Sugar) : attach nm db sg = (sugarEntry nm sg).bind (attachE db) := by
  unfold attach sugarEntry
  cases h1 : nm.con? sg.2.1 with
  | none => rfl
  | some c =>
    cases h2 : termsOf nm sg.2.2.1 with
    | none => rfl
    | some ts =>
      cases h3 : asVars ts with
      | none => simp [h3]
      | some vs =>
        cases h4 : termOf nm sg.2.2.2 with
        | none => simp [h3]
        | some b =>
          simp only [h3, Option.bind_eq_bind, Option.bind_some, Option.pure_def, attachE]
          rfl

/-- the table with the bodies of `N` at their symbols -/
def dress1 (N : List (Nat × Term)) (k : Ctor) : Ctor :=
  match N.lookup k.sym with
  | some b => { k with body := some b }
  | none => k

theorem set1_sym (c : Nat) (b : Term) (k : Ctor) : (set1 c b k).sym = k.sym := by
  unfold set1; split <;> rfl
theorem set1_args (c : Nat) (b : Term) (k : Ctor) : (set1 c b k).args = k.args := by
  unfold set1; split <;> rfl
theorem dress1_sym (N : List (Nat × Term)) (k : Ctor) : (dress1 N k).sym = k.sym := by
  unfold dress1; split <;> rfl
theorem dress1_args (N : List (Nat × Term)) (k : Ctor) : (dress1 N k).args = k.args := by
  unfold dress1; split <;> rfl

theorem lookup_none_of_not_mem {β : Type} : ∀ (N : List (Nat × β)) (c : Nat), c ∉ N.map (·.1) → N.lookup c = none := by
  intro N
  induction N with
  | nil => intro _ _; rfl
  | cons p N ih =>
    intro c h
    simp only [List.map_cons, List.mem_cons, not_or] at h
    have hne : (c == p.1) = false := by simpa using h.1
    rw [show p = (p.1, p.2) from rfl, List.lookup_cons, hne]
    exact ih c h.2

theorem mem_of_lookup_some {β : Type} : ∀ (N : List (Nat × β)) (c : Nat) (b : β), N.lookup c = some b → c ∈ N.map (·.1) := by
  intro N c b h
  apply Classical.byContradiction
  intro hn
  rw [lookup_none_of_not_mem N c hn] at h
  cases h

theorem lookup_mid {β : Type} : ∀ (Np : List (Nat × β)) (c : Nat) (b : β) (Nr : List (Nat × β)), c ∉ Np.map (·.1) →
    (Np ++ (c, b) :: Nr).lookup c = some b := by
  intro Np
  induction Np with
  | nil => intro c b Nr _; simp [List.lookup_cons]
  | cons p Np ih =>
    intro c b Nr h
    simp only [List.map_cons, List.mem_cons, not_or] at h
    have hne : (c == p.1) = false := by simpa using h.1
    rw [List.cons_append, show p = (p.1, p.2) from rfl, List.lookup_cons, hne]
    exact ih c b Nr h.2

theorem dress1_nil (k : Ctor) : dress1 [] k = k := rfl

theorem dress1_set1 (c : Nat) (b : Term) (N : List (Nat × Term)) (hc : c ∉ N.map (·.1)) (k : Ctor) :
    dress1 N (set1 c b k) = dress1 ((c, b) :: N) k := by
  unfold set1
  by_cases h : k.sym = c
  · have hb : (k.sym == c) = true := by simpa using h
    rw [if_pos hb]
    unfold dress1
    simp only [List.lookup_cons, hb]
    rw [h, lookup_none_of_not_mem N c hc]
  · have hb : (k.sym == c) = false := by simpa using h
    simp only [hb, Bool.false_eq_true, if_false]
    unfold dress1
    simp only [List.lookup_cons, hb]

theorem filter_sym_map (f : Ctor → Ctor) (hf : ∀ k, (f k).sym = k.sym) (c : Nat) (C : List Ctor) :
    (C.map f).filter (·.sym == c) = (C.filter (·.sym == c)).map f := by
  rw [List.filter_map]
  congr 1
  apply List.filter_congr
  intro k _
  simp [Function.comp, hf]

/-- `attachAll` on translated statements with pairwise different heads, each with exactly one constructor entry, over the same
variables and without a body: it succeeds, and changes nothing but the bodies -/
theorem attachAll_spec (nm : Names) : ∀ (sgs : List Sugar) (es : List (Nat × List Nat × Term)) (db : DB),
    sgs.mapM (sugarEntry nm) = some es → (es.map (·.1)).Nodup →
    (∀ e ∈ es, ∃ k, db.ctors.filter (·.sym == e.1) = [k] ∧ k.args = e.2.1 ∧ k.body = none) →
    attachAll nm db sgs = some { db with ctors := db.ctors.map (dress1 (es.map fun e => (e.1, e.2.2))) } := by
  intro sgs
  induction sgs with
  | nil =>
    intro es db h _ _
    simp at h
    subst h
    simp only [attachAll, List.map_nil]
    have : db.ctors.map (dress1 []) = db.ctors := by
      rw [show dress1 [] = id from funext dress1_nil]; simp
    rw [this]
  | cons sg sgs ih =>
    intro es db h hnd hone
    obtain ⟨e, es', he, hes', rfl⟩ := (ConvCoh.mapM_cons_some _ _ _ _).mp h
    simp only [List.map_cons, List.nodup_cons] at hnd
    obtain ⟨k, hk, hargs, hbody⟩ := hone e (by simp)
    have hatt : attach nm db sg = some { db with ctors := db.ctors.map (set1 e.1 e.2.2) } := by
      rw [attach_eq, he]
      simp only [Option.bind_some, attachE, hk, hargs, hbody, Option.isNone_none, and_self, if_true]
    simp only [attachAll, hatt, Option.bind_eq_bind, Option.bind_some]
    rw [ih es' _ hes' hnd.2]
    · simp only [List.map_map, List.map_cons]
      congr 2
      apply List.map_congr_left
      intro k' _
      exact dress1_set1 e.1 e.2.2 _ (by simpa using hnd.1) k'
    · intro e' he'
      obtain ⟨k', hk', hargs', hbody'⟩ := hone e' (by simp [he'])
      have hne : e'.1 ≠ e.1 := by
        intro heq
        apply hnd.1
        rw [← heq]
        exact List.mem_map.mpr ⟨e', he', rfl⟩
      have hks : k'.sym = e'.1 := by
        have : k' ∈ db.ctors.filter (·.sym == e'.1) := by rw [hk']; simp
        simpa using (List.mem_filter.mp this).2
      have hset : set1 e.1 e.2.2 k' = k' := by
        unfold set1
        have : (k'.sym == e.1) = false := by rw [hks]; simpa using hne
        simp [this]
      refine ⟨k', ?_, hargs', hbody'⟩
      show (db.ctors.map (set1 e.1 e.2.2)).filter (·.sym == e'.1) = [k']
      rw [filter_sym_map _ (set1_sym _ _), hk', List.map_cons, List.map_nil, hset]

/-! ## `DB.notOk` of a dressed table -/

/-- every body mentions, of the symbols `all`, only those of EARLIER entries -/
def SymsOK (all : List Nat) : List Nat → List (Nat × Term) → Prop
  | _, [] => True
  | seen, p :: r => (∀ s ∈ p.2.syms, s ∈ seen ∨ s ∉ all) ∧ SymsOK all (seen ++ [p.1]) r

theorem notWf_dress (db : DB) (N : List (Nat × Term)) (hnd : (N.map (·.1)).Nodup)
    (hNS : ∀ s ∈ db.notSyms, s ∈ N.map (·.1)) :
    ∀ (C : List Ctor) (Np Nr : List (Nat × Term)), N = Np ++ Nr → (∀ k ∈ C, k.body = none) →
      (∀ p ∈ N, ∀ k ∈ C, k.sym = p.1 → ∀ v ∈ p.2.vars, v ∈ k.args) →
      (C.map (·.sym)).filter (N.map (·.1)).contains = Nr.map (·.1) →
      SymsOK (N.map (·.1)) (Np.map (·.1)) Nr →
      db.notWf (Np.map (·.1)) (C.map (dress1 N)) = true := by
  intro C
  induction C with
  | nil => intro _ _ _ _ _ _ _; rfl
  | cons k C ih =>
    intro Np Nr hN hplain hvars hord hsy
    simp only [List.map_cons]
    by_cases hk : k.sym ∈ N.map (·.1)
    · have hc : (N.map (·.1)).contains k.sym = true := by simpa using hk
      simp only [List.map_cons, List.filter_cons, hc, if_true] at hord
      match Nr, hord, hsy, hN with
      | [], hord, _, _ => simp at hord
      | p :: Nr', hord, hsy, hN =>
        simp only [List.map_cons, List.cons.injEq] at hord
        obtain ⟨hp1, hord'⟩ := hord
        have hnp : p.1 ∉ Np.map (·.1) := by
          rw [hN, List.map_append, List.map_cons, List.nodup_append] at hnd
          intro hm
          exact hnd.2.2 _ hm _ (by simp) rfl
        have hlk : N.lookup k.sym = some p.2 := by
          rw [hN, hp1]
          exact lookup_mid Np p.1 p.2 Nr' hnp
        have hpN : p ∈ N := by rw [hN]; simp
        have hd : dress1 N k = { k with body := some p.2 } := by
          unfold dress1; rw [hlk]
        rw [hd]
        unfold DB.notWf
        simp only [Bool.and_eq_true, List.all_eq_true, List.contains_eq_mem, decide_eq_true_eq, Bool.or_eq_true,
          Bool.not_eq_true', decide_eq_false_iff_not]
        refine ⟨⟨?_, ?_⟩, ?_⟩
        · intro v hv
          exact hvars p hpN k (by simp) hp1 v hv
        · intro s hs
          rcases hsy.1 s hs with h | h
          · exact Or.inl h
          · exact Or.inr (fun hm => h (hNS s hm))
        · have := ih (Np ++ [p]) Nr' (by rw [hN]; simp) (fun k' hk' => hplain k' (by simp [hk']))
            (fun q hq k' hk' => hvars q hq k' (by simp [hk'])) hord' (by simpa [hp1] using hsy.2)
          simpa [hp1] using this
    · have hc : (N.map (·.1)).contains k.sym = false := by simpa using hk
      simp only [List.map_cons, List.filter_cons, hc, Bool.false_eq_true, if_false] at hord
      have hd : dress1 N k = k := by
        unfold dress1; rw [lookup_none_of_not_mem N k.sym hk]
      rw [hd]
      unfold DB.notWf
      rw [hplain k (by simp)]
      exact ih Np Nr hN (fun k' hk' => hplain k' (by simp [hk'])) (fun q hq k' hk' => hvars q hq k' (by simp [hk'])) hord hsy

/-- `DB.notOk` of the table `C0` (no bodies) dressed with `N` -/
theorem notOk_dress (db : DB) (C0 : List Ctor) (N : List (Nat × Term)) (hdb : db.ctors = C0.map (dress1 N))
    (hplain : ∀ k ∈ C0, k.body = none) (hnd : (N.map (·.1)).Nodup)
    (hone : ∀ p ∈ N, (C0.filter (·.sym == p.1)).length = 1)
    (hord : (C0.map (·.sym)).filter (N.map (·.1)).contains = N.map (·.1))
    (hvars : ∀ p ∈ N, ∀ k ∈ C0, k.sym = p.1 → ∀ v ∈ p.2.vars, v ∈ k.args)
    (hsyms : SymsOK (N.map (·.1)) [] N) : db.notOk = true := by
  have hbody : ∀ k ∈ C0, (dress1 N k).body.isSome = true → k.sym ∈ N.map (·.1) := by
    intro k hk hb
    cases hl : N.lookup k.sym with
    | none =>
      unfold dress1 at hb
      rw [hl] at hb
      simp [hplain k hk] at hb
    | some b => exact mem_of_lookup_some N _ b hl
  have hNS : ∀ s ∈ db.notSyms, s ∈ N.map (·.1) := by
    intro s hs
    unfold DB.notSyms at hs
    rw [hdb] at hs
    obtain ⟨k', hk', rfl⟩ := List.mem_map.mp hs
    obtain ⟨hk'm, hk'b⟩ := List.mem_filter.mp hk'
    obtain ⟨k, hk, rfl⟩ := List.mem_map.mp hk'm
    rw [dress1_sym]
    exact hbody k hk hk'b
  unfold DB.notOk
  simp only [Bool.and_eq_true, List.all_eq_true, Bool.or_eq_true, beq_iff_eq]
  constructor
  · intro k' hk'
    rw [hdb] at hk' ⊢
    obtain ⟨k, hk, rfl⟩ := List.mem_map.mp hk'
    cases hb : (dress1 N k).body with
    | none => left; rfl
    | some b =>
      right
      have hmem := hbody k hk (by simp [hb])
      obtain ⟨p, hp, hpk⟩ := List.mem_map.mp hmem
      rw [filter_sym_map _ (dress1_sym N), List.length_map, dress1_sym, ← hpk]
      exact hone p hp
  · rw [hdb]
    exact notWf_dress db N hnd hNS C0 [] N rfl hplain hvars hord hsyms

end MM.ConvSpec
