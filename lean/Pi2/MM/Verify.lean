import Pi2.MM.Slice
import Pi2.MM.Compressed
/-!
# A reference Metamath verifier over `MDb`

Written from the Metamath book (section 4.2 "The basic language", Appendix B "Compressed proofs") and laid out like
`vlib/mm.py` (class `Verifier`, `strict=True`), so that the two can be compared function by function:

| mm.py                         | here                                   |
|-------------------------------|----------------------------------------|
| `Frame` + `self.frames`       | `VCtx` (the *flattened* frame stack)   |
| `self.labels`                 | `lookupLabel` (`ctx.f`, `ctx.e`, `asserts`) |
| `vars_of`                     | `varsOf`                               |
| `make_assertion`              | `makeAssertion`                        |
| `check_symbols`               | `checkSymbols`                         |
| `decode_num`/`split_compressed` | `convertToNumber` (Compressed.lean) / `splitLetters`, `proofSteps` |
| `apply`                       | `applyEntry` (`mkSubst`, `substToks`, `dvOk`) |
| `verify_proof`                | `runSteps`, `verifyProof`              |
| `run`                         | `runStmt` / `runStmts`                 |

mm.py keeps a stack of frames and only ever reads the union / concatenation (outermost first) of their components; a
`${ … $}` block pushes an empty frame and pops it at the end.  Here the context is the flattened stack and a block
restores the context it started with (assertions and the set of used labels survive the block).  Statements are
token lists: `printTerms` of the AST's terms.

Differences to mm.py, all on the side of the specification (see the report of `vlib/validate_verify.py`):
* labels are unique in the whole database (mm.py: among the *active* labels only);
* the `$d` conditions of a proof step are checked against **all** `$d` active at the `$p` (mm.py: only those between
  mandatory variables, which rejects correct proofs with `$d` on dummy variables);
* the variable of a `$f` has to be an active variable (mm.py: any declared symbol);
* normal (uncompressed) proofs are accepted as well (mm.py: compressed only).
Core Lean only; everything is structurally recursive (`decide` / `rfl` evaluate it).
-/
namespace MM

/-- an assertion's frame: `('assert', dvs, fhyps, ehyps, stmt)` -/
structure VAssert where
  dvs : List (String × String)
  fhyps : List (String × String × String)      -- label, typecode, variable: mandatory `$f` in database order
  ehyps : List (String × List String)          -- label, statement
  stmt : List String
deriving Repr, DecidableEq, Inhabited

/-- what a label denotes -/
inductive VEntry where
  | f (tc var : String)
  | e (toks : List String)
  | a (as : VAssert)
deriving Repr, DecidableEq, Inhabited

/-- the active declarations: the flattened frame stack -/
structure VCtx where
  c : List String := []
  v : List String := []
  d : List (String × String) := []              -- pairs `(a, b)` with `a < b`
  f : List (String × String × String) := []
  e : List (String × List String) := []
deriving Repr, Inhabited

structure VState where
  ctx : VCtx := {}
  asserts : List (String × VAssert) := []
  seen : List String := []                      -- every label used so far
deriving Repr, Inhabited

/-- unordered pairs of distinct names of one `$d` statement, each pair sorted (`fr.d.add((min(a, b), max(a, b)))`) -/
def disjPairs (vs : List String) : List (String × String) :=
  vs.flatMap fun a => (vs.filter fun b => a < b).map fun b => (a, b)

/-- `vars_of` -/
def varsOf (vs : List String) (toks : List String) : List String := toks.filter fun t => vs.contains t

/-- `make_assertion` -/
def makeAssertion (ctx : VCtx) (stmt : List String) : VAssert :=
  let mand := varsOf ctx.v stmt ++ ctx.e.flatMap fun e => varsOf ctx.v e.2
  { dvs := ctx.d.filter fun p => mand.contains p.1 && mand.contains p.2
    fhyps := ctx.f.filter fun f => mand.contains f.2.2
    ehyps := ctx.e
    stmt := stmt }

/-- `check_symbols`: the typecode is a declared constant; every symbol is a declared constant or an active variable
(not both), a variable has an active `$f` -/
def checkSymbols (ctx : VCtx) (toks : List String) (needFloat : Bool) : Bool :=
  (match toks with
   | [] => false
   | t :: _ => ctx.c.contains t) &&
  toks.all fun t =>
    !(ctx.c.contains t && ctx.v.contains t) && (ctx.c.contains t || ctx.v.contains t) &&
    (!needFloat || !ctx.v.contains t || ctx.f.any fun f => f.2.2 == t)

/-- `self.labels[lab]`: active hypotheses and earlier assertions -/
def lookupLabel (st : VState) (l : String) : Option VEntry :=
  match st.ctx.f.find? (fun f => f.1 == l) with
  | some f => some (.f f.2.1 f.2.2)
  | none =>
    match st.ctx.e.find? (fun e => e.1 == l) with
    | some e => some (.e e.2)
    | none => (st.asserts.lookup l).map .a

/-! ## one proof step -/

abbrev VSubst := List (String × List String)

/-- the substitution read off the `$f` hypotheses (`subst[var] = a[1:]`, the typecode `a[0]` has to match); a later
hypothesis for the same variable overrides an earlier one, as in a Python `dict` -/
def mkSubst : List (String × String × String) → List (List String) → VSubst → Option VSubst
  | [], _, acc => some acc
  | _ :: _, [], _ => none
  | f :: fs, a :: as, acc =>
      match a with
      | [] => none
      | t :: rest => if t = f.2.1 then mkSubst fs as ((f.2.2, rest) :: acc) else none

def substToks (σ : VSubst) (toks : List String) : List String :=
  toks.flatMap fun t => match σ.lookup t with | some r => r | none => [t]

/-- one `$d x y` of the applied assertion: the variables of `σ(x)` and `σ(y)` are disjoint and each pair of them is in
a `$d` active at the statement being proved -/
def dvOk (vars : List String) (dctx : List (String × String)) (σ : VSubst) (p : String × String) : Bool :=
  match σ.lookup p.1, σ.lookup p.2 with
  | some ex, some ey =>
      (varsOf vars ex).all fun a => (varsOf vars ey).all fun b =>
        a != b && dctx.contains (if a < b then (a, b) else (b, a))
  | _, _ => false

/-- `apply`; the stack has its top first -/
def applyEntry (vars : List String) (dctx : List (String × String)) (stack : List (List String)) :
    VEntry → Option (List (List String))
  | .f tc v => some ([tc, v] :: stack)
  | .e toks => some (toks :: stack)
  | .a as =>
      let n := as.fhyps.length + as.ehyps.length
      if stack.length < n then none else
      let args := (stack.take n).reverse
      match mkSubst as.fhyps args [] with
      | none => none
      | some σ =>
        if (as.ehyps.zip (args.drop as.fhyps.length)).all (fun ea => substToks σ ea.1.2 == ea.2)
            && as.dvs.all (dvOk vars dctx σ)
        then some (substToks σ as.stmt :: stack.drop n) else none

/-! ## proofs -/

inductive PStep where
  | lab (l : String)          -- apply a label
  | save                      -- `Z`
  | load (j : Nat)            -- push the `j`-th saved expression
deriving Repr, DecidableEq, Inhabited

/-- `split_compressed`'s letter loop (0 = `Z`); unlike `tokenize` of Compressed.lean it rejects letters outside
`A`‥`Z` and an incomplete number at the end -/
def splitLetters : List Char → List Char → Option (List Nat)
  | [], buf => if buf.isEmpty then some [] else none
  | c :: cs, buf =>
      if c = 'Z' then
        if buf.isEmpty then (splitLetters cs []).map (0 :: ·) else none
      else if (lsdigit c).isSome then do
        let n ← convertToNumber (buf ++ [c])
        (splitLetters cs []).map (n :: ·)
      else if (msdigit c).isSome then splitLetters cs (buf ++ [c])
      else none

/-- a number of a compressed proof against the label table -/
def resolveStep (table : List String) (n : Nat) : PStep :=
  if n = 0 then .save else
  match table[n - 1]? with
  | some l => .lab l
  | none => .load (n - table.length - 1)

/-- the steps of a proof: `( labels ) LETTERS` (Appendix B; the table is the mandatory hypotheses followed by the
labels in parentheses) or a plain list of labels -/
def proofSteps (mandLabels : List String) (proof : List String) : Option (List PStep) :=
  match proof with
  | "(" :: rest => do
      let (labels, body) ← parseLabels rest []
      let nums ← splitLetters (body.flatMap String.toList) []
      pure (nums.map (resolveStep (mandLabels ++ labels)))
  | _ => some (proof.map .lab)

/-- the loop of `verify_proof` -/
def runSteps (look : String → Option VEntry) (vars : List String) (dctx : List (String × String)) :
    List PStep → List (List String) → List (List String) → Option (List (List String))
  | [], stack, _ => some stack
  | .save :: rest, stack, saved =>
      match stack with
      | [] => none
      | top :: _ => runSteps look vars dctx rest stack (saved ++ [top])
  | .lab l :: rest, stack, saved =>
      match look l with
      | none => none
      | some e =>
        match applyEntry vars dctx stack e with
        | none => none
        | some stack' => runSteps look vars dctx rest stack' saved
  | .load j :: rest, stack, saved =>
      match saved[j]? with
      | none => none
      | some x => runSteps look vars dctx rest (x :: stack) saved

/-- `verify_proof` -/
def verifyProof (look : String → Option VEntry) (vars : List String) (dctx : List (String × String))
    (a : VAssert) (proof : List String) : Bool :=
  match proofSteps (a.fhyps.map (·.1) ++ a.ehyps.map (·.1)) proof with
  | none => false
  | some steps =>
    match runSteps look vars dctx steps [] [] with
    | some [x] => x == a.stmt
    | _ => false

/-! ## the database -/

inductive VRes where
  | fail
  | done                       -- the target lemma has been verified
  | ok (st : VState)
deriving Repr, Inhabited

mutual
/-- `run` on one statement.  `tgt = none`: every proof is verified; `tgt = some l`: only the proof of the `$p`
labelled `l`, and the run stops there with `done` (other `$p` are treated like `$a`) -/
def runStmt (tgt : Option String) (st : VState) : MStmt → VRes
  | .const cs => .ok { st with ctx := { st.ctx with c := st.ctx.c ++ cs } }
  | .var vs => .ok { st with ctx := { st.ctx with v := st.ctx.v ++ vs } }
  | .disj vs =>
      if vs.all fun t => st.ctx.v.contains t then
        .ok { st with ctx := { st.ctx with d := st.ctx.d ++ disjPairs vs } }
      else .fail
  | .float l tc v =>
      if checkSymbols st.ctx [tc, v] false && st.ctx.v.contains v && !st.seen.contains l then
        .ok { st with ctx := { st.ctx with f := st.ctx.f ++ [(l, tc, v)] }, seen := st.seen ++ [l] }
      else .fail
  | .ess l ts =>
      if checkSymbols st.ctx (printTerms ts) true && !st.seen.contains l then
        .ok { st with ctx := { st.ctx with e := st.ctx.e ++ [(l, printTerms ts)] }, seen := st.seen ++ [l] }
      else .fail
  | .ax l ts =>
      if checkSymbols st.ctx (printTerms ts) true && !st.seen.contains l then
        .ok { st with asserts := st.asserts ++ [(l, makeAssertion st.ctx (printTerms ts))], seen := st.seen ++ [l] }
      else .fail
  | .prov l ts pf =>
      if checkSymbols st.ctx (printTerms ts) true && !st.seen.contains l then
        let a := makeAssertion st.ctx (printTerms ts)
        let st' : VState := { st with asserts := st.asserts ++ [(l, a)], seen := st.seen ++ [l] }
        match tgt with
        | none => if verifyProof (lookupLabel st) st.ctx.v st.ctx.d a pf then .ok st' else .fail
        | some t =>
          if t = l then (if verifyProof (lookupLabel st) st.ctx.v st.ctx.d a pf then .done else .fail)
          else .ok st'
      else .fail
  | .block ss =>
      match runStmts tgt st ss with
      | .ok st' => .ok { st with asserts := st'.asserts, seen := st'.seen }
      | .done => .done
      | .fail => .fail
def runStmts (tgt : Option String) (st : VState) : List MStmt → VRes
  | [] => .ok st
  | s :: ss =>
      match runStmt tgt st s with
      | .ok st' => runStmts tgt st' ss
      | .done => .done
      | .fail => .fail
end

/-- every `$p` of the database verifies and all declarations are in order -/
def verifyDb (db : MDb) : Bool :=
  match runStmts none {} db with
  | .ok _ => true
  | _ => false

/-- the `$p` labelled `label` verifies: the declarations up to it are in order and its proof proves its statement -/
def verifyLemma (db : MDb) (label : String) : Bool :=
  match runStmts (some label) {} db with
  | .done => true
  | _ => false

end MM
