import Pi2.Gen.Slicer
import Pi2.MM.SliceThm
import Pi2.MM.SliceVerify
/-!
# The translated slicer (`Pi2/Gen/Slicer.lean`, regenerated from the text of `metamath_extract_slice.py` on every run
by `vlib/transslice.py`) is the hand-written model (`Pi2/MM/Slice.lean`)

`none` = raises, on both sides.

* `translated`: every statement of the eight functions was recognised.
* `construct_axiom_eq`, `deconstruct_compressed_proof_eq` (token level, see `Pi2/SliceSupport.lean`): unconditional.
* `match_axiom_while_eq` (the work-list loop is `matchAxiomLoop`, for EVERY fuel), `match_axiom_eq` (`stmtSize s ≤ fuel`),
  `deconstruct_provable_eq` (the source additionally asserts `not match_axiom(statement)` on a block; the model's function is
  only called where `match_axiom` returned `None`: `deconstruct_provable_eq_of_none`).
* `mem_get_constants`, `sgc_stmt(s)`: `get_constants` / `statements_get_constants` compute, AS SETS, the model's
  `termsConstants` / `stmtsConstants` plus the default constants (the Python code unions the default set in again for every
  subterm, so the lists differ); they raise on the same statements.
* `supporting_database_eq`: on the Python dictionary `ofCut cut` (string keys; the `$d` statement at position `n` has the key
  `'$d n'`) the model's ordered dictionary `cut` stands for, `supporting_database_for_provable` returns EXACTLY `supportingDb`.
  Where the order of a Python SET could reach the output: nowhere — `needed_lemmas` is only used for membership and for
  collecting sets; `needed_constants` / `needed_metavariables` reach the output only through `sorted(..)`, and `sortDedup_congr`
  shows that `sorted` of a set given as a list does not depend on order or repetitions; everything else is emitted in the
  insertion order of the dictionary `cut_antecedents` (`foldl_emit`, `emit_ofCutFrom`).  (The translator refuses the
  order-sensitive uses of a set: `tuple(<set>)`, a `for` loop over a set that does more than accumulate into sets, …)
* `slice_database_eq`: `list(slice_database(db, syntax_deps, include, exclude))` is `sliceDatabase`, for `stmtsSize db ≤ fuel`
  and `KeysOk db deps`: no label under which a statement is filed or looked up is of the form `$d <n>`.
  `keysOk_of_tokensOk`: true when no label / proof token / `syntax_deps` entry contains a blank (`tokensOk`, decidable) —
  as for everything the parser produces.
  The hypothesis cannot be dropped: on the AST (not obtainable from the parser)
  `$c … $. $v x y $. x-f $f … $. y-f $f … $. $d x y $.  «$d 2» $a |- ( foo x y ) $.  th $p |- ( foo x y ) $= ( ) A $.`
  the axiom labelled `$d 2` REPLACES the `$d x y` statement in `cut_antecedents` (same key), so the real slicer — and the
  translated one — lose the `$d` statement, while the model (which files `$d` statements under no key, see the comment at
  `MM.Cut`) keeps it.  That is the only difference between the model and the source found.
Core Lean only.
-/
namespace SliceTie
open MM SliceSup

theorem translated : Gen.Slicer.translated = true := by decide

/-! ## `construct_axiom` -/
theorem construct_axiom_eq (ants : List MStmt) (c : MStmt) :
    Gen.Slicer.construct_axiom ants c = constructAxiom ants c.label c.terms := by
  unfold Gen.Slicer.construct_axiom constructAxiom
  cases ants <;> simp

/-! ## `match_axiom` -/
theorem match_axiom_while_eq : ∀ (fuel : Nat) (work : List MStmt) (last : Option MStmt),
    Gen.Slicer.match_axiom_while1 fuel last work = matchAxiomLoop fuel work last
  | 0, _, _ => by simp [Gen.Slicer.match_axiom_while1, matchAxiomLoop]
  | n + 1, [], last => by
      unfold Gen.Slicer.match_axiom_while1 matchAxiomLoop
      cases last with
      | none => simp
      | some s => cases s <;> simp [pyAssert, isAxiomatic]
  | n + 1, s :: rest, last => by
      unfold Gen.Slicer.match_axiom_while1 matchAxiomLoop
      have ih := match_axiom_while_eq n
      cases s <;> simp [pyHeadRest, isBlock, isDisjoint, isEssential, isAxiomatic, MStmt.statements, ih]

theorem stmtsSize_append : ∀ (a b : List MStmt), stmtsSize (a ++ b) = stmtsSize a + stmtsSize b
  | [], b => by simp [stmtsSize]
  | s :: a, b => by simp [stmtsSize, stmtsSize_append a b]; omega

/-- enough fuel: the result of the work-list loop does not depend on it -/
theorem matchAxiomLoop_fuel : ∀ (n m : Nat) (work : List MStmt) (last : Option MStmt),
    stmtsSize work < n → stmtsSize work < m → matchAxiomLoop n work last = matchAxiomLoop m work last
  | 0, _, _, _, h, _ => by omega
  | _, 0, _, _, _, h => by omega
  | n + 1, m + 1, [], last, _, _ => by simp [matchAxiomLoop]
  | n + 1, m + 1, s :: rest, last, hn, hm => by
      unfold matchAxiomLoop
      cases s with
      | block ss =>
        simp only
        apply matchAxiomLoop_fuel <;> simp [stmtsSize_append, stmtsSize, stmtSize] at hn hm ⊢ <;> omega
      | disj _ => simp only; apply matchAxiomLoop_fuel <;> simp [stmtsSize, stmtSize] at hn hm ⊢ <;> omega
      | ess _ _ => simp only; apply matchAxiomLoop_fuel <;> simp [stmtsSize, stmtSize] at hn hm ⊢ <;> omega
      | ax _ _ => simp only; apply matchAxiomLoop_fuel <;> simp [stmtsSize, stmtSize] at hn hm ⊢ <;> omega
      | _ => rfl

/-- `match_axiom` with enough fuel is `matchAxiom` -/
theorem match_axiom_eq (fuel : Nat) (s : MStmt) (h : stmtSize s ≤ fuel) :
    Gen.Slicer.match_axiom fuel s = matchAxiom s := by
  unfold Gen.Slicer.match_axiom matchAxiom
  cases s with
  | block ss =>
    simp only [isAxiomatic, isBlock, MStmt.statements, Bool.false_eq_true, if_false, if_true]
    rw [match_axiom_while_eq]
    simp [stmtSize] at h
    exact matchAxiomLoop_fuel _ _ _ _ (by omega) (by omega)
  | _ => simp [isAxiomatic, isBlock]

/-! ## `deconstruct_provable` -/
@[simp] theorem pyAssert_true : pyAssert true = some () := rfl
@[simp] theorem pyAssert_false : pyAssert false = none := rfl

theorem foldlM_assert {α : Type} (p : α → Bool) : ∀ (xs : List α),
    xs.foldlM (fun (_ : Unit) x => (pyAssert (p x)).bind fun _ => some ()) () = if xs.all p then some () else none
  | [] => by simp
  | x :: xs => by
      have ih := foldlM_assert p xs
      rcases Bool.eq_false_or_eq_true (p x) with hp | hp
      · simp only [List.foldlM_cons, hp, pyAssert_true, Option.bind_some, Option.bind_eq_bind, List.all_cons,
          Bool.true_and]
        exact ih
      · simp [hp]

/-- `deconstruct_provable`: on a `$p` statement the model's function; on a block it first asserts that `match_axiom`
returns `None` (the model's `deconstructProvable` is only called when it does) -/
theorem deconstruct_provable_eq (fuel : Nat) (s : MStmt) (h : stmtSize s ≤ fuel) :
    Gen.Slicer.deconstruct_provable fuel s =
      if isBlock s then (do let r ← matchAxiom s; if r.isSome then none else deconstructProvable s)
      else deconstructProvable s := by
  unfold Gen.Slicer.deconstruct_provable
  cases s with
  | block ss =>
    simp only [isProvable, isBlock, MStmt.statements, Bool.false_eq_true, if_false, if_true]
    rw [match_axiom_eq fuel _ h]
    cases hm : matchAxiom (.block ss) with
    | none => simp
    | some r =>
      cases r with
      | some a => simp [pyAssert]
      | none =>
        simp only [Option.bind_eq_bind, Option.bind_some, Option.isSome_none, Bool.not_false, pyAssert_true,
          Option.pure_def]
        rw [foldlM_assert (fun s => isDisjoint s || isEssential s) ss.dropLast]
        have hall : (ss.dropLast.all fun s => isDisjoint s || isEssential s) =
            ss.dropLast.all (fun s => match s with | .disj _ => true | .ess _ _ => true | _ => false) := by
          congr 1; funext s; cases s <;> rfl
        unfold deconstructProvable pyLast
        rw [hall]
        have key : ∀ (b : Bool) (o : Option MStmt),
            ((if b = true then some () else none).bind fun _ => o.bind fun t => (pyAssert (isProvable t)).bind fun _ =>
              o.bind fun t => some (ss.dropLast, t)) =
            match o with
            | some (.prov l ts pf) => if b = true then some (ss.dropLast, .prov l ts pf) else none
            | _ => none := by
          intro b o
          cases b <;> rcases o with _ | t <;> try cases t
          all_goals simp [isProvable]
        exact key _ _
  | prov l ts pf => simp [isProvable, isBlock, deconstructProvable]
  | _ => simp [isProvable, isBlock, deconstructProvable]

theorem deconstruct_provable_eq_of_none (fuel : Nat) (s : MStmt) (h : stmtSize s ≤ fuel)
    (hm : matchAxiom s = some none) : Gen.Slicer.deconstruct_provable fuel s = deconstructProvable s := by
  rw [deconstruct_provable_eq fuel s h, hm]
  cases isBlock s <;> simp

/-! ## `deconstruct_compressed_proof` (token level: see `Pi2/SliceSupport.lean`) -/
theorem posFind_zero (pf : List String) (tok : String) :
    posFind pf tok 0 = match pf.idxOf? tok with | some i => 2 * (i : Int) | none => -1 := by
  have : ((0 : Int).toNat + 1) / 2 = 0 := by decide
  simp only [posFind, this, List.drop_zero]
  cases pf.idxOf? tok <;> simp

theorem posFind_odd (pf : List String) (tok : String) (i : Nat) :
    posFind pf tok (2 * (i : Int) + 1) =
      match (pf.drop (i + 1)).idxOf? tok with | some j => 2 * ((i + 1 + j : Nat) : Int) | none => -1 := by
  have : ((2 * (i : Int) + 1).toNat + 1) / 2 = i + 1 := by omega
  simp only [posFind, this]
  cases (pf.drop (i + 1)).idxOf? tok <;> simp

theorem posSlice_eq (pf : List String) (a b : Nat) (lo hi : Int) (ha : (lo.toNat + 1) / 2 = a)
    (hb : (hi.toNat + 1) / 2 = b) : posSlice pf lo hi = (pf.drop a).take (b - a) := by
  simp only [posSlice, ha, hb]

/-- the labels `deconstruct_compressed_proof` returns are `proofLabels` -/
theorem deconstruct_compressed_proof_eq (l : String) (ts : List MTerm) (pf : List String) :
    (Gen.Slicer.deconstruct_compressed_proof (.prov l ts pf)).map (·.1) = proofLabels pf := by
  unfold Gen.Slicer.deconstruct_compressed_proof proofLabels
  simp only [MStmt.proof]
  cases he : pf.isEmpty
  case true => simp
  case false =>
    simp only [Bool.not_false, pyAssert_true, Option.bind_eq_bind, Option.bind_some, Bool.false_eq_true, if_false,
      Option.pure_def]
    simp only [posFind_zero]
    cases h1 : pf.idxOf? "(" with
    | none =>
      have e : (-1 : Int) + 1 = 0 := by decide
      simp only [e, Option.isNone_none, Bool.true_and, posFind_zero]
      cases h2 : pf.idxOf? ")" with
      | none => simp
      | some j =>
        simp only
        by_cases hj : j = 0
        · subst hj; simp
        · have h3 : (decide ((0 : Int) ≤ 0) && decide ((0 : Int) < 2 * (j : Int))) = true := by
            simp; omega
          rw [h3]
          simp only [pyAssert_true, Option.bind_some, Option.map_some, hj, decide_false, Bool.false_eq_true, if_false]
          rw [posSlice_eq pf 0 j 0 (2 * (j : Int)) (by simp) (by omega)]
          simp
    | some i =>
      simp only [Option.isNone_some, Bool.false_and, Bool.false_eq_true, if_false, posFind_odd]
      cases h2 : (pf.drop (i + 1)).idxOf? ")" with
      | none =>
        have h3 : (decide ((0 : Int) ≤ 2 * (i : Int) + 1) && decide (2 * (i : Int) + 1 < -1)) = false := by
          simp; omega
        simp [h3]
      | some j =>
        simp only
        have h3 : (decide ((0 : Int) ≤ 2 * (i : Int) + 1) &&
            decide (2 * (i : Int) + 1 < 2 * ((i + 1 + j : Nat) : Int))) = true := by
          simp; omega
        rw [h3]
        simp only [pyAssert_true, Option.bind_some, Option.map_some]
        rw [posSlice_eq pf (i + 1) (i + 1 + j) _ _ (by omega) (by omega)]
        simp

/-! ## `get_constants`, `statements_get_constants`: the same SETS as `termsConstants` / `stmtsConstants` plus the default
constants (the Python code unions the default set in again at every level) -/
/-- the body of the `for` loop of `get_constants` -/
def gcStep (ret : List String) (term : MTerm) : List String :=
  if isApplication term then ret ++ [term.symbol] ++ Gen.Slicer.get_constants term.subterms else ret

theorem get_constants_unfold (ts : List MTerm) :
    Gen.Slicer.get_constants ts = ts.foldl gcStep defaultConstants := by
  rw [Gen.Slicer.get_constants]
  simp only [dite_eq_ite]
  rfl

mutual
theorem gc_term (a : String) : (t : MTerm) → ∀ (ret : List String),
    a ∈ gcStep ret t ↔ a ∈ ret ∨ (isApplication t = true ∧ a ∈ defaultConstants) ∨ a ∈ termConstants t
  | .mv _, ret => by simp [gcStep, isApplication, termConstants]
  | .app s sub, ret => by
      have h := gc_terms a sub defaultConstants
      simp only [gcStep, isApplication, if_true, MTerm.symbol, MTerm.subterms, get_constants_unfold, List.mem_append,
        h, termConstants, List.mem_cons, true_and, List.not_mem_nil, or_false]
      constructor
      · rintro ((h | h) | h | ⟨_, h⟩ | h) <;> simp [h]
      · rintro (h | h | h | h) <;> simp [h]
theorem gc_terms (a : String) : (ts : List MTerm) → ∀ (ret : List String),
    a ∈ ts.foldl gcStep ret ↔
      a ∈ ret ∨ ((∃ t ∈ ts, isApplication t = true) ∧ a ∈ defaultConstants) ∨ a ∈ termsConstants ts
  | [], ret => by simp [termsConstants]
  | t :: ts, ret => by
      simp only [List.foldl_cons, gc_terms a ts, gc_term a t, termsConstants, List.mem_append, List.mem_cons,
        exists_eq_or_imp]
      constructor
      · rintro ((h | ⟨h1, h2⟩ | h) | ⟨h1, h2⟩ | h) <;> simp [*]
      · rintro (h | ⟨h1 | h1, h2⟩ | h | h) <;> simp [*]
end

theorem mem_get_constants {a : String} {ts : List MTerm} :
    a ∈ Gen.Slicer.get_constants ts ↔ a ∈ defaultConstants ∨ a ∈ termsConstants ts := by
  rw [get_constants_unfold, gc_terms]
  constructor
  · rintro (h | ⟨_, h⟩ | h) <;> simp [h]
  · rintro (h | h) <;> simp [h]

/-- the body of the `for` loop of `statements_get_constants` -/
def sgcStep (ret : List String) (statement : MStmt) : Option (List String) :=
  if isStructured statement then some (ret ++ Gen.Slicer.get_constants statement.terms)
  else if isBlock statement then
    (Gen.Slicer.statements_get_constants statement.statements).bind fun r => some (ret ++ r)
  else if isDisjoint statement then some ret
  else none

theorem statements_get_constants_unfold (ss : List MStmt) :
    Gen.Slicer.statements_get_constants ss = ss.foldlM sgcStep [] := by
  rw [Gen.Slicer.statements_get_constants]
  simp only [dite_eq_ite, Option.pure_def, Option.bind_eq_bind]
  rfl

/-- `r` (what the translated code accumulates, starting from `ret`) and `m` (the model) raise together, and otherwise
`r` is `ret` plus the model's constants, plus possibly default constants -/
def AccRel (ret : List String) (r m : Option (List String)) : Prop :=
  match r, m with
  | none, none => True
  | some r, some xs => (∀ a, a ∈ ret ∨ a ∈ xs → a ∈ r) ∧ (∀ a, a ∈ r → a ∈ ret ∨ a ∈ defaultConstants ∨ a ∈ xs)
  | _, _ => False

mutual
theorem sgc_stmt : (s : MStmt) → ∀ (ret : List String), AccRel ret (sgcStep ret s) (stmtConstants s)
  | .const _, ret => by simp [sgcStep, isStructured, isFloating, isEssential, isAxiomatic, isProvable, isBlock, isDisjoint,
      stmtConstants, AccRel]
  | .var _, ret => by simp [sgcStep, isStructured, isFloating, isEssential, isAxiomatic, isProvable, isBlock, isDisjoint,
      stmtConstants, AccRel]
  | .disj _, ret => by
      simp [sgcStep, isStructured, isFloating, isEssential, isAxiomatic, isProvable, isBlock, isDisjoint,
        stmtConstants, AccRel]
      exact fun a h => Or.inl h
  | .float l tc v, ret => by
      simp only [sgcStep, isStructured, isFloating, Bool.true_or, if_true, stmtConstants, AccRel, MStmt.terms,
        List.mem_append, mem_get_constants, termsConstants, termConstants, List.append_nil]
      constructor
      · rintro a (h | h) <;> simp [h]
      · rintro a (h | h | h) <;> simp [h]
  | .ess l ts, ret => by
      simp only [sgcStep, isStructured, isFloating, isEssential, Bool.true_or, Bool.or_true, if_true, stmtConstants,
        AccRel, MStmt.terms, List.mem_append, mem_get_constants]
      constructor
      · rintro a (h | h) <;> simp [h]
      · rintro a (h | h | h) <;> simp [h]
  | .ax l ts, ret => by
      simp only [sgcStep, isStructured, isFloating, isEssential, isAxiomatic, Bool.true_or, Bool.or_true, if_true,
        stmtConstants, AccRel, MStmt.terms, List.mem_append, mem_get_constants]
      constructor
      · rintro a (h | h) <;> simp [h]
      · rintro a (h | h | h) <;> simp [h]
  | .prov l ts pf, ret => by
      simp only [sgcStep, isStructured, isFloating, isEssential, isAxiomatic, isProvable, Bool.or_true, if_true,
        stmtConstants, AccRel, MStmt.terms, List.mem_append, mem_get_constants]
      constructor
      · rintro a (h | h) <;> simp [h]
      · rintro a (h | h | h) <;> simp [h]
  | .block ss, ret => by
      have h := sgc_stmts ss []
      simp only [sgcStep, isStructured, isFloating, isEssential, isAxiomatic, isProvable, isBlock, Bool.or_self,
        Bool.false_eq_true, if_false, if_true, MStmt.statements, statements_get_constants_unfold, stmtConstants]
      revert h
      cases ss.foldlM sgcStep [] <;> cases stmtsConstants ss <;> simp only [AccRel, Option.bind_none, Option.bind_some,
        imp_self, List.mem_append, List.not_mem_nil, false_or]
      rintro ⟨h1, h2⟩
      constructor
      · rintro a (h | h)
        · exact Or.inl h
        · exact Or.inr (h1 a h)
      · rintro a (h | h)
        · exact Or.inl h
        · exact Or.inr (h2 a h)
theorem sgc_stmts : (ss : List MStmt) → ∀ (ret : List String), AccRel ret (ss.foldlM sgcStep ret) (stmtsConstants ss)
  | [], ret => by
      simp [stmtsConstants, AccRel]
      exact fun a h => Or.inl h
  | s :: ss, ret => by
      have h1 := sgc_stmt s ret
      simp only [List.foldlM_cons, stmtsConstants, Option.bind_eq_bind, Option.pure_def]
      revert h1
      cases hs : sgcStep ret s with
      | none => cases stmtConstants s <;> simp [AccRel]
      | some r1 =>
        cases hm : stmtConstants s with
        | none => simp [AccRel]
        | some x1 =>
          have h2 := sgc_stmts ss r1
          revert h2
          simp only [Option.bind_some]
          cases ss.foldlM sgcStep r1 <;> cases stmtsConstants ss <;> simp only [AccRel, Option.bind_none,
            Option.bind_some, imp_self, implies_true, List.mem_append, false_imp_iff, imp_false]
          rintro ⟨a1, a2⟩ ⟨b1, b2⟩
          constructor
          · rintro a (h | h | h)
            · exact a1 a (Or.inl (b1 a (Or.inl h)))
            · exact a1 a (Or.inl (b1 a (Or.inr h)))
            · exact a1 a (Or.inr h)
          · intro a h
            rcases a2 a h with h | h | h
            · rcases b2 a h with h | h | h
              · exact Or.inl h
              · exact Or.inr (Or.inl h)
              · exact Or.inr (Or.inr (Or.inl h))
            · exact Or.inr (Or.inl h)
            · exact Or.inr (Or.inr (Or.inr h))
end

/-! ## `sorted(<set>)` depends only on the set -/
theorem str_lt_of_le_of_ne {a b : String} (h : a ≤ b) (hne : a ≠ b) : a < b := by
  rw [← String.not_le]
  intro h'
  exact hne (String.le_antisymm h h')

theorem eraseDups_pairwise_lt : ∀ (n : Nat) (l : List String), l.length ≤ n → l.Pairwise (· ≤ ·) →
    l.eraseDups.Pairwise (· < ·)
  | _, [], _, _ => by simp
  | 0, _ :: _, h, _ => by simp at h
  | n + 1, a :: as, h, hp => by
      rw [List.eraseDups_cons, List.pairwise_cons]
      rw [List.pairwise_cons] at hp
      constructor
      · intro b hb
        rw [List.mem_eraseDups, List.mem_filter] at hb
        exact str_lt_of_le_of_ne (hp.1 b hb.1) (fun e => by subst e; simp at hb)
      · apply eraseDups_pairwise_lt n
        · have := List.length_filter_le (fun b => !b == a) as
          simp at h; omega
        · exact hp.2.sublist List.filter_sublist

theorem sortDedup_pairwise (xs : List String) : (sortDedup xs).Pairwise (· < ·) := by
  unfold sortDedup
  apply eraseDups_pairwise_lt _ _ (Nat.le_refl _)
  have h := List.pairwise_mergeSort (le := fun (a b : String) => decide (a ≤ b))
    (fun a b c hab hbc => by simp at hab hbc ⊢; exact String.le_trans hab hbc)
    (fun a b => by simp; exact String.le_total a b) xs
  exact h.imp (by simp)

theorem pairwise_lt_ext : ∀ (l1 l2 : List String), l1.Pairwise (· < ·) → l2.Pairwise (· < ·) →
    (∀ a, a ∈ l1 ↔ a ∈ l2) → l1 = l2
  | [], [], _, _, _ => rfl
  | [], b :: _, _, _, h => by have := (h b).2 (by simp); simp at this
  | a :: _, [], _, _, h => by have := (h a).1 (by simp); simp at this
  | a :: t1, b :: t2, h1, h2, h => by
      rw [List.pairwise_cons] at h1 h2
      have hab : a = b := by
        by_cases e : a = b
        · exact e
        · have ha : a ∈ t2 := by
            have := (h a).1 (by simp); simp [e] at this; exact this
          have hb : b ∈ t1 := by
            have := (h b).2 (by simp); simp [Ne.symm e] at this; exact this
          exact absurd (h1.1 b hb) (String.lt_asymm (h2.1 a ha))
      subst hab
      congr 1
      apply pairwise_lt_ext t1 t2 h1.2 h2.2
      intro x
      constructor
      · intro hx
        have := (h x).1 (by simp [hx])
        rcases List.mem_cons.1 this with e | e
        · subst e; exact absurd (h1.1 x hx) (String.lt_irrefl x)
        · exact e
      · intro hx
        have := (h x).2 (by simp [hx])
        rcases List.mem_cons.1 this with e | e
        · subst e; exact absurd (h2.1 x hx) (String.lt_irrefl x)
        · exact e

/-- `sorted(s)` of a set `s` given as a list: repetitions and order in the list do not matter -/
theorem sortDedup_congr {xs ys : List String} (h : ∀ a, a ∈ xs ↔ a ∈ ys) : sortDedup xs = sortDedup ys :=
  pairwise_lt_ext _ _ (sortDedup_pairwise xs) (sortDedup_pairwise ys) (fun a => by simp [mem_sortDedup, h a])

/-! ## the keys of `cut_antecedents` -/

/-- not one of the keys `f'$d {n}'` under which `slice_database` files the top-level `$d` statements -/
def notDKey (s : String) : Prop := ∀ n : Nat, s ≠ "$d " ++ toString n

theorem repr_inj {m n : Nat} (h : Nat.repr m = Nat.repr n) : m = n := by
  have h1 : Nat.toDigits 10 m = Nat.toDigits 10 n := by
    rw [← Nat.toList_repr, ← Nat.toList_repr, h]
  have := congrArg (fun l => Nat.ofDigitChars 10 l 0) h1
  simpa using this

theorem dkey_inj {m n : Nat} (h : "$d " ++ toString m = "$d " ++ toString n) : m = n :=
  repr_inj ((String.append_right_inj _).1 h)

theorem noBlank_notDKey {s : String} (h : ' ' ∉ s.toList) : notDKey s := by
  intro n e
  apply h
  rw [e, String.toList_append]
  simp

theorem sugar_notDKey (x : String) : notDKey (x ++ "is-sugar") := by
  intro n e
  have h := congrArg (fun s => s.toList.getLast?) e
  simp only [String.toList_append] at h
  have hd : (toString n : String).toList = Nat.toDigits 10 n := Nat.toList_repr
  rw [hd] at h
  have hne : Nat.toDigits 10 n ≠ [] := Nat.toDigits_ne_nil
  rw [List.getLast?_append, List.getLast?_append] at h
  cases hl : (Nat.toDigits 10 n).getLast? with
  | none => exact hne (List.getLast?_eq_none_iff.1 hl)
  | some c =>
    rw [hl] at h
    simp at h
    subst h
    have := Nat.isDigit_of_mem_toDigits (b := 10) (n := n) (by decide) (by decide) (List.mem_of_getLast? hl)
    simp [Char.isDigit] at this
/-! ## the Python dictionary `cut_antecedents` (string keys) a model `Cut` stands for

An entry is never removed and a new key is appended, so the `$d` statement filed when the dictionary had `n` entries
(key `'$d n'`) is the entry number `n`. -/
def ofCutFrom : Nat → Cut → PyDict MStmt
  | _, [] => []
  | i, (some l, v) :: rest => (l, v) :: ofCutFrom (i + 1) rest
  | i, (none, v) :: rest => ("$d " ++ toString i, v) :: ofCutFrom (i + 1) rest

def ofCut (c : Cut) : PyDict MStmt := ofCutFrom 0 c

/-- the entries without a label are the `$d` statements, the labels are not `$d` keys -/
structure CutOk (c : Cut) : Prop where
  disj : ∀ v, (none, v) ∈ c → isDisjoint v = true
  keys : ∀ k v, (some k, v) ∈ c → notDKey k

theorem length_ofCutFrom : ∀ (i : Nat) (c : Cut), (ofCutFrom i c).length = c.length
  | _, [] => rfl
  | i, (some l, v) :: rest => by simp [ofCutFrom, length_ofCutFrom (i + 1) rest]
  | i, (none, v) :: rest => by simp [ofCutFrom, length_ofCutFrom (i + 1) rest]

theorem ofCutFrom_append : ∀ (i : Nat) (a b : Cut),
    ofCutFrom i (a ++ b) = ofCutFrom i a ++ ofCutFrom (i + a.length) b
  | _, [], b => by simp [ofCutFrom]
  | i, (some l, v) :: rest, b => by
      simp [ofCutFrom, ofCutFrom_append (i + 1) rest b]; congr 1; omega
  | i, (none, v) :: rest, b => by
      simp [ofCutFrom, ofCutFrom_append (i + 1) rest b]; congr 1; omega

theorem values_ofCutFrom : ∀ (i : Nat) (c : Cut), dictValues (ofCutFrom i c) = c.map (·.2)
  | _, [] => rfl
  | i, (some l, v) :: rest => by
      have := values_ofCutFrom (i + 1) rest
      simp only [dictValues] at this ⊢
      simp [ofCutFrom, this]
  | i, (none, v) :: rest => by
      have := values_ofCutFrom (i + 1) rest
      simp only [dictValues] at this ⊢
      simp [ofCutFrom, this]

/-- the keys of the dictionary: the labels, and `$d j` for positions `j` -/
theorem key_ofCutFrom : ∀ (i : Nat) (c : Cut) (k : String) (v : MStmt), (k, v) ∈ ofCutFrom i c →
    (some k, v) ∈ c ∨ ∃ j, i ≤ j ∧ j < i + c.length ∧ k = "$d " ++ toString j ∧ (none, v) ∈ c
  | _, [], _, _, h => by simp [ofCutFrom] at h
  | i, (some l, w) :: rest, k, v, h => by
      simp only [ofCutFrom, List.mem_cons, Prod.mk.injEq] at h
      rcases h with ⟨rfl, rfl⟩ | h
      · simp
      · rcases key_ofCutFrom (i + 1) rest k v h with h | ⟨j, h1, h2, h3, h4⟩
        · exact Or.inl (List.mem_cons_of_mem _ h)
        · exact Or.inr ⟨j, by omega, by simp; omega, h3, List.mem_cons_of_mem _ h4⟩
  | i, (none, w) :: rest, k, v, h => by
      simp only [ofCutFrom, List.mem_cons, Prod.mk.injEq] at h
      rcases h with ⟨rfl, rfl⟩ | h
      · exact Or.inr ⟨i, by omega, by simp, rfl, by simp⟩
      · rcases key_ofCutFrom (i + 1) rest k v h with h | ⟨j, h1, h2, h3, h4⟩
        · exact Or.inl (List.mem_cons_of_mem _ h)
        · exact Or.inr ⟨j, by omega, by simp; omega, h3, List.mem_cons_of_mem _ h4⟩

/-- looking up a string that is not a `$d` key -/
theorem lookup_ofCutFrom {q : String} (hq : notDKey q) : ∀ (i : Nat) (c : Cut),
    (ofCutFrom i c).lookup q = c.lookup (some q)
  | _, [] => rfl
  | i, (some l, v) :: rest => by
      simp only [ofCutFrom, List.lookup_cons, lookup_ofCutFrom hq (i + 1) rest]
      by_cases e : q = l
      · subst e; simp
      · have e1 : (q == l) = false := by simpa using e
        have e2 : (some q == some l) = false := by simpa using e
        simp [e1, e2]
  | i, (none, v) :: rest => by
      simp only [ofCutFrom, List.lookup_cons, lookup_ofCutFrom hq (i + 1) rest]
      have e1 : (q == "$d " ++ i.repr) = false := by simpa using hq i
      have e2 : (some q == (none : Option String)) = false := by simp
      simp [e1, e2]

theorem anyKey_ofCutFrom {q : String} (hq : notDKey q) : ∀ (i : Nat) (c : Cut),
    (ofCutFrom i c).any (·.1 == q) = c.any (·.1 == some q)
  | _, [] => rfl
  | i, (some l, v) :: rest => by
      simp [ofCutFrom, anyKey_ofCutFrom hq (i + 1) rest]
  | i, (none, v) :: rest => by
      have e1 : ¬ "$d " ++ i.repr = q := fun e => hq i e.symm
      simp [ofCutFrom, anyKey_ofCutFrom hq (i + 1) rest, e1]

theorem map_ofCutFrom (q : String) (hq : notDKey q) (v : MStmt) : ∀ (i : Nat) (c : Cut),
    (ofCutFrom i c).map (fun (k', v') => if k' == q then (k', v) else (k', v')) =
      ofCutFrom i (c.map fun (k', v') => if k' == some q then (k', v) else (k', v'))
  | _, [] => rfl
  | i, (some l, w) :: rest => by
      simp only [ofCutFrom, List.map_cons, map_ofCutFrom q hq v (i + 1) rest]
      by_cases e : l = q
      · subst e; simp [ofCutFrom]
      · have e1 : (l == q) = false := by simpa using e
        have e2 : (some l == some q) = false := by simpa using e
        simp [e1, e2, ofCutFrom]
  | i, (none, w) :: rest => by
      have e1 : ¬ "$d " ++ i.repr = q := fun e => hq i e.symm
      have ih := map_ofCutFrom q hq v (i + 1) rest
      simp only [ofCutFrom, List.map_cons, ih]
      simp [e1, ofCutFrom]

/-- `cut_antecedents[label] = v` -/
theorem dictSet_ofCut {q : String} (hq : notDKey q) (c : Cut) (v : MStmt) :
    SliceSup.dictSet (ofCut c) q v = ofCut (MM.dictSet c q v) := by
  unfold SliceSup.dictSet MM.dictSet ofCut
  rw [anyKey_ofCutFrom hq]
  by_cases h : c.any (·.1 == some q) = true
  · rw [if_pos h, if_pos h]; exact map_ofCutFrom q hq v 0 c
  · rw [if_neg h, if_neg h, ofCutFrom_append]
    simp [ofCutFrom]

/-- `cut_antecedents[f'$d {len(cut_antecedents)}'] = v`: the key is new -/
theorem dictSet_dkey (c : Cut) (hc : CutOk c) (v : MStmt) :
    SliceSup.dictSet (ofCut c) ("$d " ++ toString (dictLen (ofCut c))) v = ofCut (c ++ [(none, v)]) := by
  unfold SliceSup.dictSet ofCut dictLen
  rw [length_ofCutFrom]
  have hnew : (ofCutFrom 0 c).any (·.1 == "$d " ++ toString c.length) = false := by
    rw [List.any_eq_false]
    rintro ⟨k, w⟩ hm
    simp only [beq_iff_eq]
    intro e
    subst e
    rcases key_ofCutFrom 0 c _ w hm with h | ⟨j, _, h2, h3, _⟩
    · exact hc.keys _ _ h c.length rfl
    · have := dkey_inj h3; omega
  rw [hnew, ofCutFrom_append]
  simp [ofCutFrom]

/-! ## `supporting_database_for_provable` -/

theorem keysContains_ofCut {q : String} (hq : notDKey q) (c : Cut) :
    (dictKeys (ofCut c)).contains q = c.any (·.1 == some q) := by
  rw [← anyKey_ofCutFrom hq 0 c]
  simp only [dictKeys, ofCut, List.contains_eq_any_beq, List.any_map]
  congr 1; funext x; simp [BEq.comm]

/-- the closure `corresponding_sugar_axiom` -/
theorem sugar_eq (c : Cut) (label : String) :
    (if (!(label.endsWith "is-pattern")) = true then none
      else
        let sugar_label := (strDropEnd label "is-pattern".length ++ "is-sugar")
        if (!((dictKeys (ofCut c)).contains sugar_label)) = true then none else some sugar_label) = sugarOf c label := by
  unfold sugarOf strDropEnd
  simp only [keysContains_ofCut (sugar_notDKey _)]
  cases label.endsWith "is-pattern"
  · simp
  · simp only [Bool.not_true, Bool.false_eq_true, if_false, if_true]
    generalize (List.any c _) = b
    cases b <;> rfl

theorem sugar_nonempty (x : String) : strTruthy (x ++ "is-sugar") = true := by
  simp [strTruthy]

theorem sugar_truthy (c : Cut) (label : String) : (sugarOf c label).filter strTruthy = sugarOf c label := by
  unfold sugarOf
  split
  · simp only
    split
    · simp [sugar_nonempty]
    · rfl
  · rfl

theorem foldl_append_flatMap {α β : Type} (f : α → List β) : ∀ (xs : List α) (init : List β),
    xs.foldl (fun acc x => acc ++ f x) init = init ++ xs.flatMap f
  | [], init => by simp
  | x :: xs, init => by simp [foldl_append_flatMap f xs, List.append_assoc]

theorem topEss_ofCutFrom : ∀ (i : Nat) (c : Cut), (∀ v, (none, v) ∈ c → isDisjoint v = true) →
    ((dictItems (ofCutFrom i c)).filter (fun x => isEssential x.2)).map (·.1) = topEssLabels c
  | _, [], _ => rfl
  | i, (some l, v) :: rest, h => by
      have ih := topEss_ofCutFrom (i + 1) rest (fun v hv => h v (List.mem_cons_of_mem _ hv))
      simp only [dictItems, topEssLabels, isEssential] at ih ⊢
      cases v <;> simp [ofCutFrom, ih]
  | i, (none, v) :: rest, h => by
      have ih := topEss_ofCutFrom (i + 1) rest (fun v hv => h v (List.mem_cons_of_mem _ hv))
      have hv := h v (by simp)
      simp only [dictItems, topEssLabels, isEssential] at ih ⊢
      cases v <;> simp [isDisjoint] at hv
      simp [ofCutFrom, ih]

/-- what the emission loop of `supporting_database_for_provable` does with one entry -/
def emitG (needed mvs : List String) (x : String × MStmt) : Option MStmt :=
  if isDisjoint x.2 then
    if decide ((x.2.metavariables.filter fun var => mvs.contains var).length > 1) then
      some (.disj (x.2.metavariables.filter fun var => mvs.contains var)) else none
  else if needed.contains x.1 || (isFloating x.2 && mvs.contains x.2.metavariable) then some x.2 else none

theorem foldl_emit (needed mvs : List String) : ∀ (d : List (String × MStmt)) (init : List MStmt),
    d.foldl (fun statements x =>
      if isDisjoint x.2 = true then
        if decide ((x.2.metavariables.filter fun var => mvs.contains var).length > 1) = true then
          statements ++ [MStmt.disj (x.2.metavariables.filter fun var => mvs.contains var)]
        else statements
      else if (needed.contains x.1 || isFloating x.2 && mvs.contains x.2.metavariable) = true then
        statements ++ [x.2]
      else statements) init = init ++ d.filterMap (emitG needed mvs)
  | [], init => by simp
  | x :: d, init => by
      rw [List.foldl_cons, foldl_emit needed mvs d, List.filterMap_cons]
      unfold emitG
      split <;> split <;> simp

theorem emit_ofCutFrom (needed mvs : List String) : ∀ (i : Nat) (c : Cut),
    (∀ v, (none, v) ∈ c → isDisjoint v = true) →
    (ofCutFrom i c).filterMap (emitG needed mvs) = c.filterMap (keepEntry needed mvs)
  | _, [], _ => rfl
  | i, (some l, v) :: rest, h => by
      have ih := emit_ofCutFrom needed mvs (i + 1) rest (fun v hv => h v (List.mem_cons_of_mem _ hv))
      simp only [ofCutFrom, List.filterMap_cons, ih]
      have : emitG needed mvs (l, v) = keepEntry needed mvs (some l, v) := by
        cases v <;> simp [emitG, keepEntry, isDisjoint, isFloating, nameNeeded, MStmt.metavariables, MStmt.metavariable]
      rw [this]
  | i, (none, v) :: rest, h => by
      have ih := emit_ofCutFrom needed mvs (i + 1) rest (fun v hv => h v (List.mem_cons_of_mem _ hv))
      have hv := h v (by simp)
      simp only [ofCutFrom, List.filterMap_cons, ih]
      have : emitG needed mvs ("$d " ++ toString i, v) = keepEntry needed mvs (none, v) := by
        cases v <;> simp [isDisjoint] at hv
        simp [emitG, keepEntry, isDisjoint, MStmt.metavariables]
      rw [this]

theorem foldl_typecodes (mvs : List String) : ∀ (vals : List MStmt) (init : List String),
    vals.foldl (fun needed_constants lemma_statement =>
      if (isFloating lemma_statement && mvs.contains lemma_statement.metavariable) = true then
        needed_constants ++ [lemma_statement.typecode]
      else needed_constants) init =
    init ++ vals.filterMap (fun st => match st with
      | .float _ tc v => if mvs.contains v then some tc else none
      | _ => none)
  | [], init => by simp
  | s :: vals, init => by
      rw [List.foldl_cons, foldl_typecodes mvs vals, List.filterMap_cons]
      cases s <;> simp [isFloating, MStmt.metavariable, MStmt.typecode]
      split <;> simp

theorem typecodes_ofCut (c : Cut) (mvs : List String) :
    (dictValues (ofCut c)).filterMap (fun st => match st with
      | .float _ tc v => if mvs.contains v then some tc else none
      | _ => none) = keptTypecodesOf c mvs := by
  rw [ofCut, values_ofCutFrom, List.filterMap_map]
  rfl

theorem mapM_congr {α β : Type} (f g : α → Option β) : ∀ (l : List α), (∀ x ∈ l, f x = g x) → l.mapM f = l.mapM g
  | [], _ => rfl
  | x :: l, h => by
      rw [List.mapM_cons, List.mapM_cons, h x (by simp), mapM_congr f g l (fun y hy => h y (List.mem_cons_of_mem _ hy))]

theorem sgcStep_acc (ret : List String) (s : MStmt) : sgcStep ret s = (sgcStep [] s).map (ret ++ ·) := by
  unfold sgcStep
  split
  · simp
  · split
    · cases Gen.Slicer.statements_get_constants s.statements <;> simp
    · split <;> simp

/-- the loop that collects the constants and metavariables of the needed statements -/
theorem fold_needed : ∀ (all : List MStmt) (c0 m0 : List String),
    all.foldlM (fun (x : List String × List String) needed =>
      (Gen.Slicer.statements_get_constants [needed]).bind fun r =>
        some (x.1 ++ r, x.2 ++ needed.get_metavariables)) (c0, m0) =
    (all.foldlM sgcStep c0).map fun c => (c, m0 ++ stmtsMvs all)
  | [], c0, m0 => by simp [stmtsMvs]
  | s :: all, c0, m0 => by
      rw [List.foldlM_cons, List.foldlM_cons, statements_get_constants_unfold, sgcStep_acc c0 s]
      simp only [List.foldlM_cons, List.foldlM_nil, Option.bind_eq_bind, Option.pure_def]
      generalize sgcStep [] s = o
      cases o with
      | none => simp
      | some r =>
        simp only [Option.bind_some, Option.map_some]
        rw [fold_needed all]
        simp [stmtsMvs, MStmt.get_metavariables, List.append_assoc]

theorem pyFilterNone_sugar (c : Cut) (labels : List String) :
    pyFilterNone (labels.map fun label => sugarOf c label) = labels.filterMap (sugarOf c) := by
  unfold pyFilterNone
  rw [List.filterMap_map]
  congr 1; funext l; exact sugar_truthy c l

theorem needed_eq (c : Cut) (hc : CutOk c) (deps : List (String × List String)) (labels : List String) :
    List.foldl (fun needed_lemmas lemma => needed_lemmas ++ dictGetD deps lemma [])
        (labels ++ pyFilterNone (labels.map fun label => sugarOf c label))
        (labels ++ pyFilterNone (labels.map fun label => sugarOf c label)) ++
      List.map (fun x => x.fst) (List.filter (fun x => isEssential x.snd) (dictItems (ofCut c))) =
    neededOf c deps labels := by
  rw [foldl_append_flatMap, pyFilterNone_sugar, ofCut, topEss_ofCutFrom 0 c hc.disj]
  rfl

theorem sugarOf_notDKey {c : Cut} {l s : String} (h : sugarOf c l = some s) : notDKey s := by
  unfold sugarOf at h
  split at h
  · simp only at h
    split at h
    · injection h with h; subst h; exact sugar_notDKey _
    · cases h
  · cases h

theorem mem_topEssLabels {c : Cut} {k : String} (h : k ∈ topEssLabels c) : ∃ v, (some k, v) ∈ c := by
  simp only [topEssLabels, List.mem_filterMap] at h
  obtain ⟨⟨k', v⟩, hm, e⟩ := h
  cases v <;> simp at e
  subst e
  exact ⟨_, hm⟩

theorem needed_notDKey {c : Cut} (hc : CutOk c) {deps : List (String × List String)} {labels : List String}
    (hlab : ∀ x ∈ labels, notDKey x) (hdeps : ∀ k v, (k, v) ∈ deps → ∀ x ∈ v, notDKey x) :
    ∀ x ∈ neededOf c deps labels, notDKey x := by
  have h1 : ∀ x ∈ labels ++ labels.filterMap (sugarOf c), notDKey x := by
    intro x hx
    rcases List.mem_append.1 hx with hx | hx
    · exact hlab x hx
    · obtain ⟨l, _, hl⟩ := List.mem_filterMap.1 hx
      exact sugarOf_notDKey hl
  intro x hx
  simp only [neededOf, List.mem_append] at hx
  rcases hx with (hx | hx) | hx
  · exact h1 x (List.mem_append.2 hx)
  · obtain ⟨l, _, hl⟩ := List.mem_flatMap.1 hx
    cases hlk : deps.lookup l with
    | none => simp [hlk] at hl
    | some v =>
      rw [hlk] at hl
      exact hdeps l v (lookup_mem deps l v hlk) x hl
  · obtain ⟨v, hv⟩ := mem_topEssLabels hx
    exact hc.keys _ _ hv

theorem defaults_in_fold {l : String} {ts : List MTerm} {pf : List String} {rest : List MStmt} {r : List String}
    (h : (MStmt.prov l ts pf :: rest).foldlM sgcStep [] = some r) : ∀ a ∈ defaultConstants, a ∈ r := by
  have h0 : sgcStep [] (MStmt.prov l ts pf) = some (Gen.Slicer.get_constants ts) := by
    simp [sgcStep, isStructured, isProvable, MStmt.terms]
  rw [List.foldlM_cons, h0] at h
  simp only [Option.bind_eq_bind, Option.bind_some] at h
  have hr := sgc_stmts rest (Gen.Slicer.get_constants ts)
  rw [h] at hr
  intro a ha
  cases hm : stmtsConstants rest with
  | none => rw [hm] at hr; exact hr.elim
  | some xs =>
    rw [hm] at hr
    exact hr.1 a (Or.inl (mem_get_constants.2 (Or.inl ha)))

/-- **`supporting_database_for_provable` is `supportingDb`**, on the Python dictionary `ofCut cut` the model's `cut` stands for.
The intermediate SETS differ as lists (the Python code unions the default constants in at every level of every term), the
OUTPUT is equal: the only place where the order of a set reaches the output is `sorted(..)` (`sortDedup_congr`). -/
theorem supporting_database_eq (cut : Cut) (deps : List (String × List String)) (l : String) (ts : List MTerm) (pf : List String)
    (ess : List MStmt) (hc : CutOk cut)
    (hlab : ∀ labels, proofLabels pf = some labels → ∀ x ∈ labels, notDKey x)
    (hdeps : ∀ k v, (k, v) ∈ deps → ∀ x ∈ v, notDKey x) :
    Gen.Slicer.supporting_database_for_provable (ofCut cut) deps (.prov l ts pf) ess = supportingDb cut deps l ts pf ess := by
  unfold Gen.Slicer.supporting_database_for_provable supportingDb
  simp only [sugar_eq]
  have hd := deconstruct_compressed_proof_eq l ts pf
  cases hg : Gen.Slicer.deconstruct_compressed_proof (.prov l ts pf) with
  | none =>
    rw [hg] at hd
    simp only [Option.map_none] at hd
    rw [← hd]
    rfl
  | some p =>
    obtain ⟨labels, rest⟩ := p
    rw [hg] at hd
    simp only [Option.map_some] at hd
    rw [← hd]
    simp only [Option.bind_eq_bind, Option.bind_some, needed_eq cut hc deps labels]
    change _ = (List.mapM (fun l => List.lookup (some l) cut) (neededOf cut deps labels)).bind _
    have hn := needed_notDKey hc (hlab labels hd.symm) hdeps
    rw [mapM_congr (fun n => dictGet? (ofCut cut) n) (fun l => cut.lookup (some l)) _
      (fun x hx => lookup_ofCutFrom (hn x hx) 0 cut)]
    cases (neededOf cut deps labels).mapM (fun l => cut.lookup (some l)) with
    | none => rfl
    | some neededStmts =>
      simp only [Option.bind_some, Option.pure_def, List.cons_append, List.nil_append]
      rw [fold_needed]
      have hdef := @defaults_in_fold l ts pf (ess ++ neededStmts)
      generalize hall : MStmt.prov l ts pf :: (ess ++ neededStmts) = all at hdef
      have hrel := sgc_stmts all []
      cases h1 : all.foldlM sgcStep [] with
      | none =>
        rw [h1] at hrel
        cases h2 : stmtsConstants all with
        | none => rfl
        | some xs => rw [h2] at hrel; exact hrel.elim
      | some r =>
        rw [h1] at hrel
        cases h2 : stmtsConstants all with
        | none => rw [h2] at hrel; exact hrel.elim
        | some consts =>
          rw [h2] at hrel
          simp only [AccRel, List.not_mem_nil, false_or] at hrel
          simp only [Option.map_some, Option.bind_some, List.nil_append, foldl_emit, foldl_typecodes, typecodes_ofCut,
            sortedSet, List.map_id']
          simp only [dictItems, ofCut, emit_ofCutFrom _ _ 0 cut hc.disj]
          have hconst : sortDedup (r ++ keptTypecodesOf cut (stmtsMvs all)) =
              sortDedup (defaultConstants ++ consts ++ keptTypecodesOf cut (stmtsMvs all)) := by
            apply sortDedup_congr
            intro a
            simp only [List.mem_append]
            constructor
            · rintro (h | h)
              · rcases hrel.2 a h with h | h
                · exact Or.inl (Or.inl h)
                · exact Or.inl (Or.inr h)
              · exact Or.inr h
            · rintro ((h | h) | h)
              · exact Or.inl (hdef h1 a h)
              · exact Or.inl (hrel.1 a h)
              · exact Or.inr h
          rw [hconst]
          congr 1
          cases (stmtsMvs all).isEmpty <;> rfl
/-! ## `slice_database` -/

theorem matchAxiom_is_ax {s r : MStmt} (h : matchAxiom s = some (some r)) : ∃ l ts, r = .ax l ts := by
  cases s with
  | ax l ts => simp [matchAxiom] at h; exact ⟨l, ts, h.symm⟩
  | block ss => obtain ⟨_, l, ts, e, _⟩ := matchAxiom_block_spec h; exact ⟨l, ts, e⟩
  | _ => simp [matchAxiom] at h

/-- the strings under which `slice_database` files statements and which it looks up are not `$d <n>` (they are tokens) -/
structure KeysOk (db : MDb) (deps : List (String × List String)) : Prop where
  floatEss : ∀ s ∈ db, (isFloating s || isEssential s) = true → notDKey s.label
  axioms : ∀ s ∈ db, ∀ l ts, matchAxiom s = some (some (.ax l ts)) → notDKey l
  provables : ∀ s ∈ db, ∀ ants l ts pf, deconstructProvable s = some (ants, .prov l ts pf) →
    notDKey l ∧ ∀ labels, proofLabels pf = some labels → ∀ x ∈ labels, notDKey x
  deps : ∀ k v, (k, v) ∈ deps → ∀ x ∈ v, notDKey x

/-- the state of the loop of `slice_database` a model state stands for -/
def enc (st : SliceSt) : PyDict MStmt × List (String × MDb) := (ofCut st.cut, st.out)

theorem foldlM_sim {σ τ α : Type} (enc : σ → τ) (Inv : σ → Prop) (f : τ → α → Option τ) (g : σ → α → Option σ) :
    ∀ (l : List α) (st : σ), Inv st →
      (∀ s ∈ l, ∀ st, Inv st → f (enc st) s = (g st s).map enc ∧ ∀ st', g st s = some st' → Inv st') →
      l.foldlM f (enc st) = (l.foldlM g st).map enc
  | [], st, _, _ => by simp
  | s :: l, st, hinv, h => by
      obtain ⟨h1, h2⟩ := h s (by simp) st hinv
      rw [List.foldlM_cons, List.foldlM_cons, h1]
      cases hg : g st s with
      | none => simp
      | some st' =>
        simp only [Option.map_some, Option.bind_eq_bind, Option.bind_some]
        exact foldlM_sim enc Inv f g l st' (h2 st' hg) (fun s hs => h s (List.mem_cons_of_mem _ hs))

theorem cutOk_dictSet {c : Cut} (hc : CutOk c) {k : String} (hk : notDKey k) (v : MStmt) : CutOk (MM.dictSet c k v) := by
  constructor
  · intro w hw
    rcases mem_dictSet hw with h | h
    · exact hc.disj w h
    · cases h
  · intro k' w hw
    rcases mem_dictSet hw with h | h
    · exact hc.keys k' w h
    · injection h with h1 _; injection h1 with h1; subst h1; exact hk

theorem stmtSize_le_of_mem {s : MStmt} : ∀ {db : List MStmt}, s ∈ db → stmtSize s ≤ stmtsSize db
  | [], h => by cases h
  | a :: db, h => by
      rcases List.mem_cons.1 h with rfl | h
      · simp [stmtsSize]
      · have := stmtSize_le_of_mem h; simp [stmtsSize]; omega

/-- the `$p` branch of the loop body, for a statement on which `match_axiom` returned `None` -/
theorem step_provable (fuel : Nat) (deps : List (String × List String)) (incl excl : List String) (st : SliceSt)
    (hinv : CutOk st.cut) (s : MStmt) (hsz : stmtSize s ≤ fuel) (hm : matchAxiom s = some none)
    (hpb : (isProvable s || isBlock s) = true)
    (hp : ∀ ants l ts pf, deconstructProvable s = some (ants, .prov l ts pf) →
      notDKey l ∧ ∀ labels, proofLabels pf = some labels → ∀ x ∈ labels, notDKey x)
    (hdeps : ∀ k v, (k, v) ∈ deps → ∀ x ∈ v, notDKey x) :
    ((Gen.Slicer.deconstruct_provable fuel s).bind fun __x =>
        if (incl.contains __x.snd.label && !excl.contains __x.snd.label) = true then
          (Gen.Slicer.supporting_database_for_provable (ofCut st.cut) deps __x.snd __x.fst).bind fun __do_lift =>
            (some (st.out ++ [(__x.snd.label, __do_lift)])).bind fun yielded =>
              some (SliceSup.dictSet (ofCut st.cut) __x.snd.label (Gen.Slicer.construct_axiom __x.fst __x.snd), yielded)
        else
          (some st.out).bind fun yielded =>
            some (SliceSup.dictSet (ofCut st.cut) __x.snd.label (Gen.Slicer.construct_axiom __x.fst __x.snd), yielded)) =
      Option.map enc (sliceStep deps incl excl st s) ∧
    ∀ st', sliceStep deps incl excl st s = some st' → CutOk st'.cut := by
  rw [deconstruct_provable_eq_of_none fuel s hsz hm]
  cases s <;> simp [isProvable, isBlock] at hpb
  all_goals
    simp only [sliceStep, hm, Option.bind_eq_bind, Option.bind_some, Option.pure_def]
    cases hd : deconstructProvable _ with
    | none => simp
    | some x =>
      obtain ⟨ants, c⟩ := x
      obtain ⟨l, ts, pf, rfl, _, _⟩ := deconstructProvable_spec hd
      obtain ⟨hl, hlab⟩ := hp ants l ts pf hd
      simp only [Option.bind_some, MStmt.label, construct_axiom_eq, MStmt.terms,
        supporting_database_eq st.cut deps l ts pf ants hinv hlab hdeps, dictSet_ofCut hl]
      cases hc : (incl.contains l && !excl.contains l)
      · simp [enc]
        exact cutOk_dictSet hinv hl _
      · simp only [if_true]
        cases supportingDb st.cut deps l ts pf ants with
        | none => simp
        | some d =>
          simp [enc]
          exact cutOk_dictSet hinv hl _

theorem slice_database_eq (fuel : Nat) (db : MDb) (deps : List (String × List String)) (incl excl : List String)
    (hfuel : stmtsSize db ≤ fuel) (hk : KeysOk db deps) :
    Gen.Slicer.slice_database fuel db deps incl excl = sliceDatabase db deps incl excl := by
  unfold Gen.Slicer.slice_database sliceDatabase
  simp only [Option.bind_eq_bind, Option.pure_def]
  have key : ∀ F, (∀ s ∈ db, ∀ st : SliceSt, CutOk st.cut → F (enc st) s = (sliceStep deps incl excl st s).map enc ∧
        ∀ st', sliceStep deps incl excl st s = some st' → CutOk st'.cut) →
      db.foldlM F ([], []) = (db.foldlM (sliceStep deps incl excl) {}).map enc :=
    fun F h => foldlM_sim enc (fun st => CutOk st.cut) F (sliceStep deps incl excl) db {} ⟨by simp, by simp⟩ h
  rw [key _ ?_]
  · cases List.foldlM (sliceStep deps incl excl) {} db <;> rfl
  · intro s hs st hinv
    have hsz : stmtSize s ≤ fuel := Nat.le_trans (stmtSize_le_of_mem hs) hfuel
    simp only [enc]
    rw [match_axiom_eq fuel s hsz]
    cases s with
    | const cs => simp [isConstant, sliceStep, enc, hinv]
    | var vs => simp [isConstant, isVariable, sliceStep, enc, hinv]
    | disj vs =>
      simp only [isConstant, isVariable, isDisjoint, Bool.or_self, Bool.false_eq_true, if_false, if_true, sliceStep,
        dictSet_dkey _ hinv, Option.map_some, enc, true_and]
      intro st' e
      injection e with e; subst e
      constructor
      · intro v hv
        rcases List.mem_append.1 hv with hv | hv
        · exact hinv.disj v hv
        · simp at hv; subst hv; rfl
      · intro k v hv
        rcases List.mem_append.1 hv with hv | hv
        · exact hinv.keys k v hv
        · simp at hv
    | float l tc v =>
      have hl : notDKey l := hk.floatEss _ hs (by simp [isFloating])
      simp only [isConstant, isVariable, isDisjoint, isFloating, Bool.or_self, Bool.false_eq_true, if_false, if_true,
        Bool.true_or, sliceStep, MStmt.label, dictSet_ofCut hl, Option.map_some, enc, true_and]
      intro st' e
      injection e with e; subst e
      exact cutOk_dictSet hinv hl _
    | ess l ts =>
      have hl : notDKey l := hk.floatEss _ hs (by simp [isEssential])
      simp only [isConstant, isVariable, isDisjoint, isFloating, isEssential, Bool.or_self, Bool.false_eq_true, if_false,
        if_true, Bool.or_true, sliceStep, MStmt.label, dictSet_ofCut hl, Option.map_some, enc, true_and]
      intro st' e
      injection e with e; subst e
      exact cutOk_dictSet hinv hl _
    | ax l ts =>
      have hl : notDKey l := hk.axioms _ hs l ts (by simp [matchAxiom])
      simp only [isConstant, isVariable, isDisjoint, isFloating, isEssential, Bool.or_self, Bool.false_eq_true, if_false,
        sliceStep, matchAxiom, Option.bind_some, Option.bind_eq_bind, MStmt.label, dictSet_ofCut hl, Option.map_some,
        enc, Option.pure_def, true_and]
      intro st' e
      injection e with e; subst e
      exact cutOk_dictSet hinv hl _
    | prov l ts pf =>
      have hm : matchAxiom (.prov l ts pf) = some none := by simp [matchAxiom]
      have := step_provable fuel deps incl excl st hinv _ hsz hm (by simp [isProvable, isBlock]) (hk.provables _ hs) hk.deps
      simpa only [isConstant, isVariable, isDisjoint, isFloating, isEssential, Bool.or_self, Bool.false_eq_true,
        if_false, hm, Option.bind_some, isProvable, Bool.true_or, if_true] using this
    | block ss =>
      simp only [isConstant, isVariable, isDisjoint, isFloating, isEssential, Bool.or_self, Bool.false_eq_true, if_false]
      cases hm : matchAxiom (.block ss) with
      | none => simp [sliceStep, hm]
      | some r =>
        cases r with
        | none =>
          have := step_provable fuel deps incl excl st hinv _ hsz hm (by simp [isProvable, isBlock]) (hk.provables _ hs) hk.deps
          simpa only [Option.bind_some, isProvable, isBlock, Bool.or_true, if_true] using this
        | some a =>
          obtain ⟨l, ts, rfl⟩ := matchAxiom_is_ax hm
          have hl : notDKey l := hk.axioms _ hs l ts hm
          simp only [sliceStep, hm, Option.bind_some, Option.bind_eq_bind, MStmt.label, dictSet_ofCut hl,
            Option.map_some, enc, Option.pure_def, true_and]
          intro st' e
          injection e with e; subst e
          exact cutOk_dictSet hinv hl _

/-! ## a decidable sufficient condition for `KeysOk`: no label, proof token or dependency contains a blank
(true of everything the parser produces: these strings are tokens) -/
def noBlank (s : String) : Bool := !s.toList.contains ' '

def leafNamesOk : MStmt → Bool
  | .float l _ _ => noBlank l
  | .ess l _ => noBlank l
  | .ax l _ => noBlank l
  | .prov l _ pf => noBlank l && pf.all noBlank
  | _ => true

/-- every label and every proof token of the database, and every label in `syntax_deps`, is free of blanks -/
def tokensOk (db : MDb) (deps : List (String × List String)) : Bool :=
  (flatL db).all leafNamesOk && deps.all fun kv => kv.2.all noBlank

theorem notDKey_of_noBlank {s : String} (h : noBlank s = true) : notDKey s :=
  noBlank_notDKey (by simpa [noBlank] using h)

theorem proofLabels_sub {pf labels : List String} (h : proofLabels pf = some labels) : ∀ x ∈ labels, x ∈ pf := by
  unfold proofLabels at h
  split at h
  · cases h
  · simp only at h
    split at h
    · cases h
    · split at h
      · cases h
      · injection h with h
        subst h
        intro x hx
        have hx := List.mem_of_mem_take hx
        split at hx
        · exact List.mem_of_mem_drop hx
        · exact hx

theorem keysOk_of_tokensOk {db : MDb} {deps : List (String × List String)} (h : tokensOk db deps = true) :
    KeysOk db deps := by
  simp only [tokensOk, Bool.and_eq_true, List.all_eq_true] at h
  obtain ⟨h1, h2⟩ := h
  refine ⟨?_, ?_, ?_, ?_⟩
  · intro s hs hfe
    cases s <;> simp [isFloating, isEssential] at hfe
    · next l tc v =>
      have := h1 (.float l tc v) (mem_flatL_of_mem hs (by simp [flat]))
      exact notDKey_of_noBlank (by simpa [leafNamesOk, MStmt.label] using this)
    · next l ts =>
      have := h1 (.ess l ts) (mem_flatL_of_mem hs (by simp [flat]))
      exact notDKey_of_noBlank (by simpa [leafNamesOk, MStmt.label] using this)
  · intro s hs l ts hm
    have hmem : MStmt.ax l ts ∈ flat s := by
      cases s with
      | ax l' ts' => simp [matchAxiom] at hm; simp [flat, hm]
      | block ss => obtain ⟨_, _, _, e, hm'⟩ := matchAxiom_block_spec hm; simpa [flat] using hm'
      | _ => simp [matchAxiom] at hm
    exact notDKey_of_noBlank (by simpa [leafNamesOk] using h1 _ (mem_flatL_of_mem hs hmem))
  · intro s hs ants l ts pf hd
    have hmem : MStmt.prov l ts pf ∈ flat s := by
      rw [(flat_lemma_stmt hd).1]; simp
    have := h1 _ (mem_flatL_of_mem hs hmem)
    simp only [leafNamesOk, Bool.and_eq_true, List.all_eq_true] at this
    exact ⟨notDKey_of_noBlank this.1, fun labels hl x hx => notDKey_of_noBlank (this.2 x (proofLabels_sub hl x hx))⟩
  · intro k v hkv x hx
    have := h2 (k, v) hkv
    exact notDKey_of_noBlank (this x hx)


theorem slice_database_eq_of_tokensOk (fuel : Nat) (db : MDb) (deps : List (String × List String)) (incl excl : List String)
    (hfuel : stmtsSize db ≤ fuel) (htok : tokensOk db deps = true) :
    Gen.Slicer.slice_database fuel db deps incl excl = sliceDatabase db deps incl excl :=
  slice_database_eq fuel db deps incl excl hfuel (keysOk_of_tokensOk htok)

end SliceTie

#print axioms SliceTie.translated
#print axioms SliceTie.construct_axiom_eq
#print axioms SliceTie.match_axiom_eq
#print axioms SliceTie.deconstruct_provable_eq
#print axioms SliceTie.deconstruct_compressed_proof_eq
#print axioms SliceTie.mem_get_constants
#print axioms SliceTie.sgc_stmts
#print axioms SliceTie.sortDedup_congr
#print axioms SliceTie.supporting_database_eq
#print axioms SliceTie.slice_database_eq
#print axioms SliceTie.slice_database_eq_of_tokensOk
