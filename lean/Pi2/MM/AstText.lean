import Pi2.MM.AstTie
/-!
# The TEXT: what `Printer` (metamath/utils/printer.py) makes of the `Encoder`'s calls

`Pi2/MM/AstTie.lean` is about the strings the `Encoder` writes.  The text of `Encoder.encode_string` is what `Printer.write` /
`flush` make of them: a line buffer, the current indentation in front of a line whose buffer "is empty", `rstrip` of the last
string of a line.  `MMAstSup.Printer` is a hand-written model of that class as repaired by 5aefd01 (`is_line_buffer_empty` counts
only `' \t\f\r'` as blank; the translator compares the class with the text the model was written against; `vlib/props/c17.py`
compares `printerText` with the real text character by character).

* `printer_tokens`: if `tab` consists of ignored characters, the text is lexed to the same tokens as the concatenation of the
  written strings PROVIDED every line that a written string ends with `'\n'` (`linesOK`), and the last line written
  (`lastLineOf`), has no trailing Python-whitespace that the grammar does not ignore (`fragOK`) — `flush` `rstrip`s the last
  string of a line.  `printer_rstrip_residual`: that condition is needed for `Printer` as such (`write('x\xa0\ny')` prints `x\ny`).
* `encode_calls_ok` / `encode_last_line`: the translated `Encoder` meets the condition for EVERY database of the model whose
  strings are lexemes (`AstTie.Lex`): it ends a line only by writing `'\n'` itself, so the string `rstrip` sees is `''`.
* `print_parse_real_text`: C17's first sentence for the translated parser, the translated `Encoder` AND the `Printer` model, under
  `Lex` alone.
* `printer_keeps_blank_label`, `printer_keeps_blank_label_in_block`: the former counterexamples (`'\xa0 $a x $.'`; a label
  `'\x0b'` on a continuation line of a block) round-trip now; `old_printer_dropped_blank_label`: with the `str.isspace` test of the
  class before 5aefd01 (`printerTextOld`) the label was taken for indentation and dropped.
-/
namespace AstText
open MM MMAstSup Gen.MMAst AstTie
open ImpSup (pyIsSpace)

def WsOnly (l : List Char) : Prop := ∀ c ∈ l, isWs c = true
/-- the trailing Python-whitespace of a line (what `rstrip` removes) is ignored by the grammar too -/
def fragOK (f : List Char) : Bool := (f.reverse.takeWhile pyIsSpace).all isWs
/-- every line of a written string that the string itself ends with a newline -/
def linesOK (s : String) : Bool := (pySplitNl s.toList).dropLast.all fragOK
def callsOK (cs : List PCall) : Prop := ∀ s, PCall.write s ∈ cs → linesOK s = true
/-- the last line of a string -/
def lastLine (msg : List Char) : List Char := (pySplitNl msg).getLast?.getD []
/-- the last line written by the calls (`L`: the one before them) -/
def lastLineOf : List PCall → List Char → List Char
  | [], L => L
  | .write s :: cs, _ => lastLineOf cs (lastLine s.toList)
  | .indent :: cs, L => lastLineOf cs L
  | .deindent :: cs, L => lastLineOf cs L

/-! the functions of the model, unfolded -/
theorem writeLine_eq (p : Printer) (l : List Char) : p.writeLine l =
    { (if p.is_line_buffer_empty then { p with line_buffer := [p.current_indentation] } else p) with
      line_buffer := (if p.is_line_buffer_empty then { p with line_buffer := [p.current_indentation] } else p).line_buffer ++ [l] } := rfl
theorem write_eq (p : Printer) (msg : List Char) : p.write msg =
    match pySplitNl msg with
    | [] => p
    | l :: ls => ls.foldl (fun p l => p.newline.writeLine l) (p.writeLine l) := rfl
theorem run_nil (p : Printer) : p.run [] = some p := rfl
theorem run_write (p : Printer) (s : String) (cs : List PCall) : p.run (.write s :: cs) = (p.write s.toList).run cs := rfl
theorem run_indent (p : Printer) (cs : List PCall) : p.run (.indent :: cs) = p.indent.run cs := rfl
theorem run_deindent (p : Printer) (cs : List PCall) : p.run (.deindent :: cs) = p.deindent.bind fun q => q.run cs := rfl
theorem printerText_eq (tab : String) (cs : List PCall) :
    printerText tab cs = ((Printer.new tab.toList).run cs).map fun p => p.flush.output := rfl

/-! ## `splitAux` and ignored characters -/
theorem splitAux_congr {Y Y' : List Char} (h : ∀ acc, splitAux isWs Y acc = splitAux isWs Y' acc) :
    ∀ (A acc : List Char), splitAux isWs (A ++ Y) acc = splitAux isWs (A ++ Y') acc
  | [], acc => by simpa using h acc
  | a :: A, acc => by
      simp only [List.cons_append, splitAux]
      split
      · split <;> simp [splitAux_congr h A]
      · exact splitAux_congr h A _

theorem splitAux_ws_cons {c : Char} (hc : isWs c = true) (X acc : List Char) :
    splitAux isWs (c :: X) acc = (if acc.isEmpty then [] else [String.ofList acc.reverse]) ++ splitAux isWs X [] := by
  simp only [splitAux, hc, ↓reduceIte]
  split <;> simp

theorem splitAux_ws_run : ∀ (w : List Char), WsOnly w → ∀ {c : Char}, isWs c = true → ∀ (X acc : List Char),
    splitAux isWs (w ++ c :: X) acc = splitAux isWs (c :: X) acc
  | [], _, _, _, _, _ => rfl
  | a :: w, hw, c, hc, X, acc => by
      have ha : isWs a = true := hw a (by simp)
      have ih := splitAux_ws_run w (fun d hd => hw d (by simp [hd])) hc X []
      simp only [List.cons_append]
      rw [splitAux_ws_cons ha, ih, splitAux_ws_cons hc, splitAux_ws_cons hc]
      simp

theorem splitAux_ws_end : ∀ (w : List Char), WsOnly w → ∀ (acc : List Char), splitAux isWs w acc = splitAux isWs [] acc
  | [], _, _ => rfl
  | a :: w, hw, acc => by
      have ha : isWs a = true := hw a (by simp)
      rw [splitAux_ws_cons ha, splitAux_ws_end w (fun d hd => hw d (by simp [hd])) []]
      simp only [splitAux]
      split <;> simp_all

theorem splitAux_ws_lead : ∀ (w : List Char), WsOnly w → ∀ (X : List Char), splitAux isWs (w ++ X) [] = splitAux isWs X []
  | [], _, _ => rfl
  | a :: w, hw, X => by
      have ha : isWs a = true := hw a (by simp)
      simp only [List.cons_append]
      rw [splitAux_ws_cons ha, splitAux_ws_lead w (fun d hd => hw d (by simp [hd])) X]
      simp

/-! ## the invariant of `Printer` -/
def LineStart (o : List Char) : Prop := o = [] ∨ ∃ o', o = o' ++ ['\n']

/-- at the start of a line, what ignored characters follow does not matter -/
theorem lineStart_swap {o a b : List Char} (ho : LineStart o) (ha : WsOnly a) (hb : WsOnly b) (Y : List Char) :
    splitWs isWs (o ++ a ++ Y) = splitWs isWs (o ++ b ++ Y) := by
  rcases ho with rfl | ⟨o', rfl⟩
  · simp only [List.nil_append, splitWs]
    rw [splitAux_ws_lead a ha, splitAux_ws_lead b hb]
  · simp only [splitWs, List.append_assoc, List.singleton_append]
    apply splitAux_congr
    intro acc
    simp only [List.cons_append]
    rw [splitAux_ws_cons ws_nl, splitAux_ws_cons ws_nl, splitAux_ws_lead a ha, splitAux_ws_lead b hb]

theorem wsOnly_fragOK {l : List Char} (h : WsOnly l) : fragOK l = true := by
  simp only [fragOK, List.all_eq_true]
  intro c hc
  exact h c (by simpa using (List.takeWhile_sublist _).subset hc)

theorem takeWhile_all {α : Type} (p : α → Bool) : ∀ (l : List α), l.all p = true → l.takeWhile p = l
  | [], _ => rfl
  | a :: l, h => by
      simp only [List.all_cons, Bool.and_eq_true] at h
      simp [List.takeWhile, h.1, takeWhile_all p l h.2]

theorem wsOnly_repeat {tab : List Char} (ht : WsOnly tab) : ∀ n, WsOnly (pyRepeat n tab)
  | 0 => by simp [pyRepeat, WsOnly]
  | n + 1 => by
      have := wsOnly_repeat ht n
      simp only [pyRepeat, WsOnly, List.replicate_succ, List.flatten_cons, List.mem_append] at this ⊢
      intro c hc
      rcases hc with hc | hc
      · exact ht c hc
      · exact this c hc

theorem dropWhile_nil_iff {α : Type} (q : α → Bool) : ∀ (l : List α), l.dropWhile q = [] ↔ l.all q = true
  | [] => by simp
  | a :: l => by
      by_cases h : q a = true
      · simp [List.dropWhile, h, dropWhile_nil_iff q l]
      · simp [List.dropWhile, h]

theorem mem_takeWhile_sat {α : Type} (q : α → Bool) : ∀ (l : List α) (a : α), a ∈ l.takeWhile q → q a = true
  | [], _, h => by simp at h
  | b :: l, a, h => by
      by_cases hb : q b = true
      · simp only [List.takeWhile, hb, List.mem_cons] at h
        rcases h with rfl | h
        · exact hb
        · exact mem_takeWhile_sat q l a h
      · simp [List.takeWhile, hb] at h

theorem pyStrip_nil {cs s : List Char} (h : pyStrip cs s = []) : ∀ c ∈ s, cs.contains c = true := by
  unfold pyStrip at h
  have h1 : (s.dropWhile cs.contains).reverse.dropWhile cs.contains = [] := by simpa using h
  have h2 := (dropWhile_nil_iff _ _).mp h1
  intro c hc
  have hs : s = s.takeWhile cs.contains ++ s.dropWhile cs.contains := (List.takeWhile_append_dropWhile).symm
  rw [hs] at hc
  rcases List.mem_append.mp hc with m | m
  · exact mem_takeWhile_sat _ _ _ m
  · exact List.all_eq_true.mp h2 c (by simpa using m)

theorem blank_is_ws : ∀ c, blankChars.contains c = true → isWs c = true := by
  intro c h
  simp only [blankChars, List.contains_cons, List.contains_nil, Bool.or_false, Bool.or_eq_true, beq_iff_eq] at h
  rcases h with rfl | rfl | rfl | rfl <;> decide

/-- a line buffer that "is empty" (for the repaired test) consists of ignored characters — whatever its strings are -/
theorem empty_buffer_ws {p : Printer} (he : p.is_line_buffer_empty = true) (ht : WsOnly p.tab) : WsOnly p.line_buffer.flatten := by
  intro c hc
  simp only [List.mem_flatten] at hc
  obtain ⟨s, hs, hcs⟩ := hc
  simp only [Printer.is_line_buffer_empty, List.all_eq_true] at he
  have h1 := he s hs
  by_cases hsp : pyStrip blankChars s = []
  · exact blank_is_ws c (pyStrip_nil hsp c hcs)
  · have hA : (pyStrip blankChars s != []) = true := by simpa using hsp
    rw [hA] at h1
    simp only [Bool.true_and, Bool.not_eq_eq_eq_not, Bool.not_true, Bool.or_eq_false_iff, bne_eq_false_iff_eq] at h1
    rw [h1.2] at hcs
    exact wsOnly_repeat ht _ c hcs

theorem flushed_snoc : ∀ (pre : List (List Char)) (L : List Char), flushed (pre ++ [L]) = pre.flatten ++ pyRstrip L
  | [], L => by simp [flushed]
  | [a], L => by simp [flushed]
  | a :: b :: pre, L => by
      have := flushed_snoc (b :: pre) L
      simp only [List.cons_append] at this ⊢
      simp [flushed, this]

/-- what `flush` drops (`rstrip` of the LAST string of the buffer) consists of ignored characters when that string is `fragOK` -/
theorem flushed_split {buf : List (List Char)} {L : List Char} (hb : buf = [] ∨ ∃ pre, buf = pre ++ [L]) (hL : fragOK L = true) :
    ∃ trail, WsOnly trail ∧ buf.flatten = flushed buf ++ trail := by
  rcases hb with rfl | ⟨pre, rfl⟩
  · exact ⟨[], by simp [WsOnly], by simp [flushed]⟩
  · refine ⟨(L.reverse.takeWhile pyIsSpace).reverse, ?_, ?_⟩
    · simp only [fragOK, List.all_eq_true] at hL
      intro c hc
      exact hL c (by simpa using hc)
    · rw [flushed_snoc]
      simp only [List.flatten_append, List.flatten_cons, List.flatten_nil, List.append_nil, pyRstrip, List.append_assoc]
      rw [← List.reverse_append, List.takeWhile_append_dropWhile, List.reverse_reverse]

/-- `W`: the characters written so far; `L`: the last line written (the last string of the buffer, unless it is empty) -/
structure Inv (tab : List Char) (p : Printer) (W L : List Char) : Prop where
  tab_eq : p.tab = tab
  start : LineStart p.output
  toks : ∀ X, splitWs isWs (p.output ++ p.line_buffer.flatten ++ X) = splitWs isWs (W ++ X)
  ind : WsOnly p.current_indentation
  last : p.line_buffer = [] ∨ ∃ pre, p.line_buffer = pre ++ [L]

theorem writeLine_inv {tab : List Char} (ht : WsOnly tab) {p : Printer} {W L : List Char} (h : Inv tab p W L) (l : List Char) :
    Inv tab (p.writeLine l) (W ++ l) l := by
  rw [writeLine_eq]
  by_cases he : p.is_line_buffer_empty = true
  · simp only [he, ↓reduceIte]
    refine ⟨h.tab_eq, h.start, ?_, h.ind, Or.inr ⟨[p.current_indentation], rfl⟩⟩
    intro X
    have hb := empty_buffer_ws he (h.tab_eq ▸ ht)
    have := h.toks (l ++ X)
    simp only [List.flatten_cons, List.flatten_nil, List.append_nil, List.append_assoc, List.singleton_append] at this ⊢
    rw [← this]
    have sw := lineStart_swap h.start h.ind hb (l ++ X)
    simpa [List.append_assoc] using sw
  · simp only [he, Bool.false_eq_true, ↓reduceIte]
    refine ⟨h.tab_eq, h.start, ?_, h.ind, Or.inr ⟨p.line_buffer, rfl⟩⟩
    intro X
    have := h.toks (l ++ X)
    simpa [List.append_assoc] using this

theorem newline_inv {tab : List Char} {p : Printer} {W L : List Char} (h : Inv tab p W L) (hL : fragOK L = true) :
    Inv tab p.newline (W ++ ['\n']) L := by
  obtain ⟨trail, ht1, ht2⟩ := flushed_split h.last hL
  refine ⟨h.tab_eq, Or.inr ⟨_, rfl⟩, ?_, h.ind, Or.inl (by simp [Printer.newline, Printer.flush])⟩
  intro X
  have := h.toks ('\n' :: X)
  simp only [Printer.newline, Printer.flush, List.flatten_nil, List.append_nil, List.append_assoc, List.singleton_append]
  rw [show W ++ '\n' :: X = W ++ '\n' :: X from rfl, ← this, ht2]
  simp only [splitWs, List.append_assoc]
  apply splitAux_congr
  intro acc
  apply splitAux_congr
  intro acc
  exact (splitAux_ws_run trail ht1 ws_nl X acc).symm

theorem pySplitNl_spec : ∀ (msg : List Char), ∃ l0 ls, pySplitNl msg = l0 :: ls ∧ msg = l0 ++ ls.flatMap (fun l => '\n' :: l)
  | [] => ⟨[], [], rfl, rfl⟩
  | c :: cs => by
      obtain ⟨l, ls, h1, h2⟩ := pySplitNl_spec cs
      by_cases hc : c = '\n'
      · subst hc
        exact ⟨[], l :: ls, by simp [pySplitNl, h1], by simp [← h2]⟩
      · exact ⟨c :: l, ls, by simp [pySplitNl, h1, hc], by simp [← h2]⟩

theorem getLast_cons_getD {α : Type} (a : α) (l : List α) (d : α) : ((a :: l).getLast?).getD d = (l.getLast?).getD a := by
  cases l with
  | nil => simp
  | cons b r =>
    rw [List.getLast?_cons_cons]
    cases h : (b :: r).getLast? with
    | none => simp at h
    | some x => rfl

theorem fold_inv {tab : List Char} (ht : WsOnly tab) : ∀ (ls : List (List Char)) (p : Printer) (W L : List Char), Inv tab p W L →
    (∀ l ∈ (L :: ls).dropLast, fragOK l = true) →
    Inv tab (ls.foldl (fun p l => p.newline.writeLine l) p) (W ++ ls.flatMap (fun l => '\n' :: l)) ((ls.getLast?).getD L)
  | [], p, W, L, h, _ => by simpa using h
  | l :: ls, p, W, L, h, hl => by
      have hL : fragOK L = true := hl L (by simp [List.dropLast])
      have h1 := writeLine_inv ht (newline_inv h hL) l
      have h2 := fold_inv ht ls _ _ _ h1 (fun x hx => hl x (by
        cases ls with
        | nil => simp [List.dropLast] at hx
        | cons b r => simp only [List.dropLast_cons₂] at hx ⊢; exact List.mem_cons_of_mem _ hx))
      rw [getLast_cons_getD]
      simpa [List.append_assoc] using h2

theorem write_inv {tab : List Char} (ht : WsOnly tab) {p : Printer} {W L : List Char} (h : Inv tab p W L) {msg : String}
    (hm : linesOK msg = true) : Inv tab (p.write msg.toList) (W ++ msg.toList) (lastLine msg.toList) := by
  obtain ⟨l0, ls, h1, h2⟩ := pySplitNl_spec msg.toList
  simp only [linesOK, h1, List.all_eq_true] at hm
  unfold lastLine
  rw [write_eq, h1, getLast_cons_getD, h2]
  have := fold_inv ht ls _ _ _ (writeLine_inv ht h l0) hm
  simpa [List.append_assoc] using this

theorem indent_inv {tab : List Char} (ht : WsOnly tab) {p : Printer} {W L : List Char} (h : Inv tab p W L) : Inv tab p.indent W L := by
  refine ⟨h.tab_eq, h.start, h.toks, ?_, h.last⟩
  intro c hc
  simp only [Printer.indent, List.mem_append] at hc
  rcases hc with hc | hc
  · exact h.ind c hc
  · exact ht c (h.tab_eq ▸ hc)

theorem deindent_inv {tab : List Char} {p p' : Printer} {W L : List Char} (h : Inv tab p W L) (hd : p.deindent = some p') :
    Inv tab p' W L := by
  unfold Printer.deindent at hd
  split at hd
  · injection hd with hd; subst hd
    refine ⟨h.tab_eq, h.start, h.toks, ?_, h.last⟩
    intro c hc
    simp only at hc
    split at hc
    · simp at hc
    · exact h.ind c ((List.take_sublist _ _).subset hc)
  · cases hd

theorem run_inv {tab : List Char} (ht : WsOnly tab) : ∀ (cs : List PCall) (p p' : Printer) (W L : List Char), Inv tab p W L →
    callsOK cs → p.run cs = some p' → Inv tab p' (W ++ written cs) (lastLineOf cs L)
  | [], p, p', W, L, h, _, hr => by
      simp only [run_nil, Option.some.injEq] at hr; subst hr; simpa [written, lastLineOf] using h
  | .write s :: cs, p, p', W, L, h, hok, hr => by
      rw [run_write] at hr
      have h1 := write_inv ht h (hok s (by simp))
      have h2 := run_inv ht cs _ _ _ _ h1 (fun x hx => hok x (by simp [hx])) hr
      simpa [written, lastLineOf, List.append_assoc] using h2
  | .indent :: cs, p, p', W, L, h, hok, hr => by
      rw [run_indent] at hr
      have h2 := run_inv ht cs _ _ _ _ (indent_inv ht h) (fun x hx => hok x (by simp [hx])) hr
      simpa [written, lastLineOf] using h2
  | .deindent :: cs, p, p', W, L, h, hok, hr => by
      rw [run_deindent] at hr
      simp only [Option.bind_eq_some_iff] at hr
      obtain ⟨q, hq, hr⟩ := hr
      have h2 := run_inv ht cs _ _ _ _ (deindent_inv h hq) (fun x hx => hok x (by simp [hx])) hr
      simpa [written, lastLineOf] using h2

/-- **`Printer` does not change the tokens**: if `tab` consists of ignored characters and every line that a written string ends
with a newline, and the last line written, has no trailing Python-whitespace that the grammar does not ignore, the text is lexed
like the concatenation of the written strings -/
theorem printer_tokens (tab : String) (cs : List PCall) (ht : WsOnly tab.toList) (hok : callsOK cs)
    (hlast : fragOK (lastLineOf cs []) = true) (text : List Char)
    (h : printerText tab cs = some text) : lexTokens text = lexTokens (written cs) := by
  rw [printerText_eq] at h
  simp only [Option.map_eq_some_iff] at h
  obtain ⟨p, hr, rfl⟩ := h
  have h0 : Inv tab.toList (Printer.new tab.toList) [] [] :=
    ⟨rfl, Or.inl rfl, fun X => rfl, by simp [Printer.new, WsOnly], Or.inl rfl⟩
  have hi := run_inv ht cs _ _ _ _ h0 hok hr
  obtain ⟨trail, ht1, ht2⟩ := flushed_split hi.last hlast
  have := hi.toks []
  simp only [List.nil_append, List.append_nil] at this
  rw [lexTokens, lexTokens, ← this, ht2]
  simp only [Printer.flush, splitWs, ← List.append_assoc]
  have e := splitAux_congr (Y := trail) (Y' := []) (fun acc => splitAux_ws_end trail ht1 acc) (p.output ++ flushed p.line_buffer) []
  simpa using e.symm

/-- the condition on the lines is needed for `Printer` as such: `write('x\xa0\ny')` prints `x\ny` (`flush` `rstrip`s `'x\xa0'`), one
token `x` where the written string has the token `x\xa0`.  Not reachable from `parse_database`: see `encode_calls_ok` -/
theorem printer_rstrip_residual :
    printerText "   " [.write "x\u00a0\ny"] = some "x\ny".toList ∧ linesOK "x\u00a0\ny" = false ∧
    lexTokens "x\ny".toList ≠ lexTokens (written [.write "x\u00a0\ny"]) := by decide

/-! ## the calls of the translated `Encoder`: every written string is harmless, every `indent` is closed -/
theorem pySplitNl_noNl : ∀ (l : List Char), '\n' ∉ l → pySplitNl l = [l]
  | [], _ => rfl
  | c :: cs, h => by
      have hc : c ≠ '\n' := fun e => h (by simp [e])
      have := pySplitNl_noNl cs (fun m => h (by simp [m]))
      simp [pySplitNl, this, hc]

/-- a string without a newline ends no line -/
theorem linesOK_noNl {t : String} (hn : '\n' ∉ t.toList) : linesOK t = true := by
  simp [linesOK, pySplitNl_noNl _ hn]

/-- a lexeme contains no newline (the grammar ignores it) -/
theorem lex_linesOK {t : String} (h : Lex t) : linesOK t = true :=
  linesOK_noNl (fun m => by have := h.no_ws _ m; simp [ws_nl] at this)

/-- the state `Printer.run` starts from and returns to: `current_indentation` is empty when `tab` is -/
def IndOK (p : Printer) : Prop := p.tab = [] → p.current_indentation = []

/-- the calls never fail and leave `tab` and the indentation as they found them -/
def Bal (cs : List PCall) : Prop :=
  ∀ p : Printer, IndOK p → ∃ p', p.run cs = some p' ∧ p'.tab = p.tab ∧ p'.current_indentation = p.current_indentation

def Good (cs : List PCall) : Prop := callsOK cs ∧ Bal cs

theorem run_append : ∀ (a b : List PCall) (p : Printer), p.run (a ++ b) = (p.run a).bind fun q => q.run b
  | [], b, p => by simp [run_nil]
  | .write s :: a, b, p => by simp only [List.cons_append, run_write, run_append a b]
  | .indent :: a, b, p => by simp only [List.cons_append, run_indent, run_append a b]
  | .deindent :: a, b, p => by
      simp only [List.cons_append, run_deindent]
      cases p.deindent with
      | none => simp
      | some q => simp [run_append a b]

theorem writeLine_keeps (p : Printer) (l : List Char) :
    (p.writeLine l).tab = p.tab ∧ (p.writeLine l).current_indentation = p.current_indentation := by
  rw [writeLine_eq]; split <;> simp

theorem newline_keeps (p : Printer) : p.newline.tab = p.tab ∧ p.newline.current_indentation = p.current_indentation := by
  simp [Printer.newline, Printer.flush]

theorem fold_keeps : ∀ (ls : List (List Char)) (p : Printer),
    (ls.foldl (fun p l => p.newline.writeLine l) p).tab = p.tab ∧
    (ls.foldl (fun p l => p.newline.writeLine l) p).current_indentation = p.current_indentation
  | [], p => by simp
  | l :: ls, p => by
      have h1 := fold_keeps ls (p.newline.writeLine l)
      have h2 := writeLine_keeps p.newline l
      have h3 := newline_keeps p
      simp only [List.foldl_cons]
      exact ⟨by rw [h1.1, h2.1, h3.1], by rw [h1.2, h2.2, h3.2]⟩

theorem write_keeps (p : Printer) (msg : List Char) :
    (p.write msg).tab = p.tab ∧ (p.write msg).current_indentation = p.current_indentation := by
  rw [write_eq]
  split
  · simp
  · next l ls _ =>
    have h1 := fold_keeps ls (p.writeLine l)
    have h2 := writeLine_keeps p l
    exact ⟨by rw [h1.1, h2.1], by rw [h1.2, h2.2]⟩

theorem Good.nil : Good [] := ⟨fun s hs => by simp at hs, fun p _ => ⟨p, rfl, rfl, rfl⟩⟩

theorem Good.write {s : String} (h : linesOK s = true) : Good [.write s] :=
  ⟨fun x hx => by simp at hx; subst hx; exact h,
   fun p _ => ⟨p.write s.toList, by simp [run_write, run_nil], (write_keeps p _).1, (write_keeps p _).2⟩⟩

theorem Good.append {a b : List PCall} (ha : Good a) (hb : Good b) : Good (a ++ b) := by
  refine ⟨fun s hs => ?_, fun p hp => ?_⟩
  · rcases List.mem_append.mp hs with h | h
    · exact ha.1 s h
    · exact hb.1 s h
  · obtain ⟨q, h1, h2, h3⟩ := ha.2 p hp
    obtain ⟨r, h4, h5, h6⟩ := hb.2 q (fun e => by rw [h3]; exact hp (h2 ▸ e))
    exact ⟨r, by rw [run_append, h1]; exact h4, by rw [h5, h2], by rw [h6, h3]⟩

theorem Good.cons_write {s : String} {a : List PCall} (h : linesOK s = true) (ha : Good a) : Good (.write s :: a) :=
  Good.append (Good.write h) ha

/-- `with self.indentation(): a` -/
theorem Good.within {a : List PCall} (ha : Good a) : Good (.indent :: (a ++ [.deindent])) := by
  refine ⟨fun s hs => ?_, fun p hp => ?_⟩
  · simp only [List.mem_cons, List.mem_append, List.not_mem_nil, or_false, reduceCtorEq, false_or] at hs
    exact ha.1 s hs
  · have hi : IndOK p.indent := fun e => by
      simp only [Printer.indent] at e ⊢
      rw [hp e, e]; rfl
    obtain ⟨q, h1, h2, h3⟩ := ha.2 p.indent hi
    have hq : q.tab = p.tab := by rw [h2]; rfl
    have hqi : q.current_indentation = p.current_indentation ++ p.tab := by rw [h3]; rfl
    have hlen : q.tab.length ≤ q.current_indentation.length := by rw [hq, hqi]; simp
    refine ⟨{ q with current_indentation := if q.tab.length = 0 then [] else
        q.current_indentation.take (q.current_indentation.length - q.tab.length) }, ?_, hq, ?_⟩
    · simp only [run_indent, run_append, h1, Option.bind_some, run_deindent, run_nil, Printer.deindent, hlen, ↓reduceIte]
    · simp only
      split
      · next h0 =>
        have : p.tab = [] := List.length_eq_zero_iff.mp (hq ▸ h0)
        exact (hp this).symm
      · rw [hqi, hq]; simp

macro "good_step" : tactic =>
  `(tactic| first
    | assumption
    | exact Good.nil
    | exact Good.write (by decide)
    | exact Good.write (lex_linesOK (by assumption))
    | (apply Good.cons_write (by decide))
    | (apply Good.cons_write (lex_linesOK (by assumption)))
    | apply Good.append)
macro "good" : tactic => `(tactic| repeat' good_step)

mutual
theorem visit_Term_good (self : Encoder) : ∀ (t : MTerm), (∀ x ∈ printTerm t, Lex x) → Good (visit_Term self t)
  | .mv n, h => by
      have hn : Lex n := h n (by simp [printTerm])
      simp only [visit_Term]; good
  | .app s [], h => by
      have hs : Lex s := h s (by simp [printTerm])
      simp only [visit_Term, List.length_nil, beq_self_eq_true, ↓reduceIte]; good
  | .app s (a :: as), h => by
      have hs : Lex s := h s (by simp [printTerm])
      have hL := term_for1_good self (a :: as) (fun x hx => h x (by simp [printTerm, hx]))
      have h1 := visit_Term_good self a (fun x hx => h x (by simp [printTerm, printTerms, hx]))
      have h2 := term_for1_good self as (fun x hx => h x (by simp [printTerm, printTerms, hx]))
      simp only [visit_Term, List.length_cons, Nat.add_eq_zero_iff, Nat.succ_ne_self, and_false, beq_iff_eq, ↓reduceIte]
      good
theorem term_for1_good (self : Encoder) : ∀ (ts : List MTerm), (∀ x ∈ printTerms ts, Lex x) →
    Good (postvisit_application_for1 self ts)
  | [], _ => by simp only [postvisit_application_for1]; good
  | t :: ts, h => by
      have h1 := visit_Term_good self t (fun x hx => h x (by simp [printTerms, hx]))
      have h2 := term_for1_good self ts (fun x hx => h x (by simp [printTerms, hx]))
      simp only [postvisit_application_for1]; good
end

theorem const_for1_good (self : Encoder) : ∀ (cs : List String), (∀ x ∈ cs, Lex x) → Good (postvisit_constant_statement_for1 self cs)
  | [], _ => by simp only [postvisit_constant_statement_for1]; good
  | c :: cs, h => by
      have hc : Lex c := h c (by simp)
      have h2 := const_for1_good self cs (fun x hx => h x (by simp [hx]))
      simp only [postvisit_constant_statement_for1]; good

theorem var_for1_good (self : Encoder) : ∀ (vs : List String), (∀ x ∈ vs, Lex x) →
    Good (postvisit_variable_statement_for1 self (vs.map MTerm.mv))
  | [], _ => by simp only [List.map_nil, postvisit_variable_statement_for1]; good
  | c :: cs, h => by
      have hc : Lex c := h c (by simp)
      have h2 := var_for1_good self cs (fun x hx => h x (by simp [hx]))
      simp only [List.map_cons, postvisit_variable_statement_for1, visit_Term]; good

theorem disj_for1_good (self : Encoder) : ∀ (vs : List String), (∀ x ∈ vs, Lex x) →
    Good (postvisit_disjoint_statement_for1 self (vs.map MTerm.mv))
  | [], _ => by simp only [List.map_nil, postvisit_disjoint_statement_for1]; good
  | c :: cs, h => by
      have hc : Lex c := h c (by simp)
      have h2 := disj_for1_good self cs (fun x hx => h x (by simp [hx]))
      simp only [List.map_cons, postvisit_disjoint_statement_for1, visit_Term]; good

theorem terms_for1_good (self : Encoder) : ∀ (ts : List MTerm), (∀ x ∈ printTerms ts, Lex x) →
    Good (postvisit_structured_statement_for1 self ts)
  | [], _ => by simp only [postvisit_structured_statement_for1]; good
  | t :: ts, h => by
      have h1 := visit_Term_good self t (fun x hx => h x (by simp [printTerms, hx]))
      have h2 := terms_for1_good self ts (fun x hx => h x (by simp [printTerms, hx]))
      simp only [postvisit_structured_statement_for1]; good

/-- the proof string `' '.join(pf)` contains no newline -/
theorem join_linesOK (pf : List String) (h : ∀ x ∈ pf, Lex x) : linesOK (pyJoin " " pf) = true := by
  apply linesOK_noNl
  cases pf with
  | nil => simp [join_nil]
  | cons t rest =>
    rw [join_chars]
    intro m
    simp only [List.mem_append, List.mem_flatMap, List.mem_cons] at m
    rcases m with m | ⟨x, hx, m | m⟩
    · have := (h t (by simp)).no_ws _ m; simp [ws_nl] at this
    · exact absurd m (by decide)
    · have := (h x (by simp [hx])).no_ws _ m; simp [ws_nl] at this

mutual
/-- the calls of the translated `Encoder` for a statement of the model are harmless for `Printer` and balanced -/
theorem visit_Stmt_good (self : Encoder) (ho : self.omit_proof = false) : ∀ (s : MStmt), (∀ x ∈ printStmt s, Lex x) →
    Good (visit_Stmt self (ofStmt s))
  | .const cs, h => by
      have h1 := const_for1_good self cs (fun x hx => h x (by simp [printStmt, hx]))
      simp only [ofStmt, visit_Stmt]; good
  | .var vs, h => by
      have h1 := var_for1_good self vs (fun x hx => h x (by simp [printStmt, hx]))
      simp only [ofStmt, visit_Stmt]; good
  | .disj vs, h => by
      have h1 := disj_for1_good self vs (fun x hx => h x (by simp [printStmt, hx]))
      simp only [ofStmt, visit_Stmt]; good
  | .float l tc v, h => by
      have hl : Lex l := h l (by simp [printStmt])
      have h1 := visit_Term_good self (MTerm.app tc []) (fun x hx => h x (by
        simp [printTerm] at hx; subst hx; simp [printStmt]))
      have h2 := visit_Term_good self (MTerm.mv v) (fun x hx => h x (by
        simp [printTerm] at hx; subst hx; simp [printStmt]))
      simp only [ofStmt, visit_Stmt, postvisit_structured_statement, get_statement_type, isFloatingStatement,
        isProvableStatement, Stmt.label, hl.truthy, ↓reduceIte, Bool.false_eq_true]
      simp only [Stmt.terms, postvisit_structured_statement_for1]
      good
  | .ess l ts, h => by
      have hl : Lex l := h l (by simp [printStmt])
      have h1 := terms_for1_good self ts (fun x hx => h x (by simp [printStmt, hx]))
      simp only [ofStmt, visit_Stmt, postvisit_structured_statement, get_statement_type, isFloatingStatement,
        isEssentialStatement, isProvableStatement, Stmt.label, Stmt.terms, hl.truthy, ↓reduceIte, Bool.false_eq_true]
      good
  | .ax l ts, h => by
      have hl : Lex l := h l (by simp [printStmt])
      have h1 := terms_for1_good self ts (fun x hx => h x (by simp [printStmt, hx]))
      simp only [ofStmt, visit_Stmt, postvisit_structured_statement, get_statement_type, isFloatingStatement,
        isEssentialStatement, isAxiomaticStatement, isProvableStatement, Stmt.label, Stmt.terms, hl.truthy, ↓reduceIte,
        Bool.false_eq_true]
      good
  | .prov l ts pf, h => by
      have hl : Lex l := h l (by simp [printStmt])
      have h1 := terms_for1_good self ts (fun x hx => h x (by simp [printStmt, hx]))
      have hj : linesOK (pyJoin " " pf) = true := join_linesOK pf (fun x hx => h x (by simp [printStmt, hx]))
      have hj' : Good [PCall.write (pyJoin " " pf)] := Good.write hj
      simp only [ofStmt, visit_Stmt, postvisit_structured_statement, get_statement_type, isFloatingStatement,
        isEssentialStatement, isAxiomaticStatement, isProvableStatement, Stmt.label, Stmt.terms, Stmt.proof, ho,
        hl.truthy, ↓reduceIte, Bool.false_eq_true]
      good
  | .block ss, h => by
      have h1 := block_for1_good self ho ss (ofStmts ss) 0 (fun x hx => h x (by simp [printStmt, hx]))
      have h2 := Good.within h1
      simp only [ofStmt, visit_Stmt]
      have e : ([PCall.write "${ "] ++ [PCall.indent] ++ postvisit_block_for1 self (ofStmts ss) (ofStmts ss) 0 ++ [PCall.deindent] ++
          [PCall.write "$}"]) = [PCall.write "${ "] ++ (PCall.indent :: (postvisit_block_for1 self (ofStmts ss) (ofStmts ss) 0 ++
          [PCall.deindent])) ++ [PCall.write "$}"] := by simp
      rw [e]; good
theorem block_for1_good (self : Encoder) (ho : self.omit_proof = false) : ∀ (ss : List MStmt) (all : List Stmt) (i : Nat),
    (∀ x ∈ printStmts ss, Lex x) → Good (postvisit_block_for1 self all (ofStmts ss) i)
  | [], all, i, _ => by simp only [ofStmts, postvisit_block_for1]; good
  | s :: ss, all, i, h => by
      have h1 := visit_Stmt_good self ho s (fun x hx => h x (by simp [printStmts, hx]))
      have h2 := block_for1_good self ho ss all (i + 1) (fun x hx => h x (by simp [printStmts, hx]))
      simp only [ofStmts, postvisit_block_for1]
      split <;> good
end

theorem db_for1_good (self : Encoder) (ho : self.omit_proof = false) : ∀ (ss : List MStmt), (∀ x ∈ printStmts ss, Lex x) →
    Good (postvisit_database_for1 self (ofStmts ss))
  | [], _ => by simp only [ofStmts, postvisit_database_for1]; good
  | s :: ss, h => by
      have h1 := visit_Stmt_good self ho s (fun x hx => h x (by simp [printStmts, hx]))
      have h2 := db_for1_good self ho ss (fun x hx => h x (by simp [printStmts, hx]))
      simp only [ofStmts, postvisit_database_for1]; good

theorem encode_calls_ok (self : Encoder) (ho : self.omit_proof = false) (db : MDb) (h : ∀ x ∈ printDb db, Lex x) :
    Good (encode self (ofDb db)) := by
  simpa [encode, visit_Database, ofDb] using db_for1_good self ho db h

/-! ## the last line the `Encoder` writes -/
theorem lastLineOf_append : ∀ (a b : List PCall) (L : List Char), lastLineOf (a ++ b) L = lastLineOf b (lastLineOf a L)
  | [], b, L => rfl
  | .write s :: a, b, L => by simp [lastLineOf, lastLineOf_append a b]
  | .indent :: a, b, L => by simp [lastLineOf, lastLineOf_append a b]
  | .deindent :: a, b, L => by simp [lastLineOf, lastLineOf_append a b]

/-- every statement of a database is followed by `self.write('\n')`: the last line written is empty -/
theorem db_for1_last (self : Encoder) : ∀ (ss : List Stmt) (L : List Char), fragOK L = true →
    fragOK (lastLineOf (postvisit_database_for1 self ss) L) = true
  | [], L, h => by simpa [postvisit_database_for1, lastLineOf] using h
  | s :: ss, L, _ => by
      simp only [postvisit_database_for1, lastLineOf_append, lastLineOf]
      exact db_for1_last self ss _ (by decide)

theorem encode_last_line (self : Encoder) (db : Database) : fragOK (lastLineOf (encode self db) []) = true := by
  simpa [encode, visit_Database] using db_for1_last self db.statements [] (by decide)

/-! ## the text -/
/-- **the text of the translated `Encoder` through `Printer`, for a database of the model**: it exists (no assert of `deindent`
fails) and is lexed to the model's `printDb` — when `tab` consists of ignored characters, `omit_proof=False` and every string of the
database is a lexeme -/
theorem encode_text_tokens (self : Encoder) (ho : self.omit_proof = false) (htab : WsOnly self.tab.toList) (db : MDb)
    (h : ∀ x ∈ printDb db, Lex x) :
    ∃ text, printerText self.tab (encode self (ofDb db)) = some text ∧ lexTokens text = printDb db := by
  have hg := encode_calls_ok self ho db h
  obtain ⟨p', hr, _, _⟩ := hg.2 (Printer.new self.tab.toList) (fun _ => rfl)
  refine ⟨p'.flush.output, by simp [printerText_eq, hr], ?_⟩
  rw [printer_tokens self.tab _ htab hg.1 (encode_last_line self _) _ (by simp [printerText_eq, hr]), encode_tokens self ho db h]

/-- **C17, first sentence, for the translated parser, the translated `Encoder` and the `Printer` model**: if `parse_database`
parses the lexer's tokens `toks` (lexemes: non-empty, without ignored characters) to `db`, the TEXT printed for `db` is lexed to
`toks` again and parsed to `db` again -/
theorem print_parse_real_text (F : Nat) (toks : List String) (db : Database) (self : Encoder) (ho : self.omit_proof = false)
    (htab : WsOnly self.tab.toList) (hlex : ∀ t ∈ toks, Lex t) (hF : toks.length ≤ F)
    (h : parse_database F toks = some db) :
    ∃ text, printerText self.tab (encode self db) = some text ∧ lexTokens text = toks ∧
      parse_database F (lexTokens text) = some db := by
  have h0 := h
  rw [parse_database_eq F toks hF] at h
  simp only [Option.map_eq_some_iff] at h
  obtain ⟨mdb, hp, rfl⟩ := h
  have hpr := MM.print_parse toks mdb hp
  obtain ⟨text, h1, h2⟩ := encode_text_tokens self ho htab mdb (by rw [hpr]; exact hlex)
  exact ⟨text, h1, by rw [h2, hpr], by rw [h2, hpr]; exact h0⟩

theorem default_tab_ws : WsOnly Encoder.new.tab.toList := by
  have : Encoder.new.tab.toList.all isWs = true := by decide
  intro c hc
  exact List.all_eq_true.mp this c hc

/-! ## regression: labels that `str.isspace` takes for whitespace (the defect repaired by 5aefd01) -/
/-- the tokens of `'\xa0 $a x $.'`: the no-break space is a `TOKEN` for the grammar (`/[^ \n\t\f\r\$]+/`) -/
def cexToks : List String := ["\u00a0", "$a", "x", "$."]
def cexDb : MDb := [.ax "\u00a0" [.app "x" []]]
/-- `'${ l $a a $. \x0b $a b $. $}'`: the label `'\x0b'` starts a continuation line of the block -/
def cexToks2 : List String := ["${", "l", "$a", "a", "$.", "\x0b", "$a", "b", "$.", "$}"]
def cexDb2 : MDb := [.block [.ax "l" [.app "a" []], .ax "\x0b" [.app "b" []]]]

theorem lex_all {ts : List String} (h : ts.all lexB = true) : ∀ t ∈ ts, Lex t := fun t ht => List.all_eq_true.mp h t ht

/-- `parse_database('\xa0 $a x $.')` (an axiom labelled `'\xa0'`) is printed as `'\xa0 $a x $.\n'`, which is lexed to the same four
tokens and parsed to the same database -/
theorem printer_keeps_blank_label :
    (∀ t ∈ cexToks, Lex t) ∧ parse_database 4 cexToks = some (ofDb cexDb) ∧
    printerText Encoder.new.tab (encode Encoder.new (ofDb cexDb)) = some "\u00a0 $a x $.\n".toList ∧
    lexTokens "\u00a0 $a x $.\n".toList = cexToks ∧
    parse_database 4 (lexTokens "\u00a0 $a x $.\n".toList) = some (ofDb cexDb) := by
  have hp : parse_database 4 cexToks = some (ofDb cexDb) := by rw [parse_database_eq _ _ (by decide)]; rfl
  have hl : lexTokens "\u00a0 $a x $.\n".toList = cexToks := by decide
  exact ⟨lex_all (by decide), hp, by decide, hl, by rw [hl]; exact hp⟩

/-- the same on a continuation line inside a block (indentation `'   '` in front of the label `'\x0b'`) -/
theorem printer_keeps_blank_label_in_block :
    (∀ t ∈ cexToks2, Lex t) ∧ parse_database 10 cexToks2 = some (ofDb cexDb2) ∧
    printerText Encoder.new.tab (encode Encoder.new (ofDb cexDb2)) = some "${ l $a a $.\n   \x0b $a b $. $}\n".toList ∧
    lexTokens "${ l $a a $.\n   \x0b $a b $. $}\n".toList = cexToks2 := by
  refine ⟨lex_all (by decide), ?_, by decide, by decide⟩
  rw [parse_database_eq _ _ (by decide)]; rfl

/-- the class BEFORE 5aefd01 (`is_line_buffer_empty` with `len(s) != 0 and not s.isspace()`: `printerTextOld`) printed the two
databases as `'$a x $.\n'` and `'${ l $a a $.\n   $a b $. $}\n'`: the label, taken for indentation, was replaced by the indentation;
the first text is lexed to three tokens, which `parse_database` rejects -/
theorem old_printer_dropped_blank_label :
    printerTextOld Encoder.new.tab (encode Encoder.new (ofDb cexDb)) = some "$a x $.\n".toList ∧
    printerTextOld Encoder.new.tab (encode Encoder.new (ofDb cexDb2)) = some "${ l $a a $.\n   $a b $. $}\n".toList ∧
    lexTokens "$a x $.\n".toList = ["$a", "x", "$."] ∧ parse_database 4 ["$a", "x", "$."] = none := by
  refine ⟨by decide, by decide, by decide, ?_⟩
  rw [parse_database_eq _ _ (by decide)]; rfl

end AstText

#print axioms AstText.printer_tokens
#print axioms AstText.encode_calls_ok
#print axioms AstText.encode_text_tokens
#print axioms AstText.print_parse_real_text
#print axioms AstText.printer_keeps_blank_label
#print axioms AstText.printer_keeps_blank_label_in_block
#print axioms AstText.old_printer_dropped_blank_label
#print axioms AstText.printer_rstrip_residual
