import Pi2.MM.AstTie
/-!
# The TEXT: what `Printer` (metamath/utils/printer.py) makes of the `Encoder`'s calls

`Pi2/MM/AstTie.lean` is about the strings the `Encoder` writes.  The text of `Encoder.encode_string` is what `Printer.write` /
`flush` make of them: a line buffer, the current indentation in front of a line whose buffer "is empty", `rstrip` of the last
string of a line.  `MMAstSup.Printer` is a hand-written model of that class (the translator compares the class with the text
the model was written against; `vlib/props/c17.py` compares `printerText` with the real text character by character).

* `printer_tokens`: if `tab` consists of ignored characters and the trailing Python-whitespace of every line of every written
  string is ignored by the grammar too (`strOK`), the text is lexed to the same tokens as the concatenation of the written strings.
* `encode_calls_ok`: the calls of the translated `Encoder` for a database of the model satisfy that, when every string of the
  database is a lexeme that does not END in a character `str.isspace` accepts (`Tok`).
* `print_parse_real_text`: C17's first sentence for the translated parser, the translated `Encoder` AND the `Printer` model.
* `printer_drops_blank_label`: without the hypothesis it is false — the label `'\xa0'` (a `TOKEN` for the grammar, whitespace for
  `str.isspace`) at the start of a line is taken for indentation and dropped: `\xa0 $a x $.` is printed as `$a x $.`.
-/
namespace AstText
open MM MMAstSup Gen.MMAst AstTie
open ImpSup (pyIsSpace)

def WsOnly (l : List Char) : Prop := ∀ c ∈ l, isWs c = true
/-- the trailing Python-whitespace of a line is ignored by the grammar too -/
def fragOK (f : List Char) : Bool := (f.reverse.takeWhile pyIsSpace).all isWs
/-- every line of a written string -/
def strOK (s : String) : Bool := (pySplitNl s.toList).all fragOK
def callsOK (cs : List PCall) : Prop := ∀ s, PCall.write s ∈ cs → strOK s = true

/-! ## `splitAux` and ignored characters -/
theorem splitAux_congr {Y Y' : List Char} (h : ∀ acc, splitAux isWs Y acc = splitAux isWs Y' acc) :
    ∀ (A acc : List Char), splitAux isWs (A ++ Y) acc = splitAux isWs (A ++ Y') acc
  | [], acc => by simpa using h acc
  | a :: A, acc => by
      simp only [List.cons_append, splitAux]
      split
      · split <;> simp [splitAux_congr h A]
      · exact splitAux_congr h A _

theorem splitAux_ws_cons {c : Char} (hc : isWs c = true) (X acc : List Char) :
    splitAux isWs (c :: X) acc = (if acc.isEmpty then [] else [String.ofList acc.reverse]) ++ splitAux isWs X [] := by
  simp only [splitAux, hc, ↓reduceIte]
  split <;> simp

theorem splitAux_ws_run : ∀ (w : List Char), WsOnly w → ∀ {c : Char}, isWs c = true → ∀ (X acc : List Char),
    splitAux isWs (w ++ c :: X) acc = splitAux isWs (c :: X) acc
  | [], _, _, _, _, _ => rfl
  | a :: w, hw, c, hc, X, acc => by
      have ha : isWs a = true := hw a (by simp)
      have ih := splitAux_ws_run w (fun d hd => hw d (by simp [hd])) hc X []
      simp only [List.cons_append]
      rw [splitAux_ws_cons ha, ih, splitAux_ws_cons hc, splitAux_ws_cons hc]
      simp

theorem splitAux_ws_end : ∀ (w : List Char), WsOnly w → ∀ (acc : List Char), splitAux isWs w acc = splitAux isWs [] acc
  | [], _, _ => rfl
  | a :: w, hw, acc => by
      have ha : isWs a = true := hw a (by simp)
      rw [splitAux_ws_cons ha, splitAux_ws_end w (fun d hd => hw d (by simp [hd])) []]
      simp only [splitAux]
      split <;> simp_all

theorem splitAux_ws_lead : ∀ (w : List Char), WsOnly w → ∀ (X : List Char), splitAux isWs (w ++ X) [] = splitAux isWs X []
  | [], _, _ => rfl
  | a :: w, hw, X => by
      have ha : isWs a = true := hw a (by simp)
      simp only [List.cons_append]
      rw [splitAux_ws_cons ha, splitAux_ws_lead w (fun d hd => hw d (by simp [hd])) X]
      simp

/-! ## the invariant of `Printer` -/
def LineStart (o : List Char) : Prop := o = [] ∨ ∃ o', o = o' ++ ['\n']

/-- at the start of a line, what ignored characters follow does not matter -/
theorem lineStart_swap {o a b : List Char} (ho : LineStart o) (ha : WsOnly a) (hb : WsOnly b) (Y : List Char) :
    splitWs isWs (o ++ a ++ Y) = splitWs isWs (o ++ b ++ Y) := by
  rcases ho with rfl | ⟨o', rfl⟩
  · simp only [List.nil_append, splitWs]
    rw [splitAux_ws_lead a ha, splitAux_ws_lead b hb]
  · simp only [splitWs, List.append_assoc, List.singleton_append]
    apply splitAux_congr
    intro acc
    simp only [List.cons_append]
    rw [splitAux_ws_cons ws_nl, splitAux_ws_cons ws_nl, splitAux_ws_lead a ha, splitAux_ws_lead b hb]

theorem wsOnly_fragOK {l : List Char} (h : WsOnly l) : fragOK l = true := by
  simp only [fragOK, List.all_eq_true]
  intro c hc
  exact h c (by simpa using (List.takeWhile_sublist _).subset hc)

theorem takeWhile_all {α : Type} (p : α → Bool) : ∀ (l : List α), l.all p = true → l.takeWhile p = l
  | [], _ => rfl
  | a :: l, h => by
      simp only [List.all_cons, Bool.and_eq_true] at h
      simp [List.takeWhile, h.1, takeWhile_all p l h.2]

theorem wsOnly_repeat {tab : List Char} (ht : WsOnly tab) : ∀ n, WsOnly (pyRepeat n tab)
  | 0 => by simp [pyRepeat, WsOnly]
  | n + 1 => by
      have := wsOnly_repeat ht n
      simp only [pyRepeat, WsOnly, List.replicate_succ, List.flatten_cons, List.mem_append] at this ⊢
      intro c hc
      rcases hc with hc | hc
      · exact ht c hc
      · exact this c hc

/-- a line buffer that "is empty" consists of ignored characters -/
theorem empty_buffer_ws {p : Printer} (he : p.is_line_buffer_empty = true) (hf : ∀ f ∈ p.line_buffer, fragOK f = true)
    (ht : WsOnly p.tab) : WsOnly p.line_buffer.flatten := by
  intro c hc
  simp only [List.mem_flatten] at hc
  obtain ⟨s, hs, hcs⟩ := hc
  simp only [Printer.is_line_buffer_empty, List.all_eq_true] at he
  have h1 := he s hs
  have h2 := hf s hs
  by_cases hl : s.length = 0
  · have : s = [] := List.length_eq_zero_iff.mp hl
    subst this; simp at hcs
  · by_cases hsp : pyIsSpaceL s = true
    · simp only [pyIsSpaceL, Bool.and_eq_true] at hsp
      have hall := hsp.2
      have hr : (s.reverse.takeWhile pyIsSpace) = s.reverse := takeWhile_all _ _ (by simpa using hall)
      simp only [fragOK, hr, List.all_eq_true] at h2
      exact h2 c (by simpa using hcs)
    · have hsp' : pyIsSpaceL s = false := by simpa using hsp
      have hA : (s.length != 0) = true := by simpa using hl
      rw [hA, hsp'] at h1
      simp only [Bool.not_false, Bool.and_self, Bool.true_and, Bool.not_eq_eq_eq_not, Bool.not_true, Bool.or_eq_false_iff,
        bne_eq_false_iff_eq] at h1
      rw [h1.2] at hcs
      exact wsOnly_repeat ht _ c hcs

/-- what `flush` drops (`rstrip` of the last string) consists of ignored characters -/
theorem flushed_split : ∀ (buf : List (List Char)), (∀ f ∈ buf, fragOK f = true) →
    ∃ trail, WsOnly trail ∧ buf.flatten = flushed buf ++ trail
  | [], _ => ⟨[], by simp [WsOnly], by simp [flushed]⟩
  | [s], h => by
      refine ⟨(s.reverse.takeWhile pyIsSpace).reverse, ?_, ?_⟩
      · have := h s (by simp)
        simp only [fragOK, List.all_eq_true] at this
        intro c hc
        exact this c (by simpa using hc)
      · simp only [List.flatten_cons, List.flatten_nil, List.append_nil, flushed, pyRstrip]
        rw [← List.reverse_append, List.takeWhile_append_dropWhile, List.reverse_reverse]
  | s :: t :: r, h => by
      obtain ⟨trail, h1, h2⟩ := flushed_split (t :: r) (fun f hf => h f (by simp [hf]))
      refine ⟨trail, h1, ?_⟩
      simp only [List.flatten_cons] at h2 ⊢
      rw [h2]; simp [flushed]

structure Inv (tab : List Char) (p : Printer) (W : List Char) : Prop where
  tab_eq : p.tab = tab
  start : LineStart p.output
  toks : ∀ X, splitWs isWs (p.output ++ p.line_buffer.flatten ++ X) = splitWs isWs (W ++ X)
  ind : WsOnly p.current_indentation
  frags : ∀ f ∈ p.line_buffer, fragOK f = true

theorem writeLine_inv {tab : List Char} (ht : WsOnly tab) {p : Printer} {W : List Char} (h : Inv tab p W) {l : List Char}
    (hl : fragOK l = true) : Inv tab (p.writeLine l) (W ++ l) := by
  unfold Printer.writeLine
  by_cases he : p.is_line_buffer_empty = true
  · simp only [he, ↓reduceIte]
    refine ⟨h.tab_eq, h.start, ?_, h.ind, ?_⟩
    · intro X
      have hb := empty_buffer_ws he h.frags (h.tab_eq ▸ ht)
      have := h.toks (l ++ X)
      simp only [List.flatten_cons, List.flatten_nil, List.append_nil, List.append_assoc, List.singleton_append] at this ⊢
      rw [← this]
      have sw := lineStart_swap h.start h.ind hb (l ++ X)
      simpa [List.append_assoc] using sw
    · intro f hf
      simp only [List.cons_append, List.nil_append, List.mem_cons, List.not_mem_nil, or_false] at hf
      rcases hf with rfl | rfl
      · exact wsOnly_fragOK h.ind
      · exact hl
  · simp only [he, Bool.false_eq_true, ↓reduceIte]
    refine ⟨h.tab_eq, h.start, ?_, h.ind, ?_⟩
    · intro X
      have := h.toks (l ++ X)
      simpa [List.append_assoc] using this
    · intro f hf
      simp only [List.mem_append, List.mem_cons, List.not_mem_nil, or_false] at hf
      rcases hf with hf | rfl
      · exact h.frags f hf
      · exact hl

theorem newline_inv {tab : List Char} {p : Printer} {W : List Char} (h : Inv tab p W) :
    Inv tab p.newline (W ++ ['\n']) := by
  obtain ⟨trail, ht1, ht2⟩ := flushed_split p.line_buffer h.frags
  refine ⟨h.tab_eq, Or.inr ⟨_, rfl⟩, ?_, h.ind, by simp [Printer.newline, Printer.flush]⟩
  intro X
  have := h.toks ('\n' :: X)
  simp only [Printer.newline, Printer.flush, List.flatten_nil, List.append_nil, List.append_assoc, List.singleton_append]
  rw [show W ++ '\n' :: X = W ++ '\n' :: X from rfl, ← this, ht2]
  simp only [splitWs, List.append_assoc]
  apply splitAux_congr
  intro acc
  apply splitAux_congr
  intro acc
  exact (splitAux_ws_run trail ht1 ws_nl X acc).symm

theorem pySplitNl_spec : ∀ (msg : List Char), ∃ l0 ls, pySplitNl msg = l0 :: ls ∧ msg = l0 ++ ls.flatMap (fun l => '\n' :: l)
  | [] => ⟨[], [], rfl, rfl⟩
  | c :: cs => by
      obtain ⟨l, ls, h1, h2⟩ := pySplitNl_spec cs
      by_cases hc : c = '\n'
      · subst hc
        exact ⟨[], l :: ls, by simp [pySplitNl, h1], by simp [← h2]⟩
      · exact ⟨c :: l, ls, by simp [pySplitNl, h1, hc], by simp [← h2]⟩

theorem fold_inv {tab : List Char} (ht : WsOnly tab) : ∀ (ls : List (List Char)) (p : Printer) (W : List Char), Inv tab p W →
    (∀ l ∈ ls, fragOK l = true) →
    Inv tab (ls.foldl (fun p l => p.newline.writeLine l) p) (W ++ ls.flatMap (fun l => '\n' :: l))
  | [], p, W, h, _ => by simpa using h
  | l :: ls, p, W, h, hl => by
      have h1 := writeLine_inv ht (newline_inv h) (hl l (by simp))
      have h2 := fold_inv ht ls _ _ h1 (fun x hx => hl x (by simp [hx]))
      simpa [List.append_assoc] using h2

theorem write_inv {tab : List Char} (ht : WsOnly tab) {p : Printer} {W : List Char} (h : Inv tab p W) {msg : String}
    (hm : strOK msg = true) : Inv tab (p.write msg.toList) (W ++ msg.toList) := by
  obtain ⟨l0, ls, h1, h2⟩ := pySplitNl_spec msg.toList
  simp only [strOK, h1, List.all_cons, Bool.and_eq_true, List.all_eq_true] at hm
  unfold Printer.write
  rw [h1]
  have := fold_inv ht ls _ _ (writeLine_inv ht h hm.1) hm.2
  rw [h2]
  simpa [List.append_assoc] using this

theorem indent_inv {tab : List Char} (ht : WsOnly tab) {p : Printer} {W : List Char} (h : Inv tab p W) : Inv tab p.indent W := by
  refine ⟨h.tab_eq, h.start, h.toks, ?_, h.frags⟩
  intro c hc
  simp only [Printer.indent, List.mem_append] at hc
  rcases hc with hc | hc
  · exact h.ind c hc
  · exact ht c (h.tab_eq ▸ hc)

theorem deindent_inv {tab : List Char} {p p' : Printer} {W : List Char} (h : Inv tab p W) (hd : p.deindent = some p') :
    Inv tab p' W := by
  unfold Printer.deindent at hd
  split at hd
  · injection hd with hd; subst hd
    refine ⟨h.tab_eq, h.start, h.toks, ?_, h.frags⟩
    intro c hc
    simp only at hc
    split at hc
    · simp at hc
    · exact h.ind c ((List.take_sublist _ _).subset hc)
  · cases hd

theorem run_inv {tab : List Char} (ht : WsOnly tab) : ∀ (cs : List PCall) (p p' : Printer) (W : List Char), Inv tab p W →
    callsOK cs → p.run cs = some p' → Inv tab p' (W ++ written cs)
  | [], p, p', W, h, _, hr => by
      simp only [Printer.run, Option.some.injEq] at hr; subst hr; simpa [written] using h
  | .write s :: cs, p, p', W, h, hok, hr => by
      simp only [Printer.run] at hr
      have h1 := write_inv ht h (hok s (by simp))
      have h2 := run_inv ht cs _ _ _ h1 (fun x hx => hok x (by simp [hx])) hr
      simpa [written, List.append_assoc] using h2
  | .indent :: cs, p, p', W, h, hok, hr => by
      simp only [Printer.run] at hr
      have h2 := run_inv ht cs _ _ _ (indent_inv ht h) (fun x hx => hok x (by simp [hx])) hr
      simpa [written] using h2
  | .deindent :: cs, p, p', W, h, hok, hr => by
      simp only [Printer.run, Option.bind_eq_some_iff] at hr
      obtain ⟨q, hq, hr⟩ := hr
      have h2 := run_inv ht cs _ _ _ (deindent_inv h hq) (fun x hx => hok x (by simp [hx])) hr
      simpa [written] using h2

/-- **`Printer` does not change the tokens**: if `tab` consists of ignored characters and the trailing Python-whitespace of every
line of every written string is ignored by the grammar, the text is lexed like the concatenation of the written strings -/
theorem printer_tokens (tab : String) (cs : List PCall) (ht : WsOnly tab.toList) (hok : callsOK cs) (text : List Char)
    (h : printerText tab cs = some text) : lexTokens text = lexTokens (written cs) := by
  simp only [printerText, Option.map_eq_some_iff] at h
  obtain ⟨p, hr, rfl⟩ := h
  have h0 : Inv tab.toList (Printer.new tab.toList) [] :=
    ⟨rfl, Or.inl rfl, fun X => rfl, by simp [Printer.new, WsOnly], by simp [Printer.new]⟩
  have hi := run_inv ht cs _ _ _ h0 hok hr
  obtain ⟨trail, ht1, ht2⟩ := flushed_split p.line_buffer hi.frags
  have := hi.toks []
  simp only [List.nil_append, List.append_nil] at this
  rw [lexTokens, lexTokens, ← this, ht2]
  simp only [Printer.flush, splitWs, ← List.append_assoc]
  have e := splitAux_congr (Y := trail) (Y' := []) (fun acc => splitAux_ws_end trail ht1 acc) (p.output ++ flushed p.line_buffer) []
  simpa using e.symm

/-! ## the calls of the translated `Encoder`: every written string is harmless, every `indent` is closed -/
/-- a lexeme that does not END in a character `str.isspace` accepts (so `rstrip` leaves it alone and `is_line_buffer_empty` does
not take it for indentation) -/
def tokB (t : String) : Bool := lexB t && !(match t.toList.reverse with | c :: _ => pyIsSpace c | [] => true)
def Tok (t : String) : Prop := tokB t = true

theorem Tok.lex {t : String} (h : Tok t) : Lex t := by
  simp only [Tok, tokB, Bool.and_eq_true] at h; exact h.1

theorem pySplitNl_noNl : ∀ (l : List Char), '\n' ∉ l → pySplitNl l = [l]
  | [], _ => rfl
  | c :: cs, h => by
      have hc : c ≠ '\n' := fun e => h (by simp [e])
      have := pySplitNl_noNl cs (fun m => h (by simp [m]))
      simp [pySplitNl, this, hc]

theorem fragOK_of_last {l : List Char} (h : (match l.reverse with | c :: _ => pyIsSpace c | [] => true) = false) :
    fragOK l = true := by
  unfold fragOK
  cases hr : l.reverse with
  | nil => simp
  | cons c r =>
    rw [hr] at h
    simp only at h
    simp [List.takeWhile, h]

theorem tok_strOK {t : String} (h : Tok t) : strOK t = true := by
  have hl := h.lex
  have hn : '\n' ∉ t.toList := fun m => by have := hl.no_ws _ m; simp [ws_nl] at this
  simp only [strOK, pySplitNl_noNl _ hn, List.all_cons, List.all_nil, Bool.and_true]
  simp only [Tok, tokB, Bool.and_eq_true, Bool.not_eq_eq_eq_not, Bool.not_true] at h
  exact fragOK_of_last h.2

/-- the state `Printer.run` starts from and returns to: `current_indentation` is empty when `tab` is -/
def IndOK (p : Printer) : Prop := p.tab = [] → p.current_indentation = []

/-- the calls never fail and leave `tab` and the indentation as they found them -/
def Bal (cs : List PCall) : Prop :=
  ∀ p : Printer, IndOK p → ∃ p', p.run cs = some p' ∧ p'.tab = p.tab ∧ p'.current_indentation = p.current_indentation

def Good (cs : List PCall) : Prop := callsOK cs ∧ Bal cs

theorem run_append : ∀ (a b : List PCall) (p : Printer), p.run (a ++ b) = (p.run a).bind fun q => q.run b
  | [], b, p => by simp [Printer.run]
  | .write s :: a, b, p => by simp [Printer.run, run_append a b]
  | .indent :: a, b, p => by simp [Printer.run, run_append a b]
  | .deindent :: a, b, p => by
      simp only [List.cons_append, Printer.run]
      cases p.deindent with
      | none => simp
      | some q => simp [run_append a b]

theorem writeLine_keeps (p : Printer) (l : List Char) :
    (p.writeLine l).tab = p.tab ∧ (p.writeLine l).current_indentation = p.current_indentation := by
  unfold Printer.writeLine; split <;> simp

theorem newline_keeps (p : Printer) : p.newline.tab = p.tab ∧ p.newline.current_indentation = p.current_indentation := by
  simp [Printer.newline, Printer.flush]

theorem fold_keeps : ∀ (ls : List (List Char)) (p : Printer),
    (ls.foldl (fun p l => p.newline.writeLine l) p).tab = p.tab ∧
    (ls.foldl (fun p l => p.newline.writeLine l) p).current_indentation = p.current_indentation
  | [], p => by simp
  | l :: ls, p => by
      have h1 := fold_keeps ls (p.newline.writeLine l)
      have h2 := writeLine_keeps p.newline l
      have h3 := newline_keeps p
      simp only [List.foldl_cons]
      exact ⟨by rw [h1.1, h2.1, h3.1], by rw [h1.2, h2.2, h3.2]⟩

theorem write_keeps (p : Printer) (msg : List Char) :
    (p.write msg).tab = p.tab ∧ (p.write msg).current_indentation = p.current_indentation := by
  unfold Printer.write
  split
  · simp
  · next l ls _ =>
    have h1 := fold_keeps ls (p.writeLine l)
    have h2 := writeLine_keeps p l
    exact ⟨by rw [h1.1, h2.1], by rw [h1.2, h2.2]⟩

theorem Good.nil : Good [] := ⟨fun s hs => by simp at hs, fun p _ => ⟨p, rfl, rfl, rfl⟩⟩

theorem Good.write {s : String} (h : strOK s = true) : Good [.write s] :=
  ⟨fun x hx => by simp at hx; subst hx; exact h,
   fun p _ => ⟨p.write s.toList, by simp [Printer.run], (write_keeps p _).1, (write_keeps p _).2⟩⟩

theorem Good.append {a b : List PCall} (ha : Good a) (hb : Good b) : Good (a ++ b) := by
  refine ⟨fun s hs => ?_, fun p hp => ?_⟩
  · rcases List.mem_append.mp hs with h | h
    · exact ha.1 s h
    · exact hb.1 s h
  · obtain ⟨q, h1, h2, h3⟩ := ha.2 p hp
    obtain ⟨r, h4, h5, h6⟩ := hb.2 q (fun e => by rw [h3]; exact hp (h2 ▸ e))
    exact ⟨r, by rw [run_append, h1]; exact h4, by rw [h5, h2], by rw [h6, h3]⟩

theorem Good.cons_write {s : String} {a : List PCall} (h : strOK s = true) (ha : Good a) : Good (.write s :: a) :=
  Good.append (Good.write h) ha

/-- `with self.indentation(): a` -/
theorem Good.within {a : List PCall} (ha : Good a) : Good (.indent :: (a ++ [.deindent])) := by
  refine ⟨fun s hs => ?_, fun p hp => ?_⟩
  · simp only [List.mem_cons, List.mem_append, List.not_mem_nil, or_false, reduceCtorEq, false_or] at hs
    exact ha.1 s hs
  · have hi : IndOK p.indent := fun e => by
      simp only [Printer.indent] at e ⊢
      rw [hp e, e]; rfl
    obtain ⟨q, h1, h2, h3⟩ := ha.2 p.indent hi
    have hq : q.tab = p.tab := by rw [h2]; rfl
    have hqi : q.current_indentation = p.current_indentation ++ p.tab := by rw [h3]; rfl
    have hlen : q.tab.length ≤ q.current_indentation.length := by rw [hq, hqi]; simp
    refine ⟨{ q with current_indentation := if q.tab.length = 0 then [] else
        q.current_indentation.take (q.current_indentation.length - q.tab.length) }, ?_, hq, ?_⟩
    · simp only [Printer.run, run_append, h1, Option.bind_some, Printer.deindent, hlen, ↓reduceIte]
    · simp only
      split
      · next h0 =>
        have : p.tab = [] := List.length_eq_zero_iff.mp (hq ▸ h0)
        exact (hp this).symm
      · rw [hqi, hq]; simp

macro "good_step" : tactic =>
  `(tactic| first
    | assumption
    | exact Good.nil
    | exact Good.write (by decide)
    | exact Good.write (tok_strOK (by assumption))
    | (apply Good.cons_write (by decide))
    | (apply Good.cons_write (tok_strOK (by assumption)))
    | apply Good.append)
macro "good" : tactic => `(tactic| repeat' good_step)

mutual
theorem visit_Term_good (self : Encoder) : ∀ (t : MTerm), (∀ x ∈ printTerm t, Tok x) → Good (visit_Term self t)
  | .mv n, h => by
      have hn : Tok n := h n (by simp [printTerm])
      simp only [visit_Term]; good
  | .app s [], h => by
      have hs : Tok s := h s (by simp [printTerm])
      simp only [visit_Term, List.length_nil, beq_self_eq_true, ↓reduceIte]; good
  | .app s (a :: as), h => by
      have hs : Tok s := h s (by simp [printTerm])
      have hL := term_for1_good self (a :: as) (fun x hx => h x (by simp [printTerm, hx]))
      have h1 := visit_Term_good self a (fun x hx => h x (by simp [printTerm, printTerms, hx]))
      have h2 := term_for1_good self as (fun x hx => h x (by simp [printTerm, printTerms, hx]))
      simp only [visit_Term, List.length_cons, Nat.add_eq_zero_iff, Nat.succ_ne_self, and_false, beq_iff_eq, ↓reduceIte]
      good
theorem term_for1_good (self : Encoder) : ∀ (ts : List MTerm), (∀ x ∈ printTerms ts, Tok x) →
    Good (postvisit_application_for1 self ts)
  | [], _ => by simp only [postvisit_application_for1]; good
  | t :: ts, h => by
      have h1 := visit_Term_good self t (fun x hx => h x (by simp [printTerms, hx]))
      have h2 := term_for1_good self ts (fun x hx => h x (by simp [printTerms, hx]))
      simp only [postvisit_application_for1]; good
end

theorem const_for1_good (self : Encoder) : ∀ (cs : List String), (∀ x ∈ cs, Tok x) → Good (postvisit_constant_statement_for1 self cs)
  | [], _ => by simp only [postvisit_constant_statement_for1]; good
  | c :: cs, h => by
      have hc : Tok c := h c (by simp)
      have h2 := const_for1_good self cs (fun x hx => h x (by simp [hx]))
      simp only [postvisit_constant_statement_for1]; good

theorem var_for1_good (self : Encoder) : ∀ (vs : List String), (∀ x ∈ vs, Tok x) →
    Good (postvisit_variable_statement_for1 self (vs.map MTerm.mv))
  | [], _ => by simp only [List.map_nil, postvisit_variable_statement_for1]; good
  | c :: cs, h => by
      have hc : Tok c := h c (by simp)
      have h2 := var_for1_good self cs (fun x hx => h x (by simp [hx]))
      simp only [List.map_cons, postvisit_variable_statement_for1, visit_Term]; good

theorem disj_for1_good (self : Encoder) : ∀ (vs : List String), (∀ x ∈ vs, Tok x) →
    Good (postvisit_disjoint_statement_for1 self (vs.map MTerm.mv))
  | [], _ => by simp only [List.map_nil, postvisit_disjoint_statement_for1]; good
  | c :: cs, h => by
      have hc : Tok c := h c (by simp)
      have h2 := disj_for1_good self cs (fun x hx => h x (by simp [hx]))
      simp only [List.map_cons, postvisit_disjoint_statement_for1, visit_Term]; good

theorem terms_for1_good (self : Encoder) : ∀ (ts : List MTerm), (∀ x ∈ printTerms ts, Tok x) →
    Good (postvisit_structured_statement_for1 self ts)
  | [], _ => by simp only [postvisit_structured_statement_for1]; good
  | t :: ts, h => by
      have h1 := visit_Term_good self t (fun x hx => h x (by simp [printTerms, hx]))
      have h2 := terms_for1_good self ts (fun x hx => h x (by simp [printTerms, hx]))
      simp only [postvisit_structured_statement_for1]; good

/-- the proof string `' '.join(pf)`: one line, ending like its last token -/
theorem join_strOK (pf : List String) (h : ∀ x ∈ pf, Tok x) : strOK (pyJoin " " pf) = true := by
  cases pf with
  | nil => simp [strOK, join_nil, pySplitNl, fragOK]
  | cons t rest =>
    have hn : '\n' ∉ (pyJoin " " (t :: rest)).toList := by
      rw [join_chars]
      intro m
      simp only [List.mem_append, List.mem_flatMap, List.mem_cons] at m
      rcases m with m | ⟨x, hx, m | m⟩
      · have := (h t (by simp)).lex.no_ws _ m; simp [ws_nl] at this
      · exact absurd m (by decide)
      · have := (h x (by simp [hx])).lex.no_ws _ m; simp [ws_nl] at this
    simp only [strOK, pySplitNl_noNl _ hn, List.all_cons, List.all_nil, Bool.and_true]
    apply fragOK_of_last
    -- the last character is the last character of the last token
    have hlast : ∀ (u : String) (pre : List Char), Tok u →
        (match (pre ++ u.toList).reverse with | c :: _ => pyIsSpace c | [] => true) = false := by
      intro u pre hu
      simp only [Tok, tokB, Bool.and_eq_true, Bool.not_eq_eq_eq_not, Bool.not_true] at hu
      have hne := (Tok.lex (by simp [Tok, tokB, hu.1, hu.2]) : Lex u).ne_nil
      rw [List.reverse_append]
      cases hr : u.toList.reverse with
      | nil => exact absurd (by simpa using hr) hne
      | cons c r => rw [hr] at hu; simpa using hu.2
    rw [join_chars]
    cases hrest : rest.reverse with
    | nil =>
      have : rest = [] := by simpa using hrest
      subst this
      simpa using hlast t [] (h t (by simp))
    | cons u pre =>
      have e : rest = pre.reverse ++ [u] := by
        have := congrArg List.reverse hrest; simpa using this
      subst e
      have := hlast u (t.toList ++ (List.flatMap (fun x => ' ' :: x.toList) pre.reverse ++ [' '])) (h u (by simp))
      simpa [List.flatMap_append, List.append_assoc] using this

mutual
/-- the calls of the translated `Encoder` for a statement of the model are harmless for `Printer` and balanced -/
theorem visit_Stmt_good (self : Encoder) (ho : self.omit_proof = false) : ∀ (s : MStmt), (∀ x ∈ printStmt s, Tok x) →
    Good (visit_Stmt self (ofStmt s))
  | .const cs, h => by
      have h1 := const_for1_good self cs (fun x hx => h x (by simp [printStmt, hx]))
      simp only [ofStmt, visit_Stmt]; good
  | .var vs, h => by
      have h1 := var_for1_good self vs (fun x hx => h x (by simp [printStmt, hx]))
      simp only [ofStmt, visit_Stmt]; good
  | .disj vs, h => by
      have h1 := disj_for1_good self vs (fun x hx => h x (by simp [printStmt, hx]))
      simp only [ofStmt, visit_Stmt]; good
  | .float l tc v, h => by
      have hl : Tok l := h l (by simp [printStmt])
      have h1 := visit_Term_good self (MTerm.app tc []) (fun x hx => h x (by
        simp [printTerm] at hx; subst hx; simp [printStmt]))
      have h2 := visit_Term_good self (MTerm.mv v) (fun x hx => h x (by
        simp [printTerm] at hx; subst hx; simp [printStmt]))
      simp only [ofStmt, visit_Stmt, postvisit_structured_statement, get_statement_type, isFloatingStatement,
        isProvableStatement, Stmt.label, hl.lex.truthy, ↓reduceIte, Bool.false_eq_true]
      simp only [Stmt.terms, postvisit_structured_statement_for1]
      good
  | .ess l ts, h => by
      have hl : Tok l := h l (by simp [printStmt])
      have h1 := terms_for1_good self ts (fun x hx => h x (by simp [printStmt, hx]))
      simp only [ofStmt, visit_Stmt, postvisit_structured_statement, get_statement_type, isFloatingStatement,
        isEssentialStatement, isProvableStatement, Stmt.label, Stmt.terms, hl.lex.truthy, ↓reduceIte, Bool.false_eq_true]
      good
  | .ax l ts, h => by
      have hl : Tok l := h l (by simp [printStmt])
      have h1 := terms_for1_good self ts (fun x hx => h x (by simp [printStmt, hx]))
      simp only [ofStmt, visit_Stmt, postvisit_structured_statement, get_statement_type, isFloatingStatement,
        isEssentialStatement, isAxiomaticStatement, isProvableStatement, Stmt.label, Stmt.terms, hl.lex.truthy, ↓reduceIte,
        Bool.false_eq_true]
      good
  | .prov l ts pf, h => by
      have hl : Tok l := h l (by simp [printStmt])
      have h1 := terms_for1_good self ts (fun x hx => h x (by simp [printStmt, hx]))
      have hj : strOK (pyJoin " " pf) = true := join_strOK pf (fun x hx => h x (by simp [printStmt, hx]))
      have hj' : Good [PCall.write (pyJoin " " pf)] := Good.write hj
      simp only [ofStmt, visit_Stmt, postvisit_structured_statement, get_statement_type, isFloatingStatement,
        isEssentialStatement, isAxiomaticStatement, isProvableStatement, Stmt.label, Stmt.terms, Stmt.proof, ho,
        hl.lex.truthy, ↓reduceIte, Bool.false_eq_true]
      good
  | .block ss, h => by
      have h1 := block_for1_good self ho ss (ofStmts ss) 0 (fun x hx => h x (by simp [printStmt, hx]))
      have h2 := Good.within h1
      simp only [ofStmt, visit_Stmt]
      have e : ([PCall.write "${ "] ++ [PCall.indent] ++ postvisit_block_for1 self (ofStmts ss) (ofStmts ss) 0 ++ [PCall.deindent] ++
          [PCall.write "$}"]) = [PCall.write "${ "] ++ (PCall.indent :: (postvisit_block_for1 self (ofStmts ss) (ofStmts ss) 0 ++
          [PCall.deindent])) ++ [PCall.write "$}"] := by simp
      rw [e]; good
theorem block_for1_good (self : Encoder) (ho : self.omit_proof = false) : ∀ (ss : List MStmt) (all : List Stmt) (i : Nat),
    (∀ x ∈ printStmts ss, Tok x) → Good (postvisit_block_for1 self all (ofStmts ss) i)
  | [], all, i, _ => by simp only [ofStmts, postvisit_block_for1]; good
  | s :: ss, all, i, h => by
      have h1 := visit_Stmt_good self ho s (fun x hx => h x (by simp [printStmts, hx]))
      have h2 := block_for1_good self ho ss all (i + 1) (fun x hx => h x (by simp [printStmts, hx]))
      simp only [ofStmts, postvisit_block_for1]
      split <;> good
end

theorem db_for1_good (self : Encoder) (ho : self.omit_proof = false) : ∀ (ss : List MStmt), (∀ x ∈ printStmts ss, Tok x) →
    Good (postvisit_database_for1 self (ofStmts ss))
  | [], _ => by simp only [ofStmts, postvisit_database_for1]; good
  | s :: ss, h => by
      have h1 := visit_Stmt_good self ho s (fun x hx => h x (by simp [printStmts, hx]))
      have h2 := db_for1_good self ho ss (fun x hx => h x (by simp [printStmts, hx]))
      simp only [ofStmts, postvisit_database_for1]; good

theorem encode_calls_ok (self : Encoder) (ho : self.omit_proof = false) (db : MDb) (h : ∀ x ∈ printDb db, Tok x) :
    Good (encode self (ofDb db)) := by
  simpa [encode, visit_Database, ofDb] using db_for1_good self ho db h

/-! ## the text -/
theorem Tok.all_lex {ts : List String} (h : ∀ x ∈ ts, Tok x) : ∀ x ∈ ts, Lex x := fun x hx => (h x hx).lex

/-- **the text of the translated `Encoder` through `Printer`, for a database of the model**: it exists (no assert of `deindent`
fails) and is lexed to the model's `printDb` — when `tab` consists of ignored characters, `omit_proof=False` and every string of the
database is a lexeme that does not end in a character `str.isspace` accepts -/
theorem encode_text_tokens (self : Encoder) (ho : self.omit_proof = false) (htab : WsOnly self.tab.toList) (db : MDb)
    (h : ∀ x ∈ printDb db, Tok x) :
    ∃ text, printerText self.tab (encode self (ofDb db)) = some text ∧ lexTokens text = printDb db := by
  have hg := encode_calls_ok self ho db h
  obtain ⟨p', hr, _, _⟩ := hg.2 (Printer.new self.tab.toList) (fun _ => rfl)
  refine ⟨p'.flush.output, by simp [printerText, hr], ?_⟩
  rw [printer_tokens self.tab _ htab hg.1 _ (by simp [printerText, hr]), encode_tokens self ho db (Tok.all_lex h)]

/-- **C17, first sentence, for the translated parser, the translated `Encoder` and the `Printer` model**: if `parse_database`
parses the lexer's tokens `toks` (lexemes not ending in Python whitespace) to `db`, the TEXT printed for `db` is lexed to
`toks` again and parsed to `db` again -/
theorem print_parse_real_text (F : Nat) (toks : List String) (db : Database) (self : Encoder) (ho : self.omit_proof = false)
    (htab : WsOnly self.tab.toList) (htok : ∀ t ∈ toks, Tok t) (hF : toks.length ≤ F)
    (h : parse_database F toks = some db) :
    ∃ text, printerText self.tab (encode self db) = some text ∧ lexTokens text = toks ∧
      parse_database F (lexTokens text) = some db := by
  have h0 := h
  rw [parse_database_eq F toks hF] at h
  simp only [Option.map_eq_some_iff] at h
  obtain ⟨mdb, hp, rfl⟩ := h
  have hpr := MM.print_parse toks mdb hp
  obtain ⟨text, h1, h2⟩ := encode_text_tokens self ho htab mdb (by rw [hpr]; exact htok)
  exact ⟨text, h1, by rw [h2, hpr], by rw [h2, hpr]; exact h0⟩

theorem default_tab_ws : WsOnly Encoder.new.tab.toList := by
  have : Encoder.new.tab.toList.all isWs = true := by decide
  intro c hc
  exact List.all_eq_true.mp this c hc

/-! ## without the hypothesis: a label that `str.isspace` takes for whitespace is dropped -/
/-- the tokens of `'\xa0 $a x $.'`: the no-break space is a `TOKEN` for the grammar (`/[^ \n\t\f\r\$]+/`) -/
def cexToks : List String := ["\u00a0", "$a", "x", "$."]
def cexDb : MDb := [.ax "\u00a0" [.app "x" []]]

/-- `parse_database('\xa0 $a x $.')` succeeds (an axiom labelled `'\xa0'`), its tokens are lexemes — but the text printed for it is
`'$a x $.\n'`: `Printer.is_line_buffer_empty` takes the label at the start of the line for indentation and replaces it; the text
is lexed to three tokens, which `parse_database` rejects (confirmed on the real code: `UnexpectedToken`).  The label is not a
`Tok` (it ends in a character `str.isspace` accepts) -/
theorem printer_drops_blank_label :
    (∀ t ∈ cexToks, Lex t) ∧ parse_database 4 cexToks = some (ofDb cexDb) ∧
    printerText Encoder.new.tab (encode Encoder.new (ofDb cexDb)) = some "$a x $.\n".toList ∧
    lexTokens "$a x $.\n".toList = ["$a", "x", "$."] ∧ parse_database 4 ["$a", "x", "$."] = none ∧
    tokB "\u00a0" = false := by
  refine ⟨?_, ?_, by decide, by decide, ?_, by decide⟩
  · have : cexToks.all lexB = true := by decide
    exact fun t ht => List.all_eq_true.mp this t ht
  · rw [parse_database_eq _ _ (by decide)]; rfl
  · rw [parse_database_eq _ _ (by decide)]; rfl

end AstText

#print axioms AstText.printer_tokens
#print axioms AstText.encode_calls_ok
#print axioms AstText.encode_text_tokens
#print axioms AstText.print_parse_real_text
#print axioms AstText.printer_drops_blank_label
