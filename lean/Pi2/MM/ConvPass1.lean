import Pi2.MM.ConvBasic
/-!
# `_check_axiom` on the statements of the fragment, and the first sweep of `_top_down`
-/
set_option linter.unusedSimpArgs false
set_option linter.unusedVariables false
open MM SliceSup ConvSup Gen.MMConv

namespace ConvTie

/-! ## `_check_axiom` -/
@[simp] theorem andR_ok_false' (b : Bool) : andR (.ok b) (fun _ => .ok false) = .ok false := by cases b <;> rfl

theorem check_axiom_pattern (σ : String → Nat) (fuel : Nat) (self : ConvObj) (scope : ScopeObj) (l s : String) (args : List MTerm)
    (hs : reConstantMatch s = false) :
    _check_axiom σ fuel self scope (.ax l [.app "#Pattern" [], .app s args]) =
      .ok ({ self with _pattern_constructors := setAdd self._pattern_constructors l }, AxiomType.Provable) := by
  simp [_check_axiom, MStmt.terms, MTerm.symbol, isApplication, isAxiomatic, isEssential, hs, MStmt.label, bind, Res.bind, pure, andR_ok_false']

theorem check_axiom_thm_ax (σ : String → Nat) (fuel : Nat) (self : ConvObj) (scope : ScopeObj) (l : String) (t : MTerm) :
    _check_axiom σ fuel self scope (.ax l [.app "|-" [], t]) =
      .ok ({ self with _proof_rules := if strStartsWith l "proof-rule-" then setAdd self._proof_rules l else self._proof_rules },
        AxiomType.Provable) := by
  cases h : strStartsWith l "proof-rule-" <;>
    simp [_check_axiom, MStmt.terms, MTerm.symbol, isApplication, isAxiomatic, isEssential, MStmt.label, bind, Res.bind, pure, h]

theorem check_axiom_thm_ess (σ : String → Nat) (fuel : Nat) (self : ConvObj) (scope : ScopeObj) (l : String) (t : MTerm) :
    _check_axiom σ fuel self scope (.ess l [.app "|-" [], t]) = .ok (self, AxiomType.Provable) := by
  simp [_check_axiom, MStmt.terms, MTerm.symbol, isApplication, isAxiomatic, isEssential, MStmt.label, bind, Res.bind, pure]

end ConvTie

namespace ConvTie

/-! ## the statements of the first sweep -/
theorem import_constants_eq (σ : String → Nat) (fuel : Nat) (self : ConvObj) (cs : List String) :
    _import_constants σ fuel self (.const cs) =
      .ok { self with _declared_constants := setUnion self._declared_constants (setOf cs) } := rfl

theorem import_variables_eq (σ : String → Nat) (fuel : Nat) (vs : List String) : ∀ (self : ConvObj),
    _import_variables σ fuel self (.var vs) =
      .ok { self with _declared_variables := vs.foldl (fun d v => SliceSup.dictSet d v v) self._declared_variables } := by
  unfold _import_variables
  simp only [MStmt.metavariables]
  induction vs with
  | nil => intro self; rfl
  | cons v vs ih =>
    intro self
    simp only [forM'_cons, Res.pure_eq, Res.bind_ok, bind, Res.bind, List.foldl_cons] at ih ⊢
    have := ih { self with _declared_variables := SliceSup.dictSet self._declared_variables v v }
    simp only [] at this
    cases h : forM' vs { self with _declared_variables := SliceSup.dictSet self._declared_variables v v }
        (fun self var => Res.ok { self with _declared_variables := SliceSup.dictSet self._declared_variables var var }) with
    | ok c => rw [h] at this; simpa using this
    | raise => rw [h] at this; simp at this
    | outside => rw [h] at this; simp at this
    | nofuel => rw [h] at this; simp at this

theorem import_floating_eq (σ : String → Nat) (fuel : Nat) (self : ConvObj) (l v : String)
    (hv : dictHas self._declared_variables v = true) (hsym : vdHas self._symbols v = false)
    (hc : v ∉ self._declared_constants) (hexp : self._scope._metavars.expected = some PyType.MetaVar)
    (hnew : v ∉ self._scope._metavars.data.map (·.1)) (hvv : self._declared_variables.lookup v = some v) :
    _import_floating σ fuel self (.float l "#Pattern" v) =
      .ok { self with
        _floating_patterns := self._floating_patterns ++ [v]
        _scope := { self._scope with _metavars := { self._scope._metavars with
                      data := self._scope._metavars.data ++ [(v, mkMetaVar self._scope._metavars.data.length)] } }
        _fp_label_to_pattern := SliceSup.dictSet self._fp_label_to_pattern l [mkMetaVar self._scope._metavars.data.length] } := by
  have hget : dictGet self._declared_variables v = .ok v := dictGet_ok _ _ _ hvv
  have hfit : vdFits self._scope._metavars.expected (mkMetaVar self._scope._metavars.data.length) = true := by
    rw [hexp]; rfl
  have hcc : self._declared_constants.contains v = false := by simpa using hc
  have hlk : ((self._scope._metavars.data ++ [(v, mkMetaVar self._scope._metavars.data.length)]).lookup v)
      = some (mkMetaVar self._scope._metavars.data.length) := by
    rw [lookup_append_new _ _ _ _ hnew]; simp
  have hsym' : (List.lookup v self._symbols.data).isSome = false := by simpa [vdHas, dictHas] using hsym
  simp only [_import_floating, MStmt.terms, MTerm.symbol, MTerm.name, isApplication, isMetavariable, hv, hget, MStmt.label, bind, Res.bind,
    pure, listGet_zero, listGet_one, andR_true, andR_false, beq_self_eq_true, if_true, ite_true]
  simp only [Scope_add_metavariable, vdSet_ok _ _ _ hfit, vdLen, bind, Res.bind, pure, dictSet_new _ _ _ hnew]
  simp [_resolve, _is_symbol, hcc, hc, Scope_resolve, vdHas, vdGet, dictHas, hlk, dictGet, ofOption, hsym', bind, Res.bind, pure]

end ConvTie

namespace ConvTie

/-! ## the first sweep as a fold -/
theorem forM'_foldl {α σ : Type} (g : σ → α → σ) (I : σ → List α → Prop) (body : σ → α → Res σ)
    (hstep : ∀ s x rest, I s (x :: rest) → body s x = .ok (g s x) ∧ I (g s x) rest) :
    ∀ xs s, I s xs → forM' xs s body = .ok (xs.foldl g s) := by
  intro xs
  induction xs with
  | nil => intro s _; rfl
  | cons x xs ih =>
    intro s hI
    obtain ⟨h1, h2⟩ := hstep s x xs hI
    simp only [forM'_cons, h1, Res.bind_ok, List.foldl_cons]
    exact ih _ h2

/-- the shape of an `$a` statement of the fragment: `#Pattern ( s … )` with `s` not of the form `"…"`, or `|- t` -/
def axOK (ts : List MTerm) : Bool :=
  match ts with
  | [.app tc [], t] =>
      (tc == "#Pattern" && (match t with | .app s _ => !reConstantMatch s | _ => false)) || tc == "|-"
  | _ => false

/-- what `_check_axiom` does to the converter on such a statement -/
def axUpd (c : ConvObj) (l : String) (ts : List MTerm) : ConvObj :=
  match ts with
  | [.app tc [], _] =>
      if tc = "#Pattern" then { c with _pattern_constructors := setAdd c._pattern_constructors l }
      else if strStartsWith l "proof-rule-" then { c with _proof_rules := setAdd c._proof_rules l } else c
  | _ => c

theorem check_axiom_ax (σ : String → Nat) (fuel : Nat) (c : ConvObj) (scope : ScopeObj) (l : String) (ts : List MTerm)
    (h : axOK ts = true) : _check_axiom σ fuel c scope (.ax l ts) = .ok (axUpd c l ts, AxiomType.Provable) := by
  match ts, h with
  | [.app tc [], t], h =>
    simp only [axOK, Bool.or_eq_true, Bool.and_eq_true, beq_iff_eq] at h
    rcases h with ⟨rfl, ht⟩ | rfl
    · match t, ht with
      | .app s args, ht =>
        simp only [Bool.not_eq_true'] at ht
        rw [check_axiom_pattern σ fuel c scope l s args ht]
        simp [axUpd]
    · rw [check_axiom_thm_ax]
      simp only [axUpd]
      have : ("|-" : String) ≠ "#Pattern" := by decide
      simp only [this, if_false]
      split <;> rfl

/-- a `$e` statement of the fragment: `|- t` -/
def essOK : MStmt → Bool
  | .ess _ [.app tc [], _] => tc == "|-"
  | _ => false

theorem check_axiom_ess (σ : String → Nat) (fuel : Nat) (c : ConvObj) (scope : ScopeObj) (st : MStmt) (h : essOK st = true) :
    _check_axiom σ fuel c scope st = .ok (c, AxiomType.Provable) := by
  match st, h with
  | .ess l [.app tc [], t], h =>
    simp only [essOK, beq_iff_eq] at h
    subst h
    exact check_axiom_thm_ess σ fuel c scope l t

abbrev S1 := ConvObj × List MStmt × List MStmt × List MStmt

def floatUpd (c : ConvObj) (l v : String) : ConvObj :=
  { c with
    _floating_patterns := c._floating_patterns ++ [v]
    _scope := { c._scope with _metavars := { c._scope._metavars with
                  data := c._scope._metavars.data ++ [(v, mkMetaVar c._scope._metavars.data.length)] } }
    _fp_label_to_pattern := SliceSup.dictSet c._fp_label_to_pattern l [mkMetaVar c._scope._metavars.data.length] }

/-- one statement of the first sweep -/
def step1 (s : S1) (st : MStmt) : S1 :=
  match st with
  | .const cs => ({ s.1 with _declared_constants := setUnion s.1._declared_constants (setOf cs) }, s.2)
  | .var vs => ({ s.1 with _declared_variables := vs.foldl (fun d v => SliceSup.dictSet d v v) s.1._declared_variables }, s.2)
  | .float l _ v => (floatUpd s.1 l v, s.2)
  | .ax l ts => (axUpd s.1 l ts, s.2.1, s.2.2.1 ++ [st], s.2.2.2)
  | .prov _ _ _ => (s.1, s.2.1, s.2.2.1, s.2.2.2 ++ [st])
  | .block ss =>
      match ss.getLast? with
      | some (.ax l ts) => (axUpd s.1 l ts, s.2.1, s.2.2.1 ++ [st], s.2.2.2)
      | some (.prov _ _ _) => (s.1, s.2.1, s.2.2.1, s.2.2.2 ++ [st])
      | _ => s
  | _ => s

/-- the conditions of the fragment that the first sweep needs, statement by statement: `vs` = the variables declared so far,
`fs` = the variables with a `$f` so far; `consts` = ALL constants of the database -/
def ok1 (consts : List String) : List String → List String → MDb → Bool
  | _, _, [] => true
  | vs, fs, .const cs :: r => cs.all consts.contains && ok1 consts vs fs r
  | vs, fs, .var ws :: r => ok1 consts (vs ++ ws) fs r
  | vs, fs, .float _ tc v :: r => tc == "#Pattern" && vs.contains v && !fs.contains v && !consts.contains v && ok1 consts vs (fs ++ [v]) r
  | vs, fs, .ax _ ts :: r => axOK ts && ok1 consts vs fs r
  | vs, fs, .prov _ _ _ :: r => ok1 consts vs fs r
  | vs, fs, .block ss :: r =>
      (match ss.getLast? with
       | some (.ax _ ts) => axOK ts
       | some (.prov _ _ _) => true
       | _ => false) && ok1 consts vs fs r
  | _, _, _ => false

structure Inv1 (consts vs fs : List String) (c : ConvObj) : Prop where
  vars : ∀ x ∈ vs, c._declared_variables.lookup x = some x
  mv : c._scope._metavars.data = mvData fs
  mvExp : c._scope._metavars.expected = some PyType.MetaVar
  syms : c._symbols.data = []
  consts : ∀ x ∈ c._declared_constants, x ∈ consts

theorem foldl_dictSet_lookup (ws : List String) : ∀ (d : PyDict String) (x : String),
    (ws.foldl (fun d v => SliceSup.dictSet d v v) d).lookup x = if x ∈ ws then some x else d.lookup x := by
  induction ws with
  | nil => intro d x; simp
  | cons w ws ih =>
    intro d x
    simp only [List.foldl_cons, ih, lookup_dictSet, List.mem_cons]
    by_cases h1 : x ∈ ws
    · simp [h1]
    · by_cases h2 : x = w
      · subst h2; simp [h1]
      · simp [h1, h2]

end ConvTie

namespace ConvTie

theorem listLast_of_getLast? {α : Type} (l : List α) (a : α) (h : l.getLast? = some a) : listLast l = .ok a := by
  simp [listLast, ofOption, h]

/-- the first sweep of `_top_down` is the fold of `step1`; what remains is the second sweep -/
theorem top_down_eq (σ : String → Nat) (fuel : Nat) (c : ConvObj) (consts vs fs : List String)
    (hI : Inv1 consts vs fs c) (hok : ok1 consts vs fs c.parsed = true) :
    _top_down σ fuel c =
      (forM' (c.parsed.foldl step1 (c, [], [], [])).2.2.1 (c.parsed.foldl step1 (c, [], [], [])).1
          (fun self ax => _import_axiom σ fuel self ax) >>= fun self =>
        forM' (c.parsed.foldl step1 (c, [], [], [])).2.2.2 self (fun self lem => _import_lemma σ fuel self lem)) := by
  unfold _top_down
  simp only [bind_pure]
  let I : S1 → List MStmt → Prop := fun s rest => ∃ vs fs, Inv1 consts vs fs s.1 ∧ ok1 consts vs fs rest = true ∧ s.2.1 = []
  rw [forM'_foldl step1 I _ _ c.parsed (c, [], [], []) ⟨vs, fs, hI, hok, rfl⟩]
  · simp only [Res.bind_ok]
    have hn : (c.parsed.foldl step1 (c, [], [], [])).2.1 = [] := by
      have : ∀ (xs : List MStmt) (s : S1), s.2.1 = [] → (xs.foldl step1 s).2.1 = [] := by
        intro xs
        induction xs with
        | nil => intro s h; exact h
        | cons x xs ih =>
          intro s h
          apply ih
          cases x <;> simp only [step1, h]
          rename_i ss
          split <;> simp [h]
      exact this _ _ rfl
    rw [hn]
    simp only [forM'_nil, Res.bind_ok]
  · intro s x rest ⟨vs, fs, hinv, hok, hn⟩
    obtain ⟨c, n, ax, lem⟩ := s
    simp only [] at hn
    subst hn
    cases x with
    | const cs =>
      simp only [ok1, Bool.and_eq_true] at hok
      refine ⟨by simp [isConstant, import_constants_eq, step1], vs, fs, ?_, hok.2, rfl⟩
      refine ⟨hinv.vars, hinv.mv, hinv.mvExp, hinv.syms, ?_⟩
      intro x hx
      simp only [step1, mem_setUnion, mem_setOf] at hx
      rcases hx with hx | hx
      · exact hinv.consts x hx
      · have := List.all_eq_true.mp hok.1 x hx
        simpa using this
    | var ws =>
      simp only [ok1] at hok
      refine ⟨by simp [isConstant, isVariable, import_variables_eq, step1], vs ++ ws, fs, ?_, hok, rfl⟩
      refine ⟨?_, hinv.mv, hinv.mvExp, hinv.syms, hinv.consts⟩
      intro x hx
      simp only [step1, foldl_dictSet_lookup]
      simp only [List.mem_append] at hx
      by_cases hw : x ∈ ws
      · simp [hw]
      · simp only [hw, if_false]
        exact hinv.vars x (hx.resolve_right hw)
    | disj ws => simp [ok1] at hok
    | ess l ts => simp [ok1] at hok
    | float l tc v =>
      simp only [ok1, Bool.and_eq_true, beq_iff_eq, Bool.not_eq_true', List.contains_eq_mem, decide_eq_true_eq,
        decide_eq_false_iff_not] at hok
      obtain ⟨⟨⟨⟨rfl, hv⟩, hf⟩, hc⟩, hrest⟩ := hok
      have hlk := hinv.vars v hv
      have hfl := import_floating_eq σ fuel c l v (by simp [dictHas, hlk]) (by have := hinv.syms; simp only [] at this; simp [vdHas, dictHas, this])
        (fun h => hc (hinv.consts v h)) hinv.mvExp (by rw [hinv.mv, mvData_keys]; exact hf) hlk
      refine ⟨by simp [isConstant, isVariable, isFloating, hfl, step1, floatUpd], vs, fs ++ [v], ?_, hrest, rfl⟩
      refine ⟨hinv.vars, ?_, hinv.mvExp, hinv.syms, hinv.consts⟩
      have hm := hinv.mv
      simp only [] at hm
      simp only [step1, floatUpd, hm, mvData_append, mvData_length]
    | ax l ts =>
      simp only [ok1, Bool.and_eq_true] at hok
      refine ⟨by simp [isConstant, isVariable, isFloating, isAxiomatic, check_axiom_ax σ fuel c c._scope l ts hok.1, step1],
        vs, fs, ?_, hok.2, rfl⟩
      simp only [step1]
      have : ∀ c', c' = axUpd c l ts → Inv1 consts vs fs c' := by
        intro c' e
        subst e
        unfold axUpd
        split
        · split
          · exact ⟨hinv.vars, hinv.mv, hinv.mvExp, hinv.syms, hinv.consts⟩
          · split
            · exact ⟨hinv.vars, hinv.mv, hinv.mvExp, hinv.syms, hinv.consts⟩
            · exact hinv
        · exact hinv
      exact this _ rfl
    | prov l ts pf =>
      simp only [ok1] at hok
      exact ⟨by simp [isConstant, isVariable, isFloating, isAxiomatic, isProvable, step1], vs, fs, hinv, hok, rfl⟩
    | block ss =>
      simp only [ok1, Bool.and_eq_true] at hok
      cases hl : ss.getLast? with
      | none => simp [hl] at hok
      | some last =>
        have hlast := listLast_of_getLast? ss last hl
        cases last with
        | ax l ts =>
          simp only [hl] at hok
          refine ⟨by simp [isConstant, isVariable, isFloating, isAxiomatic, isProvable, isBlock, MStmt.statements, hlast,
            check_axiom_ax σ fuel c c._scope l ts hok.1, step1, hl], vs, fs, ?_, hok.2, by simp [step1, hl]⟩
          simp only [step1, hl]
          have : ∀ c', c' = axUpd c l ts → Inv1 consts vs fs c' := by
            intro c' e
            subst e
            unfold axUpd
            split
            · split
              · exact ⟨hinv.vars, hinv.mv, hinv.mvExp, hinv.syms, hinv.consts⟩
              · split
                · exact ⟨hinv.vars, hinv.mv, hinv.mvExp, hinv.syms, hinv.consts⟩
                · exact hinv
            · exact hinv
          exact this _ rfl
        | prov l ts pf =>
          refine ⟨by simp [isConstant, isVariable, isFloating, isAxiomatic, isProvable, isBlock, MStmt.statements, hlast, step1, hl],
            vs, fs, ?_, hok.2, by simp [step1, hl]⟩
          simpa [step1, hl] using hinv
        | const _ => simp [hl] at hok
        | var _ => simp [hl] at hok
        | disj _ => simp [hl] at hok
        | float _ _ _ => simp [hl] at hok
        | ess _ _ => simp [hl] at hok
        | block _ => simp [hl] at hok

end ConvTie
