import Pi2.MM.ConvCohRoles
/-!
# Coherence of the specification `dbOfCore` with the statements, as a THEOREM about every database of the shape `CoreShape`

`ConvTie.InFragment` / `ConvTie.InFragmentX` (the hypotheses of `C16.converter_text_is_the_model` /
`C16.translation_text_is_the_model`) consist of (i) the run conditions `InFragmentM`, (ii) the coherence of the OUTPUT of
`dbOfCore` with every statement, (iii) `db.wf`.  Here all three are derived from `MM.ConvSpec.CoreShape`
(`Pi2/MM/ConvShape.lean`), a predicate on the statements alone:

* `coherence`: `dbOfCore` accepts every database of the shape, and its output is coherent with every statement (`Coherent`: the
  conjuncts (ii) of `InFragment` and `InFragmentX`) and well formed (iii);
* `inFragmentM_of_shape`: the run conditions (i);
* `inFragmentConv_of_shape` (→ `InFragment`), `inFragmentX_of_shape` = `inFragment_of_shape` (→ `InFragmentX`).
-/
set_option linter.unusedSimpArgs false
set_option linter.unusedVariables false
set_option linter.unnecessarySimpa false
set_option linter.unusedSectionVars false
open MM SliceSup ConvSup Gen.MMConv

namespace ConvCoh
open ConvSpec ConvTie

theorem mapM_all2 {α β : Type} (f : α → Option β) (R : α → β → Prop) : ∀ (xs : List α),
    (∀ x ∈ xs, ∃ y, f x = some y ∧ R x y) → ∃ ys, xs.mapM f = some ys ∧ All2 R xs ys := by
  intro xs
  induction xs with
  | nil => intro _; exact ⟨[], rfl, .nil⟩
  | cons x xs ih =>
    intro h
    obtain ⟨y, hy, hr⟩ := h x (by simp)
    obtain ⟨ys, hys, hall⟩ := ih (fun z hz => h z (by simp [hz]))
    exact ⟨y :: ys, (mapM_cons_some f x xs _).mpr ⟨y, ys, hy, hys, rfl⟩, .cons hr hall⟩

/-! ## the hypothesis, unpacked -/
structure Shaped (mdb : MDb) (target : String) : Prop where
  floats : floatsShape (constsOf mdb) [] [] mdb = true
  stmts : ∀ st ∈ mdb, stmtShape (constsOf mdb) ((floatsOf mdb).map (·.2)) st = true
  labels : (labelsOf mdb).Nodup
  imp : ∃ st ∈ mdb, axHeadOf st = some ("imp-is-pattern", "#Pattern")
  p1 : ∃ st ∈ mdb, axHeadOf st = some ("proof-rule-prop-1", "|-")
  p2 : ∃ st ∈ mdb, axHeadOf st = some ("proof-rule-prop-2", "|-")
  mp : ∃ st ∈ mdb, axHeadOf st = some ("proof-rule-mp", "|-")
  prov : ∃ ts pf, mdb.filter isProv = [.prov target ts pf] ∧
    proofShape ((floatsOf mdb).map (·.1) ++ axLabelsOf mdb) pf = true

theorem shaped_of {mdb : MDb} {target : String} (h : CoreShape mdb target = true) : Shaped mdb target := by
  simp only [CoreShape, Bool.and_eq_true, List.all_eq_true, List.any_eq_true, decide_eq_true_eq, beq_iff_eq] at h
  obtain ⟨⟨⟨⟨⟨⟨⟨h1, h2⟩, h3⟩, h4⟩, h5⟩, h6⟩, h7⟩, h8⟩ := h
  refine ⟨h1, h2, h3, h4, h5, h6, h7, ?_⟩
  split at h8
  · rename_i l ts pf heq
    simp only [Bool.and_eq_true, beq_iff_eq] at h8
    obtain ⟨rfl, hp⟩ := h8
    exact ⟨ts, pf, heq, hp⟩
  · cases h8

section
variable {mdb : MDb} {target : String} (S : Shaped mdb target)
include S

theorem float_facts : ∀ l tc v, MStmt.float l tc v ∈ mdb →
    tc = "#Pattern" ∧ l = v ++ "-is-pattern" ∧ v ∈ varsOf mdb ∧ v ∉ constsOf mdb ∧ reserved v = false := by
  intro l tc v hm
  simpa using floatsShape_mem _ mdb [] [] S.floats l tc v hm

theorem fs_declared : ∀ v ∈ (floatsOf mdb).map (·.2), v ∈ (namesOf mdb).vars := by
  intro v hv
  obtain ⟨p, hp, rfl⟩ := List.mem_map.mp hv
  obtain ⟨tc, hm⟩ := (floatsOf_mem mdb p.1 p.2).mp hp
  exact (float_facts S _ _ _ hm).2.2.1

theorem fs_unreserved : ∀ v ∈ (floatsOf mdb).map (·.2), reserved v = false := by
  intro v hv
  obtain ⟨p, hp, rfl⟩ := List.mem_map.mp hv
  obtain ⟨tc, hm⟩ := (floatsOf_mem mdb p.1 p.2).mp hp
  exact (float_facts S _ _ _ hm).2.2.2.2

/-- the roles of the statements -/
theorem roles_exist : ∃ roles, mdb.mapM (roleOfStmt (namesOf mdb)) = some roles ∧
    All2 (Rel (namesOf mdb) ((floatsOf mdb).map (·.2))) mdb roles := by
  apply mapM_all2
  intro st hst
  refine stmt_role (namesOf mdb) _ (fs_declared S) (fs_unreserved S) st (S.stmts st hst) ?_
  intro l tc v e
  subst e
  have := float_facts S l tc v hst
  exact ⟨this.1, this.2.2.1⟩

end

/-! ## statements and roles, list by list -/
def tblLabel : MStmt → Option String
  | .float l _ _ => some l
  | st => (axHeadOf st).map (·.1)

/-- the label of a `$f`, `$a` or `$p` statement -/
def lbl3 : MStmt → Option String
  | .float l _ _ => some l
  | .prov l _ _ => some l
  | st => (axHeadOf st).map (·.1)

def flbl : MStmt → Option String
  | .float l _ _ => some l
  | _ => none

def albl (st : MStmt) : Option String := (axHeadOf st).map (·.1)

theorem item_not_float {st : MStmt} {x : Bool × List (String × MTerm) × String × String × MTerm} (h : axParts st = some x) :
    (∀ r, floatsOf (st :: r) = floatsOf r) ∧ tblLabel st = (axHeadOf st).map (·.1) ∧ isProv st = false := by
  cases st <;> first | (simp [axParts] at h; done) | simp [floatsOf, tblLabel, isProv]

theorem roleItem_not_float {r : Role} {x : String × Bool × List MM.Term × MM.Term} (h : roleItem r = some x) :
    floatVar? r = none ∧ (∀ l g pf, r ≠ .lemma l g pf) := by
  cases r <;> simp [roleItem] at h <;> simp [floatVar?]

section
variable {nm : Names} {fs : List String}

theorem rel_floats {mdb : MDb} {roles : List Role} (h : All2 (Rel nm fs) mdb roles) :
    roles.filterMap floatVar? = (floatsOf mdb).map (fun p => nm.vars.idxOf p.2) := by
  induction h with
  | nil => rfl
  | cons hr _ ih =>
    cases hr with
    | const cs => simpa [List.filterMap_cons, floatVar?, floatsOf] using ih
    | var vs => simpa [List.filterMap_cons, floatVar?, floatsOf] using ih
    | float l tc v hv => simpa [List.filterMap_cons, floatVar?, floatsOf] using ih
    | prov l t T pf _ _ => simpa [List.filterMap_cons, floatVar?, floatsOf] using ih
    | item st r hf =>
      obtain ⟨pl, eh, l, tcs, t, T, Hs, hparts, _, _, hitem, _⟩ := hf.parts
      rw [(item_not_float hparts).1, List.filterMap_cons, (roleItem_not_float hitem).1]
      exact ih

theorem rel_labels {mdb : MDb} {roles : List Role} (h : All2 (Rel nm fs) mdb roles) :
    roles.filterMap roleLabel = mdb.filterMap tblLabel := by
  induction h with
  | nil => rfl
  | cons hr _ ih =>
    cases hr with
    | const cs => simpa [List.filterMap_cons, roleLabel, tblLabel, axHeadOf] using ih
    | var vs => simpa [List.filterMap_cons, roleLabel, tblLabel, axHeadOf] using ih
    | float l tc v hv => simpa [List.filterMap_cons, roleLabel, tblLabel, axHeadOf] using ih
    | prov l t T pf _ _ => simpa [List.filterMap_cons, roleLabel, tblLabel, axHeadOf] using ih
    | item st r hf =>
      obtain ⟨pl, eh, l, tcs, t, T, Hs, hparts, _, _, hitem, _, _, _, _, hhead⟩ := hf.parts
      rw [List.filterMap_cons, List.filterMap_cons, roleItem_label _ _ hitem, (item_not_float hparts).2.1, hhead]
      simp [ih]

end

theorem getLast_label {ss : List MStmt} {x : MStmt} {l : String} (h : ss.getLast? = some x) (hl : innerLabel x = some l) :
    [l].Sublist (ss.filterMap innerLabel) := by
  have hne : ss ≠ [] := by intro e; subst e; simp at h
  have h2 : ss.getLast hne = x := by
    have := List.getLast?_eq_some_getLast hne
    rw [this] at h
    exact Option.some.inj h
  rw [← List.dropLast_concat_getLast hne, h2, List.filterMap_append]
  simp [List.filterMap_cons, hl]

theorem lbl3_sublist : ∀ mdb : MDb, (mdb.filterMap lbl3).Sublist (labelsOf mdb) := by
  intro mdb
  induction mdb with
  | nil => exact .slnil
  | cons st mdb ih =>
    have step : ∀ (L : List String), (lbl3 st).toList.Sublist L →
        ((st :: mdb).filterMap lbl3).Sublist (L ++ labelsOf mdb) := by
      intro L hs
      cases h : lbl3 st with
      | none => rw [List.filterMap_cons_none h]; exact List.Sublist.trans ih (List.sublist_append_right _ _)
      | some b =>
        rw [List.filterMap_cons_some h]
        rw [h] at hs
        exact List.Sublist.append hs ih
    cases st with
    | const _ => simpa [labelsOf, innerLabel, lbl3, axHeadOf] using step [] (by simp [lbl3, axHeadOf])
    | var _ => simpa [labelsOf, innerLabel, lbl3, axHeadOf] using step [] (by simp [lbl3, axHeadOf])
    | disj _ => simpa [labelsOf, innerLabel, lbl3, axHeadOf] using step [] (by simp [lbl3, axHeadOf])
    | ess l ts =>
      have : labelsOf (.ess l ts :: mdb) = [l] ++ labelsOf mdb := by simp [labelsOf, innerLabel]
      rw [this]
      exact step [l] (by simp [lbl3, axHeadOf])
    | float l tc v =>
      have : labelsOf (.float l tc v :: mdb) = [l] ++ labelsOf mdb := by simp [labelsOf, innerLabel]
      rw [this]
      exact step [l] (by simp [lbl3])
    | prov l ts pf =>
      have : labelsOf (.prov l ts pf :: mdb) = [l] ++ labelsOf mdb := by simp [labelsOf, innerLabel]
      rw [this]
      exact step [l] (by simp [lbl3])
    | ax l ts =>
      have : labelsOf (.ax l ts :: mdb) = [l] ++ labelsOf mdb := by simp [labelsOf, innerLabel]
      rw [this]
      refine step [l] ?_
      cases h : lbl3 (.ax l ts) with
      | none => simp
      | some b =>
        have : b = l := by
          simp only [lbl3] at h
          unfold axHeadOf at h
          split at h
          · rename_i heq; cases heq; simp at h; exact h.symm
          · rename_i heq; cases heq
          · simp at h
        subst this
        simp
    | block ss =>
      have : labelsOf (.block ss :: mdb) = ss.filterMap innerLabel ++ labelsOf mdb := by simp [labelsOf]
      rw [this]
      refine step _ ?_
      cases h : lbl3 (.block ss) with
      | none => simp
      | some b =>
        simp only [lbl3, axHeadOf] at h
        split at h
        · rename_i l tc rest hlast
          simp at h
          subst h
          simpa using getLast_label hlast rfl
        · simp at h

/-! ## a role's entry in the label table and its assertion in the model database -/
mutual
theorem term_beq_self : (a : MM.Term) → Term.beq a a = true
  | .var _ => by simp [Term.beq]
  | .imp a b => by simp [Term.beq, term_beq_self a, term_beq_self b]
  | .app a b => by simp [Term.beq, term_beq_self a, term_beq_self b]
  | .con _ xs => by simp [Term.beq, terms_beq_self xs]
theorem terms_beq_self : (xs : List MM.Term) → Term.beqList xs xs = true
  | [] => rfl
  | x :: xs => by simp [Term.beqList, term_beq_self x, terms_beq_self xs]
end

theorem hypsAre_self : ∀ Hs : List MM.Term, hypsAre (Hs.map (⟨true, ·⟩)) Hs = true := by
  intro Hs
  induction Hs with
  | nil => rfl
  | cons H Hs ih => simp [hypsAre, term_beq_self, ih]

theorem find_unique {β : Type} (rs : List Role) (f : Role → Option β) (hnd : (rs.filterMap roleLabel).Nodup) (r : Role) (hr : r ∈ rs)
    (k : String) (hk : roleLabel r = some k) (hf : ∀ r', (f r').isSome = true → roleLabel r' = some k) (x : β) (hx : f r = some x) :
    rs.findSome? f = some x := by
  have hsome : (rs.findSome? f).isSome = true := List.findSome?_isSome_iff.mpr ⟨r, hr, by simp [hx]⟩
  cases h : rs.findSome? f with
  | none => simp [h] at hsome
  | some y =>
    obtain ⟨r', hr', hy⟩ := List.exists_of_findSome?_eq_some h
    have := nodup_filterMap_inj roleLabel rs hnd r' hr' r hr k (hf r' (by simp [hy])) hk
    subst this
    rw [hx] at hy
    exact hy.symm ▸ rfl

/-- the label of a role of the table is looked up to an `Lbl` whose assertion in the model database is the role's content -/
theorem role_entry (rs : List Role) (db : DB) (hdb : dbOfRoles rs = some db) (hnd : (rs.filterMap roleLabel).Nodup)
    (r : Role) (hr : r ∈ rs) (l : String) (thm : Bool) (Hs : List MM.Term) (T : MM.Term) (hitem : roleItem r = some (l, thm, Hs, T))
    (hnp : ∀ l' rr, r = .rule l' rr → strStartsWith l' "proof-rule-" = false) :
    ∃ lbl, (tableOf rs 0 0).lookup l = some lbl ∧
      db.assertion lbl = some ⟨db.mandOf (Hs ++ [T]), Hs.map (⟨true, ·⟩), ⟨thm, T⟩⟩ ∧
      isPC lbl = !thm ∧ isPR lbl = (thm && strStartsWith l "proof-rule-") ∧ isRuleL lbl = (thm && !strStartsWith l "proof-rule-") := by
  obtain ⟨imp, p1, p2, mp, himp, hp1, hp2, hmp, rfl⟩ := dbOfRoles_some rs db hdb
  have hkeys : ((tableOf rs 0 0).map (·.1)).Nodup := by rw [table_keys]; exact hnd
  have look : ∀ e, e ∈ tableOf rs 0 0 → (tableOf rs 0 0).lookup e.1 = some e.2 := fun e he => lookup_of_mem_nodup _ e.1 e.2 he hkeys
  cases r with
  | tokens => simp [roleItem] at hitem
  | lemma _ _ _ => simp [roleItem] at hitem
  | float _ _ => simp [roleItem] at hitem
  | imp a b =>
    simp only [roleItem, Option.some.injEq, Prod.mk.injEq] at hitem
    obtain ⟨rfl, rfl, rfl, rfl⟩ := hitem
    have hent := look _ (table_mem_fixed rs 0 0 _ _ hr rfl)
    have hfind := find_unique rs impOf? hnd _ hr "imp-is-pattern" rfl
      (by intro r' h; cases r' <;> simp [impOf?] at h <;> rfl) (a, b) rfl
    rw [himp] at hfind
    cases hfind
    exact ⟨.impC, hent, rfl, rfl, rfl, rfl⟩
  | app a b =>
    simp only [roleItem, Option.some.injEq, Prod.mk.injEq] at hitem
    obtain ⟨rfl, rfl, rfl, rfl⟩ := hitem
    have hent := look _ (table_mem_fixed rs 0 0 _ _ hr rfl)
    have hfind := find_unique rs appOf? hnd _ hr "app-is-pattern" rfl
      (by intro r' h; cases r' <;> simp [appOf?] at h <;> rfl) (a, b) rfl
    refine ⟨.appC, hent, ?_, rfl, rfl, rfl⟩
    simp [DB.assertion, hfind]
  | p1 a b =>
    simp only [roleItem, Option.some.injEq, Prod.mk.injEq] at hitem
    obtain ⟨rfl, rfl, rfl, rfl⟩ := hitem
    have hent := look _ (table_mem_fixed rs 0 0 _ _ hr rfl)
    have hfind := find_unique rs p1Of? hnd _ hr "proof-rule-prop-1" rfl
      (by intro r' h; cases r' <;> simp [p1Of?] at h <;> rfl) (a, b) rfl
    rw [hp1] at hfind
    cases hfind
    exact ⟨.p1, hent, rfl, rfl, by decide, by decide⟩
  | p2 a b c =>
    simp only [roleItem, Option.some.injEq, Prod.mk.injEq] at hitem
    obtain ⟨rfl, rfl, rfl, rfl⟩ := hitem
    have hent := look _ (table_mem_fixed rs 0 0 _ _ hr rfl)
    have hfind := find_unique rs p2Of? hnd _ hr "proof-rule-prop-2" rfl
      (by intro r' h; cases r' <;> simp [p2Of?] at h <;> rfl) (a, b, c) rfl
    rw [hp2] at hfind
    cases hfind
    exact ⟨.p2, hent, rfl, rfl, by decide, by decide⟩
  | mp a b =>
    simp only [roleItem, Option.some.injEq, Prod.mk.injEq] at hitem
    obtain ⟨rfl, rfl, rfl, rfl⟩ := hitem
    have hent := look _ (table_mem_fixed rs 0 0 _ _ hr rfl)
    have hfind := find_unique rs mpOf? hnd _ hr "proof-rule-mp" rfl
      (by intro r' h; cases r' <;> simp [mpOf?] at h <;> rfl) (a, b) rfl
    rw [hmp] at hfind
    cases hfind
    exact ⟨.mp, hent, rfl, rfl, by decide, by decide⟩
  | ctor l' c =>
    simp only [roleItem, Option.some.injEq, Prod.mk.injEq] at hitem
    obtain ⟨rfl, rfl, rfl, rfl⟩ := hitem
    obtain ⟨k, hk, hc⟩ := table_mem_ctor rs 0 0 _ _ hr
    have hent := look _ hk
    refine ⟨.ctor (0 + k), hent, ?_, rfl, rfl, rfl⟩
    simp [DB.assertion, hc]
  | rule l' rr =>
    simp only [roleItem, Option.some.injEq, Prod.mk.injEq] at hitem
    obtain ⟨rfl, rfl, rfl, rfl⟩ := hitem
    obtain ⟨k, hk, hc⟩ := table_mem_rule rs 0 0 _ _ hr
    have hent := look _ hk
    have := hnp _ _ rfl
    refine ⟨.rule (0 + k), hent, ?_, rfl, by simp [isPR, this], by simp [isRuleL, this]⟩
    simp [DB.assertion, hc]

/-! ## the roles of a database of the shape -/
structure Roles (mdb : MDb) (roles : List Role) : Prop where
  map : mdb.mapM (roleOfStmt (namesOf mdb)) = some roles
  rel : All2 (Rel (namesOf mdb) ((floatsOf mdb).map (·.2))) mdb roles

theorem floatsShape_nodup (K : List String) : ∀ (mdb : MDb) (vs fs : List String), floatsShape K vs fs mdb = true → fs.Nodup →
    (fs ++ (floatsOf mdb).map (·.2)).Nodup := by
  intro mdb
  induction mdb with
  | nil => intro vs fs _ h; simpa [floatsOf] using h
  | cons st mdb ih =>
    intro vs fs hsh hnd
    cases st with
    | float l tc v =>
      simp only [floatsShape, Bool.and_eq_true, Bool.not_eq_true', List.contains_eq_mem, decide_eq_false_iff_not] at hsh
      have := ih vs (fs ++ [v]) hsh.2 (by
        rw [List.nodup_append]
        refine ⟨hnd, by simp, ?_⟩
        intro a ha b hb
        simp at hb; subst hb
        intro e; subst e
        exact hsh.1.1.1.2 ha)
      simpa [floatsOf, List.append_assoc] using this
    | var ws => simp only [floatsShape] at hsh; simpa [floatsOf] using ih _ fs hsh hnd
    | const _ => simp only [floatsShape] at hsh; simpa [floatsOf] using ih _ fs hsh hnd
    | disj _ => simp only [floatsShape] at hsh; simpa [floatsOf] using ih _ fs hsh hnd
    | ess _ _ => simp only [floatsShape] at hsh; simpa [floatsOf] using ih _ fs hsh hnd
    | ax _ _ => simp only [floatsShape] at hsh; simpa [floatsOf] using ih _ fs hsh hnd
    | prov _ _ _ => simp only [floatsShape] at hsh; simpa [floatsOf] using ih _ fs hsh hnd
    | block _ => simp only [floatsShape] at hsh; simpa [floatsOf] using ih _ fs hsh hnd

section
variable {mdb : MDb} {target : String} (S : Shaped mdb target) {roles : List Role} (R : Roles mdb roles)
include S R

theorem fs_nodup : ((floatsOf mdb).map (·.2)).Nodup := by
  simpa using floatsShape_nodup _ mdb [] [] S.floats (by simp)

theorem keys_nodup : (roles.filterMap roleLabel).Nodup := by
  rw [rel_labels R.rel]
  refine (sublist_filterMap_le tblLabel lbl3 ?_ mdb).nodup ((lbl3_sublist mdb).nodup S.labels)
  intro x b h
  cases x <;> simp [tblLabel, lbl3, axHeadOf] at h ⊢ <;> exact h

/-- a statement with the head `l $a tc …` has a role whose item has the label `l` -/
theorem head_role (l tc : String) (h : ∃ st ∈ mdb, axHeadOf st = some (l, tc)) :
    ∃ st ∈ mdb, ∃ r ∈ roles, ItemFacts (namesOf mdb) ((floatsOf mdb).map (·.2)) st r ∧ axHeadOf st = some (l, tc) := by
  obtain ⟨st, hst, hh⟩ := h
  obtain ⟨r, hr, hrel⟩ := forall2_mem_left R.rel st hst
  cases hrel with
  | const _ => simp [axHeadOf] at hh
  | var _ => simp [axHeadOf] at hh
  | float _ _ _ _ => simp [axHeadOf] at hh
  | prov _ _ _ _ _ _ => simp [axHeadOf] at hh
  | item _ _ hf => exact ⟨st, hst, r, hr, hf, hh⟩

theorem db_exists : ∃ db, dbOfRoles roles = some db := by
  have himp : (roles.findSome? impOf?).isSome = true := by
    obtain ⟨st, _, r, hr, hf, hh⟩ := head_role S R _ _ S.imp
    obtain ⟨pl, eh, l, tcs, t, T, Hs, _, _, _, hitem, _, _, _, _, hhead⟩ := hf.parts
    rw [hh] at hhead
    simp only [Option.some.injEq, Prod.mk.injEq] at hhead
    obtain ⟨rfl, rfl⟩ := hhead
    refine List.findSome?_isSome_iff.mpr ⟨r, hr, ?_⟩
    cases r <;> simp [roleItem] at hitem <;> try rfl
    · have := (hf.ctorl _ _ rfl).1
      exact absurd hitem.1 this
  have hp1 : (roles.findSome? p1Of?).isSome = true := by
    obtain ⟨st, _, r, hr, hf, hh⟩ := head_role S R _ _ S.p1
    obtain ⟨pl, eh, l, tcs, t, T, Hs, _, _, _, hitem, _, _, _, _, hhead⟩ := hf.parts
    rw [hh] at hhead
    simp only [Option.some.injEq, Prod.mk.injEq] at hhead
    obtain ⟨rfl, rfl⟩ := hhead
    refine List.findSome?_isSome_iff.mpr ⟨r, hr, ?_⟩
    cases r <;> simp [roleItem] at hitem <;> try rfl
    · have := hf.notpr _ _ rfl
      rw [hitem.1] at this
      exact absurd this (by decide)
  have hp2 : (roles.findSome? p2Of?).isSome = true := by
    obtain ⟨st, _, r, hr, hf, hh⟩ := head_role S R _ _ S.p2
    obtain ⟨pl, eh, l, tcs, t, T, Hs, _, _, _, hitem, _, _, _, _, hhead⟩ := hf.parts
    rw [hh] at hhead
    simp only [Option.some.injEq, Prod.mk.injEq] at hhead
    obtain ⟨rfl, rfl⟩ := hhead
    refine List.findSome?_isSome_iff.mpr ⟨r, hr, ?_⟩
    cases r <;> simp [roleItem] at hitem <;> try rfl
    · have := hf.notpr _ _ rfl
      rw [hitem.1] at this
      exact absurd this (by decide)
  have hmp : (roles.findSome? mpOf?).isSome = true := by
    obtain ⟨st, _, r, hr, hf, hh⟩ := head_role S R _ _ S.mp
    obtain ⟨pl, eh, l, tcs, t, T, Hs, _, _, _, hitem, _, _, _, _, hhead⟩ := hf.parts
    rw [hh] at hhead
    simp only [Option.some.injEq, Prod.mk.injEq] at hhead
    obtain ⟨rfl, rfl⟩ := hhead
    refine List.findSome?_isSome_iff.mpr ⟨r, hr, ?_⟩
    cases r <;> simp [roleItem] at hitem <;> try rfl
    · have := hf.notpr _ _ rfl
      rw [hitem.1] at this
      exact absurd this (by decide)
  rw [dbOfRoles_eq]
  obtain ⟨a, ha⟩ := Option.isSome_iff_exists.mp himp
  obtain ⟨b, hb⟩ := Option.isSome_iff_exists.mp hp1
  obtain ⟨c, hc⟩ := Option.isSome_iff_exists.mp hp2
  obtain ⟨d, hd⟩ := Option.isSome_iff_exists.mp hmp
  simp only [ha, hb, hc, hd, Option.bind_some]
  exact ⟨_, rfl⟩

theorem roles_wf : ∀ r ∈ roles, roleWF (((floatsOf mdb).map (·.2)).map (namesOf mdb).vars.idxOf) r := by
  intro r hr
  obtain ⟨st, _, hrel⟩ := forall2_mem_right R.rel r hr
  cases hrel with
  | const _ => trivial
  | var _ => trivial
  | float _ _ _ _ => trivial
  | prov _ _ _ _ _ _ => trivial
  | item _ _ hf => exact hf.wf

theorem db_floats (db : DB) (hdb : dbOfRoles roles = some db) :
    db.floats = ((floatsOf mdb).map (·.2)).map (namesOf mdb).vars.idxOf := by
  obtain ⟨imp, p1, p2, mp, _, _, _, _, rfl⟩ := dbOfRoles_some roles db hdb
  simp only [rel_floats R.rel, List.map_map]
  rfl

theorem db_plain (db : DB) (hdb : dbOfRoles roles = some db) : ∀ c ∈ db.ctors, c.body = none := by
  have hwf := roles_wf S R
  obtain ⟨imp, p1, p2, mp, _, _, _, _, hdbeq⟩ := dbOfRoles_some roles db hdb
  have e3 : db.ctors = roles.filterMap ctorOf? := by rw [hdbeq]
  intro c hc
  rw [e3] at hc
  obtain ⟨r, hr, hx⟩ := List.mem_filterMap.mp hc
  have := hwf r hr
  cases r <;> simp [ctorOf?] at hx
  subst hx; exact this.2.2

theorem db_wf (db : DB) (hdb : dbOfRoles roles = some db) : db.wf = true := by
  have hpl := db_plain S R db hdb
  have hfl := db_floats S R db hdb
  have hwf := roles_wf S R
  rw [← hfl] at hwf
  have hnd : db.floats.Nodup := by rw [hfl]; exact nodup_map_idxOf _ _ (fs_nodup S R) (fs_declared S)
  obtain ⟨imp, p1, p2, mp, himp, hp1, hp2, hmp, hdbeq⟩ := dbOfRoles_some roles db hdb
  have wimp : imp.1 ≠ imp.2 ∧ imp.1 ∈ db.floats ∧ imp.2 ∈ db.floats := by
    obtain ⟨r, hr, hx⟩ := List.exists_of_findSome?_eq_some himp
    have := hwf r hr
    cases r <;> simp [impOf?] at hx
    subst hx; exact this
  have wp1 : p1.1 ≠ p1.2 ∧ p1.1 ∈ db.floats ∧ p1.2 ∈ db.floats := by
    obtain ⟨r, hr, hx⟩ := List.exists_of_findSome?_eq_some hp1
    have := hwf r hr
    cases r <;> simp [p1Of?] at hx
    subst hx; exact this
  have wmp : mp.1 ≠ mp.2 ∧ mp.1 ∈ db.floats ∧ mp.2 ∈ db.floats := by
    obtain ⟨r, hr, hx⟩ := List.exists_of_findSome?_eq_some hmp
    have := hwf r hr
    cases r <;> simp [mpOf?] at hx
    subst hx; exact this
  have wp2 : (p2.1 ≠ p2.2.1 ∧ p2.1 ≠ p2.2.2 ∧ p2.2.1 ≠ p2.2.2) ∧ p2.1 ∈ db.floats ∧ p2.2.1 ∈ db.floats ∧ p2.2.2 ∈ db.floats := by
    obtain ⟨r, hr, hx⟩ := List.exists_of_findSome?_eq_some hp2
    have := hwf r hr
    cases r <;> simp [p2Of?] at hx
    subst hx; exact this
  have wapp : ((roles.findSome? appOf?).getD imp).1 ≠ ((roles.findSome? appOf?).getD imp).2 ∧
      ((roles.findSome? appOf?).getD imp).1 ∈ db.floats ∧ ((roles.findSome? appOf?).getD imp).2 ∈ db.floats := by
    cases happ : roles.findSome? appOf? with
    | none => simpa using wimp
    | some x =>
      obtain ⟨r, hr, hx⟩ := List.exists_of_findSome?_eq_some happ
      have := hwf r hr
      cases r <;> simp [appOf?] at hx
      subst hx; exact this
  have wct : ∀ c ∈ roles.filterMap ctorOf?, c.args.Nodup ∧ ∀ v ∈ c.args, v ∈ db.floats := by
    intro c hc
    obtain ⟨r, hr, hx⟩ := List.mem_filterMap.mp hc
    have := hwf r hr
    cases r <;> simp [ctorOf?] at hx
    subst hx; exact ⟨this.1, this.2.1⟩
  have wru : ∀ c ∈ roles.filterMap ruleOf?, ∀ v ∈ Term.varsList (c.hyps ++ [c.concl]), v ∈ db.floats := by
    intro c hc
    obtain ⟨r, hr, hx⟩ := List.mem_filterMap.mp hc
    have := hwf r hr
    cases r <;> simp [ruleOf?] at hx
    subst hx; exact this
  have e1 : db.impArgs = imp := by rw [hdbeq]
  have e2 : db.appArgs = (roles.findSome? appOf?).getD imp := by rw [hdbeq]
  have e3 : db.ctors = roles.filterMap ctorOf? := by rw [hdbeq]
  have e4 : db.rules = roles.filterMap ruleOf? := by rw [hdbeq]
  have e5 : db.p1 = p1 := by rw [hdbeq]
  have e6 : db.p2 = p2 := by rw [hdbeq]
  have e7 : db.mp = mp := by rw [hdbeq]
  unfold DB.wf
  rw [DB.notOk_plain db hpl, Bool.and_true]
  unfold DB.wf0
  rw [e1, e2, e3, e4, e5, e6, e7]
  simp only [Bool.and_eq_true, decide_eq_true_eq, List.all_eq_true, List.contains_eq_mem]
  refine ⟨⟨⟨⟨⟨⟨⟨hnd, ?_⟩, ?_⟩, ?_⟩, ?_⟩, ?_⟩, ?_⟩, ?_⟩
  · simpa using wimp
  · simpa using wapp
  · intro c hc; exact ⟨(wct c hc).1, (wct c hc).2⟩
  · exact wru
  · simpa using wp1
  · simp only [List.nodup_cons, List.mem_cons, List.not_mem_nil, or_false, not_or, List.nodup_nil, and_true, not_false_eq_true,
      forall_eq_or_imp, forall_eq, List.forall_mem_ne', implies_true]
    exact ⟨⟨⟨wp2.1.1, wp2.1.2.1⟩, wp2.1.2.2⟩, wp2.2.1, wp2.2.2.1, wp2.2.2.2⟩
  · simpa using wmp

/-- the `$f` statements in the label table -/
theorem float_entry (l v : String) (h : (l, v) ∈ floatsOf mdb) :
    (tableOf roles 0 0).lookup l = some (Lbl.float ((namesOf mdb).vars.idxOf v)) := by
  obtain ⟨tc, hm⟩ := (floatsOf_mem mdb l v).mp h
  obtain ⟨r, hr, hrel⟩ := forall2_mem_left R.rel _ hm
  have hkeys : ((tableOf roles 0 0).map (·.1)).Nodup := by rw [table_keys]; exact keys_nodup S R
  cases hrel with
  | float _ _ _ hv => exact lookup_of_mem_nodup _ _ _ (table_mem_fixed roles 0 0 _ _ hr rfl) hkeys
  | item _ _ hf =>
    obtain ⟨pl, eh, l', tcs, t, T, Hs, hparts, _⟩ := hf.parts
    simp [axParts] at hparts

theorem floats_coherent (db : DB) (hdb : dbOfRoles roles = some db) (goal : MM.Term) (labels : List Lbl) (steps : List Nat) :
    coherentFloats ⟨namesOf mdb, roles, db, tableOf roles 0 0, goal, labels, steps⟩ mdb = true := by
  simp only [coherentFloats, coherentFloats0, Bool.and_eq_true, List.all_eq_true, decide_eq_true_eq, List.contains_eq_mem, ← floatsOf_eq]
  refine ⟨⟨?_, db_floats S R db hdb⟩, ?_⟩
  · intro p hp
    exact ⟨fs_declared S p.2 (List.mem_map.mpr ⟨p, hp, rfl⟩), float_entry S R p.1 p.2 hp⟩
  · intro c hc
    simp [db_plain S R db hdb c hc]

/-- every `$a` statement: the label table gives its label the `Lbl` of the right kind, whose assertion is the statement's content -/
theorem item_coherent (db : DB) (hdb : dbOfRoles roles = some db) (goal : MM.Term) (labels : List Lbl) (steps : List Nat)
    (st : MStmt) (hst : st ∈ mdb) (hax : isAxItem st = true) :
    coherentItem ⟨namesOf mdb, roles, db, tableOf roles 0 0, goal, labels, steps⟩ st = true := by
  obtain ⟨r, hr, hrel⟩ := forall2_mem_left R.rel _ hst
  cases hrel with
  | const _ => simp [isAxItem] at hax
  | var _ => simp [isAxItem] at hax
  | float _ _ _ _ => simp [isAxItem] at hax
  | prov _ _ _ _ _ _ => simp [isAxItem] at hax
  | item _ _ hf =>
    obtain ⟨pl, eh, l, tcs, t, T, Hs, hparts, hT, hHs, hitem, htcs, _⟩ := hf.parts
    obtain ⟨lbl, hlk, hass, f1, f2, f3⟩ := role_entry roles db hdb (keys_nodup S R) r hr l _ Hs T hitem hf.notpr
    simp only [coherentItem, hparts, hlk, hT, hHs, hass, decide_true, hypsAre_self, beq_self_eq_true, term_beq_self, Bool.and_true,
      Bool.true_and, f1, f2, f3]
    rcases htcs with rfl | rfl
    · simp
    · simp

end

/-! ## the compressed proof -/
theorem joinToks_eq : ∀ ts : List (List Char), ConvSup.joinToks ts = ImportTie.joinToks ts := by
  intro ts
  induction ts with
  | nil => rfl
  | cons t ts ih =>
    cases ts with
    | nil => rfl
    | cons u us => simp only [ConvSup.joinToks, ImportTie.joinToks, ih]

theorem parseLabels_inv : ∀ (rest acc labels body : List String), parseLabels rest acc = some (labels, body) →
    ∃ ls, labels = acc.reverse ++ ls ∧ rest = ls ++ ")" :: body := by
  intro rest
  induction rest with
  | nil => intro acc labels body h; simp [parseLabels] at h
  | cons x rest ih =>
    intro acc labels body h
    unfold parseLabels at h
    split at h
    · rename_i heq; cases heq
    · rename_i r a heq
      simp only [List.cons.injEq] at heq
      obtain ⟨rfl, rfl⟩ := heq
      simp only [Option.some.injEq, Prod.mk.injEq] at h
      obtain ⟨rfl, rfl⟩ := h
      exact ⟨[], by simp, by simp⟩
    · rename_i l r a hne heq
      simp only [List.cons.injEq] at heq
      obtain ⟨rfl, rfl⟩ := heq
      obtain ⟨ls, h1, h2⟩ := ih _ _ _ h
      exact ⟨x :: ls, by simp [h1], by simp [h2]⟩

theorem tokChar_notspace (c : Char) (h : tokChar c = true) : ImpSup.pyIsSpace c = false := by
  simp only [tokChar, Bool.and_eq_true, decide_eq_true_eq] at h
  simp only [ImpSup.pyIsSpace, Bool.or_eq_false_iff, Bool.and_eq_false_iff, decide_eq_false_iff_not, beq_eq_false_iff_ne]
  omega

theorem labelTok_ok (l : String) (h : labelTok l = true) : ImportTie.LabelOK l.toList := by
  simp only [labelTok, Bool.and_eq_true, Bool.not_eq_true', List.isEmpty_eq_false_iff, List.all_eq_true] at h
  refine ⟨h.1, ?_⟩
  intro c hc
  have := h.2 c hc
  simp only [labelChar, Bool.or_eq_true, Bool.and_eq_true, decide_eq_true_eq, beq_iff_eq] at this
  constructor
  · simp only [ImpSup.pyIsSpace, Bool.or_eq_false_iff, Bool.and_eq_false_iff, decide_eq_false_iff_not, beq_eq_false_iff_ne]
    omega
  · intro e
    subst e
    have h41 : (')' : Char).toNat = 41 := by decide
    rw [h41] at this
    omega

theorem numbered_keys : ∀ (k : Nat) (xs : List (List Char)),
    (ImportTie.numbered k xs).map (·.1) = (List.range xs.length).map (· + k) := by
  intro k xs
  induction xs generalizing k with
  | nil => rfl
  | cons x xs ih =>
    simp only [ImportTie.numbered, List.map_cons, List.length_cons, List.range_succ_eq_map, List.map_map, ih (k + 1)]
    simp only [Nat.zero_add, List.cons.injEq, true_and]
    apply List.map_congr_left
    intro a _
    simp only [Function.comp, Nat.succ_eq_add_one]
    omega

theorem numbered_mapM {β : Type} (f : String → Option β) : ∀ (k : Nat) (xs : List String),
    (ImportTie.numbered k (xs.map String.toList)).mapM (fun p => f (String.ofList p.2)) = xs.mapM f := by
  intro k xs
  induction xs generalizing k with
  | nil => rfl
  | cons x xs ih =>
    simp only [List.map_cons, ImportTie.numbered, List.mapM_cons, ih (k + 1), String.ofList_toList]

theorem numbered_length' : ∀ (k : Nat) (xs : List (List Char)), (ImportTie.numbered k xs).length = xs.length := by
  intro k xs
  induction xs generalizing k with
  | nil => rfl
  | cons x xs ih => simp [ImportTie.numbered, ih]

theorem lookup_isSome_of_key {β : Type} : ∀ (tbl : List (String × β)) (k : String), k ∈ tbl.map (·.1) → ∃ v, tbl.lookup k = some v := by
  intro tbl
  induction tbl with
  | nil => intro k h; simp at h
  | cons p tbl ih =>
    intro k h
    obtain ⟨k0, v0⟩ := p
    by_cases e : k = k0
    · subst e; exact ⟨v0, by simp [List.lookup]⟩
    · have : (k == k0) = false := by simp [e]
      simp only [List.lookup, this]
      simp only [List.map_cons, List.mem_cons] at h
      exact ih k (h.resolve_left e)

theorem mapM_map_some {α β γ : Type} (f : β → Option γ) (g : α → β) (h : α → γ) : ∀ (xs : List α),
    (∀ x ∈ xs, f (g x) = some (h x)) → (xs.map g).mapM f = some (xs.map h) := by
  intro xs
  induction xs with
  | nil => intro _; rfl
  | cons x xs ih =>
    intro hx
    rw [List.map_cons, List.mapM_cons, hx x (by simp), ih (fun y hy => hx y (by simp [hy]))]
    rfl

/-! ## the target and `dbOfCore` -/
def lemmaOf? (target : String) : Role → Option (MM.Term × List String)
  | .lemma l g pf => if l = target then some (g, pf) else none
  | _ => none

def floatLbl? (v : Nat) : Role → Option String
  | .float l w => if w = v then some l else none
  | _ => none

theorem floatLabel_eq (rs : List Role) (v : Nat) : floatLabel rs v = rs.findSome? (floatLbl? v) := rfl

theorem dbOfMDb_eq (mdb : MDb) (target : String) : dbOfCore mdb target =
    ((mdb.mapM (declOf (namesOf mdb))).bind fun decls => decls.mapM roleOf).bind fun roles =>
    (dbOfRoles roles).bind fun db => (roles.findSome? (lemmaOf? target)).bind fun gp => (proofOf gp.2).bind fun cs =>
    ((db.mandOf [gp.1]).mapM (floatLabel roles)).bind fun mand =>
    ((mand ++ cs.1).mapM fun l => (tableOf roles 0 0).lookup l).bind fun labels =>
    some ⟨namesOf mdb, roles, db, tableOf roles 0 0, gp.1, labels, cs.2⟩ := by
  rw [Option.bind_assoc]
  rfl

section
variable {mdb : MDb} {target : String} (S : Shaped mdb target) {roles : List Role} (R : Roles mdb roles)
include S R

/-- the `$p` statement, its goal and its role -/
theorem target_stmt : ∃ t pf T, mdb.filter isProv = [.prov target [.app "|-" [], t] pf] ∧
    MStmt.prov target [.app "|-" [], t] pf ∈ mdb ∧ termShape (constsOf mdb) ((floatsOf mdb).map (·.2)) t = true ∧
    termOf (namesOf mdb) t = some T ∧ Role.lemma target T pf ∈ roles ∧
    proofShape ((floatsOf mdb).map (·.1) ++ axLabelsOf mdb) pf = true := by
  obtain ⟨ts, pf, hfil, hps⟩ := S.prov
  have hm : MStmt.prov target ts pf ∈ mdb.filter isProv := by rw [hfil]; simp
  have hmem := (List.mem_filter.mp hm).1
  obtain ⟨t, rfl, ht⟩ := prov_shape (S.stmts _ hmem)
  obtain ⟨r, hr, hrel⟩ := forall2_mem_left R.rel _ hmem
  cases hrel with
  | prov _ _ T _ hT hts => exact ⟨t, pf, T, hfil, hmem, ht, hT, hr, hps⟩
  | item _ _ hf =>
    obtain ⟨pl, eh, l', tcs, t', T, Hs, hparts, _⟩ := hf.parts
    simp [axParts] at hparts

theorem lemma_found (t : MTerm) (pf : List String) (T : MM.Term)
    (hfil : mdb.filter isProv = [.prov target [.app "|-" [], t] pf]) (hT : termOf (namesOf mdb) t = some T)
    (hr : Role.lemma target T pf ∈ roles) : roles.findSome? (lemmaOf? target) = some (T, pf) := by
  have hsome : (roles.findSome? (lemmaOf? target)).isSome = true :=
    List.findSome?_isSome_iff.mpr ⟨_, hr, by simp [lemmaOf?]⟩
  cases h : roles.findSome? (lemmaOf? target) with
  | none => simp [h] at hsome
  | some y =>
    obtain ⟨r', hr', hy⟩ := List.exists_of_findSome?_eq_some h
    obtain ⟨st', hst', hrel⟩ := forall2_mem_right R.rel r' hr'
    cases hrel with
    | const _ => simp [lemmaOf?] at hy
    | var _ => simp [lemmaOf?] at hy
    | float _ _ _ _ => simp [lemmaOf?] at hy
    | item _ _ hf =>
      obtain ⟨pl, eh, l', tcs, t', T', Hs, _, _, _, hitem, _⟩ := hf.parts
      cases r' <;> simp [roleItem] at hitem <;> simp [lemmaOf?] at hy
    | prov l t' T' pf' hT' _ =>
      simp only [lemmaOf?] at hy
      split at hy
      · rename_i hl
        subst hl
        have hm : MStmt.prov l [.app "|-" [], t'] pf' ∈ mdb.filter isProv := List.mem_filter.mpr ⟨hst', rfl⟩
        rw [hfil] at hm
        simp only [List.mem_singleton, MStmt.prov.injEq, List.cons.injEq, and_true, true_and] at hm
        obtain ⟨rfl, rfl⟩ := hm
        rw [hT] at hT'
        cases hT'
        exact hy.symm ▸ rfl
      · cases hy

omit R in
theorem isLem_eq : ∀ st ∈ mdb, isLemItem st = isProv st := by
  intro st hst
  have hs := S.stmts st hst
  cases st with
  | block ss =>
    obtain ⟨l, t, hs', hlast, _⟩ := block_shape hs
    simp [isLemItem, hlast, isProv]
  | _ => rfl

omit R in
theorem lemmaOf_eq (t : MTerm) (pf : List String) (hfil : mdb.filter isProv = [.prov target [.app "|-" [], t] pf]) :
    lemmaOf mdb = some (target, t, pf) := by
  unfold lemmaOf
  rw [List.filter_congr (isLem_eq S), hfil]
  simp

end

theorem proofShape_spec {cit pf : List String} (h : proofShape cit pf = true) :
    ∃ cited body steps, pf = "(" :: cited ++ ")" :: body ∧ parseLabels (cited ++ ")" :: body) [] = some (cited, body) ∧
      (∀ l ∈ cited, labelTok l = true ∧ l ∈ cit) ∧ (∀ b ∈ body, ∀ c ∈ b.toList, tokChar c = true) ∧
      tokenize (body.flatMap String.toList) [] = some steps := by
  unfold proofShape at h
  split at h
  · rename_i rest
    split at h
    · rename_i labels body hp
      simp only [Bool.and_eq_true, List.all_eq_true, List.contains_eq_mem, decide_eq_true_eq] at h
      obtain ⟨⟨h1, h2⟩, h3⟩ := h
      obtain ⟨steps, hsteps⟩ := Option.isSome_iff_exists.mp h3
      obtain ⟨ls, e1, e2⟩ := parseLabels_inv _ _ _ _ hp
      simp only [List.reverse_nil, List.nil_append] at e1
      subst e1 e2
      exact ⟨labels, body, steps, rfl, hp, h1, h2, hsteps⟩
    · cases h
  · cases h

section
variable {mdb : MDb} {target : String} (S : Shaped mdb target) {roles : List Role} (R : Roles mdb roles)
include S R

theorem floatLabel_found (v : String) (hv : v ∈ (floatsOf mdb).map (·.2)) :
    floatLabel roles ((namesOf mdb).vars.idxOf v) = some (v ++ "-is-pattern") := by
  obtain ⟨p, hp, rfl⟩ := List.mem_map.mp hv
  obtain ⟨tc, hm⟩ := (floatsOf_mem mdb p.1 p.2).mp hp
  obtain ⟨r, hr, hrel⟩ := forall2_mem_left R.rel _ hm
  have hr0 : Role.float p.1 ((namesOf mdb).vars.idxOf p.2) ∈ roles := by
    cases hrel with
    | float _ _ _ _ => exact hr
    | item _ _ hf =>
      obtain ⟨pl, eh, l', tcs, t, T, Hs, hparts, _⟩ := hf.parts
      simp [axParts] at hparts
  rw [floatLabel_eq]
  have hsome : (roles.findSome? (floatLbl? ((namesOf mdb).vars.idxOf p.2))).isSome = true :=
    List.findSome?_isSome_iff.mpr ⟨_, hr0, by simp [floatLbl?]⟩
  cases h : roles.findSome? (floatLbl? ((namesOf mdb).vars.idxOf p.2)) with
  | none => simp [h] at hsome
  | some l' =>
    obtain ⟨r', hr', hy⟩ := List.exists_of_findSome?_eq_some h
    obtain ⟨st', hst', hrel'⟩ := forall2_mem_right R.rel r' hr'
    cases hrel' with
    | const _ => simp [floatLbl?] at hy
    | var _ => simp [floatLbl?] at hy
    | prov _ _ _ _ _ _ => simp [floatLbl?] at hy
    | item _ _ hf =>
      obtain ⟨pl, eh, l'', tcs, t', T', Hs, _, _, _, hitem, _⟩ := hf.parts
      cases r' <;> simp [roleItem] at hitem <;> simp [floatLbl?] at hy
    | float l'' tc' v' hv' =>
      simp only [floatLbl?] at hy
      split at hy
      · rename_i he
        cases hy
        have := str_idxOf_inj _ v' p.2 hv' he
        subst this
        rw [(float_facts S _ _ _ hst').2.1]
      · cases hy

theorem mand_eq (db : DB) (hdb : dbOfRoles roles = some db) (t : MTerm) (T : MM.Term) (hT : termOf (namesOf mdb) t = some T) :
    (db.mandOf [T]).mapM (floatLabel roles) =
      some ((((floatsOf mdb).map (·.2)).filter fun v => (termMvs t).contains v).map (· ++ "-is-pattern")) := by
  have hnum : Numbering (namesOf mdb) ((floatsOf mdb).map (·.2)) db := ⟨fs_declared S, db_floats S R db hdb, db_plain S R db hdb⟩
  have := mandOf_eq (namesOf mdb) _ db hnum [t] [T] (by simp [termsOf, hT])
  simp only [termsMvs, List.append_nil] at this
  rw [this]
  apply mapM_map_some
  intro v hv
  exact floatLabel_found S R v (List.mem_filter.mp hv).1

theorem labels_exist (xs cited : List String) (hxs : ∀ v ∈ xs, v ∈ (floatsOf mdb).map (·.2))
    (hc : ∀ l ∈ cited, l ∈ (floatsOf mdb).map (·.1) ++ axLabelsOf mdb) :
    ∃ labels, (xs.map (· ++ "-is-pattern") ++ cited).mapM (fun l => (tableOf roles 0 0).lookup l) = some labels := by
  apply mapM_some_of_forall
  intro l hl
  simp only [List.mem_append, List.mem_map] at hl
  have hfloat : ∀ p ∈ floatsOf mdb, ∃ y, (tableOf roles 0 0).lookup p.1 = some y := fun p hp => ⟨_, float_entry S R p.1 p.2 hp⟩
  rcases hl with ⟨v, hv, rfl⟩ | hl
  · obtain ⟨p, hp, rfl⟩ := List.mem_map.mp (hxs v hv)
    obtain ⟨tc, hm⟩ := (floatsOf_mem mdb p.1 p.2).mp hp
    rw [← (float_facts S _ _ _ hm).2.1]
    exact hfloat p hp
  · have := hc l hl
    simp only [List.mem_append, List.mem_map] at this
    rcases this with ⟨p, hp, rfl⟩ | hax
    · exact hfloat p hp
    · apply lookup_isSome_of_key
      rw [table_keys, rel_labels R.rel]
      simp only [axLabelsOf] at hax
      obtain ⟨st, hst, hl'⟩ := List.mem_filterMap.mp hax
      refine List.mem_filterMap.mpr ⟨st, hst, ?_⟩
      cases st <;> simp [axHeadOf] at hl' <;> simp [tblLabel, axHeadOf, hl']

end

/-! ## the labels of the converter tie (`floatPairs`, `axLabel`) -/
theorem filter_map_eq_filterMap {α β : Type} (p : α → Bool) (g : α → β) (f : α → Option β) : ∀ (xs : List α),
    (∀ x ∈ xs, (p x = true → f x = some (g x)) ∧ (p x = false → f x = none)) → (xs.filter p).map g = xs.filterMap f := by
  intro xs
  induction xs with
  | nil => intro _; rfl
  | cons x xs ih =>
    intro h
    have ih' := ih (fun y hy => h y (by simp [hy]))
    cases hp : p x with
    | true => rw [List.filter_cons_of_pos (by simp [hp]), List.map_cons, List.filterMap_cons_some ((h x (by simp)).1 hp), ih']
    | false => rw [List.filter_cons_of_neg (by simp [hp]), List.filterMap_cons_none ((h x (by simp)).2 hp), ih']

theorem floatLabels_eq (mdb : MDb) : (floatPairs mdb).map (·.1) = mdb.filterMap flbl := by
  induction mdb with
  | nil => rfl
  | cons st mdb ih => cases st <;> simp [floatPairs, flbl, List.filterMap_cons, ih]

theorem not_ax_head {st : MStmt} (h : isAxItem st = false) : albl st = none := by
  cases st with
  | ax _ _ => simp [isAxItem] at h
  | block ss =>
    simp only [isAxItem] at h
    simp only [albl, axHeadOf]
    split at h
    · cases h
    · rename_i hn
      split
      · rename_i l tc rest hl
        exact absurd hl (by intro e; exact hn _ _ e)
      · rfl
  | _ => rfl

section
variable {mdb : MDb} {target : String} (S : Shaped mdb target)
include S

theorem item_facts (st : MStmt) (hst : st ∈ mdb) (hax : isAxItem st = true) :
    ∃ r, ItemFacts (namesOf mdb) ((floatsOf mdb).map (·.2)) st r := by
  obtain ⟨r, _, hf⟩ := item_role (namesOf mdb) _ (fs_declared S) (fs_unreserved S) st (S.stmts st hst) hax
  exact ⟨r, hf⟩

theorem axLabels_eq : (mdb.filter isAxItem).map axLabel = mdb.filterMap albl := by
  apply filter_map_eq_filterMap
  intro st hst
  refine ⟨?_, not_ax_head⟩
  intro hax
  obtain ⟨r, hf⟩ := item_facts S st hst hax
  obtain ⟨pl, eh, l, tcs, t, T, Hs, hparts, _, _, _, _, _, _, _, hhead⟩ := hf.parts
  simp [albl, hhead, axLabel, hparts]

theorem lbl3_nodup : (mdb.filterMap lbl3).Nodup := (lbl3_sublist mdb).nodup S.labels

theorem floatLabels_nodup : ((floatPairs mdb).map (·.1)).Nodup := by
  rw [floatLabels_eq]
  refine (sublist_filterMap_le flbl lbl3 ?_ mdb).nodup (lbl3_nodup S)
  intro x b h
  cases x <;> simp [flbl] at h
  simpa [lbl3] using h

theorem axLabels_nodup : ((mdb.filter isAxItem).map axLabel).Nodup := by
  rw [axLabels_eq S]
  refine (sublist_filterMap_le albl lbl3 ?_ mdb).nodup (lbl3_nodup S)
  intro x b h
  cases x <;> simp [albl, axHeadOf] at h <;> simp [lbl3, axHeadOf, h]

theorem labels_disjoint : ∀ l ∈ (floatPairs mdb).map (·.1), l ∉ (mdb.filter isAxItem).map axLabel := by
  intro l h1 h2
  rw [floatLabels_eq] at h1
  rw [axLabels_eq S] at h2
  obtain ⟨s1, hs1, e1⟩ := List.mem_filterMap.mp h1
  obtain ⟨s2, hs2, e2⟩ := List.mem_filterMap.mp h2
  have k1 : lbl3 s1 = some l := by cases s1 <;> simp [flbl] at e1; simpa [lbl3] using e1
  have k2 : lbl3 s2 = some l := by cases s2 <;> simp [albl, axHeadOf] at e2 <;> simp [lbl3, axHeadOf, e2]
  have := nodup_filterMap_inj lbl3 mdb (lbl3_nodup S) s1 hs1 s2 hs2 l k1 k2
  subst this
  cases s1 <;> simp [flbl] at e1
  simp [albl, axHeadOf] at e2

theorem target_not_float : target ∉ (floatPairs mdb).map (·.1) := by
  intro h1
  rw [floatLabels_eq] at h1
  obtain ⟨s1, hs1, e1⟩ := List.mem_filterMap.mp h1
  obtain ⟨ts, pf, hfil, _⟩ := S.prov
  have hm : MStmt.prov target ts pf ∈ mdb.filter isProv := by rw [hfil]; simp
  have hmem := (List.mem_filter.mp hm).1
  have k1 : lbl3 s1 = some target := by cases s1 <;> simp [flbl] at e1; simpa [lbl3] using e1
  have := nodup_filterMap_inj lbl3 mdb (lbl3_nodup S) s1 hs1 _ hmem target k1 rfl
  subst this
  simp [flbl] at e1

end

section
variable {mdb : MDb} {target : String} (S : Shaped mdb target) {roles : List Role} (R : Roles mdb roles)
include S R

/-- the label table is one-to-one and names `$f` and `$a` statements only -/
theorem table_ok (db : DB) (goal : MM.Term) (labels : List Lbl) (steps : List Nat) :
    tableOK ⟨namesOf mdb, roles, db, tableOf roles 0 0, goal, labels, steps⟩ mdb = true := by
  simp only [tableOK, Bool.and_eq_true, decide_eq_true_eq, List.all_eq_true, Bool.or_eq_true, List.contains_eq_mem]
  constructor
  · apply table_vals_nodup roles 0 0 (keys_nodup S R)
    rw [rel_floats R.rel]
    have := nodup_map_idxOf (namesOf mdb).vars _ (fs_nodup S R) (fs_declared S)
    rw [List.map_map] at this
    exact this
  · intro p hp
    have hk : p.1 ∈ (tableOf roles 0 0).map (·.1) := List.mem_map.mpr ⟨p, hp, rfl⟩
    rw [table_keys, rel_labels R.rel] at hk
    obtain ⟨st, hst, hl⟩ := List.mem_filterMap.mp hk
    by_cases hfl : flbl st = some p.1
    · left
      rw [floatLabels_eq]
      exact List.mem_filterMap.mpr ⟨st, hst, hfl⟩
    · right
      rw [axLabels_eq S]
      refine List.mem_filterMap.mpr ⟨st, hst, ?_⟩
      cases st <;> simp [tblLabel, flbl, albl] at hl hfl ⊢ <;> first | exact hl | exact absurd hl hfl

/-- `_import_proof` on the target: the model's label list (the `$f` labels of the goal's variables in `$f` order, then the cited
labels) and steps -/
theorem import_ok (t : MTerm) (pf : List String) (ht : termShape (constsOf mdb) ((floatsOf mdb).map (·.2)) t = true)
    (cited body : List String) (steps : List Nat) (hpf : pf = "(" :: cited ++ ")" :: body)
    (hparse : parseLabels (cited ++ ")" :: body) [] = some (cited, body))
    (hcited : ∀ l ∈ cited, labelTok l = true) (hbody : ∀ b ∈ body, ∀ c ∈ b.toList, tokChar c = true)
    (hsteps : tokenize (body.flatMap String.toList) [] = some steps) :
    callImportProof ((floatPairs mdb).map (·.2)) (.prov target [.app "|-" [], t] pf) =
      .ok (ImportTie.ofModel
        (((((floatsOf mdb).map (·.2)).filter fun v => (termMvs t).contains v).map (· ++ "-is-pattern")) ++ cited, steps)) := by
  have hmv := (wfT_of_shape _ _ (fs_unreserved S) t ht).2
  have hnil : (termMvs t).filter (fun v => !((floatsOf mdb).map (·.2)).contains v) = [] := by
    rw [List.filter_eq_nil_iff]
    intro a ha
    simp [hmv a ha]
  have hvars : (MStmt.prov target [.app "|-" [], t] pf).get_metavariables = termMvs t := by
    simp [MStmt.get_metavariables, stmtMvs, termsMvs, termMvs]
  unfold callImportProof
  rw [hvars, joinToks_eq, ← floatsOf_eq]
  simp only [MStmt.proof]
  rw [hpf, ImportTie.import_proof_parsed _ _ cited body (fun l hl => labelTok_ok l (hcited l hl))
    (fun b hb c hc => tokChar_notspace c (hbody b hb c hc))]
  simp only [MM.importProof, List.cons_append, hparse, hsteps, hnil, List.mergeSort_nil, List.append_nil, Option.bind_eq_bind,
    Option.bind_some, Option.pure_def, Option.map_some, ofOption]

theorem proof_agrees (db : DB) (goal : MM.Term) (labels : List Lbl) (steps : List Nat) (names : List String)
    (hl : names.mapM (fun l => (tableOf roles 0 0).lookup l) = some labels) :
    proofAgrees ⟨namesOf mdb, roles, db, tableOf roles 0 0, goal, labels, steps⟩ (ImportTie.ofModel (names, steps)) = true := by
  have h2 := numbered_mapM (fun l => (tableOf roles 0 0).lookup l) 1 names
  simp only [proofAgrees, ImportTie.ofModel, Bool.and_eq_true, decide_eq_true_eq, numbered_keys, numbered_length', h2, hl,
    and_self]

end

/-! ## COHERENCE -/
/-- the coherence conjuncts of `ConvTie.InFragment` and `ConvTie.InFragmentX`: everything these hypotheses say about the OUTPUT of
`dbOfCore` (besides `db.wf`) -/
def Coherent (mdb : MDb) (target : String) (sp : Spec) : Prop :=
  (∀ st ∈ mdb.filter isAxItem, coherentItem sp st = true) ∧ coherentFloats sp mdb = true ∧ coherentGoal sp mdb = true ∧
  coherentProof sp mdb = true ∧ tableOK sp mdb = true ∧ target ∉ (floatPairs mdb).map (·.1)

/-- **`dbOfCore` is coherent with the statements of every database of the shape**: it accepts the database; the label table gives
the label of every `$a` statement an `Lbl` of the right kind whose assertion in the model database is the statement's own content
(`coherentItem`); `$f` statements, numbering, goal and decoded proof agree; the table is one-to-one and names `$f` / `$a`
statements only; the target's label is no `$f` label; the model database is well formed. -/
theorem coherence (mdb : MDb) (target : String) (h : CoreShape mdb target = true) :
    ∃ sp, dbOfCore mdb target = some sp ∧ Coherent mdb target sp ∧ sp.db.wf = true := by
  have S := shaped_of h
  obtain ⟨roles, hmap, hrel⟩ := roles_exist S
  have R : Roles mdb roles := ⟨hmap, hrel⟩
  obtain ⟨db, hdb⟩ := db_exists S R
  obtain ⟨t, pf, T, hfil, hmem, ht, hT, hr, hps⟩ := target_stmt S R
  have hfound := lemma_found S R t pf T hfil hT hr
  obtain ⟨cited, body, steps, hpf, hparse, hcit, hbody, hsteps⟩ := proofShape_spec hps
  have hmand := mand_eq S R db hdb t T hT
  obtain ⟨labels, hlabels⟩ := labels_exist S R (((floatsOf mdb).map (·.2)).filter fun v => (termMvs t).contains v) cited
    (fun v hv => (List.mem_filter.mp hv).1) (fun l hl => (hcit l hl).2)
  have hlem := lemmaOf_eq S t pf hfil
  have himp := import_ok S R t pf ht cited body steps hpf hparse (fun l hl => (hcit l hl).1) hbody hsteps
  refine ⟨⟨namesOf mdb, roles, db, tableOf roles 0 0, T, labels, steps⟩, ?_, ⟨?_, ?_, ?_, ?_, ?_, ?_⟩, ?_⟩
  · rw [dbOfMDb_eq]
    have hcomp := mapM_comp (declOf (namesOf mdb)) roleOf mdb
    have hro : (mdb.mapM fun x => (declOf (namesOf mdb) x).bind roleOf) = some roles := R.map
    rw [hro] at hcomp
    have hproof : proofOf pf = some (cited, steps) := by
      simp only [proofOf, hpf, List.cons_append, hparse, hsteps, Option.bind_eq_bind, Option.bind_some, Option.pure_def]
    simp only [hcomp, hdb, hfound, hproof, hmand, hlabels, Option.bind_some]
  · intro st hst
    exact item_coherent S R db hdb T labels steps st (List.mem_filter.mp hst).1 (List.mem_filter.mp hst).2
  · exact floats_coherent S R db hdb T labels steps
  · simp only [coherentGoal, hlem, hT, term_beq_self]
  · simp only [coherentProof, hlem, himp]
    exact proof_agrees S R db T labels steps _ hlabels
  · exact table_ok S R db T labels steps
  · exact target_not_float S
  · exact db_wf S R db hdb

/-! ## the run conditions `InFragmentM` -/
theorem ok1_of_shape (K K' fs' : List String) : ∀ (mdb : MDb) (vs fs : List String), (∀ c ∈ constsOf mdb, c ∈ K) →
    floatsShape K vs fs mdb = true → (∀ st ∈ mdb, stmtShape K' fs' st = true) → (∀ l ts, MStmt.ax l ts ∈ mdb → axOK ts = true) →
    ok1 K vs fs mdb = true := by
  intro mdb
  induction mdb with
  | nil => intro _ _ _ _ _ _; rfl
  | cons st mdb ih =>
    intro vs fs hK hfl hst hax
    have hst' : ∀ s ∈ mdb, stmtShape K' fs' s = true := fun s hs => hst s (by simp [hs])
    have hax' : ∀ l ts, MStmt.ax l ts ∈ mdb → axOK ts = true := fun l ts h => hax l ts (by simp [h])
    cases st with
    | const cs =>
      simp only [constsOf, List.mem_append] at hK
      simp only [floatsShape] at hfl
      simp only [ok1, Bool.and_eq_true, List.all_eq_true, List.contains_eq_mem, decide_eq_true_eq]
      exact ⟨fun c hc => hK c (Or.inl hc), ih vs fs (fun c hc => hK c (Or.inr hc)) hfl hst' hax'⟩
    | var ws =>
      simp only [floatsShape] at hfl
      simp only [ok1]
      exact ih _ fs (by simpa [constsOf] using hK) hfl hst' hax'
    | float l tc v =>
      simp only [floatsShape, Bool.and_eq_true] at hfl
      obtain ⟨⟨⟨⟨⟨⟨h1, h2⟩, h3⟩, h4⟩, h5⟩, h6⟩, h7⟩ := hfl
      simp only [ok1, Bool.and_eq_true]
      exact ⟨⟨⟨⟨h1, h3⟩, h4⟩, h5⟩, ih vs _ (by simpa [constsOf] using hK) h7 hst' hax'⟩
    | ax l ts =>
      simp only [floatsShape] at hfl
      simp only [ok1, Bool.and_eq_true]
      exact ⟨hax l ts (by simp), ih vs fs (by simpa [constsOf] using hK) hfl hst' hax'⟩
    | prov l ts pf =>
      simp only [floatsShape] at hfl
      simp only [ok1]
      exact ih vs fs (by simpa [constsOf] using hK) hfl hst' hax'
    | block ss =>
      simp only [floatsShape] at hfl
      obtain ⟨l, t, hs, hlast, _⟩ := block_shape (hst (.block ss) (List.mem_cons_self))
      simp only [ok1, hlast, Bool.and_eq_true]
      exact ⟨by simp [axOK], ih vs fs (by simpa [constsOf] using hK) hfl hst' hax'⟩
    | disj ws => exact (no_disj (hst (.disj ws) (List.mem_cons_self))).elim
    | ess l ts => exact (no_ess (hst (.ess l ts) (List.mem_cons_self))).elim

theorem termsShape_mem (K fs : List String) : ∀ (ts : List MTerm), termsShape K fs ts = true → ∀ t ∈ ts, termShape K fs t = true := by
  intro ts
  induction ts with
  | nil => intro _ t ht; simp at ht
  | cons x ts ih =>
    intro h t ht
    simp only [termsShape, Bool.and_eq_true] at h
    simp only [List.mem_cons] at ht
    rcases ht with rfl | ht
    · exact h.1
    · exact ih h.2 t ht

theorem stmtTS_le : ∀ (ss : List MStmt) (st : MStmt), st ∈ ss → stmtTS st ≤ stmtsTS ss := by
  intro ss
  induction ss with
  | nil => intro st h; simp at h
  | cons s ss ih =>
    intro st h
    simp only [List.mem_cons] at h
    simp only [stmtsTS]
    rcases h with rfl | h
    · omega
    · have := ih st h; omega

theorem parts_fuel {mdb : MDb} {st : MStmt} (hst : st ∈ mdb) {pl : Bool} {eh : List (String × MTerm)} {l tcs : String} {t : MTerm}
    (hparts : axParts st = some (pl, eh, l, tcs, t)) : tsize t < dbFuel mdb ∧ ∀ p ∈ eh, tsize p.2 < dbFuel mdb := by
  have hle := stmtTS_le mdb st hst
  obtain ⟨rfl, _⟩ := axParts_eq hparts
  unfold dbFuel
  cases pl with
  | true =>
    simp only [mkAxStmt, if_true, stmtTS, tsizes] at hle
    have := tsize_pos (.app tcs [])
    refine ⟨by omega, ?_⟩
    intro p hp
    have := ‹true = true → eh = []› rfl
    subst this
    simp at hp
  | false =>
    simp only [mkAxStmt, Bool.false_eq_true, if_false, stmtTS] at hle
    constructor
    · have := stmtTS_le (eh.map mkEss ++ [.ax l [.app tcs [], t]]) (.ax l [.app tcs [], t]) (by simp)
      simp only [stmtTS, tsizes] at this
      omega
    · intro p hp
      have := stmtTS_le (eh.map mkEss ++ [.ax l [.app tcs [], t]]) (mkEss p) (by simp; exact Or.inl ⟨p.1, p.2, hp, rfl⟩)
      simp only [mkEss, stmtTS, tsizes] at this
      omega

theorem termOKb_of_shape {mdb : MDb} {target : String} (S : Shaped mdb target) (t : MTerm)
    (ht : termShape (constsOf mdb) ((floatsOf mdb).map (·.2)) t = true) (hf : tsize t < dbFuel mdb) :
    termOKb (constsOf mdb) ((floatPairs mdb).map (·.2)) (dbFuel mdb) t = true := by
  obtain ⟨hw, hv⟩ := wfT_of_shape _ _ (fs_unreserved S) t ht
  rw [← floatsOf_eq]
  simp only [termOKb, Bool.and_eq_true, decide_eq_true_eq, List.all_eq_true, List.contains_eq_mem]
  exact ⟨⟨hf, hw⟩, hv⟩

/-- **the run conditions are facts about the statements**: on a database of the shape the converter's run is determined
(`ConvTie.converter_state`) -/
theorem inFragmentM_of_shape (mdb : MDb) (target : String) (h : CoreShape mdb target = true) :
    InFragmentM mdb (dbFuel mdb) target = true := by
  have S := shaped_of h
  obtain ⟨roles, hmap, hrel⟩ := roles_exist S
  have R : Roles mdb roles := ⟨hmap, hrel⟩
  obtain ⟨t, pf, T, hfil, hmem, ht, hT, hr, hps⟩ := target_stmt S R
  obtain ⟨cited, body, steps, hpf, hparse, hcit, hbody, hsteps⟩ := proofShape_spec hps
  have hlem := lemmaOf_eq S t pf hfil
  have himp := import_ok S R t pf ht cited body steps hpf hparse (fun l hl => (hcit l hl).1) hbody hsteps
  have hitems : ∀ st ∈ mdb, isAxItem st = true → ∃ pl eh l tcs t, axParts st = some (pl, eh, l, tcs, t) ∧
      axOK [.app tcs [], t] = true ∧ termShape (constsOf mdb) ((floatsOf mdb).map (·.2)) t = true ∧
      ∀ p ∈ eh, termShape (constsOf mdb) ((floatsOf mdb).map (·.2)) p.2 = true := by
    intro st hst hax
    obtain ⟨r, hf⟩ := item_facts S st hst hax
    obtain ⟨pl, eh, l, tcs, t, T, Hs, hparts, _, _, _, _, haxok, hts, hhs, _⟩ := hf.parts
    refine ⟨pl, eh, l, tcs, t, hparts, haxok, hts, ?_⟩
    intro p hp
    exact termsShape_mem _ _ _ hhs p.2 (List.mem_map.mpr ⟨p, hp, rfl⟩)
  simp only [InFragmentM, Bool.and_eq_true, decide_eq_true_eq, List.all_eq_true]
  refine ⟨⟨⟨⟨⟨?_, floatLabels_nodup S⟩, ?_⟩, axLabels_nodup S⟩, ?_⟩, ?_⟩
  · refine ok1_of_shape _ _ _ mdb [] [] (fun c hc => hc) S.floats S.stmts ?_
    intro l ts hm
    obtain ⟨pl, eh, l', tcs, t', hparts, haxok, _⟩ := hitems _ hm rfl
    obtain ⟨hmk, hpl⟩ := axParts_eq hparts
    cases pl with
    | true =>
      simp only [mkAxStmt, if_true, MStmt.ax.injEq] at hmk
      rw [hmk.2]; exact haxok
    | false => simp [mkAxStmt] at hmk
  · intro st hst
    obtain ⟨hm, hax⟩ := List.mem_filter.mp hst
    obtain ⟨pl, eh, l, tcs, t', hparts, haxok, hts, hhs⟩ := hitems st hm hax
    obtain ⟨f1, f2⟩ := parts_fuel hm hparts
    simp only [axItemOKb, hparts, haxok, Bool.true_and, Bool.and_eq_true, List.all_eq_true]
    exact ⟨termOKb_of_shape S t' hts f1, fun p hp => termOKb_of_shape S p.2 (hhs p hp) (f2 p hp)⟩
  · intro l hl
    simpa using labels_disjoint S l hl
  · have hfuel : tsize t < dbFuel mdb := by
      have := stmtTS_le mdb _ hmem
      simp only [stmtTS, tsizes] at this
      have := tsize_pos (.app "|-" [])
      unfold dbFuel
      omega
    simp only [hlem, beq_self_eq_true, Bool.true_and, Bool.and_eq_true, termOKb_of_shape S t ht hfuel, himp, Res.isOk, and_self]

/-- every database of the shape is in the fragment of `ConvTie.converter_agrees` -/
theorem inFragmentConv_of_shape (mdb : MDb) (target : String) (h : CoreShape mdb target = true) : InFragment mdb target = true := by
  obtain ⟨sp, hsp, ⟨h1, h2, h3, h4, _, _⟩, hwf⟩ := coherence mdb target h
  simp only [InFragment, inFragmentM_of_shape mdb target h, hsp, Bool.true_and, Bool.and_eq_true, List.all_eq_true]
  exact ⟨⟨⟨⟨h1, h2⟩, h3⟩, h4⟩, hwf⟩

/-- every database of the shape is in the fragment of `ConvTie.translation_tie` -/
theorem inFragmentX_of_shape (mdb : MDb) (target : String) (h : CoreShape mdb target = true) : InFragmentX mdb target = true := by
  obtain ⟨sp, hsp, ⟨_, _, _, _, h5, h6⟩, _⟩ := coherence mdb target h
  simp only [InFragmentX, inFragmentConv_of_shape mdb target h, hsp, h5, Bool.true_and, Bool.and_true, Bool.not_eq_true',
    List.contains_eq_mem, decide_eq_false_iff_not]
  exact h6

/-- the full statement: `CoreShape mdb target = true → ConvTie.InFragmentX mdb target = true` (the hypothesis of
`C16.translation_text_is_the_model`, which contains the one of `C16.converter_text_is_the_model`) -/
theorem inFragment_of_shape (mdb : MDb) (target : String) (h : CoreShape mdb target = true) : InFragmentX mdb target = true :=
  inFragmentX_of_shape mdb target h

/-- `CoreShape` is not stronger than the fragment by an accident of the definition: a database of the shape on which the
specification and the run-time fragment agree -/
theorem example_in_fragment : InFragmentX ConvSpec.Example.db "goal" = true :=
  inFragmentX_of_shape _ _ ConvSpec.Example.db_in_fragment

end ConvCoh

#print axioms ConvCoh.coherence
#print axioms ConvCoh.inFragmentM_of_shape
#print axioms ConvCoh.inFragmentConv_of_shape
#print axioms ConvCoh.inFragmentX_of_shape
#print axioms ConvCoh.inFragment_of_shape
