import Pi2.MM.Mono
/-!
# The simple fragment of notation patterns: symbols, clean metavariables, `imp`, `app`, and
`Instantiate` nodes over such patterns.  Closure under the notation operations and their termination.
-/
set_option linter.unusedSimpArgs false
set_option linter.unusedVariables false
open Pat

namespace NPat

mutual
def F0 : NPat → Bool
  | .sym _ => true
  | .mv _ ef sf ps ns hs => ef.isEmpty && sf.isEmpty && ps.isEmpty && ns.isEmpty && hs.isEmpty
  | .imp l r => l.F0 && r.F0
  | .app l r => l.F0 && r.F0
  | .inst p m => p.F0 && F0Map m
  | _ => false
def F0Map : List (Nat × NPat) → Bool
  | [] => true
  | (_, v) :: r => v.F0 && F0Map r
end

/-- no notation at all -/
def B0 : NPat → Bool
  | .sym _ => true
  | .mv _ ef sf ps ns hs => ef.isEmpty && sf.isEmpty && ps.isEmpty && ns.isEmpty && hs.isEmpty
  | .imp l r => l.B0 && r.B0
  | .app l r => l.B0 && r.B0
  | _ => false

theorem B0.toF0 : (p : NPat) → p.B0 = true → p.F0 = true
  | .sym _, _ => rfl
  | .mv _ _ _ _ _ _, h => by simpa [B0, F0] using h
  | .imp l r, h => by
    simp only [B0, Bool.and_eq_true] at h
    simp [F0, B0.toF0 l h.1, B0.toF0 r h.2]
  | .app l r, h => by
    simp only [B0, Bool.and_eq_true] at h
    simp [F0, B0.toF0 l h.1, B0.toF0 r h.2]
  | .evar _, h => by simp [B0] at h
  | .svar _, h => by simp [B0] at h
  | .ex _ _, h => by simp [B0] at h
  | .mu _ _, h => by simp [B0] at h
  | .esub _ _ _, h => by simp [B0] at h
  | .ssub _ _ _, h => by simp [B0] at h
  | .inst _ _, h => by simp [B0] at h

theorem F0Map_iff (m : List (Nat × NPat)) : F0Map m = true ↔ ∀ kv ∈ m, kv.2.F0 = true := by
  induction m with
  | nil => simp [F0Map]
  | cons kv r ih => obtain ⟨k, v⟩ := kv; simp [F0Map, ih]

theorem F0Map_append (a b : List (Nat × NPat)) : F0Map (a ++ b) = (F0Map a && F0Map b) := by
  induction a with
  | nil => simp [F0Map]
  | cons kv r ih => obtain ⟨k, v⟩ := kv; simp [F0Map, ih, Bool.and_assoc]

mutual
theorem F0.shape : (p : NPat) → p.F0 = true → p.Shape = true
  | .sym _, _ => rfl
  | .mv _ _ _ _ _ _, h => by
    simp only [F0, Bool.and_eq_true] at h
    simp [Shape, h.1.1.1.1, h.1.1.1.2]
  | .imp l r, h => by
    simp only [F0, Bool.and_eq_true] at h
    simp [Shape, F0.shape l h.1, F0.shape r h.2]
  | .app l r, h => by
    simp only [F0, Bool.and_eq_true] at h
    simp [Shape, F0.shape l h.1, F0.shape r h.2]
  | .inst p m, h => by
    simp only [F0, Bool.and_eq_true] at h
    simp [Shape, F0.shape p h.1, F0Map.shape m h.2]
  | .evar _, h => by simp [F0] at h
  | .svar _, h => by simp [F0] at h
  | .ex _ _, h => by simp [F0] at h
  | .mu _ _, h => by simp [F0] at h
  | .esub _ _ _, h => by simp [F0] at h
  | .ssub _ _ _, h => by simp [F0] at h
theorem F0Map.shape : (m : List (Nat × NPat)) → F0Map m = true → ShapeMap m = true
  | [], _ => rfl
  | (_, v) :: r, h => by
    simp only [F0Map, Bool.and_eq_true] at h
    simp [ShapeMap, F0.shape v h.1, F0Map.shape r h.2]
end

theorem F0_of_lookup (m : List (Nat × NPat)) (h : F0Map m = true) (i : Nat) (v : NPat)
    (hl : Py.lookup m i = some v) : v.F0 = true :=
  (F0Map_iff m).mp h _ (Py.lookup_mem _ _ _ hl)

theorem F0Map_zip (keys : List Nat) (plugs : List NPat) (h : ∀ p ∈ plugs, p.F0 = true) :
    F0Map (keys.zip plugs) = true := by
  rw [F0Map_iff]
  intro kv hkv
  obtain ⟨k, v⟩ := kv
  exact h v (List.of_mem_zip hkv).2

/-! ## closure under `instF` -/

theorem F0_inst_step (n : Nat)
    (hi : ∀ δ p r, F0 p = true → F0Map δ = true → instF n δ p = some r → F0 r = true)
    (hm : ∀ δ m m', F0Map m = true → F0Map δ = true → mapF n δ m = some m' → F0Map m' = true) :
    (∀ δ p r, F0 p = true → F0Map δ = true → instF (n + 1) δ p = some r → F0 r = true) ∧
    (∀ δ m m', F0Map m = true → F0Map δ = true → mapF (n + 1) δ m = some m' → F0Map m' = true) := by
  constructor
  · intro δ p r hp hδ h
    cases p with
    | sym x => simp only [instF, Option.some.injEq] at h; subst h; rfl
    | mv id ef sf ps ns hs =>
      simp only [instF, Option.some.injEq] at h; subst h
      cases hl : Py.lookup δ id with
      | none => simpa using hp
      | some v => simpa using F0_of_lookup δ hδ id v hl
    | imp l r' =>
      simp only [instF] at h
      split at h
      · simp only [Option.some.injEq] at h; subst h; exact hp
      · simp only [F0, Bool.and_eq_true] at hp
        simp only [Option.bind_eq_bind, Option.pure_def, Option.bind_eq_some_iff,
          Option.some.injEq] at h
        obtain ⟨a, ha, b, hb, rfl⟩ := h
        simp [F0, hi _ _ _ hp.1 hδ ha, hi _ _ _ hp.2 hδ hb]
    | app l r' =>
      simp only [instF] at h
      split at h
      · simp only [Option.some.injEq] at h; subst h; exact hp
      · simp only [F0, Bool.and_eq_true] at hp
        simp only [Option.bind_eq_bind, Option.pure_def, Option.bind_eq_some_iff,
          Option.some.injEq] at h
        obtain ⟨a, ha, b, hb, rfl⟩ := h
        simp [F0, hi _ _ _ hp.1 hδ ha, hi _ _ _ hp.2 hδ hb]
    | inst p' m =>
      simp only [F0, Bool.and_eq_true] at hp
      simp only [instF, Option.bind_eq_bind, Option.pure_def, Option.bind_eq_some_iff,
        Option.some.injEq] at h
      obtain ⟨m', hm', mvs, hmvs, rfl⟩ := h
      have h1 := hm _ _ _ hp.2 hδ hm'
      have h2 : F0Map (dedupKeys (δ.filter fun x => !(keys m).contains x.1 && mvs.contains x.1) [])
          = true := by
        rw [F0Map_iff] at hδ ⊢
        intro kv hkv
        exact hδ kv (List.mem_filter.mp (mem_dedupKeys _ _ _ hkv)).1
      simp only [F0, hp.1, F0Map_append, h1, Bool.true_and]
      exact h2
    | evar _ => simp [F0] at hp
    | svar _ => simp [F0] at hp
    | ex _ _ => simp [F0] at hp
    | mu _ _ => simp [F0] at hp
    | esub _ _ _ => simp [F0] at hp
    | ssub _ _ _ => simp [F0] at hp
  · intro δ m m' hsm hδ h
    cases m with
    | nil => simp only [mapF, Option.some.injEq] at h; subst h; rfl
    | cons kv r =>
      obtain ⟨k, v⟩ := kv
      simp only [F0Map, Bool.and_eq_true] at hsm
      simp only [mapF, Option.bind_eq_bind, Option.pure_def, Option.bind_eq_some_iff,
        Option.some.injEq] at h
      obtain ⟨a, ha, b, hb, rfl⟩ := h
      simp [F0Map, hi _ _ _ hsm.1 hδ ha, hm _ _ _ hsm.2 hδ hb]

theorem F0_inst_all (n : Nat) :
    (∀ δ p r, F0 p = true → F0Map δ = true → instF n δ p = some r → F0 r = true) ∧
    (∀ δ m m', F0Map m = true → F0Map δ = true → mapF n δ m = some m' → F0Map m' = true) := by
  induction n with
  | zero =>
    constructor
    · intro δ p r _ _ h; simp [instF] at h
    · intro δ m m' _ _ h; simp [mapF] at h
  | succ n ih => exact F0_inst_step n ih.1 ih.2

theorem instF_F0 (n : Nat) (δ : List (Nat × NPat)) (p r : NPat) (hp : F0 p = true)
    (hδ : F0Map δ = true) (h : instF n δ p = some r) : F0 r = true :=
  (F0_inst_all n).1 δ p r hp hδ h

theorem headF_F0 (n : Nat) : ∀ (p q : NPat), F0 p = true → headF n p = some q →
    F0 q = true ∧ q.isInst = false := by
  induction n with
  | zero => intro p q _ h; simp [headF] at h
  | succ n ih =>
    intro p q hp h
    cases p with
    | inst p' m =>
      simp only [headF, Option.bind_eq_bind, Option.bind_eq_some_iff] at h
      obtain ⟨s, hs, hq⟩ := h
      simp only [F0, Bool.and_eq_true] at hp
      exact ih _ _ (instF_F0 _ _ _ _ hp.1 hp.2 hs) hq
    | _ =>
      simp only [headF, Option.some.injEq] at h; subst h
      exact ⟨hp, by simp [isInst]⟩

theorem pyMP_F0 (n : Nat) (a b c : NPat) (ha : F0 a = true) (h : pyMP n a b = some (some c)) :
    F0 c = true := by
  simp only [pyMP, Option.bind_eq_bind, Option.bind_eq_some_iff] at h
  obtain ⟨q, hh, h⟩ := h
  obtain ⟨hq, _⟩ := headF_F0 n a q ha hh
  cases q with
  | imp l r =>
    simp only [Option.bind_eq_some_iff, Option.pure_def, Option.some.injEq] at h
    obtain ⟨eq, _, h⟩ := h
    simp only [F0, Bool.and_eq_true] at hq
    cases eq with
    | false => simp at h
    | true => simp only [if_true, Option.some.injEq] at h; subst h; exact hq.2
  | _ => simp at h

end NPat

/-! ## a height that bounds the simplification recursion -/
namespace NPat

mutual
def hgt : NPat → Nat
  | .imp l r => max (hgt l) (hgt r) + 1
  | .app l r => max (hgt l) (hgt r) + 1
  | .inst p m => hgt p + hgtMap m + 1
  | .ex _ p => hgt p + 1
  | .mu _ p => hgt p + 1
  | .esub p _ q => max (hgt p) (hgt q) + 1
  | .ssub p _ q => max (hgt p) (hgt q) + 1
  | _ => 0
def hgtMap : List (Nat × NPat) → Nat
  | [] => 0
  | (_, v) :: r => max (hgt v) (hgtMap r)
end

theorem hgtMap_le (m : List (Nat × NPat)) (B : Nat) :
    hgtMap m ≤ B ↔ ∀ kv ∈ m, hgt kv.2 ≤ B := by
  induction m with
  | nil => simp [hgtMap]
  | cons kv r ih =>
    obtain ⟨k, v⟩ := kv
    simp only [hgtMap, List.mem_cons, forall_eq_or_imp, ← ih]
    omega

theorem hgt_le_hgtMap (m : List (Nat × NPat)) (kv : Nat × NPat) (h : kv ∈ m) :
    hgt kv.2 ≤ hgtMap m := (hgtMap_le m _).mp (Nat.le_refl _) kv h

theorem hgtMap_append (a b : List (Nat × NPat)) : hgtMap (a ++ b) = max (hgtMap a) (hgtMap b) := by
  induction a with
  | nil => simp [hgtMap]
  | cons kv r ih => obtain ⟨k, v⟩ := kv; simp only [List.cons_append, hgtMap, ih]; omega

theorem hgt_inst_step (n : Nat)
    (hi : ∀ δ p r, F0 p = true → instF n δ p = some r → hgt r ≤ hgt p + hgtMap δ)
    (hm : ∀ δ m m', F0Map m = true → mapF n δ m = some m' → hgtMap m' ≤ hgtMap m + hgtMap δ) :
    (∀ δ p r, F0 p = true → instF (n + 1) δ p = some r → hgt r ≤ hgt p + hgtMap δ) ∧
    (∀ δ m m', F0Map m = true → mapF (n + 1) δ m = some m' → hgtMap m' ≤ hgtMap m + hgtMap δ) := by
  constructor
  · intro δ p r hp h
    cases p with
    | sym x => simp only [instF, Option.some.injEq] at h; subst h; simp [hgt]
    | mv id ef sf ps ns hs =>
      simp only [instF, Option.some.injEq] at h; subst h
      cases hl : Py.lookup δ id with
      | none => simp [hgt]
      | some v =>
        have : hgt v ≤ hgtMap δ := hgt_le_hgtMap δ (id, v) (Py.lookup_mem _ _ _ hl)
        simp only [hgt]; omega
    | imp l r' =>
      simp only [instF] at h
      split at h
      · simp only [Option.some.injEq] at h; subst h; omega
      · simp only [F0, Bool.and_eq_true] at hp
        simp only [Option.bind_eq_bind, Option.pure_def, Option.bind_eq_some_iff,
          Option.some.injEq] at h
        obtain ⟨a, ha, b, hb, rfl⟩ := h
        have h1 := hi _ _ _ hp.1 ha
        have h2 := hi _ _ _ hp.2 hb
        simp only [hgt]; omega
    | app l r' =>
      simp only [instF] at h
      split at h
      · simp only [Option.some.injEq] at h; subst h; omega
      · simp only [F0, Bool.and_eq_true] at hp
        simp only [Option.bind_eq_bind, Option.pure_def, Option.bind_eq_some_iff,
          Option.some.injEq] at h
        obtain ⟨a, ha, b, hb, rfl⟩ := h
        have h1 := hi _ _ _ hp.1 ha
        have h2 := hi _ _ _ hp.2 hb
        simp only [hgt]; omega
    | inst p' m =>
      simp only [F0, Bool.and_eq_true] at hp
      simp only [instF, Option.bind_eq_bind, Option.pure_def, Option.bind_eq_some_iff,
        Option.some.injEq] at h
      obtain ⟨m', hm', mvs, hmvs, rfl⟩ := h
      have h1 := hm _ _ _ hp.2 hm'
      have h2 : hgtMap (dedupKeys (δ.filter fun x => !(keys m).contains x.1 && mvs.contains x.1) [])
          ≤ hgtMap δ := by
        rw [hgtMap_le]
        intro kv hkv
        exact hgt_le_hgtMap δ kv (List.mem_filter.mp (mem_dedupKeys _ _ _ hkv)).1
      simp only [hgt, hgtMap_append]; omega
    | evar _ => simp [F0] at hp
    | svar _ => simp [F0] at hp
    | ex _ _ => simp [F0] at hp
    | mu _ _ => simp [F0] at hp
    | esub _ _ _ => simp [F0] at hp
    | ssub _ _ _ => simp [F0] at hp
  · intro δ m m' hsm h
    cases m with
    | nil => simp only [mapF, Option.some.injEq] at h; subst h; simp [hgtMap]
    | cons kv r =>
      obtain ⟨k, v⟩ := kv
      simp only [F0Map, Bool.and_eq_true] at hsm
      simp only [mapF, Option.bind_eq_bind, Option.pure_def, Option.bind_eq_some_iff,
        Option.some.injEq] at h
      obtain ⟨a, ha, b, hb, rfl⟩ := h
      have h1 := hi _ _ _ hsm.1 ha
      have h2 := hm _ _ _ hsm.2 hb
      simp only [hgtMap]; omega

theorem hgt_inst_all (n : Nat) :
    (∀ δ p r, F0 p = true → instF n δ p = some r → hgt r ≤ hgt p + hgtMap δ) ∧
    (∀ δ m m', F0Map m = true → mapF n δ m = some m' → hgtMap m' ≤ hgtMap m + hgtMap δ) := by
  induction n with
  | zero =>
    constructor
    · intro δ p r _ h; simp [instF] at h
    · intro δ m m' _ h; simp [mapF] at h
  | succ n ih => exact hgt_inst_step n ih.1 ih.2

theorem instF_hgt (n : Nat) (δ : List (Nat × NPat)) (p r : NPat) (hp : F0 p = true)
    (h : instF n δ p = some r) : hgt r ≤ hgt p + hgtMap δ := (hgt_inst_all n).1 δ p r hp h

end NPat

/-! ## termination on the fragment -/
namespace NPat

theorem mapF_term (δ : List (Nat × NPat)) (m : List (Nat × NPat))
    (h : ∀ kv ∈ m, ∃ n r, instF n δ kv.2 = some r) : ∃ n m', mapF n δ m = some m' := by
  induction m with
  | nil => exact ⟨1, [], rfl⟩
  | cons kv r ih =>
    obtain ⟨k, v⟩ := kv
    obtain ⟨n1, a, ha⟩ := h (k, v) (by simp)
    obtain ⟨n2, b, hb⟩ := ih (fun kv hkv => h kv (List.mem_cons_of_mem _ hkv))
    refine ⟨max n1 n2 + 1, (k, a) :: b, ?_⟩
    simp only [mapF, Option.bind_eq_bind, Option.pure_def]
    rw [instF_mono (Nat.le_max_left n1 n2) _ _ _ ha, mapF_mono (Nat.le_max_right n1 n2) _ _ _ hb]
    rfl

theorem term_all : ∀ (k : Nat) (p : NPat), hgt p < k → F0 p = true →
    (∀ δ, ∃ n r, instF n δ p = some r) ∧ (∃ n L, metavarsF n p = some L) := by
  intro k
  induction k with
  | zero => intro p h; omega
  | succ k ih =>
    intro p hk hp
    cases p with
    | sym x => exact ⟨fun δ => ⟨1, _, rfl⟩, ⟨1, _, rfl⟩⟩
    | mv id ef sf ps ns hs => exact ⟨fun δ => ⟨1, _, rfl⟩, ⟨1, _, rfl⟩⟩
    | imp l r =>
      simp only [F0, Bool.and_eq_true] at hp
      simp only [hgt] at hk
      obtain ⟨il, ml⟩ := ih l (by omega) hp.1
      obtain ⟨ir, mr⟩ := ih r (by omega) hp.2
      constructor
      · intro δ
        obtain ⟨n1, a, ha⟩ := il δ
        obtain ⟨n2, b, hb⟩ := ir δ
        by_cases hδ : δ.isEmpty = true
        · exact ⟨1, .imp l r, by simp [instF, hδ]⟩
        · refine ⟨max n1 n2 + 1, .imp a b, ?_⟩
          simp only [instF, hδ, Bool.false_eq_true, if_false, Option.bind_eq_bind, Option.pure_def]
          rw [instF_mono (Nat.le_max_left n1 n2) _ _ _ ha,
            instF_mono (Nat.le_max_right n1 n2) _ _ _ hb]
          rfl
      · obtain ⟨n1, a, ha⟩ := ml
        obtain ⟨n2, b, hb⟩ := mr
        refine ⟨max n1 n2 + 1, a ++ b, ?_⟩
        simp only [metavarsF, Option.bind_eq_bind, Option.pure_def]
        rw [metavarsF_mono (Nat.le_max_left n1 n2) _ _ ha,
          metavarsF_mono (Nat.le_max_right n1 n2) _ _ hb]
        rfl
    | app l r =>
      simp only [F0, Bool.and_eq_true] at hp
      simp only [hgt] at hk
      obtain ⟨il, ml⟩ := ih l (by omega) hp.1
      obtain ⟨ir, mr⟩ := ih r (by omega) hp.2
      constructor
      · intro δ
        obtain ⟨n1, a, ha⟩ := il δ
        obtain ⟨n2, b, hb⟩ := ir δ
        by_cases hδ : δ.isEmpty = true
        · exact ⟨1, .app l r, by simp [instF, hδ]⟩
        · refine ⟨max n1 n2 + 1, .app a b, ?_⟩
          simp only [instF, hδ, Bool.false_eq_true, if_false, Option.bind_eq_bind, Option.pure_def]
          rw [instF_mono (Nat.le_max_left n1 n2) _ _ _ ha,
            instF_mono (Nat.le_max_right n1 n2) _ _ _ hb]
          rfl
      · obtain ⟨n1, a, ha⟩ := ml
        obtain ⟨n2, b, hb⟩ := mr
        refine ⟨max n1 n2 + 1, a ++ b, ?_⟩
        simp only [metavarsF, Option.bind_eq_bind, Option.pure_def]
        rw [metavarsF_mono (Nat.le_max_left n1 n2) _ _ ha,
          metavarsF_mono (Nat.le_max_right n1 n2) _ _ hb]
        rfl
    | inst q m =>
      simp only [F0, Bool.and_eq_true] at hp
      simp only [hgt] at hk
      obtain ⟨iq, mq⟩ := ih q (by omega) hp.1
      constructor
      · intro δ
        obtain ⟨n1, m', hm'⟩ := mapF_term δ m (by
          intro kv hkv
          have h1 := hgt_le_hgtMap m kv hkv
          exact (ih kv.2 (by omega) ((F0Map_iff m).mp hp.2 kv hkv)).1 δ)
        obtain ⟨n2, mvs, hmvs⟩ := mq
        refine ⟨max n1 n2 + 1, .inst q (m' ++ dedupKeys
          (δ.filter fun x => !(keys m).contains x.1 && mvs.contains x.1) []), ?_⟩
        simp only [instF, Option.bind_eq_bind, Option.pure_def]
        rw [mapF_mono (Nat.le_max_left n1 n2) _ _ _ hm',
          metavarsF_mono (Nat.le_max_right n1 n2) _ _ hmvs]
        rfl
      · obtain ⟨n1, s, hs⟩ := iq m
        have hs0 := instF_F0 _ _ _ _ hp.1 hp.2 hs
        have hsh := instF_hgt _ _ _ _ hp.1 hs
        obtain ⟨n2, L, hL⟩ := (ih s (by omega) hs0).2
        refine ⟨max n1 n2 + 1, L, ?_⟩
        simp only [metavarsF, Option.bind_eq_bind]
        rw [instF_mono (Nat.le_max_left n1 n2) _ _ _ hs]
        exact metavarsF_mono (Nat.le_max_right n1 n2) _ _ hL
    | evar _ => simp [F0] at hp
    | svar _ => simp [F0] at hp
    | ex _ _ => simp [F0] at hp
    | mu _ _ => simp [F0] at hp
    | esub _ _ _ => simp [F0] at hp
    | ssub _ _ _ => simp [F0] at hp

/-- `instantiate` on the fragment terminates, stays in the fragment and is transparent -/
theorem instF_total (δ : List (Nat × NPat)) (p : NPat) (hp : F0 p = true) (hδ : F0Map δ = true) :
    ∃ n r, instF n δ p = some r ∧ F0 r = true ∧
      r.expand = Py.inst (Py.lookup (expand.expandMap δ)) p.expand := by
  obtain ⟨n, r, h⟩ := (term_all (hgt p + 1) p (by omega) hp).1 δ
  exact ⟨n, r, h, instF_F0 _ _ _ _ hp hδ h, (instF_expand _ _ _ _ (F0.shape p hp) (F0Map.shape δ hδ) h).1⟩

theorem headF_term : ∀ (k : Nat) (p : NPat), hgt p < k → F0 p = true → ∃ n q, headF n p = some q := by
  intro k
  induction k with
  | zero => intro p h; omega
  | succ k ih =>
    intro p hk hp
    cases p with
    | inst q m =>
      simp only [F0, Bool.and_eq_true] at hp
      simp only [hgt] at hk
      obtain ⟨n1, s, hs⟩ := (term_all (hgt q + 1) q (by omega) hp.1).1 m
      have hs0 := instF_F0 _ _ _ _ hp.1 hp.2 hs
      have hsh := instF_hgt _ _ _ _ hp.1 hs
      obtain ⟨n2, r, hr⟩ := ih s (by omega) hs0
      refine ⟨max n1 n2 + 1, r, ?_⟩
      simp only [headF, Option.bind_eq_bind]
      rw [instF_mono (Nat.le_max_left n1 n2) _ _ _ hs]
      exact headF_mono (Nat.le_max_right n1 n2) _ _ hr
    | _ => exact ⟨1, _, rfl⟩

theorem peqF_term : ∀ (k : Nat) (a b : NPat), hgt a + hgt b < k → F0 a = true → F0 b = true →
    ∃ n r, peqF n a b = some r := by
  intro k
  induction k with
  | zero => intro a b h; omega
  | succ k ih =>
    intro a b hk ha hb
    -- the two notation cases
    have left : ∀ q m (c : NPat), F0 (.inst q m) = true → F0 c = true →
        hgt (.inst q m) + hgt c < k + 1 → ∃ n r, peqF n (.inst q m) c = some r := by
      intro q m c hq hc hlt
      simp only [F0, Bool.and_eq_true] at hq
      simp only [hgt] at hlt
      obtain ⟨n1, s, hs⟩ := (term_all (hgt q + 1) q (by omega) hq.1).1 m
      have hs0 := instF_F0 _ _ _ _ hq.1 hq.2 hs
      have hsh := instF_hgt _ _ _ _ hq.1 hs
      obtain ⟨n2, r, hr⟩ := ih s c (by omega) hs0 hc
      refine ⟨max n1 n2 + 1, r, ?_⟩
      simp only [peqF, Option.bind_eq_bind]
      rw [instF_mono (Nat.le_max_left n1 n2) _ _ _ hs]
      exact peqF_mono (Nat.le_max_right n1 n2) _ _ _ hr
    have right : ∀ (c : NPat) q m, c.isInst = false → F0 (.inst q m) = true → F0 c = true →
        hgt c + hgt (.inst q m) < k + 1 → ∃ n r, peqF n c (.inst q m) = some r := by
      intro c q m hci hq hc hlt
      simp only [F0, Bool.and_eq_true] at hq
      simp only [hgt] at hlt
      obtain ⟨n1, s, hs⟩ := (term_all (hgt q + 1) q (by omega) hq.1).1 m
      have hs0 := instF_F0 _ _ _ _ hq.1 hq.2 hs
      have hsh := instF_hgt _ _ _ _ hq.1 hs
      obtain ⟨n2, r, hr⟩ := ih s c (by omega) hs0 hc
      refine ⟨max n1 n2 + 1, r, ?_⟩
      have e : peqF (max n1 n2 + 1) c (.inst q m)
          = (instF (max n1 n2) m q).bind fun s => peqF (max n1 n2) s c := by
        cases c <;> first | rfl | simp [isInst] at hci
      rw [e, instF_mono (Nat.le_max_left n1 n2) _ _ _ hs]
      exact peqF_mono (Nat.le_max_right n1 n2) _ _ _ hr
    have two : ∀ (l r l' r' : NPat), F0 l = true → F0 r = true → F0 l' = true → F0 r' = true →
        hgt l + hgt l' < k → hgt r + hgt r' < k →
        ∃ n res, ((peqF n l l').bind fun a => if a = true then peqF n r r' else pure false) = some res := by
      intro l r l' r' h1 h2 h3 h4 hl hr
      obtain ⟨n1, a1, e1⟩ := ih l l' hl h1 h3
      obtain ⟨n2, a2, e2⟩ := ih r r' hr h2 h4
      refine ⟨max n1 n2, if a1 = true then a2 else false, ?_⟩
      rw [peqF_mono (Nat.le_max_left n1 n2) _ _ _ e1]
      simp only [Option.bind_some]
      cases a1
      · simp
      · simpa using peqF_mono (Nat.le_max_right n1 n2) _ _ _ e2
    cases a with
    | inst q m => exact left q m b ha hb hk
    | sym x =>
      cases b with
      | inst q m => exact right _ q m rfl hb ha hk
      | sym y => exact ⟨1, _, rfl⟩
      | mv _ _ _ _ _ _ => exact ⟨1, _, rfl⟩
      | imp _ _ => exact ⟨1, _, rfl⟩
      | app _ _ => exact ⟨1, _, rfl⟩
      | evar _ => simp [F0] at hb
      | svar _ => simp [F0] at hb
      | ex _ _ => simp [F0] at hb
      | mu _ _ => simp [F0] at hb
      | esub _ _ _ => simp [F0] at hb
      | ssub _ _ _ => simp [F0] at hb
    | mv i ef sf ps ns hs =>
      cases b with
      | inst q m => exact right _ q m rfl hb ha hk
      | sym y => exact ⟨1, _, rfl⟩
      | mv _ _ _ _ _ _ => exact ⟨1, _, rfl⟩
      | imp _ _ => exact ⟨1, _, rfl⟩
      | app _ _ => exact ⟨1, _, rfl⟩
      | evar _ => simp [F0] at hb
      | svar _ => simp [F0] at hb
      | ex _ _ => simp [F0] at hb
      | mu _ _ => simp [F0] at hb
      | esub _ _ _ => simp [F0] at hb
      | ssub _ _ _ => simp [F0] at hb
    | imp l r =>
      cases b with
      | inst q m => exact right _ q m rfl hb ha hk
      | sym y => exact ⟨1, _, rfl⟩
      | mv _ _ _ _ _ _ => exact ⟨1, _, rfl⟩
      | imp l' r' =>
        simp only [F0, Bool.and_eq_true] at ha hb
        simp only [hgt] at hk
        obtain ⟨n, res, h⟩ := two l r l' r' ha.1 ha.2 hb.1 hb.2 (by omega) (by omega)
        exact ⟨n + 1, res, by simpa [peqF] using h⟩
      | app _ _ => exact ⟨1, _, rfl⟩
      | evar _ => simp [F0] at hb
      | svar _ => simp [F0] at hb
      | ex _ _ => simp [F0] at hb
      | mu _ _ => simp [F0] at hb
      | esub _ _ _ => simp [F0] at hb
      | ssub _ _ _ => simp [F0] at hb
    | app l r =>
      cases b with
      | inst q m => exact right _ q m rfl hb ha hk
      | sym y => exact ⟨1, _, rfl⟩
      | mv _ _ _ _ _ _ => exact ⟨1, _, rfl⟩
      | app l' r' =>
        simp only [F0, Bool.and_eq_true] at ha hb
        simp only [hgt] at hk
        obtain ⟨n, res, h⟩ := two l r l' r' ha.1 ha.2 hb.1 hb.2 (by omega) (by omega)
        exact ⟨n + 1, res, by simpa [peqF] using h⟩
      | imp _ _ => exact ⟨1, _, rfl⟩
      | evar _ => simp [F0] at hb
      | svar _ => simp [F0] at hb
      | ex _ _ => simp [F0] at hb
      | mu _ _ => simp [F0] at hb
      | esub _ _ _ => simp [F0] at hb
      | ssub _ _ _ => simp [F0] at hb
    | evar _ => simp [F0] at ha
    | svar _ => simp [F0] at ha
    | ex _ _ => simp [F0] at ha
    | mu _ _ => simp [F0] at ha
    | esub _ _ _ => simp [F0] at ha
    | ssub _ _ _ => simp [F0] at ha

end NPat

namespace NPat

theorem peqF_total (a b : NPat) (ha : F0 a = true) (hb : F0 b = true) :
    ∃ n, peqF n a b = some (decide (a.expand = b.expand)) := by
  obtain ⟨n, r, h⟩ := peqF_term (hgt a + hgt b + 1) a b (by omega) ha hb
  have := peqF_expand n a b r (F0.shape a ha) (F0.shape b hb) h
  exact ⟨n, by rw [h, this]⟩

theorem headF_total (p : NPat) (hp : F0 p = true) :
    ∃ n q, headF n p = some q ∧ F0 q = true ∧ q.isInst = false ∧ q.expand = p.expand := by
  obtain ⟨n, q, h⟩ := headF_term (hgt p + 1) p (by omega) hp
  obtain ⟨h1, h2⟩ := headF_F0 n p q hp h
  exact ⟨n, q, h, h1, h2, (headF_expand n p q (F0.shape p hp) h).1⟩

theorem pyMP_total (a b : NPat) (C : Pat) (ha : F0 a = true) (hb : F0 b = true)
    (he : a.expand = .imp b.expand C) :
    ∃ n c, pyMP n a b = some (some c) ∧ c.expand = C ∧ F0 c = true := by
  obtain ⟨n1, q, hq, hq0, hqi, hqe⟩ := headF_total a ha
  rw [he] at hqe
  cases q with
  | imp l r =>
    simp only [F0, Bool.and_eq_true] at hq0
    simp only [expand, Pat.imp.injEq] at hqe
    obtain ⟨n2, hp⟩ := peqF_total l b hq0.1 hb
    rw [hqe.1] at hp
    simp only [decide_true] at hp
    refine ⟨max n1 n2, r, ?_, hqe.2, hq0.2⟩
    simp only [pyMP, Option.bind_eq_bind, Option.pure_def]
    rw [headF_mono (Nat.le_max_left n1 n2) _ _ hq]
    simp only [Option.bind_some]
    rw [peqF_mono (Nat.le_max_right n1 n2) _ _ _ hp]
    rfl
  | inst _ _ => simp [isInst] at hqi
  | sym _ => simp [expand] at hqe
  | mv _ _ _ _ _ _ => simp [expand] at hqe
  | app _ _ => simp [expand] at hqe
  | evar _ => simp [F0] at hq0
  | svar _ => simp [F0] at hq0
  | ex _ _ => simp [F0] at hq0
  | mu _ _ => simp [F0] at hq0
  | esub _ _ _ => simp [F0] at hq0
  | ssub _ _ _ => simp [F0] at hq0

end NPat

/-! ## the machine never rejects an instantiation of a simple pattern -/

/-- symbols, metavariables without constraints, `imp`, `app` -/
def Pat.Simple : Pat → Bool
  | .sym _ => true
  | .mv _ ef sf ps ns _ => ef.isEmpty && sf.isEmpty && ps.isEmpty && ns.isEmpty
  | .imp l r => l.Simple && r.Simple
  | .app l r => l.Simple && r.Simple
  | _ => false

theorem Pat.inst_simple (θ : VId → Option Pat) (p : Pat) (hp : p.Simple = true) :
    (Pat.inst θ p).isSome = true := by
  induction p with
  | sym _ => simp [Pat.inst]
  | mv id ef sf ps ns hs =>
    simp only [Pat.Simple, Bool.and_eq_true, List.isEmpty_iff] at hp
    obtain ⟨⟨⟨rfl, rfl⟩, rfl⟩, rfl⟩ := hp
    simp only [Pat.inst]
    cases θ id <;> simp [Pat.okPlug]
  | imp l r ihl ihr =>
    simp only [Pat.Simple, Bool.and_eq_true] at hp
    obtain ⟨a, ha⟩ := Option.isSome_iff_exists.mp (ihl hp.1)
    obtain ⟨b, hb⟩ := Option.isSome_iff_exists.mp (ihr hp.2)
    simp [Pat.inst, ha, hb]
  | app l r ihl ihr =>
    simp only [Pat.Simple, Bool.and_eq_true] at hp
    obtain ⟨a, ha⟩ := Option.isSome_iff_exists.mp (ihl hp.1)
    obtain ⟨b, hb⟩ := Option.isSome_iff_exists.mp (ihr hp.2)
    simp [Pat.inst, ha, hb]
  | _ => simp [Pat.Simple] at hp

theorem Py.inst_simple (δ : VId → Option Pat) (hδ : ∀ k v, δ k = some v → v.Simple = true)
    (q : Pat) (hq : q.Simple = true) : (Py.inst δ q).Simple = true := by
  induction q with
  | sym _ => simp [Py.inst, Pat.Simple]
  | mv id ef sf ps ns hs =>
    simp only [Py.inst]
    cases h : δ id with
    | none => simpa using hq
    | some v => simpa using hδ _ _ h
  | imp l r ihl ihr =>
    simp only [Pat.Simple, Bool.and_eq_true] at hq
    simp [Py.inst, Pat.Simple, ihl hq.1, ihr hq.2]
  | app l r ihl ihr =>
    simp only [Pat.Simple, Bool.and_eq_true] at hq
    simp [Py.inst, Pat.Simple, ihl hq.1, ihr hq.2]
  | _ => simp [Pat.Simple] at hq

namespace NPat

mutual
theorem F0.simple : (p : NPat) → p.F0 = true → p.expand.Simple = true
  | .sym _, _ => rfl
  | .mv _ _ _ _ _ _, h => by
    simp only [F0, Bool.and_eq_true] at h
    simp [expand, Pat.Simple, h.1.1.1.1, h.1.1.1.2, h.1.1.2, h.1.2]
  | .imp l r, h => by
    simp only [F0, Bool.and_eq_true] at h
    simp [expand, Pat.Simple, F0.simple l h.1, F0.simple r h.2]
  | .app l r, h => by
    simp only [F0, Bool.and_eq_true] at h
    simp [expand, Pat.Simple, F0.simple l h.1, F0.simple r h.2]
  | .inst p m, h => by
    simp only [F0, Bool.and_eq_true] at h
    simp only [expand]
    exact Py.inst_simple _ (F0Map.simple m h.2) _ (F0.simple p h.1)
  | .evar _, h => by simp [F0] at h
  | .svar _, h => by simp [F0] at h
  | .ex _ _, h => by simp [F0] at h
  | .mu _ _, h => by simp [F0] at h
  | .esub _ _ _, h => by simp [F0] at h
  | .ssub _ _ _, h => by simp [F0] at h
theorem F0Map.simple : (m : List (Nat × NPat)) → F0Map m = true →
    ∀ k v, Py.lookup (expand.expandMap m) k = some v → v.Simple = true
  | [], _ => by simp [expand.expandMap, Py.lookup]
  | (k, v) :: r, h => by
    simp only [F0Map, Bool.and_eq_true] at h
    intro i w hw
    simp only [expand.expandMap, Py.lookup] at hw
    split at hw
    · cases hw; exact F0.simple v h.1
    · exact F0Map.simple r h.2 i w hw
end

end NPat
