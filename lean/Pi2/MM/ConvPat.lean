import Pi2.MM.ConvPass1
/-!
# `_resolve`, `_resolve_as_callable`, `_to_pattern`: the closure a term is converted to
-/
set_option linter.unusedSimpArgs false
set_option linter.unusedVariables false
open MM SliceSup ConvSup Gen.MMConv

namespace ConvTie

/-! ## the symbols seen so far -/
def symData (σ : String → Nat) (S : List String) : PyDict NPat := S.map fun s => (s, mkSymbol σ s)

/-- the converter with the symbols `S` registered (all of them through the "missing declaration" path of `_resolve`) -/
def withSyms (σ : String → Nat) (c : ConvObj) (S : List String) : ConvObj :=
  { c with _symbols := ⟨symData σ S, some PyType.Symbol⟩, _missing_declarations := S }

structure SymState (σ : String → Nat) (c : ConvObj) (S : List String) : Prop where
  syms : c._symbols = ⟨symData σ S, some PyType.Symbol⟩
  missing : c._missing_declarations = S

theorem withSyms_self (σ : String → Nat) (c : ConvObj) (S : List String) (h : SymState σ c S) : withSyms σ c S = c := by
  cases c
  simp only [withSyms]
  have h1 := h.syms
  have h2 := h.missing
  simp only [] at h1 h2
  simp [h1, h2]

theorem symState_withSyms (σ : String → Nat) (c : ConvObj) (S : List String) : SymState σ (withSyms σ c S) S := ⟨rfl, rfl⟩
theorem withSyms_withSyms (σ : String → Nat) (c : ConvObj) (S T : List String) : withSyms σ (withSyms σ c S) T = withSyms σ c T := rfl

theorem symData_keys (σ : String → Nat) (S : List String) : (symData σ S).map (·.1) = S := by
  simp [symData, Function.comp_def]

theorem symData_lookup (σ : String → Nat) (S : List String) (s : String) (h : s ∈ S) :
    (symData σ S).lookup s = some (mkSymbol σ s) := by
  induction S with
  | nil => simp at h
  | cons x S ih =>
    simp only [symData, List.map_cons, List.lookup]
    by_cases e : s = x
    · subst e; simp
    · have : (s == x) = false := by simp [e]
      simp only [this]
      exact ih (by simpa [e] using h)

theorem vdHas_symData (σ : String → Nat) (S : List String) (s : String) :
    vdHas ⟨symData σ S, some PyType.Symbol⟩ s = decide (s ∈ S) := by
  have := dictHas_iff (symData σ S) s
  rw [symData_keys] at this
  simp only [vdHas]
  by_cases h : s ∈ S
  · simp [h, this.mpr h]
  · simp only [h, decide_false]
    cases hh : dictHas (symData σ S) s
    · rfl
    · exact absurd (this.mp hh) h

/-- `_resolve` on a name that is (or becomes) a symbol -/
theorem resolve_const (σ : String → Nat) (fuel : Nat) (c : ConvObj) (S : List String) (scope : ScopeObj) (s : String)
    (hS : SymState σ c S) (hK : s ∈ c._declared_constants) :
    _resolve σ fuel c scope s = .ok (withSyms σ c (setAdd S s), mkSymbol σ s) := by
  by_cases hs : s ∈ S
  · rw [setAdd_mem S s hs, withSyms_self σ c S hS]
    simp [_resolve, _is_symbol, hS.syms, vdHas_symData, hs, vdGet, dictGet, ofOption, symData_lookup σ S s hs, bind, Res.bind, pure]
  · rw [setAdd_new S s hs]
    have hfit : vdFits (some PyType.Symbol) (mkSymbol σ s) = true := rfl
    have hnew : s ∉ (symData σ S).map (·.1) := by rw [symData_keys]; exact hs
    have hd : symData σ S ++ [(s, mkSymbol σ s)] = symData σ (S ++ [s]) := by simp [symData]
    have hl : (symData σ (S ++ [s])).lookup s = some (mkSymbol σ s) := symData_lookup σ _ s (by simp)
    have hK' : c._declared_constants.contains s = true := by simpa using hK
    simp [_resolve, _is_symbol, hS.syms, vdHas_symData, hs, hK, _add_symbol, vdSet, hfit, dictSet_new _ _ _ hnew, hd,
      vdGet, dictGet, ofOption, hl, bind, Res.bind, pure, withSyms, hS.missing, setAdd_new S s hs]

/-- `_resolve` on a name that is neither a symbol nor a constant: the scope decides -/
theorem resolve_var (σ : String → Nat) (fuel : Nat) (c : ConvObj) (S : List String) (scope : ScopeObj) (v : String)
    (hS : SymState σ c S) (hs : v ∉ S) (hK : v ∉ c._declared_constants) :
    _resolve σ fuel c scope v = (Scope_resolve σ fuel scope v >>= fun p => .ok (c, p)) := by
  simp [_resolve, _is_symbol, hS.syms, vdHas_symData, hs, hK, bind, Res.bind, pure]

theorem resolve_ro_var (σ : String → Nat) (fuel : Nat) (view : SelfView) (S : List String) (scope : ScopeObj) (v : String)
    (hS : view._symbols = ⟨symData σ S, some PyType.Symbol⟩) (hs : v ∉ S) (hK : v ∉ view._declared_constants) :
    _resolve_ro σ fuel view scope v = Scope_resolve σ fuel scope v := by
  simp [_resolve_ro, _is_symbol_ro, hS, vdHas_symData, hs, hK, bind, Res.bind, pure]

/-- `Scope.resolve` of a metavariable -/
theorem scope_resolve_mv (σ : String → Nat) (fuel : Nat) (scope : ScopeObj) (v : String) (p : NPat)
    (h : scope._metavars.data.lookup v = some p) : Scope_resolve σ fuel scope v = .ok p := by
  simp [Scope_resolve, vdHas, dictHas, h, vdGet, dictGet, ofOption, bind, Res.bind, pure]

/-! ## the built-in notations -/
structure GoodNotations (N : PyDict (List Notation)) : Prop where
  keys : ∀ s, dictHas N s = (s == "\\app" || s == "\\imp" || s == "\\exists" || s == "\\mu")
  imp : ∃ n : Notation, N.lookup "\\imp" = some [n] ∧
    ∀ view a b, n.type_check view [a, b] = .ok true ∧ n.callable view [a, b] = .ok (.imp a b)
  app : ∃ n : Notation, N.lookup "\\app" = some [n] ∧
    ∀ view a b, n.type_check view [a, b] = .ok true ∧ n.callable view [a, b] = .ok (.app a b)

theorem resolve_notation_single (σ : String → Nat) (fuel : Nat) (scope : ScopeObj) (name : String) (n : Notation) (args : List NPat)
    (h : scope._notations.lookup name = some [n]) : Scope_resolve_notation σ fuel scope name args = .ok n := by
  simp [Scope_resolve_notation, dictHas, h, dictGet, ofOption, bind, Res.bind, pure]

theorem notation_call_ok (σ : String → Nat) (fuel : Nat) (n : Notation) (view : SelfView) (args : List NPat) (p : NPat)
    (h1 : n.type_check view args = .ok true) (h2 : n.callable view args = .ok p) :
    Notation_call σ fuel n view args = .ok p := by
  simp [Notation_call, h1, h2, bind, Res.bind, pure]

/-! ## `_resolve_as_callable` -/
/-- what a closure computes: on arguments that give each variable of `names` its value, the pattern `P val` -/
def ClosureSpec (f : Closure) (names : List String) (P : (String → NPat) → NPat) : Prop :=
  ∀ (view : SelfView) (args : List NPat) (val : String → NPat),
    (∀ v ∈ names, args[names.idxOf v]? = some (val v)) → f view args = .ok (P val)

theorem resolve_as_callable_arg (σ : String → Nat) (fuel : Nat) (c : ConvObj) (ns : ScopeObj) (v : String) (hv : v ∈ ns._args) :
    ∃ f, _resolve_as_callable σ fuel c ns v = .ok (c, f) ∧ ClosureSpec f ns._args (fun val => val v) := by
  refine ⟨_, by simp [_resolve_as_callable, NotationScope_is_arg, hv, bind, Res.bind, pure]; rfl, ?_⟩
  intro view args val hval
  have h := hval v hv
  have hlt : ns._args.idxOf v < args.length := by
    rcases Nat.lt_or_ge (ns._args.idxOf v) args.length with h' | h'
    · exact h'
    · rw [List.getElem?_eq_none h'] at h; cases h
  simp [ConvSup.pyAssert, hlt, listGet, ofOption, h, bind, Res.bind, pure]
  rw [List.getElem?_eq_getElem hlt] at h
  exact Option.some.inj h

theorem resolve_as_callable_const (σ : String → Nat) (fuel : Nat) (c : ConvObj) (S : List String) (ns : ScopeObj) (s : String)
    (hS : SymState σ c S) (hK : s ∈ c._declared_constants) (hv : s ∉ ns._args) :
    ∃ f, _resolve_as_callable σ fuel c ns s = .ok (withSyms σ c (setAdd S s), f) ∧
      ∀ view args, f view args = .ok (mkSymbol σ s) := by
  refine ⟨_, by simp [_resolve_as_callable, NotationScope_is_arg, hv, bind, Res.bind, pure, resolve_const σ fuel c S ns s hS hK]; rfl, ?_⟩
  intro view args
  rfl

end ConvTie

namespace ConvTie

/-! ## `_to_pattern` -/
mutual
def tsize : MTerm → Nat
  | .mv _ => 1
  | .app _ args => 1 + tsizes args
def tsizes : List MTerm → Nat
  | [] => 0
  | t :: ts => tsize t + tsizes ts
end

theorem tsize_pos : ∀ t : MTerm, 0 < tsize t
  | .mv _ => by simp [tsize]
  | .app _ _ => by simp [tsize]; omega

theorem tsizes_ge_length : ∀ ts : List MTerm, ts.length ≤ tsizes ts
  | [] => by simp [tsizes]
  | t :: ts => by
      have := tsizes_ge_length ts
      have := tsize_pos t
      simp [tsizes]; omega

theorem tsize_le_tsizes {t : MTerm} : ∀ {ts : List MTerm}, t ∈ ts → tsize t ≤ tsizes ts
  | x :: xs, h => by
      simp only [List.mem_cons] at h
      simp only [tsizes]
      rcases h with rfl | h
      · omega
      · have := tsize_le_tsizes h; omega

def isBuiltin (s : String) : Bool := s == "\\app" || s == "\\imp" || s == "\\exists" || s == "\\mu"

mutual
/-- the constants `_resolve` meets while a term is converted, in that order -/
def symsOf : MTerm → List String
  | .mv _ => []
  | .app s args => if s = "\\imp" ∨ s = "\\app" then symsOfL args else s :: symsOfL args
def symsOfL : List MTerm → List String
  | [] => []
  | t :: ts => symsOf t ++ symsOfL ts
end

mutual
/-- a term of the fragment over the constants `K` and the variables `names` -/
def wfTerm (K names : List String) : MTerm → Bool
  | .mv v => names.contains v && !isBuiltin v
  | .app s args =>
      if s = "\\imp" ∨ s = "\\app" then args.length == 2 && wfTerms K names args
      else !isBuiltin s && K.contains s && !names.contains s && wfTerms K names args
def wfTerms (K names : List String) : List MTerm → Bool
  | [] => true
  | t :: ts => wfTerm K names t && wfTerms K names ts
end

mutual
/-- the pattern a term stands for, given the patterns of its variables -/
def patOf (σ : String → Nat) (val : String → NPat) : MTerm → NPat
  | .mv v => val v
  | .app s args =>
      if s = "\\imp" then
        (match patsOf σ val args with | [p, q] => .imp p q | _ => .evar 0)
      else if s = "\\app" then
        (match patsOf σ val args with | [p, q] => .app p q | _ => .evar 0)
      else (patsOf σ val args).foldl (fun acc p => .app acc p) (.sym (σ s))
def patsOf (σ : String → Nat) (val : String → NPat) : List MTerm → List NPat
  | [] => []
  | t :: ts => patOf σ val t :: patsOf σ val ts
end

theorem patsOf_length (σ : String → Nat) (val : String → NPat) : ∀ ts : List MTerm, (patsOf σ val ts).length = ts.length
  | [] => rfl
  | _ :: ts => by simp [patsOf, patsOf_length σ val ts]

theorem setUnion_append (S a b : List String) : setUnion (setUnion S a) b = setUnion S (a ++ b) := by
  simp [setUnion, List.foldl_append]

/-- a list of closures computes the patterns of a list of terms -/
def ClosuresSpec (σ : String → Nat) : List Closure → List String → List MTerm → Prop
  | [], _, [] => True
  | f :: fs, names, t :: ts => ClosureSpec f names (fun val => patOf σ val t) ∧ ClosuresSpec σ fs names ts
  | _, _, _ => False

theorem mapR_closures (σ : String → Nat) (names : List String) (view : SelfView) (args : List NPat) (val : String → NPat)
    (hval : ∀ v ∈ names, args[names.idxOf v]? = some (val v)) :
    ∀ (fs : List Closure) (ts : List MTerm), ClosuresSpec σ fs names ts →
      mapR fs (fun f => f view args) = .ok (patsOf σ val ts) := by
  intro fs
  induction fs with
  | nil => intro ts h; cases ts with
    | nil => rfl
    | cons _ _ => exact absurd h (by simp [ClosuresSpec])
  | cons f fs ih =>
    intro ts h
    cases ts with
    | nil => exact absurd h (by simp [ClosuresSpec])
    | cons t ts =>
      obtain ⟨hf, hfs⟩ := h
      have := ih ts hfs
      simp only [mapR, List.mapM_cons, bind, Res.bind, pure, patsOf] at this ⊢
      rw [hf view args val hval]
      simp only [this]

theorem whileM_list {α β : Type} (cond : List α × β → Bool) (body : List α × β → Res (List α × β)) (R : List α → β → Prop)
    (hcond : ∀ xs b, cond (xs, b) = decide (xs.length > 0))
    (hstep : ∀ x xs b, R (x :: xs) b → ∃ b', body (x :: xs, b) = .ok (xs, b') ∧ R xs b') :
    ∀ (xs : List α) (b : β) (fuel : Nat), R xs b → fuel > xs.length →
      ∃ b', whileM cond body fuel (xs, b) = .ok ([], b') ∧ R [] b' := by
  intro xs
  induction xs with
  | nil =>
    intro b fuel hR hf
    cases fuel with
    | zero => omega
    | succ n => exact ⟨b, by simp [whileM, hcond], hR⟩
  | cons x xs ih =>
    intro b fuel hR hf
    cases fuel with
    | zero => omega
    | succ n =>
      obtain ⟨b', hb, hR'⟩ := hstep x xs b hR
      obtain ⟨b'', hw, hR''⟩ := ih b' n hR' (by simp at hf; omega)
      exact ⟨b'', by simp [whileM, hcond, hb, hw, bind, Res.bind], hR''⟩

end ConvTie

namespace ConvTie

/-- the loop of `_to_pattern` that applies a symbol to its converted arguments (`while len(converted_args) > 0:` with the local
function `resolve_as_app` inlined): the text of `Pi2/Gen/MMConv.lean`, checked by `rfl` where it is used -/
def appStep (σ : String → Nat) (fuel : Nat) (scope : ScopeObj) : List Closure × Closure → Res (List Closure × Closure) :=
  fun (converted_args, current_callable) => do
    let (next_one, converted_args) ← headRest converted_args
    let current_callable ← (do
      let app ← Scope_resolve_notation σ fuel scope "\\app" []
      let symbol_application : Closure := fun view args => do
        let real_args := [(← current_callable view args), (← next_one view args)]
        pure (← Notation_call σ fuel app view real_args)
      pure symbol_application)
    pure (converted_args, current_callable)

theorem is_notation_eq (σ : String → Nat) (fuel : Nat) (ns : ScopeObj) (hN : GoodNotations ns._notations) (s : String) :
    Scope_is_notation σ fuel ns s = isBuiltin s := by
  simp [Scope_is_notation, hN.keys, isBuiltin]

theorem to_pattern_ok (σ : String → Nat) (ns : ScopeObj) (hN : GoodNotations ns._notations) :
    ∀ (F : Nat) (t : MTerm) (c : ConvObj) (S : List String), tsize t < F → SymState σ c S →
      wfTerm c._declared_constants ns._args t = true →
      ∃ f, _to_pattern σ F c ns t = .ok (withSyms σ c (setUnion S (symsOf t)), f) ∧
        ClosureSpec f ns._args (fun val => patOf σ val t) := by
  intro F
  induction F with
  | zero => intro t _ _ h; omega
  | succ f ih =>
    -- the list version at fuel `f`
    have hlist : ∀ (ts : List MTerm) (c : ConvObj) (S : List String), (∀ t ∈ ts, tsize t < f) → SymState σ c S →
        wfTerms c._declared_constants ns._args ts = true →
        ∃ fs, mapS ts c (fun c a => _to_pattern σ f c ns a) = .ok (withSyms σ c (setUnion S (symsOfL ts)), fs) ∧
          ClosuresSpec σ fs ns._args ts := by
      intro ts
      induction ts with
      | nil =>
        intro c S _ hS _
        exact ⟨[], by simp [mapS, symsOfL, setUnion, withSyms_self σ c S hS], trivial⟩
      | cons t ts iht =>
        intro c S hsz hS hwf
        simp only [wfTerms, Bool.and_eq_true] at hwf
        obtain ⟨g, hg, hgs⟩ := ih t c S (hsz t (by simp)) hS hwf.1
        obtain ⟨gs, hgs1, hgs2⟩ := iht (withSyms σ c (setUnion S (symsOf t))) (setUnion S (symsOf t))
          (fun t' ht' => hsz t' (by simp [ht'])) (symState_withSyms σ c _) hwf.2
        refine ⟨g :: gs, ?_, hgs, hgs2⟩
        simp only [mapS, hg, hgs1, bind, Res.bind, pure, withSyms_withSyms, symsOfL, setUnion_append]
    intro t c S hsz hS hwf
    cases t with
    | mv v =>
      simp only [wfTerm, Bool.and_eq_true, List.contains_eq_mem, decide_eq_true_eq, Bool.not_eq_true'] at hwf
      obtain ⟨g, hg, hgs⟩ := resolve_as_callable_arg σ f c ns v hwf.1
      refine ⟨fun view args => g view args, ?_, hgs⟩
      simp [_to_pattern, is_notation_eq σ f ns hN, hwf.2, hg, bind, Res.bind, pure, symsOf, setUnion, withSyms_self σ c S hS]
    | app s args =>
      have hargs : ∀ t ∈ args, tsize t < f := by
        intro t ht
        have := tsize_le_tsizes ht
        simp only [tsize] at hsz
        omega
      by_cases hb : s = "\\imp" ∨ s = "\\app"
      · -- a built-in binary notation
        simp only [wfTerm, hb, if_true, Bool.and_eq_true, beq_iff_eq] at hwf
        obtain ⟨gs, hgs1, hgs2⟩ := hlist args c S hargs hS hwf.2
        have hbi : isBuiltin s = true := by rcases hb with rfl | rfl <;> decide
        refine ⟨_, by simp [_to_pattern, is_notation_eq σ f ns hN, hbi, hgs1, bind, Res.bind, pure, symsOf, hb]; rfl, ?_⟩
        intro view vargs val hval
        have hm := mapR_closures σ ns._args view vargs val hval gs args hgs2
        have hlen := patsOf_length σ val args
        rw [hwf.1] at hlen
        match hp : patsOf σ val args, hlen with
        | [p, q], _ =>
          rcases hb with rfl | rfl
          · obtain ⟨n, hn1, hn2⟩ := hN.imp
            simp [hm, hp, resolve_notation_single σ f ns _ n _ hn1, notation_call_ok σ f n view [p, q] _ (hn2 view p q).1 (hn2 view p q).2,
              bind, Res.bind, pure, patOf]
          · obtain ⟨n, hn1, hn2⟩ := hN.app
            have hne : ("\\app" : String) ≠ "\\imp" := by decide
            simp [hm, hp, resolve_notation_single σ f ns _ n _ hn1, notation_call_ok σ f n view [p, q] _ (hn2 view p q).1 (hn2 view p q).2,
              bind, Res.bind, pure, patOf, hne]
      · -- a constructor: its symbol applied to the arguments
        simp only [wfTerm, hb, if_false, Bool.and_eq_true, Bool.not_eq_true', List.contains_eq_mem, decide_eq_true_eq,
          decide_eq_false_iff_not] at hwf
        obtain ⟨⟨⟨hnb, hK⟩, hna⟩, hwfa⟩ := hwf
        obtain ⟨g, hg, hgc⟩ := resolve_as_callable_const σ f c S ns s hS hK hna
        have hmiss : (withSyms σ c (setAdd S s))._missing_declarations.contains s = true := by
          simp [withSyms, mem_setAdd]
        have hs1 : s ≠ "\\imp" := fun e => hb (Or.inl e)
        have hs2 : s ≠ "\\app" := fun e => hb (Or.inr e)
        cases hargs0 : args with
        | nil =>
          refine ⟨g, ?_, ?_⟩
          · simp [_to_pattern, is_notation_eq σ f ns hN, hnb, hg, bind, Res.bind, pure, symsOf, hb, symsOfL]
            rfl
          · intro view vargs val _
            simp [hgc, patOf, hs1, hs2, patsOf, mkSymbol]
        | cons a as =>
          rw [← hargs0]
          obtain ⟨gs, hgs1, hgs2⟩ := hlist args (withSyms σ c (setAdd S s)) (setAdd S s) hargs (symState_withSyms σ c _) hwfa
          -- the loop that applies the symbol to the converted arguments one by one
          let R : List Closure → Closure → Prop := fun fs cur =>
            ∃ (ts : List MTerm) (P : (String → NPat) → NPat), ClosuresSpec σ fs ns._args ts ∧ ClosureSpec cur ns._args P ∧
              (fun val => (patsOf σ val ts).foldl (fun acc p => NPat.app acc p) (P val)) =
                (fun val => (patsOf σ val args).foldl (fun acc p => NPat.app acc p) (NPat.sym (σ s)))
          obtain ⟨napp, hn1, hn2⟩ := hN.app
          have hlen : 0 < args.length := by rw [hargs0]; simp
          have hfuel : f > gs.length := by
            have h1 : gs.length = args.length := by
              clear hgs1
              revert hgs2
              generalize args = xs
              induction gs generalizing xs with
              | nil => intro h; cases xs with
                | nil => rfl
                | cons _ _ => exact absurd h (by simp [ClosuresSpec])
              | cons _ _ ihg => intro h; cases xs with
                | nil => exact absurd h (by simp [ClosuresSpec])
                | cons _ xs => simp [ihg xs h.2]
            have := tsizes_ge_length args
            simp only [tsize] at hsz
            omega
          have hloop := whileM_list
            (fun (x : List Closure × Closure) => match x with | (converted_args, current_callable) => decide (converted_args.length > 0))
            (appStep σ f ns) R (fun xs b => rfl) ?_ gs g f
            ⟨args, fun _ => NPat.sym (σ s), hgs2, (fun view vargs val _ => by simp [hgc, mkSymbol]), rfl⟩ hfuel
          · obtain ⟨cur', hw, ts', P', hts', hP', hfin⟩ := hloop
            cases ts' with
            | cons _ _ => exact absurd hts' (by simp [ClosuresSpec])
            | nil =>
              refine ⟨cur', ?_, ?_⟩
              · have hgt : decide (args.length > 0) = true := by simpa using hlen
                simp only [_to_pattern, is_notation_eq σ f ns hN, hnb, hg, bind, Res.bind, pure, hmiss, hgt, Bool.and_self, if_true,
                  Bool.false_eq_true, if_false, hgs1, withSyms_withSyms]
                unfold appStep at hw
                simp only [bind, Res.bind, pure] at hw
                simp only [hw]
                simp [symsOf, hb, setUnion]
              · intro view vargs val hval
                rw [hP' view vargs val hval]
                have := congrFun hfin val
                simp only [patsOf, List.foldl_nil] at this
                simp [this, patOf, hs1, hs2]
          · -- one round of the loop
            intro x xs cur ⟨ts, P, hts, hP, hfin⟩
            cases ts with
            | nil => exact absurd hts (by simp [ClosuresSpec])
            | cons t ts =>
              refine ⟨_, by simp [appStep, headRest, resolve_notation_single σ f ns _ napp _ hn1, bind, Res.bind, pure]; rfl, ts,
                (fun val => NPat.app (P val) (patOf σ val t)), hts.2, ?_, ?_⟩
              · intro view vargs val hval
                simp [hP view vargs val hval, hts.1 view vargs val hval,
                  notation_call_ok σ f napp view [P val, patOf σ val t] _ (hn2 view _ _).1 (hn2 view _ _).2, bind, Res.bind, pure]
              · rw [← hfin]
                funext val
                simp [patsOf]

end ConvTie
