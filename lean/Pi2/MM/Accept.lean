import Pi2.MM.Sim
/-!
# T2: the checker accepts the translation; the side conditions of every call are derived
-/
set_option linter.unusedSimpArgs false
set_option linter.unusedVariables false
open Pat PySt NPat

namespace MM

/-! ## the calls of the proof phase -/

/-- the calls `exec_proof` makes before `publish_proof` -/
def Allowed : Call → Prop
  | .metavar _ ef sf ps ns hs => ef = [] ∧ sf = [] ∧ ps = [] ∧ ns = [] ∧ hs = []
  | .implies => True | .app => True | .save => True | .pop => True
  | .prop1 => True | .prop2 => True | .mp => True
  | .instantiate keys => keys.Nodup
  | .instantiatePattern keys => keys.Nodup
  | .load t => t.body.F0 = true
  | _ => False

/-- the tracker's state in the proof phase: no residues, everything in the fragment -/
structure PInv (s : PySt) : Prop where
  phase : s.phase = .proof
  nores : ∀ e ∈ s.stack, e.2 = false
  sf : StF0 s

theorem PInv.setStack {s : PySt} (h : PInv s) (S : List (TTerm × Bool))
    (hS : ∀ e ∈ S, e.2 = false ∧ e.1.body.F0 = true) : PInv { s with stack := S } :=
  ⟨h.phase, fun e he => (hS e he).1, h.sf.setStack S (fun e he => (hS e he).2)⟩

theorem PInv.cons {s : PySt} (h : PInv s) (t : TTerm) (st : List (TTerm × Bool))
    (ht : t.body.F0 = true) (hst : ∀ e ∈ st, e ∈ s.stack) :
    PInv { s with stack := (t, false) :: st } := by
  apply h.setStack
  intro e he
  rcases List.mem_cons.mp he with rfl | he
  · exact ⟨rfl, ht⟩
  · exact ⟨h.nores e (hst e he), h.sf.1 e (hst e he)⟩

theorem takePlugs_len : ∀ (k : Nat) (st : List (TTerm × Bool)) (plugs : List NPat)
    (st' : List (TTerm × Bool)), takePlugs k st = some (plugs, st') → plugs.length = k := by
  intro k
  induction k with
  | zero =>
    intro st plugs st' h
    simp only [takePlugs, Option.some.injEq, Prod.mk.injEq] at h
    rw [← h.1]; rfl
  | succ k ih =>
    intro st plugs st' h
    cases st with
    | nil => simp [takePlugs] at h
    | cons e st1 =>
      obtain ⟨t, b⟩ := e
      cases t with
      | proved p => simp [takePlugs] at h
      | pat p =>
        simp only [takePlugs, Option.map_eq_some_iff] at h
        obtain ⟨⟨ps, st2⟩, h1, h2⟩ := h
        simp only [Prod.mk.injEq] at h2
        obtain ⟨rfl, rfl⟩ := h2
        simp [ih st1 ps st2 h1]

theorem nores_take {s : PySt} (h : PInv s) (t : TTerm × Bool) (st : List (TTerm × Bool))
    (hs : s.stack = t :: st) (k : Nat) : (st.take k).any (·.2) = false := by
  rw [List.any_eq_false]
  intro e he
  have : e ∈ s.stack := by rw [hs]; exact List.mem_cons_of_mem _ (List.mem_of_mem_take he)
  simp [h.nores e this]

/-- one allowed call: its side conditions hold and the invariant is kept -/
theorem allowed_step (N : Nat) (s s' : PySt) (c : Call) (hI : PInv s) (hc : Allowed c)
    (ht : track1 N s c = some (some s')) : SideNS s c ∧ PInv s' ∧ c.quiet = true := by
  cases c with
  | metavar id ef sf ps ns hs =>
    obtain ⟨rfl, rfl, rfl, rfl, rfl⟩ := hc
    simp only [track1, Option.some.injEq] at ht; subst ht
    exact ⟨sideNS_mvclean s id, hI.cons _ _ (by rfl) (fun _ h => h), rfl⟩
  | implies =>
    simp only [track1] at ht
    split at ht
    · next r b1 l b2 st hs =>
      simp only [Option.some.injEq] at ht; subst ht
      have hb1 := hI.nores _ (by rw [hs]; simp : (TTerm.pat r, b1) ∈ s.stack)
      have hb2 := hI.nores _ (by rw [hs]; simp : (TTerm.pat l, b2) ∈ s.stack)
      simp only at hb1 hb2; subst hb1; subst hb2
      have hr := hI.sf.1 _ (by rw [hs]; simp : (TTerm.pat r, false) ∈ s.stack)
      have hl := hI.sf.1 _ (by rw [hs]; simp : (TTerm.pat l, false) ∈ s.stack)
      simp only [TTerm.body] at hr hl
      exact ⟨sideNS_top2 s _ _ _ _ hs (Or.inl rfl),
        hI.cons _ _ (by simp [TTerm.body, F0, hl, hr]) (fun e he => by rw [hs]; simp [he]), rfl⟩
    · simp at ht
  | app =>
    simp only [track1] at ht
    split at ht
    · next r b1 l b2 st hs =>
      simp only [Option.some.injEq] at ht; subst ht
      have hb1 := hI.nores _ (by rw [hs]; simp : (TTerm.pat r, b1) ∈ s.stack)
      have hb2 := hI.nores _ (by rw [hs]; simp : (TTerm.pat l, b2) ∈ s.stack)
      simp only at hb1 hb2; subst hb1; subst hb2
      have hr := hI.sf.1 _ (by rw [hs]; simp : (TTerm.pat r, false) ∈ s.stack)
      have hl := hI.sf.1 _ (by rw [hs]; simp : (TTerm.pat l, false) ∈ s.stack)
      simp only [TTerm.body] at hr hl
      exact ⟨sideNS_top2 s _ _ _ _ hs (Or.inr (Or.inl rfl)),
        hI.cons _ _ (by simp [TTerm.body, F0, hl, hr]) (fun e he => by rw [hs]; simp [he]), rfl⟩
    · simp at ht
  | save =>
    simp only [track1] at ht
    split at ht
    · next t b st hs =>
      simp only [Option.some.injEq] at ht; subst ht
      have hb := hI.nores _ (by rw [hs]; simp : (t, b) ∈ s.stack)
      simp only at hb; subst hb
      have htF := hI.sf.1 _ (by rw [hs]; simp : (t, false) ∈ s.stack)
      exact ⟨sideNS_top1 s _ _ _ hs (Or.inl rfl), ⟨hI.phase, hI.nores, hI.sf.addMem t htF⟩, rfl⟩
    · simp at ht
  | pop =>
    simp only [track1] at ht
    split at ht
    · next e st hs =>
      obtain ⟨t, b⟩ := e
      simp only [Option.some.injEq] at ht; subst ht
      have hb := hI.nores _ (by rw [hs]; simp : (t, b) ∈ s.stack)
      simp only at hb; subst hb
      exact ⟨sideNS_top1 s _ _ _ hs (Or.inr (Or.inl rfl)),
        hI.setStack st (fun e he => ⟨hI.nores e (by rw [hs]; exact List.mem_cons_of_mem _ he),
          hI.sf.1 e (by rw [hs]; exact List.mem_cons_of_mem _ he)⟩), rfl⟩
    · simp at ht
  | prop1 =>
    simp only [track1, Option.some.injEq] at ht; subst ht
    exact ⟨sideNS_prop1 s, hI.cons _ _ (by rfl) (fun _ h => h), rfl⟩
  | prop2 =>
    simp only [track1, Option.some.injEq] at ht; subst ht
    exact ⟨sideNS_prop2 s, hI.cons _ _ (by rfl) (fun _ h => h), rfl⟩
  | mp =>
    simp only [track1] at ht
    split at ht
    · next r b1 l b2 st hs =>
      simp only [Option.bind_eq_bind, Option.bind_eq_some_iff] at ht
      obtain ⟨oc, hmp, ht⟩ := ht
      cases oc with
      | none => simp at ht
      | some c =>
        simp only [Option.pure_def, Option.some.injEq] at ht; subst ht
        have hb1 := hI.nores _ (by rw [hs]; simp : (TTerm.proved r, b1) ∈ s.stack)
        have hb2 := hI.nores _ (by rw [hs]; simp : (TTerm.proved l, b2) ∈ s.stack)
        simp only at hb1 hb2; subst hb1; subst hb2
        have hl := hI.sf.1 _ (by rw [hs]; simp : (TTerm.proved l, false) ∈ s.stack)
        simp only [TTerm.body] at hl
        exact ⟨sideNS_top2 s _ _ _ _ hs (Or.inr (Or.inr rfl)),
          hI.cons _ _ (pyMP_F0 N l r c hl hmp) (fun e he => by rw [hs]; simp [he]), rfl⟩
    · simp at ht
  | load t =>
    have e := track1_load_eq ht
    subst e
    exact ⟨sideNS_load s t (F0.shape _ hc), hI.cons _ _ hc (fun _ h => h), rfl⟩
  | instantiatePattern keys =>
    simp only [track1] at ht
    split at ht
    · next a b1 st hs =>
      have hb := hI.nores _ (by rw [hs]; simp : (TTerm.pat a, b1) ∈ s.stack)
      simp only at hb; subst hb
      have ha := hI.sf.1 _ (by rw [hs]; simp : (TTerm.pat a, false) ∈ s.stack)
      split at ht
      · simp at ht
      · next plugs st' htp =>
        simp only [Option.some.injEq] at ht; subst ht
        obtain ⟨hpm, hsub⟩ := takePlugs_mem _ _ _ _ htp
        refine ⟨sideNS_inst s _ keys (Or.inr rfl) hc _ _ hs (nores_take hI _ _ hs _) ha,
          hI.cons _ _ ?_ (fun e he => by rw [hs]; exact List.mem_cons_of_mem _ (hsub e he)), rfl⟩
        simp only [TTerm.body, F0, Bool.and_eq_true]
        refine ⟨ha, F0Map_zip _ _ ?_⟩
        intro p hp
        obtain ⟨b, hb⟩ := hpm p hp
        exact hI.sf.1 _ (by rw [hs]; exact List.mem_cons_of_mem _ hb)
    · simp at ht
  | instantiate keys =>
    simp only [track1] at ht
    split at ht
    · next a b1 st hs =>
      have hb := hI.nores _ (by rw [hs]; simp : (TTerm.proved a, b1) ∈ s.stack)
      simp only at hb; subst hb
      have ha := hI.sf.1 _ (by rw [hs]; simp : (TTerm.proved a, false) ∈ s.stack)
      have hside := sideNS_inst s _ keys (Or.inl rfl) hc _ _ hs (nores_take hI _ _ hs _) ha
      split at ht
      · simp only [Option.some.injEq] at ht; subst ht
        exact ⟨hside, hI.cons _ _ ha (fun e he => by rw [hs]; exact List.mem_cons_of_mem _ he), rfl⟩
      · split at ht
        · simp at ht
        · next plugs st' htp =>
          simp only [Option.bind_eq_bind, Option.bind_eq_some_iff, Option.pure_def,
            Option.some.injEq] at ht
          obtain ⟨c, hinst, ht⟩ := ht
          subst ht
          obtain ⟨hpm, hsub⟩ := takePlugs_mem _ _ _ _ htp
          refine ⟨hside, hI.cons _ _ ?_
            (fun e he => by rw [hs]; exact List.mem_cons_of_mem _ (hsub e he)), rfl⟩
          refine instF_F0 N _ a c ha (F0Map_zip _ _ ?_) hinst
          intro p hp
          obtain ⟨b, hb⟩ := hpm p hp
          exact hI.sf.1 _ (by rw [hs]; exact List.mem_cons_of_mem _ hb)
    · simp at ht
  | evar _ => exact hc.elim
  | svar _ => exact hc.elim
  | symbol _ => exact hc.elim
  | ex _ => exact hc.elim
  | mu _ => exact hc.elim
  | esubst _ => exact hc.elim
  | ssubst _ => exact hc.elim
  | prop3 => exact hc.elim
  | quantifier => exact hc.elim
  | gen _ => exact hc.elim
  | publishProof => exact hc.elim
  | publishAxiom => exact hc.elim
  | publishClaim => exact hc.elim
  | intoClaim => exact hc.elim
  | intoProof => exact hc.elim

theorem allowed_reach (N : Nat) : ∀ (cs : List Call) (s s' : PySt), PInv s →
    (∀ c ∈ cs, Allowed c) → Reach N s cs s' →
    Tr N s cs s' ∧ PInv s' ∧ ∀ c ∈ cs, c.quiet = true := by
  intro cs
  induction cs with
  | nil =>
    intro s s' hI _ hr
    simp only [Reach] at hr; subst hr
    exact ⟨Tr.nil N _, hI, by simp⟩
  | cons c cs ih =>
    intro s s' hI hall hr
    obtain ⟨s1, h1, hr⟩ := hr
    obtain ⟨hside, hI1, hq⟩ := allowed_step N s s1 c hI (hall c (by simp)) h1
    obtain ⟨htr, hI', hqs⟩ := ih s1 s' hI1 (fun x hx => hall x (List.mem_cons_of_mem _ hx)) hr
    refine ⟨Tr.cons h1 (Or.inr hside) htr, hI', ?_⟩
    intro x hx
    rcases List.mem_cons.mp hx with rfl | hx
    · exact hq
    · exact hqs x hx

/-- the translator's state in the proof phase -/
structure TInv (x : XSt) : Prop where
  pinv : PInv x.s
  memF0 : ∀ t ∈ x.mem, t.body.F0 = true

/-- a segment of the history: quiet calls with their side conditions -/
def Seg (N : Nat) (x x' : XSt) : Prop :=
  ∃ cs, x'.calls = x.calls ++ cs ∧ Tr N x.s cs x'.s ∧ ∀ c ∈ cs, c.quiet = true

theorem Seg.refl (N : Nat) (x : XSt) : Seg N x x := ⟨[], by simp, Tr.nil N x.s, by simp⟩

theorem Seg.trans {N : Nat} {x y z : XSt} (h1 : Seg N x y) (h2 : Seg N y z) : Seg N x z := by
  obtain ⟨c1, e1, t1, q1⟩ := h1
  obtain ⟨c2, e2, t2, q2⟩ := h2
  refine ⟨c1 ++ c2, by rw [e2, e1, List.append_assoc], t1.append t2, ?_⟩
  intro c hc
  rcases List.mem_append.mp hc with hc | hc
  · exact q1 c hc
  · exact q2 c hc

theorem doC_spec {k : Nat} {x x' : XSt} {cs : List Call} (h : x.doC k cs = some (some x')) :
    x'.calls = x.calls ++ cs ∧ Reach k x.s cs x'.s ∧ x'.mem = x.mem := by
  simp only [XSt.doC, Option.bind_eq_bind, Option.bind_eq_some_iff] at h
  obtain ⟨o, ho, h⟩ := h
  rcases o with _ | ⟨s', a'⟩
  · simp at h
  · simp only [Option.pure_def, Option.some.injEq] at h
    subst h
    obtain ⟨e, hr⟩ := doCalls_reach k cs x.s x.calls s' a' ho
    exact ⟨e, hr, rfl⟩

/-- calls made directly by `exec_proof` -/
theorem doC_seg {N k : Nat} (hk : k ≤ N) {x x' : XSt} {cs : List Call} (hI : TInv x)
    (hall : ∀ c ∈ cs, Allowed c) (h : x.doC k cs = some (some x')) :
    Seg N x x' ∧ TInv x' ∧ x'.mem = x.mem := by
  obtain ⟨e, hr, hm⟩ := doC_spec h
  obtain ⟨htr, hI', hq⟩ := allowed_reach N cs x.s x'.s hI.pinv hall (reach_mono hk hr)
  exact ⟨⟨cs, e, htr, hq⟩, ⟨hI', by rw [hm]; exact hI.memF0⟩, hm⟩

/-- a pattern compiled by `exec_proof` -/
theorem pat_seg (cfg : Cfg) {N k : Nat} (hk : k ≤ N) {x : XSt} {p : NPat} {s' : PySt}
    {c' : List Call} (hI : TInv x) (hp : p.B0 = true)
    (h : patternF cfg k x.s p x.calls = some (some (s', c'))) :
    Seg N x ⟨s', c', x.mem⟩ ∧ TInv ⟨s', c', x.mem⟩ ∧ s'.stack = (.pat p, false) :: x.s.stack := by
  obtain ⟨cs, hcs, htr, hstk, hsf, hfr, hq⟩ := patternF_tr cfg hk hp hI.pinv.sf h
  simp only [List.singleton_append] at hstk
  refine ⟨⟨cs, hcs, htr, hq⟩, ⟨⟨hfr.1.trans hI.pinv.phase, ?_, hsf⟩, hI.memF0⟩, hstk⟩
  intro e he
  rw [hstk] at he
  rcases List.mem_cons.mp he with rfl | he
  · rfl
  · exact hI.pinv.nores e he

theorem top_F0 {x : XSt} (hI : TInv x) {t : TTerm} (h : top? x = some t) : t.body.F0 = true := by
  unfold top? at h
  cases hs : x.s.stack with
  | nil => simp [hs] at h
  | cons e st =>
    simp only [hs, List.head?_cons, Option.map_some, Option.some.injEq] at h
    subst h
    exact hI.pinv.sf.1 e (by rw [hs]; simp)

/-! ## every case of `exec_proof`'s loop -/

theorem xSave_seg {N k : Nat} (hk : k ≤ N) {x x' : XSt} (hI : TInv x)
    (h : xSave k x = some (some x')) : Seg N x x' ∧ TInv x' := by
  unfold xSave at h
  split at h
  · simp at h
  · next t htop =>
    simp only [Option.bind_eq_bind, Option.bind_eq_some_iff] at h
    obtain ⟨o, ho, h⟩ := h
    cases o with
    | none => simp at h
    | some x1 =>
      simp only [Option.pure_def, Option.some.injEq] at h
      subst h
      obtain ⟨hseg, hI1, hm⟩ := doC_seg hk hI (by simp [Allowed]) ho
      refine ⟨hseg, ⟨hI1.pinv, ?_⟩⟩
      intro u hu
      rcases List.mem_append.mp hu with hu | hu
      · exact hI1.memF0 u hu
      · simp at hu; subst hu; exact top_F0 hI htop

theorem xReuse_seg {N k : Nat} (hk : k ≤ N) {x x' : XSt} {j : Nat} (hI : TInv x)
    (h : xReuse k x j = some (some x')) : Seg N x x' ∧ TInv x' := by
  unfold xReuse at h
  split at h
  · simp at h
  · next t hj =>
    have ht : t.body.F0 = true := hI.memF0 t (List.mem_of_getElem? hj)
    obtain ⟨hseg, hI1, _⟩ := doC_seg hk hI (by simp [Allowed, ht]) h
    exact ⟨hseg, hI1⟩

theorem patThenInst_seg (cfg : Cfg) {N k : Nat} (hk : k ≤ N) {x x' : XSt} {p : NPat}
    {keys : List Nat} (hI : TInv x) (hp : p.B0 = true) (hkeys : keys.Nodup)
    (h : patThenInst cfg k x p keys = some (some x')) : Seg N x x' ∧ TInv x' := by
  simp only [patThenInst, Option.bind_eq_bind, Option.bind_eq_some_iff] at h
  obtain ⟨o, ho, h⟩ := h
  rcases o with _ | ⟨s', c'⟩
  · simp at h
  · simp only [] at h
    obtain ⟨hseg1, hI1, _⟩ := pat_seg cfg hk hI hp ho
    obtain ⟨hseg2, hI2, _⟩ := doC_seg hk hI1 (by simp [Allowed, hkeys]) h
    exact ⟨hseg1.trans hseg2, hI2⟩

theorem xImp_seg (cfg : Cfg) {N k : Nat} (hk : k ≤ N) (db : DB) (hwf : db.WF) {x x' : XSt}
    (hI : TInv x) (h : xImp cfg k db x = some (some x')) : Seg N x x' ∧ TInv x' := by
  rw [xImp_eq] at h
  split at h
  · split at h
    · obtain ⟨hseg, hI1, _⟩ := doC_seg hk hI (by simp [Allowed]) h
      exact ⟨hseg, hI1⟩
    · simp at h
  · exact patThenInst_seg cfg hk hI (image_B0 db _) (deltaKeys_nodup db _ hwf.nodup) h

theorem xApp_seg (cfg : Cfg) {N k : Nat} (hk : k ≤ N) (db : DB) (hwf : db.WF) {x x' : XSt}
    (hI : TInv x) (h : xApp cfg k db x = some (some x')) : Seg N x x' ∧ TInv x' := by
  rw [xApp_eq] at h
  split at h
  · split at h
    · obtain ⟨hseg, hI1, _⟩ := doC_seg hk hI (by simp [Allowed]) h
      exact ⟨hseg, hI1⟩
    · simp at h
  · exact patThenInst_seg cfg hk hI (image_B0 db _) (deltaKeys_nodup db _ hwf.nodup) h

theorem xCtor_seg (cfg : Cfg) {N k : Nat} (hk : k ≤ N) (db : DB) (hwf : db.WF) {x x' : XSt}
    {j : Nat} (hI : TInv x) (h : xCtor cfg k db x j = some (some x')) : Seg N x x' ∧ TInv x' := by
  cases hc : db.ctors[j]? with
  | none => simp [xCtor, hc] at h
  | some c =>
    rw [xCtor_eq cfg k db x j c hc] at h
    split at h
    · simp only [Option.bind_eq_some_iff] at h
      obtain ⟨o, ho, h⟩ := h
      rcases o with _ | ⟨s', c'⟩
      · simp at h
      · simp only [Option.pure_def, Option.some.injEq] at h
        subst h
        obtain ⟨hseg1, hI1, _⟩ := pat_seg cfg hk hI (image_B0 db _) ho
        exact ⟨hseg1, hI1⟩
    · exact patThenInst_seg cfg hk hI (image_B0 db _) (deltaKeys_nodup db _ hwf.nodup) h

theorem xP1_seg {N k : Nat} (hk : k ≤ N) (db : DB) (hwf : db.WF) {x x' : XSt}
    (hI : TInv x) (h : xP1 k db x = some (some x')) : Seg N x x' ∧ TInv x' := by
  simp only [xP1, Option.bind_eq_bind, Option.bind_eq_some_iff] at h
  obtain ⟨o, ho, h⟩ := h
  cases o with
  | none => simp at h
  | some x1 =>
    simp only [] at h
    obtain ⟨hseg1, hI1, _⟩ := doC_seg hk hI (by simp [Allowed]) ho
    split at h
    · simp at h
    · next keys hkeys =>
      obtain ⟨hseg2, hI2, _⟩ := doC_seg hk hI1
        (by simp [Allowed, ruleKeys_nodup db _ keys hwf.nodup hkeys]) h
      exact ⟨hseg1.trans hseg2, hI2⟩

theorem xP2_seg {N k : Nat} (hk : k ≤ N) (db : DB) (hwf : db.WF) {x x' : XSt}
    (hI : TInv x) (h : xP2 k db x = some (some x')) : Seg N x x' ∧ TInv x' := by
  simp only [xP2, Option.bind_eq_bind, Option.bind_eq_some_iff] at h
  obtain ⟨o, ho, h⟩ := h
  cases o with
  | none => simp at h
  | some x1 =>
    simp only [] at h
    obtain ⟨hseg1, hI1, _⟩ := doC_seg hk hI (by simp [Allowed]) ho
    split at h
    · simp at h
    · next keys hkeys =>
      obtain ⟨hseg2, hI2, _⟩ := doC_seg hk hI1
        (by simp [Allowed, ruleKeys_nodup db _ keys hwf.nodup hkeys]) h
      exact ⟨hseg1.trans hseg2, hI2⟩

theorem xMp_seg {N k : Nat} (hk : k ≤ N) {x x' : XSt} (hI : TInv x)
    (h : xMp k x = some (some x')) : Seg N x x' ∧ TInv x' := by
  unfold xMp at h
  split at h
  · simp only [Option.bind_eq_bind, Option.bind_eq_some_iff] at h
    obtain ⟨o, ho, h⟩ := h
    cases o with
    | none => simp at h
    | some x1 =>
      simp only [] at h
      obtain ⟨hseg1, hI1, _⟩ := doC_seg hk hI (by simp [Allowed]) ho
      split at h
      · simp at h
      · next c hc =>
        obtain ⟨hseg2, hI2, _⟩ := doC_seg hk hI1 (by simp [Allowed, top_F0 hI1 hc]) h
        exact ⟨hseg1.trans hseg2, hI2⟩
  · simp at h

theorem stash_seg {N k : Nat} (hk : k ≤ N) : ∀ (m : Nat) (x x' : XSt) (saved saved' : List TTerm),
    TInv x → (∀ t ∈ saved, t.body.F0 = true) →
    xstep.stash k x saved m = some (some (x', saved')) →
    Seg N x x' ∧ TInv x' ∧ ∀ t ∈ saved', t.body.F0 = true := by
  intro m
  induction m with
  | zero =>
    intro x x' saved saved' hI hs h
    simp only [xstep.stash, Option.some.injEq, Prod.mk.injEq] at h
    obtain ⟨rfl, rfl⟩ := h
    exact ⟨Seg.refl N x, hI, hs⟩
  | succ m ih =>
    intro x x' saved saved' hI hs h
    simp only [xstep.stash] at h
    split at h
    · simp at h
    · next t htop =>
      simp only [Option.bind_eq_bind, Option.bind_eq_some_iff] at h
      obtain ⟨o, ho, h⟩ := h
      cases o with
      | none => simp at h
      | some x1 =>
        simp only [] at h
        obtain ⟨hseg1, hI1, _⟩ := doC_seg hk hI (by simp [Allowed]) ho
        obtain ⟨hseg2, hI2, hs2⟩ := ih x1 x' _ saved' hI1 (by
          intro u hu
          rcases List.mem_append.mp hu with hu | hu
          · exact hs u hu
          · simp at hu; subst hu; exact top_F0 hI htop) h
        exact ⟨hseg1.trans hseg2, hI2, hs2⟩

theorem discharge_seg {N k : Nat} (hk : k ≤ N) : ∀ (ts : List TTerm) (x x' : XSt),
    TInv x → (∀ t ∈ ts, t.body.F0 = true) → xstep.discharge k x ts = some (some x') →
    Seg N x x' ∧ TInv x' := by
  intro ts
  induction ts with
  | nil =>
    intro x x' hI _ h
    simp only [xstep.discharge, Option.some.injEq] at h
    subst h
    exact ⟨Seg.refl N x, hI⟩
  | cons t ts ih =>
    intro x x' hI hts h
    simp only [xstep.discharge, Option.bind_eq_bind, Option.bind_eq_some_iff] at h
    obtain ⟨o, ho, h⟩ := h
    cases o with
    | none => simp at h
    | some x1 =>
      simp only [] at h
      obtain ⟨hseg1, hI1, _⟩ := doC_seg hk hI (by simp [Allowed, hts t (by simp)]) ho
      split at h
      · simp only [Option.bind_eq_some_iff] at h
        obtain ⟨o2, ho2, h⟩ := h
        cases o2 with
        | none => simp at h
        | some x2 =>
          simp only [] at h
          obtain ⟨hseg2, hI2, _⟩ := doC_seg hk hI1 (by simp [Allowed]) ho2
          obtain ⟨hseg3, hI3⟩ := ih x2 x' hI2 (fun u hu => hts u (List.mem_cons_of_mem _ hu)) h
          exact ⟨(hseg1.trans hseg2).trans hseg3, hI3⟩
      · simp at h

theorem xRule_seg {N k : Nat} (hk : k ≤ N) (db : DB) (hwf : db.WF) {x x' : XSt} {j : Nat}
    (hI : TInv x) (h : xRule k db x j = some (some x')) : Seg N x x' ∧ TInv x' := by
  unfold xRule at h
  split at h
  · simp at h
  · next r hr =>
    simp only [Option.bind_eq_bind, Option.bind_eq_some_iff] at h
    obtain ⟨o1, ho1, h⟩ := h
    rcases o1 with _ | ⟨x1, saved⟩
    · simp at h
    simp only [Option.bind_eq_some_iff] at h
    obtain ⟨hseg1, hI1, hsv⟩ := stash_seg hk _ x x1 [] saved hI (by simp) ho1
    obtain ⟨o2, ho2, h⟩ := h
    cases o2 with
    | none => simp at h
    | some x2 =>
    simp only [Option.bind_eq_some_iff] at h
    obtain ⟨hseg2, hI2, _⟩ := doC_seg hk hI1
      (by simp [Allowed, TTerm.body, B0.toF0 _ (implChain_B0 db r.hyps r.concl)]) ho2
    obtain ⟨o3, ho3, h⟩ := h
    cases o3 with
    | none => simp at h
    | some x3 =>
    simp only [] at h
    have h3 : Seg N x2 x3 ∧ TInv x3 := by
      split at ho3
      · simp only [Option.some.injEq] at ho3
        subst ho3
        exact ⟨Seg.refl N x2, hI2⟩
      · obtain ⟨hseg, hI', _⟩ := doC_seg hk hI2
          (by simp [Allowed, deltaKeys_nodup db _ hwf.nodup]) ho3
        exact ⟨hseg, hI'⟩
    obtain ⟨hseg4, hI4⟩ := discharge_seg hk saved.reverse x3 x' h3.2
      (fun t ht => hsv t (List.mem_reverse.mp ht)) h
    exact ⟨((hseg1.trans hseg2).trans h3.1).trans hseg4, hI4⟩

theorem xLabel_seg (cfg : Cfg) {N k : Nat} (hk : k ≤ N) (db : DB) (hwf : db.WF) {x x' : XSt}
    (l : Lbl) (hI : TInv x) (h : xLabel cfg k db x l = some (some x')) : Seg N x x' ∧ TInv x' := by
  cases l with
  | float v =>
    obtain ⟨hseg, hI1, _⟩ := doC_seg hk hI (by simp [Allowed]) h
    exact ⟨hseg, hI1⟩
  | impC => exact xImp_seg cfg hk db hwf hI h
  | appC => exact xApp_seg cfg hk db hwf hI h
  | ctor j => exact xCtor_seg cfg hk db hwf hI h
  | rule j => exact xRule_seg hk db hwf hI h
  | p1 => exact xP1_seg hk db hwf hI h
  | p2 => exact xP2_seg hk db hwf hI h
  | mp => exact xMp_seg hk hI h

theorem xstep_seg (cfg : Cfg) {N k : Nat} (hk : k ≤ N) (db : DB) (hwf : db.WF) (labels : List Lbl)
    {x x' : XSt} (step : Nat) (hI : TInv x) (h : xstep cfg k db labels x step = some (some x')) :
    Seg N x x' ∧ TInv x' := by
  rw [xstep_eq] at h
  split at h
  · exact xSave_seg hk hI h
  · exact xReuse_seg hk hI h
  · split at h
    · simp at h
    · exact xLabel_seg cfg hk db hwf _ hI h

theorem xrun_seg (cfg : Cfg) {N k : Nat} (hk : k ≤ N) (db : DB) (hwf : db.WF) (labels : List Lbl) :
    ∀ (steps : List Nat) (x x' : XSt), TInv x → xrun cfg k db labels x steps = some (some x') →
    Seg N x x' ∧ TInv x' := by
  intro steps
  induction steps with
  | nil =>
    intro x x' hI h
    simp only [xrun, Option.some.injEq] at h
    subst h
    exact ⟨Seg.refl N x, hI⟩
  | cons st steps ih =>
    intro x x' hI h
    simp only [xrun, Option.bind_eq_bind, Option.bind_eq_some_iff] at h
    obtain ⟨o, ho, h⟩ := h
    cases o with
    | none => simp at h
    | some x1 =>
      simp only [] at h
      obtain ⟨hseg1, hI1⟩ := xstep_seg cfg hk db hwf labels st hI ho
      obtain ⟨hseg2, hI2⟩ := ih x1 x' hI1 h
      exact ⟨hseg1.trans hseg2, hI2⟩

/-! ## the proof phase as a whole -/

theorem execProof_seg (cfg : Cfg) {N k : Nat} (hk : k ≤ N) (db : DB) (hwf : db.WF) (goal : Term)
    (labels : List Lbl) (steps : List Nat) (s : PySt) (acc : List Call) (s' : PySt)
    (a' : List Call) (hI : TInv ⟨s, acc, []⟩)
    (h : execProof cfg k db goal labels steps s acc = some (some (s', a'))) :
    ∃ cs, a' = acc ++ cs ∧ Tr N s cs s' ∧ ∀ c ∈ cs, c ≠ .intoClaim ∧ c ≠ .intoProof := by
  simp only [execProof, Option.bind_eq_bind, Option.bind_eq_some_iff] at h
  obtain ⟨o, ho, h⟩ := h
  cases o with
  | none => simp at h
  | some x =>
    simp only [] at h
    obtain ⟨⟨cs, hcs, htr, hq⟩, hIx⟩ := xrun_seg cfg hk db hwf labels steps _ x hI ho
    split at h
    · next p b st hstk =>
      simp only [Option.bind_eq_some_iff] at h
      obtain ⟨e, _, h⟩ := h
      cases e with
      | false => simp at h
      | true =>
        simp only [if_true, Option.bind_eq_some_iff] at h
        obtain ⟨o2, ho2, h⟩ := h
        cases o2 with
        | none => simp at h
        | some x2 =>
          simp only [Option.pure_def, Option.some.injEq, Prod.mk.injEq] at h
          obtain ⟨rfl, rfl⟩ := h
          obtain ⟨e2, hr, _⟩ := doC_spec ho2
          obtain ⟨s2, ht, hr2⟩ := hr
          simp only [Reach] at hr2
          subst hr2
          have hb : b = false := hIx.pinv.nores (TTerm.proved p, b) (by rw [hstk]; simp)
          subst hb
          refine ⟨cs ++ [.publishProof], by rw [e2, hcs]; simp, htr.append (Tr.single
            (track1_mono hk _ _ _ ht) (Or.inr (sideNS_top1 x.s _ _ _ hstk (Or.inr (Or.inr (Or.inl rfl)))))), ?_⟩
          intro c hc
          rcases List.mem_append.mp hc with hc | hc
          · exact quiet_noswitch (hq c hc)
          · simp at hc; subst hc; simp
    · simp at h

/-! ## the gamma and claim phases -/

theorem publish_spec {n : Nat} {s1 s2 : PySt} {c : Call} (hc : c = .publishAxiom ∨ c = .publishClaim)
    {a : NPat} {st : List (TTerm × Bool)} (hstk : s1.stack = (.pat a, false) :: st)
    (ht : track1 n s1 c = some (some s2)) :
    s2.stack = (.pat a, true) :: st ∧ s2.claims = s1.claims ∧
      (s2.memory = s1.memory ∨ s2.memory = s1.memory ++ [.proved a]) := by
  rcases hc with rfl | rfl
  · simp only [track1] at ht
    split at ht
    · next a' b st' hph hs =>
      rw [hstk] at hs
      simp only [List.cons.injEq, Prod.mk.injEq, TTerm.pat.injEq] at hs
      obtain ⟨⟨rfl, rfl⟩, rfl⟩ := hs
      simp only [Option.some.injEq] at ht; subst ht
      exact ⟨rfl, rfl, Or.inr rfl⟩
    · simp at ht
  · simp only [track1] at ht
    split at ht
    · next a' b st' hph hs =>
      rw [hstk] at hs
      simp only [List.cons.injEq, Prod.mk.injEq, TTerm.pat.injEq] at hs
      obtain ⟨⟨rfl, rfl⟩, rfl⟩ := hs
      simp only [Option.some.injEq] at ht; subst ht
      exact ⟨rfl, rfl, Or.inl rfl⟩
    · simp at ht

theorem pub_seg (cfg : Cfg) {N k : Nat} (hk : k ≤ N) (c : Call)
    (hc : c = .publishAxiom ∨ c = .publishClaim) :
    ∀ (as : List NPat) (s : PySt) (acc : List Call) (s' : PySt) (a' : List Call),
    (∀ a ∈ as, a.B0 = true) → StF0 s →
    translateFull.pub cfg k s acc c as = some (some (s', a')) →
    ∃ cs, a' = acc ++ cs ∧ Tr N s cs s' ∧ published N s cs = as.map NPat.expand ∧ StF0 s' ∧
      ∀ x ∈ cs, x ≠ .intoClaim ∧ x ≠ .intoProof ∧ x ≠ .publishProof := by
  intro as
  induction as with
  | nil =>
    intro s acc s' a' _ hs h
    simp only [translateFull.pub, Option.some.injEq, Prod.mk.injEq] at h
    obtain ⟨rfl, rfl⟩ := h
    exact ⟨[], by simp, Tr.nil N _, rfl, hs, by simp⟩
  | cons a r ih =>
    intro s acc s' a' has hs h
    simp only [translateFull.pub, Option.bind_eq_bind, Option.bind_eq_some_iff] at h
    obtain ⟨o1, hp, h⟩ := h
    rcases o1 with _ | ⟨s1, a1⟩
    · simp at h
    simp only [Option.bind_eq_some_iff] at h
    obtain ⟨o2, hd, h⟩ := h
    rcases o2 with _ | ⟨s2, a2⟩
    · simp at h
    simp only [] at h
    obtain ⟨cs1, hcs1, htr1, hstk, hsf1, _, hq1⟩ := patternF_tr cfg hk (has a (by simp)) hs hp
    simp only [List.singleton_append] at hstk
    obtain ⟨ht, rfl⟩ := doCalls_one hd
    have htN := track1_mono hk _ _ _ ht
    obtain ⟨hstk2, hcl2, hmem2⟩ := publish_spec hc hstk htN
    have haF := B0.toF0 a (has a (by simp))
    have hsf2 : StF0 s2 := by
      refine ⟨?_, ?_, by rw [hcl2]; exact hsf1.2.2⟩
      · intro e he
        rw [hstk2] at he
        rcases List.mem_cons.mp he with rfl | he
        · exact haF
        · exact hs.1 e he
      · intro u hu
        rcases hmem2 with e | e
        · rw [e] at hu; exact hsf1.2.1 u hu
        · rw [e] at hu
          rcases List.mem_append.mp hu with hu | hu
          · exact hsf1.2.1 u hu
          · simp at hu; subst hu; exact haF
    obtain ⟨cs2, rfl, htr2, hpub2, hsf', hns2⟩ := ih s2 _ s' a'
      (fun x hx => has x (List.mem_cons_of_mem _ hx)) hsf2 h
    have hside : SideNS s1 c := sideNS_top1 s1 c _ _ hstk (by rcases hc with rfl | rfl <;> simp)
    refine ⟨cs1 ++ c :: cs2, by rw [hcs1]; simp, htr1.append (Tr.cons htN (Or.inr hside) htr2),
      ?_, hsf', ?_⟩
    · rw [published_append N cs1 (c :: cs2) s s1 htr1.1, published_quiet N cs1 s hq1]
      simp only [List.nil_append, published, htN, hpub2, List.map_cons]
      congr 1
      rcases hc with rfl | rfl <;> simp [pubOf, hstk]
    · intro x hx
      rcases List.mem_append.mp hx with hx | hx
      · exact ⟨(quiet_noswitch (hq1 x hx)).1, (quiet_noswitch (hq1 x hx)).2,
          quiet_nopublishProof (hq1 x hx)⟩
      · rcases List.mem_cons.mp hx with rfl | hx
        · rcases hc with rfl | rfl <;> simp
        · exact hns2 x hx

/-! ## three phases against the machine (the second half of `module_accepted`, for any proof phase) -/

theorem phases_accepted (n : Nat) (claims : List NPat) (G C P : List Call) (s : PySt)
    (g c p : List Instr) (axs : List Pat)
    (hclm : ∀ a ∈ claims, a.Shape = true)
    (hT : trackAll n (PySt.init claims) (G ++ .intoClaim :: (C ++ .intoProof :: P)) ([], [], [])
      = some (some (s, (g, c, p))))
    (hside : AllSideM n (PySt.init claims) (G ++ .intoClaim :: (C ++ .intoProof :: P)))
    (hnsG : ∀ x ∈ G, x ≠ .intoClaim ∧ x ≠ .intoProof ∧ x ≠ .publishProof)
    (hnsC : ∀ x ∈ C, x ≠ .intoClaim ∧ x ≠ .intoProof ∧ x ≠ .publishProof)
    (hPns : ∀ x ∈ P, x ≠ .intoClaim ∧ x ≠ .intoProof)
    (hpG : published n (PySt.init claims) G = axs)
    (hpC : ∀ t1 t2, Reach n (PySt.init claims) G t1 → track1 n t1 .intoClaim = some (some t2) →
      published n t2 C = claims.reverse.map NPat.expand)
    (hfin : s.claims = []) :
    verify g c p = some (axs, claims.reverse.map NPat.expand) := by
  have hS0 : ShapeSt (PySt.init claims) :=
    ⟨by simp [PySt.init], by simp [PySt.init], by simpa [PySt.init] using hclm⟩
  obtain ⟨t1, out1, hT1, hT⟩ := trackAll_append n G _ _ s _ _ hT
  have hr1 := trackAll_reach n G _ t1 _ _ hT1
  obtain ⟨hsideG, hside⟩ := allSideM_append n G _ _ t1 hside hr1
  obtain ⟨is0, t2, he0, hs0, hT⟩ := trackAll_cons n t1 s .intoClaim _ out1 _ hT
  simp only [emit1, Option.some.injEq] at he0
  subst he0
  rw [addOut_nil] at hT
  have hside := hside.2 t2 hs0
  obtain ⟨t3, out3, hT3, hT⟩ := trackAll_append n C _ t2 s _ _ hT
  have hr3 := trackAll_reach n C t2 t3 _ _ hT3
  obtain ⟨hsideC, hside⟩ := allSideM_append n C _ t2 t3 hside hr3
  obtain ⟨is1, t4, he1, hs1, hT⟩ := trackAll_cons n t3 s .intoProof _ out3 _ hT
  simp only [emit1, Option.some.injEq] at he1
  subst he1
  rw [addOut_nil] at hT
  have hsideP := hside.2 t4 hs1
  -- gamma
  have hR0 : R (PySt.init claims) ⟨[], [], []⟩ :=
    ⟨by simp [PySt.init, live], by simp [PySt.init], fun h => by simp [PySt.init] at h⟩
  obtain ⟨isG, m1, js1, hout1, hrun1, hR1, hSht1, hC1, hjs1, hph1⟩ :=
    trackAll_sim_pub n G _ t1 ⟨[], [], []⟩ _ out1 hR0 hS0 (by simp [PySt.init, CanonTab])
      (allSide_of n G _ hsideG (fun x hx => ⟨(hnsG x hx).1, (hnsG x hx).2.1⟩)) hT1
  -- into the claim phase
  have hR2 := sim_intoClaim n t1 t2 m1 hR1 hs0
  obtain ⟨_, ht2⟩ := intoClaim_spec n t1 t2 hs0
  have hph2 : t2.phase = .claim := by rw [ht2]
  have hSht2 : ShapeSt t2 := by rw [ht2]; exact ⟨by simp, hSht1.2.1, hSht1.2.2⟩
  have hsym2 : t2.symtab = t1.symtab := by rw [ht2]
  obtain ⟨isC, m2, js2, hout3, hrun2, hR3, hSht3, hC3, hjs2, hph3⟩ :=
    trackAll_sim_pub n C t2 t3 { m1 with stack := [] } out1 out3 hR2 hSht2 (by rw [hsym2]; exact hC1)
      (allSide_of n C t2 hsideC (fun x hx => ⟨(hnsC x hx).1, (hnsC x hx).2.1⟩)) hT3
  have hcl1 : m1.claims = [] := by
    have := (run_claims .gamma isG ⟨[], [], []⟩ m1 js1 (by simpa [PySt.init] using hrun1)).1 rfl
    simpa using this
  have hcl2 : m2.claims = js2.reverse := by
    have := (run_claims .claim isC { m1 with stack := [] } m2 js2
      (by rw [hph2] at hrun2; exact hrun2)).2 rfl
    simpa [hcl1] using this
  have htc1 : t1.claims = claims := by
    rw [reach_claims n G _ t1 hr1 (fun x hx => (hnsG x hx).2.2)]; rfl
  have htc2 : t2.claims = claims := by rw [ht2]; exact htc1
  have htc3 : t3.claims = claims := by
    rw [reach_claims n C t2 t3 hr3 (fun x hx => (hnsC x hx).2.2), htc2]
  have hpC' := hpC t1 t2 hr1 hs0
  have hclm2 : m2.claims = t3.claims.map NPat.expand := by
    rw [hcl2, hjs2, hpC', htc3]; simp [List.map_reverse]
  -- into the proof phase
  have hR4 := sim_intoProof n t3 t4 m2 hR3 hclm2 hs1
  obtain ⟨_, ht4⟩ := intoProof_spec n t3 t4 hs1
  have hph4 : t4.phase = .proof := by rw [ht4]
  have hSht4 : ShapeSt t4 := by rw [ht4]; exact ⟨by simp, hSht3.2.1, hSht3.2.2⟩
  have hsym4 : t4.symtab = t3.symtab := by rw [ht4]
  obtain ⟨isP, m3, js3, hout, hrun3, hR, _, _, _, hphs⟩ :=
    trackAll_sim_pub n P t4 s { m2 with stack := [] } out3 (g, c, p) hR4 hSht4
      (by rw [hsym4]; exact hC3) (allSide_of n P t4 hsideP hPns) hT
  have hcl3 : m3.claims = [] := by
    rw [hR.claims (by rw [hphs, hph4]), hfin]; rfl
  -- the three streams
  have hph0 : (PySt.init claims).phase = .gamma := rfl
  rw [hph0] at hout1 hrun1
  rw [hph2] at hout3 hrun2
  rw [hph4] at hout hrun3
  subst hout1
  subst hout3
  simp only [addOut, Prod.mk.injEq] at hout
  obtain ⟨rfl, rfl, rfl⟩ := hout
  simp [verify, hrun1, hrun2, hrun3, hcl3, hjs1, hpG, hjs2, hpC']

/-! ## the history of `translateFull` -/

theorem reach_det {n : Nat} : ∀ {cs : List Call} {s a b : PySt}, Reach n s cs a → Reach n s cs b → a = b := by
  intro cs
  induction cs with
  | nil => intro s a b ha hb; simp only [Reach] at ha hb; rw [ha, hb]
  | cons c cs ih =>
    intro s a b ha hb
    obtain ⟨s1, h1, ha⟩ := ha
    obtain ⟨s2, h2, hb⟩ := hb
    rw [h1] at h2
    cases h2
    exact ih ha hb

/-- the shape of the history: gamma calls, the switch, claim calls, the switch, proof calls; each
part with its side conditions (all but the symbol naming) and the journal of the first two -/
theorem translate_trace (cfg : Cfg) (n : Nat) (db : DB) (goal : Term) (labels : List Lbl)
    (steps : List Nat) (s : PySt) (calls : List Call) (hwf : db.WF)
    (hex : translateFull cfg n db goal labels steps = some (some (s, calls))) :
    ∃ G C P t1 t2 t3 t4, calls = G ++ .intoClaim :: (C ++ .intoProof :: P) ∧
      Tr n (PySt.init [image db goal]) G t1 ∧ track1 n t1 .intoClaim = some (some t2) ∧
      Tr n t2 C t3 ∧ track1 n t3 .intoProof = some (some t4) ∧ Tr n t4 P s ∧
      published n (PySt.init [image db goal]) G = db.axiomImages.map NPat.expand ∧
      published n t2 C = [image db goal].reverse.map NPat.expand ∧
      (∀ x ∈ G, x ≠ .intoClaim ∧ x ≠ .intoProof ∧ x ≠ .publishProof) ∧
      (∀ x ∈ C, x ≠ .intoClaim ∧ x ≠ .intoProof ∧ x ≠ .publishProof) ∧
      (∀ x ∈ P, x ≠ .intoClaim ∧ x ≠ .intoProof) := by
  have hg0 : (image db goal).F0 = true := B0.toF0 _ (image_B0 db goal)
  have hs0 : StF0 (PySt.init [image db goal]) :=
    ⟨by simp [PySt.init], by simp [PySt.init], by simp [PySt.init]; exact hg0⟩
  simp only [translateFull, Option.bind_eq_bind, Option.bind_eq_some_iff] at hex
  obtain ⟨o1, hpub1, hex⟩ := hex
  rcases o1 with _ | ⟨e1, a1⟩
  · simp at hex
  simp only [Option.bind_eq_some_iff] at hex
  obtain ⟨o2, hd1, hex⟩ := hex
  rcases o2 with _ | ⟨e2, a2⟩
  · simp at hex
  simp only [Option.bind_eq_some_iff] at hex
  obtain ⟨o3, hpub2, hex⟩ := hex
  rcases o3 with _ | ⟨e3, a3⟩
  · simp at hex
  simp only [Option.bind_eq_some_iff] at hex
  obtain ⟨o4, hd2, hex⟩ := hex
  rcases o4 with _ | ⟨e4, a4⟩
  · simp at hex
  simp only [] at hex
  obtain ⟨G, hG, trG, hpG, hsf1, hnsG⟩ := pub_seg cfg (Nat.le_refl n) .publishAxiom (Or.inl rfl)
    db.axiomImages _ [] e1 a1 (by
      intro a ha
      obtain ⟨r, _, rfl⟩ := List.mem_map.mp ha
      exact implChain_B0 db _ _) hs0 hpub1
  simp only [List.nil_append] at hG
  subst hG
  obtain ⟨ht1, rfl⟩ := doCalls_one hd1
  obtain ⟨_, he2⟩ := intoClaim_spec n e1 e2 ht1
  have hsf2 : StF0 e2 := by rw [he2]; exact ⟨by simp, hsf1.2.1, hsf1.2.2⟩
  obtain ⟨C, hC, trC, hpC, hsf3, hnsC⟩ := pub_seg cfg (Nat.le_refl n) .publishClaim (Or.inr rfl)
    [image db goal].reverse e2 _ e3 a3 (by simp; exact image_B0 db goal) hsf2 hpub2
  subst hC
  obtain ⟨ht3, rfl⟩ := doCalls_one hd2
  obtain ⟨_, he4⟩ := intoProof_spec n e3 e4 ht3
  have hI4 : TInv ⟨e4, a1 ++ [.intoClaim] ++ C ++ [.intoProof], []⟩ := by
    refine ⟨⟨by rw [he4], by rw [he4]; simp, ?_⟩, by simp⟩
    rw [he4]; exact ⟨by simp, hsf3.2.1, hsf3.2.2⟩
  obtain ⟨P, hP, trP, hPns⟩ := execProof_seg cfg (Nat.le_refl n) db hwf goal labels steps e4 _ s calls
    hI4 hex
  exact ⟨a1, C, P, e1, e2, e3, e4, by rw [hP]; simp [List.append_assoc], trG, ht1, trC, ht3, trP, hpG,
    hpC, hnsG, hnsC, hPns⟩

/-- the side conditions of the whole history follow from well-formedness of the database and the
canonical naming of symbols -/
theorem translate_side (cfg : Cfg) (n : Nat) (db : DB) (goal : Term) (labels : List Lbl)
    (steps : List Nat) (s : PySt) (calls : List Call) (hwf : db.WF)
    (hex : translateFull cfg n db goal labels steps = some (some (s, calls)))
    (hcanon : CanonCalls [] calls) :
    AllSideM n (PySt.init [image db goal]) calls ∧ Reach n (PySt.init [image db goal]) calls s := by
  obtain ⟨G, C, P, t1, t2, t3, t4, rfl, trG, ht1, trC, ht3, trP, _⟩ :=
    translate_trace cfg n db goal labels steps s calls hwf hex
  have htr : Tr n (PySt.init [image db goal]) (G ++ .intoClaim :: (C ++ .intoProof :: P)) s :=
    trG.append (Tr.cons ht1 (Or.inl (Or.inl rfl)) (trC.append (Tr.cons ht3 (Or.inl (Or.inr rfl)) trP)))
  exact ⟨allSideM_of_NS n _ _ htr.2 hcanon, htr.1⟩

/-- the replay `hT` of T2 is derivable: the collected calls are accepted by `trackAll` -/
theorem emit1_of_track1 {n : Nat} {s s' : PySt} {c : Call} (h : track1 n s c = some (some s')) :
    ∃ is, emit1 n s c = some (some is) := by
  cases c with
  | load t =>
    simp only [track1, Option.bind_eq_bind, Option.bind_eq_some_iff] at h
    obtain ⟨oi, hi, h⟩ := h
    cases oi with
    | none => simp at h
    | some i => exact ⟨[.load i], by simp [emit1, hi]⟩
  | metavar id ef sf ps ns hs => simp only [emit1]; split <;> exact ⟨_, rfl⟩
  | _ => exact ⟨_, rfl⟩

theorem reach_trackAll {n : Nat} : ∀ (cs : List Call) (s s' : PySt)
    (out : List Instr × List Instr × List Instr), Reach n s cs s' →
    ∃ out', trackAll n s cs out = some (some (s', out')) := by
  intro cs
  induction cs with
  | nil =>
    intro s s' out h
    simp only [Reach] at h; subst h
    exact ⟨out, by simp [trackAll]⟩
  | cons c cs ih =>
    intro s s' out h
    obtain ⟨s1, h1, hr⟩ := h
    obtain ⟨is, he⟩ := emit1_of_track1 h1
    obtain ⟨g, cl, pf⟩ := out
    obtain ⟨out', ho⟩ := ih s1 s' (match s.phase with
        | .gamma => (g ++ is, cl, pf)
        | .claim => (g, cl ++ is, pf)
        | .proof => (g, cl, pf ++ is)) hr
    exact ⟨out', by simp only [trackAll, he, h1, Option.bind_eq_bind, Option.bind_some]; exact ho⟩

theorem translate_trackAll (cfg : Cfg) (n : Nat) (db : DB) (goal : Term) (labels : List Lbl)
    (steps : List Nat) (s : PySt) (calls : List Call) (hwf : db.wf = true)
    (hex : translateFull cfg n db goal labels steps = some (some (s, calls))) :
    ∃ g c p, PySt.trackAll n (PySt.init [image db goal]) calls ([], [], []) = some (some (s, (g, c, p))) := by
  obtain ⟨G, C, P, t1, t2, t3, t4, rfl, trG, ht1, trC, ht3, trP, _⟩ :=
    translate_trace cfg n db goal labels steps s calls (db.wf_WF hwf) hex
  have htr : Tr n (PySt.init [image db goal]) (G ++ .intoClaim :: (C ++ .intoProof :: P)) s :=
    trG.append (Tr.cons ht1 (Or.inl (Or.inl rfl)) (trC.append (Tr.cons ht3 (Or.inl (Or.inr rfl)) trP)))
  obtain ⟨⟨g, c, p⟩, h⟩ := reach_trackAll _ _ s ([], [], []) htr.1
  exact ⟨g, c, p, h⟩

/-- T2. The checker accepts the serialised translation; the published theory is the structural image
of the database's axioms and the published claim the image of the goal.  No side condition is
assumed: they follow from `db.wf` and the canonical naming of symbols. -/
theorem translate_accepted_core (cfg : PySt.Cfg) (n : Nat) (db : DB) (goal : Term) (labels : List Lbl)
    (steps : List Nat) (s : PySt) (calls : List Call) (g c p : List Instr)
    (hwf : db.wf = true)
    (hex : translateFull cfg n db goal labels steps = some (some (s, calls)))
    (hT : PySt.trackAll n (PySt.init [image db goal]) calls ([], [], []) = some (some (s, (g, c, p))))
    (hcanon : CanonCalls [] calls) (hfin : s.claims = []) :
    verify g c p = some (db.axiomImages.map NPat.expand, [(image db goal).expand]) := by
  have hWF := db.wf_WF hwf
  obtain ⟨hside, _⟩ := translate_side cfg n db goal labels steps s calls hWF hex hcanon
  obtain ⟨G, C, P, t1, t2, t3, t4, rfl, trG, ht1, trC, ht3, trP, hpG, hpC, hnsG, hnsC, hPns⟩ :=
    translate_trace cfg n db goal labels steps s calls hWF hex
  have := phases_accepted n [image db goal] G C P s g c p (db.axiomImages.map NPat.expand)
    (by simp; exact F0.shape _ (B0.toF0 _ (image_B0 db goal))) hT hside hnsG hnsC hPns hpG
    (by
      intro t1' t2' hr1 hs1
      have e1 := reach_det hr1 trG.1
      subst e1
      rw [ht1] at hs1
      cases hs1
      exact hpC) hfin
  simpa using this

end MM
#print axioms MM.translate_accepted_core
#print axioms MM.translate_trackAll
