import Pi2.MM.Slice
/-!
# Properties of the slicer
-/
namespace MM

def isFloat (s : MStmt) : Bool := match s with | .float .. => true | _ => false

/-- the top-level floating statements of a database, in order -/
def topFloats (db : MDb) : List MStmt := db.filter isFloat

/-! ## the parts of a slice (names for the `let`s of `supportingDb`) -/

def neededOf (cut : Cut) (syntaxDeps : List (String × List String)) (labels : List String) :
    List String :=
  let needed1 := labels ++ labels.filterMap (sugarOf cut)
  needed1 ++ (needed1.flatMap fun l => (syntaxDeps.lookup l).getD []) ++ topEssLabels cut

def keptTypecodesOf (cut : Cut) (mvs : List String) : List String :=
  cut.filterMap fun (_, st) =>
    match st with
    | .float _ tc v => if mvs.contains v then some tc else none
    | _ => none

def varStmtOf (mvs : List String) : List MStmt := if mvs.isEmpty then [] else [MStmt.var (sortDedup mvs)]

/-- the statements of `cut_antecedents` a slice keeps, in the order of the dictionary: needed statements, floating
statements of needed metavariables, and the `$d` statements restricted to the needed metavariables -/
def keptOf (cut : Cut) (needed mvs : List String) : List MStmt := cut.filterMap (keepEntry needed mvs)

/-- B1: the shape of a slice -/
theorem slice_shape {cut : Cut} {deps : List (String × List String)} {label : String} {terms : List MTerm}
    {proof : List String} {ess : List MStmt} {sl : MDb}
    (h : supportingDb cut deps label terms proof ess = some sl) :
    ∃ labels neededStmts consts,
      proofLabels proof = some labels ∧
      (neededOf cut deps labels).mapM (fun l => cut.lookup (some l)) = some neededStmts ∧
      stmtsConstants (.prov label terms proof :: (ess ++ neededStmts)) = some consts ∧
      sl = .const (sortDedup (defaultConstants ++ consts ++
              keptTypecodesOf cut (stmtsMvs (.prov label terms proof :: (ess ++ neededStmts))))) ::
          (varStmtOf (stmtsMvs (.prov label terms proof :: (ess ++ neededStmts)))
          ++ keptOf cut (neededOf cut deps labels) (stmtsMvs (.prov label terms proof :: (ess ++ neededStmts)))
          ++ [.block (ess ++ [.prov label terms proof])]) := by
  simp only [supportingDb, Option.bind_eq_bind, Option.bind_eq_some_iff, Option.pure_def] at h
  obtain ⟨labels, hl, neededStmts, hn, consts, hc, h⟩ := h
  injection h with h
  refine ⟨labels, neededStmts, consts, hl, hn, hc, ?_⟩
  rw [← h]
  rfl

/-! ## auxiliary facts -/

theorem mem_sortDedup {x : String} {xs : List String} : x ∈ sortDedup xs ↔ x ∈ xs := by
  simp [sortDedup, List.mem_eraseDups, List.mem_mergeSort]

theorem mapM_lookup_mem {α β : Type} (f : α → Option β) : ∀ (l : List α) (ys : List β), l.mapM f = some ys →
    ∀ x ∈ l, ∃ y, f x = some y ∧ y ∈ ys
  | [], _, _, x, hx => by cases hx
  | a :: l, ys, h, x, hx => by
      rw [List.mapM_cons] at h
      simp only [Option.bind_eq_bind, Option.bind_eq_some_iff, Option.pure_def] at h
      obtain ⟨y, hy, ys', hys', e⟩ := h
      injection e with e; subst e
      rcases List.mem_cons.1 hx with rfl | hx
      · exact ⟨y, hy, by simp⟩
      · obtain ⟨y', h1, h2⟩ := mapM_lookup_mem f l ys' hys' x hx
        exact ⟨y', h1, by simp [h2]⟩

theorem lookup_mem {κ β : Type} [BEq κ] [LawfulBEq κ] : ∀ (d : List (κ × β)) (k : κ) (v : β),
    d.lookup k = some v → (k, v) ∈ d
  | [], _, _, h => by simp [List.lookup] at h
  | (k', v') :: d, k, v, h => by
      simp only [List.lookup] at h
      split at h
      · next hk => injection h with h; subst h; simp at hk; subst hk; simp
      · exact List.mem_cons_of_mem _ (lookup_mem d k v h)

/-- the labels under which something is filed (the `$d` entries have no label) -/
def labelKeys (d : Cut) : List String := d.filterMap (·.1)

theorem mem_labelKeys {d : Cut} {k : String} : k ∈ labelKeys d ↔ ∃ v, (some k, v) ∈ d := by
  simp only [labelKeys, List.mem_filterMap]
  constructor
  · rintro ⟨⟨k', v⟩, hm, e⟩
    simp only at e; subst e; exact ⟨v, hm⟩
  · rintro ⟨v, hm⟩; exact ⟨(some k, v), hm, rfl⟩

theorem lookup_of_nodup : ∀ (d : Cut) (k : String) (v : MStmt),
    (labelKeys d).Nodup → (some k, v) ∈ d → d.lookup (some k) = some v
  | [], _, _, _, h => by cases h
  | (k', v') :: d, k, v, hnd, h => by
      simp only [List.lookup]
      rcases List.mem_cons.1 h with e | h'
      · injection e with e1 e2; subst e1 e2; simp
      · have hne : some k ≠ k' := by
          intro e; subst e
          simp only [labelKeys, List.filterMap_cons, List.nodup_cons] at hnd
          exact hnd.1 (mem_labelKeys.2 ⟨v, h'⟩)
        have : (some k == k') = false := by simpa using hne
        rw [this]
        refine lookup_of_nodup d k v ?_ h'
        cases k' with
        | none => simpa [labelKeys] using hnd
        | some k'' =>
          simp only [labelKeys, List.filterMap_cons, List.nodup_cons] at hnd
          exact hnd.2

theorem stmtsConstants_mem : ∀ (l : List MStmt) (xs : List String), stmtsConstants l = some xs →
    ∀ s ∈ l, ∃ ys, stmtConstants s = some ys ∧ ∀ c ∈ ys, c ∈ xs
  | [], _, _, s, hs => by cases hs
  | a :: l, xs, h, s, hs => by
      simp only [stmtsConstants, Option.bind_eq_bind, Option.bind_eq_some_iff, Option.pure_def] at h
      obtain ⟨ya, hya, yl, hyl, e⟩ := h
      injection e with e; subst e
      rcases List.mem_cons.1 hs with rfl | hs
      · exact ⟨ya, hya, fun c hc => by simp [hc]⟩
      · obtain ⟨ys, h1, h2⟩ := stmtsConstants_mem l yl hyl s hs
        exact ⟨ys, h1, fun c hc => by simp [h2 c hc]⟩

theorem stmtsConstants_sub : ∀ (l : List MStmt) (xs : List String), stmtsConstants l = some xs →
    ∀ c ∈ xs, ∃ s ∈ l, ∃ ys, stmtConstants s = some ys ∧ c ∈ ys
  | [], xs, h, c, hc => by simp [stmtsConstants] at h; subst h; cases hc
  | a :: l, xs, h, c, hc => by
      simp only [stmtsConstants, Option.bind_eq_bind, Option.bind_eq_some_iff, Option.pure_def] at h
      obtain ⟨ya, hya, yl, hyl, e⟩ := h
      injection e with e; subst e
      rcases List.mem_append.1 hc with hc | hc
      · exact ⟨a, by simp, ya, hya, hc⟩
      · obtain ⟨s, hs, ys, h1, h2⟩ := stmtsConstants_sub l yl hyl c hc
        exact ⟨s, List.mem_cons_of_mem _ hs, ys, h1, h2⟩

theorem mem_stmtsMvs {v : String} : ∀ {l : List MStmt}, v ∈ stmtsMvs l ↔ ∃ s ∈ l, v ∈ stmtMvs s
  | [] => by simp [stmtsMvs]
  | a :: l => by simp [stmtsMvs, mem_stmtsMvs (l := l)]

theorem mem_keptOf {cut : Cut} {needed mvs : List String} {st : MStmt} :
    st ∈ keptOf cut needed mvs ↔ ∃ e ∈ cut, keepEntry needed mvs e = some st := by
  simp [keptOf, List.mem_filterMap]

/-- what `keepEntry` keeps: a `$d` statement restricted to the needed metavariables (more than one of them),
a needed statement, or the floating statement of a needed metavariable -/
theorem nameNeeded_iff {needed : List String} {name : Option String} :
    nameNeeded needed name = true ↔ ∃ n, name = some n ∧ n ∈ needed := by
  cases name with
  | none => simp [nameNeeded]
  | some n => simp [nameNeeded]

theorem keepEntry_cases {needed mvs : List String} {name : Option String} {st0 st : MStmt}
    (h : keepEntry needed mvs (name, st0) = some st) :
    (∃ vs, st0 = .disj vs ∧ st = .disj (vs.filter fun v => mvs.contains v) ∧
        1 < (vs.filter fun v => mvs.contains v).length) ∨
    (st = st0 ∧ (∀ vs, st0 ≠ .disj vs) ∧
      ((∃ n, name = some n ∧ n ∈ needed) ∨ ∃ l tc v, st0 = .float l tc v ∧ v ∈ mvs)) := by
  have other : (∀ vs, st0 ≠ .disj vs) → (if nameNeeded needed name = true then some st0 else none) = some st →
      st = st0 ∧ (∀ vs, st0 ≠ .disj vs) ∧
        ((∃ n, name = some n ∧ n ∈ needed) ∨ ∃ l tc v, st0 = .float l tc v ∧ v ∈ mvs) := by
    intro hd h
    split at h
    · next hn => injection h with h; exact ⟨h.symm, hd, Or.inl (nameNeeded_iff.1 hn)⟩
    · cases h
  cases st0 with
  | disj vs =>
    left
    simp only [keepEntry] at h
    split at h
    · next hl => injection h with h; subst h; exact ⟨vs, rfl, rfl, by simpa using hl⟩
    · cases h
  | float l tc v =>
    right
    simp only [keepEntry] at h
    split at h
    · next hc =>
      injection h with h
      subst h
      simp only [Bool.or_eq_true] at hc
      have hnd : ∀ vs, MStmt.float l tc v ≠ MStmt.disj vs := fun vs e => by cases e
      rcases hc with hc | hc
      · exact ⟨rfl, hnd, Or.inl (nameNeeded_iff.1 hc)⟩
      · exact ⟨rfl, hnd, Or.inr ⟨l, tc, v, rfl, by simpa using hc⟩⟩
    · cases h
  | const cs => exact Or.inr (other (by intro vs e; cases e) h)
  | var vs => exact Or.inr (other (by intro vs e; cases e) h)
  | ess l ts => exact Or.inr (other (by intro vs e; cases e) h)
  | ax l ts => exact Or.inr (other (by intro vs e; cases e) h)
  | prov l ts pf => exact Or.inr (other (by intro vs e; cases e) h)
  | block ss => exact Or.inr (other (by intro vs e; cases e) h)

theorem mem_varStmtOf {mvs : List String} {s : MStmt} : s ∈ varStmtOf mvs → s = .var (sortDedup mvs) := by
  unfold varStmtOf
  split <;> simp

/-! ## B3: everything used in a slice is declared in it -/

/-- a kept statement is one of the needed statements, the floating statement of a needed metavariable, or a `$d`
statement over needed metavariables -/
theorem kept_cases {cut : Cut} (hnd : (labelKeys cut).Nodup) {needed mvs : List String}
    {neededStmts : List MStmt} (hn : needed.mapM (fun l => cut.lookup (some l)) = some neededStmts) {s : MStmt}
    (hs : s ∈ keptOf cut needed mvs) :
    s ∈ neededStmts ∨ (∃ l tc v, s = .float l tc v ∧ v ∈ mvs) ∨ ∃ r, s = .disj r ∧ ∀ x ∈ r, x ∈ mvs := by
  obtain ⟨⟨name, st0⟩, hmem, hk⟩ := mem_keptOf.1 hs
  rcases keepEntry_cases hk with ⟨vs, _, rfl, _⟩ | ⟨rfl, _, h | h⟩
  · right; right
    refine ⟨_, rfl, ?_⟩
    intro x hx
    simpa using (List.mem_filter.1 hx).2
  · left
    obtain ⟨n, rfl, hn'⟩ := h
    obtain ⟨y, hy, hy'⟩ := mapM_lookup_mem _ _ _ hn n hn'
    rw [lookup_of_nodup cut n s hnd hmem] at hy
    injection hy with hy; subst hy; exact hy'
  · exact Or.inr (Or.inl h)

theorem slice_declares {cut : Cut} {deps : List (String × List String)} {label : String} {terms : List MTerm}
    {proof : List String} {ess : List MStmt} {sl : MDb} (hnd : (labelKeys cut).Nodup)
    (h : supportingDb cut deps label terms proof ess = some sl) :
    ∃ cs rest, sl = .const cs :: rest ∧
      (∀ s ∈ rest, ∀ xs c, stmtConstants s = some xs → c ∈ xs → c ∈ cs) ∧
      (∀ l tc v, MStmt.float l tc v ∈ rest → tc ∈ cs) ∧
      (stmtsMvs rest ≠ [] → ∃ vs rest', rest = .var vs :: rest' ∧ ∀ s ∈ rest, ∀ v ∈ stmtMvs s, v ∈ vs) := by
  obtain ⟨labels, neededStmts, consts, hl, hn, hc, hsl⟩ := slice_shape h
  refine ⟨_, _, hsl, ?_⟩
  generalize hall : MStmt.prov label terms proof :: (ess ++ neededStmts) = all at *
  have hblk : ∀ s ∈ ess ++ [MStmt.prov label terms proof], s ∈ all := by
    intro s hs; subst hall
    rcases List.mem_append.1 hs with hs | hs
    · simp [hs]
    · simp at hs; simp [hs]
  have hneeded : ∀ s ∈ neededStmts, s ∈ all := by
    intro s hs; subst hall; simp [hs]
  -- constants
  have hconst : ∀ s ∈ varStmtOf (stmtsMvs all) ++
      keptOf cut (neededOf cut deps labels) (stmtsMvs all) ++ [MStmt.block (ess ++ [MStmt.prov label terms proof])],
      ∀ xs c, stmtConstants s = some xs → c ∈ xs →
        c ∈ sortDedup (defaultConstants ++ consts ++ keptTypecodesOf cut (stmtsMvs all)) := by
    intro s hs xs c hxs hcx
    rw [mem_sortDedup]
    simp only [List.mem_append, List.mem_singleton] at hs
    rcases hs with (hs | hs) | hs
    · rw [mem_varStmtOf hs] at hxs; simp [stmtConstants] at hxs
    · rcases kept_cases hnd hn hs with hk | ⟨l, tc, v, rfl, hv⟩ | ⟨r, rfl, _⟩
      · obtain ⟨ys, h1, h2⟩ := stmtsConstants_mem _ _ hc s (hneeded s hk)
        rw [h1] at hxs; injection hxs with hxs; subst hxs
        simp [h2 c hcx]
      · simp [stmtConstants] at hxs; subst hxs
        simp at hcx; subst hcx
        refine List.mem_append_right _ ?_
        obtain ⟨⟨name, st0⟩, hmem, hk⟩ := mem_keptOf.1 hs
        rcases keepEntry_cases hk with ⟨vs, _, e, _⟩ | ⟨e, _, _⟩
        · cases e
        · subst e
          simp only [keptTypecodesOf, List.mem_filterMap]
          exact ⟨(name, .float l c v), hmem, by simp [hv]⟩
      · simp [stmtConstants] at hxs; subst hxs; cases hcx
    · subst hs
      simp only [stmtConstants] at hxs
      obtain ⟨s', hs', ys, h1, h2⟩ := stmtsConstants_sub _ _ hxs c hcx
      obtain ⟨ys', h1', h2'⟩ := stmtsConstants_mem _ _ hc s' (hblk s' hs')
      rw [h1] at h1'; injection h1' with h1'; subst h1'
      simp [h2' c h2]
  -- metavariables
  have hmv : ∀ s ∈ varStmtOf (stmtsMvs all) ++
      keptOf cut (neededOf cut deps labels) (stmtsMvs all) ++ [MStmt.block (ess ++ [MStmt.prov label terms proof])],
      ∀ v ∈ stmtMvs s, v ∈ stmtsMvs all := by
    intro s hs v hv
    simp only [List.mem_append, List.mem_singleton] at hs
    rcases hs with (hs | hs) | hs
    · rw [mem_varStmtOf hs] at hv; simp [stmtMvs] at hv
    · rcases kept_cases hnd hn hs with hk | ⟨l, tc, x, rfl, hx⟩ | ⟨r, rfl, hr⟩
      · exact mem_stmtsMvs.2 ⟨s, hneeded s hk, hv⟩
      · simp [stmtMvs] at hv; subst hv; exact hx
      · exact hr v hv
    · subst hs
      simp only [stmtMvs] at hv
      obtain ⟨s', hs', hv'⟩ := mem_stmtsMvs.1 hv
      exact mem_stmtsMvs.2 ⟨s', hblk s' hs', hv'⟩
  refine ⟨hconst, ?_, ?_⟩
  · intro l tc v hmem
    exact hconst _ hmem [tc] tc (by simp [stmtConstants]) (by simp)
  · intro hne
    by_cases hemp : stmtsMvs all = []
    · exfalso; apply hne
      apply List.eq_nil_iff_forall_not_mem.2
      intro v hv
      obtain ⟨s, hs, hv'⟩ := mem_stmtsMvs.1 hv
      have := hmv s hs v hv'
      rw [hemp] at this; cases this
    · have hvar : varStmtOf (stmtsMvs all) = [MStmt.var (sortDedup (stmtsMvs all))] := by
        unfold varStmtOf
        have : (stmtsMvs all).isEmpty = false := by
          cases hm : stmtsMvs all with
          | nil => exact absurd hm hemp
          | cons _ _ => rfl
        simp [this]
      refine ⟨sortDedup (stmtsMvs all), _, by rw [hvar]; simp only [List.cons_append, List.nil_append]; rfl, ?_⟩
      intro s hs v hv
      exact mem_sortDedup.2 (hmv s hs v hv)

/-! ## B4: the statements of the lemmas used by the proof are in the slice -/

theorem labelKeys_replace (d : Cut) (k : String) (v : MStmt) :
    labelKeys (d.map fun (k', v') => if k' == some k then (k', v) else (k', v')) = labelKeys d := by
  induction d with
  | nil => rfl
  | cons a d ih =>
    obtain ⟨k', v'⟩ := a
    unfold labelKeys at ih ⊢
    simp only [List.map_cons, List.filterMap_cons]
    rw [ih]
    by_cases hk : (k' == some k) = true
    · simp only [hk, if_true]
    · simp only [hk]; rfl

theorem dictSet_keys (d : Cut) (k : String) (v : MStmt) :
    labelKeys (dictSet d k v) = if k ∈ labelKeys d then labelKeys d else labelKeys d ++ [k] := by
  unfold dictSet
  by_cases hk : k ∈ labelKeys d
  · have : d.any (·.1 == some k) = true := by
      obtain ⟨v', hmem⟩ := mem_labelKeys.1 hk
      exact List.any_eq_true.2 ⟨(some k, v'), hmem, by simp⟩
    rw [if_pos this, if_pos hk]
    exact labelKeys_replace d k v
  · have : ¬ (d.any (·.1 == some k) = true) := by
      intro h
      obtain ⟨⟨k', v'⟩, hmem, e⟩ := List.any_eq_true.1 h
      simp only [beq_iff_eq] at e; subst e
      exact hk (mem_labelKeys.2 ⟨v', hmem⟩)
    rw [if_neg this, if_neg hk]; simp [labelKeys]

theorem dictSet_nodup (d : Cut) (k : String) (v : MStmt) (h : (labelKeys d).Nodup) :
    (labelKeys (dictSet d k v)).Nodup := by
  rw [dictSet_keys]
  split
  · exact h
  · next hk =>
    rw [List.nodup_append]
    exact ⟨h, by simp, by intro a ha b hb; simp at hb; subst hb; intro e; subst e; exact hk ha⟩

/-- only `$d` statements are filed without a label (an invariant of `slice_database`: `cut_labelled`) -/
def CutLabelled (cut : Cut) : Prop := ∀ k vs, (some k, MStmt.disj vs) ∉ cut

theorem keepEntry_needed {needed mvs : List String} {k : String} {st : MStmt} (hk : k ∈ needed)
    (hst : ∀ vs, st ≠ .disj vs) : keepEntry needed mvs (some k, st) = some st := by
  cases st <;> first | exact absurd rfl (hst _) | simp [keepEntry, nameNeeded, hk]

/-- B4 (`lookup` finds the first entry, and that entry is kept) -/
theorem slice_labels_present {cut : Cut} {deps : List (String × List String)} {label : String} {terms : List MTerm}
    {proof : List String} {ess : List MStmt} {sl : MDb} {labels : List String} (hcut : CutLabelled cut)
    (h : supportingDb cut deps label terms proof ess = some sl)
    (hl : proofLabels proof = some labels) :
    ∀ l ∈ labels, ∃ st, cut.lookup (some l) = some st ∧ st ∈ sl := by
  obtain ⟨labels', neededStmts, consts, hl', hn, hc, hsl⟩ := slice_shape h
  rw [hl] at hl'; injection hl' with hl'; subst hl'
  intro l hlmem
  have hneeded : l ∈ neededOf cut deps labels := by simp [neededOf, hlmem]
  obtain ⟨st, hst, _⟩ := mapM_lookup_mem _ _ _ hn l hneeded
  refine ⟨st, hst, ?_⟩
  rw [hsl]
  have hm := lookup_mem _ _ _ hst
  have : st ∈ keptOf cut (neededOf cut deps labels)
      (stmtsMvs (MStmt.prov label terms proof :: (ess ++ neededStmts))) :=
    mem_keptOf.2 ⟨(some l, st), hm, keepEntry_needed hneeded (fun vs e => hcut l vs (e ▸ hm))⟩
  simp [this]

/-- the same for every needed label (sugar axioms, syntactic dependencies and the essential hypotheses stated
outside a block included) -/
theorem slice_needed_present {cut : Cut} {deps : List (String × List String)} {label : String} {terms : List MTerm}
    {proof : List String} {ess : List MStmt} {sl : MDb} {labels : List String} (hcut : CutLabelled cut)
    (h : supportingDb cut deps label terms proof ess = some sl)
    (hl : proofLabels proof = some labels) :
    ∀ l ∈ neededOf cut deps labels, ∃ st, cut.lookup (some l) = some st ∧ st ∈ sl := by
  obtain ⟨labels', neededStmts, consts, hl', hn, hc, hsl⟩ := slice_shape h
  rw [hl] at hl'; injection hl' with hl'; subst hl'
  intro l hneeded
  obtain ⟨st, hst, _⟩ := mapM_lookup_mem _ _ _ hn l hneeded
  refine ⟨st, hst, ?_⟩
  rw [hsl]
  have hm := lookup_mem _ _ _ hst
  have : st ∈ keptOf cut (neededOf cut deps labels)
      (stmtsMvs (MStmt.prov label terms proof :: (ess ++ neededStmts))) :=
    mem_keptOf.2 ⟨(some l, st), hm, keepEntry_needed hneeded (fun vs e => hcut l vs (e ▸ hm))⟩
  simp [this]

/-- an essential hypothesis stated outside a block is in every later slice -/
theorem slice_keeps_top_ess {cut : Cut} {deps : List (String × List String)} {label : String} {terms : List MTerm}
    {proof : List String} {ess : List MStmt} {sl : MDb} {l : String} {ts : List MTerm}
    (h : supportingDb cut deps label terms proof ess = some sl) (hm : (some l, MStmt.ess l ts) ∈ cut) :
    MStmt.ess l ts ∈ sl := by
  obtain ⟨labels, neededStmts, consts, _, hn, hc, hsl⟩ := slice_shape h
  have hneeded : l ∈ neededOf cut deps labels := by
    simp only [neededOf, List.mem_append]
    right
    simp only [topEssLabels, List.mem_filterMap]
    exact ⟨(some l, .ess l ts), hm, rfl⟩
  rw [hsl]
  have : MStmt.ess l ts ∈ keptOf cut (neededOf cut deps labels)
      (stmtsMvs (MStmt.prov label terms proof :: (ess ++ neededStmts))) :=
    mem_keptOf.2 ⟨(some l, .ess l ts), hm, keepEntry_needed hneeded (by intro vs e; cases e)⟩
  simp [this]

/-- a `$d` statement keeps its place: among the kept statements (`keptOf`: `cut_antecedents` filtered in dictionary
order) it appears restricted to the metavariables of the slice, provided more than one of them remains -/
theorem keepEntry_disj (needed mvs : List String) (k : Option String) (vs : List String) :
    keepEntry needed mvs (k, .disj vs) =
      if 1 < (vs.filter fun v => mvs.contains v).length then some (.disj (vs.filter fun v => mvs.contains v))
      else none := by
  simp only [keepEntry, gt_iff_lt]

/-! ## one step of `sliceDatabase` -/

/-- the label under which `sliceStep` files a top-level statement in `cut` (if any) -/
def sliceKey? (s : MStmt) : Option String :=
  match s with
  | .const _ => none
  | .var _ => none
  | .disj _ => none
  | .ess l _ => some l
  | .float l _ _ => some l
  | .ax l _ => some l
  | .prov l _ _ => some l
  | .block _ =>
    match matchAxiom s with
    | some (some (.ax l _)) => some l
    | some none =>
      match deconstructProvable s with
      | some (_, .prov l _ _) => some l
      | _ => none
    | _ => none

theorem isFloat_constructAxiom (ants : List MStmt) (l : String) (ts : List MTerm) :
    isFloat (constructAxiom ants l ts) = false := by
  unfold constructAxiom; split <;> rfl

def isDisj (s : MStmt) : Bool := match s with | .disj _ => true | _ => false

theorem isDisj_constructAxiom (ants : List MStmt) (l : String) (ts : List MTerm) :
    isDisj (constructAxiom ants l ts) = false := by
  unfold constructAxiom; split <;> rfl

/-- what a step does to `cut` and `out` -/
def StepSpec (deps : List (String × List String)) (st : SliceSt) (s : MStmt) (st' : SliceSt) : Prop :=
  ((st'.cut = st.cut ∧ isFloat s = false) ∨
    (∃ vs, s = .disj vs ∧ st'.cut = st.cut ++ [(none, s)]) ∨
    ∃ k v, sliceKey? s = some k ∧ st'.cut = dictSet st.cut k v ∧ isDisj v = false ∧
      (isFloat s = true → v = s) ∧ (isFloat s = false → isFloat v = false)) ∧
  (st'.out = st.out ∨
    ∃ l ts pf ants sl, deconstructProvable s = some (ants, .prov l ts pf) ∧
      supportingDb st.cut deps l ts pf ants = some sl ∧ st'.out = st.out ++ [(l, sl)])

theorem sliceTail_spec {deps : List (String × List String)} {incl excl : List String} {st st' : SliceSt}
    {s : MStmt} {l : String} {ts : List MTerm} {pf : List String} {ants : List MStmt}
    (hk : sliceKey? s = some l) (hf : isFloat s = false)
    (hd : deconstructProvable s = some (ants, .prov l ts pf))
    (h : (do
        let out ← if incl.contains l && !excl.contains l then do
            pure (st.out ++ [(l, ← supportingDb st.cut deps l ts pf ants)])
          else pure st.out
        pure { st with out := out, cut := dictSet st.cut l (constructAxiom ants l ts) }) = some st') :
    StepSpec deps st s st' := by
  split at h
  · simp only [Option.bind_eq_bind, Option.bind_eq_some_iff, Option.pure_def] at h
    obtain ⟨sl, hsl, out, hout, h⟩ := h
    injection hout with hout; subst hout
    injection h with h; subst h
    exact ⟨Or.inr (Or.inr ⟨l, _, hk, rfl, isDisj_constructAxiom _ _ _, by simp [hf],
      fun _ => isFloat_constructAxiom _ _ _⟩), Or.inr ⟨l, ts, pf, ants, sl, hd, hsl, rfl⟩⟩
  · simp only [Option.bind_eq_bind, Option.bind_eq_some_iff, Option.pure_def] at h
    obtain ⟨out, hout, h⟩ := h
    injection hout with hout; subst hout
    injection h with h; subst h
    exact ⟨Or.inr (Or.inr ⟨l, _, hk, rfl, isDisj_constructAxiom _ _ _, by simp [hf],
      fun _ => isFloat_constructAxiom _ _ _⟩), Or.inl rfl⟩

theorem sliceStep_spec {deps : List (String × List String)} {incl excl : List String} {st st' : SliceSt}
    {s : MStmt} (h : sliceStep deps incl excl st s = some st') : StepSpec deps st s st' := by
  cases s with
  | const cs => simp only [sliceStep] at h; injection h with h; subst h; exact ⟨Or.inl ⟨rfl, rfl⟩, Or.inl rfl⟩
  | var vs => simp only [sliceStep] at h; injection h with h; subst h; exact ⟨Or.inl ⟨rfl, rfl⟩, Or.inl rfl⟩
  | disj vs =>
    simp only [sliceStep] at h; injection h with h; subst h
    exact ⟨Or.inr (Or.inl ⟨vs, rfl, rfl⟩), Or.inl rfl⟩
  | float l tc v =>
    simp only [sliceStep] at h; injection h with h; subst h
    exact ⟨Or.inr (Or.inr ⟨l, _, rfl, rfl, rfl, fun _ => rfl, fun h => by cases h⟩), Or.inl rfl⟩
  | ess l ts =>
    simp only [sliceStep] at h; injection h with h; subst h
    exact ⟨Or.inr (Or.inr ⟨l, _, rfl, rfl, rfl, fun h => (by cases h), fun _ => rfl⟩), Or.inl rfl⟩
  | ax l ts =>
    simp [sliceStep, matchAxiom] at h; subst h
    exact ⟨Or.inr (Or.inr ⟨l, _, rfl, rfl, rfl, fun h => (by cases h), fun _ => rfl⟩), Or.inl rfl⟩
  | prov l ts pf =>
    simp only [sliceStep, matchAxiom, Option.bind_eq_bind, Option.bind_some, deconstructProvable] at h
    exact sliceTail_spec rfl rfl rfl h
  | block ss =>
    simp only [sliceStep, Option.bind_eq_bind, Option.bind_eq_some_iff] at h
    obtain ⟨m, hm, h⟩ := h
    split at h
    · next l' ts' =>
      injection h with h; subst h
      exact ⟨Or.inr (Or.inr ⟨l', _, by simp [sliceKey?, hm], rfl, rfl, fun h => (by cases h), fun _ => rfl⟩),
        Or.inl rfl⟩
    · cases h
    · simp only [Option.bind_eq_some_iff] at h
      obtain ⟨⟨ants, concl⟩, hd, h⟩ := h
      simp only at h
      split at h
      · next l' ts' pf' =>
        exact sliceTail_spec (by simp [sliceKey?, hm, hd]) rfl hd h
      · cases h

/-! ## invariants of the run -/

theorem foldlM_inv {deps : List (String × List String)} {incl excl : List String} (db : MDb)
    (P : List MStmt → SliceSt → Prop)
    (hstep : ∀ pre s post st st', db = pre ++ s :: post → P pre st →
      sliceStep deps incl excl st s = some st' → P (pre ++ [s]) st') :
    ∀ (post pre : List MStmt) (st st' : SliceSt), db = pre ++ post → P pre st →
      post.foldlM (sliceStep deps incl excl) st = some st' → P db st' := by
  intro post
  induction post with
  | nil =>
    intro pre st st' hdb hP h
    simp only [List.foldlM_nil, Option.pure_def] at h
    injection h with h; subst h
    simp at hdb; subst hdb; exact hP
  | cons s post ih =>
    intro pre st st' hdb hP h
    simp only [List.foldlM_cons, Option.bind_eq_bind, Option.bind_eq_some_iff] at h
    obtain ⟨st1, hs, hrest⟩ := h
    exact ih (pre ++ [s]) st1 st' (by simp [hdb]) (hstep pre s post st st1 hdb hP hs) hrest

theorem sliceDatabase_inv {deps : List (String × List String)} {incl excl : List String} {db : MDb}
    {out : List (String × MDb)} (P : List MStmt → SliceSt → Prop) (h0 : P [] {})
    (hstep : ∀ pre s post st st', db = pre ++ s :: post → P pre st →
      sliceStep deps incl excl st s = some st' → P (pre ++ [s]) st')
    (h : sliceDatabase db deps incl excl = some out) : ∃ st, P db st ∧ st.out = out := by
  simp only [sliceDatabase, Option.map_eq_some_iff] at h
  obtain ⟨st, h, e⟩ := h
  exact ⟨st, foldlM_inv db P hstep db [] {} st rfl h0 h, e⟩

/-! ## B2: the lemma is kept -/

theorem slice_getLast {cut : Cut} {deps : List (String × List String)} {label : String} {terms : List MTerm}
    {proof : List String} {ess : List MStmt} {sl : MDb}
    (h : supportingDb cut deps label terms proof ess = some sl) :
    sl.getLast? = some (.block (ess ++ [.prov label terms proof])) := by
  obtain ⟨_, _, _, _, _, _, hsl⟩ := slice_shape h
  rw [hsl, ← List.cons_append, List.getLast?_concat]

theorem slice_keeps_lemma {db : MDb} {deps : List (String × List String)} {incl excl : List String}
    {out : List (String × MDb)} {l : String} {sl : MDb}
    (h : sliceDatabase db deps incl excl = some out) (hmem : (l, sl) ∈ out) :
    ∃ s ∈ db, ∃ ants terms proof, deconstructProvable s = some (ants, .prov l terms proof) ∧
      sl.getLast? = some (.block (ants ++ [.prov l terms proof])) := by
  obtain ⟨st, hP, e⟩ := sliceDatabase_inv
    (fun pre st => ∀ l sl, (l, sl) ∈ st.out → ∃ s ∈ pre, ∃ ants terms proof,
      deconstructProvable s = some (ants, .prov l terms proof) ∧
      sl.getLast? = some (.block (ants ++ [.prov l terms proof])))
    (by intro l sl hm; cases hm)
    (by
      intro pre s post st st' _ hP hs l sl hm
      obtain ⟨_, hout⟩ := sliceStep_spec hs
      rcases hout with hout | ⟨l', ts, pf, ants, sl', hd, hsup, hout⟩
      · rw [hout] at hm
        obtain ⟨s', hs', r⟩ := hP l sl hm
        exact ⟨s', by simp [hs'], r⟩
      · rw [hout] at hm
        rcases List.mem_append.1 hm with hm | hm
        · obtain ⟨s', hs', r⟩ := hP l sl hm
          exact ⟨s', by simp [hs'], r⟩
        · simp only [List.mem_singleton, Prod.mk.injEq] at hm
          obtain ⟨rfl, rfl⟩ := hm
          exact ⟨s, by simp, ants, ts, pf, hd, slice_getLast hsup⟩)
    h
  subst e
  exact hP l sl hmem

/-! ## invariants of `cut`: labels are unique keys, only `$d` statements are filed without a label -/

theorem labelKeys_append (a b : Cut) : labelKeys (a ++ b) = labelKeys a ++ labelKeys b := by
  simp [labelKeys]

theorem mem_dictSet {d : Cut} {k : String} {v : MStmt} {e : Option String × MStmt} (h : e ∈ dictSet d k v) :
    e ∈ d ∨ e = (some k, v) := by
  unfold dictSet at h
  split at h
  · obtain ⟨⟨k', v'⟩, hm, he⟩ := List.mem_map.1 h
    simp only at he
    split at he
    · next hk => simp only [beq_iff_eq] at hk; subst hk; exact Or.inr he.symm
    · exact Or.inl (he ▸ hm)
  · rcases List.mem_append.1 h with h | h
    · exact Or.inl h
    · simp only [List.mem_singleton] at h; exact Or.inr h

theorem step_cut_inv {deps : List (String × List String)} {st st' : SliceSt} {s : MStmt}
    (h : StepSpec deps st s st') (hnd : (labelKeys st.cut).Nodup) (hl : CutLabelled st.cut) :
    (labelKeys st'.cut).Nodup ∧ CutLabelled st'.cut := by
  rcases h.1 with ⟨hcut, _⟩ | ⟨vs, _, hcut⟩ | ⟨k, v, _, hcut, hv, _, _⟩
  · rw [hcut]; exact ⟨hnd, hl⟩
  · rw [hcut]
    refine ⟨by simpa [labelKeys_append, labelKeys] using hnd, ?_⟩
    intro k vs' hm
    rcases List.mem_append.1 hm with hm | hm
    · exact hl k vs' hm
    · simp at hm
  · rw [hcut]
    refine ⟨dictSet_nodup _ _ _ hnd, ?_⟩
    intro k' vs' hm
    rcases mem_dictSet hm with hm | hm
    · exact hl k' vs' hm
    · injection hm with _ hm; subst hm; cases hv

/-- the slices of a run are cut from dictionaries with unique labels in which only `$d` statements have no label -/
theorem cut_labelled {db : MDb} {deps : List (String × List String)} {incl excl : List String}
    {out : List (String × MDb)} {l : String} {sl : MDb}
    (h : sliceDatabase db deps incl excl = some out) (hmem : (l, sl) ∈ out) :
    ∃ cut ants ts pf, (labelKeys cut).Nodup ∧ CutLabelled cut ∧ supportingDb cut deps l ts pf ants = some sl := by
  obtain ⟨st, hP, e⟩ := sliceDatabase_inv
    (fun _ st => ((labelKeys st.cut).Nodup ∧ CutLabelled st.cut) ∧ ∀ l sl, (l, sl) ∈ st.out →
      ∃ cut ants ts pf, (labelKeys cut).Nodup ∧ CutLabelled cut ∧ supportingDb cut deps l ts pf ants = some sl)
    ⟨⟨by simp [labelKeys], by intro k vs hm; cases hm⟩, by intro l sl hm; cases hm⟩
    (by
      intro pre s post st st' _ hP hs
      have hspec := sliceStep_spec hs
      refine ⟨step_cut_inv hspec hP.1.1 hP.1.2, ?_⟩
      intro l sl hm
      rcases hspec.2 with hout | ⟨l', ts, pf, ants, sl', hd, hsup, hout⟩
      · rw [hout] at hm; exact hP.2 l sl hm
      · rw [hout] at hm
        rcases List.mem_append.1 hm with hm | hm
        · exact hP.2 l sl hm
        · simp only [List.mem_singleton, Prod.mk.injEq] at hm
          obtain ⟨rfl, rfl⟩ := hm
          exact ⟨st.cut, ants, ts, pf, hP.1.1, hP.1.2, hsup⟩)
    h
  subst e
  exact hP.2 l sl hmem

/-! ## B3 for the slices of a run -/

/-- every constant and every metavariable used in the slice is declared in it -/
def SliceDeclares (sl : MDb) : Prop :=
  ∃ cs rest, sl = .const cs :: rest ∧
    (∀ s ∈ rest, ∀ xs c, stmtConstants s = some xs → c ∈ xs → c ∈ cs) ∧
    (∀ l tc v, MStmt.float l tc v ∈ rest → tc ∈ cs) ∧
    (stmtsMvs rest ≠ [] → ∃ vs rest', rest = .var vs :: rest' ∧ ∀ s ∈ rest, ∀ v ∈ stmtMvs s, v ∈ vs)

theorem sliceDatabase_declares {db : MDb} {deps : List (String × List String)} {incl excl : List String}
    {out : List (String × MDb)} {l : String} {sl : MDb}
    (h : sliceDatabase db deps incl excl = some out) (hmem : (l, sl) ∈ out) : SliceDeclares sl := by
  obtain ⟨cut, ants, ts, pf, hnd, _, hsup⟩ := cut_labelled h hmem
  exact slice_declares hnd hsup

/-! ## B5: the floating statements of a slice are in database order -/

/-- the label of a top-level floating statement is not the key of an earlier top-level statement -/
def FloatLabelsFresh (db : MDb) : Prop :=
  ∀ pre l tc v post, db = pre ++ MStmt.float l tc v :: post → ∀ s ∈ pre, sliceKey? s ≠ some l

/-- a stronger, simpler condition: the keys the run inserts are pairwise distinct -/
theorem floatLabelsFresh_of_nodup {db : MDb} (h : (db.filterMap sliceKey?).Nodup) : FloatLabelsFresh db := by
  intro pre l tc v post hdb s hs hk
  subst hdb
  rw [List.filterMap_append, List.nodup_append] at h
  exact h.2.2 l (List.mem_filterMap.2 ⟨s, hs, hk⟩) l
    (List.mem_filterMap.2 ⟨.float l tc v, by simp, rfl⟩) rfl

theorem topFloats_append (a b : List MStmt) : topFloats (a ++ b) = topFloats a ++ topFloats b := by
  simp [topFloats]

theorem topFloats_filterMap_keep : ∀ (cut : Cut) (needed mvs : List String),
    (topFloats (cut.filterMap (keepEntry needed mvs))).Sublist (topFloats (cut.map (·.2)))
  | [], _, _ => by simp [topFloats]
  | (name, st) :: cut, needed, mvs => by
      have ih := topFloats_filterMap_keep cut needed mvs
      rw [List.filterMap_cons]
      simp only [List.map_cons]
      cases hk : keepEntry needed mvs (name, st) with
      | none =>
        simp only [topFloats, List.filter_cons]
        split
        · exact List.Sublist.cons _ ih
        · exact ih
      | some b =>
        rcases keepEntry_cases hk with ⟨vs, rfl, rfl, _⟩ | ⟨rfl, _, _⟩
        · simpa [topFloats, List.filter_cons, isFloat] using ih
        · simp only [topFloats, List.filter_cons]
          split
          · exact List.Sublist.cons_cons _ ih
          · exact ih

theorem slice_floats_sub_cut {cut : Cut} {deps : List (String × List String)} {label : String} {terms : List MTerm}
    {proof : List String} {ess : List MStmt} {sl : MDb}
    (h : supportingDb cut deps label terms proof ess = some sl) :
    (topFloats sl).Sublist (topFloats (cut.map (·.2))) := by
  obtain ⟨labels, neededStmts, consts, _, _, _, hsl⟩ := slice_shape h
  have hv : ∀ mvs, topFloats (varStmtOf mvs) = [] := by
    intro mvs
    apply List.filter_eq_nil_iff.2
    intro s hs; rw [mem_varStmtOf hs]; simp [isFloat]
  have : topFloats sl = topFloats (keptOf cut (neededOf cut deps labels)
      (stmtsMvs (MStmt.prov label terms proof :: (ess ++ neededStmts)))) := by
    rw [hsl]
    have hc : ∀ c rest, topFloats (MStmt.const c :: rest) = topFloats rest := by
      intro c rest; simp [topFloats, isFloat]
    rw [hc, topFloats_append, topFloats_append, hv]
    simp [topFloats, isFloat]
  rw [this]
  exact topFloats_filterMap_keep _ _ _

theorem dictSet_fresh {d : Cut} {k : String} (v : MStmt) (hk : k ∉ labelKeys d) :
    dictSet d k v = d ++ [(some k, v)] := by
  unfold dictSet
  have : ¬ (d.any (·.1 == some k) = true) := by
    intro h
    obtain ⟨⟨k', v'⟩, hmem, e⟩ := List.any_eq_true.1 h
    simp only [beq_iff_eq] at e; subst e
    exact hk (mem_labelKeys.2 ⟨v', hmem⟩)
  rw [if_neg this]

theorem topFloats_replace_nonfloat (d : Cut) (k : String) {v : MStmt} (hv : isFloat v = false) :
    (topFloats ((d.map fun (k', v') => if k' == some k then (k', v) else (k', v')).map (·.2))).Sublist
      (topFloats (d.map (·.2))) := by
  induction d with
  | nil => simp
  | cons a d ih =>
    obtain ⟨k', v'⟩ := a
    simp only [List.map_cons]
    by_cases hk : (k' == some k) = true
    · simp only [hk, if_true, topFloats, List.filter_cons, hv]
      simp only [Bool.false_eq_true, if_false]
      split
      · exact List.Sublist.cons _ ih
      · exact ih
    · simp only [hk, if_false, topFloats, List.filter_cons, Bool.false_eq_true]
      split
      · exact List.Sublist.cons_cons _ ih
      · exact ih

theorem topFloats_dictSet_nonfloat (d : Cut) (k : String) {v : MStmt} (hv : isFloat v = false) :
    (topFloats ((dictSet d k v).map (·.2))).Sublist (topFloats (d.map (·.2))) := by
  unfold dictSet
  split
  · exact topFloats_replace_nonfloat d k hv
  · simp [topFloats, hv]

/-- B5 -/
theorem slice_floats_in_order {db : MDb} {deps : List (String × List String)} {incl excl : List String}
    {out : List (String × MDb)} {l : String} {sl : MDb} (hfresh : FloatLabelsFresh db)
    (h : sliceDatabase db deps incl excl = some out) (hmem : (l, sl) ∈ out) :
    (topFloats sl).Sublist (topFloats db) := by
  obtain ⟨st, hP, e⟩ := sliceDatabase_inv
    (fun pre st =>
      (topFloats (st.cut.map (·.2))).Sublist (topFloats pre) ∧
      (∀ k ∈ labelKeys st.cut, ∃ s ∈ pre, sliceKey? s = some k) ∧
      ∀ l sl, (l, sl) ∈ st.out → (topFloats sl).Sublist (topFloats pre))
    ⟨by simp [topFloats], (by intro k hk; cases hk), (by intro l sl hm; cases hm)⟩
    (by
      intro pre s post st st' hdb ⟨hPa, hPb, hPc⟩ hs
      obtain ⟨hcut, hout⟩ := sliceStep_spec hs
      have hmono : (topFloats pre).Sublist (topFloats (pre ++ [s])) := by
        rw [topFloats_append]; exact List.sublist_append_left _ _
      refine ⟨?_, ?_, ?_⟩
      · rcases hcut with ⟨hcut, _⟩ | ⟨vs, rfl, hcut⟩ | ⟨k, v, hk, hcut, _, hf1, hf2⟩
        · rw [hcut]; exact hPa.trans hmono
        · rw [hcut]
          simpa [topFloats, isFloat] using hPa.trans hmono
        · rw [hcut]
          cases hfl : isFloat s with
          | false =>
            exact ((topFloats_dictSet_nonfloat _ _ (hf2 hfl)).trans hPa).trans hmono
          | true =>
            have hv := hf1 hfl; subst hv
            cases v with
            | float l' tc x =>
              simp only [sliceKey?] at hk; injection hk with hk; subst hk
              have hnew : l' ∉ labelKeys st.cut := by
                intro hin
                obtain ⟨s', hs', hk'⟩ := hPb _ hin
                exact hfresh pre l' tc x post hdb s' hs' hk'
              rw [dictSet_fresh _ hnew, List.map_append, topFloats_append, topFloats_append]
              exact List.Sublist.append hPa (List.Sublist.refl _)
            | _ => cases hfl
      · intro k hk
        rcases hcut with ⟨hcut, _⟩ | ⟨vs, _, hcut⟩ | ⟨k', v, hk', hcut, _, _, _⟩
        · rw [hcut] at hk
          obtain ⟨s', hs', r⟩ := hPb k hk
          exact ⟨s', by simp [hs'], r⟩
        · rw [hcut, labelKeys_append] at hk
          simp only [labelKeys, List.filterMap_cons, List.filterMap_nil, List.append_nil] at hk
          obtain ⟨s', hs', r⟩ := hPb k hk
          exact ⟨s', by simp [hs'], r⟩
        · rw [hcut, dictSet_keys] at hk
          split at hk
          · obtain ⟨s', hs', r⟩ := hPb k hk
            exact ⟨s', by simp [hs'], r⟩
          · rcases List.mem_append.1 hk with hk | hk
            · obtain ⟨s', hs', r⟩ := hPb k hk
              exact ⟨s', by simp [hs'], r⟩
            · simp only [List.mem_singleton] at hk; subst hk
              exact ⟨s, by simp, hk'⟩
      · intro l sl hm
        rcases hout with hout | ⟨l', ts, pf, ants, sl', hd, hsup, hout⟩
        · rw [hout] at hm; exact (hPc l sl hm).trans hmono
        · rw [hout] at hm
          rcases List.mem_append.1 hm with hm | hm
          · exact (hPc l sl hm).trans hmono
          · simp only [List.mem_singleton, Prod.mk.injEq] at hm
            obtain ⟨rfl, rfl⟩ := hm
            exact ((slice_floats_sub_cut hsup).trans hPa).trans hmono)
    h
  subst e
  exact hP.2.2 l sl hmem

/-! ## B6: non-vacuity -/

def exDb2 : MDb :=
  [.const ["(", ")", "->", "wff", "|-", "set"], .var ["p", "q", "x"], .disj ["q", "p"],
   .float "wp" "wff" "p", .float "vx" "set" "x", .float "wq" "wff" "q",
   .ax "ax1" [.app "|-" [], .app "->" [.mv "p", .app "->" [.mv "q", .mv "p"]]],
   .block [.ess "h1" [.app "|-" [], .mv "p"], .disj ["p", "q"],
           .prov "th1" [.app "|-" [], .app "->" [.mv "q", .mv "p"]] ["(", "ax1", ")", "A"]],
   .prov "th2" [.app "|-" [], .app "->" [.mv "p", .mv "p"]] ["(", "th1", "ax1", ")", "AB"]]

/-- the slicer produces two slices on `exDb2` (`List.mergeSort` is defined by well-founded recursion and
does not reduce, so the sorted `$c` / `$v` lists are left as `sortDedup …` terms: the witnesses); the top-level
`$d q p` stays where it is, in front of the floating statements -/
theorem exDb2_slices : ∃ cs1 vs1 cs2 vs2, sliceDatabase exDb2 [] ["th1", "th2"] [] = some [("th1",
  [.const cs1, .var vs1, .disj ["q", "p"], .float "wp" "wff" "p", .float "wq" "wff" "q",
   .ax "ax1" [.app "|-" [], .app "->" [.mv "p", .app "->" [.mv "q", .mv "p"]]],
   .block [.ess "h1" [.app "|-" [], .mv "p"], .disj ["p", "q"],
           .prov "th1" [.app "|-" [], .app "->" [.mv "q", .mv "p"]] ["(", "ax1", ")", "A"]]]),
 ("th2",
  [.const cs2, .var vs2, .disj ["q", "p"], .float "wp" "wff" "p", .float "wq" "wff" "q",
   .ax "ax1" [.app "|-" [], .app "->" [.mv "p", .app "->" [.mv "q", .mv "p"]]],
   .block [.ess "h1" [.app "|-" [], .mv "p"], .disj ["p", "q"],
           .ax "th1" [.app "|-" [], .app "->" [.mv "q", .mv "p"]]],
   .block [.prov "th2" [.app "|-" [], .app "->" [.mv "p", .mv "p"]] ["(", "th1", "ax1", ")", "AB"]]])] :=
  ⟨_, _, _, _, rfl⟩

/-- the hypothesis of B5 holds for `exDb2` -/
example : (exDb2.filterMap sliceKey?).Nodup := by decide
example : FloatLabelsFresh exDb2 := floatLabelsFresh_of_nodup (by decide)

/-- the slicer fails when a proof refers to a label that is not available (`KeyError`) -/
example : sliceDatabase [.prov "t" [.app "|-" []] ["(", "nope", ")", "A"]] [] ["t"] [] = none := by rfl

end MM

#print axioms MM.slice_shape
#print axioms MM.slice_keeps_lemma
#print axioms MM.slice_declares
#print axioms MM.sliceDatabase_declares
#print axioms MM.slice_labels_present
#print axioms MM.slice_needed_present
#print axioms MM.slice_keeps_top_ess
#print axioms MM.cut_labelled
#print axioms MM.dictSet_nodup
#print axioms MM.slice_floats_in_order
#print axioms MM.floatLabelsFresh_of_nodup
#print axioms MM.exDb2_slices
